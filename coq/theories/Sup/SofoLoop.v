(* Closed loop for the simple-one-for-one supervisor: for every spec list and EVERY history of StartChild calls
   and child exits (any running instance, any reason, any time) the number of running instances the machine records
   per spec equals what the specification (a_start / a_exit of Sup/Machine.v) prescribes, and the machine gives up
   exactly when the specification does. *)
From Ergo Require Import Common.Base Sup.Intensity Sup.Machine Sup.MachineProofs.
Local Open Scope Z_scope.

Definition inc_if (b : bool) : nat := if b then 1%nat else 0%nat.

Lemma filter_all {A} (f : A -> bool) l : (forall x, In x l -> f x = true) -> filter f l = l.
Proof.
  induction l as [|a l IH]; intros H; cbn [filter]; [reflexivity|].
  rewrite (H a (or_introl eq_refl)). f_equal. apply IH. intros x Hx. apply H. right. exact Hx.
Qed.

Lemma count_pinsert m p n l :
  ~ In p (map fst l) -> count_pids m (pinsert (p, n) l) = (count_pids m l + inc_if (n =? m)%Z)%nat.
Proof.
  unfold count_pids. induction l as [|q l IH]; intros Hnin; cbn [pinsert filter length fst snd].
  - destruct (n =? m); reflexivity.
  - cbn [map In] in Hnin.
    assert (Hn' : ~ In p (map fst l)) by (intros H; apply Hnin; right; exact H).
    destruct (p <? fst q) eqn:E1.
    + cbn [filter snd]. destruct (n =? m); cbn [length inc_if]; lia.
    + destruct (p =? fst q) eqn:E2; [apply Z.eqb_eq in E2; exfalso; apply Hnin; left; congruence|].
      cbn [filter]. specialize (IH Hn'). destruct (snd q =? m); cbn [length]; rewrite IH; lia.
Qed.

Lemma pinsert_fst p n l x : In x (map fst (pinsert (p, n) l)) -> x = p \/ In x (map fst l).
Proof.
  induction l as [|q l IH]; cbn [pinsert map In fst]; [intuition congruence|].
  destruct (p <? fst q); [cbn [map In fst]; intuition congruence|].
  destruct (p =? fst q) eqn:E; cbn [map In fst]; [intuition congruence|].
  intros [H|H]; [intuition congruence|]. destruct (IH H); intuition congruence.
Qed.

Lemma pinsert_in p n l q : In q (pinsert (p, n) l) -> q = (p, n) \/ In q l.
Proof.
  induction l as [|r l IH]; cbn [pinsert In fst].
  - intros [H|[]]. left. congruence.
  - destruct (p <? fst r).
    + cbn [In]. intros [H|[H|H]]; [left; congruence | right; left; exact H | right; right; exact H].
    + destruct (p =? fst r); cbn [In].
      * intros [H|H]; [left; congruence | right; right; exact H].
      * intros [H|H]; [right; left; exact H|]. destruct (IH H) as [?|?]; [left | right; right]; assumption.
Qed.

Lemma pinsert_nodup p n l : NoDup (map fst l) -> ~ In p (map fst l) -> NoDup (map fst (pinsert (p, n) l)).
Proof.
  induction l as [|q l IH]; intros Hnd Hnin; cbn [pinsert map fst]; [constructor; [tauto|constructor]|].
  cbn [map In] in *. inversion Hnd as [|? ? Hq Hl]; subst.
  destruct (p <? fst q); [cbn [map fst]; constructor; [cbn [In]; tauto | exact Hnd]|].
  destruct (p =? fst q) eqn:E; [apply Z.eqb_eq in E; exfalso; apply Hnin; left; congruence|].
  cbn [map]. constructor; [|apply IH; tauto].
  intros H. apply pinsert_fst in H as [H|H]; [apply Hnin; left; congruence | contradiction].
Qed.

Lemma count_premove m pid n l :
  NoDup (map fst l) -> lookup_pid pid l = Some n ->
  (count_pids m (premove pid l) + inc_if (n =? m)%Z)%nat = count_pids m l.
Proof.
  unfold count_pids, premove. induction l as [|q l IH]; intros Hnd Hl; cbn [lookup_pid] in Hl; [discriminate|].
  cbn [map] in Hnd. inversion Hnd as [|? ? Hq Hnd']; subst. cbn [filter].
  destruct (fst q =? pid) eqn:E.
  - inversion Hl; subst. cbn [negb].
    assert (Hno : filter (fun r => negb (fst r =? pid)) l = l).
    { apply filter_all. intros r Hr. apply negb_true_iff. apply Z.eqb_neq. intros Heq. apply Z.eqb_eq in E.
      apply Hq. rewrite E, <- Heq. apply in_map. exact Hr. }
    rewrite Hno. destruct (snd q =? m); cbn [length inc_if]; lia.
  - cbn [negb filter]. specialize (IH Hnd' Hl). destruct (snd q =? m); cbn [length]; lia.
Qed.

(* ---- the invariant ------------------------------------------------------------------------------------------ *)
Definition srel (ps : list (Z * Z)) (c : cspec) (a : achild) : Prop :=
  c_name c = a_name a /\ c_dis c = a_dis a /\ a_up a = count_pids (c_name c) ps.

Record SIv (k : config) (s : state) (a : astate) (next : Z) : Prop := mk_SIv {
  siv_kind : k_kind k = SOFO;
  siv_shut : shut s = false;
  siv_phase : a_phase a = ANormal;
  siv_rel : Forall2 (srel (pids s)) (specs s) (a_children a);
  siv_names : NoDup (map c_name (specs s));
  siv_pids : NoDup (map fst (pids s));
  siv_fresh : Forall (fun q => fst q < next) (pids s);
  siv_known : Forall (fun q => has_name (snd q) (specs s) = true) (pids s);
  siv_restarts : restarts s = a_restarts a
}.

Lemma srel_other ps ps' l al n :
  (forall m, m <> n -> count_pids m ps' = count_pids m ps) -> ~ In n (map c_name l) ->
  Forall2 (srel ps) l al -> Forall2 (srel ps') l al.
Proof.
  intros Hc Hn H. induction H as [|c a l al [H1 [H2 H3]] _ IH]; constructor.
  - unfold srel. repeat split; auto. rewrite Hc; [exact H3|]. intros E. apply Hn. left. exact E.
  - apply IH. intros E. apply Hn. right. exact E.
Qed.

Lemma srel_update ps ps' n f l al :
  (forall m, m <> n -> count_pids m ps' = count_pids m ps) ->
  (forall a, a_name (f a) = a_name a /\ a_dis (f a) = a_dis a) ->
  (forall a, a_up a = count_pids n ps -> a_up (f a) = count_pids n ps') ->
  NoDup (map c_name l) -> Forall2 (srel ps) l al ->
  (In n (map c_name l) -> Forall2 (srel ps') l (a_update n f al)) /\
  (~ In n (map c_name l) -> Forall2 (srel ps') l al).
Proof.
  intros Hc Hf Hup Hnd H. split; [|intros Hn; eapply srel_other; eauto].
  induction H as [|c a l al [H1 [H2 H3]] Hrest IH]; intros Hin; [contradiction|].
  cbn [map] in Hnd. inversion Hnd as [|? ? Hnot Hnd']; subst. cbn [a_update].
  destruct (a_name a =? n) eqn:E.
  - apply Z.eqb_eq in E. constructor.
    + destruct (Hf a) as [Hfn Hfd]. unfold srel. rewrite Hfn, Hfd. repeat split; auto.
      rewrite H1, E. apply Hup. rewrite H3, H1, E. reflexivity.
    + eapply srel_other; [exact Hc| |exact Hrest]. rewrite <- E, <- H1. exact Hnot.
  - apply Z.eqb_neq in E. constructor.
    + unfold srel. repeat split; auto. rewrite Hc; [exact H3|]. congruence.
    + apply IH; [exact Hnd'|]. destruct Hin as [Hin|Hin]; [congruence | exact Hin].
Qed.

Lemma find_name_in n l c : find_name n l = Some c -> c_name c = n /\ In n (map c_name l).
Proof.
  induction l as [|x l IH]; cbn [find_name]; [discriminate|]. destruct (c_name x =? n) eqn:E.
  - intros H; inversion H; subst. apply Z.eqb_eq in E. cbn [map In]. auto.
  - intros H. destruct (IH H). cbn [map In]. auto.
Qed.

Lemma find_name_none n l : find_name n l = None -> ~ In n (map c_name l).
Proof.
  induction l as [|x l IH]; cbn [find_name map In]; [tauto|]. destruct (c_name x =? n) eqn:E; [discriminate|].
  intros H [Hx|Hx]; [apply Z.eqb_neq in E; contradiction | exact (IH H Hx)].
Qed.

Lemma has_name_find n l : has_name n l = true -> exists c, find_name n l = Some c.
Proof.
  unfold has_name. induction l as [|x l IH]; cbn [existsb find_name]; [discriminate|].
  destruct (c_name x =? n); cbn [orb]; [eauto | exact IH].
Qed.

Lemma find_a_find ps n : forall l al k0,
  Forall2 (srel ps) l al ->
  match find_name n l with
  | Some c => exists i a, a_find n al k0 = Some (i, a) /\ srel ps c a
  | None => a_find n al k0 = None
  end.
Proof.
  intros l al k0 H. revert k0. induction H as [|c a l al Hr _ IH]; intros k0; [reflexivity|].
  cbn [find_name a_find]. destruct Hr as [H1 [H2 H3]]. rewrite <- H1.
  destruct (c_name c =? n); [exists k0, a; unfold srel; auto | apply IH].
Qed.

Lemma srel_none_up ps l al :
  Forall2 (srel ps) l al -> Forall (fun q => has_name (snd q) l = true) ps ->
  a_none_up al = is_nil ps.
Proof.
  intros H Hk. destruct ps as [|q ps]; cbn [is_nil].
  - unfold a_none_up. induction H as [|c a l al [_ [_ H3]] _ IH]; [reflexivity|]. cbn [forallb].
    rewrite H3. cbn. apply IH. constructor.
  - inversion Hk as [|? ? Hq _]; subst.
    unfold a_none_up. clear Hk. induction H as [|c a l al [H1 [_ H3]] _ IH]; [discriminate Hq|].
    cbn [forallb]. unfold has_name in Hq. cbn [existsb] in Hq.
    destruct (c_name c =? snd q) eqn:E.
    + rewrite H3. unfold count_pids. cbn [filter]. apply Z.eqb_eq in E. rewrite E, Z.eqb_refl. reflexivity.
    + cbn [orb] in Hq. rewrite (IH Hq). apply andb_false_r.
Qed.

Lemma srel_view k s al : k_kind k = SOFO -> Forall2 (srel (pids s)) (specs s) al ->
  m_view k s = map (fun c => (a_name c, a_up c)) al.
Proof.
  intros Hk H. unfold m_view. rewrite Hk. induction H as [|c a l al [H1 [_ H3]] _ IH]; [reflexivity|].
  cbn [map]. rewrite IH, H1, H3, H1. reflexivity.
Qed.

Lemma lookup_in pid l n : lookup_pid pid l = Some n -> In (pid, n) l.
Proof.
  induction l as [|q l IH]; cbn [lookup_pid]; [discriminate|]. destruct (fst q =? pid) eqn:E.
  - intros H; inversion H; subst. apply Z.eqb_eq in E. left. destruct q; cbn in *; congruence.
  - intros H. right. exact (IH H).
Qed.

Lemma premove_incl pid l q : In q (premove pid l) -> In q l.
Proof. unfold premove. intros H. apply filter_In in H. tauto. Qed.

Lemma premove_nodup pid l : NoDup (map fst l) -> NoDup (map fst (premove pid l)).
Proof.
  unfold premove. induction l as [|q l IH]; intros H; [constructor|]. cbn [map] in H. inversion H as [|? ? Hq Hl]; subst.
  cbn [filter]. destruct (negb (fst q =? pid)); [|apply IH; exact Hl].
  cbn [map]. constructor; [|apply IH; exact Hl]. intros Hin. apply Hq.
  apply in_map_iff in Hin as [r [Hr Hin]]. apply filter_In in Hin as [Hin _]. rewrite <- Hr. apply in_map. exact Hin.
Qed.

(* ---- the loop ---------------------------------------------------------------------------------------------------- *)
Inductive sev := SStart (name : Z) | SExit (pid reason now : Z).

Definition sofo_after (s1 : state) (r : result) (next : Z) : state * Z * option action :=
  match r with
  | RAct (StartChild c) => (fst (sofo_childStarted s1 (c_name c) next), next + 1, None)
  | RAct DoNothing => (s1, next, None)
  | RAct a => (s1, next, Some a)
  | RErr _ => (s1, next, None)           (* the management call returns an error to its caller *)
  | RPanic => (s1, next, Some DoNothing)
  end.

Definition sofo_loop_step (k : config) (s : state) (next : Z) (e : sev) : state * Z * option action :=
  match e with
  | SStart name => let '(s1, r) := sofo_childSpec s name in sofo_after s1 r next
  | SExit pid reason now =>
      match lookup_pid pid (pids s) with
      | None => (s, next, None)                         (* not a running instance: nothing exits *)
      | Some name => let '(s1, r) := sofo_childTerminated k s name pid reason now in sofo_after s1 r next
      end
  end.

(* specification side; [ps] = pid -> spec name of the running instances (whose instance is exiting) *)
Definition a_sofo_step (k : config) (a : astate) (ps : list (Z * Z)) (e : sev) : astate :=
  match e with
  | SStart name => a_start k a name true
  | SExit pid reason now =>
      match lookup_pid pid ps with
      | None => a
      | Some name => a_exit k a name reason now
      end
  end.

Definition sofo_stop_ok (s' : state) (a' : astate) (st : action) : Prop :=
  match st with
  | TerminateChildren t r =>
      a_phase a' = (if is_nil t then ADead r else AShutting r) /\ t = map fst (pids s') /\
      (forall p, In p t -> In p (wait s')) /\ shut s' = true /\ sreason s' = r /\ r = RExceeded
  | _ => False
  end.

Lemma sofo_started_ok k s a next name f :
  SIv k s a next -> 0 < next -> In name (map c_name (specs s)) ->
  (forall x, a_name (f x) = a_name x /\ a_dis (f x) = a_dis x) ->
  (forall x, a_up x = count_pids name (pids s) -> a_up (f x) = S (count_pids name (pids s))) ->
  SIv k (set_pids s (pinsert (next, name) (pids s))) (a_set_children a (a_update name f (a_children a))) (next + 1).
Proof.
  intros [Hk Hshut Hph Hrel Hnames Hpids Hfresh Hknown Hrs] Hpos Hin Hf Hup.
  assert (Hnotin : ~ In next (map fst (pids s))).
  { intros H. apply in_map_iff in H as [q [Hq H]]. rewrite Forall_forall in Hfresh. specialize (Hfresh q H). lia. }
  constructor; cbn [shut specs pids restarts set_pids a_phase a_children a_restarts a_set_children]; auto.
  - assert (Hc1 : forall m, m <> name -> count_pids m (pinsert (next, name) (pids s)) = count_pids m (pids s)).
    { intros m Hm. rewrite count_pinsert by exact Hnotin.
      destruct (name =? m) eqn:E; [apply Z.eqb_eq in E; congruence | cbn; lia]. }
    assert (Hu1 : forall x, a_up x = count_pids name (pids s) -> a_up (f x) = count_pids name (pinsert (next, name) (pids s))).
    { intros x Hx. rewrite (Hup x Hx), count_pinsert by exact Hnotin. rewrite Z.eqb_refl. cbn. lia. }
    destruct (srel_update (pids s) (pinsert (next, name) (pids s)) name f (specs s) (a_children a) Hc1 Hf Hu1 Hnames Hrel) as [H1 _].
    apply H1. exact Hin.
  - apply pinsert_nodup; assumption.
  - apply Forall_forall. intros q Hq. apply pinsert_in in Hq as [->|Hq]; [cbn; lia|].
    rewrite Forall_forall in Hfresh. specialize (Hfresh q Hq). lia.
  - apply Forall_forall. intros q Hq. apply pinsert_in in Hq as [->|Hq].
    + cbn [snd]. unfold has_name. apply existsb_exists. apply in_map_iff in Hin as [c [Hc Hin]].
      exists c. split; [exact Hin | apply Z.eqb_eq; exact Hc].
    + rewrite Forall_forall in Hknown. exact (Hknown q Hq).
Qed.

Lemma sofo_loop_step_ok k s a next e :
  SIv k s a next -> 0 < next ->
  let '(s', next', st) := sofo_loop_step k s next e in
  let a' := a_sofo_step k a (pids s) e in
  match st with
  | None => SIv k s' a' next' /\ 0 < next'
  | Some act => sofo_stop_ok s' a' act
  end.
Proof.
  intros Hiv Hpos. pose proof Hiv as [Hk Hshut Hph Hrel Hnames Hpids Hfresh Hknown Hrs].
  destruct e as [name|pid reason now]; cbn [sofo_loop_step a_sofo_step].
  - (* StartChild *)
    unfold sofo_childSpec, a_start, a_accepts. rewrite Hshut, Hk, Hph. cbn [negb].
    pose proof (find_a_find (pids s) name _ _ 0%nat Hrel) as Hfa.
    destruct (find_name name (specs s)) as [c|] eqn:Ef.
    + destruct Hfa as [i [ac [Ha [H1 [H2 H3]]]]]. rewrite Ha, <- H2.
      destruct (c_dis c); cbn [sofo_after]; [split; assumption|].
      unfold sofo_childStarted. cbn [fst]. rewrite Hshut.
      destruct (find_name_in _ _ _ Ef) as [Hcn Hin]. rewrite Hcn, Ef. cbn [fst].
      split; [|lia].
      apply (sofo_started_ok k s a next name a_inc Hiv Hpos Hin); [intros x; split; reflexivity | ].
      intros x Hx. cbn. rewrite Hx. reflexivity.
    + rewrite Hfa. cbn [sofo_after]. split; assumption.
  - (* exit of a running instance *)
    destruct (lookup_pid pid (pids s)) as [name|] eqn:El; [|split; assumption].
    assert (Hq : In (pid, name) (pids s)) by (apply lookup_in; exact El).
    assert (Hkn : has_name name (specs s) = true).
    { rewrite Forall_forall in Hknown. exact (Hknown (pid, name) Hq). }
    destruct (has_name_find _ _ Hkn) as [sp Hsp].
    destruct (find_name_in _ _ _ Hsp) as [Hspn Hin].
    rewrite (sofo_unfold k s name pid reason now sp Hshut Hsp). cbn zeta.
    set (ps1 := premove pid (pids s)).
    set (s1 := set_wait (set_pids s ps1) (zremove pid (wait s))).
    (* specification side *)
    unfold a_exit. rewrite Hph.
    pose proof (find_a_find (pids s) name _ _ 0%nat Hrel) as Hfa. rewrite Hsp in Hfa.
    destruct Hfa as [i [ac [Ha [H1 [H2 H3]]]]]. rewrite Ha. cbn [a_set_children a_children a_phase a_restarts]. rewrite Hk.
    set (al1 := a_update name a_dec (a_children a)).
    assert (Hcnt : forall m, m <> name -> count_pids m ps1 = count_pids m (pids s)).
    { intros m Hm. pose proof (count_premove m pid name (pids s) Hpids El) as Hc.
      destruct (name =? m) eqn:E; [apply Z.eqb_eq in E; congruence|]. cbn in Hc. subst ps1. lia. }
    assert (Hrel1 : Forall2 (srel ps1) (specs s) al1).
    { assert (Hf1 : forall x, a_name (a_dec x) = a_name x /\ a_dis (a_dec x) = a_dis x) by (intros x; split; reflexivity).
      assert (Hu1 : forall x, a_up x = count_pids name (pids s) -> a_up (a_dec x) = count_pids name ps1).
      { intros x Hx. pose proof (count_premove name pid name (pids s) Hpids El) as Hc. rewrite Z.eqb_refl in Hc.
        cbn in *. subst ps1. rewrite Hx. lia. }
      destruct (srel_update (pids s) ps1 name a_dec (specs s) (a_children a) Hcnt Hf1 Hu1 Hnames Hrel) as [Hr1 _].
      apply Hr1. exact Hin. }
    assert (Hiv1 : SIv k s1 (a_set_children a al1) next).
    { subst s1. constructor; cbn [shut specs pids restarts set_pids set_wait a_phase a_children a_restarts a_set_children]; auto.
      - apply premove_nodup. exact Hpids.
      - apply Forall_forall. intros q Hq1. rewrite Forall_forall in Hfresh. apply Hfresh. eapply premove_incl; exact Hq1.
      - apply Forall_forall. intros q Hq1. rewrite Forall_forall in Hknown. apply Hknown. eapply premove_incl; exact Hq1. }
    rewrite <- H2.
    destruct (strategy_stops k reason); cbn [orb sofo_after]; [split; assumption|].
    destruct (c_dis sp) eqn:Ed; cbn [sofo_after]; [split; assumption|].
    rewrite <- Hrs. destruct (check (restarts s) now (k_per k) (k_int k)) as [rs ex].
    destruct ex; cbn [negb sofo_after].
    + (* exceeded: give up *)
      unfold a_stop. cbn [a_children a_phase a_set_phase sofo_stop_ok].
      rewrite (srel_none_up ps1 (specs s) al1 Hrel1).
      2:{ apply Forall_forall. intros q Hq1. rewrite Forall_forall in Hknown. apply Hknown. eapply premove_incl; exact Hq1. }
      subst s1. cbn [pids wait shut sreason set_shut set_wait set_restarts set_pids].
      replace (is_nil (map fst ps1)) with (is_nil ps1) by (destruct ps1; reflexivity).
      repeat split; auto. intros p Hp. apply zunion_in. auto.
    + (* restart with a fresh pid *)
      unfold sofo_childStarted. cbn [fst shut set_restarts]. replace (shut s1) with false by (subst s1; cbn; congruence).
      cbn [specs set_restarts]. replace (specs s1) with (specs s) by reflexivity. rewrite Hspn, Hsp. cbn [fst].
      split; [|lia].
      assert (Hiv2 : SIv k (set_restarts s1 rs) (mk_astate al1 ANormal rs) next).
      { destruct Hiv1 as [? ? ? ? ? ? ? ? ?]. constructor; cbn in *; auto. }
      pose proof (sofo_started_ok k (set_restarts s1 rs) (mk_astate al1 ANormal rs) next name a_inc Hiv2 Hpos) as Hst.
      cbn [specs set_restarts pids a_children a_set_children] in Hst.
      replace (a_phase a) with ANormal by (symmetry; exact Hph).
      apply Hst; [exact Hin | intros x; split; reflexivity | ].
      intros x Hx. cbn. rewrite Hx. reflexivity.
Qed.

Fixpoint sofo_loop (k : config) (s : state) (next : Z) (a : astate) (h : list sev) : state * astate * option action :=
  match h with
  | [] => (s, a, None)
  | e :: tl =>
      let '(s', next', st) := sofo_loop_step k s next e in
      let a' := a_sofo_step k a (pids s) e in
      match st with
      | None => sofo_loop k s' next' a' tl
      | Some act => (s', a', Some act)
      end
  end.

Theorem sofo_closed_loop k : forall h s a next,
  SIv k s a next -> 0 < next ->
  let '(s', a', st) := sofo_loop k s next a h in
  match st with
  | None => a_phase a' = ANormal /\ m_view k s' = a_view a' /\ shut s' = false
  | Some act => sofo_stop_ok s' a' act
  end.
Proof.
  induction h as [|e h IH]; intros s a next Hiv Hpos; cbn [sofo_loop].
  - destruct Hiv as [Hk Hshut Hph Hrel _ _ _ _ _]. repeat split; auto. unfold a_view. apply srel_view; assumption.
  - pose proof (sofo_loop_step_ok k s a next e Hiv Hpos) as Hstep.
    destruct (sofo_loop_step k s next e) as [[s' next'] st]. cbn zeta in Hstep.
    destruct st as [act|]; [exact Hstep|]. destruct Hstep as [H1 H2]. apply IH; assumption.
Qed.

Lemma mk_specs_names' cs k0 : map c_name (mk_specs cs k0) = map fst cs.
Proof. revert k0. induction cs as [|[n sg] cs IH]; intros k0; cbn [mk_specs map]; [reflexivity|]. cbn. f_equal. apply IH. Qed.

Lemma sofo_init_rel k cs k0 : k_kind k = SOFO ->
  Forall2 (srel []) (mk_specs cs k0) (a_children (a_init k cs)).
Proof.
  intros Hk. unfold a_init. cbn [a_children]. rewrite Hk. revert k0.
  induction cs as [|[n sg] cs IH]; intros k0; cbn [mk_specs map]; constructor; [|apply IH].
  unfold srel. cbn. auto.
Qed.

(* from ProcessInit on: every simple-one-for-one supervisor (any strategy, intensity, spec list with distinct
   names), every history of StartChild calls and child exits *)
Theorem sofo_closed_loop_from_init k cs h :
  k_kind k = SOFO -> NoDup (map fst cs) ->
  let s := start k cs 0 in
  alive s = true /\
  let '(s', a', st) := sofo_loop k (m s) (nextpid s) (a_init k cs) h in
  match st with
  | None => a_phase a' = ANormal /\ m_view k s' = a_view a' /\ shut s' = false
  | Some act => sofo_stop_ok s' a' act
  end.
Proof.
  intros Hk Hnd. unfold start, init. rewrite Hk. cbn [handleAction]. 
  assert (Hh : forall s0, handleAction k (fuel_of s0) 0 s0 (RAct DoNothing) = (s0, HNil)) by (intros s0; destruct (fuel_of s0); reflexivity).
  rewrite Hh. cbn [alive m nextpid]. split; [reflexivity|].
  apply sofo_closed_loop; [|unfold firstpid; lia].
  constructor; cbn [shut specs pids restarts set_specs empty_state a_phase a_restarts a_init]; auto.
  - apply sofo_init_rel. exact Hk.
  - rewrite mk_specs_names'. exact Hnd.
  - constructor.
Qed.

Example sofo_closed_loop_example :
  let k := mk_config SOFO Permanent false true 1 5 in
  let cs := [(1, false); (2, false)] in
  let s := start k cs 0 in
  match sofo_loop k (m s) (nextpid s) (a_init k cs)
          [SStart 1; SStart 2; SStart 2; SExit 1002 10 100; SExit 1004 10 200] with
  | (s', a', Some (TerminateChildren t r)) => (t, r, a_phase a') = ([1001; 1003], 5, AShutting 5)
  | _ => False
  end.
Proof. vm_compute. reflexivity. Qed.
