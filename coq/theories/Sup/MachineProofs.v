(* Lemmas about the supervisor machines of Sup/Machine.v.  Everything here is for ANY machine state
   (any number of child specs, any pids, any wait set) unless a hypothesis says otherwise. *)
From Ergo Require Import Common.Base Sup.Intensity Sup.Machine.
Local Open Scope Z_scope.

(* ---- small facts about the helpers ------------------------------------------------------------------ *)
Lemma is_nil_true {A} (l : list A) : is_nil l = true <-> l = [].
Proof. destruct l; cbn; split; intros H; congruence. Qed.

Lemma zremove_not_in x l : ~ In x (zremove x l).
Proof.
  unfold zremove. intros H. apply filter_In in H as [_ H].
  rewrite Z.eqb_refl in H. discriminate.
Qed.

Lemma zremove_subset x y l : In y (zremove x l) -> In y l.
Proof. unfold zremove. intros H. apply filter_In in H. tauto. Qed.

Lemma zinsert_in x y l : In y (zinsert x l) <-> y = x \/ In y l.
Proof.
  induction l as [|z l IH]; cbn [zinsert].
  - cbn [In]. intuition congruence.
  - destruct (x <? z) eqn:E1; [cbn [In]; intuition congruence|].
    destruct (x =? z) eqn:E2.
    + apply Z.eqb_eq in E2. subst. cbn [In]. intuition congruence.
    + cbn [In]. rewrite IH. cbn [In]. intuition congruence.
Qed.

Lemma zunion_in a b y : In y (zunion a b) <-> In y a \/ In y b.
Proof.
  unfold zunion. induction a as [|x a IH]; cbn [fold_right In].
  - tauto.
  - rewrite zinsert_in, IH. intuition.
Qed.

Lemma zset_in l y : In y (zset l) <-> In y l.
Proof. unfold zset. change (fold_right zinsert [] l) with (zunion l []). rewrite zunion_in. cbn. tauto. Qed.

Lemma matches_pid name pid c : c_pid c = pid -> matches name pid c = true.
Proof. intros <-. unfold matches. rewrite Z.eqb_refl. apply orb_true_r. Qed.

(* after the scan no spec holds the pid of the terminated child *)
Lemma clear_matching_no_pid name pid l :
  pid <> 0 -> Forall (fun c => c_pid c <> pid) (clear_matching name pid l).
Proof.
  intros Hp. unfold clear_matching. apply Forall_forall. intros c Hc.
  apply in_map_iff in Hc as [c0 [<- _]].
  destruct (matches name pid c0) eqn:E.
  - cbn. congruence.
  - intros Heq. rewrite (matches_pid name pid c0 Heq) in E. discriminate.
Qed.

(* specs that do not match keep everything, matching ones lose only their pid *)
Lemma clear_matching_others name pid l c :
  In c l -> matches name pid c = false -> In c (clear_matching name pid l).
Proof.
  intros Hin Hm. unfold clear_matching. apply in_map_iff. exists c. rewrite Hm. auto.
Qed.

Lemma clear_matching_length name pid l : length (clear_matching name pid l) = length l.
Proof. unfold clear_matching. apply map_length. Qed.

Lemma running_others_clear name pid l :
  running (clear_matching name pid l) = running_others name pid l.
Proof.
  unfold running, running_others, clear_matching.
  induction l as [|c l IH]; cbn [map filter]; [reflexivity|].
  destruct (matches name pid c) eqn:E; cbn [negb andb].
  - cbn [with_pid c_pid]. rewrite Z.eqb_refl. cbn [negb]. exact IH.
  - destruct (c_pid c =? 0); cbn [negb map]; [exact IH | f_equal; exact IH].
Qed.

Lemma last_match_some name pid l i j sp :
  last_match name pid l i = Some (j, sp) ->
  exists c, In c l /\ matches name pid c = true /\ sp = with_pid c 0.
Proof.
  revert i. induction l as [|c l IH]; intros i H; cbn [last_match] in H; [discriminate|].
  destruct (last_match name pid l (S i)) as [[j' sp']|] eqn:E.
  - inversion H; subst. destruct (IH _ E) as [c0 [? [? ?]]]. exists c0. cbn [In]. auto.
  - destruct (matches name pid c) eqn:Em; [|discriminate].
    inversion H; subst. exists c. cbn [In]. auto.
Qed.

Lemma last_match_none name pid l i :
  last_match name pid l i = None -> forall c, In c l -> matches name pid c = false.
Proof.
  revert i. induction l as [|c l IH]; intros i H c0 Hin; [contradiction|].
  cbn [last_match] in H.
  destruct (last_match name pid l (S i)) as [[j' sp']|] eqn:E; [discriminate|].
  destruct (matches name pid c) eqn:Em; [discriminate|].
  destruct Hin as [<-|Hin]; [exact Em | exact (IH _ E _ Hin)].
Qed.

(* ---- every_exit_noticed ---------------------------------------------------------------------------------
   OFO / ARFO, machine not already shutting down: the spec list after childTerminated is the old one with
   the pid of every spec matching (name or pid) cleared and NOTHING else changed, whatever is decided;
   the pid is in no spec and in no wait set afterwards. *)
Definition shutting (k : config) (s : state) : bool := if is_arfo k then mode s =? 3 else shut s.

Ltac destr_match :=
  match goal with
  | |- context [match ?x with _ => _ end] => destruct x eqn:?
  | |- context [if ?x then _ else _] => destruct x eqn:?
  end.

Lemma cft_specs k s : specs (fst (childrenForTermination k s)) = specs s.
Proof. reflexivity. Qed.

Lemma ofo_noticed_specs k s name pid reason now :
  shut s = false ->
  specs (fst (ofo_childTerminated k s name pid reason now)) = clear_matching name pid (specs s).
Proof.
  intros Hs. unfold ofo_childTerminated. cbn [set_wait shut specs]. rewrite Hs.
  cbn [set_specs specs wait mode restartI shut sreason restarts pids].
  repeat (destr_match; cbn [fst specs set_specs set_restarts set_wait set_shut enter_shutdown no_restart]);
    try reflexivity.
  all: unfold no_restart, enter_shutdown; repeat destr_match; reflexivity.
Qed.

Lemma arfo_noticed_specs k s name pid reason now :
  (mode s =? 3) = false ->
  specs (fst (arfo_childTerminated k s name pid reason now)) = clear_matching name pid (specs s).
Proof.
  intros Hs. unfold arfo_childTerminated. cbn [set_wait mode specs]. rewrite Hs.
  cbn [set_specs specs wait mode restartI shut sreason restarts pids].
  unfold no_restart, enter_shutdown, childrenForTermination.
  repeat (destr_match; cbn [fst specs set_specs set_restarts set_wait set_shut set_mode set_sreason set_restartI
                             mode restartI wait]);
    reflexivity.
Qed.

Theorem every_exit_noticed k s name pid reason now :
  k_kind k <> SOFO -> shutting k s = false -> pid <> 0 ->
  let s' := fst (childTerminated k s name pid reason now) in
  specs s' = clear_matching name pid (specs s) /\ Forall (fun c => c_pid c <> pid) (specs s').
Proof.
  intros Hk Hs Hp s'. subst s'.
  assert (H : specs (fst (childTerminated k s name pid reason now)) = clear_matching name pid (specs s)).
  { unfold childTerminated, shutting, is_arfo in *. destruct (k_kind k); try congruence.
    - apply ofo_noticed_specs; exact Hs.
    - apply arfo_noticed_specs; exact Hs.
    - apply arfo_noticed_specs; exact Hs. }
  split; [exact H|]. rewrite H. apply clear_matching_no_pid; exact Hp.
Qed.

(* SOFO: the instance record of the pid is removed before anything else (also while shutting down) *)
Lemma premove_not_in pid l : ~ In pid (map fst (premove pid l)).
Proof.
  unfold premove. intros H. apply in_map_iff in H as [q [Hq H]]. apply filter_In in H as [_ H].
  subst. rewrite Z.eqb_refl in H. discriminate.
Qed.

Lemma sofo_pids_after k s name pid reason now :
  pids (fst (sofo_childTerminated k s name pid reason now)) = premove pid (pids s).
Proof.
  unfold sofo_childTerminated.
  cbn [set_wait set_pids shut specs pids wait mode restartI sreason restarts].
  repeat (destr_match; cbn [fst pids set_pids set_restarts set_wait set_shut specs wait mode restartI shut sreason restarts]);
    reflexivity.
Qed.

Theorem sofo_exit_noticed k s name pid reason now :
  ~ In pid (map fst (pids (fst (sofo_childTerminated k s name pid reason now)))).
Proof. rewrite sofo_pids_after. apply premove_not_in. Qed.

(* ==== decisions of supOFO.childTerminated, for any state =================================================
   Hypotheses common to all: the machine is not shutting down and the exit matches a spec; [sp] is that
   spec (the last matching one) with its pid cleared, [run] the pids of all other running specs. *)
Section OFO.
  Variables (k : config) (s : state) (name pid reason now : Z).
  Variables (j : nat) (sp : cspec).
  Hypothesis Hshut : shut s = false.
  Hypothesis Hfound : last_match name pid (specs s) 0 = Some (j, sp).
  Let run := running_others name pid (specs s).
  Let s1 := set_specs (set_wait s (zremove pid (wait s))) (clear_matching name pid (specs s)).

  Lemma ofo_unfold :
    ofo_childTerminated k s name pid reason now =
    if c_dis sp then
      if is_nil run && k_auto k then (s1, RAct (Terminate reason)) else (s1, RAct DoNothing)
    else if strategy_stops k reason then no_restart false k s1 sp run reason
    else
      let '(rs, exceeded) := check (restarts s) now (k_per k) (k_int k) in
      let s2 := set_restarts s1 rs in
      if negb exceeded then (s2, RAct (StartChild sp))
      else (enter_shutdown false s2 run RExceeded, RAct (TerminateChildren (running (specs s2)) RExceeded)).
  Proof.
    unfold ofo_childTerminated. cbn [set_wait shut specs]. rewrite Hshut.
    cbn [set_specs specs wait mode restartI shut sreason restarts pids]. rewrite Hfound.
    reflexivity.
  Qed.

  (* one-for-one: the only child ever (re)started by a child exit is the one that exited, and the
     records of all other children are untouched *)
  Theorem ofo_restarts_only_failed c s' :
    ofo_childTerminated k s name pid reason now = (s', RAct (StartChild c)) ->
    c = sp /\ specs s' = clear_matching name pid (specs s) /\
    (forall c', In c' (specs s) -> matches name pid c' = false -> In c' (specs s')).
  Proof.
    intros H.
    assert (Hsp : specs s' = clear_matching name pid (specs s)).
    { pose proof (ofo_noticed_specs k s name pid reason now Hshut) as E. rewrite H in E. exact E. }
    rewrite ofo_unfold in H. unfold no_restart in H.
    split; [|split; [exact Hsp|]].
    - destruct (c_dis sp); [destruct (is_nil run && k_auto k); inversion H|].
      destruct (strategy_stops k reason).
      + destruct (c_sig sp); [destruct (is_nil run); inversion H|].
        destruct (is_nil run && k_auto k); inversion H.
      + destruct (check (restarts s) now (k_per k) (k_int k)) as [rs ex].
        destruct ex; cbn [negb] in H; inversion H. reflexivity.
    - intros c' Hin Hm. rewrite Hsp. apply clear_matching_others; assumption.
  Qed.

  (* Temporary: never restarted *)
  Theorem ofo_temporary_never_restarted :
    k_strat k = Temporary -> forall c s', ofo_childTerminated k s name pid reason now <> (s', RAct (StartChild c)).
  Proof.
    intros Hk c s' H. rewrite ofo_unfold in H. unfold strategy_stops, no_restart in H. rewrite Hk in H.
    destruct (c_dis sp); [destruct (is_nil run && k_auto k); inversion H|].
    destruct (c_sig sp); [destruct (is_nil run); inversion H|].
    destruct (is_nil run && k_auto k); inversion H.
  Qed.

  (* Transient: restarted iff the reason is abnormal (and the spec is enabled and the intensity allows it) *)
  Theorem ofo_transient_iff_abnormal :
    k_strat k = Transient -> c_dis sp = false ->
    snd (check (restarts s) now (k_per k) (k_int k)) = false ->
    (exists s', ofo_childTerminated k s name pid reason now = (s', RAct (StartChild sp))) <-> is_normal reason = false.
  Proof.
    intros Hk Hd Hex. rewrite ofo_unfold. unfold strategy_stops, no_restart. rewrite Hk, Hd.
    destruct (check (restarts s) now (k_per k) (k_int k)) as [rs ex]. cbn [snd] in Hex. subst ex.
    destruct (is_normal reason); cbn [negb].
    - split; [|discriminate]. intros [s' H].
      destruct (c_sig sp); [destruct (is_nil run); inversion H|].
      destruct (is_nil run && k_auto k); inversion H.
    - split; [reflexivity|]. intros _. eexists. reflexivity.
  Qed.

  (* Permanent: restarted after any termination *)
  Theorem ofo_permanent_always :
    k_strat k = Permanent -> c_dis sp = false ->
    snd (check (restarts s) now (k_per k) (k_int k)) = false ->
    exists s', ofo_childTerminated k s name pid reason now = (s', RAct (StartChild sp)).
  Proof.
    intros Hk Hd Hex. rewrite ofo_unfold. unfold strategy_stops. rewrite Hk, Hd.
    destruct (check (restarts s) now (k_per k) (k_int k)) as [rs ex]. cbn [snd] in Hex. subst ex.
    cbn [negb]. eexists. reflexivity.
  Qed.

  (* a disabled child stays down: its exit never starts anything; the supervisor at most auto-shuts down *)
  Theorem ofo_disabled_stays_down :
    c_dis sp = true ->
    ofo_childTerminated k s name pid reason now =
      (s1, RAct (if is_nil run && k_auto k then Terminate reason else DoNothing)).
  Proof. intros Hd. rewrite ofo_unfold, Hd. destruct (is_nil run && k_auto k); reflexivity. Qed.

  (* a significant child that is not to be restarted ends the supervisor with the child's reason: at once
     if nothing else runs, otherwise after telling all running children to stop (and waiting for them) *)
  Theorem ofo_significant_shutdown :
    c_dis sp = false -> strategy_stops k reason = true -> c_sig sp = true ->
    ofo_childTerminated k s name pid reason now =
      if is_nil run then (s1, RAct (Terminate reason))
      else (set_shut (set_wait s1 (zset run)) true reason, RAct (TerminateChildren run reason)).
  Proof.
    intros Hd Hst Hsig. rewrite ofo_unfold, Hd, Hst. unfold no_restart. rewrite Hsig. reflexivity.
  Qed.

  (* auto-shutdown: a not significant child that is not to be restarted ends the supervisor iff it was the
     last running child and auto-shutdown is enabled *)
  Theorem ofo_autoshutdown :
    c_dis sp = false -> strategy_stops k reason = true -> c_sig sp = false ->
    ofo_childTerminated k s name pid reason now =
      (s1, RAct (if is_nil run && k_auto k then Terminate reason else DoNothing)).
  Proof.
    intros Hd Hst Hsig. rewrite ofo_unfold, Hd, Hst. unfold no_restart. rewrite Hsig.
    destruct (is_nil run && k_auto k); reflexivity.
  Qed.

  (* C09: the check says exceeded -> every running child is told to stop with the exceeded reason, the
     machine waits for exactly these, and will terminate with the exceeded reason *)
  Theorem ofo_gives_up rs :
    c_dis sp = false -> strategy_stops k reason = false ->
    check (restarts s) now (k_per k) (k_int k) = (rs, true) ->
    exists s', ofo_childTerminated k s name pid reason now = (s', RAct (TerminateChildren run RExceeded)) /\
               running (specs s') = run /\ wait s' = zset run /\ shut s' = true /\ sreason s' = RExceeded.
  Proof.
    intros Hd Hst Hex. rewrite ofo_unfold, Hd, Hst, Hex. cbn [negb].
    subst s1 run. eexists. split.
    - cbn [set_restarts specs set_specs set_wait]. rewrite running_others_clear. reflexivity.
    - unfold enter_shutdown.
      cbn [set_restarts specs set_specs set_wait set_shut wait shut sreason].
      rewrite running_others_clear. auto.
  Qed.
End OFO.

(* ==== childrenForTermination / childForStart ================================================================ *)
Definition stoppable (c : cspec) : bool := negb (c_dis c) && negb (c_pid c =? 0).

(* without KeepOrder: all running enabled specs of the range, last spec first *)
Lemma cft_rev_all l : cft_rev false l = map c_pid (filter stoppable l).
Proof.
  induction l as [|c l IH]; cbn [cft_rev filter map]; [reflexivity|]. unfold stoppable at 1.
  destruct (c_dis c); cbn [negb andb]; [exact IH|].
  destruct (c_pid c =? 0); cbn [negb map]; [exact IH | f_equal; exact IH].
Qed.

(* with KeepOrder: only the first of them, i.e. the LAST running enabled spec of the range *)
Lemma cft_rev_keep l : cft_rev true l = firstn 1 (cft_rev false l).
Proof.
  induction l as [|c l IH]; cbn [cft_rev]; [reflexivity|].
  destruct (c_dis c); [exact IH|]. destruct (c_pid c =? 0); [exact IH|]. reflexivity.
Qed.

Theorem keeporder_stops_reverse_one_by_one k s :
  k_keep k = true ->
  let t := snd (childrenForTermination k s) in
  let all := map c_pid (filter stoppable (rev (skipn (restartI s) (specs s)))) in
  t = firstn 1 all /\ (length t <= 1)%nat.
Proof.
  intros Hk t all. subst t all. unfold childrenForTermination. cbn [snd]. rewrite Hk, cft_rev_keep, cft_rev_all.
  split; [reflexivity|]. apply firstn_le_length.
Qed.

Theorem nokeeporder_stops_all_reverse k s :
  k_keep k = false ->
  snd (childrenForTermination k s) = map c_pid (filter stoppable (rev (skipn (restartI s) (specs s)))).
Proof. intros Hk. unfold childrenForTermination. cbn [snd]. rewrite Hk. apply cft_rev_all. Qed.

(* nothing to stop <-> no running enabled spec in the range (either mode) *)
Lemma cft_rev_nil keep l : cft_rev keep l = [] <-> filter stoppable l = [].
Proof.
  induction l as [|c l IH]; cbn [cft_rev filter]; [tauto|]. unfold stoppable at 1.
  destruct (c_dis c); cbn [negb andb]; [exact IH|].
  destruct (c_pid c =? 0); cbn [negb]; [exact IH|].
  destruct keep; split; discriminate.
Qed.

Lemma filter_nil_forall {A} (f : A -> bool) l : filter f l = [] <-> forall x, In x l -> f x = false.
Proof.
  induction l as [|a l IH]; cbn [filter In]; [intuition|].
  destruct (f a) eqn:E; split.
  - discriminate.
  - intros H. specialize (H a (or_introl eq_refl)). congruence.
  - intros H x [<-|Hx]; [exact E | apply IH; assumption].
  - intros H. apply IH. intros x Hx. apply H. auto.
Qed.

Theorem nothing_to_stop_means_range_down k s :
  snd (childrenForTermination k s) = [] ->
  forall c, In c (skipn (restartI s) (specs s)) -> c_dis c = false -> c_pid c = 0.
Proof.
  unfold childrenForTermination. cbn [snd]. intros H c Hin Hd.
  apply cft_rev_nil in H. rewrite filter_nil_forall in H.
  specialize (H c). rewrite <- in_rev in H. specialize (H Hin). unfold stoppable in H. rewrite Hd in H.
  cbn [negb andb] in H. apply negb_false_iff in H. apply Z.eqb_eq in H. exact H.
Qed.

(* the ARFO panic sites inside childForStart: unreachable when nothing is left to stop and the range has
   an enabled spec (it always has one: the spec whose exit started the restart is enabled) *)
Lemma cfs_some l : (forall c, In c l -> c_dis c = false -> c_pid c = 0) ->
  (exists c, In c l /\ c_dis c = false) -> exists c, cfs l = Some c /\ In c l /\ c_dis c = false /\ c_pid c = 0.
Proof.
  induction l as [|c l IH]; intros Hall [c0 [Hin Hd]]; [contradiction|]. cbn [cfs].
  destruct (c_dis c) eqn:Ed.
  - destruct Hin as [<-|Hin]; [congruence|].
    destruct IH as [c1 [? [? [? ?]]]]; [intros; apply Hall; cbn [In]; auto | eauto |].
    exists c1. cbn [In]. auto.
  - rewrite (Hall c (or_introl eq_refl) Ed). cbn [Z.eqb negb]. exists c. cbn [In].
    split; [reflexivity|]. split; [auto|]. split; [exact Ed|]. apply Hall; cbn [In]; auto.
Qed.

Theorem childForStart_no_panic k s :
  snd (childrenForTermination k s) = [] ->
  (exists c, In c (skipn (restartI s) (specs s)) /\ c_dis c = false) ->
  exists c, childForStart (fst (childrenForTermination k s)) = Some c /\ c_dis c = false /\ c_pid c = 0.
Proof.
  intros Hnil Hex. unfold childForStart. cbn [childrenForTermination fst specs restartI set_wait].
  destruct (cfs_some (skipn (restartI s) (specs s))) as [c [H1 [_ [H3 H4]]]].
  - apply (nothing_to_stop_means_range_down k s Hnil).
  - exact Hex.
  - exists c. auto.
Qed.

(* ==== decisions of supARFO.childTerminated outside a restart / shutdown, for any state ====================== *)
Section ARFO.
  Variables (k : config) (s : state) (name pid reason now : Z).
  Variables (j : nat) (sp : cspec).
  Hypothesis Hm3 : (mode s =? 3) = false.
  Hypothesis Hm2 : (mode s =? 2) = false.
  Hypothesis Hfound : last_match name pid (specs s) 0 = Some (j, sp).
  Let rest := match k_kind k with RFO => true | _ => false end.
  Let run := running_others name pid (specs s).
  Let s1 := set_specs (set_wait s (zremove pid (wait s))) (clear_matching name pid (specs s)).

  Lemma arfo_unfold :
    arfo_childTerminated k s name pid reason now =
    if c_dis sp then
      if is_nil run && k_auto k then (s1, RAct (Terminate reason)) else (s1, RAct DoNothing)
    else if strategy_stops k reason then no_restart true k s1 sp run reason
    else
      let '(rs, exceeded) := check (restarts s) now (k_per k) (k_int k) in
      let s2 := set_restarts s1 rs in
      if exceeded then (enter_shutdown true s2 run RExceeded, RAct (TerminateChildren run RExceeded))
      else
        let s3 := if rest then set_restartI s2 j else s2 in
        let '(s4, t) := childrenForTermination k s3 in
        if is_nil t then
          match childForStart s4 with
          | None => (s4, RPanic)
          | Some c => (set_mode s4 1, RAct (StartChild c))
          end
        else (set_mode s4 2, RAct (TerminateChildren t reason)).
  Proof.
    unfold arfo_childTerminated. cbn [set_wait mode specs]. rewrite Hm3.
    cbn [set_specs set_wait specs wait mode restartI shut sreason restarts pids]. rewrite Hfound, Hm2.
    reflexivity.
  Qed.

  (* Temporary: an exit never triggers a restart (neither a start nor a stop-for-restart) *)
  Theorem arfo_temporary_never_restarted :
    k_strat k = Temporary ->
    forall s' r, arfo_childTerminated k s name pid reason now = (s', r) ->
    (forall c, r <> RAct (StartChild c)) /\ mode s' <> 2 /\ r <> RPanic.
  Proof.
    intros Hk s' r H. rewrite arfo_unfold in H. unfold strategy_stops, no_restart, enter_shutdown in H.
    rewrite Hk in H. subst s1.
    assert (Hm : mode s <> 2) by (intros E; rewrite E in Hm2; discriminate).
    destruct (c_dis sp); [destruct (is_nil run && k_auto k); inversion H; subst; cbn; repeat split; congruence|].
    destruct (c_sig sp).
    - destruct (is_nil run); inversion H; subst; cbn; repeat split; congruence.
    - destruct (is_nil run && k_auto k); inversion H; subst; cbn; repeat split; congruence.
  Qed.

  (* Transient + normal/shutdown reason: nothing is restarted either *)
  Theorem arfo_transient_normal_not_restarted :
    k_strat k = Transient -> is_normal reason = true ->
    forall s' r, arfo_childTerminated k s name pid reason now = (s', r) ->
    (forall c, r <> RAct (StartChild c)) /\ mode s' <> 2 /\ r <> RPanic.
  Proof.
    intros Hk Hn s' r H. rewrite arfo_unfold in H. unfold strategy_stops, no_restart, enter_shutdown in H.
    rewrite Hk, Hn in H. subst s1.
    assert (Hm : mode s <> 2) by (intros E; rewrite E in Hm2; discriminate).
    destruct (c_dis sp); [destruct (is_nil run && k_auto k); inversion H; subst; cbn; repeat split; congruence|].
    destruct (c_sig sp).
    - destruct (is_nil run); inversion H; subst; cbn; repeat split; congruence.
    - destruct (is_nil run && k_auto k); inversion H; subst; cbn; repeat split; congruence.
  Qed.

  Theorem arfo_disabled_stays_down :
    c_dis sp = true ->
    arfo_childTerminated k s name pid reason now =
      (s1, RAct (if is_nil run && k_auto k then Terminate reason else DoNothing)).
  Proof. intros Hd. rewrite arfo_unfold, Hd. destruct (is_nil run && k_auto k); reflexivity. Qed.

  Theorem arfo_significant_shutdown :
    c_dis sp = false -> strategy_stops k reason = true -> c_sig sp = true ->
    arfo_childTerminated k s name pid reason now =
      if is_nil run then (s1, RAct (Terminate reason))
      else (set_sreason (set_mode (set_wait s1 (zset run)) 3) reason, RAct (TerminateChildren run reason)).
  Proof.
    intros Hd Hst Hsig. rewrite arfo_unfold, Hd, Hst. unfold no_restart. rewrite Hsig. reflexivity.
  Qed.

  Theorem arfo_autoshutdown :
    c_dis sp = false -> strategy_stops k reason = true -> c_sig sp = false ->
    arfo_childTerminated k s name pid reason now =
      (s1, RAct (if is_nil run && k_auto k then Terminate reason else DoNothing)).
  Proof.
    intros Hd Hst Hsig. rewrite arfo_unfold, Hd, Hst. unfold no_restart. rewrite Hsig.
    destruct (is_nil run && k_auto k); reflexivity.
  Qed.

  Theorem arfo_gives_up rs :
    c_dis sp = false -> strategy_stops k reason = false ->
    check (restarts s) now (k_per k) (k_int k) = (rs, true) ->
    exists s', arfo_childTerminated k s name pid reason now = (s', RAct (TerminateChildren run RExceeded)) /\
               running (specs s') = run /\ wait s' = zset run /\ mode s' = 3 /\ sreason s' = RExceeded.
  Proof.
    intros Hd Hst Hex. rewrite arfo_unfold, Hd, Hst, Hex. subst s1 run.
    eexists. split; [reflexivity|]. unfold enter_shutdown.
    cbn [set_restarts specs set_specs set_wait set_mode set_sreason wait mode sreason].
    rewrite running_others_clear. auto.
  Qed.

  (* a restart-worthy exit (enabled spec, strategy says restart, intensity not exceeded):
     the restart range starts at 0 (all-for-one) or at the position of the exited spec (rest-for-one);
     the answer is the stop list of [childrenForTermination] over that range (machine goes to mode 2), or,
     if nothing in the range runs, the start of the first enabled spec of the range (mode 1);
     specs in front of the range are not touched by either. *)
  Theorem arfo_restart_decision rs :
    c_dis sp = false -> strategy_stops k reason = false ->
    check (restarts s) now (k_per k) (k_int k) = (rs, false) ->
    let s2 := set_restarts s1 rs in
    let s3 := if rest then set_restartI s2 j else s2 in
    let t := snd (childrenForTermination k s3) in
    let s4 := fst (childrenForTermination k s3) in
    arfo_childTerminated k s name pid reason now =
      if is_nil t then
        match childForStart s4 with
        | None => (s4, RPanic)
        | Some c => (set_mode s4 1, RAct (StartChild c))
        end
      else (set_mode s4 2, RAct (TerminateChildren t reason)).
  Proof.
    intros Hd Hst Hex. rewrite arfo_unfold, Hd, Hst, Hex. cbn zeta.
    destruct (childrenForTermination k (if rest then set_restartI (set_restarts s1 rs) j else set_restarts s1 rs)).
    reflexivity.
  Qed.
End ARFO.

(* ==== supARFO while stopping for a restart (mode 2) ============================================================ *)
Section ARFO_stopping.
  Variables (k : config) (s : state) (name pid reason now : Z).
  Variables (j : nat) (sp : cspec).
  Hypothesis Hm2 : mode s = 2.
  Hypothesis Hfound : last_match name pid (specs s) 0 = Some (j, sp).
  Let s1 := set_specs (set_wait s (zremove pid (wait s))) (clear_matching name pid (specs s)).
  (* a child in front of the range died too: the range is widened *)
  Let s2 := if Nat.ltb j (restartI s) then set_restartI s1 j else s1.

  Lemma arfo_stopping_unfold :
    arfo_childTerminated k s name pid reason now =
    if negb (is_nil (wait s2)) then (s2, RAct (TerminateChildren [] 0))
    else
      let '(s3, t) := childrenForTermination k s2 in
      if negb (is_nil t) then (s3, RAct (TerminateChildren t reason))
      else match childForStart (set_mode s3 1) with
           | None => (set_mode s3 1, RPanic)
           | Some c => (set_restartI (set_mode s3 1) 0, RAct (StartChild c))
           end.
  Proof.
    unfold arfo_childTerminated. cbn [set_wait mode specs]. rewrite Hm2. cbn [Z.eqb Pos.eqb].
    cbn [set_specs set_wait specs wait mode restartI shut sreason restarts pids]. rewrite Hfound, Hm2.
    cbn [Z.eqb Pos.eqb]. reflexivity.
  Qed.

  (* while an exit that was asked for is still awaited nothing else happens: no start, no further stop,
     no panic -- whichever child it was that terminated (expected or not) *)
  Theorem arfo_stopping_waits :
    wait s2 <> [] ->
    arfo_childTerminated k s name pid reason now = (s2, RAct (TerminateChildren [] 0)).
  Proof.
    intros Hw. rewrite arfo_stopping_unfold. destruct (wait s2); [congruence|]. reflexivity.
  Qed.

  (* when the last awaited child is gone: either more children of the (possibly widened) range are
     stopped, or the range is entirely down and its first enabled spec is started -- no panic *)
  Theorem arfo_stopping_done :
    wait s2 = [] ->
    (exists c, In c (skipn (restartI s2) (specs s2)) /\ c_dis c = false) ->
    let t := snd (childrenForTermination k s2) in
    (t <> [] /\ arfo_childTerminated k s name pid reason now =
                (fst (childrenForTermination k s2), RAct (TerminateChildren t reason))) \/
    (t = [] /\ exists c, c_dis c = false /\ c_pid c = 0 /\
               arfo_childTerminated k s name pid reason now =
               (set_restartI (set_mode (fst (childrenForTermination k s2)) 1) 0, RAct (StartChild c))).
  Proof.
    intros Hw Hex t. subst t. rewrite arfo_stopping_unfold, Hw. cbn [is_nil negb].
    destruct (childrenForTermination k s2) as [s3 t] eqn:E. cbn [fst snd].
    destruct t as [|p t]; cbn [is_nil negb].
    - right. split; [reflexivity|].
      destruct (childForStart_no_panic k s2) as [c [Hc [Hd Hp]]].
      + rewrite E. reflexivity.
      + exact Hex.
      + rewrite E in Hc. cbn [fst] in Hc.
        assert (Hc' : childForStart (set_mode s3 1) = Some c) by exact Hc.
        rewrite Hc'. exists c. auto.
    - left. split; [discriminate|reflexivity].
  Qed.
End ARFO_stopping.

(* ==== shutting down: the machine only drains its wait set, then terminates with the stored reason ============ *)
Theorem shutdown_drains k s name pid reason now :
  shutting k s = true -> k_kind k <> SOFO ->
  let w := zremove pid (wait s) in
  childTerminated k s name pid reason now =
    (set_wait s w, RAct (if is_nil w then Terminate (sreason s) else TerminateChildren [] 0)).
Proof.
  intros Hs Hk w. subst w. unfold childTerminated, shutting, is_arfo in *.
  destruct (k_kind k); try congruence.
  - unfold ofo_childTerminated. cbn [set_wait shut wait sreason]. rewrite Hs.
    destruct (zremove pid (wait s)); reflexivity.
  - unfold arfo_childTerminated. cbn [set_wait mode wait sreason]. rewrite Hs.
    destruct (zremove pid (wait s)); reflexivity.
  - unfold arfo_childTerminated. cbn [set_wait mode wait sreason]. rewrite Hs.
    destruct (zremove pid (wait s)); reflexivity.
Qed.

Theorem sofo_shutdown_drains k s name pid reason now :
  shut s = true ->
  let w := zremove pid (wait s) in
  sofo_childTerminated k s name pid reason now =
    (set_wait (set_pids s (premove pid (pids s))) w,
     RAct (if is_nil w then Terminate (sreason s) else TerminateChildren [] 0)).
Proof.
  intros Hs w. subst w. unfold sofo_childTerminated. cbn [set_wait set_pids shut wait sreason]. rewrite Hs.
  destruct (zremove pid (wait s)); reflexivity.
Qed.

(* SOFO decisions (not shutting down, exit of an instance of a known spec) *)
Section SOFO.
  Variables (k : config) (s : state) (name pid reason now : Z) (sp : cspec).
  Hypothesis Hshut : shut s = false.
  Hypothesis Hfound : find_name name (specs s) = Some sp.
  Let s1 := set_wait (set_pids s (premove pid (pids s))) (zremove pid (wait s)).

  Lemma sofo_unfold :
    sofo_childTerminated k s name pid reason now =
    if strategy_stops k reason then (s1, RAct DoNothing)
    else if c_dis sp then (s1, RAct DoNothing)
    else let '(rs, exceeded) := check (restarts s) now (k_per k) (k_int k) in
         let s2 := set_restarts s1 rs in
         if negb exceeded then (s2, RAct (StartChild sp))
         else let t := map fst (pids s2) in
              (set_shut (set_wait s2 (zunion t (wait s2))) true RExceeded, RAct (TerminateChildren t RExceeded)).
  Proof.
    unfold sofo_childTerminated. cbn [set_wait set_pids shut specs]. rewrite Hshut, Hfound. reflexivity.
  Qed.

  Theorem sofo_restart_iff :
    snd (check (restarts s) now (k_per k) (k_int k)) = false ->
    (exists s', sofo_childTerminated k s name pid reason now = (s', RAct (StartChild sp))) <->
    strategy_stops k reason = false /\ c_dis sp = false.
  Proof.
    intros Hex. rewrite sofo_unfold.
    destruct (check (restarts s) now (k_per k) (k_int k)) as [rs ex]. cbn [snd] in Hex. subst ex.
    destruct (strategy_stops k reason); [split; [intros [? H]; inversion H | intros [? ?]; discriminate]|].
    destruct (c_dis sp); [split; [intros [? H]; inversion H | intros [? ?]; discriminate]|].
    cbn [negb]. split; [auto|]. intros _. eexists. reflexivity.
  Qed.

  Theorem sofo_gives_up rs :
    strategy_stops k reason = false -> c_dis sp = false ->
    check (restarts s) now (k_per k) (k_int k) = (rs, true) ->
    let t := map fst (premove pid (pids s)) in
    exists s', sofo_childTerminated k s name pid reason now = (s', RAct (TerminateChildren t RExceeded)) /\
               map fst (pids s') = t /\ (forall p, In p t -> In p (wait s')) /\
               shut s' = true /\ sreason s' = RExceeded.
  Proof.
    intros Hst Hd Hex t. subst t. rewrite sofo_unfold, Hst, Hd, Hex. cbn [negb]. subst s1.
    eexists. split; [reflexivity|].
    cbn [set_shut set_wait set_restarts set_pids pids wait shut sreason].
    split; [reflexivity|]. split; [|auto]. intros p Hp. apply zunion_in. auto.
  Qed.
End SOFO.

(* ==== the start chain (childStarted in starting mode) ========================================================== *)
Definition startable (c : cspec) : bool := (c_pid c =? 0) && negb (c_dis c).

(* next_to_start finds the FIRST startable spec: everything in front of it is running or disabled, and
   the answer carries that spec with its position as index *)
Lemma next_to_start_some l i c :
  next_to_start l i = Some c ->
  exists pre c0 post, l = pre ++ c0 :: post /\ forallb (fun x => negb (startable x)) pre = true /\
                      startable c0 = true /\ c_name c = c_name c0 /\ c_i c = (i + length pre)%nat /\
                      c_dis c = false /\ c_pid c = 0.
Proof.
  revert i. induction l as [|x l IH]; intros i H; cbn [next_to_start] in H; [discriminate|].
  destruct (c_pid x =? 0) eqn:Ep; cbn [negb] in H.
  - destruct (c_dis x) eqn:Ed.
    + destruct (IH _ H) as [pre [c0 [post [-> [Hpre [Hs [Hn [Hi [Hd Hp]]]]]]]]].
      exists (x :: pre), c0, post. cbn [app forallb length]. unfold startable at 1. rewrite Ep, Ed. cbn.
      repeat split; auto. lia.
    + inversion H; subst. exists [], x, l. cbn [app forallb length c_name c_i c_dis c_pid].
      unfold startable. rewrite Ep, Ed. apply Z.eqb_eq in Ep. repeat split; auto; lia.
  - destruct (IH _ H) as [pre [c0 [post [-> [Hpre [Hs [Hn [Hi [Hd Hp]]]]]]]]].
    exists (x :: pre), c0, post. cbn [app forallb length]. unfold startable at 1. rewrite Ep. cbn.
    repeat split; auto. lia.
Qed.

Lemma next_to_start_none l i :
  next_to_start l i = None -> forall x, In x l -> startable x = false.
Proof.
  revert i. induction l as [|x l IH]; intros i H y Hy; [contradiction|]. cbn [next_to_start] in H.
  unfold startable. destruct (c_pid x =? 0) eqn:Ep; cbn [negb] in H.
  - destruct (c_dis x) eqn:Ed; [|discriminate].
    destruct Hy as [<-|Hy]; [rewrite Ep, Ed; reflexivity | exact (IH _ H _ Hy)].
  - destruct Hy as [<-|Hy]; [rewrite Ep; reflexivity | exact (IH _ H _ Hy)].
Qed.

(* all-for-one / rest-for-one restart all children of the range in spec order:
   in starting mode, childStarted for position i records the pid at position i only, then answers
   - the start of the first startable (not running, enabled) spec behind i: nothing startable is skipped,
     and the indices of successive starts increase; or
   - nothing, and then no startable spec is left behind i and the machine is back in normal mode. *)
Theorem afo_restarts_all_in_spec_order s i name pid sp :
  mode s = 1 -> nth_error (specs s) i = Some sp -> c_name sp = name ->
  let s1 := set_specs s (update_nth i (fun c => with_pid c pid) (specs s)) in
  (exists c pre c0 post,
      ofo_childStarted true s i name pid = (s1, RAct (StartChild c)) /\
      skipn (S i) (specs s1) = pre ++ c0 :: post /\
      forallb (fun x => negb (startable x)) pre = true /\ startable c0 = true /\
      c_name c = c_name c0 /\ c_i c = (S i + length pre)%nat /\ (i < c_i c)%nat) \/
  (ofo_childStarted true s i name pid = (set_mode s1 0, RAct DoNothing) /\
   forall x, In x (skipn (S i) (specs s1)) -> startable x = false).
Proof.
  intros Hm Hn Hname s1. unfold ofo_childStarted. rewrite Hn, Hname, Z.eqb_refl, Hm. cbn [negb Z.eqb Pos.eqb].
  fold s1. destruct (Nat.eqb (S i) (length (specs s))) eqn:El.
  - right. split; [reflexivity|]. intros x Hx. exfalso.
    apply Nat.eqb_eq in El.
    assert (Hlen : length (specs s1) = length (specs s)).
    { subst s1. cbn [specs set_specs]. clear. revert i. induction (specs s) as [|a l IH]; intros [|i]; cbn; auto. }
    rewrite skipn_all2 in Hx; [contradiction | lia].
  - destruct (next_to_start (skipn (S i) (specs s1)) (S i)) as [c|] eqn:En.
    + left. destruct (next_to_start_some _ _ _ En) as [pre [c0 [post [E [Hpre [Hs [Hnm [Hi _]]]]]]]].
      exists c, pre, c0, post. repeat split; auto. lia.
    + right. split; [reflexivity|]. exact (next_to_start_none _ _ En).
Qed.

(* rest-for-one restarts the suffix: the stop list and the start chain only touch positions >= restartI;
   the specs in front of the range are not changed by childrenForTermination, and update_nth at a position
   inside the range leaves the prefix alone *)
Lemma update_nth_firstn i r f l : (r <= i)%nat -> firstn r (update_nth i f l) = firstn r l.
Proof.
  revert i r. induction l as [|a l IH]; intros i r H; [destruct i; reflexivity|].
  destruct i as [|i]; [assert (r = 0)%nat by lia; subst; reflexivity|].
  destruct r as [|r]; [reflexivity|]. cbn [update_nth firstn]. f_equal. apply IH. lia.
Qed.

Lemma cft_rev_in keep l p : In p (cft_rev keep l) -> exists c, In c l /\ c_pid c = p /\ stoppable c = true.
Proof.
  induction l as [|c l IH]; cbn [cft_rev]; [contradiction|]. intros H. unfold stoppable.
  destruct (c_dis c) eqn:Ed; [destruct (IH H) as [c0 [? ?]]; exists c0; cbn [In]; auto|].
  destruct (c_pid c =? 0) eqn:Ep; [destruct (IH H) as [c0 [? ?]]; exists c0; cbn [In]; auto|].
  destruct keep.
  - destruct H as [<-|[]]. exists c. cbn [In]. rewrite Ed, Ep. auto.
  - destruct H as [<-|H]; [exists c; cbn [In]; rewrite Ed, Ep; auto|].
    destruct (IH H) as [c0 [? ?]]; exists c0; cbn [In]; auto.
Qed.

Theorem rfo_restarts_suffix k s :
  let '(s', t) := childrenForTermination k s in
  specs s' = specs s /\
  (forall p, In p t -> exists c, In c (skipn (restartI s) (specs s)) /\ c_pid c = p /\ stoppable c = true) /\
  (forall c, childForStart s = Some c -> In c (skipn (restartI s) (specs s))) /\
  (forall i f, (restartI s <= i)%nat -> firstn (restartI s) (update_nth i f (specs s)) = firstn (restartI s) (specs s)).
Proof.
  unfold childrenForTermination. split; [reflexivity|]. split; [|split].
  - intros p Hp. destruct (cft_rev_in _ _ _ Hp) as [c [Hin [? ?]]]. exists c. rewrite <- in_rev in Hin. auto.
  - unfold childForStart. generalize (skipn (restartI s) (specs s)). intros l c.
    induction l as [|x l IH]; cbn [cfs]; [discriminate|].
    destruct (c_dis x); [intros H; right; auto|]. destruct (c_pid x =? 0); cbn [negb]; [|discriminate].
    intros H; inversion H; subst. left; reflexivity.
  - intros i f Hi. apply update_nth_firstn. exact Hi.
Qed.

(* ==== the panic(gen.ErrInternal) sites of supARFO are unreachable ================================================
   for every number of children and every history of machine calls (in any order, with any arguments, the
   only condition being that childStarted is called for a spec that exists: handleAction hands back the
   spec of the start action). *)
Inductive mcall :=
| MStarted (i : nat) (name pid : Z)
| MTerminated (name pid reason now : Z)
| MSpec (name : Z)
| MAdd (name : Z) (sg : bool)
| MEnable (name : Z)
| MDisable (name : Z)
| MShift (d : Z).

Definition apply_call (k : config) (s : state) (c : mcall) : state * result :=
  match c with
  | MStarted i name pid => childStarted k s i name pid
  | MTerminated name pid reason now => childTerminated k s name pid reason now
  | MSpec name => childSpec k s name
  | MAdd name sg => childAddSpec k s name sg
  | MEnable name => childEnable k s name
  | MDisable name => childDisable k s name
  | MShift d => (shiftRestarts s d, RAct DoNothing)
  end.

Definition valid_call (s : state) (c : mcall) : Prop :=
  match c with
  | MStarted i name _ => exists sp, nth_error (specs s) i = Some sp /\ c_name sp = name
  | _ => True
  end.

Inductive reachable (k : config) (cs : list (Z * bool)) : state -> Prop :=
| reach_init : reachable k cs (fst (init k cs))
| reach_step s c : reachable k cs s -> valid_call s c -> reachable k cs (fst (apply_call k s c)).

(* while stopping for a restart the range contains an enabled spec *)
Definition range_has_enabled (s : state) : Prop :=
  exists c, In c (skipn (restartI s) (specs s)) /\ c_dis c = false.
Definition Inv2 (s : state) : Prop := mode s = 2 -> range_has_enabled s.

Lemma skipn_In_le {A} (l : list A) a b x : (a <= b)%nat -> In x (skipn b l) -> In x (skipn a l).
Proof.
  revert a b. induction l as [|y l IH]; intros a b Hab H.
  - destruct b; destruct a; exact H.
  - destruct a as [|a]; [cbn [skipn]; destruct b as [|b]; [exact H|]; right; apply (IH 0%nat b); [lia | exact H]|].
    destruct b as [|b]; [lia|]. cbn [skipn] in *. apply (IH a b); [lia | exact H].
Qed.

Lemma last_match_nth name pid l i j sp :
  last_match name pid l i = Some (j, sp) ->
  (i <= j)%nat /\ nth_error (clear_matching name pid l) (j - i) = Some sp.
Proof.
  revert i. induction l as [|c l IH]; intros i H; cbn [last_match] in H; [discriminate|].
  destruct (last_match name pid l (S i)) as [[j' sp']|] eqn:E.
  - inversion H; subst. destruct (IH _ E) as [Hle Hn]. split; [lia|].
    replace (j - i)%nat with (S (j - S i)) by lia. exact Hn.
  - destruct (matches name pid c) eqn:Em; [|discriminate]. inversion H; subst.
    split; [lia|]. rewrite Nat.sub_diag. cbn [clear_matching map nth_error]. rewrite Em. reflexivity.
Qed.

Lemma nth_error_skipn_In {A} (l : list A) j r x : nth_error l j = Some x -> (r <= j)%nat -> In x (skipn r l).
Proof.
  revert j r. induction l as [|a l IH]; intros j r H Hr; [destruct j; discriminate|].
  destruct r as [|r]; [cbn [skipn]; eapply nth_error_In; exact H|].
  destruct j as [|j]; [lia|]. cbn [skipn]. apply (IH j r); [exact H | lia].
Qed.

Lemma clear_matching_In_dis name pid l c :
  In c l -> exists c', In c' (clear_matching name pid l) /\ c_dis c' = c_dis c.
Proof.
  intros H. unfold clear_matching.
  exists (if matches name pid c then with_pid c 0 else c). split.
  - apply in_map_iff. exists c. auto.
  - destruct (matches name pid c); reflexivity.
Qed.

Lemma clear_matching_skipn name pid l r : skipn r (clear_matching name pid l) = clear_matching name pid (skipn r l).
Proof. unfold clear_matching. apply skipn_map. Qed.

(* the decision of a restart never panics, and if it goes to mode 2 the range has an enabled spec *)
Lemma arfo_restartI_afo k s name pid reason now :
  k_kind k = AFO -> restartI s = 0%nat ->
  restartI (fst (arfo_childTerminated k s name pid reason now)) = 0%nat.
Proof.
  intros Hk H0. unfold arfo_childTerminated. rewrite Hk.
  cbn [set_wait set_specs specs wait mode restartI shut sreason restarts pids]. rewrite H0.
  unfold no_restart, enter_shutdown, childrenForTermination.
  repeat (destr_match; cbn [fst specs set_specs set_restarts set_wait set_shut set_mode set_sreason set_restartI
                             mode restartI wait]);
    try reflexivity; try assumption.
  all: match goal with H : Nat.ltb _ 0 = true |- _ => apply Nat.ltb_lt in H; lia end.
Qed.

Lemma arfo_terminated_ok k s name pid reason now :
  is_arfo k = true -> (k_kind k = AFO -> restartI s = 0%nat) -> Inv2 s ->
  snd (arfo_childTerminated k s name pid reason now) <> RPanic /\
  Inv2 (fst (arfo_childTerminated k s name pid reason now)).
Proof.
  intros Hk HR Hinv.
  destruct (mode s =? 3) eqn:Hm3.
  { (* shutting down *)
    unfold arfo_childTerminated. cbn [set_wait mode]. rewrite Hm3.
    destr_match; (cbn [fst snd]; split; [discriminate|]);
      intros H; cbn [mode set_wait] in H; apply Z.eqb_eq in Hm3; lia. }
  destruct (last_match name pid (specs s) 0) as [[j sp]|] eqn:Hf.
  2:{ (* exit of a non-child *)
    unfold arfo_childTerminated. cbn [set_wait mode specs]. rewrite Hm3.
    cbn [set_specs set_wait specs wait mode restartI shut sreason restarts pids]. rewrite Hf.
    unfold enter_shutdown.
    destruct (is_nil (running_others name pid (specs s))); (cbn [fst snd]; split; [discriminate|]); intros H; cbn in H.
    - (* terminate: state keeps its mode; Inv2 transfers because specs only lose pids *)
      destruct (Hinv H) as [c [Hc Hd]]. unfold range_has_enabled. cbn [restartI specs set_specs set_wait].
      rewrite clear_matching_skipn. destruct (clear_matching_In_dis name pid _ c Hc) as [c' [? ?]].
      exists c'. split; [assumption | congruence].
    - lia. }
  destruct (last_match_nth _ _ _ _ _ _ Hf) as [_ Hnth]. rewrite Nat.sub_0_r in Hnth.
  destruct (last_match_some _ _ _ _ _ _ Hf) as [c0 [Hc0 [Hmt Hsp]]].
  destruct (mode s =? 2) eqn:Hm2.
  - (* stopping *)
    apply Z.eqb_eq in Hm2.
    pose proof (arfo_stopping_unfold k s name pid reason now j sp Hm2 Hf) as U. cbn zeta in U.
    set (s1 := set_specs (set_wait s (zremove pid (wait s))) (clear_matching name pid (specs s))) in *.
    set (s2 := if Nat.ltb j (restartI s) then set_restartI s1 j else s1) in *.
    assert (Hm : mode s2 = 2). { subst s2 s1. destruct (Nat.ltb j (restartI s)); exact Hm2. }
    assert (Hr2 : range_has_enabled s2).
    { destruct (Hinv Hm2) as [c [Hc Hd]].
      assert (Hc1 : exists c', In c' (skipn (restartI s) (specs s1)) /\ c_dis c' = false).
      { subst s1. cbn [specs set_specs]. rewrite clear_matching_skipn.
        destruct (clear_matching_In_dis name pid _ c Hc) as [c' [? ?]]. exists c'. split; [assumption|congruence]. }
      destruct Hc1 as [c' [Hc' Hd']]. exists c'. split; [|exact Hd'].
      subst s2. destruct (Nat.ltb j (restartI s)) eqn:El; [|exact Hc'].
      apply Nat.ltb_lt in El. cbn [restartI specs set_restartI].
      apply (skipn_In_le _ j (restartI s)); [lia | exact Hc']. }
    destruct (is_nil (wait s2)) eqn:Ew.
    + apply is_nil_true in Ew.
      destruct (arfo_stopping_done k s name pid reason now j sp Hm2 Hf Ew Hr2) as [[Ht E]|[Ht [c [Hd [Hp E]]]]];
        fold s1 s2 in Ht, E; rewrite E; cbn [fst snd].
      * split; [discriminate|]. intros _. unfold childrenForTermination, range_has_enabled.
        cbn [fst specs restartI set_wait]. exact Hr2.
      * split; [discriminate|]. intros H. cbn in H. lia.
    + assert (Hw : wait s2 <> []) by (intros E; rewrite E in Ew; discriminate).
      rewrite (arfo_stopping_waits k s name pid reason now j sp Hm2 Hf Hw). fold s1 s2. cbn [fst snd].
      split; [discriminate|]. intros _. exact Hr2.
  - (* normal / starting mode *)
    assert (Hm2' : mode s <> 2) by (intros E; rewrite E in Hm2; discriminate).
    pose proof (arfo_unfold k s name pid reason now j sp Hm3 Hm2 Hf) as U. cbn zeta in U. rewrite U.
    set (run := running_others name pid (specs s)) in *.
    set (s1 := set_specs (set_wait s (zremove pid (wait s))) (clear_matching name pid (specs s))) in *.
    assert (Hs1 : mode s1 = mode s) by reflexivity.
    unfold no_restart, enter_shutdown.
    destruct (c_dis sp) eqn:Hd.
    { destruct (is_nil run && k_auto k); (cbn [fst snd]; split; [discriminate|]); intros H; rewrite Hs1 in H; contradiction. }
    destruct (strategy_stops k reason).
    { destruct (c_sig sp); [destruct (is_nil run)|destruct (is_nil run && k_auto k)];
        (cbn [fst snd]; split; [discriminate|]); intros H; cbn in H; try lia; contradiction. }
    destruct (check (restarts s) now (k_per k) (k_int k)) as [rs ex].
    destruct ex; [cbn [fst snd]; split; [discriminate|]; intros H; cbn in H; lia|].
    set (s3 := if match k_kind k with RFO => true | _ => false end then set_restartI (set_restarts s1 rs) j
               else set_restarts s1 rs) in *.
    (* the exited spec is enabled, at position j, and j is inside the range *)
    assert (Hrange : In sp (skipn (restartI s3) (specs s3)) \/ (restartI s3 <= j)%nat /\ True).
    { right. split; [|exact I]. subst s3. unfold is_arfo in Hk.
      destruct (k_kind k) eqn:Ek; try discriminate; cbn [restartI set_restartI set_restarts]; [|lia].
      subst s1. cbn [restartI set_specs set_wait]. rewrite (HR eq_refl). lia. }
    assert (Hin : In sp (skipn (restartI s3) (specs s3))).
    { destruct Hrange as [H|[Hle _]]; [exact H|].
      apply (nth_error_skipn_In _ j); [|exact Hle].
      subst s3 s1. destruct (match k_kind k with RFO => true | _ => false end); exact Hnth. }
    assert (Hr3 : range_has_enabled s3) by (exists sp; auto).
    destruct (childrenForTermination k s3) as [s4 t] eqn:Ec.
    destruct t as [|p t]; cbn [is_nil].
    + destruct (childForStart_no_panic k s3) as [c [Hc _]]; [rewrite Ec; reflexivity | exact Hr3 |].
      rewrite Ec in Hc. cbn [fst] in Hc. rewrite Hc. cbn [fst snd]; split; [discriminate|]. intros H. cbn in H. lia.
    + cbn [fst snd]; split; [discriminate|]. intros _.
      unfold childrenForTermination in Ec. inversion Ec; subst.
      unfold range_has_enabled. cbn [specs restartI set_wait set_mode]. exact Hr3.
Qed.

Lemma update_nth_In_dis i pid l r c :
  In c (skipn r l) ->
  exists c', In c' (skipn r (update_nth i (fun x => with_pid x pid) l)) /\ c_dis c' = c_dis c.
Proof.
  revert i r. induction l as [|a l IH]; intros i r H; [destruct r; contradiction|].
  destruct r as [|r].
  - cbn [skipn] in *. destruct i as [|i]; cbn [update_nth].
    + destruct H as [<-|H]; [exists (with_pid a pid); cbn [In]; auto | exists c; cbn [In]; auto].
    + destruct H as [<-|H]; [exists a; cbn [In]; auto|].
      destruct (IH i 0%nat) as [c' [Hc' Hd]]; [exact H|]. exists c'. cbn [skipn] in Hc'. cbn [In]. auto.
  - cbn [skipn] in H. destruct i as [|i]; cbn [update_nth skipn]; [exists c; auto|]. apply IH. exact H.
Qed.

Definition InvA (k : config) (s : state) : Prop := Inv2 s /\ (k_kind k = AFO -> restartI s = 0%nat).

(* one valid call on an ARFO machine: no panic, and the invariant is kept *)
Lemma arfo_call_ok k s c :
  is_arfo k = true -> InvA k s -> valid_call s c ->
  snd (apply_call k s c) <> RPanic /\ InvA k (fst (apply_call k s c)).
Proof.
  intros Hk [H2 HR] Hv. unfold is_arfo in Hk. unfold InvA.
  assert (Ha : is_arfo k = true) by (unfold is_arfo; exact Hk).
  destruct c as [i name pid|name pid reason now|name|name sg|name|name|d]; cbn [apply_call].
  - (* childStarted *)
    destruct Hv as [sp [Hn Hname]].
    unfold childStarted. replace (match k_kind k with SOFO => _ | _ => ofo_childStarted (is_arfo k) s i name pid end)
      with (ofo_childStarted true s i name pid) by (rewrite Ha; destruct (k_kind k); try discriminate; reflexivity).
    unfold ofo_childStarted. rewrite Hn, Hname, Z.eqb_refl. cbn [negb].
    set (s1 := set_specs s (update_nth i (fun c => with_pid c pid) (specs s))).
    assert (H1 : mode s1 = 2 -> range_has_enabled s1).
    { intros Hm. destruct (H2 Hm) as [c [Hc Hd]]. subst s1. unfold range_has_enabled. cbn [specs restartI set_specs].
      destruct (update_nth_In_dis i pid _ _ _ Hc) as [c' [? ?]]. exists c'. split; [assumption|congruence]. }
    repeat destr_match; cbn [fst snd]; (split; [discriminate|]); (split; [|exact HR]); intros Hm;
      try (exact (H1 Hm)); cbn in Hm; lia.
  - (* childTerminated *)
    unfold childTerminated.
    replace (match k_kind k with OFO => _ | SOFO => _ | _ => arfo_childTerminated k s name pid reason now end)
      with (arfo_childTerminated k s name pid reason now) by (destruct (k_kind k); try discriminate; reflexivity).
    destruct (arfo_terminated_ok k s name pid reason now Ha HR H2) as [Hp Hi]. split; [exact Hp|].
    split; [exact Hi|]. intros Hkk.
    (* restartI: AFO never moves it away from 0, RFO has no constraint *)
    apply arfo_restartI_afo; [exact Hkk | exact (HR Hkk)].
  - (* childSpec: the state is not changed *)
    unfold childSpec. destruct (k_kind k); try discriminate; unfold ofo_childSpec;
      repeat destr_match; cbn [fst snd]; (split; [discriminate|split; assumption]).
  - (* childAddSpec: only in mode 0 *)
    unfold childAddSpec. destruct (k_kind k) eqn:Ek; try discriminate; unfold ofo_childAddSpec;
      repeat destr_match; cbn [fst snd]; (split; [discriminate|]); (split; [|exact HR]); try exact H2;
      intros Hm; cbn [mode set_specs] in Hm;
      match goal with H : negb (mode s =? 0) = false |- _ =>
        apply negb_false_iff, Z.eqb_eq in H; lia end.
  - (* childEnable *)
    unfold childEnable. rewrite Ha. destruct (k_kind k) eqn:Ek; try discriminate; unfold ofo_childEnable;
      cbn [andb]; repeat destr_match; cbn [fst snd]; (split; [discriminate|]); (split; [|exact HR]); try exact H2;
      intros Hm; cbn [mode set_specs] in Hm;
      match goal with H : negb (mode s =? 0) = false |- _ =>
        apply negb_false_iff, Z.eqb_eq in H; lia end.
  - (* childDisable *)
    unfold childDisable. rewrite Ha. destruct (k_kind k) eqn:Ek; try discriminate; unfold ofo_childDisable;
      cbn [andb]; repeat destr_match; cbn [fst snd]; (split; [discriminate|]); (split; [|exact HR]); try exact H2;
      intros Hm; cbn [mode set_specs set_wait] in Hm;
      match goal with H : negb (mode s =? 0) = false |- _ =>
        apply negb_false_iff, Z.eqb_eq in H; lia end.
  - (* shift *)
    cbn [fst snd]. split; [discriminate|]. split; [exact H2 | exact HR].
Qed.

(* the statement over all histories *)
Theorem arfo_panic_unreachable k cs s c :
  is_arfo k = true -> cs <> [] -> reachable k cs s -> valid_call s c ->
  snd (apply_call k s c) <> RPanic.
Proof.
  intros Hk Hcs Hr Hv.
  assert (Hinv : InvA k s).
  { clear Hv c. induction Hr as [|s c Hr IH Hv].
    - unfold init, is_arfo in *. destruct (k_kind k); try discriminate.
      + destruct (mk_specs cs 0) eqn:E; cbn [fst]; (split; [intros Hm; cbn in Hm; lia | reflexivity]).
      + destruct (mk_specs cs 0) eqn:E; cbn [fst]; (split; [intros Hm; cbn in Hm; lia | reflexivity]).
    - apply (arfo_call_ok k s c Hk IH Hv). }
  apply (arfo_call_ok k s c Hk Hinv Hv).
Qed.

(* ==== a disabled child stays down: NO machine call on ANY state ever answers the start of a disabled spec ======= *)
Lemma cfs_enabled l c : cfs l = Some c -> c_dis c = false /\ c_pid c = 0.
Proof.
  induction l as [|x l IH]; cbn [cfs]; [discriminate|].
  destruct (c_dis x) eqn:Ed; [exact IH|]. destruct (c_pid x =? 0) eqn:Ep; cbn [negb]; [|discriminate].
  intros H; inversion H; subst. apply Z.eqb_eq in Ep. auto.
Qed.

Lemma next_to_start_enabled l i c : next_to_start l i = Some c -> c_dis c = false.
Proof. intros H. destruct (next_to_start_some _ _ _ H) as [? [? [? [? [? [? [? [? [? ?]]]]]]]]]. assumption. Qed.

Ltac start_enabled :=
  match goal with
  | H : (_, RAct (StartChild ?y)) = (_, RAct (StartChild ?x)) |- _ => inversion H; subst; clear H
  | H : (_, _) = (_, RAct (StartChild _)) |- _ => try discriminate H
  end.

Theorem disabled_stays_down k s c s' x :
  apply_call k s c = (s', RAct (StartChild x)) -> c_dis x = false.
Proof.
  destruct c as [i name pid|name pid reason now|name|name sg|name|name|d]; cbn [apply_call].
  - unfold childStarted, sofo_childStarted, ofo_childStarted.
    repeat destr_match; intros H; try discriminate H; inversion H; subst;
      eapply next_to_start_enabled; eassumption.
  - unfold childTerminated, ofo_childTerminated, arfo_childTerminated, sofo_childTerminated,
      no_restart, enter_shutdown, childrenForTermination, childForStart.
    repeat destr_match; intros H; try discriminate H; inversion H; subst;
      try (match goal with E : cfs _ = Some _ |- _ => apply cfs_enabled in E; tauto end);
      try (match goal with E : c_dis ?c = false |- c_dis ?c = false => exact E end).
  - unfold childSpec, sofo_childSpec, ofo_childSpec.
    repeat destr_match; intros H; try discriminate H; inversion H; subst; assumption.
  - unfold childAddSpec, sofo_childAddSpec, ofo_childAddSpec.
    repeat destr_match; intros H; try discriminate H; inversion H; subst; reflexivity.
  - unfold childEnable, sofo_childEnable, ofo_childEnable.
    repeat destr_match; intros H; try discriminate H; inversion H; subst; reflexivity.
  - unfold childDisable, sofo_childDisable, ofo_childDisable.
    repeat destr_match; intros H; try discriminate H.
  - intros H; discriminate H.
Qed.

(* ==== Temporary: never restarted, over all histories =============================================================== *)
Lemma temporary_step k s name pid reason now :
  k_strat k = Temporary -> mode s <> 2 ->
  (forall x, snd (childTerminated k s name pid reason now) <> RAct (StartChild x)) /\
  mode (fst (childTerminated k s name pid reason now)) <> 2.
Proof.
  intros Hk Hm.
  unfold childTerminated, ofo_childTerminated, arfo_childTerminated, sofo_childTerminated,
    no_restart, enter_shutdown, strategy_stops. rewrite Hk.
  cbn [set_wait set_specs set_pids specs wait mode restartI shut sreason restarts pids].
  destruct (mode s =? 2) eqn:E2; [apply Z.eqb_eq in E2; contradiction|].
  repeat destr_match; cbn [fst snd mode set_specs set_wait set_shut set_mode set_sreason set_pids];
    (split; [intros x; discriminate | try exact Hm; try lia]).
Qed.

Lemma mode_not2_other_calls k s c :
  (forall n p r t, c <> MTerminated n p r t) -> mode s <> 2 -> mode (fst (apply_call k s c)) <> 2.
Proof.
  intros Hc Hm. destruct c as [i name pid|name pid reason now|name|name sg|name|name|d]; cbn [apply_call].
  - unfold childStarted, sofo_childStarted, ofo_childStarted.
    repeat destr_match; cbn [fst mode set_specs set_mode set_pids]; try exact Hm; lia.
  - exfalso. eapply Hc. reflexivity.
  - unfold childSpec, sofo_childSpec, ofo_childSpec. repeat destr_match; cbn [fst]; exact Hm.
  - unfold childAddSpec, sofo_childAddSpec, ofo_childAddSpec. repeat destr_match; cbn [fst mode set_specs]; exact Hm.
  - unfold childEnable, sofo_childEnable, ofo_childEnable. repeat destr_match; cbn [fst mode set_specs]; exact Hm.
  - unfold childDisable, sofo_childDisable, ofo_childDisable.
    repeat destr_match; cbn [fst mode set_specs set_wait]; exact Hm.
  - cbn [fst shiftRestarts set_restarts mode]. exact Hm.
Qed.

Lemma temporary_mode_never_2 k cs s :
  k_strat k = Temporary -> reachable k cs s -> mode s <> 2.
Proof.
  intros Hk Hr. induction Hr as [|s c Hr IH Hv].
  - unfold init. repeat destr_match; cbn [fst mode set_mode set_specs empty_state]; lia.
  - destruct c as [i name pid|name pid reason now|name|name sg|name|name|d];
      try (apply mode_not2_other_calls; [intros; discriminate | exact IH]).
    cbn [apply_call]. apply (temporary_step k s name pid reason now Hk IH).
Qed.

Theorem temporary_never_restarted k cs s name pid reason now x :
  k_strat k = Temporary -> reachable k cs s ->
  snd (childTerminated k s name pid reason now) <> RAct (StartChild x).
Proof.
  intros Hk Hr. apply (temporary_step k s name pid reason now Hk (temporary_mode_never_2 k cs s Hk Hr)).
Qed.

(* Transient, normal/shutdown reason: same statement for every exit with such a reason that arrives while no
   restart is in progress (mode <> 2) *)
Theorem transient_normal_never_restarted k s name pid reason now x :
  k_strat k = Transient -> is_normal reason = true -> mode s <> 2 ->
  snd (childTerminated k s name pid reason now) <> RAct (StartChild x).
Proof.
  intros Hk Hn Hm.
  unfold childTerminated, ofo_childTerminated, arfo_childTerminated, sofo_childTerminated,
    no_restart, enter_shutdown, strategy_stops. rewrite Hk, Hn.
  cbn [set_wait set_specs set_pids specs wait mode restartI shut sreason restarts pids].
  destruct (mode s =? 2) eqn:E2; [apply Z.eqb_eq in E2; contradiction|].
  repeat destr_match; cbn [fst snd]; discriminate.
Qed.

(* ==== once shutting down, the supervisor terminates with the stored reason as soon as every awaited child is
   gone, whatever the order of the exits and whatever else arrives meanwhile ======================================= *)
Definition exit_msg := (Z * Z * Z * Z)%type.    (* name, pid, reason, now *)
Definition em_pid (e : exit_msg) : Z := snd (fst (fst e)).
Fixpoint drain (k : config) (s : state) (l : list exit_msg) : list result :=
  match l with
  | [] => []
  | (name, pid, reason, now) :: tl =>
      let '(s', r) := childTerminated k s name pid reason now in r :: drain k s' tl
  end.

Definition shutting_any (k : config) (s : state) : bool :=
  match k_kind k with SOFO => shut s | _ => shutting k s end.

Lemma shutdown_step k s name pid reason now :
  shutting_any k s = true ->
  let '(s', r) := childTerminated k s name pid reason now in
  wait s' = zremove pid (wait s) /\ sreason s' = sreason s /\ shutting_any k s' = true /\
  r = RAct (if is_nil (zremove pid (wait s)) then Terminate (sreason s) else TerminateChildren [] 0).
Proof.
  intros Hs. unfold shutting_any in *. destruct (k_kind k) eqn:Ek.
  1-3: rewrite (shutdown_drains k s name pid reason now Hs) by congruence; cbn [wait sreason set_wait];
       (repeat split; auto); unfold shutting, is_arfo in *; rewrite Ek in *; exact Hs.
  unfold childTerminated. rewrite Ek. rewrite (sofo_shutdown_drains k s name pid reason now Hs).
  cbn [wait sreason set_wait set_pids shut]. auto.
Qed.

Theorem shutdown_terminates k : forall l s,
  shutting_any k s = true -> l <> [] ->
  (forall p, In p (wait s) -> In p (map em_pid l)) ->
  exists pre, firstn (S (length pre)) (drain k s l) = pre ++ [RAct (Terminate (sreason s))] /\
              Forall (fun r => r = RAct (TerminateChildren [] 0)) pre.
Proof.
  induction l as [|[[[name pid] reason] now] l IH]; intros s Hs Hne Hcov; [congruence|].
  cbn [drain]. pose proof (shutdown_step k s name pid reason now Hs) as Hst.
  destruct (childTerminated k s name pid reason now) as [s' r]. destruct Hst as [Hw [Hr [Hs' Hres]]].
  destruct (zremove pid (wait s)) as [|q w] eqn:Ew; cbn [is_nil] in Hres.
  - exists []. cbn [length firstn app]. split; [subst r; reflexivity | constructor].
  - assert (Hcov' : forall p, In p (wait s') -> In p (map em_pid l)).
    { intros p Hp. rewrite Hw in Hp. rewrite <- Ew in Hp.
      pose proof (zremove_subset pid p (wait s) Hp) as Hsub. specialize (Hcov p Hsub).
      cbn [map In em_pid fst snd] in Hcov. destruct Hcov as [Heq|Hin]; [|exact Hin].
      exfalso. subst p. exact (zremove_not_in pid (wait s) Hp). }
    assert (Hne' : l <> []).
    { intros ->. specialize (Hcov' q). rewrite Hw in Hcov'. cbn in Hcov'. apply Hcov'. auto. }
    destruct (IH s' Hs' Hne' Hcov') as [pre [Hf Hall]].
    exists (r :: pre). split.
    + change (firstn (S (length (r :: pre))) (r :: drain k s' l)) with (r :: firstn (S (length pre)) (drain k s' l)).
      rewrite Hf, Hr. reflexivity.
    + constructor; [subst r; reflexivity | exact Hall].
Qed.

(* ==== C10 (supervisor part): what an orderly termination implies ===================================================== *)
Lemma nil_run_running name pid l : is_nil (running_others name pid l) = true -> running (clear_matching name pid l) = [].
Proof. intros H. rewrite running_others_clear. apply is_nil_true. exact H. Qed.

Theorem terminate_means_none_running k s name pid reason now s' r :
  k_kind k <> SOFO -> shutting k s = false ->
  childTerminated k s name pid reason now = (s', RAct (Terminate r)) ->
  running (specs s') = [].
Proof.
  intros Hk Hs. unfold childTerminated, shutting, is_arfo in *.
  destruct (k_kind k) eqn:Ek; try congruence;
    unfold ofo_childTerminated, arfo_childTerminated, no_restart, enter_shutdown, childrenForTermination;
    cbn [set_wait set_specs specs wait mode restartI shut sreason restarts pids]; rewrite Hs;
    repeat destr_match; intros H; try discriminate H; inversion H; subst;
    cbn [specs set_specs set_wait set_restarts];
    try (apply nil_run_running; assumption);
    try (apply nil_run_running;
         match goal with E : (_ && _) = true |- _ => apply andb_true_iff in E; tauto end).
Qed.

Theorem shutdown_covers_all k s name pid reason now s' t r :
  k_kind k <> SOFO -> shutting k s = false ->
  childTerminated k s name pid reason now = (s', RAct (TerminateChildren t r)) ->
  shutting k s' = true ->
  t = running (specs s') /\ wait s' = zset t.
Proof.
  intros Hk Hs. unfold childTerminated, shutting, is_arfo in *.
  destruct (k_kind k) eqn:Ek; try congruence;
    unfold ofo_childTerminated, arfo_childTerminated, no_restart, enter_shutdown, childrenForTermination;
    cbn [set_wait set_specs specs wait mode restartI shut sreason restarts pids]; rewrite Hs;
    repeat destr_match; intros H; try discriminate H; inversion H; subst;
    cbn [specs set_specs set_wait set_restarts set_shut set_mode set_sreason set_restartI shut mode wait];
    intros Hsh; try discriminate Hsh;
    try (rewrite running_others_clear; split; reflexivity);
    try (exfalso; congruence).
Qed.

Theorem sofo_shutdown_covers_all k s name pid reason now s' t r :
  shut s = false ->
  sofo_childTerminated k s name pid reason now = (s', RAct (TerminateChildren t r)) ->
  shut s' = true -> t = map fst (pids s') /\ (forall p, In p t -> In p (wait s')).
Proof.
  intros Hs. unfold sofo_childTerminated.
  cbn [set_wait set_pids specs wait mode restartI shut sreason restarts pids]. rewrite Hs.
  repeat destr_match; intros H; try discriminate H; inversion H; subst;
    cbn [pids wait shut set_shut set_wait set_restarts set_pids]; intros _;
    (split; [reflexivity|]); intros p Hp; apply zunion_in; auto.
Qed.

Theorem no_start_in_shutdown k s c s' x :
  k_kind k <> OFO -> shutting_any k s = true ->
  apply_call k s c <> (s', RAct (StartChild x)).
Proof.
  intros Hk Hs. unfold shutting_any, shutting, is_arfo in Hs.
  destruct (k_kind k) eqn:Ek; try congruence.
  1-2: apply Z.eqb_eq in Hs;
       destruct c as [i name pid|name pid reason now|name|name sg|name|name|d]; cbn [apply_call];
       unfold childStarted, childTerminated, childSpec, childAddSpec, childEnable, childDisable, is_arfo; try rewrite Ek;
       unfold ofo_childStarted, arfo_childTerminated, ofo_childSpec, ofo_childAddSpec, ofo_childEnable, ofo_childDisable;
       cbn [set_wait mode]; try rewrite Hs; cbn [Z.eqb Pos.eqb negb andb];
       repeat destr_match; discriminate.
  destruct c as [i name pid|name pid reason now|name|name sg|name|name|d]; cbn [apply_call];
    unfold childStarted, childTerminated, childSpec, childAddSpec, childEnable, childDisable; try rewrite Ek;
    unfold sofo_childStarted, sofo_childTerminated, sofo_childSpec, sofo_childAddSpec, sofo_childEnable, sofo_childDisable;
    cbn [set_wait set_pids shut]; try rewrite Hs; repeat destr_match; discriminate.
Qed.

Definition ofo_witness_cfg := mk_config OFO Transient false true 3 5.
Definition ofo_witness_state := mk_state [mk_cspec 1 0 false false 0; mk_cspec 2 1002 false false 1] 0 [1002] 0 true 10 [] [].
Theorem ofo_start_during_shutdown_refuted :
  exists k s name x, k_kind k = OFO /\ shut s = true /\ snd (childSpec k s name) = RAct (StartChild x).
Proof.
  exists ofo_witness_cfg, ofo_witness_state, 1, (mk_cspec 1 0 false false 0).
  vm_compute. auto.
Qed.
