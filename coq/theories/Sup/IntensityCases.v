(* Correspondence + monitor definitions evaluated over implementation observations
   (cases files written by go/harness/cmd/sup). *)
From Ergo Require Import Common.Base Sup.Intensity.
Local Open Scope Z_scope.

Record istep := mk_istep { s_shift : Z; s_in : list Z; s_now : Z; s_out : list Z; s_ex : bool }.
Record icase := mk_icase { c_period : Z; c_intensity : Z; c_steps : list istep }.

(* model = implementation, step by step *)
Definition step_corr (p i : Z) (s : istep) : bool :=
  let '(o, e) := check (s_in s) (s_now s) p i in
  zlist_eqb o (s_out s) && Bool.eqb e (s_ex s).
Definition corr_ok (c : icase) : bool :=
  forallb (step_corr (c_period c) (c_intensity c)) (c_steps c).

(* virtual time of request k = observed now + all shifts applied so far *)
Fixpoint virtual_times (acc : Z) (l : list istep) : list Z :=
  match l with
  | [] => []
  | s :: tl => let acc' := acc + s_shift s in (s_now s + acc') :: virtual_times acc' tl
  end.

(* the harness feeds each output back (shifted) as the next input *)
Fixpoint chain_ok_from (prev : list Z) (l : list istep) : bool :=
  match l with
  | [] => true
  | s :: tl => zlist_eqb (map (fun x => x - s_shift s) prev) (s_in s) && chain_ok_from (s_out s) tl
  end.

(* the property itself, evaluated on what the implementation answered *)
Definition spec_ok (c : icase) : bool :=
  let ts := virtual_times 0 (c_steps c) in
  negb (sorted ts && chain_ok_from [] (c_steps c)) ||
  blist_eqb (map s_ex (c_steps c)) (spec_run [] ts (c_period c) (c_intensity c)).

(* non-vacuity of the monitor: how many cases have a monotone clock and a proper chain *)
Definition premise_ok (c : icase) : bool :=
  sorted (virtual_times 0 (c_steps c)) && chain_ok_from [] (c_steps c).
