(* Model of the supervisor restart state machines (definitions only, no proofs):
     act/supervisor_ofo.go   (supOFO,  One For One)
     act/supervisor_arfo.go  (supARFO, All For One / Rest For One)
     act/supervisor_sofo.go  (supSOFO, Simple One For One)
     act/supervisor.go       (handleAction, the exit branch of ProcessRun)
   transcribed function by function.  The wall clock read inside supCheckRestartIntensity is the
   explicit argument [now] of childTerminated; [check] is the model of that function
   (Sup/Intensity.v).  gen.PID values are integers, 0 = the empty PID.  gen.Atom names are
   integers, 0 = the empty atom "".  Reasons are small integers:
     0 nil, 1 normal, 2 shutdown, 3 kill, 4 panic, 5 ErrSupervisorRestartsExceeded,
     6 the error returned by a failed Spawn, >= 10 any other (abnormal) reason.
   Every [panic(gen.ErrInternal)] site is the explicit result [RPanic] (the state is the state at
   the moment of the panic, because the Go object keeps the mutations made before it). *)
From Ergo Require Import Common.Base Sup.Intensity.
Local Open Scope Z_scope.

Inductive kind := OFO | AFO | RFO | SOFO.
Inductive strategy := Transient | Temporary | Permanent.

(* supChildSpec: Name, pid, disabled, Significant, i *)
Record cspec := mk_cspec { c_name : Z; c_pid : Z; c_dis : bool; c_sig : bool; c_i : nat }.
Arguments mk_cspec _%Z _%Z _ _ _%nat.

(* SupervisorSpec: Type, Restart.Strategy, Restart.KeepOrder, autoshutdown (= !DisableAutoShutdown),
   Restart.Intensity, Restart.Period *)
Record config := mk_config { k_kind : kind; k_strat : strategy; k_keep : bool; k_auto : bool;
                             k_int : Z; k_per : Z }.

(* the mutable fields of supOFO / supARFO / supSOFO.
   specs   : s.spec (OFO/ARFO: slice in index order; SOFO: the map listed in order of cs.i)
   wait    : s.wait as a sorted duplicate-free list
   shut    : s.shutdown (OFO, SOFO; ARFO encodes shutdown as mode = 3)
   pids    : s.pids of SOFO as a list (pid, spec name) sorted by pid *)
Record state := mk_state { specs : list cspec; mode : Z; wait : list Z; restartI : nat;
                           shut : bool; sreason : Z; restarts : list Z; pids : list (Z * Z) }.
Arguments mk_state _ _%Z _ _%nat _ _%Z _ _.

Inductive action :=
| DoNothing
| StartChild (c : cspec)
| TerminateChildren (ps : list Z) (r : Z)
| Terminate (r : Z).

Inductive result := RAct (a : action) | RErr (e : Z) | RPanic.

(* error codes *)
Definition EActive := 1.      (* ErrSupervisorStrategyActive *)
Definition EDuplicate := 2.   (* ErrSupervisorChildDuplicate *)
Definition EDisabled := 3.    (* ErrSupervisorChildDisabled *)
Definition ERunning := 4.     (* ErrSupervisorChildRunning *)
Definition EUnknown := 5.     (* ErrSupervisorChildUnknown *)
Definition EInvalid := 6.     (* validateChildSpec *)
Definition EShutting := 7.    (* fmt.Errorf("shutting down") *)

Definition RNormal := 1.
Definition RShutdown := 2.
Definition RKill := 3.
Definition RPanicReason := 4.
Definition RExceeded := 5.
Definition RSpawnErr := 6.

(* reason == gen.TerminateReasonNormal || reason == gen.TerminateReasonShutdown *)
Definition is_normal (r : Z) : bool := (r =? RNormal) || (r =? RShutdown).

(* ---- state update helpers ---------------------------------------------------------- *)
Definition set_specs (s : state) (l : list cspec) : state :=
  mk_state l (mode s) (wait s) (restartI s) (shut s) (sreason s) (restarts s) (pids s).
Definition set_mode (s : state) (m : Z) : state :=
  mk_state (specs s) m (wait s) (restartI s) (shut s) (sreason s) (restarts s) (pids s).
Definition set_wait (s : state) (w : list Z) : state :=
  mk_state (specs s) (mode s) w (restartI s) (shut s) (sreason s) (restarts s) (pids s).
Definition set_restartI (s : state) (i : nat) : state :=
  mk_state (specs s) (mode s) (wait s) i (shut s) (sreason s) (restarts s) (pids s).
Definition set_shut (s : state) (b : bool) (r : Z) : state :=
  mk_state (specs s) (mode s) (wait s) (restartI s) b r (restarts s) (pids s).
Definition set_sreason (s : state) (r : Z) : state :=
  mk_state (specs s) (mode s) (wait s) (restartI s) (shut s) r (restarts s) (pids s).
Definition set_restarts (s : state) (l : list Z) : state :=
  mk_state (specs s) (mode s) (wait s) (restartI s) (shut s) (sreason s) l (pids s).
Definition set_pids (s : state) (l : list (Z * Z)) : state :=
  mk_state (specs s) (mode s) (wait s) (restartI s) (shut s) (sreason s) (restarts s) l.

Definition with_pid (c : cspec) (p : Z) : cspec := mk_cspec (c_name c) p (c_dis c) (c_sig c) (c_i c).
Definition with_dis (c : cspec) (d : bool) : cspec := mk_cspec (c_name c) (c_pid c) d (c_sig c) (c_i c).

(* sets of pids (Go: map[gen.PID]bool) as sorted lists *)
Fixpoint zinsert (x : Z) (l : list Z) : list Z :=
  match l with
  | [] => [x]
  | y :: tl => if x <? y then x :: l else if x =? y then l else y :: zinsert x tl
  end.
Definition zset (l : list Z) : list Z := fold_right zinsert [] l.
Definition zremove (x : Z) (l : list Z) : list Z := filter (fun y => negb (y =? x)) l.
Definition zunion (a b : list Z) : list Z := fold_right zinsert b a.
Definition is_nil {A} (l : list A) : bool := match l with [] => true | _ => false end.

Definition running (l : list cspec) : list Z :=
  map c_pid (filter (fun c => negb (c_pid c =? 0)) l).

(* ---- the scan loop shared by supOFO.childTerminated and supARFO.childTerminated -------------
     for i, cs := range s.spec {
         if cs.Name == name || cs.pid == pid { cs.pid = empty; found = true; spec = cs; specI = i; continue }
         if cs.pid == empty { continue }
         runningChildren = append(runningChildren, cs.pid); wait[cs.pid] = true
     }                                                                                         *)
Definition matches (name pid : Z) (c : cspec) : bool := (c_name c =? name) || (c_pid c =? pid).
Definition clear_matching (name pid : Z) (l : list cspec) : list cspec :=
  map (fun c => if matches name pid c then with_pid c 0 else c) l.
Definition running_others (name pid : Z) (l : list cspec) : list Z :=
  map c_pid (filter (fun c => negb (matches name pid c) && negb (c_pid c =? 0)) l).
(* the last matching spec (after its pid has been cleared) and its position *)
Fixpoint last_match (name pid : Z) (l : list cspec) (i : nat) : option (nat * cspec) :=
  match l with
  | [] => None
  | c :: tl =>
      match last_match name pid tl (S i) with
      | Some r => Some r
      | None => if matches name pid c then Some (i, with_pid c 0) else None
      end
  end.

Fixpoint find_name (name : Z) (l : list cspec) : option cspec :=
  match l with
  | [] => None
  | c :: tl => if c_name c =? name then Some c else find_name name tl
  end.
Fixpoint update_name (name : Z) (f : cspec -> cspec) (l : list cspec) : list cspec :=
  match l with
  | [] => []
  | c :: tl => if c_name c =? name then f c :: tl else c :: update_name name f tl
  end.
Fixpoint update_nth (i : nat) (f : cspec -> cspec) (l : list cspec) : list cspec :=
  match l, i with
  | [], _ => []
  | c :: tl, O => f c :: tl
  | c :: tl, S j => c :: update_nth j f tl
  end.

(* first spec at position >= the head of [l] with empty pid that is not disabled:
     for i := cs.i + 1; i < len(s.spec); i++ {
         if s.spec[i].pid != empty { continue }; if s.spec[i].disabled { continue }
         action.do = supActionStartChild; action.spec = *s.spec[i]; action.spec.i = i; return action }  *)
Fixpoint next_to_start (l : list cspec) (i : nat) : option cspec :=
  match l with
  | [] => None
  | c :: tl => if negb (c_pid c =? 0) then next_to_start tl (S i)
               else if c_dis c then next_to_start tl (S i)
               else Some (mk_cspec (c_name c) (c_pid c) (c_dis c) (c_sig c) i)
  end.

(* ---- init ----------------------------------------------------------------------------------
   supOFO.init / supARFO.init: specs get i = 0,1,..; action = start spec[0]; mode = 1.
   supSOFO.init: specs stored, nothing started.  (ProcessInit rejects an empty child list and
   duplicate names before init is called.)                                                     *)
Fixpoint mk_specs (l : list (Z * bool)) (i : nat) : list cspec :=
  match l with
  | [] => []
  | (n, sg) :: tl => mk_cspec n 0 false sg i :: mk_specs tl (S i)
  end.
Definition empty_state : state := mk_state [] 0 [] 0 false 0 [] [].

Definition init (k : config) (children : list (Z * bool)) : state * result :=
  let sp := mk_specs children 0 in
  match k_kind k with
  | SOFO => (set_specs empty_state sp, RAct DoNothing)
  | _ => match sp with
         | [] => (empty_state, RPanic)            (* s.spec[0] on an empty slice *)
         | c :: _ => (set_mode (set_specs empty_state sp) 1, RAct (StartChild c))
         end
  end.

(* ---- childAddSpec -------------------------------------------------------------------------- *)
Definition has_name (name : Z) (l : list cspec) : bool := existsb (fun c => c_name c =? name) l.

Definition ofo_childAddSpec (s : state) (name : Z) (sg : bool) : state * result :=
  if negb (mode s =? 0) then (s, RErr EActive)
  else if name =? 0 then (s, RErr EInvalid)
  else if has_name name (specs s) then (s, RErr EDuplicate)
  else let c := mk_cspec name 0 false sg (length (specs s)) in
       (set_specs s (specs s ++ [c]), RAct (StartChild c)).

Definition sofo_childAddSpec (s : state) (name : Z) (sg : bool) : state * result :=
  if shut s then (s, RErr EShutting)
  else if name =? 0 then (s, RErr EInvalid)
  else if has_name name (specs s) then (s, RErr EDuplicate)
  else let c := mk_cspec name 0 false sg (length (specs s)) in
       (set_specs s (specs s ++ [c]), RAct DoNothing).

(* ---- childSpec ------------------------------------------------------------------------------ *)
Definition ofo_childSpec (s : state) (name : Z) : state * result :=
  if negb (mode s =? 0) then (s, RErr EActive)
  else match find_name name (specs s) with
       | None => (s, RErr EUnknown)
       | Some c => if c_dis c then (s, RErr EDisabled)
                   else if c_pid c =? 0 then (s, RAct (StartChild c))
                   else (s, RErr ERunning)
       end.

Definition sofo_childSpec (s : state) (name : Z) : state * result :=
  if shut s then (s, RAct DoNothing)
  else match find_name name (specs s) with
       | None => (s, RErr EUnknown)
       | Some c => if c_dis c then (s, RErr EDisabled) else (s, RAct (StartChild c))
       end.

(* ---- childStarted ----------------------------------------------------------------------------
   supOFO.childStarted == supARFO.childStarted (after the repair: the loop that finds nothing more
   to start leaves the starting mode):
     spec := s.spec[cs.i]; if cs.Name != spec.Name { panic }
     spec.pid = pid
     if s.mode != 1 { return nothing }
     if cs.i == len(s.spec)-1 { s.mode = 0; return nothing }
     for i := cs.i+1 ... first not running, not disabled -> start it
     [ARFO, repaired:] s.mode = 0
     return nothing                                                                             *)
Definition ofo_childStarted (arfo : bool) (s : state) (i : nat) (name pid : Z) : state * result :=
  match nth_error (specs s) i with
  | None => (s, RPanic)                                   (* index out of range *)
  | Some sp =>
      if negb (c_name sp =? name) then (s, RPanic)
      else
        let s1 := set_specs s (update_nth i (fun c => with_pid c pid) (specs s)) in
        if negb (mode s =? 1) then (s1, RAct DoNothing)
        else if Nat.eqb (S i) (length (specs s)) then (set_mode s1 0, RAct DoNothing)
        else match next_to_start (skipn (S i) (specs s1)) (S i) with
             | Some c => (s1, RAct (StartChild c))
             | None => if arfo then (set_mode s1 0, RAct DoNothing) else (s1, RAct DoNothing)
             end
  end.

(* supSOFO.childStarted: if shutdown -> nothing; unknown spec -> nothing; s.pids[pid] = sc *)
Fixpoint pinsert (p : Z * Z) (l : list (Z * Z)) : list (Z * Z) :=
  match l with
  | [] => [p]
  | q :: tl => if fst p <? fst q then p :: l else if fst p =? fst q then p :: tl else q :: pinsert p tl
  end.
Definition premove (pid : Z) (l : list (Z * Z)) : list (Z * Z) := filter (fun q => negb (fst q =? pid)) l.

Definition sofo_childStarted (s : state) (name pid : Z) : state * result :=
  if shut s then (s, RAct DoNothing)
  else match find_name name (specs s) with
       | None => (s, RAct DoNothing)
       | Some _ => (set_pids s (pinsert (pid, name) (pids s)), RAct DoNothing)
       end.

(* ---- the shared tail "a child that is not to be restarted has terminated" ---------------------
     if spec.Significant {
         if len(runningChildren) == 0 { terminate with reason }
         terminate runningChildren with reason; s.wait = wait; shutdown; s.shutdownReason = reason }
     if len(runningChildren) == 0 && s.autoshutdown { terminate with reason }
     do nothing                                                                                  *)
Definition enter_shutdown (arfo : bool) (s : state) (run : list Z) (why : Z) : state :=
  let s1 := set_wait s (zset run) in
  if arfo then set_sreason (set_mode s1 3) why else set_shut s1 true why.

Definition no_restart (arfo : bool) (k : config) (s : state) (sp : cspec) (run : list Z) (reason : Z)
  : state * result :=
  if c_sig sp then
    if is_nil run then (s, RAct (Terminate reason))
    else (enter_shutdown arfo s run reason, RAct (TerminateChildren run reason))
  else if is_nil run && k_auto k then (s, RAct (Terminate reason))
  else (s, RAct DoNothing).

(* does the strategy switch return before the restart-intensity check? *)
Definition strategy_stops (k : config) (reason : Z) : bool :=
  match k_strat k with
  | Temporary => true
  | Transient => is_normal reason
  | Permanent => false
  end.

(* ---- supOFO.childTerminated ------------------------------------------------------------------ *)
Definition ofo_childTerminated (k : config) (s : state) (name pid reason now : Z) : state * result :=
  let s := set_wait s (zremove pid (wait s)) in                    (* delete(s.wait, pid) *)
  if shut s then
    if negb (is_nil (wait s)) then (s, RAct (TerminateChildren [] 0))
    else (s, RAct (Terminate (sreason s)))
  else
    let run := running_others name pid (specs s) in
    let found := last_match name pid (specs s) 0 in
    let s := set_specs s (clear_matching name pid (specs s)) in
    match found with
    | None =>
        if is_nil run then (s, RAct (Terminate reason))
        else (enter_shutdown false s run reason, RAct (TerminateChildren run reason))
    | Some (_, sp) =>
        if c_dis sp then
          if is_nil run && k_auto k then (s, RAct (Terminate reason)) else (s, RAct DoNothing)
        else if strategy_stops k reason then no_restart false k s sp run reason
        else
          let '(rs, exceeded) := check (restarts s) now (k_per k) (k_int k) in
          let s := set_restarts s rs in
          if negb exceeded then (s, RAct (StartChild sp))
          else
            (* action.terminate = every spec with a pid; s.wait = wait; s.shutdown = true;
               s.shutdownReason = ErrSupervisorRestartsExceeded (repaired, was: reason) *)
            (enter_shutdown false s run RExceeded, RAct (TerminateChildren (running (specs s)) RExceeded))
    end.

(* ---- supARFO helpers --------------------------------------------------------------------------
   childrenForTermination: walks s.spec from the end down to s.restartI, skipping disabled and not
   running specs, puts every selected pid into s.wait; with keeporder only the first one found.  *)
Fixpoint cft_rev (keep : bool) (l : list cspec) : list Z :=
  match l with
  | [] => []
  | c :: tl => if c_dis c then cft_rev keep tl
               else if c_pid c =? 0 then cft_rev keep tl
               else if keep then [c_pid c] else c_pid c :: cft_rev keep tl
  end.
Definition childrenForTermination (k : config) (s : state) : state * list Z :=
  let t := cft_rev (k_keep k) (rev (skipn (restartI s) (specs s))) in
  (set_wait s (zunion t (wait s)), t).

(* childForStart: first not disabled spec of s.spec[s.restartI:]; panics if it is running or if
   there is none *)
Fixpoint cfs (l : list cspec) : option cspec :=
  match l with
  | [] => None
  | c :: tl => if c_dis c then cfs tl else if negb (c_pid c =? 0) then None else Some c
  end.
Definition childForStart (s : state) : option cspec := cfs (skipn (restartI s) (specs s)).

(* ---- supARFO.childTerminated ------------------------------------------------------------------ *)
Definition arfo_childTerminated (k : config) (s : state) (name pid reason now : Z) : state * result :=
  let rest := match k_kind k with RFO => true | _ => false end in
  let s := set_wait s (zremove pid (wait s)) in
  if mode s =? 3 then
    if negb (is_nil (wait s)) then (s, RAct (TerminateChildren [] 0))
    else (s, RAct (Terminate (sreason s)))
  else
    let run := running_others name pid (specs s) in
    let found := last_match name pid (specs s) 0 in
    let s := set_specs s (clear_matching name pid (specs s)) in
    match found with
    | None =>
        if is_nil run then (s, RAct (Terminate reason))
        else (enter_shutdown true s run reason, RAct (TerminateChildren run reason))
    | Some (specI, sp) =>
        if mode s =? 2 then
          (* stopping (restarting), repaired:
               if specI < s.restartI { s.restartI = specI }
               if len(s.wait) > 0 { return wait-action }
               terminate := s.childrenForTermination(); if len(terminate) > 0 { return them }
               s.mode = 1; start s.childForStart(); s.restartI = 0                               *)
          let s := if Nat.ltb specI (restartI s) then set_restartI s specI else s in
          if negb (is_nil (wait s)) then (s, RAct (TerminateChildren [] 0))
          else
            let '(s, t) := childrenForTermination k s in
            if negb (is_nil t) then (s, RAct (TerminateChildren t reason))
            else
              let s := set_mode s 1 in
              match childForStart s with
              | None => (s, RPanic)
              | Some c => (set_restartI s 0, RAct (StartChild c))
              end
        else if c_dis sp then
          if is_nil run && k_auto k then (s, RAct (Terminate reason)) else (s, RAct DoNothing)
        else if strategy_stops k reason then no_restart true k s sp run reason
        else
          let '(rs, exceeded) := check (restarts s) now (k_per k) (k_int k) in
          let s := set_restarts s rs in
          if exceeded then
            (* s.shutdownReason = ErrSupervisorRestartsExceeded (repaired, was: reason) *)
            (enter_shutdown true s run RExceeded, RAct (TerminateChildren run RExceeded))
          else
            let s := if rest then set_restartI s specI else s in
            let '(s, t) := childrenForTermination k s in
            if is_nil t then
              match childForStart s with
              | None => (s, RPanic)
              | Some c => (set_mode s 1, RAct (StartChild c))
              end
            else (set_mode s 2, RAct (TerminateChildren t reason))
    end.

(* ---- supSOFO.childTerminated (repaired: delete(s.wait, pid) is done unconditionally) ---------- *)
Definition sofo_childTerminated (k : config) (s : state) (name pid reason now : Z) : state * result :=
  let s := set_pids s (premove pid (pids s)) in
  let s := set_wait s (zremove pid (wait s)) in
  if shut s then
    if negb (is_nil (wait s)) then (s, RAct (TerminateChildren [] 0))
    else (s, RAct (Terminate (sreason s)))
  else
    let give_up (s : state) (why : Z) :=
      let t := map fst (pids s) in
      (set_shut (set_wait s (zunion t (wait s))) true why, RAct (TerminateChildren t why)) in
    match find_name name (specs s) with
    | Some sp =>
        if strategy_stops k reason then (s, RAct DoNothing)
        else if c_dis sp then (s, RAct DoNothing)
        else
          let '(rs, exceeded) := check (restarts s) now (k_per k) (k_int k) in
          let s := set_restarts s rs in
          if negb exceeded then (s, RAct (StartChild sp)) else give_up s RExceeded
    | None => give_up s reason
    end.

(* ---- childEnable / childDisable ---------------------------------------------------------------- *)
Definition ofo_childEnable (arfo : bool) (s : state) (name : Z) : state * result :=
  if arfo && negb (mode s =? 0) then (s, RErr EActive)
  else match find_name name (specs s) with
       | None => (s, RErr EUnknown)
       | Some c => if negb (c_dis c) then (s, RAct DoNothing)
                   else (set_specs s (update_name name (fun c => with_dis c false) (specs s)),
                         RAct (StartChild (with_dis c false)))
       end.

Definition ofo_childDisable (arfo : bool) (s : state) (name : Z) : state * result :=
  if arfo && negb (mode s =? 0) then (s, RErr EActive)
  else match find_name name (specs s) with
       | None => (s, RErr EUnknown)
       | Some c => if c_dis c then (s, RAct DoNothing)
                   else if c_pid c =? 0 then (s, RAct DoNothing)
                   else
                     let s1 := set_specs s (update_name name (fun c => with_dis c true) (specs s)) in
                     let s2 := if arfo then set_wait s1 (zinsert (c_pid c) (wait s1)) else s1 in
                     (s2, RAct (TerminateChildren [c_pid c] RShutdown))
       end.

Definition sofo_childEnable (s : state) (name : Z) : state * result :=
  if shut s then (s, RErr EShutting)
  else match find_name name (specs s) with
       | None => (s, RErr EUnknown)
       | Some _ => (set_specs s (update_name name (fun c => with_dis c false) (specs s)), RAct DoNothing)
       end.

Definition sofo_childDisable (s : state) (name : Z) : state * result :=
  if shut s then (s, RErr EShutting)
  else match find_name name (specs s) with
       | None => (s, RErr EUnknown)
       | Some _ =>
           let s1 := set_specs s (update_name name (fun c => with_dis c true) (specs s)) in
           let t := map fst (filter (fun q => snd q =? name) (pids s)) in
           if is_nil t then (s1, RAct DoNothing)
           else (set_wait s1 (zunion t (wait s1)), RAct (TerminateChildren t RShutdown))
       end.

(* ---- dispatch on the supervisor type ------------------------------------------------------------ *)
Definition is_arfo (k : config) : bool := match k_kind k with AFO | RFO => true | _ => false end.

Definition childTerminated (k : config) (s : state) (name pid reason now : Z) : state * result :=
  match k_kind k with
  | OFO => ofo_childTerminated k s name pid reason now
  | AFO | RFO => arfo_childTerminated k s name pid reason now
  | SOFO => sofo_childTerminated k s name pid reason now
  end.
Definition childStarted (k : config) (s : state) (i : nat) (name pid : Z) : state * result :=
  match k_kind k with
  | SOFO => sofo_childStarted s name pid
  | _ => ofo_childStarted (is_arfo k) s i name pid
  end.
Definition childSpec (k : config) (s : state) (name : Z) : state * result :=
  match k_kind k with SOFO => sofo_childSpec s name | _ => ofo_childSpec s name end.
Definition childAddSpec (k : config) (s : state) (name : Z) (sg : bool) : state * result :=
  match k_kind k with SOFO => sofo_childAddSpec s name sg | _ => ofo_childAddSpec s name sg end.
Definition childEnable (k : config) (s : state) (name : Z) : state * result :=
  match k_kind k with SOFO => sofo_childEnable s name | _ => ofo_childEnable (is_arfo k) s name end.
Definition childDisable (k : config) (s : state) (name : Z) : state * result :=
  match k_kind k with SOFO => sofo_childDisable s name | _ => ofo_childDisable (is_arfo k) s name end.
(* VerifSup.ShiftRestarts: the wall clock advances by d ms *)
Definition shiftRestarts (s : state) (d : Z) : state := set_restarts s (map (fun x => x - d) (restarts s)).

(* ==== Supervisor.handleAction + the exit branch of ProcessRun, with an environment ==============

   The driver state is the Supervisor object: the machine, s.children (pid -> spec name), plus the
   bookkeeping of the environment: the next pid the node will hand out, and the log of everything the
   supervisor did to the outside (spawns, exit signals).  Children are processes of the environment:
   each spawned pid is alive until the environment delivers its exit message to the supervisor
   ([EExit]); it may do so at any time with any reason, whether or not an exit signal was sent. *)

Inductive event :=
| EvSpawn (pid name : Z)          (* Spawn / SpawnRegister succeeded *)
| EvSpawnFail (name : Z)
| EvSendExit (pid reason : Z)     (* s.SendExit(pid, reason) *)
| EvTerminated (reason : Z).      (* handleAction returned a non-nil error to ProcessRun/ProcessInit *)

(* observation of one machine call: what was called, with which arguments, what it answered and the
   machine state afterwards *)
Inductive call :=
| CInit
| CStarted (i : nat) (name pid : Z)
| CTerminated (name pid reason now : Z)
| CSpec (name : Z)
| CAdd (name : Z) (sg : bool)
| CEnable (name : Z)
| CDisable (name : Z)
| CShift (d : Z).
Record obs := mk_obs { o_call : call; o_res : result; o_state : state }.

Record sup := mk_sup { m : state; children : list (Z * Z); nextpid : Z; alive : bool;
                       exitreason : Z; trace : list obs; events : list event }.

Definition sup_log (s : sup) (st : state) (c : call) (r : result) : sup :=
  mk_sup st (children s) (nextpid s) (alive s) (exitreason s) (trace s ++ [mk_obs c r st]) (events s).
Definition sup_event (s : sup) (e : event) : sup :=
  mk_sup (m s) (children s) (nextpid s) (alive s) (exitreason s) (trace s) (events s ++ [e]).
Definition sup_die (s : sup) (r : Z) : sup :=
  mk_sup (m s) (children s) (nextpid s) false r (trace s) (events s ++ [EvTerminated r]).
Definition sup_spawn (s : sup) (name : Z) : sup * Z :=
  let pid := nextpid s in
  (mk_sup (m s) (pinsert (pid, name) (children s)) (pid + 1) (alive s) (exitreason s) (trace s)
          (events s ++ [EvSpawn pid name]), pid).
Definition sup_forget (s : sup) (pid : Z) : sup :=
  mk_sup (m s) (premove pid (children s)) (nextpid s) (alive s) (exitreason s) (trace s) (events s).

Fixpoint lookup_pid (pid : Z) (l : list (Z * Z)) : option Z :=
  match l with
  | [] => None
  | q :: tl => if fst q =? pid then Some (snd q) else lookup_pid pid tl
  end.

(* outcome of handleAction: nil (continue), a termination reason for the caller (ProcessRun returns
   it = the supervisor terminates; a management call hands it to the user code), or a panic *)
Inductive hres := HNil | HErr (r : Z) | HPanic.

(* handleAction.  [fail] = which spawn of this loop fails (1 = the first one, 0 = none): the choice of
   the environment.  [fuel] bounds the loop: each iteration starts one more child. *)
Fixpoint handleAction (k : config) (fuel : nat) (fail : nat) (s : sup) (r : result) : sup * hres :=
  match r with
  | RPanic => (s, HPanic)
  | RErr e => (s, HErr (100 + e))                  (* the management call returns the error *)
  | RAct DoNothing => (s, HNil)
  | RAct (Terminate reason) => (s, HErr reason)
  | RAct (TerminateChildren ps reason) =>
      if is_nil ps then (s, if reason =? 0 then HNil else HErr reason)
      else (fold_left (fun s p => sup_event s (EvSendExit p reason)) ps s, HNil)
  | RAct (StartChild c) =>
      match fuel with
      | O => (s, HPanic)
      | S fuel' =>
          if Nat.eqb fail 1 then (sup_event s (EvSpawnFail (c_name c)), HErr RSpawnErr)
          else
            let '(s1, pid) := sup_spawn s (c_name c) in
            let '(st, r') := childStarted k (m s1) (c_i c) (c_name c) pid in
            handleAction k fuel' (Nat.pred fail) (sup_log s1 st (CStarted (c_i c) (c_name c) pid) r') r'
      end
  end.

Definition fuel_of (s : sup) : nat := S (S (length (specs (m s)))).

(* operations of the environment / of the supervisor's own callbacks *)
Inductive op :=
| OExit (pid reason now : Z) (fail : nat)   (* exit message of pid is taken from the mailbox *)
| OStartChild (name : Z) (fail : nat)      (* Supervisor.StartChild(name) *)
| OAddChild (name : Z) (sg : bool) (fail : nat)
| OEnableChild (name : Z) (fail : nat)
| ODisableChild (name : Z)
| OShift (d : Z).

(* what ProcessRun does with the outcome of handleAction for an exit message: a non-nil error
   terminates the supervisor; a panic is recovered:
     action := s.sup.childTerminated(s.Name(), s.PID(), gen.TerminateReasonPanic); rr = s.handleAction(action)
   The supervisor's own name/pid are (selfname, selfpid). *)
Definition selfname := 999.
Definition selfpid := 1.

Definition after_run (k : config) (s : sup) (h : hres) (now : Z) : sup :=
  match h with
  | HNil => s
  | HErr r => sup_die s r
  | HPanic =>
      let '(st, r) := childTerminated k (m s) selfname selfpid RPanicReason now in
      let s1 := sup_log s st (CTerminated selfname selfpid RPanicReason now) r in
      match handleAction k (fuel_of s1) 0 s1 r with
      | (s2, HNil) => s2        (* keeps running until the children are gone *)
      | (s2, HErr r) => sup_die s2 r
      | (s2, HPanic) => sup_die s2 RPanicReason
      end
  end.

(* a management call made from a callback: an error goes back to the caller, the supervisor goes on;
   a panic propagates into ProcessRun's recover *)
Definition after_call (k : config) (s : sup) (h : hres) : sup :=
  match h with
  | HPanic => after_run k s HPanic 0
  | _ => s
  end.

Definition step (k : config) (s : sup) (o : op) : sup :=
  if negb (alive s) then s else
  match o with
  | OExit pid reason now fail =>
      (* name, found := s.children[exit.PID]; if found { delete(s.children, exit.PID) } *)
      let name := match lookup_pid pid (children s) with Some n => n | None => 0 end in
      let s0 := sup_forget s pid in
      let '(st, r) := childTerminated k (m s0) name pid reason now in
      let s1 := sup_log s0 st (CTerminated name pid reason now) r in
      let '(s2, h) := handleAction k (fuel_of s1) fail s1 r in
      after_run k s2 h now
  | OStartChild name fail =>
      let '(st, r) := childSpec k (m s) name in
      let s1 := sup_log s st (CSpec name) r in
      let '(s2, h) := handleAction k (fuel_of s1) fail s1 r in after_call k s2 h
  | OAddChild name sg fail =>
      let '(st, r) := childAddSpec k (m s) name sg in
      let s1 := sup_log s st (CAdd name sg) r in
      let '(s2, h) := handleAction k (fuel_of s1) fail s1 r in after_call k s2 h
  | OEnableChild name fail =>
      let '(st, r) := childEnable k (m s) name in
      let s1 := sup_log s st (CEnable name) r in
      let '(s2, h) := handleAction k (fuel_of s1) fail s1 r in after_call k s2 h
  | ODisableChild name =>
      let '(st, r) := childDisable k (m s) name in
      let s1 := sup_log s st (CDisable name) r in
      let '(s2, h) := handleAction k (fuel_of s1) 0 s1 r in after_call k s2 h
  | OShift d =>
      let st := shiftRestarts (m s) d in
      sup_log s st (CShift d) (RAct DoNothing)
  end.

(* ProcessInit: init + handleAction; an error or panic makes the spawn of the supervisor fail *)
Definition firstpid := 1001.
Definition start (k : config) (cs : list (Z * bool)) (fail : nat) : sup :=
  let '(st, r) := init k cs in
  let s0 := mk_sup st [] firstpid true 0 [mk_obs CInit r st] [] in
  match handleAction k (fuel_of s0) fail s0 r with
  | (s1, HNil) => s1
  | (s1, HErr r) => sup_die s1 r
  | (s1, HPanic) => sup_die s1 RPanicReason
  end.

Definition run (k : config) (cs : list (Z * bool)) (fail : nat) (ops : list op) : sup :=
  fold_left (step k) ops (start k cs fail).

(* the exit signals still outstanding: sent to a pid whose exit message has not been taken yet *)
Definition signalled (ev : list event) (pid : Z) : bool :=
  existsb (fun e => match e with EvSendExit p _ => p =? pid | _ => false end) ev.
Definition outstanding (s : sup) : list Z :=
  filter (signalled (events s)) (map fst (children s)).

(* snapshot after every operation *)
Record snap := mk_snap { sn_state : state; sn_children : list (Z * Z); sn_out : list Z;
                         sn_alive : bool; sn_reason : Z }.
Definition snap_of (s : sup) : snap := mk_snap (m s) (children s) (outstanding s) (alive s) (exitreason s).

(* like [run], but keeps the supervisor after every operation (only operations executed while the
   supervisor is alive are listed by the harness, so a dead supervisor ends the list) *)
Fixpoint run_snaps (k : config) (s : sup) (ops : list op) : list snap * sup :=
  match ops with
  | [] => ([], s)
  | o :: tl => let s' := step k s o in
               let '(l, sf) := run_snaps k s' tl in (snap_of s' :: l, sf)
  end.

(* ==== the specification: which children the supervisor type and strategy prescribe ===============

   A deliberately small second description with no pids, no wait set, no modes 1/2/3, no keeporder
   and no start chains.  Per child spec: how many instances ought to be running (0/1 except for
   SOFO), disabled, significant.  The supervisor is Normal, in a group restart from position r,
   shutting down for a reason, or dead with a reason. *)
Record achild := mk_achild { a_name : Z; a_up : nat; a_dis : bool; a_sig : bool }.
Inductive aphase := ANormal | ARestart (from : nat) | AShutting (why : Z) | ADead (why : Z).
Record astate := mk_astate { a_children : list achild; a_phase : aphase; a_restarts : list Z }.

Definition a_set_children (a : astate) (l : list achild) := mk_astate l (a_phase a) (a_restarts a).
Definition a_set_phase (a : astate) (p : aphase) := mk_astate (a_children a) p (a_restarts a).

Fixpoint a_update (name : Z) (f : achild -> achild) (l : list achild) : list achild :=
  match l with
  | [] => []
  | c :: tl => if a_name c =? name then f c :: tl else c :: a_update name f tl
  end.
Fixpoint a_find (name : Z) (l : list achild) (i : nat) : option (nat * achild) :=
  match l with
  | [] => None
  | c :: tl => if a_name c =? name then Some (i, c) else a_find name tl (S i)
  end.
Definition a_none_up (l : list achild) : bool := forallb (fun c => Nat.eqb (a_up c) 0) l.
Definition a_dec (c : achild) := mk_achild (a_name c) (Nat.pred (a_up c)) (a_dis c) (a_sig c).
Definition a_inc (c : achild) := mk_achild (a_name c) (S (a_up c)) (a_dis c) (a_sig c).
Definition a_one (c : achild) := mk_achild (a_name c) 1 (a_dis c) (a_sig c).
Definition a_setdis (d : bool) (c : achild) := mk_achild (a_name c) (a_up c) d (a_sig c).

(* every enabled child from position r on is (re)started *)
Fixpoint a_restart_from (r : nat) (l : list achild) : list achild :=
  match l with
  | [] => []
  | c :: tl => match r with
               | O => (if a_dis c then c else a_one c) :: a_restart_from O tl
               | S r' => c :: a_restart_from r' tl
               end
  end.
(* is an enabled child from position r on still up? *)
Definition a_range_up (r : nat) (l : list achild) : bool :=
  existsb (fun c => negb (a_dis c) && negb (Nat.eqb (a_up c) 0)) (skipn r l).

Definition a_init (k : config) (cs : list (Z * bool)) : astate :=
  mk_astate (map (fun c => mk_achild (fst c) (match k_kind k with SOFO => 0 | _ => 1 end) false (snd c)) cs)
            ANormal [].

(* the supervisor starts to stop: dead at once if no child is up *)
Definition a_stop (a : astate) (why : Z) : astate :=
  a_set_phase a (if a_none_up (a_children a) then ADead why else AShutting why).

(* the exit message of an instance of child [name] (0 = not a child) with [reason] at time [now] *)
Definition a_exit (k : config) (a : astate) (name reason now : Z) : astate :=
  match a_phase a with
  | ADead _ => a
  | AShutting _ => a_set_children a (a_update name a_dec (a_children a))
  | ph =>
      match a_find name (a_children a) 0 with
      | None => a_stop a reason                                     (* exit of a non-child *)
      | Some (i, c) =>
          let a := a_set_children a (a_update name a_dec (a_children a)) in
          match ph with
          | ARestart r => if Nat.ltb i r then a_set_phase a (ARestart i) else a
          | _ =>
              match k_kind k with
              | SOFO =>
                  if strategy_stops k reason || a_dis c then a
                  else let '(rs, ex) := check (a_restarts a) now (k_per k) (k_int k) in
                       let a := mk_astate (a_children a) (a_phase a) rs in
                       if ex then a_stop a RExceeded
                       else a_set_children a (a_update name a_inc (a_children a))
              | kd =>
                  let quiet (a : astate) :=
                    if a_none_up (a_children a) && k_auto k then a_set_phase a (ADead reason) else a in
                  if a_dis c then quiet a
                  else if strategy_stops k reason then
                    if a_sig c then a_stop a reason else quiet a
                  else
                    let '(rs, ex) := check (a_restarts a) now (k_per k) (k_int k) in
                    let a := mk_astate (a_children a) (a_phase a) rs in
                    if ex then a_stop a RExceeded
                    else
                      let r := match kd with OFO => i | AFO => O | _ => i end in
                      match kd with
                      | OFO => a_set_children a (a_update name a_one (a_children a))
                      | _ => if a_range_up r (a_children a) then a_set_phase a (ARestart r)
                             else a_set_children a (a_restart_from r (a_children a))
                      end
              end
          end
      end
  end.

(* nothing is outstanding any more: a group restart starts its children, a shutdown completes *)
Definition a_quiesce (a : astate) : astate :=
  match a_phase a with
  | ARestart r => if a_range_up r (a_children a) then a
                  else mk_astate (a_restart_from r (a_children a)) ANormal (a_restarts a)
  | AShutting why => if a_none_up (a_children a) then a_set_phase a (ADead why) else a
  | _ => a
  end.

Definition a_normal (a : astate) : bool := match a_phase a with ANormal => true | _ => false end.
Definition a_accepts (k : config) (a : astate) : bool :=
  match k_kind k, a_phase a with
  | _, ANormal => true
  | _, _ => false
  end.

(* management calls; [ok] = the spawn succeeded *)
Definition a_start (k : config) (a : astate) (name : Z) (ok : bool) : astate :=
  if negb (a_accepts k a) then a else
  match a_find name (a_children a) 0 with
  | Some (_, c) =>
      if a_dis c then a
      else match k_kind k with
           | SOFO => if ok then a_set_children a (a_update name a_inc (a_children a)) else a
           | _ => if Nat.eqb (a_up c) 0 && ok then a_set_children a (a_update name a_one (a_children a)) else a
           end
  | None => a
  end.
Definition a_add (k : config) (a : astate) (name : Z) (sg ok : bool) : astate :=
  if negb (a_accepts k a) then a else
  if name =? 0 then a else
  match a_find name (a_children a) 0 with
  | Some _ => a
  | None => let up := match k_kind k with SOFO => O | _ => if ok then 1%nat else O end in
            a_set_children a (a_children a ++ [mk_achild name up false sg])
  end.
Definition a_enable (k : config) (a : astate) (name : Z) (ok : bool) : astate :=
  if negb (a_accepts k a) then a else
  match a_find name (a_children a) 0 with
  | Some (_, c) =>
      if negb (a_dis c) then a
      else let l := a_update name (a_setdis false) (a_children a) in
           match k_kind k with
           | SOFO => a_set_children a l
           | _ => a_set_children a (if ok then a_update name a_one l else l)
           end
  | None => a
  end.
(* DisableChild: the running instances are told to stop; their exits arrive as [a_exit] later.
   OFO/ARFO mark the spec disabled only when it has a running instance (as the code does). *)
Definition a_disable (k : config) (a : astate) (name : Z) : astate :=
  if negb (a_accepts k a) then a else
  match a_find name (a_children a) 0 with
  | Some (_, c) =>
      match k_kind k with
      | SOFO => a_set_children a (a_update name (a_setdis true) (a_children a))
      | _ => if Nat.eqb (a_up c) 0 then a else a_set_children a (a_update name (a_setdis true) (a_children a))
      end
  | None => a
  end.
Definition a_shift (a : astate) (d : Z) : astate :=
  mk_astate (a_children a) (a_phase a) (map (fun x => x - d) (a_restarts a)).

(* one operation of the history, seen from the specification: [chs] = pid -> name before the
   operation (who is the exiting pid), a management call makes at most one spawn: it fails iff fail = 1 *)
Definition a_step (k : config) (a : astate) (chs : list (Z * Z)) (o : op) : astate :=
  match o with
  | OExit pid reason now _ =>
      a_exit k a (match lookup_pid pid chs with Some n => n | None => 0 end) reason now
  | OStartChild name fail => a_start k a name (negb (Nat.eqb fail 1))
  | OAddChild name sg fail => a_add k a name sg (negb (Nat.eqb fail 1))
  | OEnableChild name fail => a_enable k a name (negb (Nat.eqb fail 1))
  | ODisableChild name => a_disable k a name
  | OShift d => a_shift a d
  end.

(* [prescribed]: the children that ought to be running, as (spec name, number of instances) *)
Definition a_view (a : astate) : list (Z * nat) := map (fun c => (a_name c, a_up c)) (a_children a).

(* what the machine records as running, in the same form *)
Definition count_pids (name : Z) (l : list (Z * Z)) : nat := length (filter (fun q => snd q =? name) l).
Definition m_view (k : config) (s : state) : list (Z * nat) :=
  match k_kind k with
  | SOFO => map (fun c => (c_name c, count_pids (c_name c) (pids s))) (specs s)
  | _ => map (fun c => (c_name c, if c_pid c =? 0 then O else 1%nat)) (specs s)
  end.
