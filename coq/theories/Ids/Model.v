(* Ids engine — model (definitions only) of identifier generation.

   node/core.go (after the fix):
     func (n *node) MakeRef() gen.Ref {
         ...
         id := atomic.AddUint64(&n.uniqID, 1)
         ref.ID[0] = id & ((2 << 17) - 1)
         ref.ID[1] = (id >> 18) & ((2 << 27) - 1)
         ref.ID[2] = id >> 46
         return ref }
   node/node.go spawn:      pid.ID = atomic.AddUint64(&n.nextID, 1)
   node/process.go:         alias := gen.Alias(p.node.MakeRef())
   node/process.go SendPID (important delivery):
         options.Ref.ID[0] = ref.ID[0] + ref.ID[1] + ref.ID[2]; options.Ref.ID[1] = 0; options.Ref.ID[2] = 0
   Counters are uint64: the wrap-around is written out. *)
From Ergo Require Import Common.Base.
Local Open Scope N_scope.

Definition two64 : N := 18446744073709551616.
Definition mask18 : N := 262143.          (* (2 << 17) - 1 *)
Definition mask28 : N := 268435455.       (* (2 << 27) - 1 *)

(* atomic.AddUint64(&counter, 1) returns the new value *)
Definition next_counter (c : N) : N := (c + 1) mod two64.

Definition ref := (N * N * N)%type.       (* gen.Ref.ID [3]uint64 (Node and Creation are constant per node) *)

Definition makeref (id : N) : ref :=
  (N.land id mask18, N.land (N.shiftr id 18) mask28, N.shiftr id 46).

(* n.MakeRef(): new counter state and the reference *)
Definition make_ref (c : N) : N * ref := let id := next_counter c in (id, makeref id).

(* k successive MakeRef calls *)
Fixpoint make_refs (k : nat) (c : N) : list ref :=
  match k with
  | O => []
  | S k' => let '(c', r) := make_ref c in r :: make_refs k' c'
  end.

Definition alias_of (id : N) : ref := makeref id.       (* gen.Alias(MakeRef()) *)

(* spawn: the new process id *)
Definition next_pid (c : N) : N := next_counter c.
Fixpoint spawn_pids (k : nat) (c : N) : list N :=
  match k with
  | O => []
  | S k' => let p := next_pid c in p :: spawn_pids k' p
  end.

(* reference of an important delivery: the three words folded into ID[0] (uint64 addition) *)
Definition fold_ref (r : ref) : ref := let '(a, b, c) := r in ((a + b + c) mod two64, 0, 0).

Definition ref_eqb (x y : ref) : bool :=
  let '(a, b, c) := x in let '(a', b', c') := y in (a =? a') && (b =? b') && (c =? c').
