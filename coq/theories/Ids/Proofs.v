(* Ids engine — proofs: MakeRef is injective on the 64-bit counter, references / aliases / pids of
   one node life never repeat while the counters have not wrapped. *)
From Ergo Require Import Common.Base Ids.Model.
Local Open Scope N_scope.

Lemma mask18_ones : mask18 = N.ones 18. Proof. reflexivity. Qed.
Lemma mask28_ones : mask28 = N.ones 28. Proof. reflexivity. Qed.

(* the three words are the base-2^18 / 2^28 digits of the counter *)
Lemma makeref_words id :
  makeref id = (id mod 262144, (id / 262144) mod 268435456, id / 70368744177664).
Proof.
  unfold makeref. rewrite mask18_ones, mask28_ones, !N.land_ones, !N.shiftr_div_pow2.
  reflexivity.
Qed.

(* the counter is recovered from the words: no bit is dropped *)
Lemma makeref_recover id :
  let '(a, b, c) := makeref id in id = a + 262144 * b + 70368744177664 * c.
Proof. rewrite makeref_words. lia. Qed.

Theorem makeref_injective : forall a b, a < two64 -> b < two64 -> a <> b -> makeref a <> makeref b.
Proof.
  intros a b _ _ NE E. apply NE.
  pose proof (makeref_recover a) as Ha. pose proof (makeref_recover b) as Hb.
  rewrite E in Ha. destruct (makeref b) as [[x y] z]. congruence.
Qed.

Lemma ref_eqb_eq x y : ref_eqb x y = true <-> x = y.
Proof.
  destruct x as [[a b] c], y as [[a' b'] c']. unfold ref_eqb. rewrite !andb_true_iff, !N.eqb_eq.
  split; [intros [[-> ->] ->]; reflexivity | intros E; inversion E; auto].
Qed.

(* ID[0] stays below 2^18 and ID[1] below 2^28, ID[2] below 2^18 for 64-bit counters *)
Lemma makeref_ranges id : id < two64 ->
  let '(a, b, c) := makeref id in a < 262144 /\ b < 268435456 /\ c < 262144.
Proof. intros H. rewrite makeref_words. unfold two64 in H. lia. Qed.

(* successive calls: counters c+1 .. c+k *)
Lemma make_refs_In k : forall c r, c + N.of_nat k < two64 ->
  In r (make_refs k c) -> exists i, c < i /\ i <= c + N.of_nat k /\ r = makeref i.
Proof.
  induction k as [|k IH]; intros c r B HI; cbn [make_refs] in HI; [destruct HI|].
  unfold make_ref in HI. cbn [In] in HI.
  assert (NC : next_counter c = c + 1) by (unfold next_counter, two64 in *; lia).
  rewrite NC in HI. destruct HI as [<-|HI].
  - exists (c + 1). repeat split; lia.
  - apply IH in HI; [|lia]. destruct HI as (i & H1 & H2 & H3). exists i. repeat split; try lia. exact H3.
Qed.

Theorem refs_never_repeat : forall k c, c + N.of_nat k < two64 -> NoDup (make_refs k c).
Proof.
  induction k as [|k IH]; intros c B; cbn [make_refs]; [constructor|].
  unfold make_ref.
  assert (NC : next_counter c = c + 1) by (unfold next_counter, two64 in *; lia).
  rewrite NC. constructor.
  - intros HI. apply make_refs_In in HI; [|lia]. destruct HI as (i & H1 & H2 & H3).
    revert H3. apply makeref_injective; unfold two64 in *; lia.
  - apply IH. lia.
Qed.

(* process ids: strictly increasing, hence never repeated, while the counter has not wrapped *)
Fixpoint increasing_from (lo : N) (l : list N) : Prop :=
  match l with
  | [] => True
  | x :: tl => lo < x /\ increasing_from x tl
  end.

Theorem pids_increasing : forall k c, c + N.of_nat k < two64 -> increasing_from c (spawn_pids k c).
Proof.
  induction k as [|k IH]; intros c B; cbn [spawn_pids increasing_from]; [exact I|].
  assert (NC : next_pid c = c + 1) by (unfold next_pid, next_counter, two64 in *; lia).
  rewrite NC. split; [lia|]. apply IH. lia.
Qed.

Lemma increasing_lower lo l x : increasing_from lo l -> In x l -> lo < x.
Proof.
  revert lo. induction l as [|y l IH]; intros lo H HI; [destruct HI|].
  cbn in H. destruct H as [H1 H2]. destruct HI as [<-|HI]; [exact H1|].
  specialize (IH y H2 HI). lia.
Qed.

Lemma increasing_NoDup l : forall lo, increasing_from lo l -> NoDup l.
Proof.
  induction l as [|x l IH]; intros lo B; [constructor|].
  cbn in B. destruct B as [B1 B2]. constructor; [|eapply IH; eauto].
  intros HI. pose proof (increasing_lower _ _ _ B2 HI). lia.
Qed.

Theorem pids_never_repeat : forall k c, c + N.of_nat k < two64 -> NoDup (spawn_pids k c).
Proof. intros k c B. eapply increasing_NoDup, pids_increasing, B. Qed.

(* the wrap itself: after 2^64 calls the counter (and the reference) repeats — the hypothesis is needed *)
Lemma counter_wraps : next_counter (two64 - 1) = 0.
Proof. vm_compute. reflexivity. Qed.

(* folded reference of important deliveries: injective inside one block of 2^18 counters ... *)
Lemma fold_ref_window a b : a < two64 -> b < two64 ->
  a / 262144 = b / 262144 -> fold_ref (makeref a) = fold_ref (makeref b) -> a = b.
Proof.
  intros Ha Hb Hq. rewrite !makeref_words. unfold fold_ref, two64 in *. intros E. inversion E as [E1]. clear E.
  assert (Q : a / 70368744177664 = b / 70368744177664).
  { replace 70368744177664 with (262144 * 268435456) by reflexivity. rewrite <- !N.div_div by lia. congruence. }
  rewrite Hq, Q in E1.
  rewrite !N.mod_small in E1 by lia. lia.
Qed.

(* ... but not beyond: counters 1 and 2^18 fold to the same word *)
Lemma fold_ref_collides : fold_ref (makeref 1) = fold_ref (makeref 262144) /\ 1 <> 262144.
Proof. split; [vm_compute; reflexivity | discriminate]. Qed.
