(* Ids engine — checkers evaluated over implementation observations (go/harness/cmd/rel ref). *)
From Ergo Require Import Common.Base Ids.Model.
Local Open Scope N_scope.

(* counters a, b and the ID words the real MakeRef produced for each *)
Record refcase := mk_refcase { rc_a : N; rc_b : N; rc_ra : ref; rc_rb : ref }.

(* model = implementation *)
Definition corr_ref (c : refcase) : bool :=
  ref_eqb (makeref (rc_a c)) (rc_ra c) && ref_eqb (makeref (rc_b c)) (rc_rb c).
(* the property on the implementation's answers: different counters give different references *)
Definition spec_ref (c : refcase) : bool :=
  (rc_a c =? rc_b c) || negb (ref_eqb (rc_ra c) (rc_rb c)).
Definition premise_ref (c : refcase) : bool :=
  negb (rc_a c =? rc_b c) && (rc_a c <? two64) && (rc_b c <? two64).
