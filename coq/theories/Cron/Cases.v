(* Cron engine — records for observed cases and the boolean checkers evaluated on them
   (cases files are written by go/harness/cmd/cron). *)
From Ergo Require Import Common.Base Cron.Model Cron.Spec Cron.Grammar Cron.TickSpec.
Local Open Scope Z_scope.

(* ---- equality tests ---------------------------------------------------------------------------- *)

Definition item_eqb (a b : item) : bool :=
  match a, b with
  | IStar, IStar => true
  | IStep s, IStep s' => s =? s'
  | IRange x y, IRange x' y' => (x =? x') && (y =? y')
  | IRangeStep x y s, IRangeStep x' y' s' => (x =? x') && (y =? y') && (s =? s')
  | INum n, INum n' => n =? n'
  | ILast, ILast => true
  | ILastW d, ILastW d' => d =? d'
  | INth d n, INth d' n' => (d =? d') && (n =? n')
  | _, _ => false
  end.

Fixpoint list_eqb {A} (eq : A -> A -> bool) (a b : list A) : bool :=
  match a, b with
  | [], [] => true
  | x :: a', y :: b' => eq x y && list_eqb eq a' b'
  | _, _ => false
  end.

Definition cronspec_eqb (a b : cronspec) : bool :=
  list_eqb item_eqb (s_min a) (s_min b) && list_eqb item_eqb (s_hour a) (s_hour b) &&
  list_eqb item_eqb (s_day a) (s_day b) && list_eqb item_eqb (s_month a) (s_month b) &&
  list_eqb item_eqb (s_wday a) (s_wday b).

Definition civil_eqb (a b : civil) : bool :=
  (c_year a =? c_year b) && (c_month a =? c_month b) && (c_day a =? c_day b) &&
  (c_hour a =? c_hour b) && (c_min a =? c_min b) && (c_wday a =? c_wday b).

Fixpoint insert (x : Z) (l : list Z) : list Z :=
  match l with [] => [x] | y :: tl => if x <=? y then x :: l else y :: insert x tl end.
Definition sort (l : list Z) : list Z := fold_right insert [] l.

(* ---- 1. parser and IsRunAt --------------------------------------------------------------------- *)

(* one instant: unix seconds, the UTC offset of the job's location at that instant, the wall
   clock fields Go reports, and the answer of cronSpecMask.IsRunAt *)
Record sample := mk_sample { sa_unix : Z; sa_off : Z; sa_go : civil; sa_run : bool }.

(* p_ast: the syntax tree the generator rendered the spec from (None for the malformed stream) *)
Record pcase := mk_pcase {
  p_spec : str; p_ast : option cronspec;
  p_ok : bool; p_mhm : list Z; p_day : list Z; p_wday : list Z;   (* cronParseSpec result, raw uint64 masks *)
  p_samples : list sample }.

Definition corr_parse (c : pcase) : bool :=
  match parse_spec (p_spec c) with
  | None => negb (p_ok c)
  | Some m => p_ok c && zlist_eqb (map encode (sm_mhm m)) (p_mhm c) && zlist_eqb (map encode (sm_day m)) (p_day c)
              && zlist_eqb (map encode (sm_wday m)) (p_wday c)
  end.

Definition corr_lex (c : pcase) : bool :=
  match p_ast c, lex_spec (p_spec c) with
  | Some a, Some a' => cronspec_eqb a a'
  | Some a, None => negb (wf_spec a)
  | None, _ => true
  end.

Definition corr_civil (c : pcase) : bool :=
  forallb (fun s => civil_eqb (civil_of (sa_off s) (sa_unix s)) (sa_go s)) (p_samples c).

Definition corr_run (c : pcase) : bool :=
  match parse_spec (p_spec c) with
  | None => is_nil (p_samples c) || negb (p_ok c)
  | Some m => forallb (fun s => Bool.eqb (spec_run m (civil_of (sa_off s) (sa_unix s))) (sa_run s)) (p_samples c)
  end.

(* GrammarProofs.parse_print on the generator's tree: the canonical printing of a tree of the dialect
   is parsed by the model to the masks the real parser produced for the generator's own rendering
   (random white space, leading zeros) *)
Definition corr_print (c : pcase) : bool :=
  match p_ast c with
  | Some a =>
      if wf_spec a
      then match parse_spec (print a) with
           | Some m => p_ok c && zlist_eqb (map encode (sm_mhm m)) (p_mhm c) && zlist_eqb (map encode (sm_day m)) (p_day c)
                       && zlist_eqb (map encode (sm_wday m)) (p_wday c)
           | None => false
           end
      else true
  | None => true
  end.

(* the syntax tree the property speaks about: the generator's, else the lexed one *)
Definition case_ast (c : pcase) : option cronspec :=
  match p_ast c with Some a => Some a | None => lex_spec (p_spec c) end.

(* the property on the implementation's answers: a spec of the grammar is accepted and runs at
   exactly the instants the reference semantics denotes; anything else is rejected *)
Definition spec_parse_run (c : pcase) : bool :=
  match case_ast c with
  | Some a =>
      if wf_spec a
      then p_ok c && forallb (fun s => Bool.eqb (sa_run s) (matches a (sa_go s))) (p_samples c)
      else negb (p_ok c)
  | None => negb (p_ok c)
  end.

(* non-triviality: a valid spec with samples on both sides of the answer *)
Definition premise_parse_run (c : pcase) : bool :=
  p_ok c && existsb sa_run (p_samples c) && existsb (fun s => negb (sa_run s)) (p_samples c).

(* ---- 2. JobSchedule / Schedule ---------------------------------------------------------------- *)

Record sjob := mk_sjob { sj_name : Z; sj_spec : str; sj_ast : cronspec; sj_tbl : list (Z * Z); sj_dflt : Z;
                         sj_times : list Z (* JobSchedule result, unix seconds *) }.
Record scase := mk_scase { sc_jobs : list sjob; sc_since : Z; sc_period : Z;
                           sc_rows : list (Z * list Z) (* Schedule result: minute, sorted job names *) }.

Definition sj_zone (j : sjob) : zone := table_off (sj_tbl j) (sj_dflt j).

Definition rows_eqb (a b : list (Z * list Z)) : bool :=
  list_eqb (fun x y => (fst x =? fst y) && zlist_eqb (snd x) (snd y)) a b.

Definition corr_sched (c : scase) : bool :=
  forallb (fun j => match parse_spec (sj_spec j) with
                    | Some m => zlist_eqb (job_schedule m (sj_zone j) (sc_since c) (sc_period c)) (sj_times j)
                    | None => false
                    end) (sc_jobs c) &&
  (let js := flat_map (fun j => match parse_spec (sj_spec j) with Some m => [(sj_name j, m, sj_zone j)] | None => [] end) (sc_jobs c) in
   rows_eqb (schedule js (sc_since c) (sc_period c)) (sc_rows c)).

(* the property: the reported run times are the minutes of the window that match the spec *)
Definition spec_rows (c : scase) : list (Z * list Z) :=
  filter (fun r => negb (is_nil (snd r)))
         (map (fun t => (t, map sj_name (filter (fun j => matches_at (sj_ast j) (sj_zone j) t) (sc_jobs c))))
              (window (sc_since c) (sc_period c))).

Definition spec_sched (c : scase) : bool :=
  forallb (fun j => zlist_eqb (sj_times j) (filter (matches_at (sj_ast j) (sj_zone j)) (window (sc_since c) (sc_period c)))) (sc_jobs c) &&
  rows_eqb (sc_rows c) (spec_rows c).

Definition premise_sched (c : scase) : bool :=
  existsb (fun j => negb (is_nil (sj_times j))) (sc_jobs c) &&
  forallb (fun j => wf_spec (sj_ast j)) (sc_jobs c).

(* ---- 3. spool / tick --------------------------------------------------------------------------- *)

(* one operation with what the implementation answered: result code and, for a tick, the
   popped spool entries (name, disabled) sorted by name *)
Record tstep := mk_tstep { t_op : op; t_ast : option cronspec; t_rc : Z; t_names : list Z; t_dis : list bool }.
Record tcase := mk_tcase { tc_next : Z; tc_steps : list tstep }.

Definition blist_eqb (a b : list bool) : bool := list_eqb Bool.eqb a b.

Definition is_tick (o : op) : bool := match o with OTick => true | _ => false end.

(* popped entries of the model sorted like the harness sorts them: by name, enabled first *)
Definition key (e : Z * bool) : Z := 2 * fst e + (if snd e then 1 else 0).
Definition sorted_entries (c : cron) : list Z := sort (map key (drain c)).
Definition obs_entries (s : tstep) : list Z := sort (map key (combine (t_names s) (t_dis s))).

Fixpoint corr_tick_from (c : cron) (l : list tstep) : bool :=
  match l with
  | [] => true
  | s :: tl =>
      let '(c', rc) := step c (t_op s) in
      (rc =? t_rc s) &&
      (if is_tick (t_op s) then zlist_eqb (sorted_entries c) (obs_entries s) else true) &&
      corr_tick_from c' tl
  end.
Definition corr_tick (c : tcase) : bool := corr_tick_from (mk_cron (tc_next c) [] []) (tc_steps c).

(* the generator's syntax tree of an added spec is the tree the lexing phase computes *)
Definition corr_tick_ast (c : tcase) : bool :=
  forallb (fun s => match t_op s, t_ast s with
                    | OAdd _ spec _ _, Some a =>
                        match lex_spec spec with Some a' => cronspec_eqb a a' | None => negb (wf_spec a) end
                    | _, _ => true
                    end) (tc_steps c).

(* the property (TickProofs.tick_histories, evaluated on what the implementation did): the observed
   history -- result code of every API call; per tick its minute and the names of the popped
   entries that are not disabled, i.e. the actions the tick starts -- is the history the abstract
   scheduler demands (TickSpec.atrace: malformed specs rejected, duplicates refused, unknown names
   reported; a tick starts exactly the present, enabled jobs whose spec denotes the minute, once each) *)
Fixpoint obs_trace (next : Z) (l : list tstep) : list ev :=
  match l with
  | [] => []
  | s :: tl =>
      if is_tick (t_op s)
      then EFire next (map fst (filter (fun e => negb (snd e)) (combine (t_names s) (t_dis s)))) :: obs_trace (next + 60) tl
      else ERc (t_rc s) :: obs_trace next tl
  end.

Definition ev_eqb (e e' : ev) : bool :=
  match e, e' with
  | ERc a, ERc b => a =? b
  | EFire m l, EFire m' l' => (m =? m') && zlist_eqb (sort l) (sort l')
  | _, _ => false
  end.

Definition spec_tick (c : tcase) : bool :=
  list_eqb ev_eqb (obs_trace (tc_next c) (tc_steps c)) (atrace (tc_next c) [] (map t_op (tc_steps c))).

Definition premise_tick (c : tcase) : bool :=
  existsb (fun s => is_tick (t_op s) && existsb negb (t_dis s)) (tc_steps c).
