(* Cron engine — calendar arithmetic: days_from_civil / civil_from_days are mutually inverse on
   the proleptic Gregorian calendar, month lengths, weekdays.  The two 400-year sweeps are
   finite checks by vm_compute (reflection); everything else is symbolic. *)
From Ergo Require Import Common.Base Cron.Model Cron.Spec Cron.CivilSweep.
Local Open Scope Z_scope.


(* ---- bounded universal quantification by computation ---------------------------------------- *)


Lemma all_from_spec n : forall a f, all_from n a f = true -> forall x, a <= x < a + Z.of_nat n -> f x = true.
Proof.
  induction n as [|n IH]; intros a f H x Hx; [lia|].
  cbn [all_from] in H. apply andb_true_iff in H as [H1 H2].
  destruct (Z.eq_dec x a) as [->|Hne]; [exact H1|].
  apply (IH (a + 1) f H2). lia.
Qed.


Lemma all_2level_spec outer inner a f :
  all_2level outer inner a f = true -> (0 < inner)%nat ->
  forall x, a <= x < a + Z.of_nat inner * Z.of_nat outer -> f x = true.
Proof.
  intros H Hi x Hx. unfold all_2level in H.
  set (i := (x - a) / Z.of_nat inner).
  assert (Hi0 : 0 <= i < 0 + Z.of_nat outer).
  { unfold i. split; [apply Z.div_pos; lia|]. apply Z.div_lt_upper_bound; lia. }
  pose proof (all_from_spec _ _ _ H i Hi0) as H2. cbv beta in H2.
  apply (all_from_spec _ _ _ H2 x).
  unfold i. pose proof (Z.mod_pos_bound (x - a) (Z.of_nat inner) ltac:(lia)).
  pose proof (Z.div_mod (x - a) (Z.of_nat inner) ltac:(lia)). lia.
Qed.

(* ---- era shifts --------------------------------------------------------------------------------- *)

Lemma days_from_civil_shift y m d k : days_from_civil (y + 400 * k) m d = days_from_civil y m d + 146097 * k.
Proof.
  unfold days_from_civil.
  set (c := if m <=? 2 then 1 else 0).
  replace (if m <=? 2 then y + 400 * k - 1 else y + 400 * k) with ((y - c) + k * 400) by (unfold c; destruct (m <=? 2); lia).
  replace (if m <=? 2 then y - 1 else y) with (y - c) by (unfold c; destruct (m <=? 2); lia).
  rewrite Z.div_add by lia. lia.
Qed.

Lemma civil_from_days_shift z k :
  civil_from_days (z + 146097 * k) = let '(y, m, d) := civil_from_days z in (y + 400 * k, m, d).
Proof.
  unfold civil_from_days.
  replace (z + 146097 * k + 719468) with (z + 719468 + k * 146097) by lia.
  rewrite Z.div_add, Z.mod_add by lia.
  destruct (ymd_of_doe ((z + 719468) mod 146097)) as [[yy m] d]. f_equal. f_equal. lia.
Qed.

Lemma is_leap_shift y k : is_leap (y + 400 * k) = is_leap y.
Proof.
  unfold is_leap.
  replace (y + 400 * k) with (y + (100 * k) * 4) at 1 by lia.
  replace (y + 400 * k) with (y + (4 * k) * 100) at 1 by lia.
  replace (y + 400 * k) with (y + k * 400) by lia.
  rewrite !Z.mod_add by lia. reflexivity.
Qed.

Lemma days_in_month_shift y m k : days_in_month (y + 400 * k) m = days_in_month y m.
Proof. unfold days_in_month. rewrite is_leap_shift. reflexivity. Qed.

Lemma valid_date_shift y m d k : valid_date (y + 400 * k) m d = valid_date y m d.
Proof. unfold valid_date. rewrite days_in_month_shift. reflexivity. Qed.

(* ---- sweep A: every day of one era ------------------------------------------------------------ *)


Lemma checkA_all doe : 0 <= doe < 146097 -> checkA doe = true.
Proof.
  intros H. pose proof sweepA as HS.
  apply (all_2level_spec _ _ _ _ HS); [lia|].
  replace (Z.of_nat 773) with 773 by reflexivity. replace (Z.of_nat 189) with 189 by reflexivity. lia.
Qed.

(* A: civil_from_days yields a valid date whose day number is the argument *)
Lemma civil_from_days_inv z :
  let '(y, m, d) := civil_from_days z in valid_date y m d = true /\ days_from_civil y m d = z.
Proof.
  unfold civil_from_days.
  pose proof (Z.mod_pos_bound (z + 719468) 146097 ltac:(lia)) as Hb.
  pose proof (checkA_all _ Hb) as HA. unfold checkA in HA.
  destruct (ymd_of_doe ((z + 719468) mod 146097)) as [[yy m] d].
  apply andb_true_iff in HA as [HV HD]. apply Z.eqb_eq in HD.
  rewrite Z.mul_comm, valid_date_shift, days_from_civil_shift. split; [exact HV|].
  pose proof (Z.div_mod (z + 719468) 146097 ltac:(lia)). lia.
Qed.

(* ---- sweep B: every date of 400 years --------------------------------------------------------- *)


(* B: the date of the day number of a valid date is that date *)
Lemma civil_from_days_of_date y m d : valid_date y m d = true -> civil_from_days (days_from_civil y m d) = (y, m, d).
Proof.
  intros HV.
  set (k := y / 400). set (y0 := y mod 400).
  assert (Hy : y = y0 + 400 * k) by (unfold y0, k; pose proof (Z.div_mod y 400 ltac:(lia)); lia).
  assert (Hy0 : 0 <= y0 < 0 + Z.of_nat 400) by (unfold y0; pose proof (Z.mod_pos_bound y 400 ltac:(lia)); lia).
  rewrite Hy in HV |- *. rewrite valid_date_shift in HV.
  rewrite days_from_civil_shift, civil_from_days_shift.
  pose proof (all_from_spec _ _ _ sweepB y0 Hy0) as H1. unfold checkB in H1.
  assert (HV' : valid_date y0 m d = true) by exact HV.
  unfold valid_date in HV. apply andb_true_iff in HV as [HV Hd4]. apply andb_true_iff in HV as [HV Hd3].
  apply andb_true_iff in HV as [Hd1 Hd2].
  assert (Hm : 1 <= m < 1 + Z.of_nat 12) by lia.
  pose proof (all_from_spec _ _ _ H1 m Hm) as H2. cbv beta in H2.
  assert (Hdim : days_in_month y0 m <= 31) by (unfold days_in_month; repeat match goal with |- context [if ?b then _ else _] => destruct b end; lia).
  assert (Hd : 1 <= d < 1 + Z.of_nat 31) by lia.
  pose proof (all_from_spec _ _ _ H2 d Hd) as H3. unfold checkB_day in H3.
  rewrite HV' in H3. cbn [negb orb] in H3.
  destruct (civil_from_days (days_from_civil y0 m d)) as [[y2 m2] d2].
  apply andb_true_iff in H3 as [H3 He3]. apply andb_true_iff in H3 as [He1 He2]. f_equal; [f_equal|]; lia.
Qed.

(* ---- consequences used by the cron proofs ---------------------------------------------------- *)

Lemma days_from_civil_day y m d d' : days_from_civil y m d' = days_from_civil y m d + (d' - d).
Proof. unfold days_from_civil. lia. Qed.

Lemma days_in_month_bounds y m : 28 <= days_in_month y m <= 31.
Proof. unfold days_in_month. repeat match goal with |- context [if ?b then _ else _] => destruct b end; lia. Qed.

(* the first day of the next month follows the last day of a month *)

Lemma month_succ y m : 1 <= m <= 12 ->
  let '(y2, m2) := next_month y m in days_from_civil y2 m2 1 = days_from_civil y m (days_in_month y m) + 1.
Proof.
  intros Hm.
  set (k := y / 400). set (y0 := y mod 400).
  assert (Hy : y = y0 + 400 * k) by (unfold y0, k; pose proof (Z.div_mod y 400 ltac:(lia)); lia).
  assert (Hy0 : 0 <= y0 < 0 + Z.of_nat 400) by (unfold y0; pose proof (Z.mod_pos_bound y 400 ltac:(lia)); lia).
  pose proof (all_from_spec _ _ _ sweep_succ y0 Hy0) as H1. cbv beta in H1.
  assert (Hm' : 1 <= m < 1 + Z.of_nat 12) by lia.
  pose proof (all_from_spec _ _ _ H1 m Hm') as H2. unfold check_succ in H2.
  rewrite Hy. unfold next_month in *. destruct (m =? 12).
  - apply Z.eqb_eq in H2. replace (y0 + 400 * k + 1) with (y0 + 1 + 400 * k) by lia.
    rewrite !days_from_civil_shift, days_in_month_shift. lia.
  - apply Z.eqb_eq in H2. rewrite !days_from_civil_shift, days_in_month_shift. lia.
Qed.
