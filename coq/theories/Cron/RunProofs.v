(* Cron engine — IsRunAt of the compiled masks = the reference semantics of the spec. *)
From Ergo Require Import Common.Base Cron.Model Cron.Spec Cron.CivilSweep Cron.CivilProofs Cron.Proofs.
Local Open Scope Z_scope.

(* a wall clock that exists: a valid date with its own weekday, hour and minute in range *)
Definition good (c : civil) : Prop :=
  valid_date (c_year c) (c_month c) (c_day c) = true /\ 0 <= c_min c <= 59 /\ 0 <= c_hour c <= 23 /\
  c_wday c = (days_from_civil (c_year c) (c_month c) (c_day c) + 4) mod 7.

Lemma civil_of_good off secs : good (civil_of off secs).
Proof.
  unfold civil_of.
  pose proof (civil_from_days_inv ((secs + off) / 86400)) as H.
  destruct (civil_from_days ((secs + off) / 86400)) as [[y m] d]. destruct H as [HV HD].
  unfold good; cbn [c_year c_month c_day c_min c_hour c_wday].
  pose proof (Z.mod_pos_bound (secs + off) 86400 ltac:(lia)) as Hr.
  set (r := (secs + off) mod 86400) in *.
  split; [exact HV|]. split; [|split].
  - pose proof (Z.mod_pos_bound r 3600 ltac:(lia)). split; [apply Z.div_pos; lia|].
    apply Z.lt_succ_r. apply Z.div_lt_upper_bound; lia.
  - split; [apply Z.div_pos; lia|]. apply Z.lt_succ_r. apply Z.div_lt_upper_bound; lia.
  - rewrite HD. reflexivity.
Qed.

Lemma good_bounds c : good c ->
  1 <= c_month c <= 12 /\ 1 <= c_day c <= days_in_month (c_year c) (c_month c) /\ 0 <= c_wday c <= 6 /\ 1 <= wd7 c <= 7.
Proof.
  intros (HV & _ & _ & HW). unfold valid_date in HV.
  apply andb_true_iff in HV as [HV H4]. apply andb_true_iff in HV as [HV H3]. apply andb_true_iff in HV as [H1 H2].
  pose proof (Z.mod_pos_bound (days_from_civil (c_year c) (c_month c) (c_day c) + 4) 7 ltac:(lia)) as Hb.
  rewrite <- HW in Hb. unfold wd7. destruct (c_wday c =? 0) eqn:E; lia.
Qed.

Lemma wd7_weekday_of c : good c -> wd7 c = weekday_of (c_year c) (c_month c) (c_day c).
Proof. intros (_ & _ & _ & HW). unfold wd7, weekday_of. rewrite HW. reflexivity. Qed.

(* ---- calendar facts behind L, dL, d#n ---------------------------------------------------------- *)

Lemma go_date_days_same y m d : 1 <= m <= 12 -> go_date_days y m d = days_from_civil y m d.
Proof.
  intros Hm. unfold go_date_days.
  rewrite (Z.div_small (m - 1) 12), (Z.mod_small (m - 1) 12) by lia.
  replace (y + 0) with y by lia. replace (m - 1 + 1) with m by lia.
  rewrite (days_from_civil_day y m 1 d). lia.
Qed.

Lemma go_date_days_next y m : 1 <= m <= 12 -> go_date_days y (m + 1) 0 = days_from_civil y m (days_in_month y m).
Proof.
  intros Hm. unfold go_date_days. replace (m + 1 - 1) with m by lia.
  pose proof (month_succ y m Hm) as HS. unfold next_month in HS.
  destruct (Z.eq_dec m 12) as [->|Hne].
  - change (12 =? 12) with true in HS. cbv iota beta in HS. replace (12 / 12) with 1 by reflexivity. replace (12 mod 12 + 1) with 1 by reflexivity. lia.
  - replace (m =? 12) with false in HS by lia.
    rewrite (Z.div_small m 12), (Z.mod_small m 12) by lia. replace (y + 0) with y by lia. lia.
Qed.

Lemma last_day_of_month y m : 1 <= m <= 12 -> go_date y (m + 1) 0 = (y, m, days_in_month y m).
Proof.
  intros Hm. unfold go_date. rewrite go_date_days_next by exact Hm.
  apply civil_from_days_of_date. unfold valid_date. pose proof (days_in_month_bounds y m). lia.
Qed.

Lemma week_later y m d : valid_date y m d = true ->
  let '(_, m2, _) := go_date y m (d + 7) in (m =? m2) = (d + 7 <=? days_in_month y m).
Proof.
  intros HV. pose proof HV as HV0. unfold valid_date in HV.
  apply andb_true_iff in HV as [HV H4]. apply andb_true_iff in HV as [HV H3]. apply andb_true_iff in HV as [H1 H2].
  unfold go_date. rewrite go_date_days_same by lia.
  destruct (Z_le_gt_dec (d + 7) (days_in_month y m)) as [Hle|Hgt].
  - rewrite civil_from_days_of_date by (unfold valid_date; lia).
    rewrite Z.eqb_refl. symmetry. lia.
  - pose proof (month_succ y m ltac:(lia)) as HS. unfold next_month in HS.
    assert (HE : forall y2 m2, 1 <= m2 <= 12 -> days_from_civil y2 m2 1 = days_from_civil y m (days_in_month y m) + 1 ->
                 civil_from_days (days_from_civil y m (d + 7)) = (y2, m2, d + 7 - days_in_month y m)).
    { intros y2 m2 Hm2 HE. rewrite <- (civil_from_days_of_date y2 m2 (d + 7 - days_in_month y m)).
      - f_equal. rewrite (days_from_civil_day y m (days_in_month y m) (d + 7)).
        rewrite (days_from_civil_day y2 m2 1 (d + 7 - days_in_month y m)). lia.
      - unfold valid_date. pose proof (days_in_month_bounds y2 m2). lia. }
    destruct (m =? 12) eqn:E12.
    + rewrite (HE (y + 1) 1 ltac:(lia) HS). replace (d + 7 <=? days_in_month y m) with false by lia. lia.
    + rewrite (HE y (m + 1) ltac:(lia) HS). replace (d + 7 <=? days_in_month y m) with false by lia. lia.
Qed.

Lemma weekday_of_eq y m k d0 : (weekday_of y m k =? weekday_of y m d0) = ((k - d0) mod 7 =? 0).
Proof.
  unfold weekday_of. rewrite (days_from_civil_day y m d0 k).
  set (D := days_from_civil y m d0).
  destruct ((D + (k - d0) + 4) mod 7 =? 0) eqn:E1; destruct ((D + 4) mod 7 =? 0) eqn:E2; lia.
Qed.

Lemma forallb_ext_all {A} (f g : A -> bool) l : (forall x, f x = g x) -> forallb f l = forallb g l.
Proof. intros H. induction l as [|x l IH]; cbn [forallb]; [reflexivity|]. rewrite H, IH. reflexivity. Qed.

Lemma filter_ext_all {A} (f g : A -> bool) l : (forall x, f x = g x) -> filter f l = filter g l.
Proof. intros H. induction l as [|x l IH]; cbn [filter]; [reflexivity|]. rewrite H, IH. reflexivity. Qed.

Lemma existsb_ext_all {A} (f g : A -> bool) l : (forall x, f x = g x) -> existsb f l = existsb g l.
Proof. intros H. induction l as [|x l IH]; cbn [existsb]; [reflexivity|]. rewrite H, IH. reflexivity. Qed.

(* finite tables over day = 1..31 and month length = 28..31 *)
Definition lastw_row (day dim : Z) : bool :=
  negb (day <=? dim) ||
  Bool.eqb (forallb (fun k => negb ((k - day) mod 7 =? 0)) (days_between (day + 1) dim)) (negb (day + 7 <=? dim)).
Lemma lastw_table : all_from 31 1 (fun day => all_from 4 28 (lastw_row day)) = true.
Proof. vm_compute. reflexivity. Qed.

Definition nth_row (day : Z) : bool :=
  count_true (fun k => (k - day) mod 7 =? 0) (days_between 1 day) =? (day - 1) / 7 + 1.
Lemma nth_table : all_from 31 1 nth_row = true.
Proof. vm_compute. reflexivity. Qed.

Lemma last_weekday_rule y m day : valid_date y m day = true ->
  forallb (fun k => negb (weekday_of y m k =? weekday_of y m day)) (days_between (day + 1) (days_in_month y m))
  = negb (day + 7 <=? days_in_month y m).
Proof.
  intros HV. unfold valid_date in HV.
  apply andb_true_iff in HV as [HV H4]. apply andb_true_iff in HV as [HV H3]. apply andb_true_iff in HV as [H1 H2].
  pose proof (days_in_month_bounds y m) as Hb.
  rewrite (forallb_ext_all _ (fun k => negb ((k - day) mod 7 =? 0))) by (intros k; rewrite weekday_of_eq; reflexivity).
  pose proof (all_from_spec _ _ _ lastw_table day ltac:(lia)) as HT. cbv beta in HT.
  pose proof (all_from_spec _ _ _ HT (days_in_month y m) ltac:(lia)) as HR. unfold lastw_row in HR.
  replace (day <=? days_in_month y m) with true in HR by lia. cbn [negb orb] in HR.
  apply eqb_prop in HR. exact HR.
Qed.

Lemma nth_weekday_rule y m day : valid_date y m day = true ->
  count_true (fun k => weekday_of y m k =? weekday_of y m day) (days_between 1 day) = (day - 1) / 7 + 1.
Proof.
  intros HV. unfold valid_date in HV.
  apply andb_true_iff in HV as [HV H4]. apply andb_true_iff in HV as [HV H3]. apply andb_true_iff in HV as [H1 H2].
  pose proof (days_in_month_bounds y m) as Hb.
  unfold count_true.
  rewrite (filter_ext_all _ (fun k => (k - day) mod 7 =? 0)) by (intros k; apply weekday_of_eq).
  pose proof (all_from_spec _ _ _ nth_table day ltac:(lia)) as HT. unfold nth_row, count_true in HT.
  apply Z.eqb_eq in HT. exact HT.
Qed.

(* ---- the special masks ------------------------------------------------------------------------- *)

Lemma run_lastdm c : good c -> mask_run MLastDM c = dom_has ILast c.
Proof.
  intros G. pose proof (good_bounds c G) as (Hm & _). cbn [mask_run dom_has].
  rewrite last_day_of_month by exact Hm. apply Z.eqb_sym.
Qed.

Lemma run_lastdw c d : good c -> mask_run (MLastDW d) c = dow_has (ILastW d) c.
Proof.
  intros G. pose proof (wd7_weekday_of c G) as HW. destruct G as (HV & _).
  cbn [mask_run dow_has]. rewrite (Z.eqb_sym (wd7 c) d).
  destruct (d =? wd7 c) eqn:E; cbn [negb andb]; [|reflexivity].
  apply Z.eqb_eq in E. subst d. rewrite HW.
  rewrite last_weekday_rule by exact HV.
  pose proof (week_later _ _ _ HV) as HL.
  destruct (go_date (c_year c) (c_month c) (c_day c + 7)) as [[y2 m2] d2]. rewrite HL. reflexivity.
Qed.

Lemma run_ndw c d n : good c -> mask_run (MNDW d n) c = dow_has (INth d n) c.
Proof.
  intros G. pose proof (wd7_weekday_of c G) as HW. destruct G as (HV & _).
  cbn [mask_run dow_has]. rewrite (Z.eqb_sym (wd7 c) d).
  destruct (d =? wd7 c) eqn:E; cbn [negb andb]; [|reflexivity].
  apply Z.eqb_eq in E. subst d. rewrite HW.
  rewrite nth_weekday_rule by exact HV. reflexivity.
Qed.

(* ---- one field ------------------------------------------------------------------------------------ *)

From Coq Require Import Btauto.

Definition fval (k : fkind) (c : civil) : Z :=
  match k with KMin => c_min c | KHour => c_hour c | KDay => c_day c | KMonth => c_month c | KWDay => wd7 c end.

(* what an option of field k says about a wall clock (reference semantics) *)
Definition item_sem (k : fkind) (it : item) (c : civil) : bool :=
  match k with
  | KDay => dom_has it c
  | KWDay => dow_has it c
  | _ => num_has (fmin k) (fmax k) it (fval k c)
  end.

Lemma run_bits k b c : mask_run (MBits k b) c = Z.testbit b (fval k c).
Proof. destruct k; reflexivity. Qed.

Lemma fval_nonneg k c : good c -> 0 <= fval k c.
Proof. intros G. pose proof (good_bounds c G). destruct G as (_ & ? & ? & _). destruct k; cbn [fval]; lia. Qed.

Lemma fmin_nonneg k : 0 <= fmin k.
Proof. destruct k; cbn; lia. Qed.

Definition or_kind (k : fkind) : bool := match k with KDay | KWDay => true | _ => false end.
Definition special (m : mask) : bool := match m with MBits _ _ => false | _ => true end.

Lemma existsb_snoc {A} (f : A -> bool) l x : existsb f (l ++ [x]) = existsb f l || f x.
Proof. rewrite existsb_app. cbn [existsb]. rewrite orb_false_r. reflexivity. Qed.

Lemma in_prog_1 a b v : in_prog a b 1 v = (a <=? v) && (v <=? b).
Proof. unfold in_prog. rewrite Z.mod_1_r. cbn. rewrite andb_true_r. reflexivity. Qed.

Ltac split_range H :=
  repeat match type of H with
  | (_ && _) = true => let H1 := fresh "R" in apply andb_true_iff in H as [H H1]
  end.

(* the masks of a field run at c iff one of its options denotes c *)
Lemma compile_items_sem k c : good c -> forall items multi bits sp l,
  compile_items k multi items bits sp = Some l ->
  existsb is_star_item items = false -> forallb (allowed k) items = true ->
  existsb (fun m => mask_run m c) l
  = Z.testbit bits (fval k c) || existsb (fun m => mask_run m c) sp || existsb (fun it => item_sem k it c) items.
Proof.
  intros G. pose proof (fval_nonneg k c G) as Hv. pose proof (fmin_nonneg k) as Hlo.
  induction items as [|it tl IH]; intros multi bits sp l HC HS HA.
  - cbn [compile_items] in HC. unfold finish_field in HC. cbn [existsb]. rewrite orb_false_r.
    destruct (bits =? 0) eqn:E.
    + apply Z.eqb_eq in E. subst bits. rewrite Z.testbit_0_l. destruct sp; [discriminate|]. inversion HC; subst. reflexivity.
    + inversion HC; subst. cbn [existsb]. rewrite run_bits. reflexivity.
  - cbn [existsb forallb] in HS, HA. apply orb_false_iff in HS as [HS1 HS]. apply andb_true_iff in HA as [HA1 HA].
    cbn [compile_items] in HC. cbn [existsb].
    destruct it; cbn [is_star_item] in HS1; try discriminate.
    + (* */s *)
      destruct (in_range s 1 (fmax k)) eqn:R; [|discriminate]. unfold in_range in R. split_range R.
      rewrite (IH _ _ _ _ HC HS HA). rewrite range_bits_spec by lia.
      replace (item_sem k (IStep s) c) with (in_prog (fmin k) (fmax k) s (fval k c)) by (destruct k; reflexivity). btauto.
    + (* a-b *)
      destruct (in_range a (fmin k) (fmax k) && in_range b (fmin k) (fmax k) && (a <=? b)) eqn:R; [|discriminate].
      unfold in_range in R. split_range R.
      rewrite (IH _ _ _ _ HC HS HA). rewrite range_bits_spec by lia. rewrite in_prog_1.
      replace (item_sem k (IRange a b) c) with ((a <=? fval k c) && (fval k c <=? b)) by (destruct k; reflexivity). btauto.
    + (* a-b/s *)
      destruct (in_range a (fmin k) (fmax k) && in_range b (fmin k) (fmax k) && in_range s 1 (fmax k) && (a <=? b)) eqn:R; [|discriminate].
      unfold in_range in R. split_range R.
      rewrite (IH _ _ _ _ HC HS HA). rewrite range_bits_spec by lia.
      replace (item_sem k (IRangeStep a b s) c) with (in_prog a b s (fval k c)) by (destruct k; reflexivity). btauto.
    + (* n *)
      destruct (in_range n (fmin k) (fmax k)) eqn:R; [|discriminate]. unfold in_range in R. split_range R.
      rewrite (IH _ _ _ _ HC HS HA). rewrite testbit_set by lia.
      replace (item_sem k (INum n) c) with (fval k c =? n) by (destruct k; reflexivity). btauto.
    + (* L *)
      destruct k; try discriminate.
      rewrite (IH _ _ _ _ HC HS HA). rewrite existsb_snoc, run_lastdm by exact G. cbn [item_sem]. btauto.
    + (* dL *)
      destruct (in_range d 1 7); [|discriminate]. destruct k; try discriminate.
      rewrite (IH _ _ _ _ HC HS HA). rewrite existsb_snoc, run_lastdw by exact G. cbn [item_sem]. btauto.
    + (* d#n *)
      destruct k; cbn [allowed] in HA1; try discriminate.
      destruct (in_range d (fmin KWDay) (fmax KWDay) && in_range n (fmin KWDay) (fmax KWDay)); [|discriminate].
      rewrite (IH _ _ _ _ HC HS HA). rewrite existsb_snoc, run_ndw by exact G. cbn [item_sem]. btauto.
Qed.

(* shape of the result: never empty; all masks special except possibly the first; for minute,
   hour and month exactly one value mask *)
Lemma compile_items_shape k : forall items multi bits sp l,
  compile_items k multi items bits sp = Some l ->
  existsb is_star_item items = false -> forallb (allowed k) items = true ->
  forallb special sp = true ->
  l <> [] /\ (or_kind k = true -> forallb (fun m => negb (is_and_mask m)) l = true) /\
  (or_kind k = false -> sp = [] -> exists b, l = [MBits k b]).
Proof.
  induction items as [|it tl IH]; intros multi bits sp l HC HS HA HSP.
  - cbn [compile_items] in HC. unfold finish_field in HC.
    destruct (bits =? 0) eqn:E.
    + destruct sp as [|m sp]; [discriminate|]. inversion HC; subst. split; [discriminate|]. split.
      * intros _. clear -HSP. induction (m :: sp) as [|x l IH]; [reflexivity|]. cbn [forallb] in *.
        apply andb_true_iff in HSP as [H1 H2]. rewrite (IH H2), andb_true_r. destruct x; try discriminate; reflexivity.
      * intros _ Hn. discriminate.
    + inversion HC; subst. split; [discriminate|]. split.
      * intros HK. cbn [forallb]. apply andb_true_iff. split; [destruct k; try discriminate; reflexivity|].
        clear -HSP. induction sp as [|x l IH]; [reflexivity|]. cbn [forallb] in *.
        apply andb_true_iff in HSP as [H1 H2]. rewrite (IH H2), andb_true_r. destruct x; try discriminate; reflexivity.
      * intros _ ->. eexists; reflexivity.
  - cbn [existsb forallb] in HS, HA. apply orb_false_iff in HS as [HS1 HS]. apply andb_true_iff in HA as [HA1 HA].
    cbn [compile_items] in HC.
    assert (HSP' : forall m, special m = true -> forallb special (sp ++ [m]) = true).
    { intros m Hm. rewrite forallb_app, HSP. cbn [forallb]. rewrite Hm. reflexivity. }
    destruct it; cbn [is_star_item] in HS1; try discriminate;
      try (match type of HC with (if ?b then _ else _) = _ => destruct b; [|discriminate] end).
    + exact (IH _ _ _ _ HC HS HA HSP).
    + exact (IH _ _ _ _ HC HS HA HSP).
    + exact (IH _ _ _ _ HC HS HA HSP).
    + exact (IH _ _ _ _ HC HS HA HSP).
    + destruct k; try discriminate.
      destruct (IH _ _ _ _ HC HS HA (HSP' MLastDM eq_refl)) as (H1 & H2 & H3). split; [exact H1|]. split; [exact H2|]. intros HK; discriminate.
    + destruct k; try discriminate.
      destruct (IH _ _ _ _ HC HS HA (HSP' (MLastDW d) eq_refl)) as (H1 & H2 & H3). split; [exact H1|]. split; [exact H2|]. intros HK; discriminate.
    + destruct k; cbn [allowed] in HA1; try discriminate.
      destruct (IH _ _ _ _ HC HS HA (HSP' (MNDW d n) eq_refl)) as (H1 & H2 & H3). split; [exact H1|]. split; [exact H2|]. intros HK; discriminate.
Qed.

(* ---- mask lists ------------------------------------------------------------------------------------ *)

Lemma list_run_aux_or l c : forallb (fun m => negb (is_and_mask m)) l = true ->
  forall r, list_run_aux l c r = match l with [] => r | _ => existsb (fun m => mask_run m c) l end.
Proof.
  induction l as [|m tl IH]; intros H r; [reflexivity|].
  cbn [forallb] in H. apply andb_true_iff in H as [H1 H2]. cbn [list_run_aux existsb].
  destruct (is_and_mask m); [discriminate|]. rewrite (IH H2).
  destruct (mask_run m c); [reflexivity|]. destruct tl; reflexivity.
Qed.

Lemma list_run_or l c : forallb (fun m => negb (is_and_mask m)) l = true -> l <> [] ->
  list_run l c = existsb (fun m => mask_run m c) l.
Proof. intros H Hn. unfold list_run. rewrite list_run_aux_or by exact H. destruct l; [contradiction|reflexivity]. Qed.

Lemma list_run_and l c : forallb is_and_mask l = true -> list_run l c = forallb (fun m => mask_run m c) l.
Proof.
  unfold list_run. induction l as [|m tl IH]; intros H; [reflexivity|].
  cbn [forallb] in H. apply andb_true_iff in H as [H1 H2]. cbn [list_run_aux forallb]. rewrite H1.
  destruct (mask_run m c); [exact (IH H2)|reflexivity].
Qed.

(* ---- fields ------------------------------------------------------------------------------------------ *)

Lemma wf_allowed k it : wf_item k it = true -> allowed k it = true.
Proof. destruct k, it; cbn; intros H; try reflexivity; try discriminate. Qed.

Lemma wf_items_allowed k f : forallb (wf_item k) f = true -> forallb (allowed k) f = true.
Proof.
  induction f as [|it tl IH]; [reflexivity|]. cbn [forallb]. intros H. apply andb_true_iff in H as [H1 H2].
  rewrite (wf_allowed _ _ H1), (IH H2). reflexivity.
Qed.

Lemma is_wild_eq f : is_wild f = true -> f = [IStar].
Proof. destruct f as [|[] [|]]; try discriminate; reflexivity. Qed.

Lemma wf_field_cases k f : wf_field k f = true ->
  f = [IStar] \/ (is_wild f = false /\ f <> [] /\ existsb is_star_item f = false /\ forallb (allowed k) f = true).
Proof.
  unfold wf_field. intros H. apply andb_true_iff in H as [H H3]. apply andb_true_iff in H as [H1 H2].
  destruct (is_wild f) eqn:W; [left; apply is_wild_eq; exact W|right].
  cbn [orb] in H3. apply negb_true_iff in H3. split; [reflexivity|]. split; [destruct f; [discriminate|discriminate]|].
  split; [exact H3|apply wf_items_allowed; exact H2].
Qed.

Lemma field_or k f l c : good c -> or_kind k = true -> wf_field k f = true -> compile_field k f = Some l ->
  (is_wild f = true /\ l = []) \/
  (is_wild f = false /\ l <> [] /\ list_run l c = existsb (fun it => item_sem k it c) f).
Proof.
  intros G HK HW HC. destruct (wf_field_cases k f HW) as [->|(W & Hn & HS & HA)].
  - left. split; [reflexivity|]. cbn in HC. inversion HC. reflexivity.
  - right. split; [exact W|]. unfold compile_field in HC.
    destruct (compile_items_shape k _ _ _ _ _ HC HS HA eq_refl) as (H1 & H2 & _).
    split; [exact H1|]. rewrite list_run_or by auto.
    rewrite (compile_items_sem k c G _ _ _ _ _ HC HS HA). rewrite Z.testbit_0_l. reflexivity.
Qed.

Lemma field_and k f l c : good c -> or_kind k = false -> wf_field k f = true -> compile_field k f = Some l ->
  forallb is_and_mask l = true /\ forallb (fun m => mask_run m c) l = existsb (fun it => item_sem k it c) f.
Proof.
  intros G HK HW HC. destruct (wf_field_cases k f HW) as [->|(W & Hn & HS & HA)].
  - cbn in HC. inversion HC. split; [reflexivity|]. destruct k; try discriminate; reflexivity.
  - unfold compile_field in HC.
    destruct (compile_items_shape k _ _ _ _ _ HC HS HA eq_refl) as (_ & _ & H3).
    destruct (H3 HK eq_refl) as [b ->].
    pose proof (compile_items_sem k c G _ _ _ _ _ HC HS HA) as HE.
    rewrite Z.testbit_0_l in HE. cbn [existsb orb] in HE. rewrite orb_false_r in HE.
    split; [destruct k; try discriminate; reflexivity|]. cbn [forallb]. rewrite andb_true_r. exact HE.
Qed.

(* ---- the spec ------------------------------------------------------------------------------------- *)

Theorem isrunat_matches a m c : good c -> wf_spec a = true -> compile_spec a = Some m -> spec_run m c = matches a c.
Proof.
  intros G HW HC. unfold wf_spec in HW.
  apply andb_true_iff in HW as [HW W5]. apply andb_true_iff in HW as [HW W4].
  apply andb_true_iff in HW as [HW W3]. apply andb_true_iff in HW as [W1 W2].
  unfold compile_spec in HC.
  destruct (compile_field KMin (s_min a)) as [m0|] eqn:C0; [|discriminate].
  destruct (compile_field KHour (s_hour a)) as [m1|] eqn:C1; [|discriminate].
  destruct (compile_field KMonth (s_month a)) as [m3|] eqn:C3; [|discriminate].
  destruct (compile_field KDay (s_day a)) as [m2|] eqn:C2; [|discriminate].
  destruct (compile_field KWDay (s_wday a)) as [m4|] eqn:C4; [|discriminate].
  inversion HC; subst m; clear HC.
  destruct (field_and KMin _ _ c G eq_refl W1 C0) as [A0 E0].
  destruct (field_and KHour _ _ c G eq_refl W2 C1) as [A1 E1].
  destruct (field_and KMonth _ _ c G eq_refl W4 C3) as [A3 E3].
  unfold spec_run, matches. cbn [sm_mhm sm_day sm_wday].
  rewrite (list_run_and (m0 ++ m1 ++ m3)) by (rewrite !forallb_app, A0, A1, A3; reflexivity).
  rewrite !forallb_app, E0, E1, E3.
  change (existsb (fun it => item_sem KMin it c) (s_min a)) with (field_has KMin (s_min a) (c_min c)).
  change (existsb (fun it => item_sem KHour it c) (s_hour a)) with (field_has KHour (s_hour a) (c_hour c)).
  change (existsb (fun it => item_sem KMonth it c) (s_month a)) with (field_has KMonth (s_month a) (c_month c)).
  destruct (field_or KDay _ _ c G eq_refl W3 C2) as [[D1 ->]|(D1 & D2 & D3)];
  destruct (field_or KWDay _ _ c G eq_refl W5 C4) as [[F1 ->]|(F1 & F2 & F3)]; rewrite D1, F1.
  - cbn. btauto.
  - rewrite F3. cbn [is_nil list_run list_run_aux]. destruct m4; [contradiction|]. cbn [is_nil item_sem negb andb].
    generalize (existsb (fun it => dow_has it c) (s_wday a)). intros b. destruct b; cbn; btauto.
  - rewrite D3. cbn [is_nil list_run list_run_aux]. destruct m2; [contradiction|]. cbn [is_nil item_sem negb andb].
    generalize (existsb (fun it => dom_has it c) (s_day a)). intros b. destruct b; cbn; btauto.
  - rewrite D3, F3. destruct m2; [contradiction|]. destruct m4; [contradiction|]. cbn [is_nil item_sem negb andb].
    generalize (existsb (fun it => dom_has it c) (s_day a)) (existsb (fun it => dow_has it c) (s_wday a)).
    intros b1 b2. destruct b1, b2; cbn; btauto.
Qed.

(* ---- every instant of every zone ---------------------------------------------------------------- *)

Corollary run_at_matches a m (z : zone) t : wf_spec a = true -> compile_spec a = Some m ->
  run_at m z t = matches_at a z t.
Proof. intros HW HC. unfold run_at, matches_at. apply isrunat_matches; [apply civil_of_good|exact HW|exact HC]. Qed.

(* JobSchedule reports exactly the minutes of the window that the spec denotes *)
Theorem job_schedule_exact a m z since period : wf_spec a = true -> compile_spec a = Some m ->
  job_schedule m z since period = filter (matches_at a z) (window since period).
Proof. intros HW HC. unfold job_schedule. apply filter_ext_all. intros t. apply run_at_matches; assumption. Qed.

(* the minutes of the window: start = since truncated to the minute, one per minute, all before start + period *)
Lemma minutes_from_spec n : forall t0 t, In t (minutes_from n t0) <-> exists k, 0 <= k < Z.of_nat n /\ t = t0 + 60 * k.
Proof.
  induction n as [|n IH]; intros t0 t; cbn [minutes_from].
  - split; [intros []|intros (k & Hk & _); lia].
  - cbn [In]. rewrite IH. split.
    + intros [<-|(k & Hk & ->)]; [exists 0; lia|exists (k + 1); lia].
    + intros (k & Hk & ->). destruct (Z.eq_dec k 0) as [->|Hne]; [left; lia|right; exists (k - 1); lia].
Qed.

Theorem window_spec since period t :
  In t (window since period) <-> exists k, 0 <= k /\ t = trunc_min since + 60 * k /\ k * minute_ns < period.
Proof.
  unfold window. rewrite minutes_from_spec. unfold minute_ns.
  destruct (period <=? 0) eqn:E.
  - split; intros (k & Hk); [cbn in Hk; lia|lia].
  - assert (Hp : 0 < period) by lia.
    assert (Hn : 0 <= (period + 60000000000 - 1) / 60000000000) by (apply Z.div_pos; lia).
    rewrite Z2Nat.id by exact Hn.
    split; intros (k & H1 & H2).
    + exists k. split; [lia|]. split; [exact H2|].
      pose proof (Z.div_mod (period + 60000000000 - 1) 60000000000 ltac:(lia)).
      pose proof (Z.mod_pos_bound (period + 60000000000 - 1) 60000000000 ltac:(lia)). lia.
    + destruct H2 as [H2 H3]. exists k. split; [|exact H2]. split; [lia|].
      apply Z.lt_le_trans with (m := k + 1); [lia|]. apply Z.div_le_lower_bound; lia.
Qed.

(* Schedule: per minute of the window exactly the jobs whose spec denotes it *)
Theorem schedule_exact (jobs : list (Z * cronspec * specmask * zone)) since period :
  (forall n a m z, In (n, a, m, z) jobs -> wf_spec a = true /\ compile_spec a = Some m) ->
  schedule (map (fun j => let '(n, a, m, z) := j in (n, m, z)) jobs) since period
  = filter (fun r => negb (is_nil (snd r)))
      (map (fun t => (t, map (fun j => let '(n, a, m, z) := j in n)
                             (filter (fun j => let '(n, a, m, z) := j in matches_at a z t) jobs)))
           (window since period)).
Proof.
  intros HJ. unfold schedule. f_equal. apply map_ext. intros t. unfold sched_row. f_equal.
  induction jobs as [|[[[n a] m] z] tl IH]; [reflexivity|].
  cbn [map filter fst snd]. rewrite (run_at_matches a m z t) by (apply (HJ n a m z); left; reflexivity).
  destruct (matches_at a z t); cbn [map fst snd]; rewrite IH by (intros; apply (HJ n0 a0 m0 z0); right; assumption); reflexivity.
Qed.
