(* Cron engine — the grammar of the spec strings, as a printer.

   A spec string is the rendering of a concrete syntax tree: five fields separated by white
   space (optional leading / trailing white space), a field = comma separated options, an
   option = one of the eight shapes, a number = a non-empty string of decimal digits (leading
   zeros allowed).  [render] prints a concrete tree, [abstract] erases white space and
   leading zeros and gives the syntax tree (Model.cronspec) the semantics (Spec.matches) is
   stated on.  Which trees are specs of the dialect is Spec.wf_spec (ranges of the values,
   which shape in which field).  Definitions only. *)
From Ergo Require Import Common.Base Cron.Model Cron.Spec.
Local Open Scope Z_scope.

(* ---- numbers ------------------------------------------------------------------------------- *)

(* \d+ *)
Definition all_digits (s : str) : bool := negb (is_nil s) && forallb is_digit s.

(* the value of a digit string, left to right *)
Fixpoint dval_acc (s : str) (acc : Z) : Z :=
  match s with [] => acc | c :: tl => dval_acc tl (acc * 10 + (c - 48)) end.
Definition dval (s : str) : Z := dval_acc s 0.

(* ---- options ------------------------------------------------------------------------------- *)

Inductive citem :=
| CStar                        (* "*"                              *)
| CStep (s : str)              (* "*/" digits                      *)
| CRange (a b : str)           (* digits "-" digits                *)
| CRangeStep (a b s : str)     (* digits "-" digits "/" digits     *)
| CNum (n : str)               (* digits                           *)
| CLast                        (* "L"                              *)
| CLastW (d : Z)               (* [1-7] "L"      (d = the character) *)
| CNth (d n : Z).              (* [1-7] "#" [1-5]  (characters)      *)

Definition render_item (ci : citem) : str :=
  match ci with
  | CStar => [42]
  | CStep s => 42 :: 47 :: s
  | CRange a b => a ++ 45 :: b
  | CRangeStep a b s => a ++ 45 :: b ++ 47 :: s
  | CNum n => n
  | CLast => [76]
  | CLastW d => [d; 76]
  | CNth d n => [d; 35; n]
  end.

Definition abs_item (ci : citem) : item :=
  match ci with
  | CStar => IStar
  | CStep s => IStep (dval s)
  | CRange a b => IRange (dval a) (dval b)
  | CRangeStep a b s => IRangeStep (dval a) (dval b) (dval s)
  | CNum n => INum (dval n)
  | CLast => ILast
  | CLastW d => ILastW (d - 48)
  | CNth d n => INth (d - 48) (n - 48)
  end.

(* the token is well formed: digit strings are \d+, the characters of dL / d#n are [1-7], [1-5] *)
Definition cwf_item (ci : citem) : bool :=
  match ci with
  | CStar | CLast => true
  | CStep s => all_digits s
  | CRange a b => all_digits a && all_digits b
  | CRangeStep a b s => all_digits a && all_digits b && all_digits s
  | CNum n => all_digits n
  | CLastW d => (49 <=? d) && (d <=? 55)
  | CNth d n => (49 <=? d) && (d <=? 55) && (49 <=? n) && (n <=? 53)
  end.

(* ---- fields -------------------------------------------------------------------------------- *)

Fixpoint join (sep : Z) (l : list str) : str :=
  match l with
  | [] => []
  | x :: tl => match tl with [] => x | _ => x ++ sep :: join sep tl end
  end.

Definition render_field (f : list citem) : str := join 44 (map render_item f).
Definition cwf_field (f : list citem) : bool := negb (is_nil f) && forallb cwf_item f.

(* ---- the spec ------------------------------------------------------------------------------ *)

Record cspec := mk_cspec {
  cs_lead : str;                        (* white space, may be empty *)
  cs_f0 : list citem; cs_w0 : str;      (* minute, white space (non-empty) *)
  cs_f1 : list citem; cs_w1 : str;      (* hour *)
  cs_f2 : list citem; cs_w2 : str;      (* day of month *)
  cs_f3 : list citem; cs_w3 : str;      (* month *)
  cs_f4 : list citem;                   (* day of week *)
  cs_trail : str }.                     (* white space, may be empty *)

(* token followed by white space, repeated *)
Fixpoint rcat (l : list (str * str)) : str :=
  match l with [] => [] | p :: tl => fst p ++ snd p ++ rcat tl end.

Definition render (c : cspec) : str :=
  cs_lead c ++ rcat [(render_field (cs_f0 c), cs_w0 c); (render_field (cs_f1 c), cs_w1 c);
                     (render_field (cs_f2 c), cs_w2 c); (render_field (cs_f3 c), cs_w3 c);
                     (render_field (cs_f4 c), cs_trail c)].

Definition all_space (s : str) : bool := forallb is_space s.
Definition is_sep (s : str) : bool := negb (is_nil s) && all_space s.

Definition cwf (c : cspec) : bool :=
  all_space (cs_lead c) && is_sep (cs_w0 c) && is_sep (cs_w1 c) && is_sep (cs_w2 c) && is_sep (cs_w3 c) &&
  all_space (cs_trail c) &&
  cwf_field (cs_f0 c) && cwf_field (cs_f1 c) && cwf_field (cs_f2 c) && cwf_field (cs_f3 c) && cwf_field (cs_f4 c).

Definition abstract (c : cspec) : cronspec :=
  mk_cronspec (map abs_item (cs_f0 c)) (map abs_item (cs_f1 c)) (map abs_item (cs_f2 c))
              (map abs_item (cs_f3 c)) (map abs_item (cs_f4 c)).

(* the string s denotes the concrete tree c: it is its rendering, after the replacement of the
   four aliases (@hourly, @daily, @monthly, @weekly) by the specs they stand for *)
Definition denotes (s : str) (c : cspec) : Prop := render c = alias s.

(* ---- the canonical printer of a syntax tree ------------------------------------------------ *)

(* decimal digits without leading zeros *)
Fixpoint digits_fuel (fuel : nat) (n : Z) : str :=
  match fuel with
  | O => [48 + n]
  | S f => if n <? 10 then [48 + n] else digits_fuel f (n / 10) ++ [48 + n mod 10]
  end.
Definition digits (n : Z) : str := digits_fuel (Z.to_nat n) n.

Definition conc_item (it : item) : citem :=
  match it with
  | IStar => CStar
  | IStep s => CStep (digits s)
  | IRange a b => CRange (digits a) (digits b)
  | IRangeStep a b s => CRangeStep (digits a) (digits b) (digits s)
  | INum n => CNum (digits n)
  | ILast => CLast
  | ILastW d => CLastW (48 + d)
  | INth d n => CNth (48 + d) (48 + n)
  end.

(* single blanks, no leading / trailing white space *)
Definition canon (a : cronspec) : cspec :=
  mk_cspec [] (map conc_item (s_min a)) [32] (map conc_item (s_hour a)) [32] (map conc_item (s_day a)) [32]
           (map conc_item (s_month a)) [32] (map conc_item (s_wday a)) [].

Definition print (a : cronspec) : str := render (canon a).

(* the trees the four aliases stand for *)
Definition one (it : item) : list item := [it].
Definition tree_hourly : cronspec := mk_cronspec (one (INum 1)) (one IStar) (one IStar) (one IStar) (one IStar).
Definition tree_daily : cronspec := mk_cronspec (one (INum 10)) (one (INum 3)) (one IStar) (one IStar) (one IStar).
Definition tree_monthly : cronspec := mk_cronspec (one (INum 20)) (one (INum 4)) (one (INum 1)) (one IStar) (one IStar).
Definition tree_weekly : cronspec := mk_cronspec (one (INum 30)) (one (INum 5)) (one IStar) (one IStar) (one (INum 1)).
