(* Cron engine — proofs. *)
From Ergo Require Import Common.Base Cron.Model Cron.Spec.
Local Open Scope Z_scope.

(* ---- the parser factors through the syntax tree ------------------------------------------------ *)

Lemma parse_field_factor k f :
  parse_field k f = match lex_options k (split_on 44 f) with Some items => compile_field k items | None => None end.
Proof. reflexivity. Qed.

Lemma parse_spec_factor s :
  parse_spec s = match lex_spec s with Some a => compile_spec a | None => None end.
Proof.
  unfold parse_spec, lex_spec, compile_spec.
  destruct (fields (alias s)) as [|f0 [|f1 [|f2 [|f3 [|f4 [|f5 tl]]]]]]; try reflexivity.
  unfold parse_field.
  destruct (lex_options KMin (split_on 44 f0)) as [i0|];
  destruct (lex_options KHour (split_on 44 f1)) as [i1|];
  destruct (lex_options KDay (split_on 44 f2)) as [i2|];
  destruct (lex_options KMonth (split_on 44 f3)) as [i3|];
  destruct (lex_options KWDay (split_on 44 f4)) as [i4|]; cbn [s_min s_hour s_day s_month s_wday]; try reflexivity;
  repeat match goal with |- context [compile_field ?k ?i] => destruct (compile_field k i) end; reflexivity.
Qed.

(* ---- value bits ------------------------------------------------------------------------------------ *)

Lemma testbit_set b n v : 0 <= n -> 0 <= v ->
  Z.testbit (Z.lor b (Z.shiftl 1 n)) v = Z.testbit b v || (v =? n).
Proof.
  intros Hn Hv. rewrite Z.lor_spec, Z.shiftl_1_l, Z.pow2_bits_eqb by lia.
  rewrite (Z.eqb_sym n v). reflexivity.
Qed.

Definition in_prog (x hi step v : Z) : bool := (x <=? v) && (v <=? hi) && ((v - x) mod step =? 0).

Lemma in_prog_step x hi step v : 1 <= step -> x <= hi ->
  (v =? x) || in_prog (x + step) hi step v = in_prog x hi step v.
Proof.
  intros Hs Hx. unfold in_prog.
  destruct (Z.eq_dec v x) as [->|Hne].
  - rewrite Z.eqb_refl, Z.sub_diag, Z.mod_0_l by lia. cbn [orb].
    replace (x <=? x) with true by lia. replace (x <=? hi) with true by lia. reflexivity.
  - replace (v =? x) with false by lia. cbn [orb].
    destruct (Z_lt_le_dec v (x + step)) as [Hlt|Hge].
    + replace (x + step <=? v) with false by lia. cbn [andb].
      destruct (Z_lt_le_dec v x) as [Hl|Hg].
      * replace (x <=? v) with false by lia. reflexivity.
      * replace (x <=? v) with true by lia. rewrite Z.mod_small by lia.
        replace (v - x =? 0) with false by lia. rewrite andb_false_r. reflexivity.
    + replace (x + step <=? v) with true by lia. replace (x <=? v) with true by lia.
      replace (v - x) with (v - (x + step) + 1 * step) by lia. rewrite Z.mod_add by lia. reflexivity.
Qed.

Lemma loop_bits_spec fuel : forall x hi step acc v,
  0 <= x -> 1 <= step -> 0 <= v -> hi + 1 - x <= Z.of_nat fuel ->
  Z.testbit (loop_bits fuel x hi step acc) v = Z.testbit acc v || in_prog x hi step v.
Proof.
  induction fuel as [|f IH]; intros x hi step acc v Hx Hs Hv Hf.
  - cbn [loop_bits]. unfold in_prog.
    destruct (Z_le_gt_dec x v); [replace (v <=? hi) with false by lia|replace (x <=? v) with false by lia];
      rewrite ?andb_false_r; cbn [andb]; rewrite orb_false_r; reflexivity.
  - cbn [loop_bits]. destruct (Z_le_gt_dec x hi) as [Hle|Hgt].
    + replace (x <=? hi) with true by lia.
      rewrite IH by lia. rewrite testbit_set by lia. rewrite <- orb_assoc, in_prog_step by lia. reflexivity.
    + replace (x <=? hi) with false by lia. unfold in_prog.
      destruct (Z_le_gt_dec x v); [replace (v <=? hi) with false by lia|replace (x <=? v) with false by lia];
        rewrite ?andb_false_r; cbn [andb]; rewrite orb_false_r; reflexivity.
Qed.

Lemma range_bits_spec lo hi step acc v : 0 <= lo -> 1 <= step -> 0 <= v ->
  Z.testbit (range_bits lo hi step acc) v = Z.testbit acc v || in_prog lo hi step v.
Proof. intros. unfold range_bits. apply loop_bits_spec; lia. Qed.
