(* Cron engine — proofs. *)
From Ergo Require Import Common.Base Cron.Model Cron.Spec.
Local Open Scope Z_scope.

(* ---- the parser factors through the syntax tree ------------------------------------------------ *)

Lemma parse_field_factor k f :
  parse_field k f = match lex_options k (split_on 44 f) with Some items => compile_field k items | None => None end.
Proof. reflexivity. Qed.

Lemma parse_spec_factor s :
  parse_spec s = match lex_spec s with Some a => compile_spec a | None => None end.
Proof.
  unfold parse_spec, lex_spec, compile_spec.
  destruct (fields (alias s)) as [|f0 [|f1 [|f2 [|f3 [|f4 [|f5 tl]]]]]]; try reflexivity.
  unfold parse_field.
  destruct (lex_options KMin (split_on 44 f0)) as [i0|];
  destruct (lex_options KHour (split_on 44 f1)) as [i1|];
  destruct (lex_options KDay (split_on 44 f2)) as [i2|];
  destruct (lex_options KMonth (split_on 44 f3)) as [i3|];
  destruct (lex_options KWDay (split_on 44 f4)) as [i4|]; cbn [s_min s_hour s_day s_month s_wday]; try reflexivity;
  repeat match goal with |- context [compile_field ?k ?i] => destruct (compile_field k i) end; reflexivity.
Qed.
