(* Cron engine — histories of AddJob / RemoveJob / EnableJob / DisableJob / minute ticks:
   the model of node/cron.go (Model.step) shows exactly what the abstract scheduler
   (TickSpec.atrace) demands. *)
From Ergo Require Import Common.Base Cron.Model Cron.Spec Cron.Grammar Cron.TickSpec
  Cron.CivilSweep Cron.CivilProofs Cron.Proofs Cron.RunProofs Cron.GrammarProofs.
From Coq Require Import Permutation.
Local Open Scope Z_scope.

(* ---- abstraction --------------------------------------------------------------------------------- *)

Definition tree_of (s : str) : cronspec :=
  match lex_spec s with Some a => a | None => mk_cronspec [] [] [] [] [] end.

Definition abs_job (j : job) : ajob := mk_ajob (j_name j) (tree_of (j_spec j)) (j_zone j) (negb (j_disable j)).

(* the concrete state c shows the abstract set of jobs *)
Record sim (c : cron) (jobs : list ajob) : Prop := mk_sim {
  sim_in : forall a, In a jobs <-> exists x, In x (cr_objs c) /\ j_present x = true /\ a = abs_job x;
  sim_nodup : NoDup (map a_name jobs) }.

Record inv (c : cron) : Prop := mk_inv {
  i_ids : map j_id (cr_objs c) = map Z.of_nat (seq 0 (length (cr_objs c)));
  i_names : forall x y, In x (cr_objs c) -> In y (cr_objs c) -> j_present x = true -> j_present y = true ->
            j_name x = j_name y -> x = y;
  i_gone : forall x, In x (cr_objs c) -> j_present x = false -> j_disable x = true;
  i_mask : forall x, In x (cr_objs c) -> parse_spec (j_spec x) = Some (j_mask x);
  i_sp_nodup : NoDup (cr_spool c);
  i_sp_sound : forall id, In id (cr_spool c) ->
               exists x, In x (cr_objs c) /\ j_id x = id /\ run_at (j_mask x) (j_zone x) (cr_next c) = true;
  i_sp_complete : forall x, In x (cr_objs c) -> j_present x = true -> j_disable x = false ->
               run_at (j_mask x) (j_zone x) (cr_next c) = true -> In (j_id x) (cr_spool c) }.

(* ---- the grammar theorem at work: accept = denotes a tree of the dialect -------------------------- *)

Lemma parse_spec_tree s : match parse_spec s with Some _ => spec_tree s <> None | None => spec_tree s = None end.
Proof.
  unfold spec_tree. rewrite parse_spec_factor. destruct (lex_spec s) as [a|] eqn:L; [|reflexivity].
  destruct (lex_spec_inv s a L) as (c & HW & HD & <- & HA).
  destruct (abstract_nth_ok c HW) as (N0 & N1 & N2 & N3 & N4).
  destruct (compile_spec (abstract c)) as [m|] eqn:C.
  - rewrite (compile_spec_wf _ _ C HA N0 N1 N2 N3 N4). discriminate.
  - destruct (wf_spec (abstract c)) eqn:W; [|reflexivity].
    destruct (compile_spec_total _ W) as [m HM]. rewrite HM in C. discriminate.
Qed.

Lemma parse_tree_of s m : parse_spec s = Some m ->
  spec_tree s = Some (tree_of s) /\ wf_spec (tree_of s) = true /\ compile_spec (tree_of s) = Some m.
Proof.
  intros H. pose proof H as H0. rewrite parse_spec_factor in H. unfold spec_tree, tree_of.
  destruct (lex_spec s) as [a|] eqn:L; [|discriminate].
  pose proof (parse_spec_tree s) as HT. rewrite H0 in HT. unfold spec_tree in HT. rewrite L in HT.
  destruct (wf_spec a); [|contradiction]. auto.
Qed.

Lemma run_at_tree s m z t : parse_spec s = Some m -> run_at m z t = matches_at (tree_of s) z t.
Proof. intros H. destruct (parse_tree_of s m H) as (_ & HW & HC). apply run_at_matches; assumption. Qed.

(* ---- lists ------------------------------------------------------------------------------------------ *)

Lemma nodup_map_filter {A} (f : A -> Z) (p : A -> bool) l : NoDup (map f l) -> NoDup (map f (filter p l)).
Proof.
  induction l as [|x tl IH]; intros H; [constructor|]. cbn [map] in H. inversion H as [|? ? HN HT]; subst.
  cbn [filter]. destruct (p x); [|apply IH; exact HT]. cbn [map]. constructor; [|apply IH; exact HT].
  intros HI. apply HN. apply in_map_iff in HI as (y & HY & HI). apply filter_In in HI as [HI _].
  apply in_map_iff. exists y. auto.
Qed.

Lemma find_in {A} (p : A -> bool) l x : In x l -> p x = true -> exists y, find p l = Some y.
Proof.
  induction l as [|a tl IH]; intros HI HP; [destruct HI|]. cbn [find]. destruct (p a) eqn:E; [eauto|].
  destruct HI as [->|HI]; [rewrite HP in E; discriminate|apply IH; assumption].
Qed.

Lemma ids_unique objs : map j_id objs = map Z.of_nat (seq 0 (length objs)) ->
  forall x y, In x objs -> In y objs -> j_id x = j_id y -> x = y.
Proof.
  intros H. assert (HN : NoDup (map j_id objs)).
  { rewrite H. apply FinFun.Injective_map_NoDup; [intros a b E; lia|apply seq_NoDup]. }
  clear H. induction objs as [|a tl IH]; intros x y HX HY E; [destruct HX|].
  cbn [map] in HN. inversion HN as [|? ? HA HT]; subst.
  destruct HX as [->|HX], HY as [->|HY]; [reflexivity| | |apply IH; assumption].
  - exfalso. apply HA. rewrite E. apply in_map; exact HY.
  - exfalso. apply HA. rewrite <- E. apply in_map; exact HX.
Qed.

Lemma ids_bound objs : map j_id objs = map Z.of_nat (seq 0 (length objs)) ->
  forall x, In x objs -> 0 <= j_id x < Z.of_nat (length objs).
Proof.
  intros H x HX. apply (in_map j_id) in HX. rewrite H in HX. apply in_map_iff in HX as (n & <- & HN).
  apply in_seq in HN. lia.
Qed.

Lemma in_upd objs id f y : In y (upd objs id f) <-> exists x, In x objs /\ y = (if j_id x =? id then f x else x).
Proof. unfold upd. rewrite in_map_iff. split; intros (x & H1 & H2); exists x; auto. Qed.

Lemma upd_ids objs id f : (forall x, j_id (f x) = j_id x) -> map j_id (upd objs id f) = map j_id objs.
Proof.
  intros H. unfold upd. rewrite map_map. apply map_ext. intros x. destruct (j_id x =? id); [apply H|reflexivity].
Qed.

Lemma upd_length objs id f : length (upd objs id f) = length objs.
Proof. unfold upd. apply map_length. Qed.

Lemma find_present_some n objs j : find_present n objs = Some j -> In j objs /\ j_present j = true /\ j_name j = n.
Proof.
  unfold find_present. intros H. apply find_some in H as [H1 H2]. apply andb_true_iff in H2 as [H2 H3]. split; [exact H1|]. split; [exact H2|lia].
Qed.

Lemma find_present_none n objs : find_present n objs = None -> forall x, In x objs -> j_present x = true -> j_name x <> n.
Proof.
  unfold find_present. intros H x HX HP E. pose proof (find_none _ _ H x HX) as HF. cbn beta in HF. rewrite HP in HF. lia.
Qed.

(* ---- known names ---------------------------------------------------------------------------------- *)

Lemma known_iff jobs n : known jobs n = true <-> exists a, In a jobs /\ a_name a = n.
Proof.
  unfold known. rewrite existsb_exists. split; intros (a & H1 & H2); exists a; split; try assumption; lia.
Qed.

Lemma sim_known c jobs n : sim c jobs ->
  known jobs n = match find_present n (cr_objs c) with Some _ => true | None => false end.
Proof.
  intros [HI _]. destruct (find_present n (cr_objs c)) as [j|] eqn:F.
  - apply find_present_some in F as (F1 & F2 & F3). apply known_iff. exists (abs_job j). split; [|exact F3].
    apply HI. exists j. auto.
  - destruct (known jobs n) eqn:K; [|reflexivity]. apply known_iff in K as (a & HA & HN).
    apply HI in HA as (x & HX & HP & ->). exfalso. exact (find_present_none _ _ F x HX HP HN).
Qed.

(* ---- scheduleJob ------------------------------------------------------------------------------------ *)

Lemma zmem_in x l : zmem x l = true <-> In x l.
Proof. unfold zmem. rewrite existsb_exists. split; [intros (y & H1 & H2); replace x with y by lia; exact H1|intros H; exists x; split; [exact H|lia]]. Qed.

Definition wants (next : Z) (j : job) : bool := negb (j_disable j) && run_at (j_mask j) (j_zone j) next.

Lemma schedule_job_in next sp j id : In id (schedule_job next sp j) <-> In id sp \/ (wants next j = true /\ id = j_id j).
Proof.
  unfold schedule_job, wants. destruct (j_disable j); cbn [negb andb]; [intuition discriminate|].
  destruct (run_at (j_mask j) (j_zone j) next); cbn [negb]; [|intuition discriminate].
  destruct (zmem (j_id j) sp) eqn:Z.
  - apply zmem_in in Z. split; [auto|]. intros [H|[_ ->]]; assumption.
  - rewrite in_app_iff. cbn [In]. split; [intros [H|[H|[]]]; auto|intros [H|[_ H]]; auto].
Qed.

Lemma nodup_snoc {A} (l : list A) x : NoDup l -> ~ In x l -> NoDup (l ++ [x]).
Proof.
  induction l as [|a tl IH]; intros H HN; [constructor; [intros []|constructor]|].
  inversion H as [|? ? HA HT]; subst. cbn [app]. constructor.
  - rewrite in_app_iff. cbn [In]. intros [HI|[HI|[]]]; [exact (HA HI)|subst; apply HN; left; reflexivity].
  - apply IH; [exact HT|]. intros HI. apply HN. right. exact HI.
Qed.

Lemma schedule_job_nodup next sp j : NoDup sp -> NoDup (schedule_job next sp j).
Proof.
  intros H. unfold schedule_job. destruct (j_disable j); [exact H|].
  destruct (run_at (j_mask j) (j_zone j) next); cbn [negb]; [|exact H].
  destruct (zmem (j_id j) sp) eqn:Z; [exact H|].
  apply nodup_snoc; [exact H|]. intros HI. apply zmem_in in HI. rewrite HI in Z. discriminate.
Qed.

(* c.schedule(next) on an empty spool *)
Lemma schedule_all_spec next objs : forall sp,
  let sp' := schedule_all next objs sp in
  (NoDup sp -> NoDup sp') /\
  (forall id, In id sp' <-> In id sp \/ exists x, In x objs /\ j_present x = true /\ wants next x = true /\ id = j_id x).
Proof.
  unfold schedule_all. induction objs as [|j tl IH]; intros sp; cbn [fold_left].
  - split; [auto|]. intros id. split; [auto|]. intros [H|(x & [] & _)]; exact H.
  - destruct (IH (if j_present j then schedule_job next sp j else sp)) as [IH1 IH2]. split.
    + intros H. apply IH1. destruct (j_present j); [apply schedule_job_nodup; exact H|exact H].
    + intros id. rewrite IH2. destruct (j_present j) eqn:P.
      * rewrite schedule_job_in. split.
        -- intros [[H|[H1 H2]]|(x & H1 & H2)]; [auto| |].
           ++ right. exists j. cbn [In]. auto.
           ++ right. exists x. cbn [In]. tauto.
        -- intros [H|(x & [<-|H1] & H2 & H3 & H4)]; [auto| |].
           ++ left. right. auto.
           ++ right. exists x. auto.
      * split.
        -- intros [H|(x & H1 & H2)]; [auto|]. right. exists x. cbn [In]. tauto.
        -- intros [H|(x & [<-|H1] & H2 & H3 & H4)]; [auto| |].
           ++ rewrite P in H2. discriminate.
           ++ right. exists x. auto.
Qed.

(* ---- the entries a tick runs ---------------------------------------------------------------------- *)

Definition pop_entry (objs : list job) (id : Z) : list (Z * bool) :=
  match find (fun j => j_id j =? id) objs with Some j => [(j_name j, j_disable j)] | None => [] end.
Definition fired_sp (objs : list job) (sp : list Z) : list Z :=
  map fst (filter (fun e => negb (snd e)) (flat_map (pop_entry objs) sp)).

Lemma fired_eq c : fired c = fired_sp (cr_objs c) (cr_spool c).
Proof. reflexivity. Qed.

Lemma fired_sp_cons objs id sp : fired_sp objs (id :: sp) =
  match find (fun j => j_id j =? id) objs with
  | Some j => if j_disable j then fired_sp objs sp else j_name j :: fired_sp objs sp
  | None => fired_sp objs sp
  end.
Proof.
  unfold fired_sp. cbn [flat_map]. rewrite filter_app, map_app. unfold pop_entry at 1.
  destruct (find (fun j => j_id j =? id) objs) as [j|]; [|reflexivity].
  cbn [filter snd]. destruct (j_disable j); reflexivity.
Qed.

Section Fired.
  Variable objs : list job.
  Hypothesis Hids : forall x y, In x objs -> In y objs -> j_id x = j_id y -> x = y.

  Lemma find_id x : In x objs -> find (fun j => j_id j =? j_id x) objs = Some x.
  Proof using Hids.
    intros HX. destruct (find_in (fun j => j_id j =? j_id x) objs x HX (Z.eqb_refl _)) as [y HY].
    rewrite HY. apply find_some in HY as [H1 H2]. f_equal. apply Hids; [exact H1|exact HX|lia].
  Qed.

  Lemma in_fired_sp sp n : In n (fired_sp objs sp) <->
    exists x, In x objs /\ j_disable x = false /\ In (j_id x) sp /\ j_name x = n.
  Proof using Hids.
    induction sp as [|id sp IH].
    - cbn. split; [intros []|intros (x & _ & _ & [] & _)].
    - rewrite fired_sp_cons. destruct (find (fun j => j_id j =? id) objs) as [j|] eqn:F.
      + pose proof (find_some _ _ F) as [F1 F2]. assert (j_id j = id) by lia. subst id.
        destruct (j_disable j) eqn:D.
        * rewrite IH. split; intros (x & H1 & H2 & H3 & H4); exists x; cbn [In]; repeat split; auto.
          destruct H3 as [H3|H3]; [|exact H3]. symmetry in H3. apply (Hids _ _ H1 F1) in H3. subst x. rewrite D in H2. discriminate.
        * cbn [In]. rewrite IH. split.
          -- intros [<-|(x & H1 & H2 & H3 & H4)]; [exists j; auto|exists x; auto].
          -- intros (x & H1 & H2 & [H3|H3] & H4); [left|right; exists x; auto].
             symmetry in H3. apply (Hids _ _ H1 F1) in H3. subst x. exact H4.
      + rewrite IH. split; intros (x & H1 & H2 & H3 & H4); exists x; cbn [In]; repeat split; auto.
        destruct H3 as [H3|H3]; [|exact H3]. subst id. rewrite (find_id x H1) in F. discriminate.
  Qed.

  Hypothesis Hnames : forall x y, In x objs -> In y objs -> j_present x = true -> j_present y = true -> j_name x = j_name y -> x = y.
  Hypothesis Hgone : forall x, In x objs -> j_present x = false -> j_disable x = true.

  Lemma live_present x : In x objs -> j_disable x = false -> j_present x = true.
  Proof using Hgone. intros HX HD. destruct (j_present x) eqn:P; [reflexivity|]. rewrite (Hgone x HX P) in HD. discriminate. Qed.

  Lemma fired_sp_nodup sp : NoDup sp -> NoDup (fired_sp objs sp).
  Proof using Hids Hnames Hgone.
    induction sp as [|id sp IH]; intros HN; [constructor|].
    inversion HN as [|? ? HA HT]; subst. rewrite fired_sp_cons.
    destruct (find (fun j => j_id j =? id) objs) as [j|] eqn:F; [|apply IH; exact HT].
    destruct (j_disable j) eqn:D; [apply IH; exact HT|]. constructor; [|apply IH; exact HT].
    pose proof (find_some _ _ F) as [F1 F2]. assert (j_id j = id) by lia. subst id.
    intros HI. apply in_fired_sp in HI as (x & H1 & H2 & H3 & H4).
    assert (x = j) by (apply Hnames; auto using live_present). subst x. exact (HA H3).
  Qed.
End Fired.

(* ---- one tick: the jobs whose action starts = the due jobs, once each ------------------------------ *)

Lemma in_due jobs t n : In n (due jobs t) <->
  exists a, In a jobs /\ a_name a = n /\ a_enabled a = true /\ matches_at (a_spec a) (a_zone a) t = true.
Proof.
  unfold due. rewrite in_map_iff. split.
  - intros (a & H1 & H2). apply filter_In in H2 as [H2 H3]. apply andb_true_iff in H3 as [H3 H4]. exists a. auto.
  - intros (a & H1 & H2 & H3 & H4). exists a. split; [exact H2|]. apply filter_In. rewrite H3, H4. auto.
Qed.

Lemma due_nodup jobs t : NoDup (map a_name jobs) -> NoDup (due jobs t).
Proof. apply nodup_map_filter. Qed.

Lemma fire_ok c jobs : inv c -> sim c jobs ->
  NoDup (fired c) /\ Permutation (fired c) (due jobs (cr_next c)).
Proof.
  intros I S. pose proof (ids_unique _ (i_ids c I)) as HU.
  assert (HN : NoDup (fired c)).
  { rewrite fired_eq. apply fired_sp_nodup; [exact HU|exact (i_names c I)|exact (i_gone c I)|exact (i_sp_nodup c I)]. }
  split; [exact HN|]. apply NoDup_Permutation; [exact HN|apply due_nodup; exact (sim_nodup c jobs S)|].
  intros n. rewrite fired_eq, (in_fired_sp _ HU), in_due. split.
  - intros (x & H1 & H2 & H3 & H4).
    pose proof (live_present _ (i_gone c I) x H1 H2) as HP.
    exists (abs_job x). split; [apply (sim_in c jobs S); exists x; auto|]. split; [exact H4|].
    cbn [abs_job a_enabled a_spec a_zone]. rewrite H2. split; [reflexivity|].
    destruct (i_sp_sound c I _ H3) as (y & Y1 & Y2 & Y3). assert (y = x) by (apply HU; assumption). subst y.
    rewrite <- (run_at_tree _ _ _ _ (i_mask c I x H1)). exact Y3.
  - intros (a & H1 & H2 & H3 & H4). apply (sim_in c jobs S) in H1 as (x & X1 & X2 & ->).
    cbn [abs_job a_name a_enabled a_spec a_zone] in *. apply negb_true_iff in H3.
    exists x. split; [exact X1|]. split; [exact H3|]. split; [|exact H2].
    apply (i_sp_complete c I x X1 X2 H3). rewrite (run_at_tree _ _ _ _ (i_mask c I x X1)). exact H4.
Qed.

(* ---- the operations --------------------------------------------------------------------------------- *)

Lemma inv_init next : inv (cron_init next).
Proof. constructor; cbn; try (intros; contradiction); try reflexivity. constructor. Qed.

Lemma sim_init next : sim (cron_init next) [].
Proof. constructor; [|constructor]. intros a. cbn. split; [intros []|intros (x & [] & _)]. Qed.

(* a tick: objects unchanged, spool rebuilt for the next minute *)
Lemma tick_ok c jobs : inv c -> sim c jobs ->
  inv (fst (step c OTick)) /\ sim (fst (step c OTick)) jobs /\ cr_next (fst (step c OTick)) = cr_next c + 60.
Proof.
  intros I S. cbn [step fst]. split; [|split; [|reflexivity]].
  - destruct (schedule_all_spec (cr_next c + 60) (cr_objs c) []) as [H1 H2].
    constructor; cbn [cr_objs cr_spool cr_next]; try apply I.
    + apply H1. constructor.
    + intros id HI. apply H2 in HI as [[]|(x & X1 & X2 & X3 & ->)]. exists x. unfold wants in X3.
      apply andb_true_iff in X3 as [_ X3]. auto.
    + intros x X1 X2 X3 X4. apply H2. right. exists x. unfold wants. rewrite X3, X4. auto.
  - constructor; [|exact (sim_nodup c jobs S)]. exact (sim_in c jobs S).
Qed.

(* f changes only the flags of the object with identity id *)
Definition keeps (f : job -> job) : Prop :=
  forall x, j_id (f x) = j_id x /\ j_name (f x) = j_name x /\ j_spec (f x) = j_spec x /\ j_mask (f x) = j_mask x /\
            j_zone (f x) = j_zone x.

Lemma keeps_disable b : keeps (set_disable b).
Proof. intros x. repeat split. Qed.
Lemma keeps_removed : keeps set_removed.
Proof. intros x. repeat split. Qed.

Section Upd.
  Variables (c : cron) (j : job) (f : job -> job) (sp : list Z).
  Hypothesis I : inv c.
  Hypothesis Hj : In j (cr_objs c).
  Hypothesis Hp : j_present j = true.
  Hypothesis Hk : keeps f.
  Let objs' := upd (cr_objs c) (j_id j) f.
  Let c' := mk_cron (cr_next c) objs' sp.

  Lemma upd_cases y : In y objs' <-> (y = f j) \/ (In y (cr_objs c) /\ j_id y <> j_id j).
  Proof using I Hj.
    unfold objs'. rewrite in_upd. split.
    - intros (x & X1 & ->). destruct (Z.eqb_spec (j_id x) (j_id j)) as [E|N]; [left|right; auto].
      f_equal. apply (ids_unique _ (i_ids c I)); assumption.
    - intros [->|[H1 H2]]; [exists j; rewrite Z.eqb_refl; auto|exists y; split; [exact H1|]].
      destruct (Z.eqb_spec (j_id y) (j_id j)); [contradiction|reflexivity].
  Qed.

  Hypothesis Hflags : j_present (f j) = false -> j_disable (f j) = true.
  Hypothesis Hpres : j_present (f j) = true -> j_present j = true.
  Hypothesis Hsp_nodup : NoDup sp.
  Hypothesis Hsp_in : forall id, In id sp <-> In id (cr_spool c) \/ (wants (cr_next c) (f j) = true /\ id = j_id j).

  Lemma upd_inv : inv c'.
  Proof using I Hj Hp Hk Hflags Hpres Hsp_nodup Hsp_in.
    pose proof (ids_unique _ (i_ids c I)) as HU.
    constructor; cbn [cr_objs cr_spool cr_next c'].
    - unfold objs'. rewrite upd_ids, upd_length by (intros x; apply Hk). exact (i_ids c I).
    - intros x y HX HY PX PY E. apply upd_cases in HX, HY.
      destruct HX as [->|[HX NX]], HY as [->|[HY NY]]; [reflexivity| | |apply (i_names c I); assumption].
      + exfalso. apply NY. f_equal. symmetry. apply (i_names c I); auto. destruct (Hk j) as (_ & <- & _). exact E.
      + exfalso. apply NX. f_equal. apply (i_names c I); auto. destruct (Hk j) as (_ & <- & _). exact E.
    - intros x HX PX. apply upd_cases in HX as [->|[HX NX]]; [auto|apply (i_gone c I); assumption].
    - intros x HX. apply upd_cases in HX as [->|[HX NX]]; [|apply (i_mask c I); assumption].
      destruct (Hk j) as (_ & _ & -> & -> & _). apply (i_mask c I); exact Hj.
    - exact Hsp_nodup.
    - intros id HI. apply Hsp_in in HI as [HI|[HW ->]].
      + destruct (i_sp_sound c I id HI) as (x & X1 & X2 & X3).
        destruct (Z.eqb_spec (j_id x) (j_id j)) as [E|N].
        * assert (x = j) by (apply HU; assumption). subst x. exists (f j). split; [apply upd_cases; auto|].
          destruct (Hk j) as (-> & _ & _ & -> & ->). auto.
        * exists x. split; [apply upd_cases; auto|auto].
      + exists (f j). split; [apply upd_cases; auto|]. unfold wants in HW. apply andb_true_iff in HW as [_ HW].
        destruct (Hk j) as (-> & _). auto.
    - intros x HX PX DX RX. apply Hsp_in. apply upd_cases in HX as [->|[HX NX]].
      + right. unfold wants. rewrite DX, RX. destruct (Hk j) as (-> & _). auto.
      + left. apply (i_sp_complete c I); assumption.
  Qed.
End Upd.

Lemma other_name c j x : inv c -> In j (cr_objs c) -> j_present j = true -> In x (cr_objs c) -> j_present x = true ->
  j_id x <> j_id j -> (j_name x =? j_name j) = false.
Proof.
  intros I Hj Hp Hx Px N. destruct (Z.eqb_spec (j_name x) (j_name j)) as [E|]; [|reflexivity].
  exfalso. apply N. f_equal. apply (i_names c I); assumption.
Qed.

(* EnableJob / DisableJob of a present job *)
Lemma flag_ok c jobs j b sp : inv c -> sim c jobs -> In j (cr_objs c) -> j_present j = true ->
  NoDup sp ->
  (forall id, In id sp <-> In id (cr_spool c) \/ (wants (cr_next c) (set_disable b j) = true /\ id = j_id j)) ->
  let c' := mk_cron (cr_next c) (upd (cr_objs c) (j_id j) (set_disable b)) sp in
  inv c' /\ sim c' (map (set_enabled (negb b) (j_name j)) jobs).
Proof.
  intros I S Hj Hp HN HS c'. split.
  - refine (upd_inv c j (set_disable b) sp I Hj Hp (keeps_disable b) _ _ HN HS).
    + cbn. intros H. rewrite H in Hp. discriminate.
    + intros _. exact Hp.
  - constructor.
    + intros a'. rewrite in_map_iff. cbn [cr_objs c'].
      split.
      * intros (a & <- & HA). apply (sim_in c jobs S) in HA as (x & X1 & X2 & ->).
        destruct (Z.eqb_spec (j_id x) (j_id j)) as [E|N].
        -- assert (x = j) by (apply (ids_unique _ (i_ids c I)); assumption). subst x.
           exists (set_disable b j). split; [apply (upd_cases c j _ I Hj); auto|]. split; [exact Hp|].
           unfold set_enabled. cbn [abs_job a_name]. rewrite Z.eqb_refl. reflexivity.
        -- exists x. split; [apply (upd_cases c j _ I Hj); auto|]. split; [exact X2|].
           unfold set_enabled. cbn [abs_job a_name]. rewrite (other_name c j x I Hj Hp X1 X2 N). reflexivity.
      * intros (y & Y1 & Y2 & ->). apply (upd_cases c j _ I Hj) in Y1 as [->|[Y1 N]].
        -- exists (abs_job j). split; [|apply (sim_in c jobs S); exists j; auto].
           unfold set_enabled. cbn [abs_job a_name]. rewrite Z.eqb_refl. reflexivity.
        -- exists (abs_job y). split; [|apply (sim_in c jobs S); exists y; auto].
           unfold set_enabled. cbn [abs_job a_name]. rewrite (other_name c j y I Hj Hp Y1 Y2 N). reflexivity.
    + rewrite map_map. erewrite map_ext; [exact (sim_nodup c jobs S)|].
      intros a. unfold set_enabled. destruct (a_name a =? j_name j); reflexivity.
Qed.

Lemma remove_ok c jobs j : inv c -> sim c jobs -> In j (cr_objs c) -> j_present j = true ->
  let c' := mk_cron (cr_next c) (upd (cr_objs c) (j_id j) set_removed) (cr_spool c) in
  inv c' /\ sim c' (filter (fun a => negb (a_name a =? j_name j)) jobs).
Proof.
  intros I S Hj Hp c'. split.
  - refine (upd_inv c j set_removed (cr_spool c) I Hj Hp keeps_removed _ _ (i_sp_nodup c I) _).
    + intros _. reflexivity.
    + intros _. exact Hp.
    + intros id. split; [auto|]. intros [H|[H _]]; [exact H|]. cbn in H. discriminate.
  - constructor.
    + intros a. rewrite filter_In. cbn [cr_objs c']. split.
      * intros [HA HNm]. apply (sim_in c jobs S) in HA as (x & X1 & X2 & ->). cbn [abs_job a_name] in HNm.
        exists x. split; [|auto]. apply (upd_cases c j _ I Hj). right. split; [exact X1|]. intros E.
        assert (x = j) by (apply (ids_unique _ (i_ids c I)); assumption). subst x. rewrite Z.eqb_refl in HNm. discriminate.
      * intros (y & Y1 & Y2 & ->). apply (upd_cases c j _ I Hj) in Y1 as [->|[Y1 N]]; [cbn in Y2; discriminate|].
        split; [apply (sim_in c jobs S); exists y; auto|]. cbn [abs_job a_name].
        rewrite (other_name c j y I Hj Hp Y1 Y2 N). reflexivity.
    + apply nodup_map_filter. exact (sim_nodup c jobs S).
Qed.

(* AddJob of an accepted spec under a free name *)
Lemma add_ok c jobs name spec m tbl dflt : inv c -> sim c jobs ->
  parse_spec spec = Some m -> find_present name (cr_objs c) = None ->
  let j := mk_job (Z.of_nat (length (cr_objs c))) name spec m tbl dflt false true in
  let c' := mk_cron (cr_next c) (cr_objs c ++ [j]) (schedule_job (cr_next c) (cr_spool c) j) in
  inv c' /\ sim c' (jobs ++ [mk_ajob name (tree_of spec) (table_off tbl dflt) true]).
Proof.
  intros I S HP HF j c'.
  assert (Hfresh : forall x, In x (cr_objs c) -> j_id x <> j_id j).
  { intros x HX. pose proof (ids_bound _ (i_ids c I) x HX). cbn [j j_id]. lia. }
  split.
  - constructor; cbn [cr_objs cr_spool cr_next c'].
    + rewrite map_app, app_length, seq_app, map_app, (i_ids c I). cbn [length map seq Nat.add j j_id]. reflexivity.
    + intros x y HX HY PX PY E. apply in_app_iff in HX, HY. cbn [In] in HX, HY.
      destruct HX as [HX|[<-|[]]], HY as [HY|[<-|[]]]; [apply (i_names c I); assumption| | |reflexivity].
      * exfalso. exact (find_present_none _ _ HF x HX PX E).
      * exfalso. symmetry in E. exact (find_present_none _ _ HF y HY PY E).
    + intros x HX PX. apply in_app_iff in HX as [HX|[<-|[]]]; [apply (i_gone c I); assumption|cbn in PX; discriminate].
    + intros x HX. apply in_app_iff in HX as [HX|[<-|[]]]; [apply (i_mask c I); assumption|exact HP].
    + apply schedule_job_nodup. exact (i_sp_nodup c I).
    + intros id HI. apply schedule_job_in in HI as [HI|[HW ->]].
      * destruct (i_sp_sound c I id HI) as (x & X1 & X2 & X3). exists x. rewrite in_app_iff. auto.
      * exists j. rewrite in_app_iff. cbn [In]. unfold wants in HW. apply andb_true_iff in HW as [_ HW]. auto.
    + intros x HX PX DX RX. apply schedule_job_in. apply in_app_iff in HX as [HX|[<-|[]]].
      * left. apply (i_sp_complete c I); assumption.
      * right. unfold wants. rewrite DX, RX. auto.
  - constructor.
    + intros a. rewrite in_app_iff. cbn [In cr_objs c']. split.
      * intros [HA|[<-|[]]].
        -- apply (sim_in c jobs S) in HA as (x & X1 & X2 & ->). exists x. rewrite in_app_iff. auto.
        -- exists j. rewrite in_app_iff. cbn [In]. split; [auto|]. split; reflexivity.
      * intros (x & HX & PX & ->). apply in_app_iff in HX as [HX|[<-|[]]].
        -- left. apply (sim_in c jobs S). exists x. auto.
        -- right. left. reflexivity.
    + rewrite map_app. cbn [map a_name]. apply nodup_snoc; [exact (sim_nodup c jobs S)|].
      intros HI. apply in_map_iff in HI as (a & HA & HI). apply (sim_in c jobs S) in HI as (x & X1 & X2 & ->).
      exact (find_present_none _ _ HF x X1 X2 HA).
Qed.

(* ---- every operation: result code, invariant, simulation -------------------------------------------- *)

Lemma step_ok c jobs o : inv c -> sim c jobs ->
  inv (fst (step c o)) /\ sim (fst (step c o)) (astep jobs o) /\ snd (step c o) = arc jobs o /\
  cr_next (fst (step c o)) = match o with OTick => cr_next c + 60 | _ => cr_next c end.
Proof.
  intros I S. destruct o as [name spec tbl dflt|name|name|name|].
  - cbn [step astep arc]. pose proof (parse_spec_tree spec) as HT. rewrite (sim_known c jobs name S).
    destruct (parse_spec spec) as [m|] eqn:P.
    + destruct (parse_tree_of spec m P) as (T1 & _). rewrite T1.
      destruct (find_present name (cr_objs c)) as [j|] eqn:F; cbn [fst snd]; [auto|].
      destruct (add_ok c jobs name spec m tbl dflt I S P F) as [I' S']. auto.
    + rewrite HT. cbn [fst snd]. auto.
  - cbn [step astep arc]. rewrite (sim_known c jobs name S).
    destruct (find_present name (cr_objs c)) as [j|] eqn:F; cbn [fst snd].
    + apply find_present_some in F as (F1 & F2 & <-). destruct (remove_ok c jobs j I S F1 F2) as [I' S']. auto.
    + split; [exact I|]. split; [|auto]. constructor; [|apply nodup_map_filter; exact (sim_nodup c jobs S)].
      intros a. rewrite filter_In, (sim_in c jobs S). split; [tauto|]. intros (x & X1 & X2 & ->). split; [eauto|].
      cbn [abs_job a_name]. pose proof (find_present_none _ _ F x X1 X2). lia.
  - cbn [step astep arc]. rewrite (sim_known c jobs name S).
    destruct (find_present name (cr_objs c)) as [j|] eqn:F; cbn [fst snd].
    + apply find_present_some in F as (F1 & F2 & <-).
      destruct (flag_ok c jobs j false (schedule_job (cr_next c) (cr_spool c) (set_disable false j)) I S F1 F2) as [I' S'].
      * apply schedule_job_nodup. exact (i_sp_nodup c I).
      * intros id. rewrite schedule_job_in. reflexivity.
      * auto.
    + split; [exact I|]. split; [|auto]. constructor.
      * intros a. rewrite in_map_iff. rewrite <- (sim_in c jobs S). split.
        -- intros (a0 & <- & HA). pose proof HA as HA0. apply (sim_in c jobs S) in HA as (x & X1 & X2 & ->).
           unfold set_enabled. cbn [abs_job a_name] in *. pose proof (find_present_none _ _ F x X1 X2).
           replace (j_name x =? name) with false by lia. exact HA0.
        -- intros HA. exists a. split; [|exact HA]. apply (sim_in c jobs S) in HA as (x & X1 & X2 & ->).
           unfold set_enabled. cbn [abs_job a_name]. pose proof (find_present_none _ _ F x X1 X2).
           replace (j_name x =? name) with false by lia. reflexivity.
      * rewrite map_map. erewrite map_ext; [exact (sim_nodup c jobs S)|].
        intros a. unfold set_enabled. destruct (a_name a =? name); reflexivity.
  - cbn [step astep arc]. rewrite (sim_known c jobs name S).
    destruct (find_present name (cr_objs c)) as [j|] eqn:F; cbn [fst snd].
    + apply find_present_some in F as (F1 & F2 & <-).
      destruct (flag_ok c jobs j true (cr_spool c) I S F1 F2) as [I' S'].
      * exact (i_sp_nodup c I).
      * intros id. split; [auto|]. intros [H|[H _]]; [exact H|]. cbn in H. discriminate.
      * auto.
    + split; [exact I|]. split; [|auto]. constructor.
      * intros a. rewrite in_map_iff. rewrite <- (sim_in c jobs S). split.
        -- intros (a0 & <- & HA). pose proof HA as HA0. apply (sim_in c jobs S) in HA as (x & X1 & X2 & ->).
           unfold set_enabled. cbn [abs_job a_name] in *. pose proof (find_present_none _ _ F x X1 X2).
           replace (j_name x =? name) with false by lia. exact HA0.
        -- intros HA. exists a. split; [|exact HA]. apply (sim_in c jobs S) in HA as (x & X1 & X2 & ->).
           unfold set_enabled. cbn [abs_job a_name]. pose proof (find_present_none _ _ F x X1 X2).
           replace (j_name x =? name) with false by lia. reflexivity.
      * rewrite map_map. erewrite map_ext; [exact (sim_nodup c jobs S)|].
        intros a. unfold set_enabled. destruct (a_name a =? name); reflexivity.
  - destruct (tick_ok c jobs I S) as (I' & S' & N'). cbn [astep arc]. auto.
Qed.

(* ---- histories ---------------------------------------------------------------------------------------- *)

(* an event of the implementation against the event the abstract scheduler demands *)
Definition ev_ok (e e' : ev) : Prop :=
  match e, e' with
  | ERc a, ERc b => a = b
  | EFire m l, EFire m' l' => m = m' /\ NoDup l /\ Permutation l l'
  | _, _ => False
  end.

Theorem trace_ok ops : forall c jobs, inv c -> sim c jobs ->
  Forall2 ev_ok (trace c ops) (atrace (cr_next c) jobs ops) /\ inv (run c ops) /\ sim (run c ops) (arun jobs ops).
Proof.
  induction ops as [|o tl IH]; intros c jobs I S; [cbn; auto|].
  destruct (step_ok c jobs o I S) as (I' & S' & RC & NX).
  cbn [trace atrace run arun fold_left].
  destruct o as [name spec tbl dflt|name|name|name|];
    try (destruct (IH _ _ I' S') as (H1 & H2 & H3); rewrite NX in H1; split; [constructor; [exact RC|exact H1]|split; assumption]).
  destruct (IH _ _ I' S') as (H1 & H2 & H3). rewrite NX in H1. split; [|split; assumption].
  constructor; [|exact H1]. destruct (fire_ok c jobs I S) as [F1 F2]. cbn [ev_ok]. auto.
Qed.

(* every history from a fresh cron *)
Theorem tick_histories next ops : Forall2 ev_ok (trace (cron_init next) ops) (atrace next [] ops).
Proof. exact (proj1 (trace_ok ops (cron_init next) [] (inv_init next) (sim_init next))). Qed.

Lemma trace_app c pre post : trace c (pre ++ post) = trace c pre ++ trace (run c pre) post.
Proof.
  revert c. induction pre as [|o tl IH]; intros c; [reflexivity|]. cbn [app trace run fold_left]. rewrite IH. reflexivity.
Qed.

Lemma atrace_next next jobs ops : forall m l, In (EFire m l) (atrace next jobs ops) ->
  exists pre post, ops = pre ++ OTick :: post /\ l = due (arun jobs pre) m.
Proof.
  revert next jobs. induction ops as [|o tl IH]; intros next jobs m l HI; [destruct HI|].
  cbn [atrace] in HI. destruct o as [name spec tbl dflt|name|name|name|]; cbn [In] in HI.
  1-4: destruct HI as [HI|HI]; [discriminate|]; destruct (IH _ _ _ _ HI) as (pre & post & -> & ->);
       eexists (_ :: pre), post; split; reflexivity.
  destruct HI as [HI|HI].
  - inversion HI; subst. exists [], tl. split; reflexivity.
  - destruct (IH _ _ _ _ HI) as (pre & post & -> & ->). exists (OTick :: pre), post. split; reflexivity.
Qed.

(* ---- a disabled or removed job stays quiet until it is enabled or added again ---------------------- *)

Lemma enabled_in_false jobs n : enabled_in jobs n = false <-> forall a, In a jobs -> a_name a = n -> a_enabled a = false.
Proof.
  unfold enabled_in. split.
  - intros H a HA HN. destruct (a_enabled a) eqn:E; [|reflexivity].
    assert (existsb (fun j => (a_name j =? n) && a_enabled j) jobs = true) by (apply existsb_exists; exists a; split; [exact HA|rewrite E; lia]).
    congruence.
  - intros H. destruct (existsb _ jobs) eqn:E; [|reflexivity]. apply existsb_exists in E as (a & HA & HE).
    apply andb_true_iff in HE as [H1 H2]. rewrite (H a HA ltac:(lia)) in H2. discriminate.
Qed.

Lemma quiet_disable jobs n : enabled_in (astep jobs (ODisable n)) n = false.
Proof.
  apply enabled_in_false. cbn [astep]. intros a HA HN. apply in_map_iff in HA as (a0 & <- & _).
  unfold set_enabled in *. destruct (a_name a0 =? n) eqn:E; [reflexivity|]. lia.
Qed.

Lemma quiet_remove jobs n : enabled_in (astep jobs (ORemove n)) n = false.
Proof.
  apply enabled_in_false. cbn [astep]. intros a HA HN. apply filter_In in HA as [_ HA]. lia.
Qed.

Lemma quiet_step jobs n o : wakes n o = false -> enabled_in jobs n = false -> enabled_in (astep jobs o) n = false.
Proof.
  rewrite !enabled_in_false. intros HW H a HA HN.
  destruct o as [name spec tbl dflt|name|name|name|]; cbn [astep wakes] in *.
  - destruct (spec_tree spec); [|eauto]. destruct (known jobs name); [eauto|].
    apply in_app_iff in HA as [HA|[<-|[]]]; [eauto|]. cbn [a_name] in HN. lia.
  - apply filter_In in HA as [HA _]. eauto.
  - apply in_map_iff in HA as (a0 & <- & HA). unfold set_enabled in *.
    destruct (a_name a0 =? name) eqn:E; [cbn [a_name] in HN; lia|eauto].
  - apply in_map_iff in HA as (a0 & <- & HA). unfold set_enabled in *.
    destruct (a_name a0 =? name) eqn:E; [reflexivity|eauto].
  - eauto.
Qed.

Lemma quiet_run ops : forall jobs n, Forall (fun o => wakes n o = false) ops -> enabled_in jobs n = false ->
  enabled_in (arun jobs ops) n = false.
Proof.
  induction ops as [|o tl IH]; intros jobs n HF H; [exact H|]. inversion HF; subst.
  cbn [arun fold_left]. apply IH; [assumption|]. apply quiet_step; assumption.
Qed.

Lemma quiet_due jobs n t : enabled_in jobs n = false -> ~ In n (due jobs t).
Proof.
  intros H HI. apply in_due in HI as (a & H1 & H2 & H3 & _).
  rewrite (proj1 (enabled_in_false jobs n) H a H1 H2) in H3. discriminate.
Qed.

Lemma forall_app_l {A} (P : A -> Prop) l1 l2 : Forall P (l1 ++ l2) -> Forall P l1.
Proof. rewrite Forall_app. tauto. Qed.

Lemma forall2_in_l {A B} (R : A -> B -> Prop) l1 l2 x : Forall2 R l1 l2 -> In x l1 -> exists y, In y l2 /\ R x y.
Proof.
  induction 1 as [|a b l1 l2 HR HF IH]; intros HI; [destruct HI|]. destruct HI as [<-|HI].
  - exists b. split; [left; reflexivity|exact HR].
  - destruct (IH HI) as (y & H1 & H2). exists y. split; [right; exact H1|exact H2].
Qed.

(* after DisableJob n or RemoveJob n, whatever came before, no tick starts job n until an
   EnableJob n or AddJob n *)
Theorem tick_quiet next pre o n post : (o = ODisable n \/ o = ORemove n) ->
  Forall (fun o' => wakes n o' = false) post ->
  forall m l, In (EFire m l) (trace (run (cron_init next) (pre ++ [o])) post) -> ~ In n l.
Proof.
  intros HO HW m l HI.
  destruct (trace_ok (pre ++ [o]) (cron_init next) [] (inv_init next) (sim_init next)) as (_ & I & S).
  set (c := run (cron_init next) (pre ++ [o])) in *. set (jobs := arun [] (pre ++ [o])) in *.
  destruct (trace_ok post c jobs I S) as (HT & _).
  destruct (forall2_in_l _ _ _ _ HT HI) as (e' & HE & HR).
  destruct e' as [|m' l']; cbn [ev_ok] in HR; [contradiction|]. destruct HR as (-> & _ & HP).
  destruct (atrace_next _ _ _ _ _ HE) as (p1 & p2 & -> & ->).
  intros HN. apply (Permutation_in _ HP) in HN. revert HN. apply quiet_due.
  apply quiet_run; [exact (forall_app_l _ _ _ HW)|].
  unfold jobs, arun. rewrite fold_left_app. cbn [fold_left].
  destruct HO as [->| ->]; [apply quiet_disable|apply quiet_remove].
Qed.

(* which jobs a tick starts, spelled out *)
Theorem tick_fires next ops m l n : In (EFire m l) (trace (cron_init next) ops) ->
  exists pre post, ops = pre ++ OTick :: post /\ NoDup l /\
    (In n l <-> exists a, In a (arun [] pre) /\ a_name a = n /\ a_enabled a = true /\
                          matches (a_spec a) (civil_of (a_zone a m) m) = true).
Proof.
  intros HI. destruct (forall2_in_l _ _ _ _ (tick_histories next ops) HI) as (e' & HE & HR).
  destruct e' as [|m' l']; cbn [ev_ok] in HR; [contradiction|]. destruct HR as (<- & HN & HP).
  destruct (atrace_next _ _ _ _ _ HE) as (pre & post & -> & ->).
  exists pre, post. split; [reflexivity|]. split; [exact HN|].
  transitivity (In n (due (arun [] pre) m)); [|rewrite in_due; reflexivity].
  split; [apply Permutation_in; exact HP|apply Permutation_in; symmetry; exact HP].
Qed.

(* the minutes of the ticks: consecutive minutes, one tick each *)
Definition fire_minutes (l : list ev) : list Z := flat_map (fun e => match e with EFire m _ => [m] | ERc _ => [] end) l.
Definition count_ticks (ops : list op) : nat := length (filter (fun o => match o with OTick => true | _ => false end) ops).

Lemma step_next c o : cr_next (fst (step c o)) = match o with OTick => cr_next c + 60 | _ => cr_next c end.
Proof.
  destruct o as [name spec tbl dflt|name|name|name|]; cbn [step].
  - destruct (parse_spec spec); [|reflexivity]. destruct (find_present name (cr_objs c)); reflexivity.
  - destruct (find_present name (cr_objs c)); reflexivity.
  - destruct (find_present name (cr_objs c)); reflexivity.
  - destruct (find_present name (cr_objs c)); reflexivity.
  - reflexivity.
Qed.

Theorem tick_minutes ops : forall c, fire_minutes (trace c ops) = minutes_from (count_ticks ops) (cr_next c).
Proof.
  induction ops as [|o tl IH]; intros c; [reflexivity|].
  cbn [trace fire_minutes flat_map]. fold (fire_minutes (trace (fst (step c o)) tl)). rewrite IH, step_next.
  destruct o; reflexivity.
Qed.
