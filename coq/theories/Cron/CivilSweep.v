(* Cron engine — the finite calendar sweeps (vm_compute, compiled once): every day of one
   400-year era, every date of 400 years, every month end. *)
From Ergo Require Import Common.Base Cron.Model Cron.Spec.
Local Open Scope Z_scope.

Definition valid_date (y m d : Z) : bool := (1 <=? m) && (m <=? 12) && (1 <=? d) && (d <=? days_in_month y m).

Fixpoint all_from (n : nat) (a : Z) (f : Z -> bool) : bool :=
  match n with O => true | S k => f a && all_from k (a + 1) f end.

(* two-level range so that no large nat is ever built: a + inner*i + j *)
Definition all_2level (outer inner : nat) (a : Z) (f : Z -> bool) : bool :=
  all_from outer 0 (fun i => all_from inner (a + Z.of_nat inner * i) f).

Definition checkA (doe : Z) : bool :=
  let '(yy, m, d) := ymd_of_doe doe in
  valid_date yy m d && (days_from_civil yy m d =? doe - 719468).

Lemma sweepA : all_2level 189 773 0 checkA = true.
Proof. vm_compute. reflexivity. Qed.

Definition checkB_day (y m : Z) (d : Z) : bool :=
  negb (valid_date y m d) ||
  (let '(y2, m2, d2) := civil_from_days (days_from_civil y m d) in (y2 =? y) && (m2 =? m) && (d2 =? d)).
Definition checkB (y : Z) : bool := all_from 12 1 (fun m => all_from 31 1 (checkB_day y m)).

Lemma sweepB : all_from 400 0 checkB = true.
Proof. vm_compute. reflexivity. Qed.

Definition next_month (y m : Z) : Z * Z := if m =? 12 then (y + 1, 1) else (y, m + 1).

Definition check_succ (y m : Z) : bool :=
  let '(y2, m2) := next_month y m in days_from_civil y2 m2 1 =? days_from_civil y m (days_in_month y m) + 1.
Lemma sweep_succ : all_from 400 0 (fun y => all_from 12 1 (check_succ y)) = true.
Proof. vm_compute. reflexivity. Qed.
