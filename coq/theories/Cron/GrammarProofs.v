(* Cron engine — the string level: the parser accepts exactly the renderings of the concrete
   syntax trees whose abstract tree is a spec of the dialect, and compiles that tree. *)
From Ergo Require Import Common.Base Cron.Model Cron.Spec Cron.Grammar Cron.CivilSweep Cron.CivilProofs Cron.Proofs Cron.RunProofs.
Local Open Scope Z_scope.

(* ---- the recogniser of the options written with character tests ------------------------------- *)


Definition lex_range (a : Z) (r1 : str) : option item :=
  let '(b, nb, rest1) := span_digits r1 0 0%nat in
  match nb, rest1 with
  | O, _ => None
  | S _, [] => Some (IRange a b)
  | S _, c :: r2 =>
      if c =? 47 then
        let '(st, ns, rest2) := span_digits r2 0 0%nat in
        match ns, rest2 with
        | S _, [] => Some (IRangeStep a b st)
        | _, _ => None
        end
      else None
  end.

Definition lex_num (s : str) : option item :=
  let '(a, na, rest) := span_digits s 0 0%nat in
  match na with
  | O => None
  | S na' =>
      match rest with
      | [] => Some (INum a)
      | r :: rt =>
          if r =? 76 then
            match na', rt with
            | O, [] => if (1 <=? a) && (a <=? 7) then Some (ILastW a) else None
            | _, _ => None
            end
          else if r =? 35 then
            match na', rt with
            | O, [c] => if (1 <=? a) && (a <=? 7) && (49 <=? c) && (c <=? 53) then Some (INth a (c - 48)) else None
            | _, _ => None
            end
          else if r =? 45 then lex_range a rt
          else None
      end
  end.

Definition lex_step (ds : str) : option item :=
  let '(v, n, rest) := span_digits ds 0 0%nat in
  match n, rest with
  | S _, [] => Some (IStep v)
  | _, _ => None
  end.

Definition lex_item2 (s : str) : option item :=
  match s with
  | [] => None
  | c :: tl =>
      if c =? 42 then
        match tl with
        | [] => Some IStar
        | c2 :: ds => if c2 =? 47 then lex_step ds else None
        end
      else if c =? 76 then (match tl with [] => Some ILast | _ => None end)
      else lex_num s
  end.


Definition lex_dflt (s : str) : option item :=
      let '(a, na, rest) := span_digits s 0 0%nat in
      match na, rest with
      | O, _ => None
      | S _, [] => Some (INum a)
      | S O, [76] => if (1 <=? a) && (a <=? 7) then Some (ILastW a) else None
      | S O, [35; c] => if (1 <=? a) && (a <=? 7) && (49 <=? c) && (c <=? 53) then Some (INth a (c - 48)) else None
      | S _, 45 :: r1 =>
          let '(b, nb, rest1) := span_digits r1 0 0%nat in
          match nb, rest1 with
          | O, _ => None
          | S _, [] => Some (IRange a b)
          | S _, 47 :: r2 =>
              let '(st, ns, rest2) := span_digits r2 0 0%nat in
              match ns, rest2 with
              | S _, [] => Some (IRangeStep a b st)
              | _, _ => None
              end
          | _, _ => None
          end
      | _, _ => None
      end.

Ltac zc c := destruct c as [|c|c]; [| do 7 (try (destruct c as [c|c|])) |].

Lemma lex_item_dflt c tl : c <> 42 -> c <> 76 -> lex_item (c :: tl) = lex_dflt (c :: tl).
Proof. intros N1 N2. zc c; try reflexivity; try (exfalso; apply N1; reflexivity); try (exfalso; apply N2; reflexivity). Qed.

Lemma lex_item_42 c2 ds : c2 <> 47 -> lex_item (42 :: c2 :: ds) = None.
Proof. intros N. zc c2; try reflexivity; exfalso; apply N; reflexivity. Qed.

Lemma lex_item_76 c2 ds : lex_item (76 :: c2 :: ds) = None.
Proof. zc c2; reflexivity. Qed.

Lemma eqb_neq_false c k : c <> k -> (c =? k) = false.
Proof. intros; lia. Qed.

Lemma lex_range_eq a r1 :
  (let '(b, nb, rest1) := span_digits r1 0 0%nat in
          match nb, rest1 with
          | O, _ => None
          | S _, [] => Some (IRange a b)
          | S _, 47 :: r2 =>
              let '(st, ns, rest2) := span_digits r2 0 0%nat in
              match ns, rest2 with
              | S _, [] => Some (IRangeStep a b st)
              | _, _ => None
              end
          | _, _ => None
          end) = lex_range a r1.
Proof.
  unfold lex_range. destruct (span_digits r1 0 0) as [[b nb] rest1].
  destruct nb as [|nb]; [reflexivity|]. destruct rest1 as [|c r2]; [reflexivity|].
  destruct (Z.eqb_spec c 47) as [->|N]; [reflexivity|].
  zc c; try reflexivity; exfalso; apply N; reflexivity.
Qed.

Lemma lex_dflt_eq s : lex_dflt s = lex_num s.
Proof.
  unfold lex_dflt, lex_num. destruct (span_digits s 0 0) as [[a na] rest].
  destruct na as [|na]; [reflexivity|]. destruct rest as [|r rt]; [destruct na; reflexivity|].
  destruct (Z.eqb_spec r 76) as [->|N1].
  { destruct na, rt; reflexivity. }
  destruct (Z.eqb_spec r 35) as [->|N2].
  { destruct na; [|destruct rt as [|? [|]]; reflexivity]. destruct rt as [|c [|]]; reflexivity. }
  destruct (Z.eqb_spec r 45) as [->|N3].
  { rewrite <- lex_range_eq. destruct na; reflexivity. }
  zc r; try (destruct na; reflexivity); exfalso; first [apply N1; reflexivity|apply N2; reflexivity|apply N3; reflexivity].
Qed.

Lemma lex_item_eq s : lex_item s = lex_item2 s.
Proof.
  destruct s as [|c tl]; [reflexivity|].
  unfold lex_item2.
  destruct (Z.eqb_spec c 42) as [->|N1].
  - destruct tl as [|c2 ds]; [reflexivity|].
    destruct (Z.eqb_spec c2 47) as [->|N2]; [reflexivity|]. apply lex_item_42; exact N2.
  - destruct (Z.eqb_spec c 76) as [->|N2].
    + destruct tl; [reflexivity|apply lex_item_76].
    + rewrite lex_item_dflt by assumption. apply lex_dflt_eq.
Qed.

(* ---- digit strings ------------------------------------------------------------------------------ *)

Definition nodigit_head (s : str) : bool := match s with [] => true | c :: _ => negb (is_digit c) end.

Lemma span_digits_app ds : forall rest acc n, forallb is_digit ds = true -> nodigit_head rest = true ->
  span_digits (ds ++ rest) acc n = (dval_acc ds acc, (n + length ds)%nat, rest).
Proof.
  induction ds as [|c ds IH]; intros rest acc n HD HR.
  - cbn [app dval_acc length]. rewrite Nat.add_0_r.
    destruct rest as [|r rt]; [reflexivity|]. cbn [nodigit_head] in HR. cbn [span_digits].
    apply negb_true_iff in HR. rewrite HR. reflexivity.
  - cbn [forallb] in HD. apply andb_true_iff in HD as [H1 H2].
    cbn [app span_digits dval_acc length]. rewrite H1. rewrite (IH rest _ _ H2 HR). f_equal. f_equal. lia.
Qed.

Lemma span_digits_inv s : forall acc n a n' rest, span_digits s acc n = (a, n', rest) ->
  exists ds, s = ds ++ rest /\ forallb is_digit ds = true /\ a = dval_acc ds acc /\ n' = (n + length ds)%nat /\
             nodigit_head rest = true.
Proof.
  induction s as [|c tl IH]; intros acc n a n' rest H.
  - cbn [span_digits] in H. inversion H; subst. exists []. cbn. rewrite Nat.add_0_r. auto.
  - cbn [span_digits] in H. destruct (is_digit c) eqn:E.
    + destruct (IH _ _ _ _ _ H) as (ds & -> & HD & -> & -> & HR).
      exists (c :: ds). cbn [app forallb dval_acc length]. rewrite E, HD.
      repeat split; try reflexivity; [lia|exact HR].
    + inversion H; subst. exists []. cbn [app forallb dval_acc length nodigit_head]. rewrite E, Nat.add_0_r. auto.
Qed.

Lemma all_digits_inv s : all_digits s = true -> exists c tl, s = c :: tl /\ is_digit c = true /\ forallb is_digit s = true.
Proof.
  unfold all_digits. intros H. apply andb_true_iff in H as [H1 H2].
  destruct s as [|c tl]; [discriminate|]. exists c, tl. split; [reflexivity|]. split; [|exact H2].
  cbn [forallb] in H2. apply andb_true_iff in H2 as [H2 _]. exact H2.
Qed.

Lemma digit_first c : is_digit c = true -> (c =? 42) = false /\ (c =? 76) = false.
Proof. unfold is_digit. intros H. split; lia. Qed.

Lemma span_all s : all_digits s = true -> exists k, span_digits s 0 0%nat = (dval s, S k, []).
Proof.
  intros H. destruct (all_digits_inv s H) as (c & tl & -> & _ & HD).
  pose proof (span_digits_app (c :: tl) [] 0 0%nat HD eq_refl) as HS. rewrite app_nil_r in HS.
  rewrite HS. exists (length tl). reflexivity.
Qed.

Lemma span_then s r rt : all_digits s = true -> is_digit r = false ->
  exists k, span_digits (s ++ r :: rt) 0 0%nat = (dval s, S k, r :: rt).
Proof.
  intros H HR. destruct (all_digits_inv s H) as (c & tl & -> & _ & HD).
  rewrite (span_digits_app (c :: tl) (r :: rt) 0 0%nat HD) by (cbn [nodigit_head]; rewrite HR; reflexivity).
  exists (length tl). reflexivity.
Qed.

(* ---- one option: the recogniser accepts exactly the renderings of the well formed tokens ---------- *)

Lemma lex_step_render s : all_digits s = true -> lex_step s = Some (IStep (dval s)).
Proof. intros H. unfold lex_step. destruct (span_all s H) as [k ->]. reflexivity. Qed.

Lemma lex_range_render a b : all_digits b = true -> lex_range a b = Some (IRange a (dval b)).
Proof. intros H. unfold lex_range. destruct (span_all b H) as [k ->]. reflexivity. Qed.

Lemma lex_range_step_render a b s : all_digits b = true -> all_digits s = true ->
  lex_range a (b ++ 47 :: s) = Some (IRangeStep a (dval b) (dval s)).
Proof.
  intros HB HS. unfold lex_range. destruct (span_then b 47 s HB eq_refl) as [k ->].
  change (47 =? 47) with true. cbv iota. destruct (span_all s HS) as [k2 ->]. reflexivity.
Qed.

Lemma lex_item_render ci : cwf_item ci = true -> lex_item (render_item ci) = Some (abs_item ci).
Proof.
  intros H. rewrite lex_item_eq. destruct ci; cbn [cwf_item render_item abs_item] in *.
  - reflexivity.
  - cbn [lex_item2]. change (42 =? 42) with true. change (47 =? 47) with true. cbv iota. apply lex_step_render; exact H.
  - apply andb_true_iff in H as [HA HB].
    destruct (all_digits_inv a HA) as (c & tl & -> & HC & _). destruct (digit_first c HC) as [E1 E2].
    cbn [app lex_item2]. rewrite E1, E2. change (c :: tl ++ 45 :: b) with ((c :: tl) ++ 45 :: b).
    unfold lex_num. destruct (span_then (c :: tl) 45 b HA eq_refl) as [k ->].
    change (45 =? 76) with false. change (45 =? 35) with false. change (45 =? 45) with true. cbv iota.
    apply lex_range_render; exact HB.
  - apply andb_true_iff in H as [H HS]. apply andb_true_iff in H as [HA HB].
    destruct (all_digits_inv a HA) as (c & tl & -> & HC & _). destruct (digit_first c HC) as [E1 E2].
    cbn [app lex_item2]. rewrite E1, E2. change (c :: tl ++ 45 :: b ++ 47 :: s) with ((c :: tl) ++ 45 :: b ++ 47 :: s).
    unfold lex_num. destruct (span_then (c :: tl) 45 (b ++ 47 :: s) HA eq_refl) as [k ->].
    change (45 =? 76) with false. change (45 =? 35) with false. change (45 =? 45) with true. cbv iota.
    apply lex_range_step_render; assumption.
  - destruct (all_digits_inv n H) as (c & tl & -> & HC & _). destruct (digit_first c HC) as [E1 E2].
    cbn [lex_item2]. rewrite E1, E2. unfold lex_num. destruct (span_all (c :: tl) H) as [k ->]. reflexivity.
  - reflexivity.
  - assert (HD : is_digit d = true) by (unfold is_digit; lia). destruct (digit_first d HD) as [E1 E2].
    cbn [lex_item2]. rewrite E1, E2. unfold lex_num.
    change [d; 76] with ([d] ++ [76]).
    rewrite (span_digits_app [d] [76] 0 0%nat) by (cbn [forallb nodigit_head]; rewrite ?HD; reflexivity).
    cbn [length Nat.add dval_acc]. change (76 =? 76) with true. cbv iota.
    replace ((1 <=? 0 * 10 + (d - 48)) && (0 * 10 + (d - 48) <=? 7)) with true by lia.
    replace (0 * 10 + (d - 48)) with (d - 48) by lia. reflexivity.
  - assert (HD : is_digit d = true) by (unfold is_digit; lia). destruct (digit_first d HD) as [E1 E2].
    cbn [lex_item2]. rewrite E1, E2. unfold lex_num.
    change [d; 35; n] with ([d] ++ [35; n]).
    rewrite (span_digits_app [d] [35; n] 0 0%nat) by (cbn [forallb nodigit_head]; rewrite ?HD; reflexivity).
    cbn [length Nat.add dval_acc]. change (35 =? 76) with false. change (35 =? 35) with true. cbv iota.
    replace ((1 <=? 0 * 10 + (d - 48)) && (0 * 10 + (d - 48) <=? 7) && (49 <=? n) && (n <=? 53)) with true by lia.
    replace (0 * 10 + (d - 48)) with (d - 48) by lia. reflexivity.
Qed.

Lemma all_digits_intro ds k : forallb is_digit ds = true -> length ds = S k -> all_digits ds = true.
Proof. intros H L. unfold all_digits. rewrite H. destruct ds; [discriminate|reflexivity]. Qed.

Lemma lex_step_inv s it : lex_step s = Some it -> exists ds, all_digits ds = true /\ s = ds /\ it = IStep (dval ds).
Proof.
  unfold lex_step. destruct (span_digits s 0 0%nat) as [[v n] rest] eqn:E. intros H.
  destruct n as [|k]; [discriminate|]. destruct rest; [|discriminate]. inversion H; subst.
  destruct (span_digits_inv _ _ _ _ _ _ E) as (ds & -> & HD & -> & HL & _). rewrite app_nil_r.
  exists ds. split; [apply (all_digits_intro ds k HD); cbn in HL; lia|]. split; reflexivity.
Qed.

Lemma lex_range_inv a r it : lex_range a r = Some it ->
  (exists b, all_digits b = true /\ r = b /\ it = IRange a (dval b)) \/
  (exists b s, all_digits b = true /\ all_digits s = true /\ r = b ++ 47 :: s /\ it = IRangeStep a (dval b) (dval s)).
Proof.
  unfold lex_range. destruct (span_digits r 0 0%nat) as [[b nb] rest1] eqn:E. intros H.
  destruct nb as [|k]; [discriminate|].
  destruct (span_digits_inv _ _ _ _ _ _ E) as (ds & -> & HD & -> & HL & _).
  assert (HB : all_digits ds = true) by (apply (all_digits_intro ds k HD); cbn in HL; lia).
  destruct rest1 as [|c r2].
  - inversion H; subst. left. exists ds. rewrite app_nil_r. auto.
  - destruct (Z.eqb_spec c 47) as [->|N]; [|discriminate].
    destruct (span_digits r2 0 0%nat) as [[st ns] rest2] eqn:E2.
    destruct ns as [|k2]; [discriminate|]. destruct rest2; [|discriminate]. inversion H; subst.
    destruct (span_digits_inv _ _ _ _ _ _ E2) as (ds2 & -> & HD2 & -> & HL2 & _). rewrite app_nil_r.
    right. exists ds, ds2. split; [exact HB|]. split; [apply (all_digits_intro ds2 k2 HD2); cbn in HL2; lia|]. auto.
Qed.

Lemma length_one {A} (l : list A) : length l = 1%nat -> exists x, l = [x].
Proof. destruct l as [|x [|]]; try discriminate. intros _. exists x. reflexivity. Qed.

Lemma lex_num_inv s it : lex_num s = Some it -> exists ci, cwf_item ci = true /\ render_item ci = s /\ abs_item ci = it.
Proof.
  unfold lex_num. destruct (span_digits s 0 0%nat) as [[a na] rest] eqn:E. intros H.
  destruct na as [|k]; [discriminate|].
  destruct (span_digits_inv _ _ _ _ _ _ E) as (ds & -> & HD & -> & HL & _).
  assert (HA : all_digits ds = true) by (apply (all_digits_intro ds k HD); cbn in HL; lia).
  destruct rest as [|r rt].
  - inversion H; subst. exists (CNum ds). rewrite app_nil_r. auto.
  - destruct (Z.eqb_spec r 76) as [->|N1].
    { destruct k; [|discriminate]. destruct rt; [|discriminate].
      destruct ((1 <=? dval_acc ds 0) && (dval_acc ds 0 <=? 7)) eqn:R; [|discriminate]. inversion H; subst.
      destruct (length_one ds ltac:(cbn in HL; lia)) as [d ->]. cbn [dval_acc] in *.
      cbn [forallb] in HD. unfold is_digit in HD.
      exists (CLastW d). cbn [cwf_item render_item abs_item app]. split; [lia|]. split; [reflexivity|]. f_equal; lia. }
    destruct (Z.eqb_spec r 35) as [->|N2].
    { destruct k; [|discriminate]. destruct rt as [|c [|]]; try discriminate.
      destruct ((1 <=? dval_acc ds 0) && (dval_acc ds 0 <=? 7) && (49 <=? c) && (c <=? 53)) eqn:R; [|discriminate]. inversion H; subst.
      destruct (length_one ds ltac:(cbn in HL; lia)) as [d ->]. cbn [dval_acc] in *.
      cbn [forallb] in HD. unfold is_digit in HD.
      exists (CNth d c). cbn [cwf_item render_item abs_item app]. split; [lia|]. split; [reflexivity|]. f_equal; lia. }
    destruct (Z.eqb_spec r 45) as [->|N3]; [|discriminate].
    destruct (lex_range_inv _ _ _ H) as [(b & HB & -> & ->)|(b & st & HB & HS & -> & ->)].
    + exists (CRange ds b). cbn [cwf_item render_item abs_item]. rewrite HA, HB. auto.
    + exists (CRangeStep ds b st). cbn [cwf_item render_item abs_item]. rewrite HA, HB, HS. auto.
Qed.

Lemma lex_item_inv s it : lex_item s = Some it -> exists ci, cwf_item ci = true /\ render_item ci = s /\ abs_item ci = it.
Proof.
  rewrite lex_item_eq. destruct s as [|c tl]; [discriminate|]. cbn [lex_item2].
  destruct (Z.eqb_spec c 42) as [->|N1].
  - destruct tl as [|c2 ds].
    + intros H; inversion H; subst. exists CStar. auto.
    + destruct (Z.eqb_spec c2 47) as [->|N2]; [|discriminate]. intros H.
      destruct (lex_step_inv _ _ H) as (ds' & HD & -> & ->). exists (CStep ds'). auto.
  - destruct (Z.eqb_spec c 76) as [->|N2].
    + destruct tl; [|discriminate]. intros H; inversion H; subst. exists CLast. auto.
    + apply lex_num_inv.
Qed.

(* ---- strings.Split on one byte ----------------------------------------------------------------- *)

Lemma split_aux_cur sep s : forall cur, split_aux sep s cur =
  match split_aux sep s [] with [] => [] | x :: tl => (rev cur ++ x) :: tl end.
Proof.
  induction s as [|c tl IH]; intros cur.
  - cbn [split_aux rev app]. rewrite app_nil_r. reflexivity.
  - cbn [split_aux]. destruct (c =? sep).
    + cbn [rev app]. rewrite app_nil_r. reflexivity.
    + rewrite (IH (c :: cur)), (IH [c]). destruct (split_aux sep tl []) as [|x r]; [reflexivity|].
      cbn [rev app]. rewrite <- app_assoc. reflexivity.
Qed.

Lemma split_aux_nonempty sep s cur : split_aux sep s cur <> [].
Proof. revert cur. induction s as [|c tl IH]; intros cur; cbn [split_aux]; [discriminate|]. destruct (c =? sep); [discriminate|apply IH]. Qed.

(* Split(x ++ sep ++ rest) = x :: Split(rest) when sep does not occur in x *)
Lemma split_on_app sep x rest : forallb (fun c => negb (c =? sep)) x = true ->
  split_on sep (x ++ sep :: rest) = x :: split_on sep rest.
Proof.
  unfold split_on. induction x as [|c tl IH]; intros H.
  - cbn [app split_aux]. rewrite Z.eqb_refl. reflexivity.
  - cbn [forallb] in H. apply andb_true_iff in H as [H1 H2]. apply negb_true_iff in H1.
    cbn [app split_aux]. rewrite H1. rewrite split_aux_cur. rewrite (IH H2). reflexivity.
Qed.

Lemma split_on_last sep x : forallb (fun c => negb (c =? sep)) x = true -> split_on sep x = [x].
Proof.
  unfold split_on. induction x as [|c tl IH]; intros H; [reflexivity|].
  cbn [forallb] in H. apply andb_true_iff in H as [H1 H2]. apply negb_true_iff in H1.
  cbn [split_aux]. rewrite H1. rewrite split_aux_cur. rewrite (IH H2). reflexivity.
Qed.

Lemma split_join sep l : l <> [] -> Forall (fun x => forallb (fun c => negb (c =? sep)) x = true) l ->
  split_on sep (join sep l) = l.
Proof.
  induction l as [|x tl IH]; intros Hn HF; [contradiction|].
  inversion HF as [|? ? HX HT]; subst. destruct tl as [|y tl'].
  - cbn [join]. apply split_on_last; exact HX.
  - change (join sep (x :: y :: tl')) with (x ++ sep :: join sep (y :: tl')).
    rewrite split_on_app by exact HX. rewrite IH by (try discriminate; exact HT). reflexivity.
Qed.

Lemma join_cons sep x l : l <> [] -> join sep (x :: l) = x ++ sep :: join sep l.
Proof. destruct l; [contradiction|reflexivity]. Qed.

Lemma join_split sep s : join sep (split_on sep s) = s.
Proof.
  unfold split_on. induction s as [|c tl IH]; [reflexivity|].
  cbn [split_aux]. destruct (Z.eqb_spec c sep) as [->|N].
  - rewrite join_cons by apply split_aux_nonempty. cbn [rev app]. rewrite IH. reflexivity.
  - rewrite split_aux_cur. pose proof (split_aux_nonempty sep tl []) as HN.
    destruct (split_aux sep tl []) as [|x r]; [contradiction|]. cbn [rev app].
    destruct r as [|y r'].
    + cbn [join] in *. rewrite IH. reflexivity.
    + change (join sep (x :: y :: r')) with (x ++ sep :: join sep (y :: r')) in IH.
      change (join sep ((c :: x) :: y :: r')) with ((c :: x) ++ sep :: join sep (y :: r')).
      rewrite <- IH. reflexivity.
Qed.

(* ---- strings.Fields ------------------------------------------------------------------------------ *)

Definition no_space (s : str) : bool := forallb (fun c => negb (is_space c)) s.

(* tokens are non-empty and free of white space; the white space after a token is non-empty
   except after the last one *)
Fixpoint toks_ok (l : list (str * str)) : bool :=
  match l with
  | [] => true
  | p :: tl => negb (is_nil (fst p)) && no_space (fst p) && all_space (snd p) &&
               (is_nil tl || negb (is_nil (snd p))) && toks_ok tl
  end.

Lemma fields_aux_space w : forall rest, all_space w = true -> fields_aux (w ++ rest) [] = fields_aux rest [].
Proof.
  induction w as [|c tl IH]; intros rest H; [reflexivity|].
  cbn [all_space forallb] in H. apply andb_true_iff in H as [H1 H2].
  cbn [app fields_aux]. rewrite H1. cbn [push_field]. apply IH; exact H2.
Qed.

Lemma fields_aux_tok t : forall rest cur, no_space t = true -> fields_aux (t ++ rest) cur = fields_aux rest (rev t ++ cur).
Proof.
  induction t as [|c tl IH]; intros rest cur H; [reflexivity|].
  cbn [no_space forallb] in H. apply andb_true_iff in H as [H1 H2]. apply negb_true_iff in H1.
  cbn [app fields_aux]. rewrite H1. rewrite (IH rest (c :: cur) H2). cbn [rev]. rewrite <- app_assoc. reflexivity.
Qed.

Lemma push_field_rev t acc : t <> [] -> push_field (rev t ++ []) acc = t :: acc.
Proof.
  intros H. rewrite app_nil_r. unfold push_field. rewrite rev_involutive.
  destruct (rev t) eqn:E; [|reflexivity]. apply (f_equal (@rev Z)) in E. rewrite rev_involutive in E. contradiction.
Qed.

Lemma fields_rcat l : toks_ok l = true -> fields_aux (rcat l) [] = map fst l.
Proof.
  induction l as [|[t w] tl IH]; intros H; [reflexivity|].
  cbn [toks_ok fst snd] in H. apply andb_true_iff in H as [H H5]. apply andb_true_iff in H as [H H4].
  apply andb_true_iff in H as [H H3]. apply andb_true_iff in H as [H1 H2].
  assert (HT : t <> []) by (destruct t; [discriminate|discriminate]).
  cbn [rcat fst snd map]. rewrite fields_aux_tok by exact H2.
  destruct w as [|c w'].
  - cbn [is_nil negb] in H4. rewrite orb_false_r in H4. destruct tl; [|discriminate].
    cbn [rcat app fields_aux map]. apply push_field_rev; exact HT.
  - cbn [all_space forallb] in H3. apply andb_true_iff in H3 as [H31 H32].
    cbn [app fields_aux]. rewrite H31. rewrite fields_aux_space by exact H32. rewrite (IH H5).
    apply push_field_rev; exact HT.
Qed.

Lemma fields_lead_rcat lead l : all_space lead = true -> toks_ok l = true -> fields (lead ++ rcat l) = map fst l.
Proof. intros HL HO. unfold fields. rewrite fields_aux_space by exact HL. apply fields_rcat; exact HO. Qed.

Lemma no_space_rev t : no_space t = true -> no_space (rev t) = true.
Proof.
  unfold no_space. rewrite !forallb_forall. intros H x Hx. apply H. apply in_rev. exact Hx.
Qed.

Lemma rev_nonnil {A} (t : list A) : t <> [] -> is_nil (rev t) = false.
Proof.
  intros H. destruct (rev t) eqn:E; [|reflexivity]. apply (f_equal (@rev A)) in E. rewrite rev_involutive in E. contradiction.
Qed.

(* every string is white space followed by tokens each followed by white space *)
Lemma fields_decompose s :
  (forall cur, cur <> [] -> no_space cur = true ->
     exists l, toks_ok l = true /\ rev cur ++ s = rcat l /\ fields_aux s cur = map fst l) /\
  (exists lead l, all_space lead = true /\ toks_ok l = true /\ s = lead ++ rcat l /\ fields_aux s [] = map fst l).
Proof.
  induction s as [|c tl [IH1 IH2]].
  - split.
    + intros cur HN HS. exists [(rev cur, [])].
      cbn [toks_ok fst snd rcat map fields_aux is_nil orb all_space forallb].
      rewrite (rev_nonnil cur HN), (no_space_rev cur HS). split; [reflexivity|]. split; [cbn [app]; reflexivity|].
      unfold push_field. destruct cur; [contradiction|reflexivity].
    + exists [], []. repeat split; reflexivity.
  - destruct (is_space c) eqn:E.
    + destruct IH2 as (lead & l & HL & HO & -> & HF). split.
      * intros cur HN HS. exists ((rev cur, c :: lead) :: l).
        cbn [toks_ok fst snd rcat map fields_aux is_nil all_space forallb negb].
        rewrite E, HF, (rev_nonnil cur HN), (no_space_rev cur HS). unfold all_space in HL. rewrite HL, HO, orb_true_r.
        split; [reflexivity|]. split; [reflexivity|].
        unfold push_field. destruct cur; [contradiction|reflexivity].
      * exists (c :: lead), l. cbn [all_space forallb fields_aux app]. rewrite E. unfold all_space in HL. rewrite HL.
        repeat split; try assumption. 
    + assert (HC : forall cur, no_space cur = true -> no_space (c :: cur) = true).
      { intros cur H. unfold no_space in *. cbn [forallb]. rewrite E, H. reflexivity. }
      split.
      * intros cur HN HS. destruct (IH1 (c :: cur) ltac:(discriminate) (HC cur HS)) as (l & HO & HE & HF).
        exists l. cbn [fields_aux]. rewrite E. cbn [rev] in HE. rewrite <- app_assoc in HE. auto.
      * destruct (IH1 [c] ltac:(discriminate) (HC [] eq_refl)) as (l & HO & HE & HF).
        exists [], l. cbn [fields_aux]. rewrite E. cbn [rev app] in HE. auto.
Qed.

Lemma fields_inv s : exists lead l, all_space lead = true /\ toks_ok l = true /\ s = lead ++ rcat l /\ fields s = map fst l.
Proof. exact (proj2 (fields_decompose s)). Qed.

(* ---- fields of options --------------------------------------------------------------------------- *)

Definition tokchar (c : Z) : bool := negb (is_space c) && negb (c =? 44).

Lemma digits_tokchar s : forallb is_digit s = true -> forallb tokchar s = true.
Proof.
  rewrite !forallb_forall. intros H x Hx. specialize (H x Hx). unfold is_digit in H. unfold tokchar, is_space. lia.
Qed.

Lemma all_digits_tokchar s : all_digits s = true -> s <> [] /\ forallb tokchar s = true.
Proof.
  intros H. destruct (all_digits_inv s H) as (c & tl & -> & _ & HD). split; [discriminate|apply digits_tokchar; exact HD].
Qed.

Lemma render_item_chars ci : cwf_item ci = true -> render_item ci <> [] /\ forallb tokchar (render_item ci) = true.
Proof.
  intros H. destruct ci; cbn [cwf_item render_item] in *.
  - split; [discriminate|reflexivity].
  - destruct (all_digits_tokchar s H) as [_ HS]. split; [discriminate|]. cbn [forallb]. rewrite HS. reflexivity.
  - apply andb_true_iff in H as [HA HB]. destruct (all_digits_tokchar a HA) as [NA TA]. destruct (all_digits_tokchar b HB) as [_ TB].
    split; [destruct a; [contradiction|discriminate]|]. rewrite forallb_app. cbn [forallb]. rewrite TA, TB. reflexivity.
  - apply andb_true_iff in H as [H HS]. apply andb_true_iff in H as [HA HB].
    destruct (all_digits_tokchar a HA) as [NA TA]. destruct (all_digits_tokchar b HB) as [_ TB]. destruct (all_digits_tokchar s HS) as [_ TS].
    split; [destruct a; [contradiction|discriminate]|]. rewrite forallb_app. cbn [forallb]. rewrite forallb_app. cbn [forallb].
    rewrite TA, TB, TS. reflexivity.
  - apply all_digits_tokchar; exact H.
  - split; [discriminate|reflexivity].
  - split; [discriminate|]. cbn [forallb]. unfold tokchar, is_space. lia.
  - split; [discriminate|]. cbn [forallb]. unfold tokchar, is_space. lia.
Qed.

Lemma tokchar_no44 s : forallb tokchar s = true -> forallb (fun c => negb (c =? 44)) s = true.
Proof. rewrite !forallb_forall. intros H x Hx. specialize (H x Hx). unfold tokchar in H. lia. Qed.

Lemma tokchar_no_space s : forallb tokchar s = true -> no_space s = true.
Proof. unfold no_space. rewrite !forallb_forall. intros H x Hx. specialize (H x Hx). unfold tokchar in H. destruct (is_space x); [discriminate|reflexivity]. Qed.

Lemma cwf_field_inv f : cwf_field f = true -> f <> [] /\ forallb cwf_item f = true.
Proof. unfold cwf_field. intros H. apply andb_true_iff in H as [H1 H2]. split; [destruct f; [discriminate|discriminate]|exact H2]. Qed.

Lemma split_render_field f : cwf_field f = true -> split_on 44 (render_field f) = map render_item f.
Proof.
  intros H. destruct (cwf_field_inv f H) as [HN HF]. unfold render_field. apply split_join.
  - destruct f; [contradiction|discriminate].
  - rewrite Forall_forall. intros x Hx. apply in_map_iff in Hx as (ci & <- & Hci).
    rewrite forallb_forall in HF. apply tokchar_no44. apply render_item_chars. apply HF; exact Hci.
Qed.

Lemma join_tokchar l : l <> [] -> Forall (fun x => x <> [] /\ forallb tokchar x = true) l ->
  join 44 l <> [] /\ no_space (join 44 l) = true.
Proof.
  induction l as [|x tl IH]; intros HN HF; [contradiction|].
  inversion HF as [|? ? [HX1 HX2] HT]; subst. destruct tl as [|y tl'].
  - cbn [join]. split; [exact HX1|apply tokchar_no_space; exact HX2].
  - change (join 44 (x :: y :: tl')) with (x ++ 44 :: join 44 (y :: tl')).
    destruct (IH ltac:(discriminate) HT) as [_ HS]. split; [destruct x; [contradiction|discriminate]|].
    unfold no_space in *. rewrite forallb_app. cbn [forallb]. rewrite HS. fold (no_space x). rewrite (tokchar_no_space x HX2). reflexivity.
Qed.

Lemma render_field_tok f : cwf_field f = true -> is_nil (render_field f) = false /\ no_space (render_field f) = true.
Proof.
  intros H. destruct (cwf_field_inv f H) as [HN HF].
  destruct (join_tokchar (map render_item f)) as [H1 H2].
  - destruct f; [contradiction|discriminate].
  - rewrite Forall_forall. intros x Hx. apply in_map_iff in Hx as (ci & <- & Hci).
    rewrite forallb_forall in HF. apply render_item_chars. apply HF; exact Hci.
  - unfold render_field. split; [destruct (join 44 (map render_item f)); [contradiction|reflexivity]|exact H2].
Qed.

Lemma lex_options_render k f : forallb cwf_item f = true ->
  lex_options k (map render_item f) = if forallb (allowed k) (map abs_item f) then Some (map abs_item f) else None.
Proof.
  induction f as [|ci tl IH]; intros H; [reflexivity|].
  cbn [forallb] in H. apply andb_true_iff in H as [H1 H2].
  cbn [map lex_options forallb]. unfold lex_option. rewrite (lex_item_render ci H1), (IH H2).
  destruct (allowed k (abs_item ci)); [|reflexivity]. cbn [andb].
  destruct (forallb (allowed k) (map abs_item tl)); reflexivity.
Qed.

Lemma lex_options_inv k l : forall items, lex_options k l = Some items ->
  exists f, forallb cwf_item f = true /\ map render_item f = l /\ map abs_item f = items /\ forallb (allowed k) items = true.
Proof.
  induction l as [|s tl IH]; intros items H.
  - inversion H; subst. exists []. auto.
  - cbn [lex_options] in H. unfold lex_option in H.
    destruct (lex_item s) as [it|] eqn:E; [|discriminate].
    destruct (allowed k it) eqn:A; [|discriminate].
    destruct (lex_options k tl) as [r|]; [|discriminate]. inversion H; subst.
    destruct (IH r eq_refl) as (f & HF & HR & HA & HAl).
    destruct (lex_item_inv s it E) as (ci & HC & HRi & HAi).
    exists (ci :: f). cbn [forallb map]. rewrite HC, HF, HR, HA, HRi, HAi, A, HAl. auto.
Qed.

Lemma field_inv k t items : lex_options k (split_on 44 t) = Some items ->
  exists f, cwf_field f = true /\ render_field f = t /\ map abs_item f = items /\ forallb (allowed k) items = true.
Proof.
  intros H. destruct (lex_options_inv k _ _ H) as (f & HF & HR & HA & HAl).
  exists f. unfold cwf_field, render_field. rewrite HF, HR, join_split.
  assert (HN : is_nil f = false).
  { destruct f; [|reflexivity]. cbn [map] in HR. symmetry in HR. exfalso. exact (split_aux_nonempty 44 t [] HR). }
  rewrite HN. auto.
Qed.

(* ---- lexing of the whole string -------------------------------------------------------------------- *)

Definition allowed_spec (a : cronspec) : bool :=
  forallb (allowed KMin) (s_min a) && forallb (allowed KHour) (s_hour a) && forallb (allowed KDay) (s_day a) &&
  forallb (allowed KMonth) (s_month a) && forallb (allowed KWDay) (s_wday a).

Lemma is_sep_inv w : is_sep w = true -> is_nil w = false /\ all_space w = true.
Proof. unfold is_sep. intros H. apply andb_true_iff in H as [H1 H2]. apply negb_true_iff in H1. auto. Qed.

Lemma fields_render c : cwf c = true ->
  fields (render c) = [render_field (cs_f0 c); render_field (cs_f1 c); render_field (cs_f2 c); render_field (cs_f3 c); render_field (cs_f4 c)].
Proof.
  unfold cwf. intros H.
  repeat match type of H with (_ && _) = true => let H' := fresh "W" in apply andb_true_iff in H as [H H'] end.
  unfold render. rewrite fields_lead_rcat; [reflexivity|exact H|].
  destruct (render_field_tok _ W3) as [A0 B0]. destruct (render_field_tok _ W2) as [A1 B1].
  destruct (render_field_tok _ W1) as [A2 B2]. destruct (render_field_tok _ W0) as [A3 B3].
  destruct (render_field_tok _ W) as [A4 B4].
  destruct (is_sep_inv _ W8) as [N0 S0]. destruct (is_sep_inv _ W7) as [N1 S1].
  destruct (is_sep_inv _ W6) as [N2 S2]. destruct (is_sep_inv _ W5) as [N3 S3].
  cbn [toks_ok fst snd is_nil]. rewrite A0, A1, A2, A3, A4, B0, B1, B2, B3, B4, N0, N1, N2, N3, S0, S1, S2, S3, W4. reflexivity.
Qed.

Lemma lex_spec_render c s : cwf c = true -> denotes s c ->
  lex_spec s = if allowed_spec (abstract c) then Some (abstract c) else None.
Proof.
  intros H HD. unfold denotes in HD. unfold lex_spec. rewrite <- HD, (fields_render c H).
  unfold cwf in H.
  repeat match type of H with (_ && _) = true => let H' := fresh "W" in apply andb_true_iff in H as [H H'] end.
  rewrite !split_render_field by assumption.
  rewrite !lex_options_render by (apply cwf_field_inv; assumption).
  unfold allowed_spec, abstract. cbn [s_min s_hour s_day s_month s_wday].
  destruct (forallb (allowed KMin) (map abs_item (cs_f0 c))); [|reflexivity].
  destruct (forallb (allowed KHour) (map abs_item (cs_f1 c))); [|reflexivity].
  destruct (forallb (allowed KDay) (map abs_item (cs_f2 c))); [|reflexivity].
  destruct (forallb (allowed KMonth) (map abs_item (cs_f3 c))); [|reflexivity].
  destruct (forallb (allowed KWDay) (map abs_item (cs_f4 c))); reflexivity.
Qed.

Lemma toks5 (l : list (str * str)) f0 f1 f2 f3 f4 : map fst l = [f0; f1; f2; f3; f4] ->
  exists w0 w1 w2 w3 w4, l = [(f0, w0); (f1, w1); (f2, w2); (f3, w3); (f4, w4)].
Proof.
  destruct l as [|[a0 w0] [|[a1 w1] [|[a2 w2] [|[a3 w3] [|[a4 w4] [|]]]]]]; cbn [map fst]; intros H; try discriminate.
  inversion H; subst. exists w0, w1, w2, w3, w4. reflexivity.
Qed.

Lemma lex_spec_inv s a : lex_spec s = Some a ->
  exists c, cwf c = true /\ denotes s c /\ abstract c = a /\ allowed_spec a = true.
Proof.
  unfold lex_spec. intros H.
  destruct (fields_inv (alias s)) as (lead & l & HL & HO & HS & HF). rewrite HF in H.
  destruct (map fst l) as [|f0 [|f1 [|f2 [|f3 [|f4 [|]]]]]] eqn:EM; try discriminate.
  destruct (toks5 l _ _ _ _ _ EM) as (w0 & w1 & w2 & w3 & w4 & ->).
  destruct (lex_options KMin (split_on 44 f0)) as [i0|] eqn:E0; [|discriminate].
  destruct (lex_options KHour (split_on 44 f1)) as [i1|] eqn:E1; [|discriminate].
  destruct (lex_options KDay (split_on 44 f2)) as [i2|] eqn:E2; [|discriminate].
  destruct (lex_options KMonth (split_on 44 f3)) as [i3|] eqn:E3; [|discriminate].
  destruct (lex_options KWDay (split_on 44 f4)) as [i4|] eqn:E4; [|discriminate].
  inversion H; subst a.
  destruct (field_inv _ _ _ E0) as (c0 & C0 & R0 & A0 & L0). destruct (field_inv _ _ _ E1) as (c1 & C1 & R1 & A1 & L1).
  destruct (field_inv _ _ _ E2) as (c2 & C2 & R2 & A2 & L2). destruct (field_inv _ _ _ E3) as (c3 & C3 & R3 & A3 & L3).
  destruct (field_inv _ _ _ E4) as (c4 & C4 & R4 & A4 & L4).
  exists (mk_cspec lead c0 w0 c1 w1 c2 w2 c3 w3 c4 w4).
  cbn [toks_ok fst snd is_nil orb] in HO.
  repeat match goal with H : (_ && _) = true |- _ => apply andb_true_iff in H as [? ?] end.
  repeat match goal with H : true = true |- _ => clear H end.
  split; [|split; [|split]].
  - unfold cwf, is_sep. cbn [cs_lead cs_f0 cs_w0 cs_f1 cs_w1 cs_f2 cs_w2 cs_f3 cs_w3 cs_f4 cs_trail].
    rewrite HL, C0, C1, C2, C3, C4.
    repeat match goal with H : ?x = true |- context [?x] => rewrite H end. reflexivity.
  - unfold denotes, render. cbn [cs_lead cs_f0 cs_w0 cs_f1 cs_w1 cs_f2 cs_w2 cs_f3 cs_w3 cs_f4 cs_trail].
    rewrite R0, R1, R2, R3, R4. symmetry. exact HS.
  - unfold abstract. cbn [cs_f0 cs_f1 cs_f2 cs_f3 cs_f4]. rewrite A0, A1, A2, A3, A4. reflexivity.
  - unfold allowed_spec. cbn [s_min s_hour s_day s_month s_wday]. rewrite L0, L1, L2, L3, L4. reflexivity.
Qed.

(* ---- compilation succeeds exactly on the trees of the dialect ---------------------------------- *)

(* what the recogniser guarantees beyond [allowed]: the n of d#n is one of the characters 1..5 *)
Definition nth_ok (it : item) : bool := match it with INth _ n => in_range n 1 5 | _ => true end.

Lemma abs_nth_ok ci : cwf_item ci = true -> nth_ok (abs_item ci) = true.
Proof. destruct ci; cbn [cwf_item abs_item nth_ok]; try reflexivity. unfold in_range. lia. Qed.

Lemma abs_nth_ok_all f : forallb cwf_item f = true -> forallb nth_ok (map abs_item f) = true.
Proof.
  induction f as [|ci tl IH]; [reflexivity|]. cbn [forallb map]. intros H. apply andb_true_iff in H as [H1 H2].
  rewrite (abs_nth_ok ci H1), (IH H2). reflexivity.
Qed.

Lemma compile_step k multi it tl bits sp l :
  compile_items k multi (it :: tl) bits sp = Some l -> is_star_item it = false ->
  allowed k it = true -> nth_ok it = true ->
  wf_item k it = true /\ exists bits' sp', compile_items k multi tl bits' sp' = Some l.
Proof.
  intros H HS HA HN. cbn [compile_items] in H. destruct it; cbn [is_star_item] in HS; try discriminate.
  - destruct (in_range s 1 (fmax k)) eqn:R; [|discriminate]. split; [|eauto].
    destruct k; cbn [allowed wf_item] in *; try discriminate; exact R.
  - destruct (in_range a (fmin k) (fmax k) && in_range b (fmin k) (fmax k) && (a <=? b)) eqn:R; [|discriminate].
    split; [exact R|eauto].
  - destruct (in_range a (fmin k) (fmax k) && in_range b (fmin k) (fmax k) && in_range s 1 (fmax k) && (a <=? b)) eqn:R; [|discriminate].
    split; [|eauto]. destruct k; cbn [allowed wf_item] in *; try discriminate;
      destruct (in_range a _ _), (in_range b _ _), (in_range s _ _), (a <=? b); try discriminate; reflexivity.
  - destruct (in_range n (fmin k) (fmax k)) eqn:R; [|discriminate]. split; [exact R|eauto].
  - destruct k; try discriminate. split; [reflexivity|eauto].
  - destruct (in_range d 1 7) eqn:R; [|discriminate]. destruct k; try discriminate. split; [exact R|eauto].
  - destruct (in_range d (fmin k) (fmax k) && in_range n (fmin k) (fmax k)) eqn:R; [|discriminate].
    destruct k; cbn [allowed] in HA; try discriminate. split; [|eauto].
    cbn [wf_item nth_ok fmin fmax] in *. apply andb_true_iff in R as [R1 _]. rewrite R1, HN. reflexivity.
Qed.

Lemma compile_items_wf k : forall items bits sp l, compile_items k true items bits sp = Some l ->
  forallb (allowed k) items = true -> forallb nth_ok items = true ->
  forallb (wf_item k) items = true /\ existsb is_star_item items = false.
Proof.
  induction items as [|it tl IH]; intros bits sp l H HA HN; [split; reflexivity|].
  cbn [forallb] in HA, HN. apply andb_true_iff in HA as [HA1 HA2]. apply andb_true_iff in HN as [HN1 HN2].
  destruct (is_star_item it) eqn:ES.
  - destruct it; try discriminate; cbn [compile_items] in H; discriminate.
  - destruct (compile_step _ _ _ _ _ _ _ H ES HA1 HN1) as [HW (bits' & sp' & H')].
    destruct (IH _ _ _ H' HA2 HN2) as [HW2 HS2]. cbn [forallb existsb]. rewrite HW, HW2, ES, HS2. split; reflexivity.
Qed.

Lemma compile_field_wf k f l : compile_field k f = Some l ->
  forallb (allowed k) f = true -> forallb nth_ok f = true -> wf_field k f = true.
Proof.
  unfold compile_field, wf_field. intros H HA HN.
  destruct f as [|it [|it2 tl]].
  - cbn in H. discriminate.
  - change (1 <? Z.of_nat (length [it])) with false in H.
    destruct (is_star_item it) eqn:ES.
    + destruct it; try discriminate. reflexivity.
    + cbn [forallb] in HA, HN. rewrite andb_true_r in HA, HN.
      destruct (compile_step _ _ _ _ _ _ _ H ES HA HN) as [HW _].
      cbn [is_nil negb forallb existsb andb]. rewrite HW, ES. cbn [negb orb andb]. destruct (is_wild [it]); reflexivity.
  - replace (1 <? Z.of_nat (length (it :: it2 :: tl))) with true in H by (cbn [length]; lia).
    destruct (compile_items_wf _ _ _ _ _ H HA HN) as [HW HS]. rewrite HW, HS. cbn [is_nil negb andb].
    rewrite orb_true_r. reflexivity.
Qed.

Lemma compile_spec_wf a m : compile_spec a = Some m -> allowed_spec a = true ->
  forallb nth_ok (s_min a) = true -> forallb nth_ok (s_hour a) = true -> forallb nth_ok (s_day a) = true ->
  forallb nth_ok (s_month a) = true -> forallb nth_ok (s_wday a) = true -> wf_spec a = true.
Proof.
  unfold compile_spec, allowed_spec, wf_spec. intros H HA N0 N1 N2 N3 N4.
  repeat match type of HA with (_ && _) = true => let H' := fresh "A" in apply andb_true_iff in HA as [HA H'] end.
  destruct (compile_field KMin (s_min a)) eqn:C0; [|discriminate].
  destruct (compile_field KHour (s_hour a)) eqn:C1; [|discriminate].
  destruct (compile_field KMonth (s_month a)) eqn:C3; [|discriminate].
  destruct (compile_field KDay (s_day a)) eqn:C2; [|discriminate].
  destruct (compile_field KWDay (s_wday a)) eqn:C4; [|discriminate].
  rewrite (compile_field_wf _ _ _ C0), (compile_field_wf _ _ _ C1), (compile_field_wf _ _ _ C2),
          (compile_field_wf _ _ _ C3), (compile_field_wf _ _ _ C4) by assumption. reflexivity.
Qed.

(* totality on the dialect *)
Definition has_bit (bits : Z) : Prop := exists v, 0 <= v /\ Z.testbit bits v = true.

Lemma has_bit_nonzero bits : has_bit bits -> (bits =? 0) = false.
Proof. intros (v & Hv & HT). destruct (Z.eqb_spec bits 0) as [->|]; [|reflexivity]. rewrite Z.testbit_0_l in HT. discriminate. Qed.

Lemma in_prog_first x hi step : x <= hi -> 1 <= step -> in_prog x hi step x = true.
Proof. intros H1 H2. unfold in_prog. rewrite Z.sub_diag, Z.mod_0_l by lia. lia. Qed.

Lemma range_has_bit lo hi step acc : 0 <= lo -> lo <= hi -> 1 <= step -> has_bit (range_bits lo hi step acc).
Proof.
  intros H0 H1 H2. exists lo. split; [exact H0|]. rewrite range_bits_spec by lia. rewrite in_prog_first by lia. apply orb_true_r.
Qed.

Lemma compile_items_total k : forall items multi bits sp,
  forallb (wf_item k) items = true -> existsb is_star_item items = false ->
  (items <> [] \/ has_bit bits \/ sp <> []) -> exists l, compile_items k multi items bits sp = Some l.
Proof.
  pose proof (fmin_nonneg k) as Hlo.
  assert (Hmm : fmin k <= fmax k) by (destruct k; cbn; lia).
  induction items as [|it tl IH]; intros multi bits sp HW HS HX.
  - cbn [compile_items]. unfold finish_field. destruct HX as [HX|[HX|HX]]; [contradiction| |].
    + rewrite (has_bit_nonzero _ HX). eauto.
    + destruct (bits =? 0); [|eauto]. destruct sp; [contradiction|eauto].
  - cbn [forallb existsb] in HW, HS. apply andb_true_iff in HW as [HW1 HW2]. apply orb_false_iff in HS as [HS1 HS2].
    cbn [compile_items]. destruct it; cbn [is_star_item] in HS1; try discriminate; cbn [wf_item] in HW1.
    + assert (R : in_range s 1 (fmax k) = true) by (destruct k; try discriminate; exact HW1). rewrite R.
      unfold in_range in R. apply IH; try assumption. right; left. apply range_has_bit; lia.
    + rewrite HW1. unfold in_range in HW1. apply IH; try assumption. right; left. apply range_has_bit; lia.
    + assert (R : in_range a (fmin k) (fmax k) && in_range b (fmin k) (fmax k) && in_range s 1 (fmax k) && (a <=? b) = true).
      { destruct k; try discriminate; destruct (in_range a _ _), (in_range b _ _), (in_range s _ _), (a <=? b); try discriminate; reflexivity. }
      rewrite R. unfold in_range in R. apply IH; try assumption. right; left. apply range_has_bit; lia.
    + rewrite HW1. unfold in_range in HW1. apply IH; try assumption. right; left.
      exists n. split; [lia|]. rewrite testbit_set by lia. rewrite Z.eqb_refl. apply orb_true_r.
    + destruct k; try discriminate. apply IH; try assumption. right; right. destruct sp; discriminate.
    + destruct k; try discriminate. rewrite HW1. apply IH; try assumption. right; right. destruct sp; discriminate.
    + destruct k; try discriminate. cbn [fmin fmax]. apply andb_true_iff in HW1 as [R1 R2].
      assert (R3 : in_range n 1 7 = true) by (unfold in_range in *; lia). rewrite R1, R3. cbn [andb].
      apply IH; try assumption. right; right. destruct sp; discriminate.
Qed.

Lemma compile_field_total k f : wf_field k f = true -> exists l, compile_field k f = Some l.
Proof.
  intros H. destruct (wf_field_cases k f H) as [->|(W & Hn & HS & HA)].
  - exists []. reflexivity.
  - unfold wf_field in H. apply andb_true_iff in H as [H _]. apply andb_true_iff in H as [_ HW].
    unfold compile_field. apply compile_items_total; auto.
Qed.

Theorem compile_spec_total a : wf_spec a = true -> exists m, compile_spec a = Some m.
Proof.
  unfold wf_spec, compile_spec. intros H.
  repeat match type of H with (_ && _) = true => let H' := fresh "W" in apply andb_true_iff in H as [H H'] end.
  destruct (compile_field_total _ _ H) as [m0 ->]. destruct (compile_field_total _ _ W2) as [m1 ->].
  destruct (compile_field_total _ _ W1) as [m2 ->]. destruct (compile_field_total _ _ W0) as [m3 ->].
  destruct (compile_field_total _ _ W) as [m4 ->]. eauto.
Qed.

Lemma wf_spec_allowed a : wf_spec a = true -> allowed_spec a = true.
Proof.
  unfold wf_spec, allowed_spec, wf_field. intros H.
  repeat match goal with H : (_ && _) = true |- _ => apply andb_true_iff in H as [? ?] end.
  rewrite !wf_items_allowed by assumption. reflexivity.
Qed.

(* ---- the theorems about the strings ---------------------------------------------------------------- *)

Lemma abstract_nth_ok c : cwf c = true ->
  forallb nth_ok (s_min (abstract c)) = true /\ forallb nth_ok (s_hour (abstract c)) = true /\
  forallb nth_ok (s_day (abstract c)) = true /\ forallb nth_ok (s_month (abstract c)) = true /\
  forallb nth_ok (s_wday (abstract c)) = true.
Proof.
  unfold cwf, cwf_field. intros H.
  repeat match goal with H : (_ && _) = true |- _ => apply andb_true_iff in H as [? ?] end.
  unfold abstract; cbn [s_min s_hour s_day s_month s_wday]. repeat split; apply abs_nth_ok_all; assumption.
Qed.

(* the answer of the parser on the rendering of any concrete tree *)
Theorem parse_render c s : cwf c = true -> denotes s c ->
  parse_spec s = if wf_spec (abstract c) then compile_spec (abstract c) else None.
Proof.
  intros HC HD. rewrite parse_spec_factor, (lex_spec_render c s HC HD).
  destruct (abstract_nth_ok c HC) as (N0 & N1 & N2 & N3 & N4).
  destruct (wf_spec (abstract c)) eqn:W.
  - rewrite (wf_spec_allowed _ W). reflexivity.
  - destruct (allowed_spec (abstract c)) eqn:A; [|reflexivity].
    destruct (compile_spec (abstract c)) as [m|] eqn:C; [|reflexivity].
    rewrite (compile_spec_wf _ _ C A N0 N1 N2 N3 N4) in W. discriminate.
Qed.

(* accepted strings are renderings of concrete trees whose abstract tree is in the dialect *)
Theorem parse_sound s m : parse_spec s = Some m ->
  exists c, cwf c = true /\ denotes s c /\ wf_spec (abstract c) = true /\ compile_spec (abstract c) = Some m.
Proof.
  rewrite parse_spec_factor. destruct (lex_spec s) as [a|] eqn:L; [|discriminate]. intros HC.
  destruct (lex_spec_inv s a L) as (c & HW & HD & <- & HA).
  destruct (abstract_nth_ok c HW) as (N0 & N1 & N2 & N3 & N4).
  exists c. repeat split; try assumption. exact (compile_spec_wf _ _ HC HA N0 N1 N2 N3 N4).
Qed.

Theorem parse_iff s m : parse_spec s = Some m <->
  exists c, cwf c = true /\ denotes s c /\ wf_spec (abstract c) = true /\ compile_spec (abstract c) = Some m.
Proof.
  split; [apply parse_sound|]. intros (c & HC & HD & HW & HM). rewrite (parse_render c s HC HD), HW. exact HM.
Qed.

(* the tree is determined by the string (and is the one the parser's lexing phase computes) *)
Theorem denotes_lex c s : cwf c = true -> denotes s c -> wf_spec (abstract c) = true -> lex_spec s = Some (abstract c).
Proof. intros HC HD HW. rewrite (lex_spec_render c s HC HD), (wf_spec_allowed _ HW). reflexivity. Qed.

Corollary denotes_unique c1 c2 s : cwf c1 = true -> cwf c2 = true -> denotes s c1 -> denotes s c2 ->
  wf_spec (abstract c1) = true -> wf_spec (abstract c2) = true -> abstract c1 = abstract c2.
Proof.
  intros H1 H2 D1 D2 W1 W2. pose proof (denotes_lex c1 s H1 D1 W1) as E1. rewrite (denotes_lex c2 s H2 D2 W2) in E1.
  congruence.
Qed.

(* rejection *)
Theorem parse_reject_tree c s : cwf c = true -> denotes s c -> wf_spec (abstract c) = false -> parse_spec s = None.
Proof. intros HC HD HW. rewrite (parse_render c s HC HD), HW. reflexivity. Qed.

Theorem parse_reject_string s : (forall c, cwf c = true -> denotes s c -> wf_spec (abstract c) = false) -> parse_spec s = None.
Proof.
  intros H. destruct (parse_spec s) as [m|] eqn:E; [|reflexivity].
  destruct (parse_sound s m E) as (c & HC & HD & HW & _). rewrite (H c HC HD) in HW. discriminate.
Qed.

Theorem parse_reject_fields s : length (fields (alias s)) <> 5%nat -> parse_spec s = None.
Proof.
  intros H. unfold parse_spec. destruct (fields (alias s)) as [|f0 [|f1 [|f2 [|f3 [|f4 [|]]]]]]; try reflexivity.
  exfalso. apply H. reflexivity.
Qed.

(* accept = in the grammar, with the semantics (C20_isrunat) attached *)
Theorem parse_accept_semantics s m : parse_spec s = Some m ->
  exists c, cwf c = true /\ denotes s c /\ wf_spec (abstract c) = true /\
            forall off secs, spec_run m (civil_of off secs) = matches (abstract c) (civil_of off secs).
Proof.
  intros H. destruct (parse_sound s m H) as (c & HC & HD & HW & HM). exists c. repeat split; try assumption.
  intros off secs. apply isrunat_matches; [apply civil_of_good|exact HW|exact HM].
Qed.

(* ---- aliases --------------------------------------------------------------------------------------- *)

Lemma str_eqb_eq a : forall b, str_eqb a b = true -> a = b.
Proof.
  induction a as [|x a IH]; intros [|y b] H; cbn [str_eqb] in H; try discriminate; [reflexivity|].
  apply andb_true_iff in H as [H1 H2]. apply Z.eqb_eq in H1. rewrite H1, (IH b H2). reflexivity.
Qed.

Lemma alias_five s : length (fields s) = 5%nat -> alias s = s.
Proof.
  intros H. unfold alias.
  destruct (str_eqb s s_hourly) eqn:E1; [apply str_eqb_eq in E1; subst; discriminate|].
  destruct (str_eqb s s_daily) eqn:E2; [apply str_eqb_eq in E2; subst; discriminate|].
  destruct (str_eqb s s_monthly) eqn:E3; [apply str_eqb_eq in E3; subst; discriminate|].
  destruct (str_eqb s s_weekly) eqn:E4; [apply str_eqb_eq in E4; subst; discriminate|]. reflexivity.
Qed.

Lemma denotes_render c : cwf c = true -> denotes (render c) c.
Proof. intros H. unfold denotes. symmetry. apply alias_five. rewrite (fields_render c H). reflexivity. Qed.

(* ---- the canonical printer --------------------------------------------------------------------- *)

Lemma dval_acc_app a b acc : dval_acc (a ++ b) acc = dval_acc b (dval_acc a acc).
Proof. revert acc. induction a as [|c a IH]; intros acc; [reflexivity|]. cbn [app dval_acc]. apply IH. Qed.

Lemma digits_fuel_spec fuel : forall n, 0 <= n <= Z.of_nat fuel ->
  forallb is_digit (digits_fuel fuel n) = true /\ digits_fuel fuel n <> [] /\ dval (digits_fuel fuel n) = n.
Proof.
  induction fuel as [|f IH]; intros n Hn.
  - assert (n = 0) by lia. subst. cbn. repeat split; discriminate.
  - cbn [digits_fuel]. destruct (Z.ltb_spec n 10) as [Hlt|Hge].
    + cbn [forallb]. unfold is_digit, dval. cbn [dval_acc]. repeat split; [lia|discriminate|lia].
    + destruct (IH (n / 10) ltac:(lia)) as (H1 & H2 & H3).
      rewrite forallb_app. cbn [forallb]. rewrite H1. unfold dval in *. rewrite dval_acc_app, H3. cbn [dval_acc].
      repeat split; [unfold is_digit; lia|destruct (digits_fuel f (n / 10)); [contradiction|discriminate]|lia].
Qed.

Lemma digits_spec n : 0 <= n -> all_digits (digits n) = true /\ dval (digits n) = n.
Proof.
  intros Hn. destruct (digits_fuel_spec (Z.to_nat n) n ltac:(lia)) as (H1 & H2 & H3).
  unfold all_digits, digits. rewrite H1. split; [destruct (digits_fuel (Z.to_nat n) n); [contradiction|reflexivity]|exact H3].
Qed.

Lemma conc_item_spec k it : wf_item k it = true -> cwf_item (conc_item it) = true /\ abs_item (conc_item it) = it.
Proof.
  pose proof (fmin_nonneg k) as Hlo. intros H.
  destruct it; cbn [wf_item conc_item cwf_item abs_item] in *.
  - auto.
  - assert (R : in_range s 1 (fmax k) = true) by (destruct k; try discriminate; exact H). unfold in_range in R.
    destruct (digits_spec s ltac:(lia)) as [-> ->]. auto.
  - unfold in_range in H. destruct (digits_spec a ltac:(lia)) as [-> ->]. destruct (digits_spec b ltac:(lia)) as [-> ->]. auto.
  - assert (R : in_range a (fmin k) (fmax k) && in_range b (fmin k) (fmax k) && (a <=? b) && in_range s 1 (fmax k) = true)
      by (destruct k; try discriminate; exact H). unfold in_range in R.
    destruct (digits_spec a ltac:(lia)) as [-> ->]. destruct (digits_spec b ltac:(lia)) as [-> ->].
    destruct (digits_spec s ltac:(lia)) as [-> ->]. auto.
  - unfold in_range in H. destruct (digits_spec n ltac:(lia)) as [-> ->]. auto.
  - auto.
  - destruct k; try discriminate. unfold in_range in H. split; [lia|f_equal; lia].
  - destruct k; try discriminate. unfold in_range in H. split; [lia|f_equal; lia].
Qed.

Lemma conc_field_spec k f : wf_field k f = true ->
  cwf_field (map conc_item f) = true /\ map abs_item (map conc_item f) = f.
Proof.
  unfold wf_field, cwf_field. intros H. apply andb_true_iff in H as [H _]. apply andb_true_iff in H as [HN HW].
  assert (HA : forallb cwf_item (map conc_item f) = true /\ map abs_item (map conc_item f) = f).
  { clear HN. induction f as [|it tl IH]; [auto|]. cbn [forallb] in HW. apply andb_true_iff in HW as [H1 H2].
    destruct (conc_item_spec k it H1) as [C1 C2]. destruct (IH H2) as [I1 I2].
    cbn [map forallb]. rewrite C1, C2, I1, I2. auto. }
  destruct HA as [HA1 HA2]. rewrite HA1, HA2. destruct f; [discriminate|]. auto.
Qed.

Lemma canon_spec a : wf_spec a = true -> cwf (canon a) = true /\ abstract (canon a) = a.
Proof.
  unfold wf_spec. intros H.
  repeat match type of H with (_ && _) = true => let H' := fresh "W" in apply andb_true_iff in H as [H H'] end.
  destruct (conc_field_spec _ _ H) as [A0 B0]. destruct (conc_field_spec _ _ W2) as [A1 B1].
  destruct (conc_field_spec _ _ W1) as [A2 B2]. destruct (conc_field_spec _ _ W0) as [A3 B3].
  destruct (conc_field_spec _ _ W) as [A4 B4].
  unfold cwf, abstract, canon. cbn [cs_lead cs_f0 cs_w0 cs_f1 cs_w1 cs_f2 cs_w2 cs_f3 cs_w3 cs_f4 cs_trail].
  rewrite A0, A1, A2, A3, A4, B0, B1, B2, B3, B4. split; [reflexivity|]. destruct a; reflexivity.
Qed.

(* completeness in the printer form: every tree of the dialect is printed to a string that the
   parser accepts, compiling that tree, and the compiled masks run exactly when the tree matches *)
Theorem parse_print a : wf_spec a = true ->
  exists m, parse_spec (print a) = Some m /\ compile_spec a = Some m /\ lex_spec (print a) = Some a /\
            forall off secs, spec_run m (civil_of off secs) = matches a (civil_of off secs).
Proof.
  intros HW. destruct (canon_spec a HW) as [HC HA]. destruct (compile_spec_total a HW) as [m HM].
  pose proof (denotes_render (canon a) HC) as HD. fold (print a) in HD.
  exists m. split; [|split; [exact HM|split]].
  - rewrite (parse_render (canon a) (print a) HC HD), HA, HW. exact HM.
  - rewrite <- HA at 2. apply denotes_lex; [exact HC|exact HD|rewrite HA; exact HW].
  - intros off secs. apply isrunat_matches; [apply civil_of_good|exact HW|exact HM].
Qed.

(* the four aliases denote fixed trees of the dialect *)
Definition alias_trees_b : bool :=
  str_eqb (alias s_hourly) (print tree_hourly) && str_eqb (alias s_daily) (print tree_daily) &&
  str_eqb (alias s_monthly) (print tree_monthly) && str_eqb (alias s_weekly) (print tree_weekly) &&
  wf_spec tree_hourly && wf_spec tree_daily && wf_spec tree_monthly && wf_spec tree_weekly.
Lemma alias_trees : alias_trees_b = true.
Proof. vm_compute. reflexivity. Qed.

Theorem parse_alias s a : In (s, a) [(s_hourly, tree_hourly); (s_daily, tree_daily); (s_monthly, tree_monthly); (s_weekly, tree_weekly)] ->
  wf_spec a = true /\ denotes s (canon a) /\ parse_spec s = compile_spec a.
Proof.
  pose proof alias_trees as HT. unfold alias_trees_b in HT.
  repeat match goal with H : (_ && _) = true |- _ => apply andb_true_iff in H as [? ?] end.
  intros HI. cbn [In] in HI.
  assert (HG : forall s a, wf_spec a = true -> str_eqb (alias s) (print a) = true ->
               wf_spec a = true /\ denotes s (canon a) /\ parse_spec s = compile_spec a).
  { intros s0 a0 HW HE. apply str_eqb_eq in HE. destruct (canon_spec a0 HW) as [HC HA].
    assert (HD : denotes s0 (canon a0)) by (unfold denotes; symmetry; exact HE).
    split; [exact HW|]. split; [exact HD|]. rewrite (parse_render _ _ HC HD), HA, HW. reflexivity. }
  destruct HI as [HI|[HI|[HI|[HI|[]]]]]; inversion HI; subst; apply HG; assumption.
Qed.

(* ---- the malformed classes, by name ------------------------------------------------------------- *)

Definition field_of (k : fkind) (a : cronspec) : list item :=
  match k with KMin => s_min a | KHour => s_hour a | KDay => s_day a | KMonth => s_month a | KWDay => s_wday a end.

Lemma wf_spec_field a k : wf_spec a = true -> wf_field k (field_of k a) = true.
Proof.
  unfold wf_spec. intros H.
  repeat match goal with H : (_ && _) = true |- _ => apply andb_true_iff in H as [? ?] end.
  destruct k; assumption.
Qed.

(* one option outside the dialect makes the parser reject the whole string *)
Theorem parse_reject_item c s k it : cwf c = true -> denotes s c ->
  In it (field_of k (abstract c)) -> wf_item k it = false -> parse_spec s = None.
Proof.
  intros HC HD HI HW. apply (parse_reject_tree c s HC HD).
  destruct (wf_spec (abstract c)) eqn:W; [|reflexivity].
  pose proof (wf_spec_field _ k W) as HF. unfold wf_field in HF.
  apply andb_true_iff in HF as [HF _]. apply andb_true_iff in HF as [_ HF].
  rewrite forallb_forall in HF. rewrite (HF it HI) in HW. discriminate.
Qed.

(* "*" together with other options *)
Theorem parse_reject_star c s k : cwf c = true -> denotes s c ->
  In IStar (field_of k (abstract c)) -> (1 < length (field_of k (abstract c)))%nat -> parse_spec s = None.
Proof.
  intros HC HD HI HL. apply (parse_reject_tree c s HC HD).
  destruct (wf_spec (abstract c)) eqn:W; [|reflexivity].
  pose proof (wf_spec_field _ k W) as HF. destruct (wf_field_cases _ _ HF) as [E|(_ & _ & HS & _)].
  - rewrite E in HL. cbn in HL. lia.
  - assert (existsb is_star_item (field_of k (abstract c)) = true) by (apply existsb_exists; exists IStar; auto).
    congruence.
Qed.

(* which options are outside the dialect *)
Theorem wf_item_classes k :
  (forall n, n < fmin k \/ fmax k < n -> wf_item k (INum n) = false) /\
  (forall a b, a < fmin k \/ fmax k < b \/ b < a -> wf_item k (IRange a b) = false) /\
  (forall a b s, a < fmin k \/ fmax k < b \/ b < a \/ s < 1 \/ fmax k < s -> wf_item k (IRangeStep a b s) = false) /\
  (forall s, s < 1 \/ fmax k < s -> wf_item k (IStep s) = false) /\
  (k <> KDay -> wf_item k ILast = false) /\
  (forall d, k <> KWDay \/ d < 1 \/ 7 < d -> wf_item k (ILastW d) = false) /\
  (forall d n, k <> KWDay \/ d < 1 \/ 7 < d \/ n < 1 \/ 5 < n -> wf_item k (INth d n) = false) /\
  (forall s, wf_item KWDay (IStep s) = false) /\
  (forall a b s, wf_item KMonth (IRangeStep a b s) = false) /\ (forall a b s, wf_item KWDay (IRangeStep a b s) = false).
Proof.
  repeat split; intros; destruct k; cbn [wf_item fmin fmax] in *; unfold in_range; try reflexivity; try lia;
    try (exfalso; congruence).
  all: try (destruct H as [H|H]; [congruence|lia]).
Qed.
