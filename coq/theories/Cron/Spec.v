(* Cron engine — reference semantics: what a crontab spec denotes, stated on the syntax tree of
   the spec and on calendar facts only (no masks, no bit operations, none of the parser's loops). *)
From Ergo Require Import Common.Base Cron.Model.
Local Open Scope Z_scope.

(* A spec (Model.cronspec) is five fields; a field is the list of its comma separated options. *)

(* ---- the grammar (which syntax trees are crontab specs of this dialect) -------------------- *)

(* Day of week is 1..7 with 7 = Sunday (0 is not accepted); steps are 1..max of the field;
   "a-b/s" exists for minute, hour, day; "*/s" for all but the weekday; "L" for the day;
   "dL" and "d#n" (n = 1..5) for the weekday. *)
Definition wf_item (k : fkind) (it : item) : bool :=
  match it with
  | IStar => true
  | INum n => in_range n (fmin k) (fmax k)
  | IRange a b => in_range a (fmin k) (fmax k) && in_range b (fmin k) (fmax k) && (a <=? b)
  | IStep s => match k with KWDay => false | _ => in_range s 1 (fmax k) end
  | IRangeStep a b s =>
      match k with
      | KMin | KHour | KDay => in_range a (fmin k) (fmax k) && in_range b (fmin k) (fmax k) && (a <=? b) && in_range s 1 (fmax k)
      | _ => false
      end
  | ILast => match k with KDay => true | _ => false end
  | ILastW d => match k with KWDay => in_range d 1 7 | _ => false end
  | INth d n => match k with KWDay => in_range d 1 7 && in_range n 1 5 | _ => false end
  end.

Definition is_star_item (it : item) : bool := match it with IStar => true | _ => false end.

(* a field is either the single option "*" or a non-empty list of options without "*" *)
Definition is_wild (f : list item) : bool := match f with [IStar] => true | _ => false end.
Definition wf_field (k : fkind) (f : list item) : bool :=
  negb (is_nil f) && forallb (wf_item k) f && (is_wild f || negb (existsb is_star_item f)).

Definition wf_spec (s : cronspec) : bool :=
  wf_field KMin (s_min s) && wf_field KHour (s_hour s) && wf_field KDay (s_day s) &&
  wf_field KMonth (s_month s) && wf_field KWDay (s_wday s).

(* ---- calendar --------------------------------------------------------------------------------- *)

Definition is_leap (y : Z) : bool := (y mod 4 =? 0) && (negb (y mod 100 =? 0) || (y mod 400 =? 0)).
Definition days_in_month (y m : Z) : Z :=
  if m =? 2 then (if is_leap y then 29 else 28)
  else if (m =? 4) || (m =? 6) || (m =? 9) || (m =? 11) then 30 else 31.

(* weekday (1 = Monday .. 7 = Sunday) of day k of month m of year y: 1970-01-01 was a Thursday *)
Definition weekday_of (y m k : Z) : Z :=
  let w := (days_from_civil y m k + 4) mod 7 in if w =? 0 then 7 else w.

Fixpoint zseq (n : nat) (from : Z) : list Z := match n with O => [] | S k => from :: zseq k (from + 1) end.
(* the days a..b *)
Definition days_between (a b : Z) : list Z := zseq (Z.to_nat (b + 1 - a)) a.
Definition count_true (f : Z -> bool) (l : list Z) : Z := Z.of_nat (length (filter f l)).

(* ---- which values an option denotes -------------------------------------------------------- *)

(* numeric options of a field whose values are lo..hi *)
Definition num_has (lo hi : Z) (it : item) (v : Z) : bool :=
  match it with
  | IStar => true
  | INum n => v =? n
  | IRange a b => (a <=? v) && (v <=? b)
  | IRangeStep a b s => (a <=? v) && (v <=? b) && ((v - a) mod s =? 0)
  | IStep s => (lo <=? v) && (v <=? hi) && ((v - lo) mod s =? 0)
  | _ => false
  end.

Definition field_has (k : fkind) (f : list item) (v : Z) : bool := existsb (fun it => num_has (fmin k) (fmax k) it v) f.

(* day-of-month options: numbers, or L = the last day of the month *)
Definition dom_has (it : item) (c : civil) : bool :=
  match it with
  | ILast => c_day c =? days_in_month (c_year c) (c_month c)
  | _ => num_has 1 31 it (c_day c)
  end.

(* day-of-week options: numbers; dL = the last weekday d of the month (no later day of the month
   falls on d); d#n = the n-th weekday d of the month (it is the n-th day of the month falling on d) *)
Definition dow_has (it : item) (c : civil) : bool :=
  match it with
  | ILastW d =>
      (wd7 c =? d) &&
      forallb (fun k => negb (weekday_of (c_year c) (c_month c) k =? d))
              (days_between (c_day c + 1) (days_in_month (c_year c) (c_month c)))
  | INth d n =>
      (wd7 c =? d) &&
      (count_true (fun k => weekday_of (c_year c) (c_month c) k =? d) (days_between 1 (c_day c)) =? n)
  | _ => num_has 1 7 it (wd7 c)
  end.

(* ---- the crontab rule ------------------------------------------------------------------------ *)

Definition matches (s : cronspec) (c : civil) : bool :=
  field_has KMin (s_min s) (c_min c) &&
  field_has KHour (s_hour s) (c_hour c) &&
  field_has KMonth (s_month s) (c_month c) &&
  (let dom := existsb (fun it => dom_has it c) (s_day s) in
   let dow := existsb (fun it => dow_has it c) (s_wday s) in
   if is_wild (s_day s) then (if is_wild (s_wday s) then true else dow)
   else if is_wild (s_wday s) then dom
   else dom || dow).

(* the minutes of a window that a spec denotes in a zone *)
Definition matches_at (s : cronspec) (z : zone) (t : Z) : bool := matches s (civil_of (z t) t).

(* ---- the scheduler, abstractly: the set of jobs with their enabled flag ---------------------- *)

Record ajob := mk_ajob { a_name : Z; a_spec : cronspec; a_zone : zone; a_enabled : bool }.

(* the jobs that must run at the tick of minute t: present, enabled and matching, once each *)
Definition due (jobs : list ajob) (t : Z) : list Z :=
  map a_name (filter (fun j => a_enabled j && matches_at (a_spec j) (a_zone j) t) jobs).
