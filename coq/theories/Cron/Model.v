(* Cron engine — model of /repo/node/cron_parse.go (parser, masks, IsRunAt), of the
   JobSchedule/Schedule loops and of the spooling decisions of /repo/node/cron.go.
   Definitions only (no proofs).  Strings are lists of byte codes (Z); specs are ASCII. *)
From Ergo Require Import Common.Base.
Local Open Scope Z_scope.

(* ------------------------------------------------------------------------------------------ *)
(* 1. strings                                                                                  *)

Definition str := list Z.

(* strings.Fields: split around runs of white space (ASCII: ' ', \t \n \v \f \r) *)
Definition is_space (c : Z) : bool := (c =? 32) || ((9 <=? c) && (c <=? 13)).

Definition push_field (cur : str) (acc : list str) : list str :=
  match cur with [] => acc | _ => rev cur :: acc end.

Fixpoint fields_aux (s : str) (cur : str) : list str :=
  match s with
  | [] => push_field cur []
  | c :: tl => if is_space c then push_field cur (fields_aux tl []) else fields_aux tl (c :: cur)
  end.
Definition fields (s : str) : list str := fields_aux s [].

(* strings.Split(f, sep) for a one-byte separator: always at least one element *)
Fixpoint split_aux (sep : Z) (s : str) (cur : str) : list str :=
  match s with
  | [] => [rev cur]
  | c :: tl => if c =? sep then rev cur :: split_aux sep tl [] else split_aux sep tl (c :: cur)
  end.
Definition split_on (sep : Z) (s : str) : list str := split_aux sep s [].

Definition is_digit (c : Z) : bool := (48 <=? c) && (c <=? 57).

(* maximal prefix of digits, value accumulated left to right (strconv.Atoi on \d+; an overflowing
   Atoi fails, and so does the range check of cronParseInt on the unbounded value: max <= 59) *)
Fixpoint span_digits (s : str) (acc : Z) (n : nat) : Z * nat * str :=
  match s with
  | c :: tl => if is_digit c then span_digits tl (acc * 10 + (c - 48)) (S n) else (acc, n, s)
  | [] => (acc, n, [])
  end.

Fixpoint str_eqb (a b : str) : bool :=
  match a, b with
  | [], [] => true
  | x :: a', y :: b' => (x =? y) && str_eqb a' b'
  | _, _ => false
  end.

(* ------------------------------------------------------------------------------------------ *)
(* 2. field options                                                                            *)

Inductive item :=
| IStar                        (* "*"      *)
| IStep (s : Z)                (* "*/s"    *)
| IRange (a b : Z)             (* "a-b"    *)
| IRangeStep (a b s : Z)       (* "a-b/s"  *)
| INum (n : Z)                 (* "n"      *)
| ILast                        (* "L"      *)
| ILastW (d : Z)               (* "dL"     *)
| INth (d n : Z).              (* "d#n"    *)

Inductive fkind := KMin | KHour | KDay | KMonth | KWDay.

(* cronFieldMin ... cronFieldWeekDay: min, max *)
Definition fmin (k : fkind) : Z := match k with KMin => 0 | KHour => 0 | KDay => 1 | KMonth => 1 | KWDay => 1 end.
Definition fmax (k : fkind) : Z := match k with KMin => 59 | KHour => 23 | KDay => 31 | KMonth => 12 | KWDay => 7 end.

(* The union of the alternatives of the five regular expressions, as a recogniser producing the
   shape of the option (FindStringSubmatch(fo) on an anchored expression without capture groups
   yields [fo] or nothing):
     \*  |  \*/\d+  |  \d+-\d+  |  \d+-\d+/\d+  |  \d+  |  L  |  [1-7]L  |  [1-7]#[1-5]        *)
Definition lex_item (s : str) : option item :=
  match s with
  | [42] => Some IStar
  | [76] => Some ILast
  | 42 :: 47 :: ds =>
      let '(v, n, rest) := span_digits ds 0 0%nat in
      match n, rest with
      | S _, [] => Some (IStep v)
      | _, _ => None
      end
  | _ =>
      let '(a, na, rest) := span_digits s 0 0%nat in
      match na, rest with
      | O, _ => None
      | S _, [] => Some (INum a)
      | S O, [76] => if (1 <=? a) && (a <=? 7) then Some (ILastW a) else None
      | S O, [35; c] => if (1 <=? a) && (a <=? 7) && (49 <=? c) && (c <=? 53) then Some (INth a (c - 48)) else None
      | S _, 45 :: r1 =>
          let '(b, nb, rest1) := span_digits r1 0 0%nat in
          match nb, rest1 with
          | O, _ => None
          | S _, [] => Some (IRange a b)
          | S _, 47 :: r2 =>
              let '(st, ns, rest2) := span_digits r2 0 0%nat in
              match ns, rest2 with
              | S _, [] => Some (IRangeStep a b st)
              | _, _ => None
              end
          | _, _ => None
          end
      | _, _ => None
      end
  end.

(* which alternatives the regular expression of each field has *)
Definition allowed (k : fkind) (it : item) : bool :=
  match k, it with
  | _, IStar => true
  | _, INum _ => true
  | _, IRange _ _ => true
  | KWDay, IStep _ => false
  | _, IStep _ => true
  | (KMin | KHour | KDay), IRangeStep _ _ _ => true
  | KDay, ILast => true
  | KWDay, ILastW _ => true
  | KWDay, INth _ _ => true
  | _, _ => false
  end.

Definition lex_option (k : fkind) (s : str) : option item :=
  match lex_item s with
  | Some it => if allowed k it then Some it else None
  | None => None
  end.

Fixpoint lex_options (k : fkind) (l : list str) : option (list item) :=
  match l with
  | [] => Some []
  | s :: tl =>
      match lex_option k s, lex_options k tl with
      | Some it, Some r => Some (it :: r)
      | _, _ => None
      end
  end.

(* ------------------------------------------------------------------------------------------ *)
(* 3. masks                                                                                    *)

(* cronMask is a uint64: type tag in bits 60..63, payload below.  The model keeps tag and
   payload apart; [encode] gives the uint64 (compared with the implementation's raw values). *)
Inductive mask :=
| MBits (k : fkind) (bits : Z)   (* cronMaskTypeMin/Hour/Day/Month/WeekDay | value bits *)
| MLastDM                        (* cronMaskTypeLastDM              'L'   *)
| MLastDW (d : Z)                (* cronMaskTypeLastDW | d          'dL'  *)
| MNDW (d n : Z).                (* cronMaskTypeNDW | d<<8 | n      'd#n' *)

Definition ktag (k : fkind) : Z := match k with KMin => 10 | KHour => 11 | KDay => 12 | KMonth => 13 | KWDay => 14 end.

Definition encode (m : mask) : Z :=
  match m with
  | MBits k b => Z.lor (Z.shiftl (ktag k) 60) b
  | MLastDM => Z.shiftl 1 60
  | MLastDW d => Z.lor (Z.shiftl 2 60) d
  | MNDW d n => Z.lor (Z.lor (Z.shiftl 3 60) (Z.shiftl d 8)) n
  end.

Record specmask := mk_specmask { sm_mhm : list mask; sm_day : list mask; sm_wday : list mask }.

(* cronParseInt(s, min, max) on an already converted number *)
Definition in_range (n lo hi : Z) : bool := (lo <=? n) && (n <=? hi).

(* for x := lo; x <= hi; x += step { result[0] |= 1 << x } *)
Fixpoint loop_bits (fuel : nat) (x hi step acc : Z) : Z :=
  match fuel with
  | O => acc
  | S f => if x <=? hi then loop_bits f (x + step) hi step (Z.lor acc (Z.shiftl 1 x)) else acc
  end.
Definition range_bits (lo hi step acc : Z) : Z := loop_bits (Z.to_nat (hi + 1 - lo)) lo hi step acc.

(* end of cronParseSpecField: drop result[0] when it carries no value bit *)
Definition finish_field (k : fkind) (bits : Z) (sp : list mask) : option (list mask) :=
  if bits =? 0 then (match sp with [] => None (* panic "empty mask only": unreachable *) | _ => Some sp end)
  else Some (MBits k bits :: sp).

(* the loop over the options of cronParseSpecField; [multi] = len(fieldOptions) > 1 *)
Fixpoint compile_items (k : fkind) (multi : bool) (items : list item) (bits : Z) (sp : list mask) : option (list mask) :=
  match items with
  | [] => finish_field k bits sp
  | it :: tl =>
      match it with
      | IStar => if multi then None else Some []
      | ILast => match k with KDay => compile_items k multi tl bits (sp ++ [MLastDM]) | _ => None end
      | IStep s =>
          if in_range s 1 (fmax k) then compile_items k multi tl (range_bits (fmin k) (fmax k) s bits) sp else None
      | IRange a b =>
          if in_range a (fmin k) (fmax k) && in_range b (fmin k) (fmax k) && (a <=? b)
          then compile_items k multi tl (range_bits a b 1 bits) sp else None
      | IRangeStep a b s =>
          if in_range a (fmin k) (fmax k) && in_range b (fmin k) (fmax k) && in_range s 1 (fmax k) && (a <=? b)
          then compile_items k multi tl (range_bits a b s bits) sp else None
      | INth d n =>
          if in_range d (fmin k) (fmax k) && in_range n (fmin k) (fmax k)
          then compile_items k multi tl bits (sp ++ [MNDW d n]) else None
      | ILastW d =>
          if in_range d 1 7
          then match k with KWDay => compile_items k multi tl bits (sp ++ [MLastDW d]) | _ => None end
          else None
      | INum n =>
          if in_range n (fmin k) (fmax k) then compile_items k multi tl (Z.lor bits (Z.shiftl 1 n)) sp else None
      end
  end.

Definition compile_field (k : fkind) (items : list item) : option (list mask) :=
  compile_items k (1 <? Z.of_nat (length items)) items 0 [].

(* cronParseSpecField(f, field) *)
Definition parse_field (k : fkind) (f : str) : option (list mask) :=
  match lex_options k (split_on 44 f) with
  | Some items => compile_field k items
  | None => None
  end.

(* the aliases of cronParseSpec *)
Definition s_hourly : str := [64;104;111;117;114;108;121].
Definition s_daily : str := [64;100;97;105;108;121].
Definition s_monthly : str := [64;109;111;110;116;104;108;121].
Definition s_weekly : str := [64;119;101;101;107;108;121].
Definition alias (s : str) : str :=
  if str_eqb s s_hourly then [49;32;42;32;42;32;42;32;42]                 (* "1 * * * *"   *)
  else if str_eqb s s_daily then [49;48;32;51;32;42;32;42;32;42]          (* "10 3 * * *"  *)
  else if str_eqb s s_monthly then [50;48;32;52;32;49;32;42;32;42]        (* "20 4 1 * *"  *)
  else if str_eqb s s_weekly then [51;48;32;53;32;42;32;42;32;49]         (* "30 5 * * 1"  *)
  else s.

(* cronParseSpec *)
Definition parse_spec (s : str) : option specmask :=
  match fields (alias s) with
  | [f0; f1; f2; f3; f4] =>
      match parse_field KMin f0, parse_field KHour f1, parse_field KMonth f3, parse_field KDay f2, parse_field KWDay f4 with
      | Some m0, Some m1, Some m3, Some m2, Some m4 => Some (mk_specmask (m0 ++ m1 ++ m3) m2 m4)
      | _, _, _, _, _ => None
      end
  | _ => None
  end.

(* The same parser factored through the syntax tree: lexing (regular expressions, Split, Atoi)
   and compilation (range checks, bit loops).  Proofs.parse_spec_factor: parse_spec = lex ; compile. *)
Record cronspec := mk_cronspec { s_min : list item; s_hour : list item; s_day : list item; s_month : list item; s_wday : list item }.

Definition lex_spec (s : str) : option cronspec :=
  match fields (alias s) with
  | [f0; f1; f2; f3; f4] =>
      match lex_options KMin (split_on 44 f0), lex_options KHour (split_on 44 f1), lex_options KDay (split_on 44 f2),
            lex_options KMonth (split_on 44 f3), lex_options KWDay (split_on 44 f4) with
      | Some i0, Some i1, Some i2, Some i3, Some i4 => Some (mk_cronspec i0 i1 i2 i3 i4)
      | _, _, _, _, _ => None
      end
  | _ => None
  end.

Definition compile_spec (s : cronspec) : option specmask :=
  match compile_field KMin (s_min s), compile_field KHour (s_hour s), compile_field KMonth (s_month s),
        compile_field KDay (s_day s), compile_field KWDay (s_wday s) with
  | Some m0, Some m1, Some m3, Some m2, Some m4 => Some (mk_specmask (m0 ++ m1 ++ m3) m2 m4)
  | _, _, _, _, _ => None
  end.

(* ------------------------------------------------------------------------------------------ *)
(* 4. civil time                                                                               *)

Record civil := mk_civil { c_year : Z; c_month : Z; c_day : Z; c_hour : Z; c_min : Z; c_wday : Z (* 0 = Sunday *) }.

(* days since 1970-01-01 of a proleptic Gregorian date (1 <= m <= 12, any d) *)
Definition days_from_civil (y m d : Z) : Z :=
  let y' := if m <=? 2 then y - 1 else y in
  let era := y' / 400 in
  let yoe := y' - era * 400 in
  let mp := if 2 <? m then m - 3 else m + 9 in
  let doy := (153 * mp + 2) / 5 + d - 1 in
  let doe := yoe * 365 + yoe / 4 - yoe / 100 + doy in
  era * 146097 + doe - 719468.

(* the date part of a day-of-era (0 <= doe < 146097): (year of era incl. the Jan/Feb carry, month, day) *)
Definition ymd_of_doe (doe : Z) : Z * Z * Z :=
  let yoe := (doe - doe / 1460 + doe / 36524 - doe / 146096) / 365 in
  let doy := doe - (365 * yoe + yoe / 4 - yoe / 100) in
  let mp := (5 * doy + 2) / 153 in
  let d := doy - (153 * mp + 2) / 5 + 1 in
  let m := if mp <? 10 then mp + 3 else mp - 9 in
  ((if m <=? 2 then yoe + 1 else yoe), m, d).

Definition civil_from_days (z : Z) : Z * Z * Z :=
  let z' := z + 719468 in
  let era := z' / 146097 in
  let doe := z' mod 146097 in
  let '(yy, m, d) := ymd_of_doe doe in
  (yy + era * 400, m, d).

(* the wall clock of the instant [secs] (unix seconds) in a zone whose UTC offset at that
   instant is [off] seconds: t.In(loc).Year()/Month()/Day()/Hour()/Minute()/Weekday() *)
Definition civil_of (off secs : Z) : civil :=
  let l := secs + off in
  let days := l / 86400 in
  let rem := l mod 86400 in
  let '(y, m, d) := civil_from_days days in
  mk_civil y m d (rem / 3600) ((rem mod 3600) / 60) ((days + 4) mod 7).

(* time.Date(y, m, d, 0, 0, 0, 0, time.UTC) with Go's normalisation of month and day overflow:
   the day number, then its date *)
Definition go_date_days (y m d : Z) : Z :=
  let m0 := m - 1 in
  days_from_civil (y + m0 / 12) (m0 mod 12 + 1) 1 + (d - 1).
Definition go_date (y m d : Z) : Z * Z * Z := civil_from_days (go_date_days y m d).

(* ------------------------------------------------------------------------------------------ *)
(* 5. IsRunAt                                                                                  *)

Definition wd7 (c : civil) : Z := if c_wday c =? 0 then 7 else c_wday c.

(* func (cm cronMask) IsRunAt(t time.Time) bool *)
Definition mask_run (m : mask) (c : civil) : bool :=
  match m with
  | MBits KMin b => Z.testbit b (c_min c)
  | MBits KHour b => Z.testbit b (c_hour c)
  | MBits KDay b => Z.testbit b (c_day c)
  | MBits KMonth b => Z.testbit b (c_month c)
  | MBits KWDay b => Z.testbit b (wd7 c)
  | MLastDM =>
      (* last := time.Date(t.Year(), t.Month()+1, 0, 0, 0, 0, 0, time.UTC).Day(); return last == t.Day() *)
      let '(_, _, last) := go_date (c_year c) (c_month c + 1) 0 in
      last =? c_day c
  | MLastDW d =>
      if negb (d =? wd7 c) then false
      else
        (* m := time.Date(t.Year(), tm, t.Day()+7, 0, 0, 0, 0, time.UTC).Month(); tm != m *)
        let '(_, m, _) := go_date (c_year c) (c_month c) (c_day c + 7) in
        negb (c_month c =? m)
  | MNDW d n =>
      if negb (d =? wd7 c) then false
      else (c_day c - 1) / 7 + 1 =? n
  end.

Definition is_and_mask (m : mask) : bool :=
  match m with
  | MBits KMin _ | MBits KHour _ | MBits KMonth _ => true
  | _ => false
  end.

(* func (cml cronMaskList) IsRunAt(t time.Time) bool *)
Fixpoint list_run_aux (l : list mask) (c : civil) (run : bool) : bool :=
  match l with
  | [] => run
  | m :: tl =>
      if is_and_mask m then (if mask_run m c then list_run_aux tl c run else false)
      else (if mask_run m c then true else list_run_aux tl c false)
  end.
Definition list_run (l : list mask) (c : civil) : bool := list_run_aux l c true.

Definition is_nil {A} (l : list A) : bool := match l with [] => true | _ => false end.

(* func (csm cronSpecMask) IsRunAt(t time.Time) bool *)
Definition spec_run (m : specmask) (c : civil) : bool :=
  if is_nil (sm_day m) && negb (list_run (sm_wday m) c) then false
  else if is_nil (sm_wday m) && negb (list_run (sm_day m) c) then false
  else if negb (is_nil (sm_day m)) && negb (is_nil (sm_wday m)) && negb (list_run (sm_day m) c) && negb (list_run (sm_wday m) c) then false
  else list_run (sm_mhm m) c.

(* ------------------------------------------------------------------------------------------ *)
(* 6. zones and the JobSchedule / Schedule loops                                               *)

(* A zone is the function instant -> UTC offset.  For the cases it is given as a table of
   (from, offset) pairs in increasing order with a default for instants before the first. *)
Definition zone := Z -> Z.
Fixpoint table_off (tbl : list (Z * Z)) (dflt : Z) (t : Z) : Z :=
  match tbl with
  | [] => dflt
  | (from, off) :: tl => if from <=? t then table_off tl off t else dflt
  end.

Definition run_at (m : specmask) (z : zone) (t : Z) : bool := spec_run m (civil_of (z t) t).

(* start := since.Truncate(time.Minute) *)
Definition trunc_min (s : Z) : Z := s - s mod 60.
Definition minute_ns : Z := 60000000000.

(* for now := start; now.Before(start.Add(period)); now = now.Add(time.Minute) *)
Fixpoint minutes_from (n : nat) (t : Z) : list Z :=
  match n with O => [] | S k => t :: minutes_from k (t + 60) end.
Definition window (since period_ns : Z) : list Z :=
  let n := if period_ns <=? 0 then 0 else (period_ns + minute_ns - 1) / minute_ns in
  minutes_from (Z.to_nat n) (trunc_min since).

(* func (c *cron) JobSchedule *)
Definition job_schedule (m : specmask) (z : zone) (since period_ns : Z) : list Z :=
  filter (run_at m z) (window since period_ns).

(* func (c *cron) Schedule: per minute the jobs that run (jobs given in a fixed order; the map
   order of the implementation is canonicalised by the harness), minutes without a job dropped *)
Definition sched_row (jobs : list (Z * specmask * zone)) (t : Z) : Z * list Z :=
  (t, map (fun j => fst (fst j)) (filter (fun j => run_at (snd (fst j)) (snd j) t) jobs)).
Definition schedule (jobs : list (Z * specmask * zone)) (since period_ns : Z) : list (Z * list Z) :=
  filter (fun r => negb (is_nil (snd r))) (map (sched_row jobs) (window since period_ns)).

(* ------------------------------------------------------------------------------------------ *)
(* 7. the spool: which jobs run at the next tick                                               *)

(* A cronJob object.  Removed jobs stay referenced by the spool (disable = true, not present). *)
(* j_spec = cronJob.job.Spec, the string the mask was compiled from (not read by the scheduler). *)
Record job := mk_job { j_id : Z; j_name : Z; j_spec : str; j_mask : specmask; j_tbl : list (Z * Z); j_dflt : Z;
                       j_disable : bool; j_present : bool }.
Definition j_zone (j : job) : zone := table_off (j_tbl j) (j_dflt j).

Record cron := mk_cron { cr_next : Z; cr_objs : list job; cr_spool : list Z }.

Definition find_present (name : Z) (objs : list job) : option job :=
  find (fun j => j_present j && (j_name j =? name)) objs.

Definition upd (objs : list job) (id : Z) (f : job -> job) : list job :=
  map (fun j => if j_id j =? id then f j else j) objs.

Definition zmem (x : Z) (l : list Z) : bool := existsb (Z.eqb x) l.

(* func (c *cron) scheduleJob(cj) *)
Definition schedule_job (next : Z) (spool : list Z) (j : job) : list Z :=
  if j_disable j then spool
  else if negb (run_at (j_mask j) (j_zone j) next) then spool
  else if zmem (j_id j) spool then spool
  else spool ++ [j_id j].

Inductive op :=
| OAdd (name : Z) (spec : str) (tbl : list (Z * Z)) (dflt : Z)
| ORemove (name : Z)
| OEnable (name : Z)
| ODisable (name : Z)
| OTick.

(* result codes: 0 = nil, 1 = ErrTaken, 2 = ErrUnknown, 3 = spec rejected *)
Definition set_disable (b : bool) (j : job) : job :=
  mk_job (j_id j) (j_name j) (j_spec j) (j_mask j) (j_tbl j) (j_dflt j) b (j_present j).
Definition set_removed (j : job) : job :=
  mk_job (j_id j) (j_name j) (j_spec j) (j_mask j) (j_tbl j) (j_dflt j) true false.

(* func (c *cron) schedule(next): c.next = next; scheduleJob for every job of the map *)
Definition schedule_all (next : Z) (objs : list job) (spool : list Z) : list Z :=
  fold_left (fun sp j => if j_present j then schedule_job next sp j else sp) objs spool.

(* the entries popped by the tick: (name, disabled at pop time), in spool order *)
Definition drain (c : cron) : list (Z * bool) :=
  flat_map (fun id => match find (fun j => j_id j =? id) (cr_objs c) with
                      | Some j => [(j_name j, j_disable j)]
                      | None => []
                      end) (cr_spool c).
(* the tick runs the action of every popped entry that is not disabled *)
Definition fired (c : cron) : list Z := map fst (filter (fun e => negb (snd e)) (drain c)).

Definition step (c : cron) (o : op) : cron * Z :=
  match o with
  | OAdd name spec tbl dflt =>
      match parse_spec spec with
      | None => (c, 3)
      | Some m =>
          match find_present name (cr_objs c) with
          | Some _ => (c, 1)
          | None =>
              let j := mk_job (Z.of_nat (length (cr_objs c))) name spec m tbl dflt false true in
              (mk_cron (cr_next c) (cr_objs c ++ [j]) (schedule_job (cr_next c) (cr_spool c) j), 0)
          end
      end
  | ORemove name =>
      match find_present name (cr_objs c) with
      | None => (c, 2)
      | Some j => (mk_cron (cr_next c) (upd (cr_objs c) (j_id j) set_removed) (cr_spool c), 0)
      end
  | OEnable name =>
      match find_present name (cr_objs c) with
      | None => (c, 2)
      | Some j =>
          let j' := set_disable false j in
          (mk_cron (cr_next c) (upd (cr_objs c) (j_id j) (set_disable false)) (schedule_job (cr_next c) (cr_spool c) j'), 0)
      end
  | ODisable name =>
      match find_present name (cr_objs c) with
      | None => (c, 2)
      | Some j => (mk_cron (cr_next c) (upd (cr_objs c) (j_id j) (set_disable true)) (cr_spool c), 0)
      end
  | OTick =>
      (* the timer function at minute cr_next: pop everything (see [fired]), then
         next := now + 1 minute; c.schedule(next) *)
      let next := cr_next c + 60 in
      (mk_cron next (cr_objs c) (schedule_all next (cr_objs c) []), 0)
  end.

(* ------------------------------------------------------------------------------------------ *)
(* 8. histories                                                                                *)

(* what a history shows: the result code of every API call, and for every tick the minute it
   runs and the names of the jobs whose action it starts (in spool order) *)
Inductive ev := ERc (rc : Z) | EFire (minute : Z) (names : list Z).

Definition run (c : cron) (ops : list op) : cron := fold_left (fun c o => fst (step c o)) ops c.

Fixpoint trace (c : cron) (ops : list op) : list ev :=
  match ops with
  | [] => []
  | o :: tl =>
      (match o with OTick => EFire (cr_next c) (fired c) | _ => ERc (snd (step c o)) end) :: trace (fst (step c o)) tl
  end.

(* createCron at a moment whose coming minute is [next] *)
Definition cron_init (next : Z) : cron := mk_cron next [] [].
