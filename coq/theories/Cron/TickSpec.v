(* Cron engine — the abstract scheduler: what a history of API calls and minute ticks must show,
   stated on the set of jobs with their enabled flag and on the reference semantics only.
   Definitions only. *)
From Ergo Require Import Common.Base Cron.Model Cron.Spec.
Local Open Scope Z_scope.

(* the abstract scheduler: AddJob of a string that denotes a spec of the dialect and whose name is
   free adds an enabled job; RemoveJob deletes it; EnableJob / DisableJob set the flag; anything
   else leaves the set unchanged.  The tree of a string is the one the lexing phase computes
   (GrammarProofs: it is the tree the string denotes). *)
Definition known (jobs : list ajob) (n : Z) : bool := existsb (fun j => a_name j =? n) jobs.

Definition spec_tree (spec : str) : option cronspec :=
  match lex_spec spec with Some a => if wf_spec a then Some a else None | None => None end.

Definition set_enabled (b : bool) (n : Z) (j : ajob) : ajob :=
  if a_name j =? n then mk_ajob (a_name j) (a_spec j) (a_zone j) b else j.

Definition astep (jobs : list ajob) (o : op) : list ajob :=
  match o with
  | OAdd name spec tbl dflt =>
      match spec_tree spec with
      | Some a => if known jobs name then jobs else jobs ++ [mk_ajob name a (table_off tbl dflt) true]
      | None => jobs
      end
  | ORemove name => filter (fun j => negb (a_name j =? name)) jobs
  | OEnable name => map (set_enabled true name) jobs
  | ODisable name => map (set_enabled false name) jobs
  | OTick => jobs
  end.

(* the result code the property demands: 3 = malformed spec rejected, 1 = name taken, 2 = unknown name *)
Definition arc (jobs : list ajob) (o : op) : Z :=
  match o with
  | OAdd name spec _ _ =>
      match spec_tree spec with
      | Some _ => if known jobs name then 1 else 0
      | None => 3
      end
  | ORemove name | OEnable name | ODisable name => if known jobs name then 0 else 2
  | OTick => 0
  end.

(* what a history must show: per API call the result code, per tick the minute and the due jobs *)
Fixpoint atrace (next : Z) (jobs : list ajob) (ops : list op) : list ev :=
  match ops with
  | [] => []
  | o :: tl =>
      match o with
      | OTick => EFire next (due jobs next) :: atrace (next + 60) jobs tl
      | _ => ERc (arc jobs o) :: atrace next (astep jobs o) tl
      end
  end.

Definition arun (jobs : list ajob) (ops : list op) : list ajob := fold_left astep ops jobs.

(* a job named n is enabled *)
Definition enabled_in (jobs : list ajob) (n : Z) : bool := existsb (fun j => (a_name j =? n) && a_enabled j) jobs.

(* the operation can make job n (re)appear enabled *)
Definition wakes (n : Z) (o : op) : bool :=
  match o with
  | OAdd name _ _ _ | OEnable name => name =? n
  | _ => false
  end.
