(* App engine, sequential (atomic-operation) model of the application lifecycle:
   /repo/node/application.go (start / stop / terminate / tryUnload) and
   /repo/node/node.go ApplicationLoad / ApplicationStart (dependency recursion) /
   ApplicationStart{Permanent,Transient,Temporary} / ApplicationStop / ApplicationStopForce /
   ApplicationUnload, every operation run to quiescence (all told members have terminated).
   Definitions only; the small-step model of the same code is App/Model.v. *)
From Ergo Require Import Common.Base.

(* ---- codes shared with the harness (go/harness/cmd/app) ------------------------------- *)
(* application state: gen.ApplicationState{Loaded=1,Running=2,Stopping=3}; 0 = not in the node *)
(* mode: gen.ApplicationMode{Temporary=1,Transient=2,Permanent=3} *)
(* reason: 0 normal, 1 shutdown, 2 kill, 3 panic, 4 any other error *)
(* return class: 0 nil, 1 ErrApplicationRunning, 2 ErrApplicationState, 3 ErrApplicationStopping,
   4 ErrApplicationUnknown, 5 ErrApplicationDepends, 6 ErrTaken, 7 error of a member's Init,
   8 not applicable (harness), 9 fuel exhausted (never, see Proofs) *)

(* case gen.ApplicationModeTransient:
     if reason == gen.TerminateReasonNormal || reason == gen.TerminateReasonShutdown { break } *)
Definition abnormal (r : nat) : bool := negb ((r =? 0) || (r =? 1)).

(* terminate(pid, reason): switch a.mode { Permanent: always; Transient: abnormal only } *)
Definition rule_fires (mode r : nat) : bool :=
  (mode =? 3) || ((mode =? 2) && abnormal r).

Record aspec := mk_aspec { sp_mode : nat; sp_n : nat; sp_deps : list nat }.

Inductive op :=
| OLoad (a : nat) | OUnload (a : nat)
| OStart (a : nat)                 (* ApplicationStart: spec mode, dependencies first *)
| OStartM (a mode : nat)           (* ApplicationStart{Temporary,Transient,Permanent} *)
| OStop (a : nat) | OForce (a : nat)
| ODie (a m r : nat)               (* member m terminates by itself / is killed, reason r *)
| OFail (a : nat) (k : option nat) (* harness: from now on member k refuses to start *)
| ONop.

Inductive ev :=
| EInit (a m : nat)        (* member m of a initialised (spawn order) *)
| EStart (a mode : nat)    (* ApplicationBehavior.Start(mode) *)
| ETerm (a r live : nat)   (* ApplicationBehavior.Terminate(r); live = members still registered then *)
| ELoad (a : nat).         (* ApplicationBehavior.Load *)

Record obs := mk_obs { o_ret : nat; o_apps : list (nat * list nat); o_ev : list ev }.

(* a.reason needs no field here: start resets it, so at quiescence it is determined by the way
   the run ended (see app_die / app_stop) *)
Record app := mk_app { a_st : nat; a_mode : nat; a_live : list nat; a_fail : option nat }.
Definition node := list app.

Definition no_app : app := mk_app 0 1 [] None.
Definition get (nd : node) (a : nat) : app := nth a nd no_app.
Fixpoint set (nd : node) (a : nat) (x : app) : node :=
  match nd, a with
  | [], _ => []
  | _ :: tl, 0 => x :: tl
  | y :: tl, S a' => y :: set tl a' x
  end.
Definition spec_of (specs : list aspec) (a : nat) : aspec := nth a specs (mk_aspec 1 0 []).

Definition mem (x : nat) (l : list nat) : bool := existsb (Nat.eqb x) l.
Definition remove_nat (x : nat) (l : list nat) : list nat := filter (fun y => negb (y =? x)) l.

(* application.start(mode): CAS Loaded->Running, a.reason = nil, a.mode = mode, a.stopped = make(..),
   spawn the members in spec order; a failing spawn kills the started ones and stores Loaded.
   (A roll-back of k>0 members may run the Terminate callback - with which reason depends on
   timing - although Start never ran: not modelled, the correspondence ignores it.) *)
Definition fail_index (sp : aspec) (x : app) : option nat :=
  match a_fail x with
  | Some k => if k <? sp_n sp then Some k else None
  | None => None
  end.

Definition app_start (a : nat) (sp : aspec) (x : app) (mode : nat) : app * nat * list ev :=
  match a_st x with
  | 0 => (x, 4, [])
  | 1 =>
      match fail_index sp x with
      | Some k => (mk_app 1 mode [] (a_fail x), 7, map (EInit a) (seq 0 k))
      | None => (mk_app 2 mode (seq 0 (sp_n sp)) (a_fail x), 0,
                 map (EInit a) (seq 0 (sp_n sp)) ++ [EStart a mode])
      end
  | 2 => (x, 1, [])
  | _ => (x, 2, [])
  end.

(* node.ApplicationStart(name): unknown -> ErrApplicationUnknown; (fix) a dependency cycle ->
   ErrApplicationDepends; for each dependency: recursive start, ErrApplicationRunning is fine,
   anything else -> ErrApplicationDepends; then app.start(app.spec.Mode). *)
Fixpoint start_rec (fuel : nat) (specs : list aspec) (nd : node) (visiting : list nat) (a : nat)
  : node * nat * list ev :=
  match fuel with
  | 0 => (nd, 9, [])
  | S f =>
      if a_st (get nd a) =? 0 then (nd, 4, []) else
      if mem a visiting then (nd, 5, []) else
      let fix deps (ds : list nat) (nd : node) (evs : list ev) : node * bool * list ev :=
        match ds with
        | [] => (nd, true, evs)
        | d :: tl =>
            let '(nd', r, e) := start_rec f specs nd (a :: visiting) d in
            if (r =? 0) || (r =? 1) then deps tl nd' (evs ++ e) else (nd', false, evs ++ e)
        end in
      let '(nd1, ok, evs) := deps (sp_deps (spec_of specs a)) nd [] in
      if ok then
        let '(x', r, e) := app_start a (spec_of specs a) (get nd1 a) (sp_mode (spec_of specs a)) in
        (set nd1 a x', r, evs ++ e)
      else (nd1, 5, evs)
  end.

(* a member terminates (unregisterProcess -> app.terminate(pid, reason)); at quiescence every
   member that was told to terminate has terminated and the last one ran the callback *)
Definition app_die (a : nat) (x : app) (m r : nat) : app * nat * list ev :=
  if (a_st x =? 2) && mem m (a_live x) then
    if rule_fires (a_mode x) r then (mk_app 1 (a_mode x) [] (a_fail x), 0, [ETerm a r 0])
    else
      match remove_nat m (a_live x) with
      | [] => (mk_app 1 (a_mode x) [] (a_fail x), 0, [ETerm a 0 0])
      | l => (mk_app 2 (a_mode x) l (a_fail x), 0, [])
      end
  else (x, 8, []).

(* application.stop(force, timeout) to quiescence; reason shutdown (1) / kill (2) *)
Definition app_stop (a : nat) (x : app) (force : bool) : app * nat * list ev :=
  match a_st x with
  | 0 => (x, 4, [])
  | 1 => (x, 0, [])
  | 2 => (mk_app 1 1 [] (a_fail x), 0, [ETerm a (if force then 2 else 1) 0])
  | _ => if force then (mk_app 1 1 [] (a_fail x), 0, [ETerm a 2 0]) else (x, 3, [])
  end.

Definition obs_of (nd : node) (ret : nat) (evs : list ev) : obs :=
  mk_obs ret (map (fun x => (a_st x, a_live x)) nd) evs.

Definition fuel_for (specs : list aspec) : nat := S (length specs).

Definition seq_step (specs : list aspec) (nd : node) (o : op) : node * obs :=
  match o with
  | OLoad a =>
      let x := get nd a in
      if a_st x =? 0 then
        let nd' := set nd a (mk_app 1 (sp_mode (spec_of specs a)) [] (a_fail x)) in
        (nd', obs_of nd' 0 [ELoad a])
      else (nd, obs_of nd 6 [ELoad a])
  | OUnload a =>
      let x := get nd a in
      match a_st x with
      | 0 => (nd, obs_of nd 4 [])
      | 1 => let nd' := set nd a (mk_app 0 (a_mode x) [] (a_fail x)) in (nd', obs_of nd' 0 [])
      | _ => (nd, obs_of nd 1 [])
      end
  | OStart a =>
      let '(nd', r, e) := start_rec (fuel_for specs) specs nd [] a in (nd', obs_of nd' r e)
  | OStartM a m =>
      let '(x', r, e) := app_start a (spec_of specs a) (get nd a) m in
      let nd' := set nd a x' in (nd', obs_of nd' r e)
  | OStop a =>
      let '(x', r, e) := app_stop a (get nd a) false in
      let nd' := set nd a x' in (nd', obs_of nd' r e)
  | OForce a =>
      let '(x', r, e) := app_stop a (get nd a) true in
      let nd' := set nd a x' in (nd', obs_of nd' r e)
  | ODie a m r =>
      let '(x', rt, e) := app_die a (get nd a) m r in
      let nd' := set nd a x' in (nd', obs_of nd' rt e)
  | OFail a k =>
      let x := get nd a in
      let nd' := set nd a (mk_app (a_st x) (a_mode x) (a_live x) k) in (nd', obs_of nd' 0 [])
  | ONop => (nd, obs_of nd 8 [])
  end.

Fixpoint seq_run (specs : list aspec) (nd : node) (ops : list op) : list (op * obs) :=
  match ops with
  | [] => []
  | o :: tl => let '(nd', ob) := seq_step specs nd o in (o, ob) :: seq_run specs nd' tl
  end.

Definition init_node (specs : list aspec) : node := map (fun _ => no_app) specs.
