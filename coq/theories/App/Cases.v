(* App engine: checkers evaluated on implementation observations (harness `app seq`).
   corr_*  : sequential model (App/Seq.v) = implementation, operation by operation;
   spec_*  : the C17 property evaluated on what the implementation did (monitor) - the same
             predicates the theorems of App/SeqProofs.v prove for every history of the model;
   premise_*: non-triviality of the case. *)
From Ergo Require Import Common.Base App.Seq.

Record acase := mk_acase { ac_specs : list aspec; ac_steps : list (op * obs) }.

(* ---- equality tests ------------------------------------------------------------------- *)
Fixpoint nlist_eqb (a b : list nat) : bool :=
  match a, b with
  | [], [] => true
  | x :: a', y :: b' => (x =? y) && nlist_eqb a' b'
  | _, _ => false
  end.

Definition ev_eqb (x y : ev) : bool :=
  match x, y with
  | EInit a m, EInit a' m' => (a =? a') && (m =? m')
  | EStart a m, EStart a' m' => (a =? a') && (m =? m')
  | ETerm a r l, ETerm a' r' l' => (a =? a') && (r =? r') && (l =? l')
  | ELoad a, ELoad a' => a =? a'
  | _, _ => false
  end.

Fixpoint evs_eqb (a b : list ev) : bool :=
  match a, b with
  | [], [] => true
  | x :: a', y :: b' => ev_eqb x y && evs_eqb a' b'
  | _, _ => false
  end.

Definition aobs_eqb (x y : nat * list nat) : bool := (fst x =? fst y) && nlist_eqb (snd x) (snd y).

Fixpoint apps_eqb (a b : list (nat * list nat)) : bool :=
  match a, b with
  | [], [] => true
  | x :: a', y :: b' => aobs_eqb x y && apps_eqb a' b'
  | _, _ => false
  end.

Definition is_term (e : ev) : bool := match e with ETerm _ _ _ => true | _ => false end.
Definition is_term_of (a : nat) (e : ev) : bool := match e with ETerm a' _ _ => a =? a' | _ => false end.
Definition is_start_of (a : nat) (e : ev) : bool := match e with EStart a' _ => a =? a' | _ => false end.
Definition is_force (o : op) : bool := match o with OForce _ => true | _ => false end.

(* ---- correspondence ------------------------------------------------------------------- *)
(* ApplicationStopForce waits with timeout 0: it may report ErrApplicationStopping (3) although the
   application is already stopped (select between a closed channel and an expired timer), so both
   results are accepted for a force stop; a rolled-back start may or may not run the Terminate
   callback (timing; also inside a dependency): Terminate events during start operations are ignored on both sides. *)
Definition ret_ok (o : op) (model impl : nat) : bool :=
  (model =? impl) || (is_force o && (model =? 0) && (impl =? 3)).

Definition is_start_op (o : op) : bool := match o with OStart _ | OStartM _ _ => true | _ => false end.
Definition strip_rb (o : op) (l : list ev) : list ev :=
  if is_start_op o then filter (fun e => negb (is_term e)) l else l.

Definition obs_agree (o : op) (m i : obs) : bool :=
  ret_ok o (o_ret m) (o_ret i) && apps_eqb (o_apps m) (o_apps i) &&
  evs_eqb (strip_rb o (o_ev m)) (strip_rb o (o_ev i)).

Fixpoint agree_run (specs : list aspec) (nd : node) (steps : list (op * obs)) : bool :=
  match steps with
  | [] => true
  | (o, ob) :: tl => let '(nd', mo) := seq_step specs nd o in obs_agree o mo ob && agree_run specs nd' tl
  end.

Definition corr_seq (c : acase) : bool := agree_run (ac_specs c) (init_node (ac_specs c)) (ac_steps c).

(* ---- the property as predicates on a trace -------------------------------------------- *)
(* what the scan remembers: the mode of the latest Start callback per application, the member
   the harness makes fail, and the previous observation *)
Record ctx := mk_ctx { c_modes : list nat; c_fails : list (option nat); c_prev : list (nat * list nat) }.

Fixpoint set_nth {A} (l : list A) (i : nat) (x : A) : list A :=
  match l, i with
  | [], _ => []
  | _ :: tl, 0 => x :: tl
  | y :: tl, S i' => y :: set_nth tl i' x
  end.

Definition ctx0 (specs : list aspec) : ctx :=
  mk_ctx (map (fun _ => 1) specs) (map (fun _ => None) specs) (map (fun _ => (0, [])) specs).

Definition note_modes (modes : list nat) (evs : list ev) : list nat :=
  fold_left (fun ms e => match e with EStart a m => set_nth ms a m | _ => ms end) evs modes.

Definition ctx_next (c : ctx) (o : op) (ob : obs) : ctx :=
  mk_ctx (note_modes (c_modes c) (o_ev ob))
         (match o with OFail a k => set_nth (c_fails c) a k | _ => c_fails c end)
         (o_apps ob).

Fixpoint scan (f : ctx -> op -> obs -> bool) (c : ctx) (tr : list (op * obs)) : bool :=
  match tr with
  | [] => true
  | (o, ob) :: tl => f c o ob && scan f (ctx_next c o ob) tl
  end.

Definition app_at (l : list (nat * list nat)) (a : nat) : nat * list nat := nth a l (0, []).
Definition count_ev (f : ev -> bool) (l : list ev) : nat := length (filter f l).
Definition is_nil {A} (l : list A) : bool := match l with [] => true | _ => false end.

(* an application that is not running has no live member; the Terminate callback never runs while a
   member is still registered *)
Definition chk_clean (specs : list aspec) (c : ctx) (o : op) (ob : obs) : bool :=
  forallb (fun x => if fst x <=? 1 then is_nil (snd x) else true) (o_apps ob) &&
  (is_start_op o || forallb (fun e => match e with ETerm _ _ l => l =? 0 | _ => true end) (o_ev ob)).

(* a stop request reports success only when the application is stopped and no member is left *)
Definition chk_stop_truthful (specs : list aspec) (c : ctx) (o : op) (ob : obs) : bool :=
  match o with
  | OStop a | OForce a =>
      if o_ret ob =? 0 then (fst (app_at (o_apps ob) a) <=? 1) && is_nil (snd (app_at (o_apps ob) a)) else true
  | _ => true
  end.

(* mode rule + cause: a member of a running application terminates with reason r *)
Definition chk_mode_rule (specs : list aspec) (c : ctx) (o : op) (ob : obs) : bool :=
  match o with
  | ODie a m r =>
      let pre := app_at (c_prev c) a in
      if (o_ret ob =? 0) && (fst pre =? 2) && mem m (snd pre) then
        let mode := nth a (c_modes c) 1 in
        let rest := remove_nat m (snd pre) in
        if rule_fires mode r then
          aobs_eqb (app_at (o_apps ob) a) (1, []) && evs_eqb (o_ev ob) [ETerm a r 0]
        else if is_nil rest then
          aobs_eqb (app_at (o_apps ob) a) (1, []) && evs_eqb (o_ev ob) [ETerm a 0 0]
        else aobs_eqb (app_at (o_apps ob) a) (2, rest) && evs_eqb (o_ev ob) []
      else true
  | OStop a =>
      if fst (app_at (c_prev c) a) =? 2 then
        (o_ret ob =? 0) && aobs_eqb (app_at (o_apps ob) a) (1, []) && evs_eqb (o_ev ob) [ETerm a 1 0]
      else true
  | OForce a =>
      if fst (app_at (c_prev c) a) =? 2 then
        aobs_eqb (app_at (o_apps ob) a) (1, []) && evs_eqb (o_ev ob) [ETerm a 2 0]
      else true
  | _ => true
  end.

(* the Terminate callback runs at most once per operation and application, only for an application
   that was running or stopping and is loaded afterwards (start operations excluded, see above) *)
Definition chk_term_once (specs : list aspec) (c : ctx) (o : op) (ob : obs) : bool :=
  is_start_op o ||
  forallb (fun a =>
             let k := count_ev (is_term_of a) (o_ev ob) in
             (k <=? 1) &&
             ((k =? 0) || ((2 <=? fst (app_at (c_prev c) a)) && (fst (app_at (o_apps ob) a) =? 1))))
          (seq 0 (length specs)).

(* events of application a form the block Init 0 .. Init (n-1), Start, at the very end of the events
   of the operation (everything of the dependencies comes before) *)
Fixpoint ends_with (l block : list ev) : bool :=
  evs_eqb l block || match l with [] => false | _ :: tl => ends_with tl block end.

Definition start_block (a n mode : nat) : list ev := map (EInit a) (seq 0 n) ++ [EStart a mode].

Definition chk_start (specs : list aspec) (c : ctx) (o : op) (ob : obs) : bool :=
  let check a mode deps :=
    let n := sp_n (spec_of specs a) in
    if o_ret ob =? 0 then
      (fst (app_at (c_prev c) a) =? 1) &&
      aobs_eqb (app_at (o_apps ob) a) (2, seq 0 n) &&
      ends_with (o_ev ob) (start_block a n mode) &&
      (count_ev (is_start_of a) (o_ev ob) =? 1) &&
      forallb (fun d => fst (app_at (o_apps ob) d) =? 2) deps
    else
      (count_ev (is_start_of a) (o_ev ob) =? 0) &&
      aobs_eqb (app_at (o_apps ob) a) (if o_ret ob =? 7 then (1, []) else app_at (c_prev c) a) in
  match o with
  | OStart a => check a (sp_mode (spec_of specs a)) (sp_deps (spec_of specs a))
  | OStartM a m =>
      check a m [] &&
      (* back to loaded = can be started again: a loaded application whose members all agree to
         start does start *)
      (if (fst (app_at (c_prev c) a) =? 1) &&
          match nth a (c_fails c) None with Some k => sp_n (spec_of specs a) <=? k | None => true end
       then o_ret ob =? 0 else true)
  | _ => true
  end.

Definition spec_clean (c : acase) := scan (chk_clean (ac_specs c)) (ctx0 (ac_specs c)) (ac_steps c).
Definition spec_stop_truthful (c : acase) := scan (chk_stop_truthful (ac_specs c)) (ctx0 (ac_specs c)) (ac_steps c).
Definition spec_mode_rule (c : acase) := scan (chk_mode_rule (ac_specs c)) (ctx0 (ac_specs c)) (ac_steps c).
Definition spec_term_once (c : acase) := scan (chk_term_once (ac_specs c)) (ctx0 (ac_specs c)) (ac_steps c).
Definition spec_start (c : acase) := scan (chk_start (ac_specs c)) (ctx0 (ac_specs c)) (ac_steps c).

(* non-trivial: some application was started, and some run came to an end (a Terminate callback) *)
Definition premise_ok (c : acase) : bool :=
  existsb (fun s => existsb (fun e => match e with EStart _ _ => true | _ => false end) (o_ev (snd s))) (ac_steps c) &&
  existsb (fun s => existsb is_term (o_ev (snd s))) (ac_steps c).
