(* App engine: checkers for the histories with an application in state 'stopping' (harness `app hold`).
   corr_hold : the model App/Hold.v (the code's rule, lax = false) = implementation, operation by operation
               (return class, state and live members of every application AT THE RETURN of the call -
               nothing is in flight in these histories except members held inside a handler - callbacks);
   spec_*    : the C17 property evaluated on what the implementation did;
   premise_* : the case contains a start of an application whose dependency is stopping. *)
From Ergo Require Import Common.Base App.Seq App.Cases App.Hold.

Record hcase := mk_hcase { hc_specs : list aspec; hc_steps : list (hop * obs) }.

(* ---- correspondence ------------------------------------------------------------------- *)
Definition hobs_agree (m i : obs) : bool :=
  (o_ret m =? o_ret i) && apps_eqb (o_apps m) (o_apps i) && evs_eqb (o_ev m) (o_ev i).

Fixpoint hagree_run (specs : list aspec) (nd : hnode) (steps : list (hop * obs)) : bool :=
  match steps with
  | [] => true
  | (o, ob) :: tl => let '(nd', mo) := hstep false specs nd o in hobs_agree mo ob && hagree_run specs nd' tl
  end.

Definition corr_hold (c : hcase) : bool := hagree_run (hc_specs c) (hinit (hc_specs c)) (hc_steps c).

(* ---- the property as predicates on a trace -------------------------------------------- *)
(* remembered: the previous observation and, per application, the cause of the stop in progress
   (1 = stop request, r = reason of the member death on which the mode rule fired) *)
Record hctx := mk_hctx { hx_prev : list (nat * list nat); hx_cause : list nat }.

Definition hctx0 (specs : list aspec) : hctx :=
  mk_hctx (map (fun _ => (0, [])) specs) (map (fun _ => 0) specs).

Definition hctx_next (c : hctx) (o : hop) (ob : obs) : hctx :=
  mk_hctx (o_apps ob)
    (match o with
     | HStopT a => if fst (app_at (hx_prev c) a) =? 2 then set_nth (hx_cause c) a 1 else hx_cause c
     | HDie a m r => if (fst (app_at (hx_prev c) a) =? 2) && (fst (app_at (o_apps ob) a) =? 3)
                     then set_nth (hx_cause c) a r else hx_cause c
     | _ => hx_cause c
     end).

Fixpoint hscan (f : hctx -> hop -> obs -> bool) (c : hctx) (tr : list (hop * obs)) : bool :=
  match tr with
  | [] => true
  | (o, ob) :: tl => f c o ob && hscan f (hctx_next c o ob) tl
  end.

Fixpoint hscan_any (f : hctx -> hop -> obs -> bool) (c : hctx) (tr : list (hop * obs)) : bool :=
  match tr with
  | [] => false
  | (o, ob) :: tl => f c o ob || hscan_any f (hctx_next c o ob) tl
  end.

Definition is_init_of (a : nat) (e : ev) : bool := match e with EInit a' _ => a =? a' | _ => false end.

Definition dep_stopping (specs : list aspec) (c : hctx) (a : nat) : bool :=
  (fst (app_at (hx_prev c) a) =? 1) &&
  existsb (fun d => fst (app_at (hx_prev c) d) =? 3) (sp_deps (spec_of specs a)).

(* ApplicationStart: on success every dependency IS RUNNING at the return of the call and the
   application went loaded -> running, its members in order after everything of the dependencies, one
   Start callback; on an error nothing of the application was started; a stopping dependency makes the
   call fail with ErrApplicationDepends and is left alone *)
Definition chk_hold_start (specs : list aspec) (c : hctx) (o : hop) (ob : obs) : bool :=
  match o with
  | HStart a =>
      let sp := spec_of specs a in
      (if o_ret ob =? 0 then
         (fst (app_at (hx_prev c) a) =? 1) &&
         aobs_eqb (app_at (o_apps ob) a) (2, seq 0 (sp_n sp)) &&
         ends_with (o_ev ob) (start_block a (sp_n sp) (sp_mode sp)) &&
         (count_ev (is_start_of a) (o_ev ob) =? 1) &&
         forallb (fun d => fst (app_at (o_apps ob) d) =? 2) (sp_deps sp)
       else
         (count_ev (is_start_of a) (o_ev ob) =? 0) && (count_ev (is_init_of a) (o_ev ob) =? 0) &&
         aobs_eqb (app_at (o_apps ob) a) (app_at (hx_prev c) a)) &&
      (if dep_stopping specs c a then
         (o_ret ob =? 5) &&
         forallb (fun d => if fst (app_at (hx_prev c) d) =? 3
                           then aobs_eqb (app_at (o_apps ob) d) (app_at (hx_prev c) d) else true) (sp_deps sp)
       else true)
  | _ => true
  end.

(* loaded / unloaded: no member; stopping: somebody is still alive (never stuck in stopping); the
   Terminate callback runs with no member registered *)
Definition chk_hold_clean (specs : list aspec) (c : hctx) (o : hop) (ob : obs) : bool :=
  forallb (fun x => if fst x <=? 1 then is_nil (snd x) else if fst x =? 3 then negb (is_nil (snd x)) else true) (o_apps ob) &&
  forallb (fun e => match e with ETerm _ _ l => l =? 0 | _ => true end) (o_ev ob).

(* a stop request reports success only once the application is stopped; while a member is held it
   reports ErrApplicationStopping and the application is stopping *)
Definition chk_hold_stop (specs : list aspec) (c : hctx) (o : hop) (ob : obs) : bool :=
  match o with
  | HStopT a =>
      let now := app_at (o_apps ob) a in
      (if o_ret ob =? 0 then (fst now <=? 1) && is_nil (snd now) else true) &&
      (if fst (app_at (hx_prev c) a) =? 2 then
         ((o_ret ob =? 0) && aobs_eqb now (1, []) && evs_eqb (o_ev ob) [ETerm a 1 0]) ||
         ((o_ret ob =? 3) && (fst now =? 3) && evs_eqb (o_ev ob) [])
       else true)
  | _ => true
  end.

(* the Terminate callback: exactly once per run, when the application goes running / stopping -> loaded,
   with the causing reason *)
Definition chk_hold_term (specs : list aspec) (c : hctx) (o : hop) (ob : obs) : bool :=
  forallb (fun a =>
             let k := count_ev (is_term_of a) (o_ev ob) in
             let pre := fst (app_at (hx_prev c) a) in
             let post := fst (app_at (o_apps ob) a) in
             let ended := (2 <=? pre) && (post =? 1) in
             (k =? (if ended then 1 else 0)) &&
             (if ended then
                let cause :=
                  if pre =? 3 then nth a (hx_cause c) 0 else
                  match o with
                  | HStopT _ => 1
                  | HDie _ _ r => if rule_fires (sp_mode (spec_of specs a)) r then r else 0
                  | _ => 99
                  end in
                existsb (fun e => ev_eqb e (ETerm a cause 0)) (o_ev ob)
              else true))
          (seq 0 (length specs)).

Definition hspec (f : list aspec -> hctx -> hop -> obs -> bool) (c : hcase) : bool :=
  hscan (f (hc_specs c)) (hctx0 (hc_specs c)) (hc_steps c).

Definition spec_hold_start (c : hcase) := hspec chk_hold_start c.
Definition spec_hold_clean (c : hcase) := hspec chk_hold_clean c.
Definition spec_hold_stop (c : hcase) := hspec chk_hold_stop c.
Definition spec_hold_term (c : hcase) := hspec chk_hold_term c.

(* non-trivial: some ApplicationStart met a dependency in state stopping *)
Definition premise_hold (c : hcase) : bool :=
  hscan_any (fun x o ob => match o with HStart a => dep_stopping (hc_specs c) x a | _ => false end)
            (hctx0 (hc_specs c)) (hc_steps c).

(* the checkers accept the model's own run of the witness history and reject the lax variant's *)
Example hold_checkers_on_model :
  let specs := [mk_aspec 1 2 []; mk_aspec 3 2 []; mk_aspec 1 1 [0; 1]] in
  let ops := [HLoad 0; HLoad 1; HLoad 2; HStart 1; HHold 1 1; HDie 1 0 4; HStart 2; HRelease 1 1; HStart 2;
              HHold 0 0; HStopT 0; HStart 2; HStopT 2; HRelease 0 0] in
  let good := mk_hcase specs (hrun false specs (hinit specs) ops) in
  let bad := mk_hcase specs (hrun true specs (hinit specs) ops) in
  (corr_hold good, spec_hold_start good, spec_hold_clean good, spec_hold_stop good, spec_hold_term good, premise_hold good)
    = (true, true, true, true, true, true) /\
  (corr_hold bad, spec_hold_start bad) = (false, false).
Proof. vm_compute. split; reflexivity. Qed.
