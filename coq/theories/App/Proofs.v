(* App engine: invariants of the small-step model (App/Model.v) for ALL schedules that respect the
   quiescent-restart guard, by induction over the schedule with pc-class counting, and the
   witness of what goes wrong without the guard. *)
From Ergo Require Import Common.Base App.Seq App.Model.

Definition b2n (b : bool) : nat := if b then 1 else 0.

Lemma count_cons f p l : count f (p :: l) = b2n (f p) + count f l.
Proof. unfold count. cbn [filter]. destruct (f p); reflexivity. Qed.

Lemma count_set_nth f l i p p' :
  nth_error l i = Some p ->
  count f (set_nth l i p') + b2n (f p) = count f l + b2n (f p').
Proof.
  revert i; induction l as [|x l IH]; intros [|i] H; cbn [nth_error set_nth] in *; try discriminate.
  - inversion H; subst. rewrite !count_cons. lia.
  - rewrite !count_cons. specialize (IH i H). lia.
Qed.

Lemma count_ge f l i p : nth_error l i = Some p -> b2n (f p) <= count f l.
Proof.
  revert i; induction l as [|x l IH]; intros [|i] H; cbn [nth_error] in *; try discriminate.
  - inversion H; subst. rewrite count_cons. lia.
  - rewrite count_cons. specialize (IH i H). lia.
Qed.

Lemma count_le f g l : (forall p, f p = true -> g p = true) -> count f l <= count g l.
Proof.
  intros H. induction l as [|p l IH]; [reflexivity|]. rewrite !count_cons.
  specialize (H p). destruct (f p); cbn [b2n]; [rewrite H by reflexivity; cbn [b2n]|]; lia.
Qed.

Lemma step_shape c i c' :
  step c i = Some c' ->
  exists p s' p',
    nth_error (thr c) i = Some p /\ step_pc (sh c) p = Some (s', p') /\ sh c' = s' /\
    (forall f, count f (thr c') + b2n (f p) = count f (thr c) + b2n (f p')) /\
    (forall f, b2n (f p) <= count f (thr c)).
Proof.
  unfold step. destruct (nth_error (thr c) i) as [p|] eqn:Hn; [|discriminate].
  destruct (step_pc (sh c) p) as [[s' p']|] eqn:Hs; [|discriminate].
  intros H; inversion H; subst; clear H. exists p, s', p'. cbn [sh thr].
  repeat split; auto.
  - intros f. apply count_set_nth; assumption.
  - intros f. eapply count_ge; eauto.
Qed.

Lemma run_adm_invariant (P : cfg -> Prop) :
  (forall c i c', P c -> adm c i = true -> step c i = Some c' -> P c') ->
  forall sched c, P c -> P (run_adm sched c).
Proof.
  intros Hstep sched; induction sched as [|i tl IH]; intros c Hc; cbn [run_adm]; [exact Hc|].
  destruct (adm c i) eqn:Ha; [|apply IH; exact Hc].
  destruct (step c i) as [c'|] eqn:Hs; [apply IH; eapply Hstep; eauto | apply IH; exact Hc].
Qed.

(* ---- the invariant -------------------------------------------------------------------- *)
(* cd = members of this run that left the node but not yet the group, sl = the same for older
   runs, di = terminate calls in flight, se = those that saw the group empty, fi = the finaliser
   between its swap and the end of the callback, pt = winners of Running->Stopping that have not
   yet told the members.  Stated in linear arithmetic over the state code so that lia decides
   every case. *)
Definition stc (x : ast) : nat := match x with SUnl => 0 | SL => 1 | SR => 2 | SS => 3 end.

Definition InvN (s : shared) (cd sl di se fi pt : nat) : Prop :=
  na s + cd = ng s /\
  (stc (st s) <= 1 -> ng s = 0) /\
  (se > 0 -> ng s = 0) /\
  (b2n (stopped s) = 1 -> ng s = 0) /\
  fi + runterms s <= 1 /\
  (stc (st s) >= 2 -> fi + runterms s = 0) /\
  sl = 0 /\
  (stc (st s) = 3 -> b2n (toldall s) = 1 \/ pt >= 1) /\
  (stc (st s) = 0 -> di = 0) /\
  (fi >= 1 -> stc (st s) = 1) /\
  cd <= di /\ se <= di /\ fi <= di.

Definition Inv (c : cfg) : Prop :=
  InvN (sh c) (count (deleter (gen (sh c))) (thr c)) (count (stale (gen (sh c))) (thr c))
       (count die_inflight (thr c)) (count sawempty (thr c)) (count finaliser (thr c))
       (count pretell (thr c)).

Lemma deleter_inflight g p : deleter g p = true -> die_inflight p = true.
Proof. destruct p; cbn; congruence. Qed.
Lemma stale_inflight g p : stale g p = true -> die_inflight p = true.
Proof. destruct p; cbn; congruence. Qed.
Lemma sawempty_inflight p : sawempty p = true -> die_inflight p = true.
Proof. destruct p; cbn; congruence. Qed.
Lemma finaliser_inflight p : finaliser p = true -> die_inflight p = true.
Proof. destruct p; cbn; congruence. Qed.

Lemma Inv_init n m threads : forallb initial_pc threads = true -> Inv (init_cfg n m threads).
Proof.
  intros H.
  assert (Hz : count die_inflight threads = 0).
  { induction threads as [|p l IH]; [reflexivity|]. cbn [forallb] in H. apply andb_true_iff in H as [H1 H2].
    rewrite count_cons, (IH H2). destruct p; cbn in H1; try discriminate; reflexivity. }
  pose proof (count_le (deleter 0) die_inflight threads (deleter_inflight 0)).
  pose proof (count_le (stale 0) die_inflight threads (stale_inflight 0)).
  pose proof (count_le sawempty die_inflight threads sawempty_inflight).
  pose proof (count_le finaliser die_inflight threads finaliser_inflight).
  unfold Inv, InvN, init_cfg, init_shared; cbn [sh thr st na ng gen stopped runterms toldall stc b2n].
  lia.
Qed.

Ltac shared_simpl :=
  cbn [st na ng gen mode reason stopped toldall nmem starts runterms terms
       upd_st upd_mode upd_reason upd_told upd_na upd_ng upd_closed add_term started rolled_back] in *.
Ltac cls := cbn [b2n negb andb stc deleter stale die_inflight sawempty finaliser pretell stop_inflight] in *.
(* one case: the step is known, everything is linear arithmetic *)
Ltac fin := unfold InvN in *; shared_simpl;
  repeat match goal with Hx : st _ = _ |- _ => rewrite Hx in *; clear Hx end;
  repeat match goal with Hx : stopped _ = _ |- _ => rewrite Hx in *; clear Hx end;
  cls; lia.

Lemma Inv_step c i c' : Inv c -> adm c i = true -> step c i = Some c' -> Inv c'.
Proof.
  intros HI Hadm Hs.
  destruct (step_shape c i c' Hs) as (p & s' & p' & Hn & Hp & Hsh & Hcnt & Hge).
  unfold Inv in *. rewrite Hsh. clear Hsh.
  unfold adm in Hadm. rewrite Hn in Hadm.
  remember (sh c) as s eqn:Heqs. clear Heqs.
  pose proof (Hcnt (deleter (gen s))) as Ecd. pose proof (Hcnt (stale (gen s))) as Esl.
  pose proof (Hcnt die_inflight) as Edi. pose proof (Hcnt sawempty) as Ese.
  pose proof (Hcnt finaliser) as Efi. pose proof (Hcnt pretell) as Ept.
  pose proof (Hcnt (deleter (S (gen s)))) as Ecd'. pose proof (Hcnt (stale (S (gen s)))) as Esl'.
  pose proof (Hge (deleter (gen s))) as Gcd. pose proof (Hge (stale (gen s))) as Gsl.
  pose proof (Hge die_inflight) as Gdi. pose proof (Hge sawempty) as Gse.
  pose proof (Hge finaliser) as Gfi. pose proof (Hge pretell) as Gpt.
  pose proof (count_le (deleter (S (gen s))) die_inflight (thr c') (deleter_inflight _)) as Ld'.
  pose proof (count_le (stale (S (gen s))) die_inflight (thr c') (stale_inflight _)) as Ls'.
  pose proof (count_le (deleter (gen s)) die_inflight (thr c') (deleter_inflight _)) as Ld2.
  pose proof (count_le sawempty die_inflight (thr c') sawempty_inflight) as Lse.
  pose proof (count_le finaliser die_inflight (thr c') finaliser_inflight) as Lfi.
  clear Hcnt Hge Hs Hn.
  destruct p; cbn [step_pc] in Hp; try discriminate.
  - (* S_cas *)
    apply andb_true_iff in Hadm as [Hd0 Hs0]; apply Nat.eqb_eq in Hd0; apply Nat.eqb_eq in Hs0.
    destruct (st s) eqn:Est;
     [ | destruct fail as [k|]; [destruct (k <? nmem s); [destruct k|]|] | | ];
     inversion Hp; subst; fin.
  - (* P_cas *) destruct (st s) eqn:Est; inversion Hp; subst; fin.
  - (* P_load *) destruct (st s) eqn:Est; try destruct force; inversion Hp; subst; fin.
  - inversion Hp; subst; fin.
  - inversion Hp; subst; fin.
  - inversion Hp; subst; fin.
  - (* P_wait *) destruct (stopped s) eqn:Ecl; [|destruct polls]; inversion Hp; subst; fin.
  - (* D_die *) destruct (na s) eqn:Ena; [discriminate|]. inversion Hp; subst. cls.
    rewrite Nat.eqb_refl in *. fin.
  - (* D_delete *)
    cls. destruct (Nat.eqb_spec g (gen s)) as [Eg|Eg]; cbn [negb andb] in *;
     [ destruct (Nat.ltb_spec 0 (ng s)) | ]; inversion Hp; subst; fin.
  - (* D_mode *) destruct (rule_fires (mode s) r); inversion Hp; subst; fin.
  - (* D_stopping *) destruct (st s) eqn:Est; inversion Hp; subst; fin.
  - inversion Hp; subst; fin.
  - inversion Hp; subst; fin.
  - (* D_len *) destruct (Nat.ltb_spec 0 (ng s)); inversion Hp; subst; fin.
  - inversion Hp; subst; fin.
  - (* D_loaded *) destruct (st s) eqn:Est; inversion Hp; subst; fin.
  - inversion Hp; subst; fin.
  - inversion Hp; subst; fin.
  - (* U_cas *)
    apply andb_true_iff in Hadm as [Hd0 Hs0]; apply Nat.eqb_eq in Hd0; apply Nat.eqb_eq in Hs0.
    destruct (st s) eqn:Est; inversion Hp; subst; fin.
Qed.

(* ---- reachable configurations --------------------------------------------------------- *)
Theorem Inv_reachable n m threads sched :
  forallb initial_pc threads = true -> Inv (run_adm sched (init_cfg n m threads)).
Proof.
  intros H. apply run_adm_invariant; [|apply Inv_init; exact H].
  intros c i c' HI Ha Hs. eapply Inv_step; eauto.
Qed.

Section Reachable.
  Variables (n m : nat) (threads : list pc) (sched : list nat).
  Hypothesis Hinit : forallb initial_pc threads = true.
  Let c := run_adm sched (init_cfg n m threads).

  (* the Terminate callback runs at most once per run (= per successful CAS Loaded->Running), and
     never while the application is still running / stopping *)
  Theorem terminate_once :
    runterms (sh c) <= 1 /\ (st (sh c) = SR \/ st (sh c) = SS -> runterms (sh c) = 0).
  Proof.
    destruct (Inv_reachable n m threads sched Hinit) as (A & B & C & D & E & F & _). fold c in A, B, C, D, E, F.
    split; [lia | intros H].
    assert (H2 : stc (st (sh c)) >= 2) by (destruct H as [H|H]; rewrite H; cbn [stc]; lia).
    specialize (F H2); lia.
  Qed.

  (* back to loaded = nothing is left: no member registered in the node, the group is empty *)
  Theorem loaded_clean : st (sh c) = SL \/ st (sh c) = SUnl -> na (sh c) = 0 /\ ng (sh c) = 0.
  Proof.
    destruct (Inv_reachable n m threads sched Hinit) as (A & B & _). fold c in A, B.
    intros H.
    assert (H2 : stc (st (sh c)) <= 1) by (destruct H as [H|H]; rewrite H; cbn [stc]; lia).
    specialize (B H2). lia.
  Qed.

  (* ... and can be started again: the start succeeds, all members run, one Start callback *)
  Theorem restartable mode' :
    st (sh c) = SL ->
    step_pc (sh c) (S_cas mode' None) = Some (started (sh c) mode', Done 0) /\
    st (started (sh c) mode') = SR /\ na (started (sh c) mode') = nmem (sh c) /\
    starts (started (sh c) mode') = S (starts (sh c)) /\ runterms (started (sh c) mode') = 0.
  Proof. intros H. cbn [step_pc]. rewrite H. repeat split. Qed.

  (* a stop call that is about to return success (from the wait on the stopped channel, or because
     it found the application loaded) does so in a state where every member has terminated *)
  Definition returns_ok (p : pc) : bool :=
    match p with P_wait _ | P_load _ _ => true | _ => false end.

  Theorem stop_truthful i p s' :
    nth_error (thr c) i = Some p -> returns_ok p = true ->
    step_pc (sh c) p = Some (s', Done 0) ->
    na (sh c) = 0 /\ ng (sh c) = 0.
  Proof.
    destruct (Inv_reachable n m threads sched Hinit) as (A & B & C & D & _). fold c in A, B, C, D.
    intros Hn Hr Hs. destruct p; try discriminate; cbn [step_pc] in Hs.
    - destruct (st (sh c)) eqn:Est; cbn [stc] in B;
        try (assert (ng (sh c) = 0) by (apply B; lia); lia);
        destruct force; try discriminate; cbn [ast_eqb] in Hs; discriminate.
    - destruct (stopped (sh c)) eqn:Ec; [cbn [b2n] in D; specialize (D eq_refl); lia|].
      destruct polls; discriminate.
  Qed.

  (* once the application is stopping, every member still in the group has been told to terminate,
     or the thread that switched the state is on its way to tell them (it is between its CAS and
     its SendExit loop) *)
  Theorem stopping_tells_all :
    st (sh c) = SS -> toldall (sh c) = true \/ count pretell (thr c) >= 1.
  Proof.
    destruct (Inv_reachable n m threads sched Hinit) as (_ & _ & _ & _ & _ & _ & _ & H & _). fold c in H.
    intros Hs. rewrite Hs in H. cbn [stc] in H. destruct (H eq_refl) as [Ht|Ht]; [left|right; exact Ht].
    destruct (toldall (sh c)); [reflexivity | discriminate].
  Qed.
End Reachable.

(* the mode rule at the step where a dying member consults it: the state goes to Stopping exactly
   for Permanent / Transient+abnormal, and that thread then writes its reason and tells the group *)
Theorem mode_rule_step s r :
  step_pc s (D_mode r) = Some (s, if rule_fires (mode s) r then D_stopping r else D_len) /\
  (st s = SR -> step_pc s (D_stopping r) = Some (upd_st s SS, D_reason r)) /\
  step_pc s (D_reason r) = Some (upd_reason s (Some r), D_tell) /\
  step_pc s D_tell = Some (upd_told s, D_len).
Proof.
  repeat split; cbn [step_pc]; [destruct (rule_fires (mode s) r); reflexivity | intros H; rewrite H; reflexivity].
Qed.

(* Temporary: the last member to leave the group finalises the run *)
Theorem last_member_finalises s : ng s = 0 -> step_pc s D_len = Some (s, D_default).
Proof. intros H. cbn [step_pc]. rewrite H. reflexivity. Qed.

(* ---- what goes wrong without the guard (known finding restart-race) --------------------- *)
(* two members of a temporary application die concurrently; both see the group empty; one finalises;
   the application is started again; the other one then swaps the state of the NEW run to Loaded,
   closes its channel and runs the Terminate callback while its two members are alive *)
Definition race_threads : list pc := [S_cas 1 None; D_die 0; D_die 0; S_cas 1 None].
Definition race_sched : list nat :=
  [0; 1; 1; 1; 2; 2; 2; 1; 2; 2; 2; 2; 2; 3; 1; 1; 1; 1].
(* boolean form: the application is Loaded, both members of the new run are alive, the Terminate
   callback has run twice and the new run's stopped channel is closed *)
Definition restart_race_b (threads : list pc) (sched : list nat) : bool :=
  let c := run sched (init_cfg 2 1 threads) in
  ast_eqb (st (sh c)) SL && (na (sh c) =? 2) && (length (terms (sh c)) =? 2) && stopped (sh c).

Theorem restart_race_refuted :
  exists threads sched, forallb initial_pc threads = true /\ restart_race_b threads sched = true.
Proof. exists race_threads, race_sched. split; vm_compute; reflexivity. Qed.

(* the same schedule is not admissible: the guard skips the second start while a terminate call is
   in flight, and the invariant holds at its end *)
Example restart_race_guarded :
  restart_race_b race_threads race_sched = true /\
  na (sh (run_adm race_sched (init_cfg 2 1 race_threads))) = 0.
Proof. split; vm_compute; reflexivity. Qed.

(* the hypotheses are satisfiable by a non-trivial run: permanent application, two members, one dies
   abnormally while a stop call and the other member's death race; the run ends loaded, one callback *)
Example guarded_run_nontrivial :
  let c := run_adm [0; 1; 1; 3; 3; 1; 2; 2; 1; 1; 3; 2; 2; 2; 2; 2; 2; 2; 1; 1; 1; 3; 3; 3; 3; 3; 3; 1; 1; 1; 1; 2; 2; 2; 2; 3; 3; 3]
                   (init_cfg 2 3 [S_cas 3 None; D_die 4; D_die 1; P_cas false 3]) in
  st (sh c) = SL /\ na (sh c) = 0 /\ terms (sh c) = [1] /\ starts (sh c) = 1 /\
  thr c = [Done 0; Done 0; Done 0; Done 0].
Proof. vm_compute. repeat split. Qed.

(* ---- the cause under concurrency (known finding cause-race) ------------------------------- *)
(* a.reason is written AFTER the CAS Running->Stopping: a permanent application whose two members
   die concurrently with reasons 4 and 3 (both abnormal) can hand `normal` (0) to the Terminate
   callback - the second member finalises the run between the first one's CAS and its write.
   The schedule respects the guard. *)
Definition cause_threads : list pc := [S_cas 3 None; D_die 4; D_die 3].
Definition cause_sched : list nat := [0; 1; 1; 1; 1; 2; 2; 2; 2; 2; 2; 2; 2; 2; 1; 1; 1; 1; 1].
Definition cause_race_b (threads : list pc) (sched : list nat) : bool :=
  let c := run_adm sched (init_cfg 2 3 threads) in
  ast_eqb (st (sh c)) SL && (na (sh c) =? 0) &&
  match terms (sh c) with [r] => r =? 0 | _ => false end.

Theorem cause_race_refuted :
  exists threads sched, forallb initial_pc threads = true /\ cause_race_b threads sched = true.
Proof. exists cause_threads, cause_sched. split; vm_compute; reflexivity. Qed.

(* what does hold for every guarded schedule: the reason handed over is the content of a.reason,
   which only ever holds a reason written by a stop call, by a member whose death switched the
   state, or `normal` - and in the sequential model (App/SeqProofs.v) it is exactly the cause. *)
