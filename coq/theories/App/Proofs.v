(* App engine: invariants of the small-step model (App/Model.v) for ALL schedules that respect the
   quiescent-restart guard, by induction over the schedule with pc-class counting, and the
   witness of what goes wrong without the guard. *)
From Ergo Require Import Common.Base App.Seq App.Model.

Definition b2n (b : bool) : nat := if b then 1 else 0.

Lemma b2n_le1 b : b2n b <= 1.
Proof. destruct b; cbn; lia. Qed.

Lemma count_cons f p l : count f (p :: l) = b2n (f p) + count f l.
Proof. unfold count. cbn [filter]. destruct (f p); reflexivity. Qed.

Lemma count_set_nth f l i p p' :
  nth_error l i = Some p ->
  count f (set_nth l i p') + b2n (f p) = count f l + b2n (f p').
Proof.
  revert i; induction l as [|x l IH]; intros [|i] H; cbn [nth_error set_nth] in *; try discriminate.
  - inversion H; subst. rewrite !count_cons. lia.
  - rewrite !count_cons. specialize (IH i H). lia.
Qed.

Lemma count_ge f l i p : nth_error l i = Some p -> b2n (f p) <= count f l.
Proof.
  revert i; induction l as [|x l IH]; intros [|i] H; cbn [nth_error] in *; try discriminate.
  - inversion H; subst. rewrite count_cons. lia.
  - rewrite count_cons. specialize (IH i H). lia.
Qed.

Lemma count_le f g l : (forall p, f p = true -> g p = true) -> count f l <= count g l.
Proof.
  intros H. induction l as [|p l IH]; [reflexivity|]. rewrite !count_cons.
  specialize (H p). destruct (f p); cbn [b2n]; [rewrite H by reflexivity; cbn [b2n]|]; lia.
Qed.

Lemma step_shape c i c' :
  step c i = Some c' ->
  exists p s' p',
    nth_error (thr c) i = Some p /\ step_pc (sh c) p = Some (s', p') /\ sh c' = s' /\
    (forall f, count f (thr c') + b2n (f p) = count f (thr c) + b2n (f p')) /\
    (forall f, b2n (f p) <= count f (thr c)).
Proof.
  unfold step. destruct (nth_error (thr c) i) as [p|] eqn:Hn; [|discriminate].
  destruct (step_pc (sh c) p) as [[s' p']|] eqn:Hs; [|discriminate].
  intros H; inversion H; subst; clear H. exists p, s', p'. cbn [sh thr].
  repeat split; auto.
  - intros f. apply count_set_nth; assumption.
  - intros f. eapply count_ge; eauto.
Qed.

Lemma run_adm_invariant (P : cfg -> Prop) :
  (forall c i c', P c -> adm c i = true -> step c i = Some c' -> P c') ->
  forall sched c, P c -> P (run_adm sched c).
Proof.
  intros Hstep sched; induction sched as [|i tl IH]; intros c Hc; cbn [run_adm]; [exact Hc|].
  destruct (adm c i) eqn:Ha; [|apply IH; exact Hc].
  destruct (step c i) as [c'|] eqn:Hs; [apply IH; eapply Hstep; eauto | apply IH; exact Hc].
Qed.

(* ---- the invariant -------------------------------------------------------------------- *)
(* Stated in linear arithmetic over the state code and pc-class counts so that lia decides every
   case; proved in five layers (each lia call sees only the facts it needs):
   A the `starting` flag and the start call, B the members, C1 the Start callback, C2 the
   Terminate callback, D who has been told.
   cd = members of this run that left the node but not yet the group, sl = the same for older
   runs, di = terminate / finalise calls in flight, pf = threads that know a.starting == 0,
   se = those that saw the group empty after that, fi = the finaliser between its swap and the end
   of the callback, pt = winners of Running->Stopping that have not yet told the members,
   sp = start calls between their CAS and the reset of a.starting, rbc = of which are past the
   roll-back's store of Loaded, sd = of which are past the Start callback. *)
Definition stc (x : ast) : nat := match x with SUnl => 0 | SL => 1 | SR => 2 | SS => 3 end.

Definition InvA (s : shared) (pf sp lp rbc : nat) : Prop :=
  rbc <= sp /\ lp <= sp /\ b2n (starting s) = sp /\
  (lp > 0 -> stc (st s) >= 2) /\ (rbc > 0 -> stc (st s) = 1) /\ (pf > 0 -> b2n (starting s) = 0).

Definition InvB (s : shared) (cd sl di dz pf se : nat) : Prop :=
  na s + cd = ng s /\ sl = 0 /\ cd <= di /\ se <= pf /\
  (stc (st s) <= 1 -> ng s = 0 \/ b2n (rbk s) = 1) /\
  (se > 0 -> ng s = 0 \/ b2n (rbk s) = 1) /\
  (stc (st s) = 0 -> dz = 0 /\ na s = 0).

Definition InvC1 (s : shared) (ps sd : nat) : Prop :=
  (ps > 0 -> runstarts s = 0) /\ (sd > 0 -> runstarts s = 1) /\
  (b2n (starting s) = 0 -> stc (st s) >= 2 -> runstarts s = 1) /\ runstarts s <= 1.

Definition InvC2 (s : shared) (pf fi : nat) : Prop :=
  fi <= pf /\ fi + runterms s <= 1 /\ (stc (st s) >= 2 -> fi + runterms s = 0) /\
  (fi >= 1 -> stc (st s) = 1) /\ (b2n (stopped s) = 1 -> stc (st s) <= 1) /\
  (fi + runterms s >= 1 -> runstarts s = 1).

Definition InvD (s : shared) (pt : nat) : Prop :=
  stc (st s) = 3 -> b2n (toldall s) = 1 \/ pt >= 1.

Definition IA (c : cfg) := InvA (sh c) (count pastflag (thr c)) (count starter (thr c)) (count inloop (thr c)) (count rbclear (thr c)).
Definition IB (c : cfg) := InvB (sh c) (count (deleter (gen (sh c))) (thr c)) (count (stale (gen (sh c))) (thr c))
                                (count die_inflight (thr c)) (count call_inflight (thr c)) (count pastflag (thr c))
                                (count sawempty (thr c)).
Definition IC1 (c : cfg) := InvC1 (sh c) (count prestart (thr c)) (count sdone (thr c)).
Definition IC2 (c : cfg) := InvC2 (sh c) (count pastflag (thr c)) (count finaliser (thr c)).
Definition ID (c : cfg) := InvD (sh c) (count pretell (thr c)).
Definition Inv (c : cfg) : Prop := IA c /\ IB c /\ IC1 c /\ IC2 c /\ ID c.

Lemma deleter_busy g p : deleter g p = true -> busy p = true.
Proof. destruct p; cbn; congruence. Qed.
Lemma die_busy p : die_inflight p = true -> busy p = true.
Proof. destruct p; cbn; congruence. Qed.
Lemma pastflag_busy p : pastflag p = true -> busy p = true.
Proof. destruct p; cbn; congruence. Qed.
Lemma starter_busy p : starter p = true -> busy p = true.
Proof. destruct p; cbn; congruence. Qed.
Lemma call_busy p : call_inflight p = true -> busy p = true.
Proof. destruct p; cbn; congruence. Qed.
Lemma deleter_inflight g p : deleter g p = true -> die_inflight p = true.
Proof. destruct p; cbn; congruence. Qed.
Lemma stale_inflight g p : stale g p = true -> die_inflight p = true.
Proof. destruct p; cbn; congruence. Qed.
Lemma sawempty_pastflag p : sawempty p = true -> pastflag p = true.
Proof. destruct p; cbn; congruence. Qed.
Lemma finaliser_pastflag p : finaliser p = true -> pastflag p = true.
Proof. destruct p; cbn; congruence. Qed.
Lemma rbclear_starter p : rbclear p = true -> starter p = true.
Proof. destruct p; cbn; congruence. Qed.
Lemma sdone_starter p : sdone p = true -> starter p = true.
Proof. destruct p; cbn; congruence. Qed.
Lemma inloop_starter p : inloop p = true -> starter p = true.
Proof. destruct p; cbn; congruence. Qed.
Lemma prestart_starter p : prestart p = true -> starter p = true.
Proof. destruct p; cbn; congruence. Qed.

Lemma initial_not_busy threads : forallb initial_pc threads = true -> count busy threads = 0.
Proof.
  intros H. induction threads as [|p l IH]; [reflexivity|]. cbn [forallb] in H. apply andb_true_iff in H as [H1 H2].
  rewrite count_cons, (IH H2). destruct p; cbn in H1; try discriminate; reflexivity.
Qed.

Lemma Inv_init n m threads : forallb initial_pc threads = true -> Inv (init_cfg n m threads).
Proof.
  intros H. pose proof (initial_not_busy threads H) as Hz.
  pose proof (count_le (deleter 0) busy threads (deleter_busy 0)).
  pose proof (count_le (stale 0) die_inflight threads (stale_inflight 0)).
  pose proof (count_le die_inflight busy threads die_busy).
  pose proof (count_le pastflag busy threads pastflag_busy).
  pose proof (count_le starter busy threads starter_busy).
  pose proof (count_le call_inflight busy threads call_busy).
  pose proof (count_le sawempty pastflag threads sawempty_pastflag).
  pose proof (count_le finaliser pastflag threads finaliser_pastflag).
  pose proof (count_le rbclear starter threads rbclear_starter).
  pose proof (count_le sdone starter threads sdone_starter).
  pose proof (count_le inloop starter threads inloop_starter).
  pose proof (count_le prestart starter threads prestart_starter).
  unfold Inv, IA, IB, IC1, IC2, ID, InvA, InvB, InvC1, InvC2, InvD, init_cfg, init_shared;
    cbn [sh thr st na ng gen stopped runterms toldall starting runstarts rbk stc b2n].
  repeat split; lia.
Qed.

Ltac shared_simpl :=
  cbn [st na ng gen mode reason stopped toldall nmem starts runterms terms starting runstarts rbk
       upd upd_st upd_mode upd_reason upd_told upd_na upd_del upd_closed upd_starting add_term add_start
       run_begin spawned rolled_back] in *.
Ltac cls := cbn [b2n negb andb orb stc deleter stale die_inflight stop_inflight start_inflight call_inflight busy pastflag
                 sawempty finaliser pretell starter inloop prestart rbclear sdone] in *.
(* one case: the step is known, everything is linear arithmetic *)
Ltac fin := unfold InvA, InvB, InvC1, InvC2, InvD in *; shared_simpl;
  repeat match goal with Hx : st _ = _ |- _ => rewrite Hx in *; clear Hx end;
  repeat match goal with Hx : stopped _ = _ |- _ => rewrite Hx in *; clear Hx end;
  repeat match goal with Hx : starting _ = _ |- _ => rewrite Hx in *; clear Hx end;
  repeat match goal with Hx : rbk _ = _ |- _ => rewrite Hx in *; clear Hx end;
  cls; lia.

(* the case analysis over the pc of the stepping thread, the same for every layer *)
Ltac step_cases s p Hp Hadm :=
  destruct p; cbn [step_pc] in Hp; try discriminate;
  [ (* S_cas *)
    apply andb_true_iff in Hadm as [Hd0 Hs0]; apply Nat.eqb_eq in Hd0; apply Nat.eqb_eq in Hs0;
    destruct (st s) eqn:Est; inversion Hp; subst; fin
  | (* S_spawn *)
    match type of Hp with context [?k <? nmem s] => destruct (k <? nmem s) end;
    [match type of Hp with context [fails_at ?f ?k] => destruct (fails_at f k) end|]; inversion Hp; subst; fin
  | (* S_chk *) destruct (st s) eqn:Est; inversion Hp; subst; fin
  | (* S_rbkill *) inversion Hp; subst; fin
  | (* S_rollback *) inversion Hp; subst; unfold rolled_back; destruct (Nat.ltb_spec 0 (ng s)); fin
  | (* S_rbclear *) inversion Hp; subst; fin
  | (* S_cb *) inversion Hp; subst; fin
  | (* S_done *) inversion Hp; subst; fin
  | (* S_len *) destruct (Nat.ltb_spec 0 (ng s)); inversion Hp; subst; fin
  | (* P_cas *) destruct (st s) eqn:Est; inversion Hp; subst; fin
  | (* P_load *)
    destruct (st s) eqn:Est;
    try match type of Hp with context [if ?f then _ else _] => destruct f end; inversion Hp; subst; fin
  | inversion Hp; subst; fin
  | inversion Hp; subst; fin
  | inversion Hp; subst; fin
  | (* P_wait *)
    destruct (stopped s) eqn:Ecl;
    [|match type of Hp with context [match ?k with 0 => _ | S _ => _ end] => destruct k end]; inversion Hp; subst; fin
  | (* D_die *) destruct (na s) eqn:Ena; [discriminate|]; inversion Hp; subst; cls;
    rewrite ?Nat.eqb_refl in *; fin
  | (* D_delete *)
    cls;
    match type of Hp with context [?g =? gen s] => destruct (Nat.eqb_spec g (gen s)) as [Eg|Eg] end;
    cbn [negb andb] in *;
    [ destruct (Nat.ltb_spec 0 (ng s)) | ]; inversion Hp; subst; unfold upd_del;
    [ destruct (rbk s) eqn:Erbk; destruct (Nat.ltb_spec 0 (pred (ng s))) | | ]; fin
  | (* D_mode *)
    match type of Hp with context [rule_fires ?m ?r] => destruct (rule_fires m r) end; inversion Hp; subst; fin
  | (* D_stopping *) destruct (st s) eqn:Est; inversion Hp; subst; fin
  | inversion Hp; subst; fin
  | inversion Hp; subst; fin
  | (* D_starting *) destruct (starting s) eqn:Esg; inversion Hp; subst; fin
  | (* D_len *) destruct (Nat.ltb_spec 0 (ng s)); inversion Hp; subst; fin
  | inversion Hp; subst; fin
  | (* D_loaded *) destruct (st s) eqn:Est; inversion Hp; subst; fin
  | inversion Hp; subst; fin
  | inversion Hp; subst; fin
  | (* U_cas *)
    apply andb_true_iff in Hadm as [Hd0 Hs0]; apply Nat.eqb_eq in Hd0; apply Nat.eqb_eq in Hs0;
    destruct (st s) eqn:Est; inversion Hp; subst; fin ].

Ltac open_step c i c' Hs Hadm p s' p' Hn Hp Hcnt Hge :=
  destruct (step_shape c i c' Hs) as (p & s' & p' & Hn & Hp & Hsh & Hcnt & Hge);
  unfold adm in Hadm; rewrite Hn in Hadm.

Lemma IA_step c i c' : IA c -> adm c i = true -> step c i = Some c' -> IA c'.
Proof.
  intros HA Hadm Hs. open_step c i c' Hs Hadm p s' p' Hn Hp Hcnt Hge.
  unfold IA in *. rewrite Hsh. clear Hsh.
  pose proof (count_le pastflag busy (thr c) pastflag_busy) as Bpf.
  pose proof (count_le starter busy (thr c) starter_busy) as Bsp.
  pose proof (count_le rbclear starter (thr c') rbclear_starter) as Lrb.
  pose proof (count_le inloop starter (thr c') inloop_starter) as Llp.
  remember (sh c) as s eqn:Heqs. clear Heqs.
  pose proof (b2n_le1 (starting s)) as Hb1.
  pose proof (Hcnt pastflag) as Epf. pose proof (Hcnt starter) as Esp.
  pose proof (Hcnt rbclear) as Erb. pose proof (Hcnt inloop) as Elp.
  pose proof (Hge pastflag) as Gpf. pose proof (Hge starter) as Gsp.
  pose proof (Hge rbclear) as Grb. pose proof (Hge inloop) as Glp.
  clear Hcnt Hge Hs Hn.
  step_cases s p Hp Hadm.
Qed.

(* facts of layer A that the other layers use, for the state before and after the step *)
Lemma IB_step c i c' : IA c -> IA c' -> IB c -> adm c i = true -> step c i = Some c' -> IB c'.
Proof.
  intros HA HA' HB Hadm Hs. open_step c i c' Hs Hadm p s' p' Hn Hp Hcnt Hge.
  unfold IA, IB in *. rewrite Hsh in *. clear Hsh.
  pose proof (count_le (deleter (gen (sh c))) busy (thr c) (deleter_busy _)) as Bcd.
  pose proof (count_le die_inflight busy (thr c) die_busy) as Bdi.
  pose proof (count_le call_inflight busy (thr c) call_busy) as Bdz.
  pose proof (count_le pastflag busy (thr c) pastflag_busy) as Bpf.
  pose proof (count_le starter busy (thr c) starter_busy) as Bsp.
  remember (sh c) as s eqn:Heqs. clear Heqs.
  pose proof (b2n_le1 (starting s)) as Hb1. pose proof (b2n_le1 (rbk s)) as Hb2.
  pose proof (Hcnt call_inflight) as Edz. pose proof (Hge call_inflight) as Gdz.
  pose proof (Hcnt (deleter (gen s))) as Ecd. pose proof (Hcnt (stale (gen s))) as Esl.
  pose proof (Hcnt die_inflight) as Edi. pose proof (Hcnt pastflag) as Epf. pose proof (Hcnt sawempty) as Ese.
  pose proof (Hcnt starter) as Esp. pose proof (Hcnt inloop) as Elp.
  pose proof (Hcnt (deleter (S (gen s)))) as Ecd'. pose proof (Hcnt (stale (S (gen s)))) as Esl'.
  pose proof (Hge (deleter (gen s))) as Gcd. pose proof (Hge (stale (gen s))) as Gsl.
  pose proof (Hge die_inflight) as Gdi. pose proof (Hge pastflag) as Gpf. pose proof (Hge sawempty) as Gse.
  pose proof (Hge starter) as Gsp. pose proof (Hge inloop) as Glp.
  pose proof (count_le (deleter (S (gen s))) die_inflight (thr c') (deleter_inflight _)) as Ld'.
  pose proof (count_le (stale (S (gen s))) die_inflight (thr c') (stale_inflight _)) as Ls'.
  pose proof (count_le (deleter (gen s)) die_inflight (thr c') (deleter_inflight _)) as Ld2.
  pose proof (count_le sawempty pastflag (thr c') sawempty_pastflag) as Lse.
  clear Hcnt Hge Hs Hn HA'.
  destruct HA as (_ & _ & A3 & A4 & _ & A6).
  step_cases s p Hp Hadm.
Qed.

Lemma IC1_step c i c' : IA c -> IC1 c -> adm c i = true -> step c i = Some c' -> IC1 c'.
Proof.
  intros HA HC Hadm Hs. open_step c i c' Hs Hadm p s' p' Hn Hp Hcnt Hge.
  unfold IA, IC1 in *. rewrite Hsh in *. clear Hsh.
  pose proof (count_le starter busy (thr c) starter_busy) as Bsp.
  pose proof (count_le sdone starter (thr c) sdone_starter) as Lsd.
  pose proof (count_le prestart starter (thr c) prestart_starter) as Lps.
  pose proof (count_le inloop starter (thr c) inloop_starter) as Llp.
  remember (sh c) as s eqn:Heqs. clear Heqs.
  pose proof (b2n_le1 (starting s)) as Hb1.
  pose proof (Hcnt starter) as Esp. pose proof (Hcnt sdone) as Esd. pose proof (Hcnt rbclear) as Erb.
  pose proof (Hcnt prestart) as Eps. pose proof (Hcnt inloop) as Elp.
  pose proof (Hge starter) as Gsp. pose proof (Hge sdone) as Gsd. pose proof (Hge rbclear) as Grb.
  pose proof (Hge prestart) as Gps. pose proof (Hge inloop) as Glp.
  clear Hcnt Hge Hs Hn.
  destruct HA as (A1 & A2 & A3 & A4 & A5 & _).
  step_cases s p Hp Hadm.
Qed.

Lemma IC2_step c i c' : IA c -> IB c -> IC1 c -> IC2 c -> adm c i = true -> step c i = Some c' -> IC2 c'.
Proof.
  intros HA HB HC1 HC Hadm Hs. open_step c i c' Hs Hadm p s' p' Hn Hp Hcnt Hge.
  unfold IA, IB, IC1, IC2 in *. rewrite Hsh in *. clear Hsh.
  pose proof (count_le pastflag busy (thr c) pastflag_busy) as Bpf.
  pose proof (count_le finaliser pastflag (thr c') finaliser_pastflag) as Lfi.
  remember (sh c) as s eqn:Heqs. clear Heqs.
  pose proof (b2n_le1 (starting s)) as Hb1. pose proof (b2n_le1 (stopped s)) as Hb2.
  pose proof (Hcnt pastflag) as Epf. pose proof (Hcnt finaliser) as Efi. pose proof (Hcnt call_inflight) as Edz.
  pose proof (Hcnt starter) as Esp. pose proof (Hcnt inloop) as Elp. pose proof (Hcnt prestart) as Eps.
  pose proof (Hge pastflag) as Gpf. pose proof (Hge finaliser) as Gfi. pose proof (Hge call_inflight) as Gdz.
  pose proof (Hge starter) as Gsp. pose proof (Hge inloop) as Glp. pose proof (Hge prestart) as Gps.
  clear Hcnt Hge Hs Hn.
  destruct HA as (_ & _ & A3 & A4 & _ & A6).
  destruct HB as (_ & _ & _ & _ & _ & _ & B7).
  destruct HC1 as (C1 & _ & C3 & C4).
  step_cases s p Hp Hadm.
Qed.

Lemma ID_step c i c' : ID c -> adm c i = true -> step c i = Some c' -> ID c'.
Proof.
  intros HD Hadm Hs. open_step c i c' Hs Hadm p s' p' Hn Hp Hcnt Hge.
  unfold ID in *. rewrite Hsh in *. clear Hsh.
  remember (sh c) as s eqn:Heqs. clear Heqs.
  pose proof (b2n_le1 (toldall s)) as Hb1.
  pose proof (Hcnt pretell) as Ept. pose proof (Hge pretell) as Gpt.
  clear Hcnt Hge Hs Hn.
  step_cases s p Hp Hadm.
Qed.

Lemma Inv_step c i c' : Inv c -> adm c i = true -> step c i = Some c' -> Inv c'.
Proof.
  intros (HA & HB & HC1 & HC2 & HD) Hadm Hs.
  pose proof (IA_step c i c' HA Hadm Hs) as HA'.
  exact (conj HA' (conj (IB_step c i c' HA HA' HB Hadm Hs) (conj (IC1_step c i c' HA HC1 Hadm Hs)
           (conj (IC2_step c i c' HA HB HC1 HC2 Hadm Hs) (ID_step c i c' HD Hadm Hs))))).
Qed.

(* ---- reachable configurations --------------------------------------------------------- *)
Theorem Inv_reachable n m threads sched :
  forallb initial_pc threads = true -> Inv (run_adm sched (init_cfg n m threads)).
Proof.
  intros H. apply run_adm_invariant; [|apply Inv_init; exact H].
  intros c i c' HI Ha Hs. eapply Inv_step; eauto.
Qed.

Section Reachable.
  Variables (n m : nat) (threads : list pc) (sched : list nat).
  Hypothesis Hinit : forallb initial_pc threads = true.
  Let c := run_adm sched (init_cfg n m threads).

  (* the Terminate callback runs at most once per run (= per successful CAS Loaded->Running), never
     while the application is still running / stopping, and only after the Start callback of the same
     run (which runs at most once) - whatever dies or is stopped during the spawn loop *)
  Theorem terminate_once :
    runterms (sh c) <= 1 /\ (st (sh c) = SR \/ st (sh c) = SS -> runterms (sh c) = 0) /\
    runstarts (sh c) <= 1 /\ (runterms (sh c) >= 1 -> runstarts (sh c) = 1).
  Proof.
    destruct (Inv_reachable n m threads sched Hinit) as (_ & _ & HC1 & HC2 & _). fold c in HC1, HC2.
    destruct HC1 as (_ & _ & _ & C4). destruct HC2 as (_ & D2 & D3 & _ & _ & D6).
    split; [lia|]. split; [|split; [exact C4 | intros; apply D6; lia]].
    intros H. assert (H2 : stc (st (sh c)) >= 2) by (destruct H as [H|H]; rewrite H; cbn [stc]; lia).
    specialize (D3 H2); lia.
  Qed.

  (* while start is spawning the members / running the Start callback nobody is past the flag check:
     the run is not being finalised *)
  Theorem no_finalise_while_starting :
    starting (sh c) = true -> count pastflag (thr c) = 0 /\ count finaliser (thr c) = 0.
  Proof.
    destruct (Inv_reachable n m threads sched Hinit) as (HA & _ & _ & HC2 & _). fold c in HA, HC2.
    destruct HA as (_ & _ & _ & _ & _ & A6). destruct HC2 as (D1 & _).
    intros H. rewrite H in A6. cbn [b2n] in A6.
    assert (count pastflag (thr c) = 0) by (destruct (count pastflag (thr c)); [reflexivity | assert (1 = 0) by (apply A6; lia); lia]).
    split; lia.
  Qed.

  (* every pid in the group is the pid of a member that is still registered in the node or whose
     terminate call is on its way to delete it: no dead pid stays in the group *)
  Theorem group_exact : na (sh c) + count (deleter (gen (sh c))) (thr c) = ng (sh c).
  Proof. destruct (Inv_reachable n m threads sched Hinit) as (_ & HB & _). fold c in HB. apply HB. Qed.

  (* back to loaded = nothing is left: no member registered in the node, the group is empty - unless a
     failed start has just been rolled back and a member it killed has not terminated yet (rbk) *)
  Theorem loaded_clean :
    st (sh c) = SL \/ st (sh c) = SUnl -> rbk (sh c) = false -> na (sh c) = 0 /\ ng (sh c) = 0.
  Proof.
    destruct (Inv_reachable n m threads sched Hinit) as (_ & HB & _). fold c in HB.
    destruct HB as (B1 & _ & _ & _ & B5 & _).
    intros H Hr. rewrite Hr in B5. cbn [b2n] in B5.
    assert (H2 : stc (st (sh c)) <= 1) by (destruct H as [H|H]; rewrite H; cbn [stc]; lia).
    specialize (B5 H2). lia.
  Qed.

  (* a stop call that is about to return success (from the wait on the stopped channel, or because
     it found the application loaded) does so in a state where every member has terminated *)
  Definition returns_ok (p : pc) : bool :=
    match p with P_wait _ | P_load _ _ => true | _ => false end.

  Theorem stop_truthful i p s' :
    nth_error (thr c) i = Some p -> returns_ok p = true ->
    step_pc (sh c) p = Some (s', Done 0) ->
    rbk (sh c) = false -> na (sh c) = 0 /\ ng (sh c) = 0.
  Proof.
    destruct (Inv_reachable n m threads sched Hinit) as (_ & HB & _ & HC2 & _). fold c in HB, HC2.
    destruct HB as (B1 & _ & _ & _ & B5 & _). destruct HC2 as (_ & _ & _ & _ & D5 & _).
    intros Hn Hr Hs Hk. rewrite Hk in B5. cbn [b2n] in B5.
    assert (stc (st (sh c)) <= 1) as Hle.
    { destruct p; try discriminate; cbn [step_pc] in Hs.
      - destruct (st (sh c)) eqn:Est; cbn [stc]; try lia;
          destruct force; try discriminate; cbn [ast_eqb] in Hs; discriminate.
      - destruct (stopped (sh c)) eqn:Ec; [cbn [b2n] in D5; apply D5; reflexivity|].
        destruct polls; discriminate. }
    specialize (B5 Hle). lia.
  Qed.

  (* once the application is stopping, every member whose start call is past its check has been told
     to terminate, or the thread that switched the state is on its way to tell them (it is between
     its CAS and its SendExit loop); a member spawned later is told by the check of the start call *)
  Theorem stopping_tells_all :
    st (sh c) = SS -> toldall (sh c) = true \/ count pretell (thr c) >= 1.
  Proof.
    destruct (Inv_reachable n m threads sched Hinit) as (_ & _ & _ & _ & H). fold c in H.
    intros Hs. unfold ID, InvD in H. rewrite Hs in H. cbn [stc] in H.
    destruct (H eq_refl) as [Ht|Ht]; [left|right; exact Ht].
    destruct (toldall (sh c)); [reflexivity | discriminate].
  Qed.
End Reachable.

(* a member spawned while the application is no longer running is told by the start call itself *)
Theorem late_member_told s fail k :
  st s <> SR -> step_pc s (S_chk fail k) = Some (s, S_spawn fail (S k)).
Proof. intros H. cbn [step_pc]. destruct (st s); congruence. Qed.

(* the mode rule at the step where a dying member consults it: the state goes to Stopping exactly
   for Permanent / Transient+abnormal, and that thread then writes its reason and tells the group *)
Theorem mode_rule_step s r :
  step_pc s (D_mode r) = Some (s, if rule_fires (mode s) r then D_stopping r else D_starting) /\
  (st s = SR -> step_pc s (D_stopping r) = Some (upd_st s SS, D_reason r)) /\
  step_pc s (D_reason r) = Some (upd_reason s (Some r), D_tell) /\
  step_pc s D_tell = Some (upd_told s true, D_starting).
Proof.
  repeat split; cbn [step_pc]; [destruct (rule_fires (mode s) r); reflexivity | intros H; rewrite H; reflexivity].
Qed.

(* the cause is set only by the transition that wins the CAS Running->Stopping: a member that
   terminates later (the application is stopping or already loaded), with whatever reason, leaves
   a.reason - and so the reason the Terminate callback will get - untouched *)
Theorem late_death_keeps_reason s r :
  st s <> SR ->
  step_pc s (D_stopping r) = Some (s, D_starting) /\
  (forall s' p', step_pc s (D_mode r) = Some (s', p') -> reason s' = reason s) /\
  (forall p, die_inflight p = true ->
     match p with D_reason _ | D_default => True | _ =>
       forall s' p', step_pc s p = Some (s', p') -> reason s' = reason s end).
Proof.
  intros H. split; [cbn [step_pc]; destruct (st s); congruence|]. split.
  - intros s' p' E. cbn [step_pc] in E. destruct (rule_fires (mode s) r); inversion E; reflexivity.
  - intros p Hd. destruct p; try discriminate Hd; try exact I; intros s' p' E; cbn [step_pc] in E;
      repeat match type of E with
             | context [if ?b then _ else _] => destruct b
             | context [match st s with _ => _ end] => destruct (st s)
             end; inversion E; reflexivity.
Qed.

(* Temporary: the last member to leave the group finalises the run (once start is through) *)
Theorem last_member_finalises s :
  starting s = false -> ng s = 0 ->
  step_pc s D_starting = Some (s, D_len) /\ step_pc s D_len = Some (s, D_default).
Proof. intros H1 H2. cbn [step_pc]. rewrite H1, H2. split; reflexivity. Qed.

(* ---- back to loaded = restartable ------------------------------------------------------- *)
(* the start call of a loaded application whose members have all gone, run alone: CAS, one spawn and
   one check per member, Start callback, flag reset, final look at the group *)
Lemma run_one s p tl s' p' :
  step_pc s p = Some (s', p') -> run (0 :: tl) (mk_cfg s [p]) = run tl (mk_cfg s' [p']).
Proof. intros H. cbn [run step thr sh nth_error]. rewrite H. reflexivity. Qed.

Lemma rep_SS i d : rep i (2 * S d) = i :: i :: rep i (2 * d).
Proof. replace (2 * S d) with (S (S (2 * d))) by lia. reflexivity. Qed.

Lemma rep_app i a b : rep i (a + b) = rep i a ++ rep i b.
Proof. induction a as [|a IH]; [reflexivity|]. cbn [Nat.add rep List.app]. rewrite IH. reflexivity. Qed.

Lemma run_app s1 s2 c : run (s1 ++ s2) c = run s2 (run s1 c).
Proof. revert c; induction s1 as [|i tl IH]; intros c; [reflexivity|]. cbn [List.app run]. destruct (step c i); apply IH. Qed.

Lemma loop_alone d : forall s k,
  nmem s = k + d -> st s = SR ->
  exists s', run (rep 0 (2 * d)) (mk_cfg s [S_spawn None k]) = mk_cfg s' [S_spawn None (k + d)] /\
    st s' = SR /\ na s' = na s + d /\ ng s' = ng s + d /\ nmem s' = nmem s /\ starts s' = starts s /\
    runstarts s' = runstarts s /\ runterms s' = runterms s /\ starting s' = starting s /\ gen s' = gen s.
Proof.
  induction d as [|d IH]; intros s k Hn Hs.
  - exists s. cbn [Nat.mul rep run]. rewrite !Nat.add_0_r. repeat split; try reflexivity; assumption.
  - rewrite rep_SS.
    assert (E1 : step_pc s (S_spawn None k) = Some (spawned s, S_chk None k)).
    { cbn [step_pc fails_at]. destruct (Nat.ltb_spec k (nmem s)); [reflexivity | lia]. }
    rewrite (run_one _ _ _ _ _ E1).
    assert (E2 : step_pc (spawned s) (S_chk None k) = Some (upd_told (spawned s) false, S_spawn None (S k))).
    { cbn [step_pc spawned upd st]. rewrite Hs. reflexivity. }
    rewrite (run_one _ _ _ _ _ E2).
    destruct (IH (upd_told (spawned s) false) (S k)) as (s' & R & A1 & A2 & A3 & A4 & A5 & A6 & A7 & A8 & A9).
    { cbn [upd_told spawned upd nmem]. lia. }
    { cbn [upd_told spawned upd st]. exact Hs. }
    exists s'. cbn [upd_told spawned upd st na ng nmem starts runstarts runterms starting gen] in *.
    replace (k + S d) with (S k + d) by lia.
    repeat split; try assumption; lia.
Qed.

Theorem restartable s mode' :
  st s = SL -> na s = 0 -> ng s = 0 -> 0 < nmem s ->
  exists s', run (rep 0 (2 * nmem s + 5)) (mk_cfg s [S_cas mode' None]) = mk_cfg s' [Done 0] /\
    st s' = SR /\ na s' = nmem s /\ ng s' = nmem s /\ starts s' = S (starts s) /\
    runstarts s' = 1 /\ runterms s' = 0 /\ starting s' = false /\ gen s' = S (gen s).
Proof.
  intros Hs Ha Hg Hpos.
  replace (2 * nmem s + 5) with (1 + (2 * nmem s + 4)) by lia. cbn [Nat.add rep].
  assert (E0 : step_pc s (S_cas mode' None) = Some (run_begin s mode', S_spawn None 0)).
  { cbn [step_pc]. rewrite Hs. reflexivity. }
  rewrite (run_one _ _ _ _ _ E0). rewrite rep_app, run_app.
  destruct (loop_alone (nmem s) (run_begin s mode') 0) as (s1 & R & A1 & A2 & A3 & A4 & A5 & A6 & A7 & A8 & A9);
    [reflexivity | reflexivity |].
  rewrite R. cbn [run_begin st na ng nmem starts runstarts runterms starting gen Nat.add] in *.
  cbn [rep].
  assert (E1 : step_pc s1 (S_spawn None (nmem s)) = Some (s1, S_cb)).
  { cbn [step_pc]. rewrite A4. rewrite Nat.ltb_irrefl. reflexivity. }
  rewrite (run_one _ _ _ _ _ E1).
  assert (E2 : step_pc s1 S_cb = Some (add_start s1, S_done)) by reflexivity.
  rewrite (run_one _ _ _ _ _ E2).
  assert (E3 : step_pc (add_start s1) S_done = Some (upd_starting (add_start s1) false, S_len)) by reflexivity.
  rewrite (run_one _ _ _ _ _ E3).
  set (s2 := upd_starting (add_start s1) false).
  assert (E4 : step_pc s2 S_len = Some (s2, Done 0)).
  { subst s2. cbn [step_pc upd_starting add_start upd ng]. rewrite A3, Hg. cbn [Nat.add].
    destruct (Nat.ltb_spec 0 (nmem s)); [reflexivity | lia]. }
  rewrite (run_one _ _ _ _ _ E4). cbn [run].
  exists s2. subst s2. cbn [upd_starting add_start upd st na ng starts runstarts runterms starting gen].
  repeat split; try lia; try assumption; congruence.
Qed.

(* ---- what goes wrong without the guard (known finding restart-race) --------------------- *)
(* two members of a temporary application die concurrently; both see the group empty; one finalises;
   the application is started again; the other one then swaps the state of the NEW run to Loaded,
   closes its channel and runs the Terminate callback while its two members are alive *)
Definition race_threads : list pc := [S_cas 1 None; D_die 0; D_die 0; S_cas 1 None].
Definition race_sched : list nat :=
  rep 0 9 ++ rep 1 4 ++ rep 2 5 ++ [1] ++ rep 2 4 ++ rep 3 9 ++ rep 1 4.
(* boolean form: the application is Loaded, both members of the new run are alive, the Terminate
   callback has run twice and the new run's stopped channel is closed *)
Definition restart_race_b (threads : list pc) (sched : list nat) : bool :=
  let c := run sched (init_cfg 2 1 threads) in
  ast_eqb (st (sh c)) SL && (na (sh c) =? 2) && (length (terms (sh c)) =? 2) && stopped (sh c).

Theorem restart_race_refuted :
  exists threads sched, forallb initial_pc threads = true /\ restart_race_b threads sched = true.
Proof. exists race_threads, race_sched. split; vm_compute; reflexivity. Qed.

(* the same schedule is not admissible: the guard skips the second start while a terminate call is
   in flight, and the invariant holds at its end *)
Example restart_race_guarded :
  restart_race_b race_threads race_sched = true /\
  na (sh (run_adm race_sched (init_cfg 2 1 race_threads))) = 0.
Proof. split; vm_compute; reflexivity. Qed.

(* the hypotheses are satisfiable by non-trivial runs.
   (1) temporary application, three member specs: member 0 terminates right after its spawn (before the
   check of the start call), ApplicationStop is called while member 1 is being started, member 2 is
   spawned into the stopping application and told by the start call; the Start callback runs, then the
   last member to go finalises the run: loaded, nobody left, Start once, Terminate once with `shutdown`,
   the stop call returns success. *)
Example start_loop_run_nontrivial :
  let c := run_adm ([0; 0] ++ rep 1 4 ++ [0; 0] ++ rep 2 4 ++ rep 0 8 ++ rep 3 9 ++ rep 4 9 ++ rep 2 3)
                   (init_cfg 3 1 [S_cas 1 None; D_die 0; P_cas false 3; D_die 1; D_die 1]) in
  st (sh c) = SL /\ na (sh c) = 0 /\ ng (sh c) = 0 /\ terms (sh c) = [1] /\ starts (sh c) = 1 /\
  thr c = [Done 0; Done 0; Done 0; Done 0; Done 0].
Proof. vm_compute. repeat split. Qed.

(* (2) every member terminates while start is still in its loop (temporary, two members, both die
   `normal` right after their spawn): nobody finalises the run until the Start callback has run, then the
   start call itself ends the run: Start once, then Terminate(normal), loaded. *)
Example start_finalises_itself :
  let c := run_adm ([0; 0] ++ rep 1 4 ++ [0; 0] ++ rep 2 4 ++ rep 0 12)
                   (init_cfg 2 1 [S_cas 1 None; D_die 0; D_die 0]) in
  st (sh c) = SL /\ na (sh c) = 0 /\ ng (sh c) = 0 /\ terms (sh c) = [0] /\ starts (sh c) = 1 /\
  thr c = [Done 0; Done 0; Done 0].
Proof. vm_compute. repeat split. Qed.

(* (3) permanent application, two members, one dies abnormally while a stop call and the other
   member's death race; the run ends loaded, one callback *)
Example guarded_run_nontrivial :
  let c := run_adm (rep 0 9 ++ [1; 1; 3; 3; 1; 2; 2; 1; 1; 3; 2; 2; 2; 2; 2; 2; 2; 2; 1; 1; 1; 1; 3; 3; 3; 3; 3; 3; 1; 1; 1; 1; 2; 2; 2; 2; 3; 3; 3])
                   (init_cfg 2 3 [S_cas 3 None; D_die 4; D_die 1; P_cas false 3]) in
  st (sh c) = SL /\ na (sh c) = 0 /\ length (terms (sh c)) = 1 /\ starts (sh c) = 1 /\
  thr c = [Done 0; Done 0; Done 0; Done 0].
Proof. vm_compute. repeat split. Qed.

(* ---- the cause under concurrency (known finding cause-race) ------------------------------- *)
(* a.reason is written AFTER the CAS Running->Stopping: a permanent application whose two members
   die concurrently with reasons 4 and 3 (both abnormal) can hand `normal` (0) to the Terminate
   callback - the second member finalises the run between the first one's CAS and its write.
   The schedule respects the guard. *)
Definition cause_threads : list pc := [S_cas 3 None; D_die 4; D_die 3].
Definition cause_sched : list nat := rep 0 9 ++ rep 1 4 ++ rep 2 10 ++ rep 1 6.
Definition cause_race_b (threads : list pc) (sched : list nat) : bool :=
  let c := run_adm sched (init_cfg 2 3 threads) in
  ast_eqb (st (sh c)) SL && (na (sh c) =? 0) &&
  match terms (sh c) with [r] => r =? 0 | _ => false end.

Theorem cause_race_refuted :
  exists threads sched, forallb initial_pc threads = true /\ cause_race_b threads sched = true.
Proof. exists cause_threads, cause_sched. split; vm_compute; reflexivity. Qed.

(* ---- a failed start while a started member is busy (known finding rollback-busy) ---------- *)
(* the roll-back of a failed start kills the members started so far and stores Loaded at once; a
   member that is inside a callback terminates only when it leaves it.  Guarded schedule: member 1 of
   a permanent application refuses to start, member 0 has not terminated yet: the application is
   loaded with a live member, the start has returned its error and a stop call reports success. *)
Definition rollback_threads : list pc := [S_cas 3 (Some 1); P_cas false 3].
Definition rollback_sched : list nat := rep 0 7 ++ rep 1 2.
Definition rollback_busy_b (threads : list pc) (sched : list nat) : bool :=
  let c := run_adm sched (init_cfg 2 3 threads) in
  ast_eqb (st (sh c)) SL && (na (sh c) =? 1) && rbk (sh c) &&
  match thr c with [Done 7; Done 0] => true | _ => false end.

Theorem rollback_busy_refuted :
  exists threads sched, forallb initial_pc threads = true /\ rollback_busy_b threads sched = true.
Proof. exists rollback_threads, rollback_sched. split; vm_compute; reflexivity. Qed.

(* what does hold for every guarded schedule: the reason handed over is the content of a.reason,
   which only ever holds a reason written by a stop call, by a member whose death switched the
   state, or `normal` - and in the sequential model (App/SeqProofs.v, App/SeqHist.v) it is exactly the cause. *)
