(* App engine, small-step model of /repo/node/application.go (after the fix commits, see
   findings/C17.md): the state word, the member group, mode, reason, the stopped channel and the
   callbacks, driven by any number of concurrent threads under any schedule.  One step = one
   shared access of the Go code; the yield point (lib.VerifPoint label) is quoted at each pc.

   application.start is a thread program of its own: CAS, then per member one spawn step (Init, the pid
   stored in the group, the process registered in the node - in this order inside node.spawnMember, so
   the three are one step: the process can neither run nor be killed in between) and one check step,
   the Start callback, the reset of the `starting` flag and the final look at the group; members may
   die and stop may be called between any two of them.

   Members are counted, not named: na = member processes still registered in the node,
   ng = len(a.group).  A dying member remembers the run (gen) its pid belongs to, so
   group.LoadAndDelete(pid) succeeds exactly for members of the current run - pids of different
   runs are different.  The sequential (atomic-operation) model of the same code, with named
   members, several applications and the dependency recursion, is App/Seq.v.
   Definitions only - proofs in App/Proofs.v. *)
From Ergo Require Import Common.Base App.Seq.

Inductive ast := SUnl | SL | SR | SS.   (* 0 (unloaded) / Loaded / Running / Stopping *)

Definition ast_eqb (a b : ast) : bool :=
  match a, b with SUnl, SUnl | SL, SL | SR, SR | SS, SS => true | _, _ => false end.

Record shared := mk_sh {
  st : ast;                (* a.state *)
  na : nat;                (* member processes registered in the node *)
  ng : nat;                (* a.group.Len() *)
  gen : nat;               (* number of successful CAS Loaded->Running so far: names the run *)
  mode : nat;              (* a.mode *)
  reason : option nat;     (* a.reason *)
  stopped : bool;          (* a.stopped is closed *)
  toldall : bool;          (* every member still in the group has been sent an exit signal *)
  nmem : nat;              (* len(a.spec.Group) *)
  starts : nat;            (* Start callbacks *)
  runterms : nat;          (* Terminate callbacks since the last successful CAS Loaded->Running *)
  terms : list nat;        (* reasons given to the Terminate callback, oldest first *)
  starting : bool;         (* a.starting: start() is spawning the members / running the Start callback *)
  runstarts : nat;         (* Start callbacks since the last successful CAS Loaded->Running *)
  rbk : bool               (* ghost: a rolled-back start stored Loaded while killed members were still in the
                              group, and the last of them has not left it yet *)
}.

Inductive pc :=
(* application.start(mode); fail = Some k: the spawn of member k fails (its Init returns an error) *)
| S_cas (mode : nat) (fail : option nat) (* "app.start.cas"  CAS Loaded->Running; a.reason = nil; a.mode = mode;
                                            a.stopped = make(chan); a.starting = 1 *)
| S_spawn (fail : option nat) (k : nat)  (* "app.start.spawn" + "app.start.store": spawnMember of item k *)
| S_chk (fail : option nat) (k : nat)    (* "app.start.check" state != Running -> SendExit(pid, shutdown) *)
| S_rbkill                               (* roll-back: Kill every member of the group *)
| S_rollback                             (* "app.start.rollback" atomic.StoreInt32(&a.state, Loaded) *)
| S_rbclear                              (* a.starting = 0; return err *)
| S_cb                                   (* "app.start.cb"   a.behavior.Start(mode) *)
| S_done                                 (* "app.start.done" a.starting = 0 *)
| S_len                                  (* "app.start.len"  a.group.Len() == 0 -> a.finalise() *)
(* application.stop(force, timeout); polls = how often the waiter looks at a.stopped before its
   timeout fires *)
| P_cas (force : bool) (polls : nat)     (* "app.stop.cas"   CAS Running->Stopping *)
| P_load (force : bool) (polls : nat)    (* "app.stop.load"  state := Load *)
| P_mode (force : bool) (polls : nat)    (* "app.stop.mode"  a.mode = Temporary *)
| P_reason (force : bool) (polls : nat)  (* "app.stop.reason" a.reason = shutdown / kill *)
| P_tell (polls : nat)                   (* "app.stop.tell"  SendExit / Kill every member *)
| P_wait (polls : nat)                   (* "app.stop.wait"  select { <-a.stopped | timeout } *)
(* a member terminates with reason r: unregisterProcess, then application.terminate(pid, r) *)
| D_die (r : nat)                        (* "unreg.delete"   n.processes.Delete(pid) *)
| D_delete (g r : nat)                   (* "app.term.delete" a.group.LoadAndDelete(pid) *)
| D_mode (r : nat)                       (* "app.term.mode"  switch a.mode *)
| D_stopping (r : nat)                   (* "app.term.stopping" CAS Running->Stopping *)
| D_reason (r : nat)                     (* "app.term.reason" a.reason = r *)
| D_tell                                 (* "app.term.tell"  SendExit(shutdown) to the group *)
| D_starting                             (* "app.term.starting" a.starting == 1 -> return *)
| D_len                                  (* "app.term.len"   a.group.Len() > 0 ? *)
(* a.finalise(): reached from terminate and from the end of start *)
| D_default                              (* "app.term.default" a.reason == nil -> normal *)
| D_loaded                               (* "app.term.loaded" old := Swap(Loaded) *)
| D_close                                (* "app.term.close" close(a.stopped) *)
| D_cb                                   (* "app.term.cb"    a.behavior.Terminate(a.reason) *)
(* tryUnload *)
| U_cas                                  (* "app.unload.cas" CAS Loaded->0 *)
| Done (ret : nat).

Record cfg := mk_cfg { sh : shared; thr : list pc }.

(* functional record update: every field named, so that `cbn [fields upd]` reduces projections *)
Definition upd (s : shared) (st' : ast) (na' ng' : nat) (mode' : nat) (reason' : option nat)
               (stopped' toldall' starting' rbk' : bool) : shared :=
  mk_sh st' na' ng' (gen s) mode' reason' stopped' toldall' (nmem s) (starts s) (runterms s) (terms s)
        starting' (runstarts s) rbk'.

Definition upd_st (s : shared) (x : ast) : shared :=
  upd s x (na s) (ng s) (mode s) (reason s) (stopped s) (toldall s) (starting s) (rbk s).
Definition upd_mode (s : shared) (x : nat) : shared :=
  upd s (st s) (na s) (ng s) x (reason s) (stopped s) (toldall s) (starting s) (rbk s).
Definition upd_reason (s : shared) (x : option nat) : shared :=
  upd s (st s) (na s) (ng s) (mode s) x (stopped s) (toldall s) (starting s) (rbk s).
Definition upd_told (s : shared) (b : bool) : shared :=
  upd s (st s) (na s) (ng s) (mode s) (reason s) (stopped s) b (starting s) (rbk s).
Definition upd_na (s : shared) (x : nat) : shared :=
  upd s (st s) x (ng s) (mode s) (reason s) (stopped s) (toldall s) (starting s) (rbk s).
(* a.group.LoadAndDelete(pid) found the pid; ghost: the last killed member of a rolled-back start *)
Definition upd_del (s : shared) : shared :=
  upd s (st s) (na s) (pred (ng s)) (mode s) (reason s) (stopped s) (toldall s) (starting s)
      (rbk s && (0 <? pred (ng s))).
Definition upd_closed (s : shared) : shared :=
  upd s (st s) (na s) (ng s) (mode s) (reason s) true (toldall s) (starting s) (rbk s).
Definition upd_starting (s : shared) (b : bool) : shared :=
  upd s (st s) (na s) (ng s) (mode s) (reason s) (stopped s) (toldall s) b (rbk s).
Definition reason_or_normal (s : shared) : nat := match reason s with Some r => r | None => 0 end.
Definition add_term (s : shared) : shared :=
  mk_sh (st s) (na s) (ng s) (gen s) (mode s) (reason s) (stopped s) (toldall s) (nmem s) (starts s)
        (S (runterms s)) (terms s ++ [reason_or_normal s]) (starting s) (runstarts s) (rbk s).
Definition add_start (s : shared) : shared :=
  mk_sh (st s) (na s) (ng s) (gen s) (mode s) (reason s) (stopped s) (toldall s) (nmem s) (S (starts s))
        (runterms s) (terms s) (starting s) (S (runstarts s)) (rbk s).

(* the CAS Loaded->Running succeeded: a new run.  a.reason = nil, a.mode = mode,
   a.stopped = make(chan struct{}), a.starting = 1 (no yield point in between) *)
Definition run_begin (s : shared) (m : nat) : shared :=
  mk_sh SR (na s) (ng s) (S (gen s)) m None false false (nmem s) (starts s) 0 (terms s) true 0 false.
(* node.spawnMember succeeded: Init ran, a.group.Store(pid), n.processes.Store(pid).  The new member
   has not been told anything; it is the business of the check step that follows (toldall speaks about
   the members whose start call is past its check) *)
Definition spawned (s : shared) : shared :=
  upd s (st s) (S (na s)) (S (ng s)) (mode s) (reason s) (stopped s) (toldall s) (starting s) (rbk s).
(* atomic.StoreInt32(&a.state, Loaded) of the roll-back; ghost: killed members are still in the group *)
Definition rolled_back (s : shared) : shared :=
  upd s SL (na s) (ng s) (mode s) (reason s) (stopped s) (toldall s) (starting s) (0 <? ng s).

Definition fails_at (fail : option nat) (k : nat) : bool :=
  match fail with Some j => j =? k | None => false end.

Definition step_pc (s : shared) (p : pc) : option (shared * pc) :=
  match p with
  | S_cas m fail =>
      match st s with
      | SL => Some (run_begin s m, S_spawn fail 0)
      | SR => Some (s, Done 1)      (* ErrApplicationRunning *)
      | _ => Some (s, Done 2)       (* ErrApplicationState *)
      end
  | S_spawn fail k =>
      if k <? nmem s then
        if fails_at fail k then Some (s, S_rbkill)     (* spawn returned an error *)
        else Some (spawned s, S_chk fail k)
      else Some (s, S_cb)                              (* the loop is over *)
  | S_chk fail k =>
      match st s with
      | SR => Some (upd_told s false, S_spawn fail (S k))  (* one more member nobody has told *)
      | _ => Some (s, S_spawn fail (S k))                  (* SendExit(pid, shutdown) *)
      end
  | S_rbkill => Some (upd_told s true, S_rollback)
  | S_rollback => Some (rolled_back s, S_rbclear)
  | S_rbclear => Some (upd_starting s false, Done 7)
  | S_cb => Some (add_start s, S_done)
  | S_done => Some (upd_starting s false, S_len)
  | S_len => if 0 <? ng s then Some (s, Done 0) else Some (s, D_default)
  | P_cas f k =>
      match st s with
      | SR => Some (upd_st s SS, P_mode f k)
      | _ => Some (s, P_load f k)
      end
  | P_load f k =>
      match st s with
      | SL => Some (s, Done 0)      (* already stopped *)
      | x => if f then Some (s, P_mode f k)
             else Some (s, Done (if ast_eqb x SS then 3 else 2))
      end
  | P_mode f k => Some (upd_mode s 1, P_reason f k)
  | P_reason f k => Some (upd_reason s (Some (if f then 2 else 1)), P_tell k)
  | P_tell k => Some (upd_told s true, P_wait k)
  | P_wait k =>
      if stopped s then Some (s, Done 0)
      else match k with 0 => Some (s, Done 3) | S k' => Some (s, P_wait k') end
  | D_die r =>
      match na s with
      | 0 => None                   (* no member left to die *)
      | S n => Some (upd_na s n, D_delete (gen s) r)
      end
  | D_delete g r =>
      if (g =? gen s) && (0 <? ng s) then Some (upd_del s, D_mode r)
      else Some (s, Done 0)         (* not in the group: do nothing *)
  | D_mode r => if rule_fires (mode s) r then Some (s, D_stopping r) else Some (s, D_starting)
  | D_stopping r =>
      match st s with
      | SR => Some (upd_st s SS, D_reason r)
      | _ => Some (s, D_starting)   (* already stopping (or stopped) *)
      end
  | D_reason r => Some (upd_reason s (Some r), D_tell)
  | D_tell => Some (upd_told s true, D_starting)
  | D_starting => if starting s then Some (s, Done 0) else Some (s, D_len)
  | D_len => if 0 <? ng s then Some (s, Done 0) else Some (s, D_default)
  | D_default => Some (upd_reason s (Some (reason_or_normal s)), D_loaded)
  | D_loaded =>
      match st s with
      | SL => Some (s, Done 0)
      | _ => Some (upd_st s SL, D_close)
      end
  | D_close => Some (upd_closed s, D_cb)
  | D_cb => Some (add_term s, Done 0)
  | U_cas =>
      match st s with
      | SL => Some (upd_st s SUnl, Done 0)
      | _ => Some (s, Done 1)       (* ErrApplicationRunning *)
      end
  | Done _ => None
  end.

Fixpoint set_nth (l : list pc) (i : nat) (p : pc) : list pc :=
  match l, i with
  | [], _ => []
  | _ :: tl, 0 => p :: tl
  | x :: tl, S i' => x :: set_nth tl i' p
  end.

Definition step (c : cfg) (i : nat) : option cfg :=
  match nth_error (thr c) i with
  | None => None
  | Some p =>
      match step_pc (sh c) p with
      | None => None
      | Some (s', p') => Some (mk_cfg s' (set_nth (thr c) i p'))
      end
  end.

(* a schedule is any list of thread choices; a choice that is not enabled is skipped *)
Fixpoint run (sched : list nat) (c : cfg) : cfg :=
  match sched with
  | [] => c
  | i :: tl => match step c i with Some c' => run tl c' | None => run tl c end
  end.

(* ---- pc classes ----------------------------------------------------------------------- *)
Definition count (f : pc -> bool) (l : list pc) : nat := length (filter f l).

(* inside application.terminate / application.finalise *)
Definition die_inflight (p : pc) : bool :=
  match p with
  | D_delete _ _ | D_mode _ | D_stopping _ | D_reason _ | D_tell | D_starting | D_len | D_default | D_loaded
  | D_close | D_cb => true
  | _ => false
  end.
Definition stop_inflight (p : pc) : bool :=
  match p with P_load _ _ | P_mode _ _ | P_reason _ _ | P_tell _ | P_wait _ => true | _ => false end.
Definition start_inflight (p : pc) : bool :=
  match p with
  | S_spawn _ _ | S_chk _ _ | S_rbkill | S_rollback | S_rbclear | S_cb | S_done | S_len => true
  | _ => false
  end.
Definition call_inflight (p : pc) : bool := die_inflight p || start_inflight p.
Definition busy (p : pc) : bool := die_inflight p || stop_inflight p || start_inflight p.
Definition deleter (g : nat) (p : pc) : bool := match p with D_delete g' _ => g' =? g | _ => false end.
Definition stale (g : nat) (p : pc) : bool := match p with D_delete g' _ => negb (g' =? g) | _ => false end.
(* has read a.starting == 0 in this run (or has reset it itself) *)
Definition pastflag (p : pc) : bool :=
  match p with S_len | D_len | D_default | D_loaded | D_close | D_cb => true | _ => false end.
Definition sawempty (p : pc) : bool := match p with D_default | D_loaded => true | _ => false end.
Definition finaliser (p : pc) : bool := match p with D_close | D_cb => true | _ => false end.
Definition pretell (p : pc) : bool :=
  match p with P_mode _ _ | P_reason _ _ | P_tell _ | D_reason _ | D_tell => true | _ => false end.
(* the start call between its CAS and the reset of a.starting *)
Definition starter (p : pc) : bool :=
  match p with S_spawn _ _ | S_chk _ _ | S_rbkill | S_rollback | S_rbclear | S_cb | S_done => true | _ => false end.
(* ... before the roll-back's store of Loaded / before the Start callback has returned *)
Definition inloop (p : pc) : bool :=
  match p with S_spawn _ _ | S_chk _ _ | S_rbkill | S_rollback | S_cb | S_done => true | _ => false end.
Definition prestart (p : pc) : bool :=
  match p with S_spawn _ _ | S_chk _ _ | S_rbkill | S_rollback | S_rbclear | S_cb => true | _ => false end.
Definition rbclear (p : pc) : bool := match p with S_rbclear => true | _ => false end.
Definition sdone (p : pc) : bool := match p with S_done => true | _ => false end.

(* the guard of the theorems: a start / unload begins only at quiescence - no terminate, stop or
   start call is in flight and no member (of an earlier, rolled-back attempt) is alive *)
Definition adm (c : cfg) (i : nat) : bool :=
  match nth_error (thr c) i with
  | Some (S_cas _ _) | Some U_cas => (count busy (thr c) =? 0) && (na (sh c) =? 0)
  | _ => true
  end.

Fixpoint run_adm (sched : list nat) (c : cfg) : cfg :=
  match sched with
  | [] => c
  | i :: tl =>
      if adm c i then match step c i with Some c' => run_adm tl c' | None => run_adm tl c end
      else run_adm tl c
  end.

(* ---- initial configurations ----------------------------------------------------------- *)
Definition initial_pc (p : pc) : bool :=
  match p with S_cas _ _ | P_cas _ _ | D_die _ | U_cas => true | _ => false end.

(* a loaded application with n member specs and any list of threads at their first pc *)
Definition init_shared (n : nat) (m : nat) : shared := mk_sh SL 0 0 0 m None false false n 0 0 [] false 0 false.
Definition init_cfg (n m : nat) (threads : list pc) : cfg := mk_cfg (init_shared n m) threads.

(* schedule helper: thread i, k times *)
Fixpoint rep (i k : nat) : list nat := match k with 0 => [] | S k' => i :: rep i k' end.
