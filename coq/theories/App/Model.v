(* App engine, small-step model of /repo/node/application.go (after the fix commits, see
   findings/C17.md): the state word, the member group, mode, reason, the stopped channel and the
   callbacks, driven by any number of concurrent threads under any schedule.  One step = one
   shared access of the Go code; the yield point (lib.VerifPoint label) is quoted at each pc.

   Members are counted, not named: na = member processes still registered in the node,
   ng = len(a.group).  A dying member remembers the run (gen) its pid belongs to, so
   group.LoadAndDelete(pid) succeeds exactly for members of the current run - pids of different
   runs are different.  The sequential (atomic-operation) model of the same code, with named
   members, several applications and the dependency recursion, is App/Seq.v.
   Definitions only - proofs in App/Proofs.v. *)
From Ergo Require Import Common.Base App.Seq.

Inductive ast := SUnl | SL | SR | SS.   (* 0 (unloaded) / Loaded / Running / Stopping *)

Definition ast_eqb (a b : ast) : bool :=
  match a, b with SUnl, SUnl | SL, SL | SR, SR | SS, SS => true | _, _ => false end.

Record shared := mk_sh {
  st : ast;                (* a.state *)
  na : nat;                (* member processes registered in the node *)
  ng : nat;                (* a.group.Len() *)
  gen : nat;               (* number of successful CAS Loaded->Running so far: names the run *)
  mode : nat;              (* a.mode *)
  reason : option nat;     (* a.reason *)
  stopped : bool;          (* a.stopped is closed *)
  toldall : bool;          (* every member still in the group has been sent an exit signal *)
  nmem : nat;              (* len(a.spec.Group) *)
  starts : nat;            (* Start callbacks *)
  runterms : nat;          (* Terminate callbacks since the last successful CAS Loaded->Running *)
  terms : list nat         (* reasons given to the Terminate callback, oldest first *)
}.

Inductive pc :=
(* application.start(mode); fail = Some k: the spawn of member k fails.
   "app.start.cas" ... "app.start.cb" are one step here: the guarded theorems keep the start
   atomic anyway, what happens when it is not is recorded in findings/C17.md (start-race). *)
| S_cas (mode : nat) (fail : option nat)
(* application.stop(force, timeout); polls = how often the waiter looks at a.stopped before its
   timeout fires *)
| P_cas (force : bool) (polls : nat)     (* "app.stop.cas"   CAS Running->Stopping *)
| P_load (force : bool) (polls : nat)    (* "app.stop.load"  state := Load *)
| P_mode (force : bool) (polls : nat)    (* "app.stop.mode"  a.mode = Temporary *)
| P_reason (force : bool) (polls : nat)  (* "app.stop.reason" a.reason = shutdown / kill *)
| P_tell (polls : nat)                   (* "app.stop.tell"  SendExit / Kill every member *)
| P_wait (polls : nat)                   (* "app.stop.wait"  select { <-a.stopped | timeout } *)
(* a member terminates with reason r: unregisterProcess, then application.terminate(pid, r) *)
| D_die (r : nat)                        (* "unreg.delete"   n.processes.Delete(pid) *)
| D_delete (g r : nat)                   (* "app.term.delete" a.group.LoadAndDelete(pid) *)
| D_mode (r : nat)                       (* "app.term.mode"  switch a.mode *)
| D_stopping (r : nat)                   (* "app.term.stopping" CAS Running->Stopping *)
| D_reason (r : nat)                     (* "app.term.reason" a.reason = r *)
| D_tell                                 (* "app.term.tell"  SendExit(shutdown) to the group *)
| D_len                                  (* "app.term.len"   a.group.Len() > 0 ? *)
| D_default                              (* "app.term.default" a.reason == nil -> normal *)
| D_loaded                               (* "app.term.loaded" old := Swap(Loaded) *)
| D_close                                (* "app.term.close" close(a.stopped) *)
| D_cb                                   (* "app.term.cb"    a.behavior.Terminate(a.reason) *)
(* tryUnload *)
| U_cas                                  (* "app.unload.cas" CAS Loaded->0 *)
| Done (ret : nat).

Record cfg := mk_cfg { sh : shared; thr : list pc }.

Definition upd_st (s : shared) (x : ast) : shared :=
  mk_sh x (na s) (ng s) (gen s) (mode s) (reason s) (stopped s) (toldall s) (nmem s) (starts s) (runterms s) (terms s).
Definition upd_mode (s : shared) (x : nat) : shared :=
  mk_sh (st s) (na s) (ng s) (gen s) x (reason s) (stopped s) (toldall s) (nmem s) (starts s) (runterms s) (terms s).
Definition upd_reason (s : shared) (x : option nat) : shared :=
  mk_sh (st s) (na s) (ng s) (gen s) (mode s) x (stopped s) (toldall s) (nmem s) (starts s) (runterms s) (terms s).
Definition upd_told (s : shared) : shared :=
  mk_sh (st s) (na s) (ng s) (gen s) (mode s) (reason s) (stopped s) true (nmem s) (starts s) (runterms s) (terms s).
Definition upd_na (s : shared) (x : nat) : shared :=
  mk_sh (st s) x (ng s) (gen s) (mode s) (reason s) (stopped s) (toldall s) (nmem s) (starts s) (runterms s) (terms s).
Definition upd_ng (s : shared) (x : nat) : shared :=
  mk_sh (st s) (na s) x (gen s) (mode s) (reason s) (stopped s) (toldall s) (nmem s) (starts s) (runterms s) (terms s).
Definition upd_closed (s : shared) : shared :=
  mk_sh (st s) (na s) (ng s) (gen s) (mode s) (reason s) true (toldall s) (nmem s) (starts s) (runterms s) (terms s).
Definition reason_or_normal (s : shared) : nat := match reason s with Some r => r | None => 0 end.
Definition add_term (s : shared) : shared :=
  mk_sh (st s) (na s) (ng s) (gen s) (mode s) (reason s) (stopped s) (toldall s) (nmem s) (starts s)
        (S (runterms s)) (terms s ++ [reason_or_normal s]).

(* a successful start: CAS Loaded->Running, a.reason = nil, a.mode = mode, a.stopped = make(chan),
   all members spawned and stored, Start callback *)
Definition started (s : shared) (m : nat) : shared :=
  mk_sh SR (nmem s) (nmem s) (S (gen s)) m None false false (nmem s) (S (starts s)) 0 (terms s).
(* a start rolled back at member k: the k started members are killed (each runs terminate, the
   last one finalises the run: closes the channel and runs the Terminate callback with kill if the
   mode rule fired, normal otherwise), then atomic.StoreInt32(&a.state, Loaded) *)
Definition rolled_back (s : shared) (m k : nat) : shared :=
  match k with
  | 0 => mk_sh SL 0 0 (S (gen s)) m None false false (nmem s) (starts s) 0 (terms s)
  | _ => mk_sh SL 0 0 (S (gen s)) m (Some (if rule_fires m 2 then 2 else 0)) true false (nmem s) (starts s) 1
               (terms s ++ [if rule_fires m 2 then 2 else 0])
  end.

Definition step_pc (s : shared) (p : pc) : option (shared * pc) :=
  match p with
  | S_cas m fail =>
      match st s with
      | SL => match fail with
              | Some k => if k <? nmem s then Some (rolled_back s m k, Done 7) else Some (started s m, Done 0)
              | None => Some (started s m, Done 0)
              end
      | SR => Some (s, Done 1)      (* ErrApplicationRunning *)
      | _ => Some (s, Done 2)       (* ErrApplicationState *)
      end
  | P_cas f k =>
      match st s with
      | SR => Some (upd_st s SS, P_mode f k)
      | _ => Some (s, P_load f k)
      end
  | P_load f k =>
      match st s with
      | SL => Some (s, Done 0)      (* already stopped *)
      | x => if f then Some (s, P_mode f k)
             else Some (s, Done (if ast_eqb x SS then 3 else 2))
      end
  | P_mode f k => Some (upd_mode s 1, P_reason f k)
  | P_reason f k => Some (upd_reason s (Some (if f then 2 else 1)), P_tell k)
  | P_tell k => Some (upd_told s, P_wait k)
  | P_wait k =>
      if stopped s then Some (s, Done 0)
      else match k with 0 => Some (s, Done 3) | S k' => Some (s, P_wait k') end
  | D_die r =>
      match na s with
      | 0 => None                   (* no member left to die *)
      | S n => Some (upd_na s n, D_delete (gen s) r)
      end
  | D_delete g r =>
      if (g =? gen s) && (0 <? ng s) then Some (upd_ng s (pred (ng s)), D_mode r)
      else Some (s, Done 0)         (* not in the group: do nothing *)
  | D_mode r => if rule_fires (mode s) r then Some (s, D_stopping r) else Some (s, D_len)
  | D_stopping r =>
      match st s with
      | SR => Some (upd_st s SS, D_reason r)
      | _ => Some (s, D_len)        (* already stopping (or stopped) *)
      end
  | D_reason r => Some (upd_reason s (Some r), D_tell)
  | D_tell => Some (upd_told s, D_len)
  | D_len => if 0 <? ng s then Some (s, Done 0) else Some (s, D_default)
  | D_default => Some (upd_reason s (Some (reason_or_normal s)), D_loaded)
  | D_loaded =>
      match st s with
      | SL => Some (s, Done 0)
      | _ => Some (upd_st s SL, D_close)
      end
  | D_close => Some (upd_closed s, D_cb)
  | D_cb => Some (add_term s, Done 0)
  | U_cas =>
      match st s with
      | SL => Some (upd_st s SUnl, Done 0)
      | _ => Some (s, Done 1)       (* ErrApplicationRunning *)
      end
  | Done _ => None
  end.

Fixpoint set_nth (l : list pc) (i : nat) (p : pc) : list pc :=
  match l, i with
  | [], _ => []
  | _ :: tl, 0 => p :: tl
  | x :: tl, S i' => x :: set_nth tl i' p
  end.

Definition step (c : cfg) (i : nat) : option cfg :=
  match nth_error (thr c) i with
  | None => None
  | Some p =>
      match step_pc (sh c) p with
      | None => None
      | Some (s', p') => Some (mk_cfg s' (set_nth (thr c) i p'))
      end
  end.

(* a schedule is any list of thread choices; a choice that is not enabled is skipped *)
Fixpoint run (sched : list nat) (c : cfg) : cfg :=
  match sched with
  | [] => c
  | i :: tl => match step c i with Some c' => run tl c' | None => run tl c end
  end.

(* ---- pc classes ----------------------------------------------------------------------- *)
Definition count (f : pc -> bool) (l : list pc) : nat := length (filter f l).

Definition die_inflight (p : pc) : bool :=
  match p with
  | D_delete _ _ | D_mode _ | D_stopping _ | D_reason _ | D_tell | D_len | D_default | D_loaded | D_close | D_cb => true
  | _ => false
  end.
Definition stop_inflight (p : pc) : bool :=
  match p with P_load _ _ | P_mode _ _ | P_reason _ _ | P_tell _ | P_wait _ => true | _ => false end.
Definition deleter (g : nat) (p : pc) : bool := match p with D_delete g' _ => g' =? g | _ => false end.
Definition stale (g : nat) (p : pc) : bool := match p with D_delete g' _ => negb (g' =? g) | _ => false end.
Definition sawempty (p : pc) : bool := match p with D_default | D_loaded => true | _ => false end.
Definition finaliser (p : pc) : bool := match p with D_close | D_cb => true | _ => false end.
Definition pretell (p : pc) : bool :=
  match p with P_mode _ _ | P_reason _ _ | P_tell _ | D_reason _ | D_tell => true | _ => false end.

(* the guard of the theorems: a start / unload begins only when no terminate or stop call is in
   flight (quiescent restart) *)
Definition adm (c : cfg) (i : nat) : bool :=
  match nth_error (thr c) i with
  | Some (S_cas _ _) | Some U_cas =>
      (count die_inflight (thr c) =? 0) && (count stop_inflight (thr c) =? 0)
  | _ => true
  end.

Fixpoint run_adm (sched : list nat) (c : cfg) : cfg :=
  match sched with
  | [] => c
  | i :: tl =>
      if adm c i then match step c i with Some c' => run_adm tl c' | None => run_adm tl c end
      else run_adm tl c
  end.

(* ---- initial configurations ----------------------------------------------------------- *)
Definition initial_pc (p : pc) : bool :=
  match p with S_cas _ _ | P_cas _ _ | D_die _ | U_cas => true | _ => false end.

(* a loaded application with n member specs and any list of threads at their first pc *)
Definition init_shared (n : nat) (m : nat) : shared := mk_sh SL 0 0 0 m None false false n 0 0 [].
Definition init_cfg (n m : nat) (threads : list pc) : cfg := mk_cfg (init_shared n m) threads.
