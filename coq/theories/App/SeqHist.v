(* App engine: HISTORY-level theorems about the sequential application model (App/Seq.v):
   for every specification list and every list of operations, from every well-formed node
   (in particular init_node specs).  H1 start counting, H2 terminate exactly once per completed run
   with its cause, H3 a successful stop leaves nothing behind, H4 dependencies first, H5 the fuel of
   the dependency recursion never runs out, H6 an acyclic dependency graph never trips the cycle check. *)
From Ergo Require Import Common.Base App.Seq App.Cases App.SeqProofs.

(* ======================================================================================= *)
(* get / set                                                                                 *)
(* ======================================================================================= *)
Lemma set_length nd : forall a x, length (set nd a x) = length nd.
Proof.
  induction nd as [|y nd IH]; intros [|a] x; cbn [set length]; try reflexivity.
  rewrite IH. reflexivity.
Qed.

Lemma get_oob nd a : length nd <= a -> get nd a = no_app.
Proof. intros H. unfold get. apply nth_overflow. exact H. Qed.

Lemma set_oob nd : forall a x, length nd <= a -> set nd a x = nd.
Proof.
  induction nd as [|y nd IH]; intros [|a] x H; cbn [set length] in *; try reflexivity; [lia|].
  rewrite IH by lia. reflexivity.
Qed.

Lemma get_set_eq nd : forall a x, a < length nd -> get (set nd a x) a = x.
Proof.
  unfold get. induction nd as [|y nd IH]; intros [|a] x H; cbn [set length nth] in *; try lia; [reflexivity|].
  apply IH. lia.
Qed.

Lemma get_set_neq nd : forall a b x, a <> b -> get (set nd a x) b = get nd b.
Proof.
  unfold get. induction nd as [|y nd IH]; intros [|a] [|b] x H; cbn [set nth]; try reflexivity; try congruence.
  apply IH. congruence.
Qed.

Lemma get_set nd a b x :
  get (set nd a x) b = if (a =? b) && (a <? length nd) then x else get nd b.
Proof.
  destruct (Nat.eqb_spec a b) as [<-|Hn]; cbn [andb].
  - destruct (Nat.ltb_spec a (length nd)) as [Hl|Hl].
    + apply get_set_eq. exact Hl.
    + rewrite set_oob by exact Hl. reflexivity.
  - apply get_set_neq. exact Hn.
Qed.

Lemma loaded_lt nd a : a_st (get nd a) <> 0 -> a < length nd.
Proof.
  intros H. destruct (Nat.lt_ge_cases a (length nd)) as [Hl|Hl]; [exact Hl|].
  rewrite (get_oob nd a Hl) in H. cbn [no_app a_st] in H. congruence.
Qed.

Lemma get_init specs : forall a, get (init_node specs) a = no_app.
Proof.
  unfold get, init_node. induction specs as [|s l IH]; intros [|a]; cbn [map nth]; try reflexivity.
  apply IH.
Qed.

Lemma init_length specs : length (init_node specs) = length specs.
Proof. unfold init_node. apply map_length. Qed.

Lemma mem_In a l : mem a l = true <-> In a l.
Proof.
  unfold mem. rewrite existsb_exists. split.
  - intros (x & Hx & E). apply Nat.eqb_eq in E. subst. exact Hx.
  - intros H. exists a. split; [exact H | apply Nat.eqb_refl].
Qed.

Lemma mem_false a l : mem a l = false -> ~ In a l.
Proof. intros H Hi. apply mem_In in Hi. congruence. Qed.

(* ======================================================================================= *)
(* well-formedness: only the states 0, 1, 2 occur, and an application that is not running    *)
(* has no live member                                                                        *)
(* ======================================================================================= *)
Definition wf_app (x : app) : Prop := a_st x <= 2 /\ (a_st x <= 1 -> a_live x = []).
Definition wf (nd : node) : Prop := forall a, wf_app (get nd a).

Lemma wf_no_app : wf_app no_app.
Proof. split; cbn [no_app a_st a_live]; [lia | reflexivity]. Qed.

Lemma wf_init specs : wf (init_node specs).
Proof. intros a. rewrite get_init. exact wf_no_app. Qed.

Lemma wf_set nd a x : wf nd -> wf_app x -> wf (set nd a x).
Proof.
  intros Hw Hx b. rewrite get_set.
  destruct ((a =? b) && (a <? length nd)); [exact Hx | apply Hw].
Qed.

(* ======================================================================================= *)
(* events of one application: projection on {Start a, Terminate a}                           *)
(* ======================================================================================= *)
Definition ev_app (e : ev) : nat :=
  match e with EInit a _ | EStart a _ | ETerm a _ _ | ELoad a => a end.
Definition is_se (a : nat) (e : ev) : bool := is_start_of a e || is_term_of a e.
Definition proj (a : nat) (evs : list ev) : list ev := filter (is_se a) evs.

Lemma is_se_app a e : is_se a e = true -> ev_app e = a.
Proof.
  unfold is_se. destruct e as [b m|b m|b r l|b]; cbn [is_start_of is_term_of ev_app orb];
    intros H; try discriminate.
  - rewrite orb_false_r in H. apply Nat.eqb_eq in H. congruence.
  - apply Nat.eqb_eq in H. congruence.
Qed.

Lemma proj_app a l1 l2 : proj a (l1 ++ l2) = proj a l1 ++ proj a l2.
Proof. apply filter_app. Qed.

Lemma proj_other a evs : (forall e, In e evs -> ev_app e <> a) -> proj a evs = [].
Proof.
  induction evs as [|e l IH]; intros H; [reflexivity|].
  cbn [proj filter]. destruct (is_se a e) eqn:E.
  - apply is_se_app in E. exfalso. apply (H e); [left; reflexivity | exact E].
  - apply IH. intros e' He'. apply H. right. exact He'.
Qed.

Lemma proj_inits a b l : proj a (map (EInit b) l) = [].
Proof. induction l as [|x l IH]; [reflexivity|]. cbn [map proj filter is_se is_start_of is_term_of orb]. exact IH. Qed.

Lemma filter_filter_imp {A} (f g : A -> bool) l :
  (forall x, f x = true -> g x = true) -> filter f (filter g l) = filter f l.
Proof.
  intros H. induction l as [|x l IH]; [reflexivity|]. cbn [filter].
  destruct (g x) eqn:Eg; cbn [filter].
  - rewrite IH. reflexivity.
  - destruct (f x) eqn:Ef; [apply H in Ef; congruence | exact IH].
Qed.

Lemma starts_proj a evs : filter (is_start_of a) evs = filter (is_start_of a) (proj a evs).
Proof.
  unfold proj. symmetry. apply filter_filter_imp. intros x H. unfold is_se. rewrite H. reflexivity.
Qed.

Lemma terms_proj a evs : filter (is_term_of a) evs = filter (is_term_of a) (proj a evs).
Proof.
  unfold proj. symmetry. apply filter_filter_imp. intros x H. unfold is_se. rewrite H. apply orb_true_r.
Qed.

(* what one operation may do to application a (state sx before, sy after, events evs):
   a start (1 -> 2, exactly one Start callback), the end of a run (2 -> 1, exactly one Terminate
   callback, no member registered), or nothing that concerns running-ness (no callback) *)
Definition trans_ok (a sx sy : nat) (evs : list ev) : Prop :=
  (sx = 1 /\ sy = 2 /\ exists m, proj a evs = [EStart a m]) \/
  (sx = 2 /\ sy = 1 /\ exists r, proj a evs = [ETerm a r 0]) \/
  ((sx = 2 <-> sy = 2) /\ proj a evs = []).

Lemma trans_ok_same a s evs : proj a evs = [] -> trans_ok a s s evs.
Proof. intros H. right; right. split; [tauto | exact H]. Qed.

Definition all_of (a : nat) (evs : list ev) : Prop := forall e, In e evs -> ev_app e = a.

Lemma all_of_other a b evs : all_of a evs -> a <> b -> proj b evs = [].
Proof. intros H Hn. apply proj_other. intros e He. rewrite (H e He). exact Hn. Qed.

Lemma all_of_inits a l : all_of a (map (EInit a) l).
Proof. intros e He. apply in_map_iff in He as (m & <- & _). reflexivity. Qed.

Lemma all_of_app a l1 l2 : all_of a l1 -> all_of a l2 -> all_of a (l1 ++ l2).
Proof. intros H1 H2 e He. apply in_app_or in He as [He|He]; auto. Qed.

Lemma all_of_one a e : ev_app e = a -> all_of a [e].
Proof. intros H e' [<-|[]]. exact H. Qed.

Lemma all_of_nil a : all_of a [].
Proof. intros e []. Qed.

(* ======================================================================================= *)
(* the application-level operations                                                          *)
(* ======================================================================================= *)
Lemma proj_start_block a n mode : proj a (map (EInit a) (seq 0 n) ++ [EStart a mode]) = [EStart a mode].
Proof.
  rewrite proj_app, proj_inits. cbn [proj filter List.app]. unfold is_se. cbn [is_start_of]. rewrite Nat.eqb_refl. reflexivity.
Qed.

Lemma app_start_ok a sp x mode x' r e :
  wf_app x -> app_start a sp x mode = (x', r, e) ->
  wf_app x' /\ a_fail x' = a_fail x /\ all_of a e /\
  trans_ok a (a_st x) (a_st x') e /\
  (a_st x' = a_st x \/ (a_st x = 1 /\ a_st x' = 2)) /\
  (a_st x = 0 -> e = []) /\
  (r = 0 <-> (a_st x = 1 /\ a_st x' = 2)) /\
  (r = 0 \/ r = 1 -> a_st x' = 2) /\ r <> 9.
Proof.
  intros Hw. unfold app_start.
  destruct (a_st x) as [|[|[|s]]] eqn:E; [| destruct (fail_index sp x) as [k|] | |];
    intros H; inversion H; subst; clear H; cbn [a_st a_live a_fail]; try rewrite E.
  5: { destruct Hw as [Hw1 _]. lia. }
  all: split; [first [exact Hw | split; cbn [a_st a_live]; intros; first [lia | reflexivity]] |].
  all: split; [reflexivity|].
  all: split; [first [apply all_of_nil | apply all_of_inits
                     | apply all_of_app; [apply all_of_inits | apply all_of_one; reflexivity]] |].
  all: split; [first [apply trans_ok_same; first [reflexivity | apply proj_inits]
                     | left; repeat split; exists mode; apply proj_start_block] |].
  all: split; [first [left; reflexivity | right; split; reflexivity] |].
  all: repeat split; intros; try lia; try reflexivity; try discriminate.
Qed.

Lemma proj_term a c k : proj a [ETerm a c k] = [ETerm a c k].
Proof. unfold proj, is_se. cbn [filter is_start_of is_term_of orb]. rewrite Nat.eqb_refl. reflexivity. Qed.

Lemma app_stop_ok a x force x' r e :
  wf_app x -> app_stop a x force = (x', r, e) ->
  wf_app x' /\ a_fail x' = a_fail x /\ all_of a e /\
  trans_ok a (a_st x) (a_st x') e /\
  (a_st x' = a_st x \/ (a_st x = 2 /\ a_st x' = 1)) /\
  (a_st x = 0 -> e = []) /\
  (a_st x = 2 -> a_st x' = 1 /\ r = 0 /\ e = [ETerm a (if force then 2 else 1) 0]) /\
  r <> 9.
Proof.
  intros Hw. unfold app_stop.
  destruct (a_st x) as [|[|[|s]]] eqn:E;
    intros H; [| | | destruct Hw as [Hw1 _]; lia]; inversion H; subst; clear H; cbn [a_st a_live a_fail]; try rewrite E.
  all: split; [first [exact Hw | split; cbn [a_st a_live]; intros; first [lia | reflexivity]] |].
  all: split; [reflexivity|].
  all: split; [first [apply all_of_nil | apply all_of_one; reflexivity] |].
  all: split; [first [apply trans_ok_same; reflexivity
                     | right; left; repeat split; eexists; apply proj_term] |].
  all: split; [first [left; reflexivity | right; split; reflexivity] |].
  all: repeat split; intros; try lia; try reflexivity; try discriminate.
Qed.

Lemma app_die_ok a x m r x' rt e :
  wf_app x -> app_die a x m r = (x', rt, e) ->
  wf_app x' /\ a_fail x' = a_fail x /\ all_of a e /\
  trans_ok a (a_st x) (a_st x') e /\
  (a_st x' = a_st x \/ (a_st x = 2 /\ a_st x' = 1)) /\
  (a_st x = 0 -> e = []) /\
  (a_st x = 2 -> a_st x' = 1 -> e = [ETerm a (if rule_fires (a_mode x) r then r else 0) 0]) /\
  rt <> 9.
Proof.
  intros Hw. unfold app_die.
  destruct ((a_st x =? 2) && mem m (a_live x)) eqn:C.
  - apply andb_true_iff in C as [C1 C2]. apply Nat.eqb_eq in C1.
    destruct (rule_fires (a_mode x) r) eqn:RF; [| destruct (remove_nat m (a_live x)) as [|y l] eqn:RM];
      intros H; inversion H; subst; clear H; cbn [a_st a_live a_fail]; rewrite C1.
    all: split; [split; cbn [a_st a_live]; intros; first [lia | reflexivity] |].
    all: split; [reflexivity|].
    all: split; [first [apply all_of_nil | apply all_of_one; reflexivity] |].
    all: split; [first [apply trans_ok_same; reflexivity
                       | right; left; repeat split; eexists; apply proj_term] |].
    all: split; [first [left; reflexivity | right; split; reflexivity] |].
    all: repeat split; intros; try lia; try reflexivity; try discriminate.
  - intros H; inversion H; subst; clear H.
    split; [exact Hw|]. split; [reflexivity|]. split; [apply all_of_nil|].
    split; [apply trans_ok_same; reflexivity|]. split; [left; reflexivity|].
    repeat split; intros; try lia; try reflexivity; try discriminate.
Qed.

(* ======================================================================================= *)
(* what one operation does to the node                                                       *)
(* ======================================================================================= *)
Definition st (nd : node) (a : nat) : nat := a_st (get nd a).

Definition step_rel (nd nd' : node) (evs : list ev) : Prop :=
  length nd' = length nd /\ wf nd' /\ forall b, trans_ok b (st nd b) (st nd' b) evs.

Lemma step_rel_refl nd : wf nd -> step_rel nd nd [].
Proof. intros Hw. split; [reflexivity|]. split; [exact Hw|]. intros b. apply trans_ok_same. reflexivity. Qed.

Lemma step_rel_noev nd e : wf nd -> (forall b, proj b e = []) -> step_rel nd nd e.
Proof. intros Hw H. split; [reflexivity|]. split; [exact Hw|]. intros b. apply trans_ok_same. apply H. Qed.

(* replacing the record of application a *)
Lemma set_step_rel nd a x' e :
  wf nd -> wf_app x' -> all_of a e ->
  trans_ok a (st nd a) (a_st x') e ->
  (st nd a = 0 -> proj a e = []) ->
  step_rel nd (set nd a x') e.
Proof.
  intros Hw Hx Hall Ht H0. split; [apply set_length|]. split; [apply wf_set; assumption|].
  intros b. unfold st at 2. rewrite get_set.
  destruct (Nat.eqb_spec a b) as [<-|Hn]; cbn [andb].
  - destruct (Nat.ltb_spec a (length nd)) as [Hl|Hl]; [exact Ht|].
    apply trans_ok_same. apply H0. unfold st. rewrite (get_oob nd a Hl). reflexivity.
  - apply trans_ok_same. apply (all_of_other a b e Hall Hn).
Qed.

(* ======================================================================================= *)
(* the dependency recursion: the nested loop as a standalone function                        *)
(* ======================================================================================= *)
Fixpoint deps_loop (rec : node -> nat -> node * nat * list ev) (ds : list nat) (nd : node) (evs : list ev)
  : node * bool * list ev :=
  match ds with
  | [] => (nd, true, evs)
  | d :: tl =>
      let '(nd', r, e) := rec nd d in
      if (r =? 0) || (r =? 1) then deps_loop rec tl nd' (evs ++ e) else (nd', false, evs ++ e)
  end.

Lemma start_rec_S f specs nd vis a :
  start_rec (S f) specs nd vis a =
  if a_st (get nd a) =? 0 then (nd, 4, []) else
  if mem a vis then (nd, 5, []) else
  let '(nd1, ok, evs) :=
    deps_loop (fun nd d => start_rec f specs nd (a :: vis) d) (sp_deps (spec_of specs a)) nd [] in
  if ok then
    let '(x', r, e) := app_start a (spec_of specs a) (get nd1 a) (sp_mode (spec_of specs a)) in
    (set nd1 a x', r, evs ++ e)
  else (nd1, 5, evs).
Proof.
  cbn [start_rec].
  destruct (a_st (get nd a) =? 0); [reflexivity|]. destruct (mem a vis); [reflexivity|].
  generalize (@nil ev) as evs0. generalize nd as nd0. generalize (sp_deps (spec_of specs a)) as ds.
  intros ds nd0 evs0.
  match goal with |- match ?X with _ => _ end = match ?Y with _ => _ end => assert (E : X = Y) end.
  { revert nd0 evs0. induction ds as [|d tl IH]; intros nd0 evs0; [reflexivity|].
    cbn [deps_loop]. destruct (start_rec f specs nd0 (a :: vis) d) as [[nd' r] e].
    destruct ((r =? 0) || (r =? 1)); [apply IH | reflexivity]. }
  rewrite E. reflexivity.
Qed.

(* any invariant of (node, events so far) kept by the recursive calls is kept by the loop *)
Lemma deps_loop_inv (I : node -> list ev -> Prop) rec : forall ds,
  (forall nd evs d nd' r e, In d ds -> I nd evs -> rec nd d = (nd', r, e) -> I nd' (evs ++ e)) ->
  forall nd evs nd' ok evs', I nd evs -> deps_loop rec ds nd evs = (nd', ok, evs') -> I nd' evs'.
Proof.
  induction ds as [|d tl IH]; intros Hrec nd evs nd' ok evs' HI H; cbn [deps_loop] in H.
  - inversion H; subst. exact HI.
  - destruct (rec nd d) as [[nd1 r] e] eqn:ER.
    assert (HI1 : I nd1 (evs ++ e)) by (apply (Hrec nd evs d nd1 r e); [left; reflexivity | exact HI | exact ER]).
    destruct ((r =? 0) || (r =? 1)).
    + apply (IH (fun nd evs d' nd' r e Hd => Hrec nd evs d' nd' r e (or_intror Hd)) nd1 (evs ++ e) nd' ok evs' HI1 H).
    + inversion H; subst. exact HI1.
Qed.

(* what the dependency recursion does to the node: a step that only ever moves applications
   1 -> 2, keeps the fail marks, and produces no event of an application on the visiting chain *)
Definition sr_ok (vis : list nat) (nd nd' : node) (evs : list ev) : Prop :=
  step_rel nd nd' evs /\
  (forall b, st nd' b = st nd b \/ (st nd b = 1 /\ st nd' b = 2)) /\
  (forall b, a_fail (get nd' b) = a_fail (get nd b)) /\
  (forall e, In e evs -> ~ In (ev_app e) vis).

Lemma sr_ok_refl vis nd : wf nd -> sr_ok vis nd nd [].
Proof.
  intros Hw. split; [apply step_rel_refl; exact Hw|]. split; [intros b; left; reflexivity|].
  split; [reflexivity|]. intros e [].
Qed.

Lemma sr_ok_weaken vis vis' nd nd' evs :
  (forall v, In v vis' -> In v vis) -> sr_ok vis nd nd' evs -> sr_ok vis' nd nd' evs.
Proof.
  intros Hs (H1 & H2 & H3 & H4). repeat split; try assumption; try apply H1.
  intros e He Hv. apply (H4 e He). apply Hs. exact Hv.
Qed.

Lemma trans_ok_comp b s1 s2 s3 e1 e2 :
  trans_ok b s1 s2 e1 -> trans_ok b s2 s3 e2 ->
  (s2 = s1 \/ (s1 = 1 /\ s2 = 2)) -> (s3 = s2 \/ (s2 = 1 /\ s3 = 2)) ->
  trans_ok b s1 s3 (e1 ++ e2).
Proof.
  intros [(A1&A2&m1&P1)|[(A1&A2&r1&P1)|(A1&P1)]] [(B1&B2&m2&P2)|[(B1&B2&r2&P2)|(B1&P2)]] M1 M2;
    try (exfalso; lia); unfold trans_ok; rewrite proj_app, P1, P2; cbn [List.app];
    first [ left; split; [lia|]; split; [lia|]; eexists; reflexivity
          | right; right; split; [lia | reflexivity] ].
Qed.

Lemma sr_ok_trans vis nd nd1 nd2 e1 e2 :
  sr_ok vis nd nd1 e1 -> sr_ok vis nd1 nd2 e2 -> sr_ok vis nd nd2 (e1 ++ e2).
Proof.
  intros ((L1 & W1 & T1) & M1 & F1 & V1) ((L2 & W2 & T2) & M2 & F2 & V2).
  split; [split; [lia|]; split; [exact W2|] |].
  - intros b. apply (trans_ok_comp b (st nd b) (st nd1 b) (st nd2 b)); [apply T1 | apply T2 | apply M1 | apply M2].
  - split; [|split].
    + intros b. specialize (M1 b). specialize (M2 b). lia.
    + intros b. rewrite F2. apply F1.
    + intros e He. apply in_app_or in He as [He|He]; [apply V1 | apply V2]; exact He.
Qed.

Lemma sr_ok_set vis nd a x' e :
  wf nd -> wf_app x' -> all_of a e ->
  trans_ok a (st nd a) (a_st x') e ->
  (st nd a = 0 -> e = []) ->
  (a_st x' = st nd a \/ (st nd a = 1 /\ a_st x' = 2)) ->
  a_fail x' = a_fail (get nd a) ->
  ~ In a vis ->
  sr_ok vis nd (set nd a x') e.
Proof.
  intros Hw Hx Hall Ht H0 Hm Hf Hv.
  split; [apply set_step_rel; try assumption; intros Hz; rewrite (H0 Hz); reflexivity|].
  split; [|split].
  - intros b. unfold st in *. rewrite get_set.
    destruct (Nat.eqb_spec a b) as [<-|Hn]; cbn [andb]; [|left; reflexivity].
    destruct (a <? length nd); [exact Hm | left; reflexivity].
  - intros b. rewrite get_set.
    destruct (Nat.eqb_spec a b) as [<-|Hn]; cbn [andb]; [|reflexivity].
    destruct (a <? length nd); [exact Hf | reflexivity].
  - intros v Hin. rewrite (Hall v Hin). exact Hv.
Qed.

Theorem start_rec_ok specs : forall fuel nd vis a nd' r e,
  wf nd -> start_rec fuel specs nd vis a = (nd', r, e) -> sr_ok vis nd nd' e.
Proof.
  induction fuel as [|f IH]; intros nd vis a nd' r e Hw H.
  - cbn [start_rec] in H. inversion H; subst. apply sr_ok_refl. exact Hw.
  - rewrite start_rec_S in H.
    destruct (a_st (get nd a) =? 0) eqn:E0; [inversion H; subst; apply sr_ok_refl; exact Hw|].
    destruct (mem a vis) eqn:Em; [inversion H; subst; apply sr_ok_refl; exact Hw|].
    destruct (deps_loop _ _ nd []) as [[nd1 ok] evs] eqn:ED.
    assert (H1 : sr_ok (a :: vis) nd nd1 evs).
    { refine (deps_loop_inv (fun n l => sr_ok (a :: vis) nd n l) _ _ _ nd [] nd1 ok evs _ ED);
        [|apply sr_ok_refl; exact Hw].
      intros n l d n' r' e' _ Hn Hr. apply (sr_ok_trans _ _ n); [exact Hn|].
      apply (IH n (a :: vis) d n' r' e'); [|exact Hr]. destruct Hn as ((_ & Hwn & _) & _). exact Hwn. }
    apply (sr_ok_weaken (a :: vis) vis) in H1; [|intros v Hv; right; exact Hv].
    destruct ok; [|inversion H; subst; exact H1].
    destruct (app_start a (spec_of specs a) (get nd1 a) (sp_mode (spec_of specs a))) as [[x' r'] e'] eqn:ES.
    inversion H; subst; clear H.
    apply (sr_ok_trans _ _ nd1); [exact H1|].
    assert (Hw1 : wf nd1) by (destruct H1 as ((_ & Hw1 & _) & _); exact Hw1).
    destruct (app_start_ok _ _ _ _ _ _ _ (Hw1 a) ES) as (A1 & A2 & A3 & A4 & A5 & A6 & _).
    apply sr_ok_set; try assumption. apply mem_false. exact Em.
Qed.

Lemma trans_ok_idle a sx sy e : (sx = 2 <-> sy = 2) -> proj a e = [] -> trans_ok a sx sy e.
Proof. intros H1 H2. right; right. split; assumption. Qed.

(* every operation of the model is such a step *)
Theorem step_ok specs nd o : wf nd ->
  step_rel nd (fst (seq_step specs nd o)) (o_ev (snd (seq_step specs nd o))).
Proof.
  intros Hw. destruct o as [a|a|a|a m|a|a|a m r|a k|]; cbn [seq_step].
  - (* OLoad *)
    destruct (a_st (get nd a) =? 0) eqn:E0; cbn [fst snd obs_of o_ev].
    + apply Nat.eqb_eq in E0. apply set_step_rel; try assumption.
      * split; cbn [a_st a_live]; [lia | reflexivity].
      * apply all_of_one. reflexivity.
      * apply trans_ok_idle; [unfold st; cbn [a_st]; lia | reflexivity].
      * intros _. reflexivity.
    + apply step_rel_noev; [exact Hw | reflexivity].
  - (* OUnload *)
    destruct (a_st (get nd a)) as [|[|s]] eqn:E; cbn [fst snd obs_of o_ev];
      try (apply step_rel_refl; exact Hw).
    apply set_step_rel; try assumption.
    + split; cbn [a_st a_live]; [lia | reflexivity].
    + apply all_of_nil.
    + apply trans_ok_idle; [unfold st; cbn [a_st]; lia | reflexivity].
    + intros _. reflexivity.
  - (* OStart *)
    destruct (start_rec (fuel_for specs) specs nd [] a) as [[nd' r] e] eqn:E. cbn [fst snd obs_of o_ev].
    destruct (start_rec_ok specs _ _ _ _ _ _ _ Hw E) as (H & _). exact H.
  - (* OStartM *)
    destruct (app_start a (spec_of specs a) (get nd a) m) as [[x' r] e] eqn:E. cbn [fst snd obs_of o_ev].
    destruct (app_start_ok _ _ _ _ _ _ _ (Hw a) E) as (A1 & A2 & A3 & A4 & A5 & A6 & _).
    apply set_step_rel; try assumption. intros Hz. rewrite (A6 Hz). reflexivity.
  - (* OStop *)
    destruct (app_stop a (get nd a) false) as [[x' r] e] eqn:E. cbn [fst snd obs_of o_ev].
    destruct (app_stop_ok _ _ _ _ _ _ (Hw a) E) as (A1 & A2 & A3 & A4 & A5 & A6 & _).
    apply set_step_rel; try assumption. intros Hz. rewrite (A6 Hz). reflexivity.
  - (* OForce *)
    destruct (app_stop a (get nd a) true) as [[x' r] e] eqn:E. cbn [fst snd obs_of o_ev].
    destruct (app_stop_ok _ _ _ _ _ _ (Hw a) E) as (A1 & A2 & A3 & A4 & A5 & A6 & _).
    apply set_step_rel; try assumption. intros Hz. rewrite (A6 Hz). reflexivity.
  - (* ODie *)
    destruct (app_die a (get nd a) m r) as [[x' rt] e] eqn:E. cbn [fst snd obs_of o_ev].
    destruct (app_die_ok _ _ _ _ _ _ _ (Hw a) E) as (A1 & A2 & A3 & A4 & A5 & A6 & _).
    apply set_step_rel; try assumption. intros Hz. rewrite (A6 Hz). reflexivity.
  - (* OFail *)
    cbn [fst snd obs_of o_ev]. apply set_step_rel; try assumption.
    + destruct (Hw a) as [W1 W2]. split; cbn [a_st a_live]; assumption.
    + apply all_of_nil.
    + apply trans_ok_same. reflexivity.
    + intros _. reflexivity.
  - (* ONop *)
    cbn [fst snd obs_of o_ev]. apply step_rel_refl. exact Hw.
Qed.

Lemma step_wf specs nd o : wf nd -> wf (fst (seq_step specs nd o)).
Proof. intros Hw. destruct (step_ok specs nd o Hw) as (_ & H & _). exact H. Qed.

Lemma step_length specs nd o : wf nd -> length (fst (seq_step specs nd o)) = length nd.
Proof. intros Hw. destruct (step_ok specs nd o Hw) as (H & _). exact H. Qed.

(* the observation carries exactly the node after the step *)
Lemma step_apps specs nd o :
  o_apps (snd (seq_step specs nd o)) = map (fun x => (a_st x, a_live x)) (fst (seq_step specs nd o)).
Proof.
  destruct o as [a|a|a|a m|a|a|a m r|a k|]; cbn [seq_step].
  - destruct (a_st (get nd a) =? 0); reflexivity.
  - destruct (a_st (get nd a)) as [|[|s]]; reflexivity.
  - destruct (start_rec (fuel_for specs) specs nd [] a) as [[nd' r] e]. reflexivity.
  - destruct (app_start a (spec_of specs a) (get nd a) m) as [[x' r] e]. reflexivity.
  - destruct (app_stop a (get nd a) false) as [[x' r] e]. reflexivity.
  - destruct (app_stop a (get nd a) true) as [[x' r] e]. reflexivity.
  - destruct (app_die a (get nd a) m r) as [[x' rt] e]. reflexivity.
  - reflexivity.
  - reflexivity.
Qed.

(* ======================================================================================= *)
(* histories                                                                                 *)
(* ======================================================================================= *)
(* one step of a history: node before, operation, observation, node after *)
Definition stp := (node * op * obs * node)%type.
Definition t_pre (t : stp) : node := fst (fst (fst t)).
Definition t_op (t : stp) : op := snd (fst (fst t)).
Definition t_obs (t : stp) : obs := snd (fst t).
Definition t_post (t : stp) : node := snd t.

Fixpoint seq_trace (specs : list aspec) (nd : node) (ops : list op) : list stp :=
  match ops with
  | [] => []
  | o :: tl => (nd, o, snd (seq_step specs nd o), fst (seq_step specs nd o))
               :: seq_trace specs (fst (seq_step specs nd o)) tl
  end.

Definition seq_final (specs : list aspec) (nd : node) (ops : list op) : node :=
  fold_left (fun nd o => fst (seq_step specs nd o)) ops nd.

(* the trace is the run of Seq.v, with the nodes made visible *)
Theorem seq_trace_run specs : forall ops nd,
  map (fun t => (t_op t, t_obs t)) (seq_trace specs nd ops) = seq_run specs nd ops.
Proof.
  induction ops as [|o tl IH]; intros nd; [reflexivity|].
  cbn [seq_trace seq_run map]. rewrite IH. destruct (seq_step specs nd o) as [nd' ob]. reflexivity.
Qed.

Fixpoint chained (nd : node) (tr : list stp) (last : node) : Prop :=
  match tr with
  | [] => last = nd
  | t :: tl => t_pre t = nd /\ chained (t_post t) tl last
  end.

Theorem seq_trace_chained specs : forall ops nd,
  chained nd (seq_trace specs nd ops) (seq_final specs nd ops) /\
  Forall (fun t => seq_step specs (t_pre t) (t_op t) = (t_post t, t_obs t)) (seq_trace specs nd ops).
Proof.
  induction ops as [|o tl IH]; intros nd; [split; [reflexivity | constructor]|].
  cbn [seq_trace seq_final fold_left chained]. destruct (IH (fst (seq_step specs nd o))) as [I1 I2].
  split; [split; [reflexivity | exact I1]|]. constructor; [|exact I2].
  cbn [t_pre t_op t_post t_obs fst snd]. destruct (seq_step specs nd o); reflexivity.
Qed.

Lemma trace_forall specs (I : node -> Prop) (P : stp -> Prop) :
  (forall nd o, I nd -> I (fst (seq_step specs nd o))) ->
  (forall nd o, I nd -> P (nd, o, snd (seq_step specs nd o), fst (seq_step specs nd o))) ->
  forall ops nd, I nd -> Forall P (seq_trace specs nd ops).
Proof.
  intros HI HP. induction ops as [|o tl IH]; intros nd Hnd; cbn [seq_trace]; constructor.
  - apply HP. exact Hnd.
  - apply IH. apply HI. exact Hnd.
Qed.

Lemma trace_forall_wf specs (P : stp -> Prop) :
  (forall nd o, wf nd -> P (nd, o, snd (seq_step specs nd o), fst (seq_step specs nd o))) ->
  forall ops nd, wf nd -> Forall P (seq_trace specs nd ops).
Proof. intros HP. apply (trace_forall specs wf P); [intros nd o; apply step_wf | exact HP]. Qed.

Theorem seq_final_wf specs : forall ops nd, wf nd ->
  wf (seq_final specs nd ops) /\ length (seq_final specs nd ops) = length nd.
Proof.
  induction ops as [|o tl IH]; intros nd Hw; [split; [exact Hw | reflexivity]|].
  cbn [seq_final fold_left]. destruct (IH _ (step_wf specs nd o Hw)) as [I1 I2].
  split; [exact I1|]. unfold seq_final in I2. rewrite I2. apply step_length. exact Hw.
Qed.

Definition goes (a x y : nat) (t : stp) : bool := (st (t_pre t) a =? x) && (st (t_post t) a =? y).
Definition hist_ev (tr : list stp) : list ev := flat_map (fun t => o_ev (t_obs t)) tr.

Lemma trans_ok_counts a sx sy e : trans_ok a sx sy e ->
  count_ev (is_start_of a) e = (if (sx =? 1) && (sy =? 2) then 1 else 0) /\
  count_ev (is_term_of a) e = (if (sx =? 2) && (sy =? 1) then 1 else 0).
Proof.
  unfold count_ev. rewrite starts_proj, terms_proj.
  intros [(A1&A2&m&P)|[(A1&A2&r&P)|(A1&P)]]; rewrite P; subst; cbn [filter is_start_of is_term_of length];
    try rewrite Nat.eqb_refl; cbn [length Nat.eqb andb]; try (split; reflexivity).
  destruct (Nat.eqb_spec sx 1), (Nat.eqb_spec sy 2), (Nat.eqb_spec sx 2), (Nat.eqb_spec sy 1);
    cbn [andb]; split; try reflexivity; exfalso; lia.
Qed.

Lemma hist_count specs (f : ev -> bool) (g : stp -> bool) :
  (forall nd o, wf nd ->
     count_ev f (o_ev (snd (seq_step specs nd o))) =
     if g (nd, o, snd (seq_step specs nd o), fst (seq_step specs nd o)) then 1 else 0) ->
  forall ops nd, wf nd ->
    count_ev f (hist_ev (seq_trace specs nd ops)) = length (filter g (seq_trace specs nd ops)).
Proof.
  intros Hstep. induction ops as [|o tl IH]; intros nd Hw; [reflexivity|].
  cbn [seq_trace hist_ev flat_map filter]. fold (hist_ev (seq_trace specs (fst (seq_step specs nd o)) tl)).
  cbn [t_obs fst snd]. unfold count_ev in *. rewrite filter_app, app_length.
  rewrite (Hstep nd o Hw), (IH _ (step_wf specs nd o Hw)).
  destruct (g (nd, o, snd (seq_step specs nd o), fst (seq_step specs nd o))); reflexivity.
Qed.

(* ---- H1 ------------------------------------------------------------------------------- *)
(* the Start callback of a runs exactly as often as a goes from loaded to running *)
Theorem hist_start_count specs ops nd a : wf nd ->
  count_ev (is_start_of a) (hist_ev (seq_trace specs nd ops)) =
  length (filter (goes a 1 2) (seq_trace specs nd ops)).
Proof.
  apply hist_count. intros n o Hw. destruct (step_ok specs n o Hw) as (_ & _ & T).
  destruct (trans_ok_counts a _ _ _ (T a)) as [C _]. exact C.
Qed.

(* ---- H2 (i) ---------------------------------------------------------------------------- *)
(* the Terminate callback of a runs exactly as often as a goes from running to loaded *)
Theorem hist_term_count specs ops nd a : wf nd ->
  count_ev (is_term_of a) (hist_ev (seq_trace specs nd ops)) =
  length (filter (goes a 2 1) (seq_trace specs nd ops)).
Proof.
  apply hist_count. intros n o Hw. destruct (step_ok specs n o Hw) as (_ & _ & T).
  destruct (trans_ok_counts a _ _ _ (T a)) as [_ C]. exact C.
Qed.

(* ======================================================================================= *)
(* H4: the dependency recursion starts the dependencies first                                *)
(* ======================================================================================= *)
Lemma deps_loop_ok specs f vis' ds nd nd1 ok evs :
  wf nd ->
  deps_loop (fun nd d => start_rec f specs nd vis' d) ds nd [] = (nd1, ok, evs) ->
  sr_ok vis' nd nd1 evs.
Proof.
  intros Hw ED.
  refine (deps_loop_inv (fun n l => sr_ok vis' nd n l) _ _ _ nd [] nd1 ok evs _ ED);
    [|apply sr_ok_refl; exact Hw].
  intros n l d n' r' e' _ Hn Hr. apply (sr_ok_trans _ _ n); [exact Hn|].
  apply (start_rec_ok specs f n vis' d n' r' e'); [|exact Hr].
  destruct Hn as ((_ & Hwn & _) & _). exact Hwn.
Qed.

Lemma sr_ok_wf vis nd nd' e : sr_ok vis nd nd' e -> wf nd'.
Proof. intros ((_ & H & _) & _). exact H. Qed.

Lemma sr_ok_length vis nd nd' e : sr_ok vis nd nd' e -> length nd' = length nd.
Proof. intros ((H & _) & _). exact H. Qed.

Lemma sr_ok_mono vis nd nd' e : sr_ok vis nd nd' e ->
  forall b, st nd' b = st nd b \/ (st nd b = 1 /\ st nd' b = 2).
Proof. intros (_ & H & _). exact H. Qed.

(* success (0) or "already running" (1) means: running afterwards *)
Lemma start_rec_ret01 specs fuel nd vis a nd' r e :
  wf nd -> start_rec fuel specs nd vis a = (nd', r, e) -> r = 0 \/ r = 1 -> st nd' a = 2.
Proof.
  intros Hw H Hr. destruct fuel as [|f]; [cbn [start_rec] in H; inversion H; subst; lia|].
  rewrite start_rec_S in H.
  destruct (a_st (get nd a) =? 0) eqn:E0; [inversion H; subst; lia|].
  destruct (mem a vis) eqn:Em; [inversion H; subst; lia|].
  destruct (deps_loop _ _ nd []) as [[nd1 ok] evs] eqn:ED.
  pose proof (deps_loop_ok _ _ _ _ _ _ _ _ Hw ED) as H1.
  destruct ok; [|inversion H; subst; lia].
  destruct (app_start a (spec_of specs a) (get nd1 a) (sp_mode (spec_of specs a))) as [[x' r'] e'] eqn:ES.
  inversion H; subst; clear H.
  destruct (app_start_ok _ _ _ _ _ _ _ (sr_ok_wf _ _ _ _ H1 a) ES) as (_ & _ & _ & _ & _ & _ & _ & A8 & _).
  unfold st. rewrite get_set_eq; [apply A8; exact Hr|].
  rewrite (sr_ok_length _ _ _ _ H1). apply loaded_lt. apply Nat.eqb_neq in E0. exact E0.
Qed.

(* when the loop over the dependencies reports success, all of them are running *)
Lemma deps_loop_running specs f vis' : forall ds nd evs nd1 evs1,
  wf nd ->
  deps_loop (fun nd d => start_rec f specs nd vis' d) ds nd evs = (nd1, true, evs1) ->
  wf nd1 /\ (forall b, st nd b = 2 -> st nd1 b = 2) /\ forall d, In d ds -> st nd1 d = 2.
Proof.
  induction ds as [|d tl IH]; intros nd evs nd1 evs1 Hw H; cbn [deps_loop] in H.
  - inversion H; subst. split; [exact Hw|]. split; [auto|]. intros d [].
  - destruct (start_rec f specs nd vis' d) as [[nd' r] e] eqn:ER.
    destruct ((r =? 0) || (r =? 1)) eqn:C; [|inversion H].
    pose proof (start_rec_ok specs _ _ _ _ _ _ _ Hw ER) as Hok.
    destruct (IH nd' (evs ++ e) nd1 evs1 (sr_ok_wf _ _ _ _ Hok) H) as (I1 & I2 & I3).
    split; [exact I1|]. split.
    + intros b Hb. apply I2. destruct (sr_ok_mono _ _ _ _ Hok b) as [Hm|Hm]; lia.
    + intros d' [<-|Hd']; [|apply I3; exact Hd'].
      apply I2. apply (start_rec_ret01 specs f nd vis' d nd' r e Hw ER). lia.
Qed.

(* a successful ApplicationStart, taken apart *)
Theorem start_rec_success specs fuel nd vis a nd' e :
  wf nd -> start_rec fuel specs nd vis a = (nd', 0, e) ->
  exists nd1 pre,
    sr_ok (a :: vis) nd nd1 pre /\
    (forall d, In d (sp_deps (spec_of specs a)) -> st nd1 d = 2) /\
    st nd a = 1 /\ st nd1 a = 1 /\ a < length nd /\ ~ In a vis /\
    nd' = set nd1 a (mk_app 2 (sp_mode (spec_of specs a)) (seq 0 (sp_n (spec_of specs a))) (a_fail (get nd1 a))) /\
    e = pre ++ start_block a (sp_n (spec_of specs a)) (sp_mode (spec_of specs a)).
Proof.
  intros Hw H. destruct fuel as [|f]; [cbn [start_rec] in H; inversion H|].
  rewrite start_rec_S in H.
  destruct (a_st (get nd a) =? 0) eqn:E0; [inversion H|].
  destruct (mem a vis) eqn:Em; [inversion H|].
  destruct (deps_loop _ _ nd []) as [[nd1 ok] evs] eqn:ED.
  pose proof (deps_loop_ok _ _ _ _ _ _ _ _ Hw ED) as H1.
  destruct ok; [|inversion H].
  destruct (deps_loop_running _ _ _ _ _ _ _ _ Hw ED) as (_ & _ & Hdeps).
  exists nd1, evs. split; [exact H1|]. split; [exact Hdeps|].
  apply Nat.eqb_neq in E0.
  unfold app_start in H. fold (st nd1 a) in H.
  assert (Hst : st nd1 a = 1).
  { destruct (st nd1 a) as [|[|[|s]]]; try (inversion H; fail). reflexivity. }
  rewrite Hst in H.
  destruct (fail_index (spec_of specs a) (get nd1 a)); [inversion H|].
  inversion H; subst; clear H.
  assert (Hst0 : st nd a = 1).
  { destruct (sr_ok_mono _ _ _ _ H1 a) as [Hm|Hm]; [lia|].
    lia. }
  repeat split; try assumption; try reflexivity.
  - apply loaded_lt. exact E0.
  - apply mem_false. exact Em.
Qed.

(* ---- H4 ------------------------------------------------------------------------------- *)
Theorem hist_deps_first specs fuel nd vis a nd' evs :
  wf nd -> start_rec fuel specs nd vis a = (nd', 0, evs) ->
  (* (i) every dependency is running when the start reports success *)
  (forall d, In d (sp_deps (spec_of specs a)) -> a_st (get nd' d) = 2) /\
  (* (ii) everything of the dependencies comes before the first member of a is spawned,
          and contains no event of a (nor of an application on the visiting chain) *)
  (exists pre, evs = pre ++ start_block a (sp_n (spec_of specs a)) (sp_mode (spec_of specs a)) /\
               forall e, In e pre -> ev_app e <> a /\ ~ In (ev_app e) vis) /\
  (* (iii) a itself was loaded, is running now, in the mode of its specification, all members alive *)
  a_st (get nd a) = 1 /\ a_st (get nd' a) = 2 /\
  a_mode (get nd' a) = sp_mode (spec_of specs a) /\
  a_live (get nd' a) = seq 0 (sp_n (spec_of specs a)).
Proof.
  intros Hw H.
  destruct (start_rec_success specs fuel nd vis a nd' evs Hw H)
    as (nd1 & pre & H1 & Hdeps & Hs0 & Hs1 & Hlt & Hnv & -> & ->).
  assert (Hl1 : a < length nd1) by (rewrite (sr_ok_length _ _ _ _ H1); exact Hlt).
  split; [|split].
  - intros d Hd. rewrite get_set. destruct ((a =? d) && (a <? length nd1)); [reflexivity | apply Hdeps; exact Hd].
  - exists pre. split; [reflexivity|]. intros e He.
    destruct H1 as (_ & _ & _ & V). specialize (V e He). split.
    + intros Heq. apply V. left. symmetry. exact Heq.
    + intros Hin. apply V. right. exact Hin.
  - rewrite (get_set_eq nd1 a _ Hl1). cbn [a_st a_mode a_live]. repeat split. exact Hs0.
Qed.

(* the recursion never stops or unloads anything: running stays running, unloaded stays unloaded *)
Theorem start_rec_monotone specs fuel nd vis a nd' r evs :
  wf nd -> start_rec fuel specs nd vis a = (nd', r, evs) ->
  wf nd' /\ length nd' = length nd /\
  forall b, (a_st (get nd b) = 2 -> a_st (get nd' b) = 2) /\
            (a_st (get nd b) = 0 <-> a_st (get nd' b) = 0) /\
            count_ev (is_term_of b) evs = 0.
Proof.
  intros Hw H. pose proof (start_rec_ok specs _ _ _ _ _ _ _ Hw H) as Hok.
  split; [exact (sr_ok_wf _ _ _ _ Hok)|]. split; [exact (sr_ok_length _ _ _ _ Hok)|].
  intros b. pose proof (sr_ok_mono _ _ _ _ Hok b) as Hm. unfold st in Hm.
  split; [lia|]. split; [lia|].
  destruct Hok as ((_ & _ & T) & _). destruct (trans_ok_counts b _ _ _ (T b)) as [_ C]. rewrite C.
  unfold st. destruct (Nat.eqb_spec (a_st (get nd b)) 2), (Nat.eqb_spec (a_st (get nd' b)) 1); cbn [andb]; lia.
Qed.

(* ======================================================================================= *)
(* H1 per step: what the return value of a start says                                        *)
(* ======================================================================================= *)
Lemma st_set nd a x b :
  st (set nd a x) b = if (a =? b) && (a <? length nd) then a_st x else st nd b.
Proof. unfold st. rewrite get_set. destruct ((a =? b) && (a <? length nd)); reflexivity. Qed.

Definition start_ret_ok (t : stp) : Prop :=
  match t_op t with
  | OStartM a m => o_ret (t_obs t) = 0 <-> goes a 1 2 t = true
  | OStart a => o_ret (t_obs t) = 0 -> goes a 1 2 t = true
  | _ => True
  end.

Theorem hist_start_ret specs ops nd : wf nd -> Forall start_ret_ok (seq_trace specs nd ops).
Proof.
  apply trace_forall_wf. intros n o Hw. unfold start_ret_ok. cbn [t_op fst snd].
  destruct o as [a|a|a|a m|a|a|a m r|a k|]; try exact I; unfold goes; cbn [t_obs t_pre t_post fst snd seq_step].
  - destruct (start_rec (fuel_for specs) specs n [] a) as [[nd' r] e] eqn:E. cbn [fst snd obs_of o_ret].
    intros ->. destruct (hist_deps_first specs _ _ _ _ _ _ Hw E) as (_ & _ & S0 & S1 & _).
    unfold st. rewrite S0, S1. reflexivity.
  - destruct (app_start a (spec_of specs a) (get n a) m) as [[x' r] e] eqn:E. cbn [fst snd obs_of o_ret].
    destruct (app_start_ok _ _ _ _ _ _ _ (Hw a) E) as (_ & _ & _ & _ & A5 & _ & A7 & _).
    rewrite st_set, Nat.eqb_refl. cbn [andb]. fold (st n a) in A5, A7.
    destruct (Nat.ltb_spec a (length n)) as [Hl|Hl].
    + rewrite A7. destruct (Nat.eqb_spec (st n a) 1), (Nat.eqb_spec (a_st x') 2); cbn [andb];
        split; intros; try lia; try discriminate; try reflexivity.
    + assert (Hz : st n a = 0) by (unfold st; rewrite (get_oob n a Hl); reflexivity).
      rewrite A7, Hz. cbn [Nat.eqb andb]. split; [lia | discriminate].
Qed.

(* ======================================================================================= *)
(* H2 (ii): the end of a run has exactly one cause, handed to the Terminate callback         *)
(* ======================================================================================= *)
Definition cause_of (nd : node) (o : op) (a : nat) : option nat :=
  match o with
  | OStop a' => if a' =? a then Some 1 else None
  | OForce a' => if a' =? a then Some 2 else None
  | ODie a' m r => if a' =? a then Some (if rule_fires (a_mode (get nd a)) r then r else 0) else None
  | _ => None
  end.

Definition term_cause_ok (a : nat) (t : stp) : Prop :=
  goes a 2 1 t = true ->
  exists r, cause_of (t_pre t) (t_op t) a = Some r /\
            filter (is_term_of a) (o_ev (t_obs t)) = [ETerm a r 0].

Lemma filter_term_one a r k : filter (is_term_of a) [ETerm a r k] = [ETerm a r k].
Proof. cbn [filter is_term_of]. rewrite Nat.eqb_refl. reflexivity. Qed.

Lemma set_st_cases nd a' x' a :
  st (set nd a' x') a = st nd a \/ (a' = a /\ st (set nd a' x') a = a_st x').
Proof.
  rewrite st_set. destruct (Nat.eqb_spec a' a) as [->|Hn]; cbn [andb]; [|left; reflexivity].
  destruct (a <? length nd); [right; split; reflexivity | left; reflexivity].
Qed.

Lemma step_cause specs nd o a :
  wf nd -> term_cause_ok a (nd, o, snd (seq_step specs nd o), fst (seq_step specs nd o)).
Proof.
  intros Hw. unfold term_cause_ok, goes. cbn [t_pre t_post t_op t_obs fst snd]. intros G.
  apply andb_true_iff in G as [G1 G2]. apply Nat.eqb_eq in G1, G2. revert G2.
  destruct o as [b|b|b|b m|b|b|b m r|b k|]; cbn [seq_step cause_of].
  - destruct (a_st (get nd b) =? 0) eqn:E0; cbn [fst snd obs_of o_ev]; [|intros; lia].
    apply Nat.eqb_eq in E0. destruct (set_st_cases nd b (mk_app 1 (sp_mode (spec_of specs b)) [] (a_fail (get nd b))) a)
      as [S|[-> S]]; rewrite S; intros; unfold st in *; lia.
  - destruct (a_st (get nd b)) as [|[|s]] eqn:E; cbn [fst snd obs_of o_ev]; try (intros; lia).
    destruct (set_st_cases nd b (mk_app 0 (a_mode (get nd b)) [] (a_fail (get nd b))) a)
      as [S|[-> S]]; rewrite S; intros; unfold st in *; cbn [a_st] in *; lia.
  - destruct (start_rec (fuel_for specs) specs nd [] b) as [[nd' r] e] eqn:E. cbn [fst snd obs_of o_ev].
    pose proof (sr_ok_mono _ _ _ _ (start_rec_ok specs _ _ _ _ _ _ _ Hw E) a). intros; lia.
  - destruct (app_start b (spec_of specs b) (get nd b) m) as [[x' r] e] eqn:E. cbn [fst snd obs_of o_ev].
    destruct (app_start_ok _ _ _ _ _ _ _ (Hw b) E) as (_ & _ & _ & _ & A5 & _).
    destruct (set_st_cases nd b x' a) as [S|[-> S]]; rewrite S; intros; unfold st in *; lia.
  - destruct (app_stop b (get nd b) false) as [[x' r] e] eqn:E. cbn [fst snd obs_of o_ev].
    destruct (app_stop_ok _ _ _ _ _ _ (Hw b) E) as (_ & _ & _ & _ & _ & _ & A7 & _).
    destruct (set_st_cases nd b x' a) as [S|[-> S]]; rewrite S; intros G2; [lia|].
    destruct (A7 G1) as (_ & _ & ->). rewrite Nat.eqb_refl. exists 1. split; [reflexivity | apply filter_term_one].
  - destruct (app_stop b (get nd b) true) as [[x' r] e] eqn:E. cbn [fst snd obs_of o_ev].
    destruct (app_stop_ok _ _ _ _ _ _ (Hw b) E) as (_ & _ & _ & _ & _ & _ & A7 & _).
    destruct (set_st_cases nd b x' a) as [S|[-> S]]; rewrite S; intros G2; [lia|].
    destruct (A7 G1) as (_ & _ & ->). rewrite Nat.eqb_refl. exists 2. split; [reflexivity | apply filter_term_one].
  - destruct (app_die b (get nd b) m r) as [[x' rt] e] eqn:E. cbn [fst snd obs_of o_ev].
    destruct (app_die_ok _ _ _ _ _ _ _ (Hw b) E) as (_ & _ & _ & _ & _ & _ & A7 & _).
    destruct (set_st_cases nd b x' a) as [S|[-> S]]; rewrite S; intros G2; [lia|].
    rewrite (A7 G1 G2). rewrite Nat.eqb_refl. eexists. split; [reflexivity | apply filter_term_one].
  - cbn [fst snd obs_of o_ev].
    destruct (set_st_cases nd b (mk_app (a_st (get nd b)) (a_mode (get nd b)) (a_live (get nd b)) k) a)
      as [S|[-> S]]; rewrite S; intros; unfold st in *; cbn [a_st] in *; lia.
  - cbn [fst snd]. intros; lia.
Qed.

Theorem hist_term_cause specs ops nd a : wf nd -> Forall (term_cause_ok a) (seq_trace specs nd ops).
Proof. apply trace_forall_wf. intros n o Hw. apply step_cause. exact Hw. Qed.

(* ======================================================================================= *)
(* H2 (iii): Start and Terminate of one application alternate                                *)
(* ======================================================================================= *)
(* the automaton: running = a Start without its Terminate is pending; None = not alternating *)
Fixpoint alt (a : nat) (running : bool) (l : list ev) : option bool :=
  match l with
  | [] => Some running
  | e :: tl =>
      if is_start_of a e then (if running then None else alt a true tl)
      else if is_term_of a e then (if running then alt a false tl else None)
      else alt a running tl
  end.

Lemma alt_app a : forall l1 l2 r,
  alt a r (l1 ++ l2) = match alt a r l1 with Some r' => alt a r' l2 | None => None end.
Proof.
  induction l1 as [|e l1 IH]; intros l2 r; [reflexivity|]. cbn [List.app alt].
  destruct (is_start_of a e); [destruct r; [reflexivity | apply IH]|].
  destruct (is_term_of a e); [destruct r; [apply IH | reflexivity]|]. apply IH.
Qed.

Lemma alt_proj a : forall l r, alt a r l = alt a r (proj a l).
Proof.
  induction l as [|e l IH]; intros r; [reflexivity|]. cbn [alt proj filter]. unfold is_se.
  destruct (is_start_of a e) eqn:Es; cbn [orb alt].
  - rewrite Es. destruct r; [reflexivity | apply IH].
  - destruct (is_term_of a e) eqn:Et; cbn [alt]; [rewrite Es, Et; destruct r; [apply IH | reflexivity] | apply IH].
Qed.

Lemma trans_ok_alt a sx sy e : trans_ok a sx sy e -> alt a (sx =? 2) e = Some (sy =? 2).
Proof.
  rewrite alt_proj. intros [(A1&A2&m&P)|[(A1&A2&r&P)|(A1&P)]]; rewrite P; subst; cbn [alt is_start_of is_term_of];
    try rewrite Nat.eqb_refl; try reflexivity.
  destruct (Nat.eqb_spec sx 2), (Nat.eqb_spec sy 2); try reflexivity; exfalso; tauto.
Qed.

Theorem hist_alternation specs a : forall ops nd, wf nd ->
  alt a (st nd a =? 2) (hist_ev (seq_trace specs nd ops)) = Some (st (seq_final specs nd ops) a =? 2).
Proof.
  induction ops as [|o tl IH]; intros nd Hw; [reflexivity|].
  cbn [seq_trace hist_ev flat_map seq_final fold_left].
  fold (hist_ev (seq_trace specs (fst (seq_step specs nd o)) tl)).
  fold (seq_final specs (fst (seq_step specs nd o)) tl).
  cbn [t_obs fst snd]. rewrite alt_app.
  destruct (step_ok specs nd o Hw) as (_ & _ & T). rewrite (trans_ok_alt a _ _ _ (T a)).
  apply IH. apply step_wf. exact Hw.
Qed.

(* what the automaton accepts, explicitly: Start, Terminate, Start, Terminate, ... *)
Inductive alternating (a : nat) : bool -> list ev -> bool -> Prop :=
| alt_done r : alternating a r [] r
| alt_start m l r : alternating a true l r -> alternating a false (EStart a m :: l) r
| alt_term c k l r : alternating a false l r -> alternating a true (ETerm a c k :: l) r.

Lemma alt_alternating a : forall l r0 r, alt a r0 l = Some r -> alternating a r0 (proj a l) r.
Proof.
  induction l as [|e l IH]; intros r0 r H; cbn [alt] in H.
  - inversion H; subst. constructor.
  - cbn [proj filter]. unfold is_se.
    destruct e as [b m|b m|b c k|b]; cbn [is_start_of is_term_of orb] in *; try (apply IH; exact H).
    + destruct (Nat.eqb_spec a b) as [<-|Hn]; cbn [orb]; [|apply IH; exact H].
      destruct r0; [discriminate|]. constructor. apply IH. exact H.
    + destruct (Nat.eqb_spec a b) as [<-|Hn]; [|apply IH; exact H].
      destruct r0; [|discriminate]. constructor. apply IH. exact H.
Qed.

Lemma alternating_counts a r0 l r : alternating a r0 l r ->
  count_ev (is_start_of a) l + (if r0 then 1 else 0) = count_ev (is_term_of a) l + (if r then 1 else 0).
Proof.
  unfold count_ev. induction 1 as [r|m l r H IH|c k l r H IH]; cbn [filter is_start_of is_term_of].
  - reflexivity.
  - rewrite Nat.eqb_refl. cbn [length]. lia.
  - rewrite Nat.eqb_refl. cbn [length]. lia.
Qed.

(* ---- H2, assembled -------------------------------------------------------------------- *)
Theorem hist_terminate_once_with_cause specs ops nd a : wf nd ->
  let tr := seq_trace specs nd ops in
  let h := hist_ev tr in
  (* (i) one Terminate callback per completed run *)
  count_ev (is_term_of a) h = length (filter (goes a 2 1) tr) /\
  (* (ii) with the cause of the end of the run, after the last member is gone *)
  Forall (term_cause_ok a) tr /\
  (* (iii) Start and Terminate alternate; a Start is pending at the end iff a is running *)
  alternating a (st nd a =? 2) (proj a h) (st (seq_final specs nd ops) a =? 2) /\
  count_ev (is_start_of a) h + (if st nd a =? 2 then 1 else 0) =
  count_ev (is_term_of a) h + (if st (seq_final specs nd ops) a =? 2 then 1 else 0).
Proof.
  intros Hw tr h. subst h tr. split; [apply hist_term_count; exact Hw|]. split; [apply hist_term_cause; exact Hw|].
  pose proof (alt_alternating a _ _ _ (hist_alternation specs a ops nd Hw)) as HA. split; [exact HA|].
  pose proof (alternating_counts a _ _ _ HA) as HC. unfold count_ev in *.
  rewrite <- starts_proj, <- terms_proj in HC. exact HC.
Qed.

(* from the initial node (or any node where a is not running): the projection begins with a Start,
   and #Terminate <= #Start <= #Terminate + 1, the latter iff a is running at the end *)
Corollary hist_terminate_once_init specs ops a :
  let h := hist_ev (seq_trace specs (init_node specs) ops) in
  let fin := seq_final specs (init_node specs) ops in
  alternating a false (proj a h) (st fin a =? 2) /\
  count_ev (is_start_of a) h = count_ev (is_term_of a) h + (if st fin a =? 2 then 1 else 0).
Proof.
  intros h fin.
  destruct (hist_terminate_once_with_cause specs ops (init_node specs) a (wf_init specs)) as (_ & _ & HA & HC).
  unfold st at 1 in HA. unfold st at 1 in HC. rewrite get_init in HA, HC. cbn [no_app a_st Nat.eqb] in HA, HC.
  fold h fin in HA, HC. split; [exact HA | lia].
Qed.

(* ======================================================================================= *)
(* H3: a stop request that reports success leaves the application stopped, no member left    *)
(* ======================================================================================= *)
Definition stop_clean_ok (t : stp) : Prop :=
  o_apps (t_obs t) = map (fun x => (a_st x, a_live x)) (t_post t) /\
  wf (t_post t) /\
  match t_op t with
  | OStop a | OForce a =>
      o_ret (t_obs t) = 0 ->
      a_st (get (t_post t) a) <= 1 /\ a_live (get (t_post t) a) = [] /\
      fst (app_at (o_apps (t_obs t)) a) <= 1 /\ snd (app_at (o_apps (t_obs t)) a) = []
  | _ => True
  end.

Lemma app_at_obs nd a : app_at (map (fun x => (a_st x, a_live x)) nd) a = (a_st (get nd a), a_live (get nd a)).
Proof. unfold app_at, get. exact (map_nth (fun x => (a_st x, a_live x)) nd no_app a). Qed.

Lemma stop_step_clean specs nd a (force : bool) :
  wf nd ->
  let o := if force then OForce a else OStop a in
  o_ret (snd (seq_step specs nd o)) = 0 ->
  a_st (get (fst (seq_step specs nd o)) a) <= 1 /\ a_live (get (fst (seq_step specs nd o)) a) = [].
Proof.
  intros Hw o. assert (E : seq_step specs nd o =
     let '(x', r, e) := app_stop a (get nd a) force in (set nd a x', obs_of (set nd a x') r e))
    by (destruct force; reflexivity).
  rewrite E. destruct (app_stop a (get nd a) force) as [[x' r] e] eqn:ES. cbn [fst snd obs_of o_ret]. intros ->.
  destruct (Hw a) as [_ W2]. destruct (seq_stop_truthful a (get nd a) force x' e W2 ES) as [S1 S2].
  rewrite get_set, Nat.eqb_refl. cbn [andb].
  destruct (Nat.ltb_spec a (length nd)) as [Hl|Hl]; [split; assumption|].
  rewrite (get_oob nd a Hl). cbn [no_app a_st a_live]. split; [lia | reflexivity].
Qed.

Theorem hist_stop_clean specs ops nd : wf nd -> Forall stop_clean_ok (seq_trace specs nd ops).
Proof.
  apply trace_forall_wf. intros n o Hw. unfold stop_clean_ok. cbn [t_obs t_post t_op fst snd].
  split; [apply step_apps|]. split; [apply step_wf; exact Hw|].
  destruct o as [a|a|a|a m|a|a|a m r|a k|]; try exact I; intros Hr; rewrite step_apps, app_at_obs; cbn [fst snd].
  - destruct (stop_step_clean specs n a false Hw Hr) as [S1 S2]. repeat split; assumption.
  - destruct (stop_step_clean specs n a true Hw Hr) as [S1 S2]. repeat split; assumption.
Qed.

(* ======================================================================================= *)
(* H5: the fuel of the dependency recursion never runs out                                   *)
(* ======================================================================================= *)
Definition loaded_count (nd : node) : nat := length (filter (fun x => negb (a_st x =? 0)) nd).
Definition loaded_idx (nd : node) : list nat := filter (fun i => negb (st nd i =? 0)) (seq 0 (length nd)).

Lemma map_get_seq nd : map (get nd) (seq 0 (length nd)) = nd.
Proof.
  induction nd as [|x nd IH]; [reflexivity|]. cbn [length seq map]. f_equal.
  rewrite <- seq_shift, map_map. exact IH.
Qed.

Lemma filter_map_length {A B} (p : B -> bool) (g : A -> B) l :
  length (filter p (map g l)) = length (filter (fun i => p (g i)) l).
Proof.
  induction l as [|x l IH]; [reflexivity|]. cbn [map filter].
  destruct (p (g x)); cbn [length]; rewrite IH; reflexivity.
Qed.

Lemma loaded_count_idx nd : loaded_count nd = length (loaded_idx nd).
Proof.
  unfold loaded_count, loaded_idx.
  transitivity (length (filter (fun x => negb (a_st x =? 0)) (map (get nd) (seq 0 (length nd))))).
  - rewrite map_get_seq. reflexivity.
  - exact (filter_map_length (fun x => negb (a_st x =? 0)) (get nd) (seq 0 (length nd))).
Qed.

Lemma loaded_count_le nd : loaded_count nd <= length nd.
Proof.
  unfold loaded_count. induction nd as [|x nd IH]; [apply Nat.le_refl|]. cbn [filter].
  destruct (negb (a_st x =? 0)); cbn [length]; lia.
Qed.

(* a duplicate-free list of loaded applications is no longer than the number of loaded ones *)
Lemma pigeonhole nd l : NoDup l -> (forall v, In v l -> st nd v <> 0) -> length l <= loaded_count nd.
Proof.
  intros Hn Hl. rewrite loaded_count_idx. apply NoDup_incl_length; [exact Hn|].
  intros v Hv. unfold loaded_idx. apply filter_In. split.
  - apply in_seq. pose proof (loaded_lt nd v (Hl v Hv)). lia.
  - apply negb_true_iff, Nat.eqb_neq. apply Hl. exact Hv.
Qed.

Lemma loaded_count_sr vis nd nd' e : sr_ok vis nd nd' e -> loaded_count nd' = loaded_count nd.
Proof.
  intros H. rewrite !loaded_count_idx. unfold loaded_idx. rewrite (sr_ok_length _ _ _ _ H).
  f_equal. apply filter_ext. intros i. pose proof (sr_ok_mono _ _ _ _ H i) as Hm.
  destruct (Nat.eqb_spec (st nd' i) 0), (Nat.eqb_spec (st nd i) 0); try reflexivity; exfalso; lia.
Qed.

(* the visiting chain is duplicate free, consists of loaded applications, and together with the
   remaining fuel exceeds the number of loaded applications *)
Definition chain_ok (nd : node) (vis : list nat) (fuel : nat) : Prop :=
  NoDup vis /\ (forall v, In v vis -> a_st (get nd v) <> 0) /\ loaded_count nd < fuel + length vis.

Lemma chain_ok_sr v nd nd' e vis fuel : sr_ok v nd nd' e -> chain_ok nd vis fuel -> chain_ok nd' vis fuel.
Proof.
  intros H (C1 & C2 & C3). split; [exact C1|]. split.
  - intros x Hx. pose proof (sr_ok_mono _ _ _ _ H x) as Hm. specialize (C2 x Hx). unfold st in Hm. lia.
  - rewrite (loaded_count_sr _ _ _ _ H). exact C3.
Qed.

Lemma chain_ok_0 nd vis : chain_ok nd vis 0 -> False.
Proof. intros (C1 & C2 & C3). pose proof (pigeonhole nd vis C1 C2). lia. Qed.

Lemma chain_ok_push nd vis f a :
  chain_ok nd vis (S f) -> a_st (get nd a) <> 0 -> mem a vis = false -> chain_ok nd (a :: vis) f.
Proof.
  intros (C1 & C2 & C3) Ha Hm. split; [constructor; [apply mem_false; exact Hm | exact C1]|]. split.
  - intros v [<-|Hv]; [exact Ha | apply C2; exact Hv].
  - cbn [length]. lia.
Qed.

Lemma deps_loop_ext (I : node -> Prop) rec1 rec2 :
  (forall nd d, I nd -> rec1 nd d = rec2 nd d) ->
  (forall nd d nd' r e, I nd -> rec1 nd d = (nd', r, e) -> I nd') ->
  forall ds nd evs, I nd -> deps_loop rec1 ds nd evs = deps_loop rec2 ds nd evs.
Proof.
  intros Heq Hpres. induction ds as [|d tl IH]; intros nd evs HI; cbn [deps_loop]; [reflexivity|].
  rewrite <- (Heq nd d HI). destruct (rec1 nd d) as [[nd' r] e] eqn:E.
  destruct ((r =? 0) || (r =? 1)); [|reflexivity]. apply IH. apply (Hpres nd d nd' r e HI E).
Qed.

(* the result does not depend on the fuel as soon as the bound holds: no call of the recursion,
   at any depth, ever reaches fuel 0 (a dependency answering 9 would be reported as 5) *)
Theorem start_rec_fuel_indep specs : forall f1 f2 nd vis a,
  wf nd -> chain_ok nd vis f1 -> chain_ok nd vis f2 ->
  start_rec f1 specs nd vis a = start_rec f2 specs nd vis a.
Proof.
  induction f1 as [|f1 IH]; intros f2 nd vis a Hw C1 C2; [destruct (chain_ok_0 _ _ C1)|].
  destruct f2 as [|f2]; [destruct (chain_ok_0 _ _ C2)|].
  rewrite !start_rec_S.
  destruct (a_st (get nd a) =? 0) eqn:E0; [reflexivity|].
  destruct (mem a vis) eqn:Em; [reflexivity|].
  apply Nat.eqb_neq in E0.
  rewrite (deps_loop_ext (fun n => wf n /\ chain_ok n (a :: vis) f1 /\ chain_ok n (a :: vis) f2)
             (fun nd d => start_rec f1 specs nd (a :: vis) d) (fun nd d => start_rec f2 specs nd (a :: vis) d)).
  - reflexivity.
  - intros n d (Hn & D1 & D2). apply IH; assumption.
  - intros n d n' r e (Hn & D1 & D2) E. pose proof (start_rec_ok specs _ _ _ _ _ _ _ Hn E) as Hok.
    split; [exact (sr_ok_wf _ _ _ _ Hok)|]. split; apply (chain_ok_sr _ _ _ _ _ _ Hok); assumption.
  - split; [exact Hw|]. split; apply chain_ok_push; assumption.
Qed.

(* ---- H5 ------------------------------------------------------------------------------- *)
Theorem hist_fuel_sufficient specs fuel nd vis a :
  wf nd -> NoDup vis -> (forall v, In v vis -> a_st (get nd v) <> 0) ->
  loaded_count nd < fuel + length vis ->
  snd (fst (start_rec fuel specs nd vis a)) <> 9 /\
  forall k, start_rec (fuel + k) specs nd vis a = start_rec fuel specs nd vis a.
Proof.
  intros Hw H1 H2 H3. split.
  - destruct fuel as [|f]; [exfalso; apply (chain_ok_0 nd vis); repeat split; assumption|].
    rewrite start_rec_S.
    destruct (a_st (get nd a) =? 0); [cbn [fst snd]; lia|].
    destruct (mem a vis); [cbn [fst snd]; lia|].
    destruct (deps_loop _ _ nd []) as [[nd1 ok] evs] eqn:ED.
    pose proof (deps_loop_ok _ _ _ _ _ _ _ _ Hw ED) as Hok.
    destruct ok; [|cbn [fst snd]; lia].
    destruct (app_start a (spec_of specs a) (get nd1 a) (sp_mode (spec_of specs a))) as [[x' r'] e'] eqn:ES.
    cbn [fst snd].
    destruct (app_start_ok _ _ _ _ _ _ _ (sr_ok_wf _ _ _ _ Hok a) ES) as (_ & _ & _ & _ & _ & _ & _ & _ & A9).
    exact A9.
  - intros k. apply start_rec_fuel_indep; [exact Hw | |]; repeat split; try assumption; lia.
Qed.

Corollary fuel_loaded_count_suffices specs nd a :
  wf nd ->
  snd (fst (start_rec (loaded_count nd + 1) specs nd [] a)) <> 9 /\
  forall k, start_rec (loaded_count nd + 1 + k) specs nd [] a = start_rec (loaded_count nd + 1) specs nd [] a.
Proof.
  intros Hw. apply hist_fuel_sufficient; [exact Hw | constructor | intros v [] | cbn [length]; lia].
Qed.

Corollary fuel_for_suffices specs nd a :
  wf nd -> length nd <= length specs ->
  snd (fst (start_rec (fuel_for specs) specs nd [] a)) <> 9 /\
  forall k, start_rec (fuel_for specs + k) specs nd [] a = start_rec (fuel_for specs) specs nd [] a.
Proof.
  intros Hw Hl. apply hist_fuel_sufficient; [exact Hw | constructor | intros v [] |].
  pose proof (loaded_count_le nd). unfold fuel_for. cbn [length]. lia.
Qed.

Lemma step_no9 specs nd o :
  wf nd -> length nd <= length specs -> o_ret (snd (seq_step specs nd o)) <> 9.
Proof.
  intros Hw Hl. destruct o as [a|a|a|a m|a|a|a m r|a k|]; cbn [seq_step].
  - destruct (a_st (get nd a) =? 0); cbn [snd obs_of o_ret]; lia.
  - destruct (a_st (get nd a)) as [|[|s]]; cbn [snd obs_of o_ret]; lia.
  - destruct (fuel_for_suffices specs nd a Hw Hl) as [H9 _].
    destruct (start_rec (fuel_for specs) specs nd [] a) as [[nd' r] e]. exact H9.
  - destruct (app_start a (spec_of specs a) (get nd a) m) as [[x' r] e] eqn:E. cbn [snd obs_of o_ret].
    destruct (app_start_ok _ _ _ _ _ _ _ (Hw a) E) as (_ & _ & _ & _ & _ & _ & _ & _ & A9). exact A9.
  - destruct (app_stop a (get nd a) false) as [[x' r] e] eqn:E. cbn [snd obs_of o_ret].
    destruct (app_stop_ok _ _ _ _ _ _ (Hw a) E) as (_ & _ & _ & _ & _ & _ & _ & A8). exact A8.
  - destruct (app_stop a (get nd a) true) as [[x' r] e] eqn:E. cbn [snd obs_of o_ret].
    destruct (app_stop_ok _ _ _ _ _ _ (Hw a) E) as (_ & _ & _ & _ & _ & _ & _ & A8). exact A8.
  - destruct (app_die a (get nd a) m r) as [[x' rt] e] eqn:E. cbn [snd obs_of o_ret].
    destruct (app_die_ok _ _ _ _ _ _ _ (Hw a) E) as (_ & _ & _ & _ & _ & _ & _ & A8). exact A8.
  - cbn [snd obs_of o_ret]. lia.
  - cbn [snd obs_of o_ret]. lia.
Qed.

Definition fuel_ok (specs : list aspec) (t : stp) : Prop :=
  o_ret (t_obs t) <> 9 /\
  match t_op t with
  | OStart a => forall k, start_rec (fuel_for specs + k) specs (t_pre t) [] a
                          = start_rec (fuel_for specs) specs (t_pre t) [] a
  | _ => True
  end.

Theorem hist_fuel_independent specs ops nd :
  wf nd -> length nd <= length specs -> Forall (fuel_ok specs) (seq_trace specs nd ops).
Proof.
  intros Hw Hl.
  apply (trace_forall specs (fun n => wf n /\ length n <= length specs)); [| |split; assumption].
  - intros n o [Hn Hln]. split; [apply step_wf; exact Hn|]. rewrite (step_length specs n o Hn). exact Hln.
  - intros n o [Hn Hln]. split; [apply step_no9; assumption|]. cbn [t_op t_pre fst snd].
    destruct o; try exact I. apply fuel_for_suffices; assumption.
Qed.

(* code 9 (fuel exhausted) appears in no history of the model *)
Theorem hist_no_fuel_exhaustion specs ops :
  Forall (fun s => o_ret (snd s) <> 9) (seq_run specs (init_node specs) ops).
Proof.
  rewrite <- seq_trace_run. apply Forall_map.
  pose proof (hist_fuel_independent specs ops (init_node specs) (wf_init specs)) as H.
  rewrite init_length in H. specialize (H (Nat.le_refl _)).
  apply (Forall_impl _ (P := fuel_ok specs)); [|exact H]. intros t [H9 _]. exact H9.
Qed.

(* ======================================================================================= *)
(* H6: on an acyclic dependency graph the cycle check never fires                            *)
(* ======================================================================================= *)
Lemma deps_loop_true (I : node -> Prop) rec : forall ds,
  (forall nd d, In d ds -> I nd -> exists nd' r e, rec nd d = (nd', r, e) /\ (r = 0 \/ r = 1) /\ I nd') ->
  forall nd evs, I nd -> exists nd' evs', deps_loop rec ds nd evs = (nd', true, evs') /\ I nd'.
Proof.
  induction ds as [|d tl IH]; intros Hrec nd evs HI; cbn [deps_loop].
  - exists nd, evs. split; [reflexivity | exact HI].
  - destruct (Hrec nd d (or_introl eq_refl) HI) as (nd' & r & e & -> & Hr & HI').
    assert (C : (r =? 0) || (r =? 1) = true) by (destruct Hr as [-> | ->]; reflexivity).
    rewrite C. apply IH; [|exact HI']. intros n d' Hd'. apply Hrec. right. exact Hd'.
Qed.

(* every application of the set R is loaded or running and all its members agree to start *)
Definition ready (specs : list aspec) (R : nat -> Prop) (nd : node) : Prop :=
  forall b, R b -> (st nd b = 1 \/ st nd b = 2) /\ fail_index (spec_of specs b) (get nd b) = None.

Lemma ready_sr specs R v nd nd' e : sr_ok v nd nd' e -> ready specs R nd -> ready specs R nd'.
Proof.
  intros H Hr b Hb. destruct (Hr b Hb) as [S F]. destruct H as (_ & M & Fl & _). split.
  - specialize (M b). lia.
  - unfold fail_index in *. rewrite (Fl b). exact F.
Qed.

Theorem start_acyclic_succeeds specs (rank : nat -> nat) (R : nat -> Prop) :
  (forall a d, R a -> In d (sp_deps (spec_of specs a)) -> rank d < rank a /\ R d) ->
  forall fuel nd vis a,
    wf nd -> ready specs R nd -> R a ->
    (forall v, In v vis -> rank a < rank v) -> rank a < fuel ->
    exists nd' r e, start_rec fuel specs nd vis a = (nd', r, e) /\ (r = 0 \/ r = 1) /\ st nd' a = 2.
Proof.
  intros Hrank. induction fuel as [|f IH]; intros nd vis a Hw Hrd Ra Hvis Hf; [lia|].
  rewrite start_rec_S.
  destruct (Hrd a Ra) as [Sa _].
  destruct (Nat.eqb_spec (a_st (get nd a)) 0) as [E0|E0]; [unfold st in Sa; lia|].
  destruct (mem a vis) eqn:Em; [apply mem_In in Em; specialize (Hvis a Em); lia|].
  destruct (deps_loop_true (fun n => wf n /\ ready specs R n)
              (fun nd d => start_rec f specs nd (a :: vis) d) (sp_deps (spec_of specs a))) with (nd := nd) (evs := @nil ev)
    as (nd1 & evs1 & -> & Hw1 & Hrd1).
  - intros n d Hd [Hn Hrn]. destruct (Hrank a d Ra Hd) as [Hlt Rd].
    destruct (IH n (a :: vis) d Hn Hrn Rd) as (n' & r & e & E & Hr & _).
    + intros v [<-|Hv]; [exact Hlt | specialize (Hvis v Hv); lia].
    + lia.
    + exists n', r, e. split; [exact E|]. split; [exact Hr|].
      pose proof (start_rec_ok specs _ _ _ _ _ _ _ Hn E) as Hok.
      split; [exact (sr_ok_wf _ _ _ _ Hok) | exact (ready_sr _ _ _ _ _ _ Hok Hrn)].
  - split; assumption.
  - destruct (Hrd1 a Ra) as [S1 F1]. unfold app_start. fold (st nd1 a). rewrite F1.
    assert (Hl : a < length nd1) by (apply loaded_lt; unfold st in S1; lia).
    destruct S1 as [S1|S1]; rewrite S1; eexists _, _, _; (split; [reflexivity|]); unfold st;
      rewrite (get_set_eq nd1 a _ Hl).
    + split; [left; reflexivity | reflexivity].
    + split; [right; reflexivity | exact S1].
Qed.

(* ---- H6 ------------------------------------------------------------------------------- *)
(* with the fuel the model uses: ApplicationStart on an acyclic, loaded, willing set of
   applications answers nil or ErrApplicationRunning, never ErrApplicationDepends (5) *)
Theorem hist_acyclic_start_succeeds specs (rank : nat -> nat) (R : nat -> Prop) nd a :
  (forall a d, R a -> In d (sp_deps (spec_of specs a)) -> rank d < rank a /\ R d) ->
  wf nd -> length nd <= length specs -> ready specs R nd -> R a ->
  exists nd' r e, start_rec (fuel_for specs) specs nd [] a = (nd', r, e) /\ (r = 0 \/ r = 1) /\ st nd' a = 2.
Proof.
  intros Hrank Hw Hl Hrd Ra.
  destruct (fuel_for_suffices specs nd a Hw Hl) as [_ Hk]. rewrite <- (Hk (S (rank a))).
  apply (start_acyclic_succeeds specs rank R Hrank); try assumption; [intros v [] | lia].
Qed.

(* ======================================================================================= *)
(* a non-trivial history: three applications in a dependency chain (2 needs 1 needs 0),      *)
(* application 1 permanent with two members; load all, start the top one, a member of the    *)
(* permanent one is killed, stop the top one, restart                                        *)
(* ======================================================================================= *)
Example hist_example :
  let specs := [mk_aspec 1 1 []; mk_aspec 3 2 [0]; mk_aspec 2 1 [1]] in
  let ops := [OLoad 0; OLoad 1; OLoad 2; OStart 2; ODie 1 0 2; OStop 2; OStart 2; OForce 0] in
  let tr := seq_trace specs (init_node specs) ops in
  let h := hist_ev tr in
  map (fun t => o_ret (t_obs t)) tr = [0; 0; 0; 0; 0; 0; 0; 0] /\
  h = [ELoad 0; ELoad 1; ELoad 2;
       EInit 0 0; EStart 0 1; EInit 1 0; EInit 1 1; EStart 1 3; EInit 2 0; EStart 2 2;
       ETerm 1 2 0; ETerm 2 1 0;
       EInit 1 0; EInit 1 1; EStart 1 3; EInit 2 0; EStart 2 2;
       ETerm 0 2 0] /\
  map (fun a => (count_ev (is_start_of a) h, length (filter (goes a 1 2) tr),
                 count_ev (is_term_of a) h, length (filter (goes a 2 1) tr),
                 st (seq_final specs (init_node specs) ops) a)) [0; 1; 2]
    = [(1, 1, 1, 1, 1); (2, 2, 1, 1, 2); (2, 2, 1, 1, 2)] /\
  map (fun a => alt a false h) [0; 1; 2] = [Some false; Some true; Some true] /\
  map (fun t => cause_of (t_pre t) (t_op t) 1) tr = [None; None; None; None; Some 2; None; None; None].
Proof. vm_compute. repeat split. Qed.

Print Assumptions seq_trace_run.
Print Assumptions seq_trace_chained.
Print Assumptions seq_final_wf.
Print Assumptions step_ok.
Print Assumptions hist_start_count.
Print Assumptions hist_start_ret.
Print Assumptions hist_term_count.
Print Assumptions hist_term_cause.
Print Assumptions hist_alternation.
Print Assumptions hist_terminate_once_with_cause.
Print Assumptions hist_terminate_once_init.
Print Assumptions hist_stop_clean.
Print Assumptions start_rec_ok.
Print Assumptions start_rec_success.
Print Assumptions start_rec_monotone.
Print Assumptions hist_deps_first.
Print Assumptions start_rec_fuel_indep.
Print Assumptions hist_fuel_sufficient.
Print Assumptions fuel_loaded_count_suffices.
Print Assumptions fuel_for_suffices.
Print Assumptions hist_fuel_independent.
Print Assumptions hist_no_fuel_exhaustion.
Print Assumptions start_acyclic_succeeds.
Print Assumptions hist_acyclic_start_succeeds.
Print Assumptions hist_example.
