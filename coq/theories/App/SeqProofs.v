(* App engine: the C17 rules as theorems about the sequential model (App/Seq.v), for every state
   of the application record (operation level). *)
From Ergo Require Import Common.Base App.Seq App.Cases.

Lemma no_start_in_inits a b k l : count_ev (is_start_of a) (map (EInit b) l) = k -> k = 0.
Proof. intros <-. induction l as [|x l IH]; [reflexivity|]. exact IH. Qed.

(* members in spec order, then the Start callback, exactly once *)
Theorem seq_start_order a sp x mode :
  a_st x = 1 -> fail_index sp x = None ->
  app_start a sp x mode =
    (mk_app 2 mode (seq 0 (sp_n sp)) (a_fail x), 0, start_block a (sp_n sp) mode) /\
  count_ev (is_start_of a) (start_block a (sp_n sp) mode) = 1.
Proof.
  intros H1 H2. unfold app_start. rewrite H1, H2. split; [reflexivity|].
  unfold start_block, count_ev. rewrite filter_app, app_length.
  fold (count_ev (is_start_of a) (map (EInit a) (seq 0 (sp_n sp)))).
  rewrite (no_start_in_inits a a _ _ eq_refl). cbn [filter is_start_of]. rewrite Nat.eqb_refl. reflexivity.
Qed.

(* a failed start leaves no member running, the state loaded, and the Start callback did not run *)
Theorem seq_failed_start_clean a sp x mode k :
  a_st x = 1 -> fail_index sp x = Some k ->
  exists x' e, app_start a sp x mode = (x', 7, e) /\ a_st x' = 1 /\ a_live x' = [] /\
               count_ev (is_start_of a) e = 0.
Proof.
  intros H1 H2. unfold app_start. rewrite H1, H2. eexists _, _. repeat split.
  apply (no_start_in_inits a a _ (seq 0 k)). reflexivity.
Qed.

(* an application that is not loaded is not started (and nothing happens) *)
Theorem seq_start_needs_loaded a sp x mode :
  a_st x <> 1 -> exists r, app_start a sp x mode = (x, r, []) /\ r <> 0.
Proof.
  intros H. unfold app_start. destruct (a_st x) as [|[|[|s]]]; try congruence; eexists; split; try reflexivity; lia.
Qed.

(* the mode rule, with the reason handed to the Terminate callback *)
Theorem seq_mode_rule a x m r :
  a_st x = 2 -> mem m (a_live x) = true ->
  (rule_fires (a_mode x) r = true ->
     app_die a x m r = (mk_app 1 (a_mode x) [] (a_fail x), 0, [ETerm a r 0])) /\
  (rule_fires (a_mode x) r = false -> remove_nat m (a_live x) = [] ->
     app_die a x m r = (mk_app 1 (a_mode x) [] (a_fail x), 0, [ETerm a 0 0])) /\
  (rule_fires (a_mode x) r = false -> remove_nat m (a_live x) <> [] ->
     app_die a x m r = (mk_app 2 (a_mode x) (remove_nat m (a_live x)) (a_fail x), 0, [])).
Proof.
  intros H1 H2. unfold app_die. rewrite H1, H2. cbn [Nat.eqb andb].
  repeat split; intros Hr; rewrite Hr; try reflexivity.
  - intros ->. reflexivity.
  - intros Hn. destruct (remove_nat m (a_live x)); [congruence | reflexivity].
Qed.

Theorem seq_rule_fires_spec mode r :
  rule_fires mode r = true <-> mode = 3 \/ (mode = 2 /\ r <> 0 /\ r <> 1).
Proof.
  unfold rule_fires, abnormal. split.
  - intros H. apply orb_true_iff in H as [H|H]; [left; apply Nat.eqb_eq; exact H|].
    apply andb_true_iff in H as [H1 H2]. right. apply Nat.eqb_eq in H1. split; [exact H1|].
    apply negb_true_iff, orb_false_iff in H2 as [H2 H3]. apply Nat.eqb_neq in H2, H3. auto.
  - intros [->|(-> & H0 & H1)]; [reflexivity|]. cbn [Nat.eqb orb andb].
    apply Nat.eqb_neq in H0, H1. rewrite H0, H1. reflexivity.
Qed.

(* stop: all members gone, Terminate once with shutdown / kill, back to loaded *)
Theorem seq_stop a x force :
  a_st x = 2 ->
  app_stop a x force = (mk_app 1 1 [] (a_fail x), 0, [ETerm a (if force then 2 else 1) 0]).
Proof. intros H. unfold app_stop. rewrite H. reflexivity. Qed.

(* success is reported only in a state where the application is stopped and no member is left *)
Theorem seq_stop_truthful a x force x' e :
  (a_st x <= 1 -> a_live x = []) ->
  app_stop a x force = (x', 0, e) -> a_st x' <= 1 /\ a_live x' = [].
Proof.
  intros Hwf. unfold app_stop. destruct (a_st x) as [|[|[|s]]] eqn:E; try destruct force; intros H; inversion H; subst;
    cbn [a_st a_live]; try rewrite E; split; try lia; try reflexivity; apply Hwf; lia.
Qed.

(* back to loaded = restartable: the next start of the stopped application succeeds *)
Theorem seq_restartable a sp x force mode :
  a_st x = 2 -> a_fail x = None ->
  let x' := fst (fst (app_stop a x force)) in
  app_start a sp x' mode = (mk_app 2 mode (seq 0 (sp_n sp)) None, 0, start_block a (sp_n sp) mode).
Proof.
  intros H1 H2. rewrite (seq_stop a x force H1). cbn [fst].
  unfold app_start, fail_index. cbn [a_st a_fail]. rewrite H2. reflexivity.
Qed.

(* dependency recursion (after fix b7945d3): meeting an application that is already being started
   by a caller is a cycle: ErrApplicationDepends (5), nothing is started, no event *)
Theorem seq_cycle_detected f specs nd vis a :
  a_st (get nd a) <> 0 -> mem a vis = true -> start_rec (S f) specs nd vis a = (nd, 5, []).
Proof.
  intros H0 Hm. cbn [start_rec].
  destruct (a_st (get nd a) =? 0) eqn:E; [apply Nat.eqb_eq in E; congruence|].
  rewrite Hm. reflexivity.
Qed.

(* an unknown application: ErrApplicationUnknown (4) *)
Theorem seq_start_unknown f specs nd vis a :
  a_st (get nd a) = 0 -> start_rec (S f) specs nd vis a = (nd, 4, []).
Proof. intros H0. cbn [start_rec]. rewrite H0. reflexivity. Qed.

(* cyclic graphs terminate with ErrApplicationDepends and start nothing; an acyclic chain starts the
   dependencies first (events of app 0 before those of app 1 before app 2) *)
Example seq_cycle_examples :
  let self := [mk_aspec 1 1 [0]] in
  let two := [mk_aspec 1 1 [1]; mk_aspec 1 2 [0]] in
  let chain := [mk_aspec 1 1 []; mk_aspec 2 1 [0]; mk_aspec 3 2 [1]] in
  map (fun s => o_ret (snd s)) (seq_run self (init_node self) [OLoad 0; OStart 0]) = [0; 5] /\
  map (fun s => (o_ret (snd s), o_ev (snd s))) (seq_run two (init_node two) [OLoad 0; OLoad 1; OStart 0; OStart 1])
    = [(0, [ELoad 0]); (0, [ELoad 1]); (5, []); (5, [])] /\
  map (fun s => (o_ret (snd s), o_ev (snd s))) (seq_run chain (init_node chain) [OLoad 0; OLoad 1; OLoad 2; OStart 2])
    = [(0, [ELoad 0]); (0, [ELoad 1]); (0, [ELoad 2]);
       (0, [EInit 0 0; EStart 0 1; EInit 1 0; EStart 1 2; EInit 2 0; EInit 2 1; EStart 2 3])].
Proof. vm_compute. repeat split. Qed.
