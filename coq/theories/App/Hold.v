(* App engine, sequential model WITH the state 'stopping' made observable: histories in which a stop
   is in progress while other operations are called.  App/Seq.v runs every operation to quiescence, so
   its applications are never seen in state 3; here a member can be HELD inside a message handler
   (it does not look at its mailbox, so an exit request does not reach it until the handler returns):
   a stop request with a short timeout (ApplicationStopWithTimeout) or the mode rule then leaves the
   application in state stopping, with exactly the held members alive, until they are released.
   /repo/node/application.go start / stop / terminate / finalise, /repo/node/node.go applicationStart.
   Definitions only (proofs: App/HoldProofs.v, checkers: App/HoldCases.v).
   Codes (state, mode, reason, return class) and aspec / ev / obs as in App/Seq.v. *)
From Ergo Require Import Common.Base App.Seq.

(* h_held: members inside a handler; h_reason: a.reason (meaningful while stopping) *)
Record happ := mk_happ { h_st : nat; h_mode : nat; h_live : list nat; h_held : list nat; h_reason : nat }.
Definition hnode := list happ.

Definition no_happ : happ := mk_happ 0 1 [] [] 0.
Definition hget (nd : hnode) (a : nat) : happ := nth a nd no_happ.
Fixpoint hset (nd : hnode) (a : nat) (x : happ) : hnode :=
  match nd, a with
  | [], _ => []
  | _ :: tl, 0 => x :: tl
  | y :: tl, S a' => y :: hset tl a' x
  end.

Inductive hop :=
| HLoad (a : nat) | HUnload (a : nat)
| HStart (a : nat)            (* ApplicationStart: dependencies first *)
| HHold (a m : nat)           (* member m enters a handler and stays there *)
| HRelease (a m : nat)        (* the handler of member m returns *)
| HStopT (a : nat)            (* ApplicationStopWithTimeout(a, short) *)
| HDie (a m r : nat).         (* member m (not held) terminates / is killed, reason r *)

(* application.start(mode):
     if CAS(state, Loaded, Running) == false {
         if state == Running { return ErrApplicationRunning }
         return ErrApplicationState }
   lax = the variant `state >= Running` (a stopping application answers ErrApplicationRunning);
   the code is lax = false. *)
Definition happ_start (lax : bool) (a : nat) (sp : aspec) (x : happ) (mode : nat) : happ * nat * list ev :=
  match h_st x with
  | 0 => (x, 4, [])
  | 1 => (mk_happ 2 mode (seq 0 (sp_n sp)) [] 0, 0, map (EInit a) (seq 0 (sp_n sp)) ++ [EStart a mode])
  | 2 => (x, 1, [])
  | _ => (x, if lax then 1 else 2, [])
  end.

(* for _, dep := range app.spec.Depends.Applications {
       if err := n.applicationStart(dep, options, starting); err != nil {
           if err == ErrApplicationUnknown { return ErrApplicationDepends }
           if err != ErrApplicationRunning { return ErrApplicationDepends } } } *)
Fixpoint hdeps_loop (rec : hnode -> nat -> hnode * nat * list ev) (ds : list nat) (nd : hnode) (evs : list ev)
  : hnode * bool * list ev :=
  match ds with
  | [] => (nd, true, evs)
  | d :: tl =>
      let '(nd', r, e) := rec nd d in
      if (r =? 0) || (r =? 1) then hdeps_loop rec tl nd' (evs ++ e) else (nd', false, evs ++ e)
  end.

(* node.applicationStart(name, options, starting) *)
Fixpoint hstart_rec (fuel : nat) (lax : bool) (specs : list aspec) (nd : hnode) (vis : list nat) (a : nat)
  : hnode * nat * list ev :=
  match fuel with
  | 0 => (nd, 9, [])
  | S f =>
      if h_st (hget nd a) =? 0 then (nd, 4, []) else
      if mem a vis then (nd, 5, []) else
      let '(nd1, ok, evs) :=
        hdeps_loop (fun n d => hstart_rec f lax specs n (a :: vis) d) (sp_deps (spec_of specs a)) nd [] in
      if ok then
        let '(x', r, e) := happ_start lax a (spec_of specs a) (hget nd1 a) (sp_mode (spec_of specs a)) in
        (hset nd1 a x', r, evs ++ e)
      else (nd1, 5, evs)
  end.

(* the members that survive being told to terminate for now: those inside a handler *)
Definition survivors (x : happ) : list nat := filter (fun m => mem m (h_held x)) (h_live x).

(* application.stop(false, short timeout): CAS Running->Stopping, a.mode = Temporary, a.reason = shutdown,
   everybody told; select { <-a.stopped: nil; <-time.After(timeout): ErrApplicationStopping };
   not running: loaded -> nil, stopping -> ErrApplicationStopping *)
Definition happ_stopt (a : nat) (x : happ) : happ * nat * list ev :=
  match h_st x with
  | 0 => (x, 4, [])
  | 1 => (x, 0, [])
  | 2 => match survivors x with
         | [] => (mk_happ 1 1 [] [] 1, 0, [ETerm a 1 0])
         | l => (mk_happ 3 1 l (h_held x) 1, 3, [])
         end
  | _ => (x, 3, [])
  end.

(* application.terminate(pid, reason) of a member that is not inside a handler; when the mode rule
   fires: CAS Running->Stopping, a.reason = reason, everybody told *)
Definition happ_die (a : nat) (x : happ) (m r : nat) : happ * nat * list ev :=
  if (h_st x =? 2) && mem m (h_live x) && negb (mem m (h_held x)) then
    if rule_fires (h_mode x) r then
      match survivors x with
      | [] => (mk_happ 1 (h_mode x) [] [] r, 0, [ETerm a r 0])
      | l => (mk_happ 3 (h_mode x) l (h_held x) r, 0, [])
      end
    else
      match remove_nat m (h_live x) with
      | [] => (mk_happ 1 (h_mode x) [] [] 0, 0, [ETerm a 0 0])
      | l => (mk_happ 2 (h_mode x) l (h_held x) (h_reason x), 0, [])
      end
  else (x, 8, []).

Definition happ_hold (x : happ) (m : nat) : happ * nat :=
  if (h_st x =? 2) && mem m (h_live x) && negb (mem m (h_held x))
  then (mk_happ 2 (h_mode x) (h_live x) (m :: h_held x) (h_reason x), 0)
  else (x, 8).

(* the handler returns; in a stopping application the member then finds the exit request and
   terminates (reason shutdown): terminate -> group empty -> finalise: Terminate(a.reason), loaded *)
Definition happ_release (a : nat) (x : happ) (m : nat) : happ * nat * list ev :=
  if mem m (h_held x) && mem m (h_live x) then
    match h_st x with
    | 2 => (mk_happ 2 (h_mode x) (h_live x) (remove_nat m (h_held x)) (h_reason x), 0, [])
    | 3 => match remove_nat m (h_live x) with
           | [] => (mk_happ 1 (h_mode x) [] [] (h_reason x), 0, [ETerm a (h_reason x) 0])
           | l => (mk_happ 3 (h_mode x) l (remove_nat m (h_held x)) (h_reason x), 0, [])
           end
    | _ => (x, 8, [])
    end
  else (x, 8, []).

Definition hobs_of (nd : hnode) (ret : nat) (evs : list ev) : obs :=
  mk_obs ret (map (fun x => (h_st x, h_live x)) nd) evs.

Definition hstep (lax : bool) (specs : list aspec) (nd : hnode) (o : hop) : hnode * obs :=
  match o with
  | HLoad a =>
      if h_st (hget nd a) =? 0 then
        let nd' := hset nd a (mk_happ 1 (sp_mode (spec_of specs a)) [] [] 0) in (nd', hobs_of nd' 0 [ELoad a])
      else (nd, hobs_of nd 6 [ELoad a])
  | HUnload a =>
      match h_st (hget nd a) with
      | 0 => (nd, hobs_of nd 4 [])
      | 1 => let nd' := hset nd a (mk_happ 0 (h_mode (hget nd a)) [] [] 0) in (nd', hobs_of nd' 0 [])
      | _ => (nd, hobs_of nd 1 [])
      end
  | HStart a =>
      let '(nd', r, e) := hstart_rec (fuel_for specs) lax specs nd [] a in (nd', hobs_of nd' r e)
  | HHold a m =>
      let '(x', r) := happ_hold (hget nd a) m in
      let nd' := hset nd a x' in (nd', hobs_of nd' r [])
  | HRelease a m =>
      let '(x', r, e) := happ_release a (hget nd a) m in
      let nd' := hset nd a x' in (nd', hobs_of nd' r e)
  | HStopT a =>
      let '(x', r, e) := happ_stopt a (hget nd a) in
      let nd' := hset nd a x' in (nd', hobs_of nd' r e)
  | HDie a m r =>
      let '(x', rt, e) := happ_die a (hget nd a) m r in
      let nd' := hset nd a x' in (nd', hobs_of nd' rt e)
  end.

(* a history: node before, operation, observation, node after - for every operation *)
Definition hstp := (hnode * hop * obs * hnode)%type.

Fixpoint htrace (lax : bool) (specs : list aspec) (nd : hnode) (ops : list hop) : list hstp :=
  match ops with
  | [] => []
  | o :: tl => (nd, o, snd (hstep lax specs nd o), fst (hstep lax specs nd o))
               :: htrace lax specs (fst (hstep lax specs nd o)) tl
  end.

Fixpoint hrun (lax : bool) (specs : list aspec) (nd : hnode) (ops : list hop) : list (hop * obs) :=
  match ops with
  | [] => []
  | o :: tl => let '(nd', ob) := hstep lax specs nd o in (o, ob) :: hrun lax specs nd' tl
  end.

Definition hinit (specs : list aspec) : hnode := map (fun _ => no_happ) specs.
