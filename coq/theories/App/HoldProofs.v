(* App engine: theorems about the sequential model with an observable 'stopping' state (App/Hold.v).
   The dependency walk of ApplicationStart distinguishes a dependency that is running (fine), loaded
   (started first), stopping (the start of the dependent is refused with ErrApplicationDepends and
   nothing of the dependent is started) and unknown.  For every specification list, every node and
   every history of operations. *)
From Ergo Require Import Common.Base App.Seq App.Hold.

Definition hst (nd : hnode) (a : nat) : nat := h_st (hget nd a).
Definition hev_app (e : ev) : nat :=
  match e with EInit a _ | EStart a _ | ETerm a _ _ | ELoad a => a end.

(* ======================================================================================= *)
(* hget / hset                                                                               *)
(* ======================================================================================= *)
Lemma hset_length nd : forall a x, length (hset nd a x) = length nd.
Proof.
  induction nd as [|y nd IH]; intros [|a] x; cbn [hset length]; try reflexivity.
  rewrite IH. reflexivity.
Qed.

Lemma hget_oob nd a : length nd <= a -> hget nd a = no_happ.
Proof. intros H. unfold hget. apply nth_overflow. exact H. Qed.

Lemma hset_oob nd : forall a x, length nd <= a -> hset nd a x = nd.
Proof.
  induction nd as [|y nd IH]; intros [|a] x H; cbn [hset length] in *; try reflexivity; [lia|].
  rewrite IH by lia. reflexivity.
Qed.

Lemma hget_hset_eq nd : forall a x, a < length nd -> hget (hset nd a x) a = x.
Proof.
  unfold hget. induction nd as [|y nd IH]; intros [|a] x H; cbn [hset length nth] in *; try lia; [reflexivity|].
  apply IH. lia.
Qed.

Lemma hget_hset_neq nd : forall a b x, a <> b -> hget (hset nd a x) b = hget nd b.
Proof.
  unfold hget. induction nd as [|y nd IH]; intros [|a] [|b] x H; cbn [hset nth]; try reflexivity; try congruence.
  apply IH. congruence.
Qed.

Lemma hget_hset nd a b x :
  hget (hset nd a x) b = if (a =? b) && (a <? length nd) then x else hget nd b.
Proof.
  destruct (Nat.eqb_spec a b) as [<-|Hn]; cbn [andb].
  - destruct (Nat.ltb_spec a (length nd)) as [Hl|Hl].
    + apply hget_hset_eq. exact Hl.
    + rewrite hset_oob by exact Hl. reflexivity.
  - apply hget_hset_neq. exact Hn.
Qed.

Lemma hloaded_lt nd a : h_st (hget nd a) <> 0 -> a < length nd.
Proof.
  intros H. destruct (Nat.lt_ge_cases a (length nd)) as [Hl|Hl]; [exact Hl|].
  rewrite (hget_oob nd a Hl) in H. cbn [no_happ h_st] in H. congruence.
Qed.

Lemma hmem_In a l : mem a l = true <-> In a l.
Proof.
  unfold mem. rewrite existsb_exists. split.
  - intros (x & Hx & E). apply Nat.eqb_eq in E. subst. exact Hx.
  - intros H. exists a. split; [exact H | apply Nat.eqb_refl].
Qed.

Lemma hmem_false a l : mem a l = false -> ~ In a l.
Proof. intros H Hi. apply hmem_In in Hi. congruence. Qed.

Lemma hget_init specs : forall a, hget (hinit specs) a = no_happ.
Proof.
  unfold hget, hinit. induction specs as [|s l IH]; intros [|a]; cbn [map nth]; try reflexivity.
  apply IH.
Qed.

(* ======================================================================================= *)
(* the dependency walk                                                                       *)
(* ======================================================================================= *)
Lemma hstart_rec_S f lax specs nd vis a :
  hstart_rec (S f) lax specs nd vis a =
  if h_st (hget nd a) =? 0 then (nd, 4, []) else
  if mem a vis then (nd, 5, []) else
  let '(nd1, ok, evs) :=
    hdeps_loop (fun n d => hstart_rec f lax specs n (a :: vis) d) (sp_deps (spec_of specs a)) nd [] in
  if ok then
    let '(x', r, e) := happ_start lax a (spec_of specs a) (hget nd1 a) (sp_mode (spec_of specs a)) in
    (hset nd1 a x', r, evs ++ e)
  else (nd1, 5, evs).
Proof. reflexivity. Qed.

(* the record a successful application.start leaves behind *)
Definition started (specs : list aspec) (b : nat) : happ :=
  mk_happ 2 (sp_mode (spec_of specs b)) (seq 0 (sp_n (spec_of specs b))) [] 0.

(* what the walk does to the node: every application record is untouched, or the application was
   loaded, is not on the visiting chain and has been started (all members, mode of its spec); every
   event belongs to an application started by this walk.  In particular a stopping application stays
   exactly as it is. *)
Definition walk_ok (specs : list aspec) (vis : list nat) (nd nd' : hnode) (evs : list ev) : Prop :=
  length nd' = length nd /\
  (forall b, hget nd' b = hget nd b \/
             (hst nd b = 1 /\ ~ In b vis /\ hget nd' b = started specs b)) /\
  (forall e, In e evs -> ~ In (hev_app e) vis /\ hst nd (hev_app e) = 1 /\ hst nd' (hev_app e) = 2).

Lemma walk_ok_refl specs vis nd : walk_ok specs vis nd nd [].
Proof. split; [reflexivity|]. split; [intros b; left; reflexivity | intros e []]. Qed.

Lemma walk_ok_weaken specs vis vis' nd nd' evs :
  (forall v, In v vis' -> In v vis) -> walk_ok specs vis nd nd' evs -> walk_ok specs vis' nd nd' evs.
Proof.
  intros Hs (H1 & H2 & H3). split; [exact H1|]. split.
  - intros b. destruct (H2 b) as [E|(A & B & C)]; [left; exact E | right]. split; [exact A|]. split; [|exact C].
    intros Hv. apply B. apply Hs. exact Hv.
  - intros e He. destruct (H3 e He) as (A & B & C). split; [|split; assumption].
    intros Hv. apply A. apply Hs. exact Hv.
Qed.

Lemma walk_ok_trans specs vis nd nd1 nd2 e1 e2 :
  walk_ok specs vis nd nd1 e1 -> walk_ok specs vis nd1 nd2 e2 -> walk_ok specs vis nd nd2 (e1 ++ e2).
Proof.
  intros (L1 & M1 & V1) (L2 & M2 & V2). split; [lia|]. split.
  - intros b. destruct (M1 b) as [E1|(A1 & B1 & C1)], (M2 b) as [E2|(A2 & B2 & C2)].
    + left. rewrite E2. exact E1.
    + right. unfold hst in *. rewrite <- E1. repeat split; assumption.
    + right. rewrite E2. repeat split; assumption.
    + exfalso. unfold hst in A2. rewrite C1 in A2. cbn [started h_st] in A2. discriminate.
  - intros e He. apply in_app_or in He as [He|He].
    + destruct (V1 e He) as (A & B & C). split; [exact A|]. split; [exact B|].
      destruct (M2 (hev_app e)) as [E2|(A2 & _)]; [unfold hst in *; rewrite E2; exact C | lia].
    + destruct (V2 e He) as (A & B & C). split; [exact A|]. split; [|exact C].
      destruct (M1 (hev_app e)) as [E1|(_ & _ & C1)]; [unfold hst in *; rewrite <- E1; exact B|].
      exfalso. unfold hst in B. rewrite C1 in B. cbn [started h_st] in B. discriminate.
Qed.

(* application.start on one record *)
Lemma happ_start_cases lax a sp x mode x' r e :
  happ_start lax a sp x mode = (x', r, e) ->
  (x' = x /\ e = [] /\ r <> 0 /\ h_st x <> 1) \/
  (h_st x = 1 /\ r = 0 /\ x' = mk_happ 2 mode (seq 0 (sp_n sp)) [] 0 /\
   e = map (EInit a) (seq 0 (sp_n sp)) ++ [EStart a mode]).
Proof.
  unfold happ_start. destruct (h_st x) as [|[|[|s]]] eqn:E; intros H; inversion H; subst; clear H.
  - left. repeat split; lia.
  - right. repeat split.
  - left. repeat split; lia.
  - left. repeat split; try lia. destruct lax; lia.
Qed.

Lemma start_events_app a n mode e :
  In e (map (EInit a) (seq 0 n) ++ [EStart a mode]) -> hev_app e = a.
Proof.
  intros H. apply in_app_or in H as [H|[<-|[]]]; [|reflexivity].
  apply in_map_iff in H as (m & <- & _). reflexivity.
Qed.

Lemma hdeps_loop_inv (I : hnode -> list ev -> Prop) rec : forall ds,
  (forall nd evs d nd' r e, In d ds -> I nd evs -> rec nd d = (nd', r, e) -> I nd' (evs ++ e)) ->
  forall nd evs nd' ok evs', I nd evs -> hdeps_loop rec ds nd evs = (nd', ok, evs') -> I nd' evs'.
Proof.
  induction ds as [|d tl IH]; intros Hrec nd evs nd' ok evs' HI H; cbn [hdeps_loop] in H.
  - inversion H; subst. exact HI.
  - destruct (rec nd d) as [[nd1 r] e] eqn:ER.
    assert (HI1 : I nd1 (evs ++ e)) by (apply (Hrec nd evs d nd1 r e); [left; reflexivity | exact HI | exact ER]).
    destruct ((r =? 0) || (r =? 1)).
    + apply (IH (fun nd evs d' nd' r e Hd => Hrec nd evs d' nd' r e (or_intror Hd)) nd1 (evs ++ e) nd' ok evs' HI1 H).
    + inversion H; subst. exact HI1.
Qed.

(* W: every call of the walk, whatever it returns, whatever the variant *)
Theorem hstart_rec_walk specs lax : forall fuel nd vis a nd' r e,
  hstart_rec fuel lax specs nd vis a = (nd', r, e) -> walk_ok specs vis nd nd' e.
Proof.
  induction fuel as [|f IH]; intros nd vis a nd' r e H.
  - cbn [hstart_rec] in H. inversion H; subst. apply walk_ok_refl.
  - rewrite hstart_rec_S in H.
    destruct (h_st (hget nd a) =? 0) eqn:E0; [inversion H; subst; apply walk_ok_refl|].
    destruct (mem a vis) eqn:Em; [inversion H; subst; apply walk_ok_refl|].
    destruct (hdeps_loop _ _ nd []) as [[nd1 ok] evs] eqn:ED.
    assert (H1 : walk_ok specs (a :: vis) nd nd1 evs).
    { refine (hdeps_loop_inv (fun n l => walk_ok specs (a :: vis) nd n l) _ _ _ nd [] nd1 ok evs _ ED);
        [|apply walk_ok_refl].
      intros n l d n' r' e' _ Hn Hr. apply (walk_ok_trans _ _ _ n); [exact Hn|].
      apply (IH n (a :: vis) d n' r' e'). exact Hr. }
    assert (Ha : hget nd1 a = hget nd a).
    { destruct H1 as (_ & M & _). destruct (M a) as [E|(_ & B & _)]; [exact E|]. exfalso. apply B. left. reflexivity. }
    apply (walk_ok_weaken specs (a :: vis) vis) in H1; [|intros v Hv; right; exact Hv].
    destruct ok; [|inversion H; subst; exact H1].
    destruct (happ_start lax a (spec_of specs a) (hget nd1 a) (sp_mode (spec_of specs a))) as [[x' r'] e'] eqn:ES.
    inversion H; subst; clear H.
    apply (walk_ok_trans _ _ _ nd1); [exact H1|].
    apply Nat.eqb_neq in E0.
    assert (Hl : a < length nd1) by (destruct H1 as (L & _); rewrite L; apply hloaded_lt; exact E0).
    destruct (happ_start_cases _ _ _ _ _ _ _ _ ES) as [(-> & -> & _)|(S1 & _ & -> & ->)].
    + split; [apply hset_length|]. split; [|intros e []].
      intros b. left. rewrite hget_hset. destruct (Nat.eqb_spec a b) as [<-|]; cbn [andb]; [|reflexivity].
      destruct (a <? length nd1); reflexivity.
    + split; [apply hset_length|]. split.
      * intros b. rewrite hget_hset. destruct (Nat.eqb_spec a b) as [<-|]; cbn [andb]; [|left; reflexivity].
        apply Nat.ltb_lt in Hl. rewrite Hl. right. split; [exact S1|]. split; [apply hmem_false; exact Em | reflexivity].
      * intros e He. rewrite (start_events_app _ _ _ _ He). split; [apply hmem_false; exact Em|].
        split; [exact S1|]. unfold hst. rewrite hget_hset_eq by exact Hl. reflexivity.
Qed.

Lemma walk_keeps specs vis nd nd' e b :
  walk_ok specs vis nd nd' e -> hst nd b <> 1 -> hget nd' b = hget nd b.
Proof. intros (_ & M & _) H. destruct (M b) as [E|(A & _)]; [exact E | congruence]. Qed.

Lemma walk_running specs vis nd nd' e b : walk_ok specs vis nd nd' e -> hst nd b = 2 -> hst nd' b = 2.
Proof. intros W H. unfold hst. rewrite (walk_keeps _ _ _ _ _ b W) by lia. exact H. Qed.

(* a stopping application is not touched by the walk *)
Lemma walk_stopping specs vis nd nd' e b : walk_ok specs vis nd nd' e -> hst nd b = 3 -> hget nd' b = hget nd b.
Proof. intros W H. apply (walk_keeps _ _ _ _ _ b W). lia. Qed.

Lemma walk_chain specs vis nd nd' e b : walk_ok specs vis nd nd' e -> In b vis -> hget nd' b = hget nd b.
Proof. intros (_ & M & _) H. destruct (M b) as [E|(_ & B & _)]; [exact E | tauto]. Qed.

(* ======================================================================================= *)
(* R: nil or ErrApplicationRunning from the walk means RUNNING at that moment (the code, lax = false) *)
(* ======================================================================================= *)
Theorem hstart_ret01_running specs fuel nd vis a nd' r e :
  hstart_rec fuel false specs nd vis a = (nd', r, e) -> r = 0 \/ r = 1 -> hst nd' a = 2.
Proof.
  intros H Hr. destruct fuel as [|f]; [cbn [hstart_rec] in H; inversion H; subst; lia|].
  rewrite hstart_rec_S in H.
  destruct (h_st (hget nd a) =? 0) eqn:E0; [inversion H; subst; lia|].
  destruct (mem a vis) eqn:Em; [inversion H; subst; lia|].
  destruct (hdeps_loop _ _ nd []) as [[nd1 ok] evs] eqn:ED.
  assert (H1 : walk_ok specs (a :: vis) nd nd1 evs).
  { refine (hdeps_loop_inv (fun n l => walk_ok specs (a :: vis) nd n l) _ _ _ nd [] nd1 ok evs _ ED);
      [|apply walk_ok_refl].
    intros n l d n' r' e' _ Hn Hr'. apply (walk_ok_trans _ _ _ n); [exact Hn|].
    apply (hstart_rec_walk specs false _ _ _ _ _ _ _ Hr'). }
  destruct ok; [|inversion H; subst; lia].
  destruct (happ_start false a (spec_of specs a) (hget nd1 a) (sp_mode (spec_of specs a))) as [[x' r'] e'] eqn:ES.
  inversion H; subst; clear H.
  apply Nat.eqb_neq in E0.
  assert (Hl : a < length nd1) by (destruct H1 as (L & _); rewrite L; apply hloaded_lt; exact E0).
  unfold hst. rewrite hget_hset_eq by exact Hl.
  unfold happ_start in ES. destruct (h_st (hget nd1 a)) as [|[|[|s]]] eqn:E; inversion ES; subst; cbn [h_st]; try lia.
Qed.

(* when the loop over the dependencies reports success, all of them are running *)
Lemma hdeps_loop_running specs f vis' : forall ds nd evs nd1 evs1,
  hdeps_loop (fun n d => hstart_rec f false specs n vis' d) ds nd evs = (nd1, true, evs1) ->
  (forall b, hst nd b = 2 -> hst nd1 b = 2) /\ forall d, In d ds -> hst nd1 d = 2.
Proof.
  induction ds as [|d tl IH]; intros nd evs nd1 evs1 H; cbn [hdeps_loop] in H.
  - inversion H; subst. split; [auto | intros d []].
  - destruct (hstart_rec f false specs nd vis' d) as [[nd' r] e] eqn:ER.
    destruct ((r =? 0) || (r =? 1)) eqn:C; [|inversion H].
    pose proof (hstart_rec_walk specs false _ _ _ _ _ _ _ ER) as W.
    destruct (IH nd' (evs ++ e) nd1 evs1 H) as (I2 & I3). split.
    + intros b Hb. apply I2. apply (walk_running _ _ _ _ _ b W Hb).
    + intros d' [<-|Hd']; [|apply I3; exact Hd'].
      apply I2. apply (hstart_ret01_running specs f nd vis' d nd' r e ER). lia.
Qed.

(* a dependency that is stopping when the loop begins makes the loop fail *)
Lemma hdeps_loop_stopping specs f vis' d : forall ds nd evs nd1 ok evs1,
  In d ds -> hst nd d = 3 ->
  hdeps_loop (fun n d => hstart_rec f false specs n vis' d) ds nd evs = (nd1, ok, evs1) -> ok = false.
Proof.
  induction ds as [|d0 tl IH]; intros nd evs nd1 ok evs1 Hd Hs H; [destruct Hd|].
  cbn [hdeps_loop] in H.
  destruct (hstart_rec f false specs nd vis' d0) as [[nd' r] e] eqn:ER.
  pose proof (hstart_rec_walk specs false _ _ _ _ _ _ _ ER) as W.
  assert (Hs' : hst nd' d = 3) by (unfold hst; rewrite (walk_stopping _ _ _ _ _ d W Hs); exact Hs).
  destruct ((r =? 0) || (r =? 1)) eqn:C; [|inversion H; reflexivity].
  destruct Hd as [->|Hd].
  - exfalso. assert (hst nd' d = 2) by (apply (hstart_ret01_running specs f nd vis' d nd' r e ER); lia). lia.
  - apply (IH nd' (evs ++ e) nd1 ok evs1 Hd Hs' H).
Qed.

Definition start_block' (a n mode : nat) : list ev := map (EInit a) (seq 0 n) ++ [EStart a mode].

(* ---- D1: a successful ApplicationStart ------------------------------------------------- *)
Theorem hstart_success specs fuel nd vis a nd' e :
  hstart_rec fuel false specs nd vis a = (nd', 0, e) ->
  (* every dependency is RUNNING - not stopping, not loaded - at the return of the call *)
  (forall d, In d (sp_deps (spec_of specs a)) -> hst nd' d = 2) /\
  (* the application itself was loaded and is running now, all members, mode of its specification *)
  hst nd a = 1 /\ hget nd' a = started specs a /\
  (* everything of the dependencies comes before the first member of the application *)
  exists pre, e = pre ++ start_block' a (sp_n (spec_of specs a)) (sp_mode (spec_of specs a)) /\
              forall x, In x pre -> hev_app x <> a.
Proof.
  intros H. destruct fuel as [|f]; [cbn [hstart_rec] in H; inversion H|].
  rewrite hstart_rec_S in H.
  destruct (h_st (hget nd a) =? 0) eqn:E0; [inversion H|].
  destruct (mem a vis) eqn:Em; [inversion H|].
  destruct (hdeps_loop _ _ nd []) as [[nd1 ok] evs] eqn:ED.
  assert (H1 : walk_ok specs (a :: vis) nd nd1 evs).
  { refine (hdeps_loop_inv (fun n l => walk_ok specs (a :: vis) nd n l) _ _ _ nd [] nd1 ok evs _ ED);
      [|apply walk_ok_refl].
    intros n l d n' r' e' _ Hn Hr'. apply (walk_ok_trans _ _ _ n); [exact Hn|].
    apply (hstart_rec_walk specs false _ _ _ _ _ _ _ Hr'). }
  destruct ok; [|inversion H].
  destruct (hdeps_loop_running _ _ _ _ _ _ _ _ ED) as (_ & Hdeps).
  destruct (happ_start false a (spec_of specs a) (hget nd1 a) (sp_mode (spec_of specs a))) as [[x' r'] e'] eqn:ES.
  inversion H; subst; clear H.
  apply Nat.eqb_neq in E0.
  assert (Hl : a < length nd1) by (destruct H1 as (L & _); rewrite L; apply hloaded_lt; exact E0).
  assert (Ha : hget nd1 a = hget nd a) by (apply (walk_chain _ _ _ _ _ a H1); left; reflexivity).
  destruct (happ_start_cases _ _ _ _ _ _ _ _ ES) as [(_ & _ & Hr & _)|(S1 & _ & -> & ->)]; [congruence|].
  split; [|split; [|split]].
  - intros d Hd. unfold hst. rewrite hget_hset.
    destruct ((a =? d) && (a <? length nd1)); [reflexivity | apply Hdeps; exact Hd].
  - unfold hst. rewrite <- Ha. exact S1.
  - rewrite hget_hset_eq by exact Hl. reflexivity.
  - exists evs. split; [reflexivity|]. intros x Hx. destruct H1 as (_ & _ & V).
    destruct (V x Hx) as (A & _). intros Heq. apply A. left. symmetry. exact Heq.
Qed.

(* ---- D2: a dependency that is STOPPING -------------------------------------------------- *)
(* the start of the dependent is refused with ErrApplicationDepends; its record is untouched (it stays
   as it was - loaded, no member) and no Init / Start callback of it runs *)
Theorem hstart_stopping_dep_refused specs f nd vis a d nd' r e :
  h_st (hget nd a) <> 0 -> ~ In a vis ->
  In d (sp_deps (spec_of specs a)) -> hst nd d = 3 ->
  hstart_rec (S f) false specs nd vis a = (nd', r, e) ->
  r = 5 /\ hget nd' a = hget nd a /\ (forall x, In x e -> hev_app x <> a) /\ hget nd' d = hget nd d.
Proof.
  intros Ha Hv Hd Hs H.
  pose proof (hstart_rec_walk specs false _ _ _ _ _ _ _ H) as W.
  rewrite hstart_rec_S in H.
  destruct (Nat.eqb_spec (h_st (hget nd a)) 0) as [E0|E0]; [congruence|].
  destruct (mem a vis) eqn:Em; [apply hmem_In in Em; tauto|].
  destruct (hdeps_loop _ _ nd []) as [[nd1 ok] evs] eqn:ED.
  assert (H1 : walk_ok specs (a :: vis) nd nd1 evs).
  { refine (hdeps_loop_inv (fun n l => walk_ok specs (a :: vis) nd n l) _ _ _ nd [] nd1 ok evs _ ED);
      [|apply walk_ok_refl].
    intros n l d' n' r' e' _ Hn Hr'. apply (walk_ok_trans _ _ _ n); [exact Hn|].
    apply (hstart_rec_walk specs false _ _ _ _ _ _ _ Hr'). }
  rewrite (hdeps_loop_stopping _ _ _ d _ _ _ _ _ _ Hd Hs ED) in H. inversion H; subst; clear H.
  split; [reflexivity|]. split; [apply (walk_chain _ _ _ _ _ a H1); left; reflexivity|].
  split; [|apply (walk_stopping _ _ _ _ _ d W Hs)].
  intros x Hx. destruct H1 as (_ & _ & V). destruct (V x Hx) as (A & _).
  intros Heq. apply A. left. symmetry. exact Heq.
Qed.

(* ======================================================================================= *)
(* well-formed nodes: what 'stopping' means                                                  *)
(* ======================================================================================= *)
(* loaded / unloaded: no member; stopping: some member is alive and every live member is inside a
   handler (the others have terminated) *)
Definition hwf_app (x : happ) : Prop :=
  h_st x <= 3 /\ (h_st x <= 1 -> h_live x = []) /\
  (h_st x = 3 -> h_live x <> [] /\ forall m, In m (h_live x) -> In m (h_held x)).
Definition hwf (nd : hnode) : Prop := forall a, hwf_app (hget nd a).

Lemma hwf_no_happ : hwf_app no_happ.
Proof. split; cbn [no_happ h_st h_live]; [lia|]. split; [reflexivity | discriminate]. Qed.

Lemma hwf_init specs : hwf (hinit specs).
Proof. intros a. rewrite hget_init. exact hwf_no_happ. Qed.

Lemma hwf_set nd a x : hwf nd -> hwf_app x -> hwf (hset nd a x).
Proof.
  intros Hw Hx b. rewrite hget_hset. destruct ((a =? b) && (a <? length nd)); [exact Hx | apply Hw].
Qed.

Lemma hwf_loaded mode r : hwf_app (mk_happ 1 mode [] [] r).
Proof. split; cbn [h_st h_live]; [lia|]. split; [reflexivity | discriminate]. Qed.

Lemma hwf_running mode l h r : hwf_app (mk_happ 2 mode l h r).
Proof. split; cbn [h_st h_live]; [lia|]. split; [lia | discriminate]. Qed.

Lemma hwf_survivors x mode r y l :
  survivors x = y :: l -> hwf_app (mk_happ 3 mode (y :: l) (h_held x) r).
Proof.
  intros E. split; cbn [h_st h_live h_held]; [lia|]. split; [lia|]. intros _. split; [discriminate|].
  intros m Hm. rewrite <- E in Hm. unfold survivors in Hm. apply filter_In in Hm as [_ Hm].
  apply hmem_In. exact Hm.
Qed.

Lemma hwf_walk specs vis nd nd' e : walk_ok specs vis nd nd' e -> hwf nd -> hwf nd'.
Proof.
  intros (_ & M & _) Hw b. destruct (M b) as [E|(_ & _ & E)]; rewrite E; [apply Hw | apply hwf_running].
Qed.

Theorem hstep_wf lax specs nd o : hwf nd -> hwf (fst (hstep lax specs nd o)).
Proof.
  intros Hw. destruct o as [a|a|a|a m|a m|a|a m r]; cbn [hstep].
  - destruct (h_st (hget nd a) =? 0); cbn [fst]; [apply hwf_set; [exact Hw | apply hwf_loaded] | exact Hw].
  - destruct (h_st (hget nd a)) as [|[|s]]; cbn [fst]; try exact Hw.
    apply hwf_set; [exact Hw|]. split; cbn [h_st h_live]; [lia|]. split; [reflexivity | discriminate].
  - destruct (hstart_rec (fuel_for specs) lax specs nd [] a) as [[nd' r] e] eqn:E. cbn [fst].
    apply (hwf_walk specs [] nd nd' e); [apply (hstart_rec_walk specs lax _ _ _ _ _ _ _ E) | exact Hw].
  - unfold happ_hold.
    destruct ((h_st (hget nd a) =? 2) && mem m (h_live (hget nd a)) && negb (mem m (h_held (hget nd a))));
      cbn [fst]; apply hwf_set; try exact Hw; [apply hwf_running | apply Hw].
  - unfold happ_release.
    destruct (mem m (h_held (hget nd a)) && mem m (h_live (hget nd a))); [|cbn [fst]; apply hwf_set; [exact Hw | apply Hw]].
    destruct (h_st (hget nd a)) as [|[|[|[|s]]]] eqn:E; cbn [fst]; try (apply hwf_set; [exact Hw | apply Hw]).
    + apply hwf_set; [exact Hw | apply hwf_running].
    + destruct (remove_nat m (h_live (hget nd a))) as [|y l] eqn:ER; cbn [fst]; apply hwf_set; try exact Hw;
        [apply hwf_loaded|].
      split; cbn [h_st h_live h_held]; [lia|]. split; [lia|]. intros _. split; [discriminate|].
      intros k Hk. rewrite <- ER in Hk. unfold remove_nat in *. apply filter_In in Hk as [Hk1 Hk2].
      apply filter_In. split; [|exact Hk2].
      destruct (Hw a) as (_ & _ & W3). destruct (W3 E) as [_ W4]. apply W4. exact Hk1.
  - unfold happ_stopt.
    destruct (h_st (hget nd a)) as [|[|[|s]]] eqn:E; cbn [fst]; try (apply hwf_set; [exact Hw | apply Hw]).
    destruct (survivors (hget nd a)) as [|y l] eqn:ES; cbn [fst]; apply hwf_set; try exact Hw;
      [apply hwf_loaded | apply (hwf_survivors _ _ _ _ _ ES)].
  - unfold happ_die.
    destruct ((h_st (hget nd a) =? 2) && mem m (h_live (hget nd a)) && negb (mem m (h_held (hget nd a))));
      [|cbn [fst]; apply hwf_set; [exact Hw | apply Hw]].
    destruct (rule_fires (h_mode (hget nd a)) r).
    + destruct (survivors (hget nd a)) as [|y l] eqn:ES; cbn [fst]; apply hwf_set; try exact Hw;
        [apply hwf_loaded | apply (hwf_survivors _ _ _ _ _ ES)].
    + destruct (remove_nat m (h_live (hget nd a))) as [|y l]; cbn [fst]; apply hwf_set; try exact Hw;
        [apply hwf_loaded | apply hwf_running].
Qed.

(* ======================================================================================= *)
(* histories                                                                                 *)
(* ======================================================================================= *)
Definition ht_pre (t : hstp) : hnode := fst (fst (fst t)).
Definition ht_op (t : hstp) : hop := snd (fst (fst t)).
Definition ht_obs (t : hstp) : obs := snd (fst t).
Definition ht_post (t : hstp) : hnode := snd t.

Theorem htrace_run lax specs : forall ops nd,
  map (fun t => (ht_op t, ht_obs t)) (htrace lax specs nd ops) = hrun lax specs nd ops.
Proof.
  induction ops as [|o tl IH]; intros nd; [reflexivity|].
  cbn [htrace hrun map]. rewrite IH. destruct (hstep lax specs nd o) as [nd' ob]. reflexivity.
Qed.

Lemma htrace_forall lax specs (I : hnode -> Prop) (P : hstp -> Prop) :
  (forall nd o, I nd -> I (fst (hstep lax specs nd o))) ->
  (forall nd o, I nd -> P (nd, o, snd (hstep lax specs nd o), fst (hstep lax specs nd o))) ->
  forall ops nd, I nd -> Forall P (htrace lax specs nd ops).
Proof.
  intros HI HP. induction ops as [|o tl IH]; intros nd Hnd; cbn [htrace]; constructor.
  - apply HP. exact Hnd.
  - apply IH. apply HI. exact Hnd.
Qed.

(* every node of a history is well formed, and the observation carries exactly the node after the step *)
Definition hstep_sound (t : hstp) : Prop :=
  hwf (ht_post t) /\ o_apps (ht_obs t) = map (fun x => (h_st x, h_live x)) (ht_post t).

Lemma hstep_apps lax specs nd o :
  o_apps (snd (hstep lax specs nd o)) = map (fun x => (h_st x, h_live x)) (fst (hstep lax specs nd o)).
Proof.
  destruct o as [a|a|a|a m|a m|a|a m r]; cbn [hstep].
  - destruct (h_st (hget nd a) =? 0); reflexivity.
  - destruct (h_st (hget nd a)) as [|[|s]]; reflexivity.
  - destruct (hstart_rec (fuel_for specs) lax specs nd [] a) as [[nd' r] e]. reflexivity.
  - destruct (happ_hold (hget nd a) m) as [x' r]. reflexivity.
  - destruct (happ_release a (hget nd a) m) as [[x' r] e]. reflexivity.
  - destruct (happ_stopt a (hget nd a)) as [[x' r] e]. reflexivity.
  - destruct (happ_die a (hget nd a) m r) as [[x' rt] e]. reflexivity.
Qed.

Theorem hist_hold_wf lax specs ops nd : hwf nd -> Forall hstep_sound (htrace lax specs nd ops).
Proof.
  apply (htrace_forall lax specs hwf); [intros n o; apply hstep_wf|].
  intros n o Hw. split; cbn [ht_post ht_obs fst snd]; [apply hstep_wf; exact Hw | apply hstep_apps].
Qed.

(* what every ApplicationStart of a history satisfies *)
Definition hstart_ok (specs : list aspec) (t : hstp) : Prop :=
  match ht_op t with
  | HStart a =>
      (* success: every dependency is running AT THE RETURN of the call (in the node the call leaves
         behind and in the observation), the application itself went loaded -> running with all members *)
      (o_ret (ht_obs t) = 0 ->
         (forall d, In d (sp_deps (spec_of specs a)) -> hst (ht_post t) d = 2) /\
         hst (ht_pre t) a = 1 /\ hget (ht_post t) a = started specs a) /\
      (* a dependency that is stopping: refused with ErrApplicationDepends, the application stays
         loaded without any member, none of its callbacks runs, the dependency is left alone *)
      (forall d, hst (ht_pre t) a = 1 -> In d (sp_deps (spec_of specs a)) -> hst (ht_pre t) d = 3 ->
         o_ret (ht_obs t) = 5 /\
         hst (ht_post t) a = 1 /\ h_live (hget (ht_post t) a) = [] /\
         (forall x, In x (o_ev (ht_obs t)) -> hev_app x <> a) /\
         hget (ht_post t) d = hget (ht_pre t) d)
  | _ => True
  end.

(* ---- D: over all histories ------------------------------------------------------------- *)
Theorem hist_hold_start specs ops nd : hwf nd -> Forall (hstart_ok specs) (htrace false specs nd ops).
Proof.
  apply (htrace_forall false specs hwf); [intros n o; apply hstep_wf|].
  intros n o Hw. unfold hstart_ok. cbn [ht_op ht_pre ht_post ht_obs fst snd].
  destruct o as [a|a|a|a m|a m|a|a m r]; try exact I. cbn [hstep].
  destruct (hstart_rec (fuel_for specs) false specs n [] a) as [[nd' r] e] eqn:E. cbn [fst snd hobs_of o_ret o_ev].
  split.
  - intros ->. destruct (hstart_success specs _ _ _ _ _ _ E) as (D & S0 & S1 & _). repeat split; assumption.
  - intros d S0 Hd Hs. unfold fuel_for in E.
    destruct (hstart_stopping_dep_refused specs (length specs) n [] a d nd' r e) as (R & Ea & Ev & Ed); try assumption.
    + unfold hst in S0. lia.
    + intros [].
    + split; [exact R|]. unfold hst. rewrite Ea. fold (hst n a). split; [exact S0|].
      split; [|split; assumption]. destruct (Hw a) as (_ & W2 & _). apply W2. unfold hst in S0. lia.
Qed.

(* ======================================================================================= *)
(* the variant that takes 'stopping' for 'running' (state >= Running) is refuted              *)
(* ======================================================================================= *)
(* some ApplicationStart of the history reports success although a dependency is stopping at its return *)
Definition start_over_stopping_b (lax : bool) (specs : list aspec) (ops : list hop) : bool :=
  existsb (fun t => match ht_op t with
                    | HStart a => (o_ret (ht_obs t) =? 0) &&
                                  existsb (fun d => hst (ht_post t) d =? 3) (sp_deps (spec_of specs a))
                    | _ => false
                    end) (htrace lax specs (hinit specs) ops).

Definition wit_specs : list aspec := [mk_aspec 1 2 []; mk_aspec 1 1 [0]].
Definition wit_ops : list hop := [HLoad 0; HLoad 1; HStart 0; HHold 0 1; HStopT 0; HStart 1; HRelease 0 1; HStart 1].

Theorem hold_lax_refuted : exists specs ops, start_over_stopping_b true specs ops = true.
Proof. exists wit_specs, wit_ops. vm_compute. reflexivity. Qed.

(* the code itself never does that *)
Theorem hold_strict_never specs ops : start_over_stopping_b false specs ops = false.
Proof.
  unfold start_over_stopping_b. apply not_true_is_false. intros H. apply existsb_exists in H as (t & Ht & Hb).
  pose proof (hist_hold_start specs ops (hinit specs) (hwf_init specs)) as HF.
  rewrite Forall_forall in HF. specialize (HF t Ht). unfold hstart_ok in HF.
  destruct (ht_op t); try discriminate. destruct HF as [HF _].
  apply andb_true_iff in Hb as [Hr Hd]. apply Nat.eqb_eq in Hr.
  apply existsb_exists in Hd as (d & Hd & Hs). apply Nat.eqb_eq in Hs.
  destruct (HF Hr) as (D & _). specialize (D d Hd). lia.
Qed.

(* the hypotheses are satisfiable: the same history under the code's rule - the start of the dependent
   is refused (5) while the dependency is stopping with its held member alive, and succeeds after
   the release, the dependency being started again first *)
Example hold_example :
  let tr := htrace false wit_specs (hinit wit_specs) wit_ops in
  map (fun t => o_ret (ht_obs t)) tr = [0; 0; 0; 0; 3; 5; 0; 0] /\
  map (fun t => o_apps (ht_obs t)) tr =
    [[(1, []); (0, [])]; [(1, []); (1, [])]; [(2, [0; 1]); (1, [])]; [(2, [0; 1]); (1, [])];
     [(3, [1]); (1, [])]; [(3, [1]); (1, [])]; [(1, []); (1, [])]; [(2, [0; 1]); (2, [0])]] /\
  flat_map (fun t => o_ev (ht_obs t)) tr =
    [ELoad 0; ELoad 1; EInit 0 0; EInit 0 1; EStart 0 1; ETerm 0 1 0;
     EInit 0 0; EInit 0 1; EStart 0 1; EInit 1 0; EStart 1 1] /\
  start_over_stopping_b false wit_specs wit_ops = false.
Proof. vm_compute. repeat split. Qed.

Print Assumptions hstart_rec_walk.
Print Assumptions hstart_ret01_running.
Print Assumptions hstart_success.
Print Assumptions hstart_stopping_dep_refused.
Print Assumptions hstep_wf.
Print Assumptions htrace_run.
Print Assumptions hist_hold_wf.
Print Assumptions hist_hold_start.
Print Assumptions hold_lax_refuted.
Print Assumptions hold_strict_never.
Print Assumptions hold_example.
