(* Call engine - proofs about Call/Model.v, for ALL histories (lists of events of any length, any order). *)
From Ergo Require Import Common.Base Ids.Model Ids.Proofs Call.Model.
From Coq Require Import Sorting.Permutation.
Local Open Scope Z_scope.

Lemma NoDup_app_remove_l {A} (l l' : list A) : NoDup (l ++ l') -> NoDup l'.
Proof. induction l as [|a l IH]; cbn; intros H; [exact H | inversion H; auto]. Qed.

Lemma NoDup_app_remove_r {A} (l l' : list A) : NoDup (l ++ l') -> NoDup l.
Proof.
  induction l as [|a l IH]; cbn; intros H; [constructor|]. inversion H as [|x y Hni Hnd]; subst.
  constructor; [intros Hin; apply Hni; apply in_or_app; left; exact Hin | auto].
Qed.

Lemma run_snoc h e : run (h ++ [e]) = step (run h) e.
Proof. unfold run, run_from. rewrite fold_left_app. reflexivity. Qed.

Lemma run_from_app s h h' : run_from s (h ++ h') = run_from (run_from s h) h'.
Proof. unfold run_from. apply fold_left_app. Qed.

Lemma run_app h h' : run (h ++ h') = run_from (run h) h'.
Proof. apply run_from_app. Qed.

Lemma refeq x y : ref_eqb x y = true <-> x = y.
Proof. apply Ids.Proofs.ref_eqb_eq. Qed.

Lemma refneq x y : ref_eqb x y = false <-> x <> y.
Proof.
  split.
  - intros H E. apply refeq in E. unfold ref_eqb in *. congruence.
  - intros H. destruct (ref_eqb x y) eqn:E; [apply refeq in E; contradiction | reflexivity].
Qed.

(* ------------------------------------------------------------------------------------------------- *)
(* A. accounting of responses: everything in the channel or taken out of it was sent by exactly one
      EResp event of the history, and no response is in two places                                    *)

Definition all_resps (s : st) : list resp := chan s ++ consumed s.

Record InvA (h : list event) (s : st) : Prop := {
  A_pos : pos s = length h;
  A_ev  : forall x, In x (all_resps s) -> is_resp_event h x;
  A_nd  : NoDup (map r_id (all_resps s)) }.

Lemma is_resp_event_snoc h e x : is_resp_event h x -> is_resp_event (h ++ [e]) x.
Proof.
  unfold is_resp_event. intros H. rewrite nth_error_app1; [exact H|].
  apply nth_error_Some. congruence.
Qed.

Lemma is_resp_event_lt h x : is_resp_event h x -> (r_id x < length h)%nat.
Proof. unfold is_resp_event. intros H. apply nth_error_Some. congruence. Qed.

Lemma returned_cons_reply s k r x ch :
  killed s = false -> returned (finish s k r (OReply x) ch) = x :: returned s.
Proof. intros Hk. unfold returned, finish. cbn. rewrite Hk. reflexivity. Qed.

Lemma returned_cons_noreply t (rs : list (Z * ref * outcome)) :
  reply_of (snd t) = [] -> flat_map (fun t => reply_of (snd t)) (t :: rs) = flat_map (fun t => reply_of (snd t)) rs.
Proof. intros H. cbn. rewrite H. reflexivity. Qed.

(* the generic preservation argument: the new collection is a sub-collection of the old one plus, possibly,
   the response sent by this very event *)
Lemma InvA_keep h e s s' :
  InvA h s -> pos s' = S (pos s) ->
  (forall x, In x (all_resps s') -> In x (all_resps s)) ->
  (NoDup (map r_id (all_resps s)) -> NoDup (map r_id (all_resps s'))) ->
  InvA (h ++ [e]) s'.
Proof.
  intros [Hp He Hn] Hpos Hin Hnd. split.
  - rewrite Hpos, Hp, app_length. cbn. lia.
  - intros x Hx. apply is_resp_event_snoc. apply He. apply Hin. exact Hx.
  - apply Hnd. exact Hn.
Qed.

Lemma NoDup_map_perm {A B} (f : A -> B) l l' : Permutation l l' -> NoDup (map f l) -> NoDup (map f l').
Proof. intros P H. eapply Permutation_NoDup; [apply Permutation_map; exact P | exact H]. Qed.

Lemma NoDup_map_tail {A B} (f : A -> B) a l : NoDup (map f (a :: l)) -> NoDup (map f l).
Proof. cbn. intros H. inversion H; assumption. Qed.

Lemma InvA_step h s e : InvA h s -> InvA (h ++ [e]) (step s e).
Proof.
  intros HA. pose proof HA as [Hp He Hn].
  destruct e as [k r c d | from r pay err | | | | | c]; unfold step, step_core.
  - (* ECall *)
    destruct (waiting s) as [[k0 r0]|]; [eapply InvA_keep; eauto|].
    destruct (killed s); [eapply InvA_keep; eauto|].
    destruct (d =? 0); eapply InvA_keep; eauto.
  - (* EResp *)
    destruct (gone s); [eapply InvA_keep; eauto|].
    destruct (length (chan s) <? chan_cap)%nat; [|eapply InvA_keep; eauto].
    set (x := mk_resp (pos s) r from pay err).
    assert (Hperm : Permutation (x :: all_resps s) ((chan s ++ [x]) ++ consumed s)).
    { unfold all_resps. rewrite <- app_assoc. cbn. apply Permutation_middle. }
    split.
    + cbn. rewrite Hp, app_length. cbn. lia.
    + intros y Hy. unfold all_resps in Hy. cbn in Hy.
      apply (Permutation_in _ (Permutation_sym Hperm)) in Hy. destruct Hy as [<- | Hy].
      * unfold is_resp_event. cbn. rewrite Hp, nth_error_app2 by lia. rewrite Nat.sub_diag. reflexivity.
      * apply is_resp_event_snoc. apply He. exact Hy.
    + unfold all_resps. cbn. eapply NoDup_map_perm; [exact Hperm|]. cbn. constructor; [|exact Hn].
      intros Hin. apply in_map_iff in Hin as (y & Hy1 & Hy2).
      apply He in Hy2. apply is_resp_event_lt in Hy2. lia.
  - (* ERecv *)
    destruct (waiting s) as [[k r]|] eqn:Hw; [|eapply InvA_keep; eauto].
    destruct (chan s) as [|x tl] eqn:Hc; [eapply InvA_keep; eauto|].
    destruct (ref_eqb (r_ref x) r).
    + destruct (killed s) eqn:Hk.
      * (* the reply is taken and lost: the second CAS fails *)
        eapply InvA_keep; eauto.
        -- intros y. unfold all_resps, consumed, returned, finish. cbn. rewrite Hk, Hc. cbn. intros H. right. exact H.
        -- unfold all_resps, consumed, returned, finish. cbn. rewrite Hk, Hc. cbn. intros H. inversion H; assumption.
      * assert (Hperm : Permutation (all_resps s) (all_resps (tick (finish s k r (OReply x) tl)))).
        { unfold all_resps, consumed. cbn [chan tick]. unfold returned at 2. cbn [results tick finish dropped chan].
          rewrite Hk, Hc. cbn [flat_map snd reply_of app]. fold (returned s).
          change ((x :: tl) ++ returned s ++ map fst (dropped s)) with (x :: tl ++ (returned s ++ map fst (dropped s))).
          apply Permutation_middle. }
        eapply InvA_keep; eauto.
        -- intros y Hy. eapply Permutation_in; [apply Permutation_sym; exact Hperm | exact Hy].
        -- intros H. eapply NoDup_map_perm; [exact Hperm | exact H].
    + assert (Hperm : Permutation (all_resps s)
                (all_resps (tick (mk_st (pos s) tl (waiting s) (killed s) (gone s) (calls s) (results s) ((x, k) :: dropped s)
                                        (sends s) (pending s) (presented s))))).
      { unfold all_resps, consumed, returned. cbn. rewrite Hc.
        change ((x :: tl) ++ ?a ++ ?b) with (x :: tl ++ (a ++ b)).
        rewrite !app_assoc. apply Permutation_middle. }
      rewrite Hw in Hperm.
      eapply InvA_keep; eauto.
      * intros y Hy. eapply Permutation_in; [apply Permutation_sym; exact Hperm | exact Hy].
      * intros H. eapply NoDup_map_perm; [exact Hperm | exact H].
  - (* ETimeout *)
    destruct (waiting s) as [[k r]|]; [|eapply InvA_keep; eauto].
    eapply InvA_keep; eauto.
    + intros y. unfold all_resps, consumed, returned, finish. cbn. destruct (killed s); cbn; auto.
    + unfold all_resps, consumed, returned, finish. cbn. destruct (killed s); cbn; auto.
  - eapply InvA_keep; eauto.
  - destruct (waiting s); [eapply InvA_keep; eauto|]. destruct (killed s); eapply InvA_keep; eauto.
  - destruct (take_first c (pending s)) as [[q rest]|]; eapply InvA_keep; eauto.
Qed.

Lemma InvA_run h : InvA h (run h).
Proof.
  induction h as [|e h IH] using rev_ind.
  - split; [reflexivity | intros x [] | constructor].
  - rewrite run_snoc. apply InvA_step. exact IH.
Qed.

(* ------------------------------------------------------------------------------------------------- *)
(* B. correlation: what a call returns carries the reference of that call                              *)

Definition open_call (s : st) : list (Z * ref) := match waiting s with Some q => [q] | None => [] end.
Definition pend_ref (t : Z * (Z * ref)) : ref := snd (snd t).

Record InvB (s : st) : Prop := {
  B_ret  : forall k r x, In (k, r, OReply x) (results s) -> r_ref x = r;
  B_drop : forall x k, In (x, k) (dropped s) -> exists r, In (k, r) (calls s) /\ r_ref x <> r;
  B_res  : forall k r o, In (k, r, o) (results s) -> In (k, r) (calls s);
  B_wait : forall q, In q (open_call s) -> In q (calls s);
  B_nd   : NoDup (map snd (calls s)) -> NoDup (map snd (open_call s ++ map fst (results s)));
  B_pend : forall c q, In (c, q) (pending s ++ presented s) -> In q (calls s);
  B_pnd  : NoDup (map snd (calls s)) -> NoDup (map pend_ref (pending s ++ presented s)) }.

Lemma take_first_perm c l q rest : take_first c l = Some (q, rest) -> Permutation l ((c, q) :: rest).
Proof.
  revert q rest. induction l as [|[c' q'] tl IH]; intros q rest H; cbn in H; [discriminate|].
  destruct (c' =? c) eqn:E.
  - inversion H; subst. apply Z.eqb_eq in E. subst. apply Permutation_refl.
  - destruct (take_first c tl) as [[q2 tl2]|]; [|discriminate]. inversion H; subst.
    eapply perm_trans; [apply perm_skip; apply IH; reflexivity | apply perm_swap].
Qed.

Lemma InvB_tick s : InvB s -> InvB (tick s).
Proof. intros [H1 H2 H3 H4 H5 H6 H7]. split; assumption. Qed.

Lemma InvB_finish s k r o ch :
  InvB s -> waiting s = Some (k, r) -> (forall x, o = OReply x -> r_ref x = r) -> InvB (finish s k r o ch).
Proof.
  intros [H1 H2 H3 H4 H5 H6 H7] Hw Ho.
  assert (Hkr : In (k, r) (calls s)) by (apply H4; unfold open_call; rewrite Hw; left; reflexivity).
  split; unfold finish; cbn [results dropped calls waiting pending presented open_call].
  - intros k' r' x [E|Hin]; [|eauto]. inversion E; subst. destruct (killed s); [discriminate|]. apply Ho. assumption.
  - exact H2.
  - intros k' r' o' [E|Hin]; [inversion E; subst; exact Hkr | eauto].
  - intros q [].
  - intros Hnd. specialize (H5 Hnd). unfold open_call in H5. rewrite Hw in H5. exact H5.
  - exact H6.
  - exact H7.
Qed.

Lemma InvB_step s e : InvB s -> InvB (step s e).
Proof.
  intros HB. pose proof HB as [H1 H2 H3 H4 H5 H6 H7]. unfold step. apply InvB_tick.
  destruct e as [k r c d | from r pay err | | | | | c]; unfold step_core.
  - (* ECall *)
    destruct (waiting s) as [[k0 r0]|] eqn:Hw; [exact HB|].
    destruct (killed s); [exact HB|].
    assert (Hfresh : NoDup (map snd ((k, r) :: calls s)) ->
                     ~ In r (map snd (map fst (results s))) /\ ~ In r (map pend_ref (pending s ++ presented s))).
    { cbn. intros Hnd. inversion Hnd as [|a l Hni Hnd']; subst. split; intros Hin; apply Hni.
      - apply in_map_iff in Hin as (q & Hq1 & Hq2). apply in_map_iff in Hq2 as ([[k' r'] o'] & Hq3 & Hq4).
        subst. cbn. apply in_map_iff. exists (k', r'). split; [reflexivity | eauto].
      - apply in_map_iff in Hin as ([c' q] & Hq1 & Hq2). unfold pend_ref in Hq1. cbn in Hq1. subst.
        apply in_map_iff. exists q. split; [reflexivity | eauto]. }
    destruct (d =? 0).
    + split; cbn [results dropped calls waiting pending presented open_call].
      * exact H1.
      * intros x k' Hin. destruct (H2 _ _ Hin) as (r' & Hr1 & Hr2). exists r'. split; [right; exact Hr1 | exact Hr2].
      * intros k' r' o Hin. right. eauto.
      * intros q [<-|[]]. left. reflexivity.
      * intros Hnd. destruct (Hfresh Hnd) as [Hf1 _]. cbn. constructor; [exact Hf1|].
        cbn in Hnd. inversion Hnd; subst. specialize (H5 H9). unfold open_call in H5. rewrite Hw in H5. exact H5.
      * intros c' q Hin. rewrite <- app_assoc in Hin. apply in_app_or in Hin as [Hin|Hin].
        -- right. apply (H6 c'). apply in_or_app. left. exact Hin.
        -- cbn in Hin. destruct Hin as [E|Hin]; [inversion E; left; reflexivity|].
           right. apply (H6 c'). apply in_or_app. right. exact Hin.
      * intros Hnd. destruct (Hfresh Hnd) as [_ Hf2]. cbn in Hnd. inversion Hnd; subst. specialize (H7 H9).
        eapply NoDup_map_perm with (l := (c, (k, r)) :: pending s ++ presented s).
        -- rewrite <- app_assoc. cbn. apply Permutation_middle.
        -- cbn. constructor; assumption.
    + split; cbn [results dropped calls waiting pending presented open_call].
      * intros k' r' x [E|Hin]; [discriminate E | eauto].
      * intros x k' Hin. destruct (H2 _ _ Hin) as (r' & Hr1 & Hr2). exists r'. split; [right; exact Hr1 | exact Hr2].
      * intros k' r' o [E|Hin]; [inversion E; left; reflexivity | right; eauto].
      * intros q [].
      * intros Hnd. destruct (Hfresh Hnd) as [Hf1 _]. cbn. constructor; [exact Hf1|].
        cbn in Hnd. inversion Hnd; subst. specialize (H5 H9). unfold open_call in H5. rewrite Hw in H5. exact H5.
      * intros c' q Hin. right. eauto.
      * intros Hnd. cbn in Hnd. inversion Hnd; subst. auto.
  - (* EResp *)
    destruct (gone s); [split; assumption|].
    destruct (length (chan s) <? chan_cap)%nat; split; assumption.
  - (* ERecv *)
    destruct (waiting s) as [[k r]|] eqn:Hw; [|exact HB].
    destruct (chan s) as [|x tl]; [exact HB|].
    destruct (ref_eqb (r_ref x) r) eqn:E.
    + apply InvB_finish; [exact HB | exact Hw|]. intros y Hy. inversion Hy; subst. apply refeq. exact E.
    + split; cbn [results dropped calls waiting pending presented open_call]; try assumption.
      * intros y k' [Ey|Hin]; [|eauto]. inversion Ey; subst. exists r. split.
        -- apply H4. unfold open_call. rewrite Hw. left. reflexivity.
        -- apply refneq. exact E.
      * unfold open_call in H4. rewrite Hw in H4. exact H4.
      * unfold open_call in H5. rewrite Hw in H5. exact H5.
  - (* ETimeout *)
    destruct (waiting s) as [[k r]|] eqn:Hw; [|exact HB].
    apply InvB_finish; [exact HB | exact Hw | discriminate].
  - split; assumption.
  - destruct (waiting s) eqn:Hw; [exact HB|]. destruct (killed s); [|exact HB].
    unfold open_call in H4, H5. rewrite Hw in H4, H5.
    split; cbn [results dropped calls waiting pending presented open_call]; assumption.
  - destruct (take_first c (pending s)) as [[q rest]|] eqn:Ht; [|exact HB].
    apply take_first_perm in Ht.
    assert (HP : Permutation (pending s ++ presented s) (rest ++ (c, q) :: presented s)).
    { eapply perm_trans; [apply Permutation_app_tail; exact Ht|]. cbn. apply Permutation_middle. }
    split; cbn [results dropped calls waiting pending presented open_call]; try assumption.
    + intros c' q' Hin. apply (H6 c'). eapply Permutation_in; [apply Permutation_sym; exact HP | exact Hin].
    + intros Hnd. eapply NoDup_map_perm; [exact HP | auto].
Qed.

Lemma InvB_run h : InvB (run h).
Proof.
  induction h as [|e h IH] using rev_ind.
  - split; cbn; try (intros; contradiction); try constructor.
  - rewrite run_snoc. apply InvB_step. exact IH.
Qed.

(* ------------------------------------------------------------------------------------------------- *)
(* C. the calls recorded in the state are calls of the history; monotonicity of the logs              *)

Record InvC (h : list event) (s : st) : Prop := {
  C_incl : incl (map snd (calls s)) (call_refs h);
  C_nd   : NoDup (call_refs h) -> NoDup (map snd (calls s)) }.

Lemma call_refs_snoc h e : call_refs (h ++ [e]) = call_refs h ++ match e with ECall _ r _ _ => [r] | _ => [] end.
Proof. unfold call_refs. rewrite flat_map_app. cbn. rewrite app_nil_r. reflexivity. Qed.

Lemma InvC_same h e s s' : InvC h s -> calls s' = calls s -> InvC (h ++ [e]) s'.
Proof.
  intros [H1 H2] E. split; rewrite E, call_refs_snoc.
  - intros x Hx. apply in_or_app. left. apply H1. exact Hx.
  - intros Hnd. apply H2. destruct e; try (rewrite app_nil_r in Hnd; exact Hnd).
    apply NoDup_remove_1 in Hnd. rewrite app_nil_r in Hnd. exact Hnd.
Qed.

Lemma InvC_step h s e : InvC h s -> InvC (h ++ [e]) (step s e).
Proof.
  intros HC. pose proof HC as [H1 H2].
  destruct e as [k r c d | from r pay err | | | | | c]; unfold step, step_core.
  - destruct (waiting s) as [[k0 r0]|]; [eapply InvC_same; eauto|].
    destruct (killed s); [eapply InvC_same; eauto|].
    assert (HX : InvC (h ++ [ECall k r c d]) (mk_st 0 [] None false false ((k, r) :: calls s) [] [] [] [] [])).
    { split; rewrite call_refs_snoc; cbn [calls map snd].
      - intros x [<-|Hx]; apply in_or_app; [right; left; reflexivity | left; apply H1; exact Hx].
      - intros Hnd. pose proof (NoDup_remove_1 _ _ _ Hnd) as Ha. pose proof (NoDup_remove_2 _ _ _ Hnd) as Hb.
        rewrite app_nil_r in Ha, Hb. constructor; [|apply H2; exact Ha].
        intros Hin. apply Hb. apply H1. exact Hin. }
    destruct HX as [X1 X2]. destruct (d =? 0); split; assumption.
  - destruct (gone s); [eapply InvC_same; eauto|]. destruct (length (chan s) <? chan_cap)%nat; eapply InvC_same; eauto.
  - destruct (waiting s) as [[k r]|]; [|eapply InvC_same; eauto]. destruct (chan s) as [|x tl]; [eapply InvC_same; eauto|].
    destruct (ref_eqb (r_ref x) r); eapply InvC_same; eauto.
  - destruct (waiting s) as [[k r]|]; eapply InvC_same; eauto.
  - eapply InvC_same; eauto.
  - destruct (waiting s); [eapply InvC_same; eauto|]. destruct (killed s); eapply InvC_same; eauto.
  - destruct (take_first c (pending s)) as [[q rest]|]; eapply InvC_same; eauto.
Qed.

Lemma InvC_run h : InvC h (run h).
Proof.
  induction h as [|e h IH] using rev_ind.
  - split; [intros x [] | constructor].
  - rewrite run_snoc. apply InvC_step. exact IH.
Qed.

Lemma step_mono s e :
  (forall d, In d (dropped s) -> In d (dropped (step s e))) /\
  (forall t, In t (results s) -> In t (results (step s e))).
Proof.
  destruct e as [k r c d | from r pay err | | | | | c]; unfold step, step_core, finish.
  - destruct (waiting s) as [[k0 r0]|]; [auto|]. destruct (killed s); [auto|]. destruct (d =? 0); cbn; auto.
  - destruct (gone s); [cbn; auto|]. destruct (length (chan s) <? chan_cap)%nat; cbn; auto.
  - destruct (waiting s) as [[k r]|]; [|auto]. destruct (chan s) as [|x tl]; [auto|].
    destruct (ref_eqb (r_ref x) r); cbn; auto.
  - destruct (waiting s) as [[k r]|]; cbn; auto.
  - cbn; auto.
  - destruct (waiting s); [auto|]. destruct (killed s); cbn; auto.
  - destruct (take_first c (pending s)) as [[q rest]|]; cbn; auto.
Qed.

Lemma run_from_mono h' : forall s,
  (forall d, In d (dropped s) -> In d (dropped (run_from s h'))) /\
  (forall t, In t (results s) -> In t (results (run_from s h'))).
Proof.
  induction h' as [|e h' IH]; intros s; [split; auto|].
  unfold run_from in *. cbn [fold_left]. destruct (IH (step s e)) as [I1 I2]. destruct (step_mono s e) as [S1 S2].
  split; auto.
Qed.

(* ------------------------------------------------------------------------------------------------- *)
(* the statements                                                                                      *)

Lemma returned_In s x : In x (returned s) <-> exists k r, In (k, r, OReply x) (results s).
Proof.
  unfold returned. rewrite in_flat_map. split.
  - intros ([[k r] o] & H1 & H2). destruct o; cbn in H2; try contradiction. destruct H2 as [<-|[]]. eauto.
  - intros (k & r & H). exists (k, r, OReply x). split; [exact H | left; reflexivity].
Qed.

(* what a call returns: by the type [outcome] it is a response taken from the channel, a timeout, the delivery error
   of the request, or "terminated"; if it is a response then the response carries the reference of THIS call and is one
   that some process really sent (event number r_id x of the history) *)
Theorem correlated : forall h k r x,
  In (k, r, OReply x) (results (run h)) ->
  r_ref x = r /\ is_resp_event h x /\ In (k, r) (calls (run h)) /\ In r (call_refs h).
Proof.
  intros h k r x H. pose proof (InvB_run h) as HB. pose proof (InvA_run h) as HA. pose proof (InvC_run h) as HC.
  split; [eapply B_ret; eauto|]. split; [|split].
  - apply (A_ev _ _ HA). unfold all_resps, consumed. apply in_or_app. right. apply in_or_app. left.
    apply returned_In. eauto.
  - eapply B_res; eauto.
  - apply (C_incl _ _ HC). apply in_map_iff. exists (k, r). split; [reflexivity | eapply B_res; eauto].
Qed.

Lemma NoDup_map_In_eq {A B} (f : A -> B) l a b : NoDup (map f l) -> In a l -> In b l -> f a = f b -> a = b.
Proof.
  induction l as [|x l IH]; intros Hnd Ha Hb E; [contradiction|]. cbn in Hnd. inversion Hnd as [|y l' Hni Hnd']; subst.
  destruct Ha as [<-|Ha], Hb as [<-|Hb]; auto.
  - exfalso. apply Hni. rewrite E. apply in_map. exact Hb.
  - exfalso. apply Hni. rewrite <- E. apply in_map. exact Ha.
Qed.

(* ... never one made for a different request: with pairwise distinct references, a response returned by call k
   does not carry the reference of any other call j *)
Theorem not_for_other_request : forall h k r x j,
  NoDup (call_refs h) ->
  In (k, r, OReply x) (results (run h)) -> In (j, r_ref x) (calls (run h)) -> j = k.
Proof.
  intros h k r x j Hnd H Hj. destruct (correlated h k r x H) as (E & _ & Hk & _). subst r.
  pose proof (C_nd _ _ (InvC_run h) Hnd) as Hc.
  pose proof (NoDup_map_In_eq snd _ _ _ Hc Hj Hk eq_refl) as E. inversion E. reflexivity.
Qed.

(* one response is consumed at most once: the responses taken out of the channel (returned or discarded) are pairwise
   different send events *)
Theorem at_most_once_caller : forall h, NoDup (map r_id (consumed (run h))) /\ NoDup (map r_id (returned (run h))).
Proof.
  intros h. pose proof (A_nd _ _ (InvA_run h)) as H. unfold all_resps in H. rewrite map_app in H.
  apply NoDup_app_remove_l in H. split; [exact H|]. unfold consumed in H. rewrite map_app in H.
  apply NoDup_app_remove_r in H. exact H.
Qed.

(* each call returns once and, with distinct references, each reference has at most one result: of two replies that
   carry the same reference at most one is ever returned (the duplicate stays in the channel or is discarded) *)
Theorem one_result_per_ref : forall h, NoDup (call_refs h) -> NoDup (map snd (map fst (results (run h)))).
Proof.
  intros h Hnd. pose proof (B_nd _ (InvB_run h) (C_nd _ _ (InvC_run h) Hnd)) as H.
  rewrite map_app in H. apply NoDup_app_remove_l in H. exact H.
Qed.

Theorem duplicate_reply : forall h x y,
  NoDup (call_refs h) -> In x (returned (run h)) -> In y (returned (run h)) -> r_ref x = r_ref y -> x = y.
Proof.
  intros h x y Hnd Hx Hy E. apply returned_In in Hx as (k & r & Hx). apply returned_In in Hy as (k' & r' & Hy).
  pose proof (B_ret _ (InvB_run h) _ _ _ Hx) as E1. pose proof (B_ret _ (InvB_run h) _ _ _ Hy) as E2.
  pose proof (one_result_per_ref h Hnd) as H. rewrite map_map in H.
  assert (X : (k, r, OReply x) = (k', r', OReply y)).
  { eapply NoDup_map_In_eq; [exact H | exact Hx | exact Hy|]. cbn. congruence. }
  inversion X. reflexivity.
Qed.

(* a response discarded by the retry loop carried a reference different from the one waited for, and it is never
   returned by that call or any later one, however the history continues *)
Theorem late_dropped : forall h x k,
  In (x, k) (dropped (run h)) ->
  (exists r, In (k, r) (calls (run h)) /\ r_ref x <> r) /\
  forall h' y, In y (returned (run (h ++ h'))) -> r_id y <> r_id x.
Proof.
  intros h x k H. split; [eapply B_drop; [apply InvB_run | exact H]|].
  intros h' y Hy E. rewrite run_app in Hy.
  assert (Hd : In (x, k) (dropped (run_from (run h) h'))) by (apply run_from_mono; exact H).
  rewrite <- run_app in Hy, Hd.
  destruct (at_most_once_caller (h ++ h')) as [Hnd _]. unfold consumed in Hnd. rewrite map_app in Hnd.
  apply in_split in Hy as (l1 & l2 & Hy). rewrite Hy in Hnd. rewrite map_app in Hnd. cbn in Hnd.
  rewrite <- app_assoc in Hnd. apply NoDup_remove_2 in Hnd. apply Hnd. apply in_or_app. right.
  apply in_or_app. right. rewrite E. apply in_map_iff. exists x. split; [reflexivity|].
  apply in_map_iff. exists (x, k). split; [reflexivity | exact Hd].
Qed.

(* the retry loop itself: a response at the head of the channel with another reference is removed, logged as
   discarded, and the call keeps waiting *)
Lemma recv_stale : forall s k r x tl,
  waiting s = Some (k, r) -> chan s = x :: tl -> r_ref x <> r ->
  let s' := step s ERecv in
  chan s' = tl /\ waiting s' = Some (k, r) /\ dropped s' = (x, k) :: dropped s /\ results s' = results s.
Proof.
  intros s k r x tl Hw Hc Hne. unfold step, step_core. rewrite Hw, Hc.
  apply refneq in Hne. rewrite Hne. cbn. auto.
Qed.

Lemma recv_match : forall s k r x tl,
  waiting s = Some (k, r) -> chan s = x :: tl -> r_ref x = r -> killed s = false ->
  let s' := step s ERecv in
  chan s' = tl /\ waiting s' = None /\ dropped s' = dropped s /\ results s' = (k, r, OReply x) :: results s /\ killed s' = false.
Proof.
  intros s k r x tl Hw Hc He Hk. unfold step, step_core, finish. rewrite Hw, Hc.
  apply refeq in He. rewrite He, Hk. cbn. auto.
Qed.

(* the positive side: a reply with the awaited reference that is in the channel behind n stale ones is returned
   after n+1 receive steps (if no timeout or kill intervenes) *)
Theorem reply_delivered : forall pre s k r x post,
  waiting s = Some (k, r) -> killed s = false -> chan s = pre ++ x :: post ->
  Forall (fun y => r_ref y <> r) pre -> r_ref x = r ->
  let s' := run_from s (repeat ERecv (S (length pre))) in
  results s' = (k, r, OReply x) :: results s /\ chan s' = post /\ waiting s' = None.
Proof.
  induction pre as [|y pre IH]; intros s k r x post Hw Hk Hc Hall He; cbv zeta in *.
  - cbn [length repeat run_from fold_left app] in *.
    destruct (recv_match s k r x post Hw Hc He Hk) as (A & B & _ & D & _). auto.
  - cbn [length repeat]. unfold run_from. cbn [fold_left]. cbn [app] in Hc.
    pose proof (Forall_inv Hall) as Hy. pose proof (Forall_inv_tail Hall) as Hall'. cbn beta in Hy.
    destruct (recv_stale s k r y (pre ++ x :: post) Hw Hc Hy) as (A & B & _ & D).
    assert (Hk' : killed (step s ERecv) = false).
    { unfold step, step_core. rewrite Hw, Hc. apply refneq in Hy. rewrite Hy. cbn. exact Hk. }
    destruct (IH (step s ERecv) k r x post B Hk' A Hall' He) as (R1 & R2 & R3).
    unfold run_from in R1, R2, R3. cbn [repeat fold_left] in R1, R2, R3 |- *. rewrite R1, R2, R3, D. auto.
Qed.

(* a reply is accepted whenever fewer than 10 responses are queued; it is refused (ErrResponseIgnored) exactly when 10
   are queued - whether or not the caller is waiting *)
Lemma resp_accept : forall s from r pay err, gone s = false ->
  let s' := step s (EResp from r pay err) in
  ((length (chan s) < chan_cap)%nat -> chan s' = chan s ++ [mk_resp (pos s) r from pay err] /\ sends s' = (pos s, 0) :: sends s) /\
  ((length (chan s) >= chan_cap)%nat -> chan s' = chan s /\ sends s' = (pos s, 1) :: sends s).
Proof.
  intros s from r pay err Hg. unfold step, step_core. rewrite Hg. split; intros H.
  - destruct (Nat.ltb_spec (length (chan s)) chan_cap); [cbn; auto | lia].
  - destruct (Nat.ltb_spec (length (chan s)) chan_cap); [lia | cbn; auto].
Qed.

(* the callee side: a request is presented to HandleCall at most once (the mailbox is a FIFO from which EHandle removes
   what it presents; exactly-once of the real mailbox is property C02), and only requests that were issued *)
Theorem at_most_once_callee : forall h,
  NoDup (call_refs h) ->
  NoDup (map pend_ref (presented (run h))) /\
  forall c q, In (c, q) (presented (run h)) -> In q (calls (run h)).
Proof.
  intros h Hnd. pose proof (InvB_run h) as HB. split.
  - pose proof (B_pnd _ HB (C_nd _ _ (InvC_run h) Hnd)) as H. rewrite map_app in H.
    apply NoDup_app_remove_l in H. exact H.
  - intros c q Hin. apply (B_pend _ HB c). apply in_or_app. right. exact Hin.
Qed.

(* references come from MakeRef: the calls of one process use a sub-sequence of the node's references *)
Theorem refs_fresh : forall n c (f : ref -> bool) h,
  (c + N.of_nat n < two64)%N -> call_refs h = filter f (make_refs n c) -> NoDup (call_refs h).
Proof. intros n c f h Hlt ->. apply NoDup_filter. apply refs_never_repeat. exact Hlt. Qed.

(* ---- the buffer of 10: stale replies can make the node refuse the reply the caller is waiting for -------------- *)

Definition r0 : ref := (1%N, 0%N, 0%N).
Definition r1 : ref := (2%N, 0%N, 0%N).

(* call 0 times out; its callee then answers ten times (all accepted: nobody checks whether the caller waits);
   call 1 is issued and answered in time BEFORE the caller has taken anything out of the channel: refused *)
Definition starve_history : list event :=
  [ECall 0 r0 7 0; ETimeout] ++ repeat (EResp 7 r0 100 false) 10 ++ [ECall 1 r1 7 0; EResp 7 r1 101 false; ETimeout].

Definition ignored_while_waiting_b (h : list event) : bool :=
  let s := run h in
  refs_distinctb (call_refs h) &&
  match results s, sends s with
  | (1, r, OTimeout) :: _, (_, 1) :: _ => ref_eqb r r1
  | _, _ => false
  end.

Lemma starve_b : ignored_while_waiting_b starve_history = true.
Proof. vm_compute. reflexivity. Qed.

(* "ErrResponseIgnored means the process does not wait for that response any more" (comment in RouteSendResponse) is
   false: the caller waits for exactly this reference, the reply is refused and is nowhere afterwards (the channel is
   unchanged and holds no response with the awaited reference), so call k can only end by its timeout unless somebody
   sends the reply again *)
Theorem in_time_reply_refused : exists h k r from pay,
  NoDup (call_refs h) /\ waiting (run h) = Some (k, r) /\ killed (run h) = false /\
  let s' := run (h ++ [EResp from r pay false]) in
  sends s' = (length h, 1) :: sends (run h) /\ chan s' = chan (run h) /\
  forallb (fun y => negb (ref_eqb (r_ref y) r)) (chan s') = true.
Proof.
  exists ([ECall 0 r0 7 0; ETimeout] ++ repeat (EResp 7 r0 100 false) 10 ++ [ECall 1 r1 7 0]), 1, r1, 7, 101.
  split; [|split; [|split]].
  - cbn. repeat constructor; cbn; intuition discriminate.
  - vm_compute. reflexivity.
  - vm_compute. reflexivity.
  - vm_compute. repeat split; reflexivity.
Qed.
