(* Call engine - model (definitions only) of the synchronous request path of one caller process.

   node/process.go
     func (p *process) CallPID(to, message, timeout) (any, error) {
         options := gen.MessageOptions{ Ref: p.node.MakeRef(), ... }          (* fresh reference per call *)
         if err := p.node.RouteCallPID(p.pid, to, options, message); err != nil { return nil, err }
         ...
         return p.waitResponse(options.Ref, timeout) }
     (CallProcessID / CallAlias: the same with RouteCallProcessID / RouteCallAlias)

     func (p *process) waitResponse(ref gen.Ref, timeout int) (any, error) {
         if CAS(&p.state, Running, WaitResponse) == false { return nil, gen.ErrNotAllowed }
         timer.Reset(timeout seconds)
       retry:
         select {
         case <-timer.C:          err = gen.ErrTimeout
         case r := <-p.response:
             if r.ref != ref { goto retry }          (* late response: drop it and wait one more time *)
             response = r.message; err = r.err }
         if CAS(&p.state, WaitResponse, Running) == false { return nil, gen.ErrProcessTerminated }
         return response, err }

   node/node.go spawn:   response: make(chan response, 10)

   node/core.go
     func (n *node) RouteSendResponse(from, to gen.PID, options, message) error {
         ...
         value, loaded := n.processes.Load(to); if loaded == false { return gen.ErrProcessUnknown }
         select {
         case p.response <- response{ref: options.Ref, message: message}: return nil
         default: return gen.ErrResponseIgnored } }           (* ONLY test: is the buffer of 10 full *)
     RouteSendResponseError: the same with response{ref, err}.
     RouteCallPID: processes.Load(to) (ErrProcessUnknown) / isAlive (ErrProcessTerminated) /
                   queue.Push(qm{Ref, From, Type: Request}) (ErrProcessMailboxFull) / p.run()

   act/actor.go ProcessRun, node/meta.go handle: the callee's HandleCall(from, ref, request) sees the request once per
   mailbox entry; a non-nil result is sent by SendResponse(from, ref, result), a nil result means "asynchronous":
   any process may call SendResponse(from, ref, ...) later, any number of times.

   The responders are the ENVIRONMENT of the model: any process may send any (ref, payload) to the caller at any
   time (in time, late, duplicated, with a ref of an older request, with a ref never issued).
   A history is a list of events; [step] is total (an event that is not enabled leaves the state unchanged). *)
From Ergo Require Import Common.Base Ids.Model.
Local Open Scope Z_scope.

Definition ref := Ids.Model.ref.
Definition ref_eqb := Ids.Model.ref_eqb.

Definition chan_cap : nat := 10.          (* make(chan response, 10) *)

(* one element of p.response.  r_id is a ghost field: the position in the history of the event that sent it *)
Record resp := mk_resp { r_id : nat; r_ref : ref; r_from : Z; r_pay : Z; r_err : bool }.

Inductive outcome :=
| OReply (x : resp)       (* response, err = r.message, r.err *)
| OTimeout                (* nil, gen.ErrTimeout *)
| ODelivery (code : Z)    (* nil, the error of RouteCall* (unknown / terminated / mailbox full / ...) *)
| OTerminated.            (* nil, gen.ErrProcessTerminated: the caller was killed while waiting *)

Inductive event :=
| ECall (k : Z) (r : ref) (callee : Z) (deliv : Z)
     (* call number k is issued with reference r (= MakeRef()); deliv = 0: RouteCall* returned nil (the request is in
        the callee's mailbox) else its error code; the caller then enters waitResponse *)
| EResp (from : Z) (r : ref) (pay : Z) (err : bool)
     (* process [from] executes RouteSendResponse / RouteSendResponseError (err = true) towards the caller *)
| ERecv          (* the select of waitResponse takes the channel branch *)
| ETimeout       (* the select of waitResponse takes the timer branch *)
| EKill          (* Node.Kill(caller): the state word leaves Running / WaitResponse for good *)
| EGone          (* the caller has been unregistered (processes.Delete) *)
| EHandle (callee : Z).   (* the callee takes the oldest pending request from its mailbox and presents it to HandleCall *)

(* send results: 0 nil, 1 ErrResponseIgnored, 2 ErrProcessUnknown *)
Record st := mk_st {
  pos      : nat;                          (* number of events processed (ghost) *)
  chan     : list resp;                    (* p.response, oldest first *)
  waiting  : option (Z * ref);             (* inside waitResponse for call k with reference ref *)
  killed   : bool;
  gone     : bool;
  calls    : list (Z * ref);               (* issued calls, newest first (ghost) *)
  results  : list (Z * ref * outcome);     (* what each call returned, newest first *)
  dropped  : list (resp * Z);              (* responses discarded by the retry loop, with the call that discarded them *)
  sends    : list (nat * Z);               (* result of every response send: (position, code), newest first *)
  pending  : list (Z * (Z * ref));         (* requests in the callees' mailboxes: (callee, (k, ref)), oldest first *)
  presented: list (Z * (Z * ref))          (* requests given to HandleCall, newest first *)
}.

Definition st0 : st := mk_st 0 [] None false false [] [] [] [] [] [].

Definition tick (s : st) : st :=
  mk_st (S (pos s)) (chan s) (waiting s) (killed s) (gone s) (calls s) (results s) (dropped s) (sends s) (pending s) (presented s).

(* the end of waitResponse: the second CAS fails when the process was killed meanwhile *)
Definition finish (s : st) (k : Z) (r : ref) (o : outcome) (ch : list resp) : st :=
  let o' := if killed s then OTerminated else o in
  mk_st (pos s) ch None (killed s) (gone s) (calls s) ((k, r, o') :: results s) (dropped s) (sends s) (pending s) (presented s).

Fixpoint take_first (c : Z) (l : list (Z * (Z * ref))) : option ((Z * ref) * list (Z * (Z * ref))) :=
  match l with
  | [] => None
  | (c', q) :: tl => if c' =? c then Some (q, tl)
                     else match take_first c tl with
                          | Some (q', tl') => Some (q', (c', q) :: tl')
                          | None => None
                          end
  end.

Definition step_core (s : st) (e : event) : st :=
  match e with
  | ECall k r callee deliv =>
      match waiting s with
      | Some _ => s                                            (* one call at a time: the caller is blocked *)
      | None =>
        if killed s then s                                     (* isStateRW() == false: ErrNotAllowed, no request made *)
        else if deliv =? 0
        then mk_st (pos s) (chan s) (Some (k, r)) (killed s) (gone s) ((k, r) :: calls s) (results s) (dropped s) (sends s)
                   (pending s ++ [(callee, (k, r))]) (presented s)
        else mk_st (pos s) (chan s) None (killed s) (gone s) ((k, r) :: calls s) ((k, r, ODelivery deliv) :: results s)
                   (dropped s) (sends s) (pending s) (presented s)
      end
  | EResp from r pay err =>
      if gone s
      then mk_st (pos s) (chan s) (waiting s) (killed s) (gone s) (calls s) (results s) (dropped s) ((pos s, 2) :: sends s) (pending s) (presented s)
      else if (length (chan s) <? chan_cap)%nat
      then mk_st (pos s) (chan s ++ [mk_resp (pos s) r from pay err]) (waiting s) (killed s) (gone s) (calls s) (results s)
                 (dropped s) ((pos s, 0) :: sends s) (pending s) (presented s)
      else mk_st (pos s) (chan s) (waiting s) (killed s) (gone s) (calls s) (results s) (dropped s) ((pos s, 1) :: sends s) (pending s) (presented s)
  | ERecv =>
      match waiting s, chan s with
      | Some (k, r), x :: tl =>
          if ref_eqb (r_ref x) r
          then finish s k r (OReply x) tl
          else mk_st (pos s) tl (waiting s) (killed s) (gone s) (calls s) (results s) ((x, k) :: dropped s) (sends s) (pending s) (presented s)
      | _, _ => s
      end
  | ETimeout =>
      match waiting s with
      | Some (k, r) => finish s k r OTimeout (chan s)
      | None => s
      end
  | EKill => mk_st (pos s) (chan s) (waiting s) true (gone s) (calls s) (results s) (dropped s) (sends s) (pending s) (presented s)
  | EGone =>
      match waiting s with
      | Some _ => s                      (* unregisterProcess runs after the goroutine of the process has stopped *)
      | None => if killed s
                then mk_st (pos s) (chan s) (waiting s) (killed s) true (calls s) (results s) (dropped s) (sends s) (pending s) (presented s)
                else s
      end
  | EHandle c =>
      match take_first c (pending s) with
      | Some (q, rest) => mk_st (pos s) (chan s) (waiting s) (killed s) (gone s) (calls s) (results s) (dropped s) (sends s) rest ((c, q) :: presented s)
      | None => s
      end
  end.

Definition step (s : st) (e : event) : st := tick (step_core s e).

Definition run_from (s : st) (h : list event) : st := fold_left step h s.
Definition run (h : list event) : st := run_from st0 h.

(* ---- projections used by the statements ---- *)

Definition call_refs (h : list event) : list ref :=
  flat_map (fun e => match e with ECall _ r _ _ => [r] | _ => [] end) h.

Definition reply_of (o : outcome) : list resp := match o with OReply x => [x] | _ => [] end.
Definition returned (s : st) : list resp := flat_map (fun t => reply_of (snd t)) (results s).
(* every response that left the channel *)
Definition consumed (s : st) : list resp := returned s ++ map fst (dropped s).

Definition is_resp_event (h : list event) (x : resp) : Prop :=
  nth_error h (r_id x) = Some (EResp (r_from x) (r_ref x) (r_pay x) (r_err x)).

Fixpoint refs_distinctb (l : list ref) : bool :=
  match l with
  | [] => true
  | r :: tl => negb (existsb (ref_eqb r) tl) && refs_distinctb tl
  end.
