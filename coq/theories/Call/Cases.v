(* Call engine - correspondence and monitor definitions evaluated over implementation observations
   (cases written by go/harness/cmd/call: a real node, caller / callee / helper actors, replies controlled by the
   harness, the caller's select gated through lib.VerifPoint("wait.select")). *)
From Ergo Require Import Common.Base Ids.Model Call.Model.
Local Open Scope Z_scope.

(* what Call returned: kind 0 = (message, err) taken from a response (o_err: it came as error), 1 = ErrTimeout,
   2 = error of RouteCall* (o_pay = code), 3 = ErrProcessTerminated, 9 = anything else *)
Record obs := mk_obs { o_kind : Z; o_pay : Z; o_err : bool }.

Record ccase := mk_ccase {
  c_events    : list event;               (* the history as executed *)
  c_results   : list (Z * obs);           (* (call number, what it returned), in order *)
  c_sends     : list Z;                   (* result of every EResp in order: 0 nil, 1 ErrResponseIgnored, 2 ErrProcessUnknown,
                                             -1 not observable (reply sent by act.Actor itself), 9 other *)
  c_presented : list (Z * Z);             (* (callee, call number) in the order the callees' HandleCall saw them *)
  c_tokens    : list Z                    (* one per ERecv/ETimeout: 0 = the caller came back to the select (dropped),
                                             1 = the call returned, 2 = neither within the stall limit *)
}.

(* ---- correspondence: the model run on the same history ---- *)

Definition obs_of (o : outcome) : obs :=
  match o with
  | OReply x => mk_obs 0 (r_pay x) (r_err x)
  | OTimeout => mk_obs 1 0 false
  | ODelivery c => mk_obs 2 c false
  | OTerminated => mk_obs 3 0 false
  end.

Definition obs_eqb (a b : obs) : bool := (o_kind a =? o_kind b) && (o_pay a =? o_pay b) && Bool.eqb (o_err a) (o_err b).

Fixpoint list_eqb {A} (f : A -> A -> bool) (a b : list A) : bool :=
  match a, b with
  | [], [] => true
  | x :: a', y :: b' => f x y && list_eqb f a' b'
  | _, _ => false
  end.

Definition model_results (s : st) : list (Z * obs) := rev (map (fun t => (fst (fst t), obs_of (snd t))) (results s)).
Definition model_sends (s : st) : list Z := rev (map snd (sends s)).
Definition model_presented (s : st) : list (Z * Z) := rev (map (fun t => (fst t, fst (snd t))) (presented s)).

(* what each ERecv / ETimeout token does in the model: 0 keeps waiting, 1 returns (2 = not enabled) *)
Fixpoint model_tokens (s : st) (h : list event) : list Z :=
  match h with
  | [] => []
  | e :: tl =>
      let s' := step s e in
      match e with
      | ERecv | ETimeout =>
          (match waiting s, waiting s' with
           | Some _, Some _ => if (length (chan s') <? length (chan s))%nat then 0 else 2
           | Some _, None => 1
           | None, _ => 2
           end) :: model_tokens s' tl
      | _ => model_tokens s' tl
      end
  end.

Definition send_eqb (a b : Z) : bool := (a =? b) || (b =? -1).

Definition corr_results (c : ccase) : bool :=
  list_eqb (fun a b => (fst a =? fst b) && obs_eqb (snd a) (snd b)) (model_results (run (c_events c))) (c_results c).
Definition corr_sends (c : ccase) : bool := list_eqb send_eqb (model_sends (run (c_events c))) (c_sends c).
Definition corr_presented (c : ccase) : bool :=
  list_eqb (fun a b => (fst a =? fst b) && (snd a =? snd b)) (model_presented (run (c_events c))) (c_presented c).
Definition corr_tokens (c : ccase) : bool := list_eqb Z.eqb (model_tokens st0 (c_events c)) (c_tokens c).
Definition corr_ok (c : ccase) : bool := corr_results c && corr_sends c && corr_presented c && corr_tokens c.

(* ---- the property evaluated on what the implementation did (no model run) ---- *)

Definition call_ref_of (h : list event) (k : Z) : option ref :=
  match filter (fun e => match e with ECall k' _ _ _ => k' =? k | _ => false end) h with
  | ECall _ r _ _ :: _ => Some r
  | _ => None
  end.

(* some process really sent (ref, payload, err) to the caller *)
Definition was_sent (h : list event) (r : ref) (pay : Z) (err : bool) : bool :=
  existsb (fun e => match e with EResp _ r' p e' => ref_eqb r' r && (p =? pay) && Bool.eqb e' err | _ => false end) h.

(* payloads are tagged by the harness: pay / 1000 = number of the request whose reference the responder used
   (999: a reference that was never given to this caller) *)
Definition made_for (pay : Z) : Z := pay / 1000.

(* C07, first sentence: a call returns a timeout, a delivery error, "terminated", or a response that was really sent
   with the reference of this very call - i.e. one made for this request *)
Definition result_ok (h : list event) (t : Z * obs) : bool :=
  let '(k, o) := t in
  if o_kind o =? 0 then
    match call_ref_of h k with
    | Some r => was_sent h r (o_pay o) (o_err o) && (made_for (o_pay o) =? k)
    | None => false
    end
  else ((o_kind o =? 1) && (o_pay o =? 0))      (* o_pay = 1: ErrTimeout came back before the timeout period had passed *)
       || (o_kind o =? 2) || (o_kind o =? 3).
Definition spec_correlated (c : ccase) : bool := forallb (result_ok (c_events c)) (c_results c).

Fixpoint z_nodupb (l : list Z) : bool :=
  match l with
  | [] => true
  | x :: tl => negb (existsb (Z.eqb x) tl) && z_nodupb tl
  end.

(* a reply is consumed by at most one call (payloads are unique per send event) *)
Definition spec_once_caller (c : ccase) : bool :=
  z_nodupb (map (fun t => o_pay (snd t)) (filter (fun t => o_kind (snd t) =? 0) (c_results c))) &&
  z_nodupb (map fst (c_results c)).

(* a request is presented at most once, and only requests whose RouteCall* succeeded *)
Definition spec_once_callee (c : ccase) : bool :=
  z_nodupb (map snd (c_presented c)) &&
  forallb (fun t => existsb (fun e => match e with ECall k _ cal d => (k =? snd t) && (cal =? fst t) && (d =? 0) | _ => false end)
                            (c_events c)) (c_presented c).

(* the hand-over of a reply never blocks and answers nil / ErrResponseIgnored / ErrProcessUnknown; a response whose send
   reported success can be received: the gated caller never stalls on a token *)
Definition spec_no_stall (c : ccase) : bool :=
  forallb (fun t => negb (t =? 2)) (c_tokens c) && forallb (fun t => negb (t =? 9)) (c_sends c).

(* truthful send result: "nil" means the response sits in the buffer of 10 until the caller takes it - at no point of
   the history are there more than 10 acknowledged responses that were not yet taken (nor fewer than 0) *)
Fixpoint ack_walk (cnt : Z) (h : list event) (sends tokens : list Z) : bool :=
  match h with
  | [] => true
  | EResp _ _ _ _ :: tl =>
      match sends with
      | code :: sends' => let cnt' := if (code =? 0) || (code =? -1) then cnt + 1 else cnt in
                          (cnt' <=? 10) && ack_walk cnt' tl sends' tokens
      | [] => true
      end
  | ERecv :: tl =>
      match tokens with
      | t :: tokens' => let cnt' := if (t =? 0) || (t =? 1) then cnt - 1 else cnt in
                        (0 <=? cnt') && ack_walk cnt' tl sends tokens'
      | [] => true
      end
  | ETimeout :: tl => ack_walk cnt tl sends (List.tl tokens)
  | _ :: tl => ack_walk cnt tl sends tokens
  end.
Definition spec_ack_truthful (c : ccase) : bool := ack_walk 0 (c_events c) (c_sends c) (c_tokens c).

Definition spec_ok (c : ccase) : bool :=
  spec_correlated c && spec_once_caller c && spec_once_callee c && spec_no_stall c && spec_ack_truthful c.

(* ---- premises of the theorems on this case: references pairwise distinct; non-trivial: some call got a reply while an
        older or foreign response was around ---- *)
Definition premise_refs (c : ccase) : bool := refs_distinctb (call_refs (c_events c)).
Definition premise_ok (c : ccase) : bool :=
  premise_refs c && existsb (fun t => o_kind (snd t) =? 0) (c_results c).
