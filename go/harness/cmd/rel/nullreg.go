package main

import "ergo.services/ergo/gen"

// nullRegistrar (as in cmd/netfail): the nodes of the harness never use the shared registrar on localhost:4499
// (other harnesses and tests run concurrently in this sandbox and the node that happens to serve
// that port may go away at any moment); node B is reached through a static route only.
type nullRegistrar struct{}

func (nullRegistrar) Register(node gen.NodeRegistrar, routes gen.RegisterRoutes) (gen.StaticRoutes, error) {
	return gen.StaticRoutes{}, nil
}
func (nullRegistrar) Resolver() gen.Resolver                                { return nullResolver{} }
func (nullRegistrar) RegisterProxy(to gen.Atom) error                       { return gen.ErrUnsupported }
func (nullRegistrar) UnregisterProxy(to gen.Atom) error                     { return gen.ErrUnsupported }
func (nullRegistrar) RegisterApplicationRoute(r gen.ApplicationRoute) error { return nil }
func (nullRegistrar) UnregisterApplicationRoute(name gen.Atom) error        { return nil }
func (nullRegistrar) Nodes() ([]gen.Atom, error)                            { return nil, gen.ErrUnsupported }
func (nullRegistrar) Config(items ...string) (map[string]any, error)        { return nil, gen.ErrUnsupported }
func (nullRegistrar) ConfigItem(item string) (any, error)                   { return nil, gen.ErrUnsupported }
func (nullRegistrar) Event() (gen.Event, error)                             { return gen.Event{}, gen.ErrUnsupported }
func (nullRegistrar) Info() gen.RegistrarInfo                               { return gen.RegistrarInfo{} }
func (nullRegistrar) Terminate()                                            {}
func (nullRegistrar) Version() gen.Version                                  { return gen.Version{Name: "null"} }

type nullResolver struct{}

func (nullResolver) Resolve(node gen.Atom) ([]gen.Route, error)           { return nil, gen.ErrNoRoute }
func (nullResolver) ResolveProxy(node gen.Atom) ([]gen.ProxyRoute, error) { return nil, gen.ErrNoRoute }
func (nullResolver) ResolveApplication(name gen.Atom) ([]gen.ApplicationRoute, error) {
	return nil, gen.ErrNoRoute
}
