package main

import (
	"errors"
	"fmt"
	"os"
	"strings"
	"sync/atomic"
	"time"

	"ergo.services/ergo/act"
	"ergo.services/ergo/gen"
	"ergo.services/ergo/lib"
	"ergo.services/ergo/node"
	"verifharness/util"
)

// ilv: EVERY interleaving of one link/monitor request with a remover of its target, on the real
// node, for every kind of local target and every way it goes away.
//
//   requester (trapping observer actor): Link*/Monitor* = 4 segments
//        existence load [+ state check] | Add{Link,Monitor} | re-check | Remove{Link,Monitor}
//   remover: 3 segments
//        everything up to the CleanupTarget of the target (the table delete, in the order of the
//        code) | CleanupTarget | the sends and the rest
//
// Both threads are parked at the segment borders by a wrapper around the real target manager
// (NodeOptions.TargetManager): before/after Add*, before Remove*, before/after CleanupTarget.  No
// change of /repo is needed for that; the only lib.VerifPoint used is "unreg.delete" (kill
// scenarios start with the owner's state word already Terminated, as in the model).  The
// controller releases the threads in the order of the schedule (true = requester), all 35
// interleavings of 4+3 segments; a choice naming a finished thread is a no-op.
//
// Observed per case: what the request returned, how many exit (link) / down (monitor) messages
// naming the target the requester handled, HasLink/HasMonitor afterwards, target gone.
// Coq: Rel/RaceGenCases.v (corr_ilv = model run under the same schedule, spec_ilv = outcome_ok).

type ilvCase struct {
	Mode  string   `json:"mode"` // ilv
	Kind  int      `json:"kind"` // 0-3 kill the owner: pid/name/alias/event; 4 node.UnregisterName 5 process.UnregisterName 6 DeleteAlias 7 UnregisterEvent 8 SpawnRegister whose ProcessInit fails
	Mon   bool     `json:"mon"`
	Sched []bool   `json:"sched"`
	Tags  []string `json:"tags,omitempty"`
}

var ilvKindName = []string{"kill-pid", "kill-name", "kill-alias", "kill-event", "node-unregister-name", "process-unregister-name", "delete-alias", "unregister-event", "spawn-init-fail"}

type ilvThread struct {
	gate chan struct{}
	evt  chan string
	done bool
	log  []string
}

func newIlvThread(body func()) *ilvThread {
	t := &ilvThread{gate: make(chan struct{}), evt: make(chan string)}
	go func() {
		<-t.gate
		body()
		t.evt <- "done"
	}()
	return t
}

// called by whatever goroutine executes the thread's code
func (t *ilvThread) park(label string) {
	t.evt <- label
	<-t.gate
}

// release the thread and wait until it parks again or ends
func (t *ilvThread) step() {
	if t.done {
		return
	}
	t.gate <- struct{}{}
	select {
	case ev := <-t.evt:
		t.log = append(t.log, ev)
		if ev == "done" {
			t.done = true
		}
	case <-time.After(10 * time.Second):
		fmt.Fprintln(os.Stderr, "harness stalled: ilv thread neither parked nor finished after", t.log)
		os.Exit(4)
	}
}

type ilvCtl struct {
	req     gen.PID
	target  any
	mon     bool
	R, T    *ilvThread
	drained chan struct{} // node target: closed when the remover's CleanupNode has been released
}

// the real target manager with parking points around the calls of the two threads
type ilvTM struct {
	gen.TargetManager
	ctl atomic.Pointer[ilvCtl]
}

func (w *ilvTM) mine(c gen.PID, t any, mon bool) *ilvCtl {
	ctl := w.ctl.Load()
	if ctl != nil && ctl.req == c && ctl.target == t && ctl.mon == mon {
		return ctl
	}
	return nil
}

func (w *ilvTM) AddLink(c gen.PID, t any) error {
	ctl := w.mine(c, t, false)
	if ctl == nil {
		return w.TargetManager.AddLink(c, t)
	}
	ctl.R.park("add")
	err := w.TargetManager.AddLink(c, t)
	if err == nil {
		ctl.R.park("recheck")
	}
	return err
}

func (w *ilvTM) AddMonitor(c gen.PID, t any) error {
	ctl := w.mine(c, t, true)
	if ctl == nil {
		return w.TargetManager.AddMonitor(c, t)
	}
	ctl.R.park("add")
	err := w.TargetManager.AddMonitor(c, t)
	if err == nil {
		ctl.R.park("recheck")
	}
	return err
}

func (w *ilvTM) RemoveLink(c gen.PID, t any) error {
	if ctl := w.mine(c, t, false); ctl != nil {
		ctl.R.park("undo")
	}
	return w.TargetManager.RemoveLink(c, t)
}

func (w *ilvTM) RemoveMonitor(c gen.PID, t any) error {
	if ctl := w.mine(c, t, true); ctl != nil {
		ctl.R.park("undo")
	}
	return w.TargetManager.RemoveMonitor(c, t)
}

func (w *ilvTM) CleanupTarget(t any) ([]gen.PID, []gen.PID) {
	ctl := w.ctl.Load()
	if ctl == nil || ctl.target != t {
		return w.TargetManager.CleanupTarget(t)
	}
	ctl.T.park("drain")
	l, m := w.TargetManager.CleanupTarget(t)
	ctl.T.park("drained")
	return l, m
}

// a process whose ProcessInit waits for the controller and then fails (kind 8): its registered
// name is in the node's table while it waits
type ilvFailing struct {
	act.Actor
}

var errIlvInit = errors.New("custom7")

func (f *ilvFailing) Init(args ...any) error {
	args[0].(*ilvCtl).T.park("init")
	return errIlvInit
}

// RouteNodeDown (node target, see ilvnode.go)
func (w *ilvTM) CleanupNode(name gen.Atom) (map[any][]gen.PID, map[any][]gen.PID) {
	ctl := w.ctl.Load()
	if ctl == nil || ctl.target != any(name) {
		return w.TargetManager.CleanupNode(name)
	}
	ctl.T.park("drain")
	l, m := w.TargetManager.CleanupNode(name)
	ctl.T.park("drained")
	close(ctl.drained)
	return l, m
}

// all interleavings of nr requester tokens (true) and nt remover tokens (false)
func interleavings(nr, nt int) [][]bool {
	if nr == 0 && nt == 0 {
		return [][]bool{{}}
	}
	var out [][]bool
	if nr > 0 {
		for _, tl := range interleavings(nr-1, nt) {
			out = append(out, append([]bool{true}, tl...))
		}
	}
	if nt > 0 {
		for _, tl := range interleavings(nr, nt-1) {
			out = append(out, append([]bool{false}, tl...))
		}
	}
	return out
}

func coqBools(l []bool) string {
	p := make([]string, len(l))
	for i, b := range l {
		p[i] = util.B(b)
	}
	return "[" + strings.Join(p, "; ") + "]"
}

func (e *raceEnv) ilv(o *util.Out, w *ilvTM, c ilvCase, serial int) {
	owner := e.actor()
	obs := e.actor()
	tk := c.Kind
	switch c.Kind {
	case 4, 5, 8:
		tk = 1
	case 6:
		tk = 2
	case 7:
		tk = 3
	}
	var t any
	if c.Kind == 8 {
		// the owner only spawns: the target is the name of the child being initialised
		t = gen.ProcessID{Name: gen.Atom(fmt.Sprintf("name%d", 1000+serial)), Node: e.nd.Name()}
	} else {
		t = e.makeTarget(owner, tk, serial)
	}
	ts := e.h.coqTarget(t)
	kill := c.Kind <= 3
	if kill {
		// the owner must be asleep so that Kill tears it down synchronously in the killer's goroutine
		for i := 0; i < 2000; i++ {
			if st, _ := e.nd.ProcessState(owner.pid); st == gen.ProcessStateSleep {
				break
			}
			time.Sleep(100 * time.Microsecond)
		}
	}
	ctl := &ilvCtl{req: obs.pid, target: t, mon: c.Mon}
	var reqErr, remErr error
	ctl.R = newIlvThread(func() {
		e.h.on(obs.idx, func(a *hactor) (string, error) {
			reqErr = request(a, t, c.Mon)
			return "", nil
		})
	})
	ctl.T = newIlvThread(func() {
		switch c.Kind {
		case 0, 1, 2, 3:
			e.kill(owner)
		case 4:
			_, remErr = e.nd.UnregisterName(t.(gen.ProcessID).Name)
		case 5:
			e.h.on(owner.idx, func(a *hactor) (string, error) { remErr = a.UnregisterName(); return "", nil })
		case 6:
			e.h.on(owner.idx, func(a *hactor) (string, error) { remErr = a.DeleteAlias(t.(gen.Alias)); return "", nil })
		case 7:
			e.h.on(owner.idx, func(a *hactor) (string, error) {
				remErr = a.UnregisterEvent(t.(gen.Event).Name)
				return "", nil
			})
		case 8:
			e.h.on(owner.idx, func(a *hactor) (string, error) {
				_, err := a.SpawnRegister(t.(gen.ProcessID).Name, func() gen.ProcessBehavior { return &ilvFailing{} }, gen.ProcessOptions{}, ctl)
				if err != errIlvInit {
					remErr = fmt.Errorf("SpawnRegister: %v", err)
				}
				return "", nil
			})
		}
	})
	w.ctl.Store(ctl)
	if c.Kind == 8 {
		// pre-phase: the name is registered, ProcessInit is running
		ctl.T.step()
		if ctl.T.done {
			e.h.fail("ilv: SpawnRegister did not reach ProcessInit")
		}
	}
	if kill {
		// pre-phase: the state word of the owner is Terminated, unregisterProcess has not started
		hook := func(label string, obj any) {
			if label != "unreg.delete" {
				return
			}
			if p, ok := obj.(gen.Process); ok && p.PID() == owner.pid {
				ctl.T.park("unreg")
			}
		}
		lib.VerifHook.Store(&hook)
		ctl.T.step()
		if ctl.T.done {
			e.h.fail("ilv: Kill did not reach unregisterProcess")
		}
	}
	for _, b := range c.Sched {
		if b {
			ctl.R.step()
		} else {
			ctl.T.step()
		}
	}
	// whatever is left runs to the end, requester first (Coq: ilv_run appends the same)
	for !ctl.R.done {
		ctl.R.step()
	}
	for !ctl.T.done {
		ctl.T.step()
	}
	w.ctl.Store(nil)
	lib.VerifHook.Store(nil)
	gone := remErr == nil
	if kill {
		select {
		case <-owner.terminated:
		case <-time.After(10 * time.Second):
			e.h.fail("ilv: owner did not terminate")
		}
	}
	e.h.quiesce()
	cnt := countNotes(obs, c.Mon, ts)
	var rel bool
	if c.Mon {
		rel = w.TargetManager.HasMonitor(obs.pid, t)
	} else {
		rel = w.TargetManager.HasLink(obs.pid, t)
	}
	kind := map[bool]string{false: "link", true: "monitor"}[c.Mon]
	c.Tags = []string{"link-vs-remover", "ilv-" + ilvKindName[c.Kind], kind}
	if reqErr == nil && cnt == 0 && rel {
		c.Tags = append(c.Tags, "request-lost")
	}
	o.Stats[fmt.Sprintf("ilv:%s:%s:%s", ilvKindName[c.Kind], kind, map[bool]string{true: "nil", false: "error"}[reqErr == nil])]++
	o.Stats["ilv:requester-segments:"+fmt.Sprint(len(ctl.R.log))]++
	o.Add(fmt.Sprintf("(mk_rcase %d %s %s (%s) %d %s %s)", c.Kind, util.B(c.Mon), coqBools(c.Sched), coqErr(reqErr), cnt, util.B(rel), util.B(gone)), c)
	e.cleanup()
}

func runIlv(n int, out string, replay string) {
	o := util.NewOut("rel.ilv")
	w := &ilvTM{TargetManager: gen.CreateDefaultTargetManager()}
	opt := gen.NodeOptions{TargetManager: w}
	opt.Log.DefaultLogger.Disable = true
	opt.Network.Mode = gen.NetworkModeDisabled
	nd, err := node.Start("verifilv@localhost", opt, gen.Version{})
	if err != nil {
		fmt.Fprintln(os.Stderr, "node start:", err)
		os.Exit(3)
	}
	defer nd.StopForce()
	e := &raceEnv{nd: nd, h: &hist{node: nd, tm: w}}
	var cases []ilvCase
	if replay != "" {
		var c ilvCase
		loadReplay(replay, &c)
		cases = append(cases, c)
	} else {
		// deterministic corpus: the exhaustive enumeration (9 removers x link/monitor x 35 schedules);
		// -n only bounds it from above (the order puts the explicit removers first)
		scheds := interleavings(4, 3)
		for _, kind := range []int{7, 4, 6, 5, 8, 3, 1, 2, 0} {
			for _, mon := range []bool{false, true} {
				for _, s := range scheds {
					cases = append(cases, ilvCase{Mode: "ilv", Kind: kind, Mon: mon, Sched: s})
				}
			}
		}
		if n > 0 && n < len(cases) {
			cases = cases[:n]
		}
	}
	for i, c := range cases {
		e.ilv(o, w, c, i)
	}
	o.Stats["runs"] = len(cases)
	o.Write(out)
}
