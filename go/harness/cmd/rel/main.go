// Harness for the Rel and Ids engines (properties C04, C06): drives the real target manager,
// a real node with trapping observer actors, the real MakeRef and un-hooked races, and
// records what they do as Coq terms (checked against coq/theories/Rel, Ids) and Go monitors.
package main

import (
	"flag"
	"fmt"
	"os"
)

func main() {
	if len(os.Args) < 2 {
		fmt.Fprintln(os.Stderr, "usage: rel <tm|hist|ref|race|ilv|ilvnode|initfail> [flags]")
		os.Exit(2)
	}
	fs := flag.NewFlagSet(os.Args[1], flag.ExitOnError)
	n := fs.Int("n", 300, "number of cases")
	out := fs.String("out", "", "output json")
	replay := fs.String("replay", "", "replay file (json case)")
	fs.Parse(os.Args[2:])
	switch os.Args[1] {
	case "tm":
		runTM(*n, *out, *replay)
	case "hist":
		runHist(*n, *out, *replay)
	case "ref":
		runRef(*n, *out, *replay)
	case "race":
		runRace(*n, *out, *replay)
	case "ilv":
		runIlv(*n, *out, *replay)
	case "initfail":
		runInitFail(*n, *out, *replay)
	case "ilvnode":
		runIlvNode(*n, *out, *replay)
	default:
		fmt.Fprintln(os.Stderr, "unknown subcommand")
		os.Exit(2)
	}
}
