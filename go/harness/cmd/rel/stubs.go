package main

func runHist(n int, out, replay string) {}
func runRef(n int, out, replay string)  {}
func runRace(n int, out, replay string) {}
