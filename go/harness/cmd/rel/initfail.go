package main

// Family `initfail` (C06): histories over the registered NAME of processes that are still inside
// ProcessInit. SpawnRegister claims the name before ProcessInit runs; while the harness holds the
// process inside Init anybody may take the name away (node.UnregisterName) and give it to another
// process (node.RegisterName, another SpawnRegister); then Init succeeds or fails. After every
// operation the harness reads the node's name table (VerifNameOwner, build tag verif) and the name
// field of every process in the process table (ProcessInfo): Rel/InitFail.v replays the history
// and must agree, and table and records must agree with each other (spec).

import (
	"errors"
	"fmt"
	"math/rand"
	"sort"
	"strings"
	"sync"
	"time"

	"ergo.services/ergo/act"
	"ergo.services/ergo/gen"
	"ergo.services/ergo/node"
	"verifharness/util"
)

type ifOp struct {
	Op   string `json:"op"`             // spawn | ok | fail | unreg | reg | term
	Name int    `json:"name,omitempty"` // 1..3
	P    int    `json:"p,omitempty"`    // index of the spawn operation (1-based) that created the process
}

type ifCase struct {
	Ops  []ifOp   `json:"ops"`
	Tags []string `json:"tags,omitempty"`
}

type ifCtl struct {
	entered chan gen.PID
	decide  chan error
}

type ifActor struct{ act.Actor }

func ifFactory() gen.ProcessBehavior { return &ifActor{} }

func (a *ifActor) Init(args ...any) error {
	ctl := args[0].(*ifCtl)
	ctl.entered <- a.PID()
	return <-ctl.decide
}

// ifWrap: the node's target manager, with a look at the name table at the moment unregisterProcess / a failing
// spawn drops the relations the process had requested (CleanupConsumer): that is after the exit / down messages about
// its pid have been sent, so a name the process held must have been released by then (a supervisor restarts its
// child under the same registered name as soon as it gets the exit message)
type ifWrap struct {
	gen.TargetManager
	mu    sync.Mutex
	nd    gen.Node
	names []gen.Atom
	late  []string
}

func (w *ifWrap) CleanupConsumer(pid gen.PID) ([]any, []any) {
	w.mu.Lock()
	if w.nd != nil {
		for _, n := range w.names {
			if owner, ok := node.VerifNameOwner(w.nd, n); ok && owner == pid {
				w.late = append(w.late, fmt.Sprintf("the termination of %s has been announced to its links / monitors while its registered name %s is still bound to it (a restart under the same name is refused)", pid, n))
			}
		}
	}
	w.mu.Unlock()
	return w.TargetManager.CleanupConsumer(pid)
}

type ifProc struct {
	pid   gen.PID
	ctl   *ifCtl
	done  chan error
	state int // 0 never existed (name taken), 1 inside Init, 2 live, 3 gone
}

func genIfCase(r *rand.Rand) ifCase {
	var c ifCase
	spawns := 0
	var st []int // harness' own idea of the states, to aim the operations
	n := 4 + r.Intn(8)
	for len(c.Ops) < n {
		pick := func(want int) int {
			var l []int
			for i, s := range st {
				if s == want {
					l = append(l, i+1)
				}
			}
			if len(l) == 0 {
				return 0
			}
			return l[r.Intn(len(l))]
		}
		switch k := r.Intn(10); {
		case k < 3 && spawns < 5:
			c.Ops = append(c.Ops, ifOp{Op: "spawn", Name: 1 + r.Intn(2)})
			spawns++
			st = append(st, 1) // may be "taken": the executor knows
		case k < 5:
			c.Ops = append(c.Ops, ifOp{Op: "unreg", Name: 1 + r.Intn(2)})
		case k < 6:
			if p := 1 + r.Intn(spawns+1); p <= spawns {
				c.Ops = append(c.Ops, ifOp{Op: "reg", Name: 1 + r.Intn(3), P: p})
			}
		case k < 8:
			if p := pick(1); p > 0 {
				if r.Intn(2) == 0 {
					c.Ops = append(c.Ops, ifOp{Op: "ok", P: p})
					st[p-1] = 2
				} else {
					c.Ops = append(c.Ops, ifOp{Op: "fail", P: p})
					st[p-1] = 3
				}
			}
		default:
			if p := pick(2); p > 0 && r.Intn(2) == 0 {
				c.Ops = append(c.Ops, ifOp{Op: "term", P: p})
				st[p-1] = 3
			}
		}
	}
	return c
}

func ifScripted() []ifCase {
	return []ifCase{
		// the name is taken away from the initialising process and claimed by a second spawn, then the first init fails
		{Ops: []ifOp{{Op: "spawn", Name: 1}, {Op: "unreg", Name: 1}, {Op: "spawn", Name: 1}, {Op: "ok", P: 2}, {Op: "fail", P: 1}}},
		{Ops: []ifOp{{Op: "spawn", Name: 1}, {Op: "unreg", Name: 1}, {Op: "spawn", Name: 1}, {Op: "fail", P: 1}, {Op: "ok", P: 2}}},
		// ... given to a live process by RegisterName
		{Ops: []ifOp{{Op: "spawn", Name: 2}, {Op: "ok", P: 1}, {Op: "unreg", Name: 2}, {Op: "spawn", Name: 1}, {Op: "unreg", Name: 1},
			{Op: "reg", Name: 1, P: 1}, {Op: "fail", P: 2}}},
		// the plain cases
		{Ops: []ifOp{{Op: "spawn", Name: 1}, {Op: "fail", P: 1}, {Op: "spawn", Name: 1}, {Op: "ok", P: 2}}},
		{Ops: []ifOp{{Op: "spawn", Name: 1}, {Op: "spawn", Name: 1}, {Op: "ok", P: 1}, {Op: "term", P: 1}, {Op: "spawn", Name: 1}, {Op: "fail", P: 3}}},
		{Ops: []ifOp{{Op: "spawn", Name: 1}, {Op: "unreg", Name: 1}, {Op: "fail", P: 1}, {Op: "unreg", Name: 1}}},
		{Ops: []ifOp{{Op: "spawn", Name: 1}, {Op: "unreg", Name: 1}, {Op: "ok", P: 1}, {Op: "reg", Name: 2, P: 1}, {Op: "term", P: 1}}},
	}
}

func runInitFail(n int, out string, replay string) {
	o := util.NewOut("rel.initfail")
	wrap := &ifWrap{TargetManager: gen.CreateDefaultTargetManager()}
	opt := gen.NodeOptions{TargetManager: wrap}
	opt.Log.DefaultLogger.Disable = true
	opt.Network.Mode = gen.NetworkModeDisabled
	nd, err := node.Start("verifinitfail@localhost", opt, gen.Version{})
	if err != nil {
		panic(err)
	}
	defer nd.StopForce()
	wrap.mu.Lock()
	wrap.nd = nd
	wrap.mu.Unlock()
	r := util.Rng(77)
	var cases []ifCase
	if replay != "" {
		var c ifCase
		loadReplay(replay, &c)
		cases = append(cases, c)
	} else {
		cases = ifScripted()
		for len(cases) < n {
			cases = append(cases, genIfCase(r))
		}
	}
	for ci := range cases {
		c := &cases[ci]
		c.Tags = []string{}
		names := map[int]gen.Atom{}
		for k := 1; k <= 3; k++ {
			names[k] = gen.Atom(fmt.Sprintf("ifn%d_%d", ci, k))
		}
		wrap.mu.Lock()
		wrap.names = []gen.Atom{names[1], names[2], names[3]}
		wrap.late = nil
		wrap.mu.Unlock()
		var procs []*ifProc
		mpid := func(i int) int { return 1000 + i } // model pid of the i-th spawn operation
		byPid := func(pid gen.PID) int {
			for i, p := range procs {
				if p.state != 0 && p.pid == pid {
					return mpid(i + 1)
				}
			}
			return 999999
		}
		var coqOps, coqObs []string
		var fails []string
		observe := func() {
			var tab, recs, live []string
			for k := 1; k <= 3; k++ {
				if pid, ok := node.VerifNameOwner(nd, names[k]); ok {
					tab = append(tab, fmt.Sprintf("(%d, %d)", k, byPid(pid)))
				}
			}
			for i, p := range procs {
				if p.state == 0 {
					continue
				}
				info, err := nd.ProcessInfo(p.pid)
				if err != nil {
					continue
				}
				live = append(live, fmt.Sprint(mpid(i+1)))
				if info.Name != "" {
					k := 99
					for kk, a := range names {
						if a == info.Name {
							k = kk
						}
					}
					recs = append(recs, fmt.Sprintf("(%d, %d)", mpid(i+1), k))
				}
			}
			sort.Strings(tab)
			coqObs = append(coqObs, fmt.Sprintf("(%s, %s, %s)", util.List(tab), util.List(recs), util.List(live)))
		}
		for _, op := range c.Ops {
			o.Stats["op:"+op.Op]++
			switch op.Op {
			case "spawn":
				p := &ifProc{ctl: &ifCtl{make(chan gen.PID, 1), make(chan error, 1)}, done: make(chan error, 1)}
				procs = append(procs, p)
				go func(name gen.Atom) {
					_, err := nd.SpawnRegister(name, ifFactory, gen.ProcessOptions{}, p.ctl)
					p.done <- err
				}(names[op.Name])
				select {
				case p.pid = <-p.ctl.entered:
					p.state = 1
				case err := <-p.done:
					p.state = 0
					if err != gen.ErrTaken {
						fails = append(fails, fmt.Sprintf("SpawnRegister returned %v before ProcessInit", err))
					}
					o.Stats["spawn:taken"]++
				case <-time.After(5 * time.Second):
					panic("initfail: spawn hangs")
				}
				coqOps = append(coqOps, fmt.Sprintf("ISpawn %d", op.Name))
			case "ok", "fail":
				p := procs[op.P-1]
				if p.state == 1 {
					if op.Op == "ok" {
						p.ctl.decide <- nil
						p.state = 2
					} else {
						p.ctl.decide <- errors.New("init refused")
						p.state = 3
					}
					select {
					case <-p.done:
					case <-time.After(5 * time.Second):
						panic("initfail: spawn does not return")
					}
				}
				if op.Op == "ok" {
					coqOps = append(coqOps, fmt.Sprintf("IInitOk %d", mpid(op.P)))
				} else {
					coqOps = append(coqOps, fmt.Sprintf("IInitFail %d", mpid(op.P)))
				}
			case "unreg":
				nd.UnregisterName(names[op.Name])
				coqOps = append(coqOps, fmt.Sprintf("IUnreg %d", op.Name))
			case "reg":
				if op.P <= len(procs) && procs[op.P-1].state != 0 {
					nd.RegisterName(names[op.Name], procs[op.P-1].pid)
				}
				coqOps = append(coqOps, fmt.Sprintf("IReg %d %d", op.Name, mpid(op.P)))
			case "term":
				p := procs[op.P-1]
				if p.state == 2 {
					nd.Kill(p.pid)
					dl := time.Now().Add(5 * time.Second)
					for {
						if _, err := nd.ProcessInfo(p.pid); err != nil {
							break
						}
						if time.Now().After(dl) {
							panic("initfail: killed process stays")
						}
						time.Sleep(200 * time.Microsecond)
					}
					// unregisterProcess leaves the process table first and releases the name next: give it the time
					for dl = time.Now().Add(100 * time.Millisecond); time.Now().Before(dl); time.Sleep(100 * time.Microsecond) {
						bound := false
						for k := 1; k <= 3; k++ {
							if owner, ok := node.VerifNameOwner(nd, names[k]); ok && owner == p.pid {
								bound = true
							}
						}
						if !bound {
							break
						}
					}
					p.state = 3
				}
				coqOps = append(coqOps, fmt.Sprintf("ITerm %d", mpid(op.P)))
			}
			observe()
		}
		// direct monitor: a process in the process table that shows a name must be the one the name resolves to
		for i, p := range procs {
			if p.state != 2 {
				continue
			}
			if info, err := nd.ProcessInfo(p.pid); err == nil && info.Name != "" {
				if owner, ok := node.VerifNameOwner(nd, info.Name); !ok || owner != p.pid {
					fails = append(fails, fmt.Sprintf("live process %d shows the registered name %s but the name table %s",
						mpid(i+1), info.Name, map[bool]string{true: "binds it to another process", false: "does not know it"}[ok]))
				}
			}
		}
		wrap.mu.Lock()
		fails = append(fails, wrap.late...)
		wrap.mu.Unlock()
		// clean up: let every held Init fail, kill the rest, free the names
		for _, p := range procs {
			switch p.state {
			case 1:
				p.ctl.decide <- errors.New("cleanup")
				<-p.done
			case 2:
				nd.Kill(p.pid)
			}
		}
		for k := 1; k <= 3; k++ {
			nd.UnregisterName(names[k])
		}
		idx := o.Add(fmt.Sprintf("mk_icase [%s] [%s]", strings.Join(coqOps, "; "), strings.Join(coqObs, "; ")), c)
		for _, f := range fails {
			o.Monitor = append(o.Monitor, util.MonitorFail{Case: idx, What: f})
		}
	}
	if out != "" {
		o.Write(out)
	}
}
