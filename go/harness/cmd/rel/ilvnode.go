package main

import (
	"fmt"
	"os"
	"strings"
	"time"

	"ergo.services/ergo/gen"
	"ergo.services/ergo/net/handshake"
	"ergo.services/ergo/node"
	"verifharness/util"
)

// ilvnode: every interleaving of LinkNode / MonitorNode with the loss of the connection to that
// node, on two real nodes A and B in this process (A dials B through a static route, which is
// removed once the connection stands so that a lookup after the loss fails instead of re-dialing).
//
//   requester (observer actor on A): process.LinkNode / MonitorNode
//        connection lookup (network.GetNode) | Add{Link,Monitor} | re-check of the connection
//        table | Remove{Link,Monitor}
//   remover: network.unregisterConnection on A (run by the serve goroutine of the connection after
//        rn.Disconnect()):  connections.Delete | CleanupNode | the sends
//
// Parking points: the same wrapper of A's target manager as in ilv.go (before/after Add*, before
// Remove*, before/after CleanupNode).  Coq: Rel/NodeRace*.v.

type ilvNodeCase struct {
	Mode  string   `json:"mode"` // ilvnode
	Mon   bool     `json:"mon"`
	Sched []bool   `json:"sched"`
	Tags  []string `json:"tags,omitempty"`
}

const ilvCookie = "ilvnode-cookie"

func ilvNodeOptions(host string) gen.NodeOptions {
	o := gen.NodeOptions{}
	o.Network.Acceptors = []gen.AcceptorOptions{{Host: host}}
	o.Log.DefaultLogger.Disable = true
	o.Network.Cookie = ilvCookie
	o.Network.Registrar = nullRegistrar{}
	o.Network.Handshake = handshake.Create(handshake.Options{PoolSize: 1})
	return o
}

func waitFor(d time.Duration, f func() bool) bool {
	deadline := time.Now().Add(d)
	for time.Now().Before(deadline) {
		if f() {
			return true
		}
		time.Sleep(time.Millisecond)
	}
	return f()
}

type ilvNodeEnv struct {
	e     *raceEnv
	w     *ilvTM
	a, b  gen.Node
	host  string
	route gen.NetworkRoute
}

func (x *ilvNodeEnv) connected() bool {
	_, err := x.a.Network().Node(x.b.Name())
	return err == nil
}

func (x *ilvNodeEnv) connect() {
	bname := x.b.Name()
	// B must have forgotten the previous connection
	if !waitFor(5*time.Second, func() bool { _, err := x.b.Network().Node(x.a.Name()); return err != nil }) {
		x.e.h.fail("ilvnode: B still holds the previous connection")
	}
	x.a.Network().RemoveRoute(string(bname))
	if err := x.a.Network().AddRoute(string(bname), x.route, 100); err != nil {
		x.e.h.fail("ilvnode: AddRoute: " + err.Error())
	}
	if _, err := x.a.Network().GetNode(bname); err != nil {
		x.e.h.fail("ilvnode: connect: " + err.Error())
	}
	if !waitFor(5*time.Second, func() bool { _, err := x.b.Network().Node(x.a.Name()); return err == nil }) {
		x.e.h.fail("ilvnode: B did not register the connection")
	}
	time.Sleep(10 * time.Millisecond)
	// from now on a lookup that finds no connection fails (no route, null registrar)
	x.a.Network().RemoveRoute(string(bname))
}

func (x *ilvNodeEnv) run(o *util.Out, c ilvNodeCase) {
	e := x.e
	bname := x.b.Name()
	x.connect()
	obs := e.actor()
	ts := "(TNode " + string(bname) + ")"
	ctl := &ilvCtl{req: obs.pid, target: any(bname), mon: c.Mon, drained: make(chan struct{})}
	var reqErr error
	ctl.R = newIlvThread(func() {
		e.h.on(obs.idx, func(a *hactor) (string, error) {
			if c.Mon {
				reqErr = a.MonitorNode(bname)
			} else {
				reqErr = a.LinkNode(bname)
			}
			return "", nil
		})
	})
	ctl.T = newIlvThread(func() {
		rn, err := x.a.Network().Node(bname)
		if err != nil {
			e.h.fail("ilvnode: no connection to drop")
		}
		rn.Disconnect()
		// the serve goroutine of the connection runs unregisterConnection and parks in CleanupNode
		select {
		case <-ctl.drained:
		case <-time.After(10 * time.Second):
			e.h.fail("ilvnode: unregisterConnection did not reach/leave CleanupNode")
		}
		// third segment: the sends and (in the order 'drain, delete') the table delete
		waitFor(2*time.Second, func() bool { return !x.connected() })
	})
	x.w.ctl.Store(ctl)
	for _, b := range c.Sched {
		if b {
			ctl.R.step()
		} else {
			ctl.T.step()
		}
	}
	for !ctl.R.done {
		ctl.R.step()
	}
	for !ctl.T.done {
		ctl.T.step()
	}
	x.w.ctl.Store(nil)
	gone := !x.connected()
	// the sends of RouteNodeDown run in the serve goroutine after the last release
	cnt := 0
	for try := 0; try < 60; try++ {
		time.Sleep(2 * time.Millisecond)
		e.h.quiesce()
		cnt = countNotes(obs, c.Mon, ts)
		if !(reqErr == nil && cnt == 0) {
			break
		}
	}
	var rel bool
	if c.Mon {
		rel = x.w.TargetManager.HasMonitor(obs.pid, bname)
	} else {
		rel = x.w.TargetManager.HasLink(obs.pid, bname)
	}
	kind := map[bool]string{false: "link", true: "monitor"}[c.Mon]
	c.Tags = []string{"link-vs-remover", "ilv-node-down", kind}
	if reqErr == nil && cnt == 0 && rel {
		c.Tags = append(c.Tags, "request-lost")
	}
	res := coqErr(reqErr)
	if reqErr == gen.ErrNoConnection || reqErr == gen.ErrNoRoute {
		res = "RErr e_noconn"
	}
	o.Stats[fmt.Sprintf("ilvnode:%s:%s", kind, map[bool]string{true: "nil", false: "error"}[reqErr == nil])]++
	o.Stats["ilvnode:requester-segments:"+fmt.Sprint(len(ctl.R.log))]++
	o.Add(fmt.Sprintf("(mk_ncase %s %s (%s) %d %s %s)", util.B(c.Mon), coqBools(c.Sched), res, cnt, util.B(rel), util.B(gone)), c)
	e.cleanup()
}

func runIlvNode(n int, out string, replay string) {
	o := util.NewOut("rel.ilvnode")
	w := &ilvTM{TargetManager: gen.CreateDefaultTargetManager()}
	host := fmt.Sprintf("127.%d.77.%d", 1+os.Getpid()%200, 1+(os.Getpid()/200)%250)
	optA := ilvNodeOptions(host)
	optA.TargetManager = w
	a, err := node.Start(gen.Atom(fmt.Sprintf("ilva%d@localhost", os.Getpid())), optA, gen.Version{})
	if err != nil {
		fmt.Fprintln(os.Stderr, "node start:", err)
		os.Exit(3)
	}
	defer a.StopForce()
	b, err := node.Start(gen.Atom(fmt.Sprintf("ilvb%d@localhost", os.Getpid())), ilvNodeOptions(host), gen.Version{})
	if err != nil {
		fmt.Fprintln(os.Stderr, "node start:", err)
		os.Exit(3)
	}
	defer b.StopForce()
	accs, err := b.Network().Acceptors()
	if err != nil || len(accs) == 0 {
		fmt.Fprintln(os.Stderr, "no acceptor on B")
		os.Exit(3)
	}
	info := accs[0].Info()
	var port uint16
	fmt.Sscanf(info.Interface[strings.LastIndex(info.Interface, ":")+1:], "%d", &port)
	x := &ilvNodeEnv{e: &raceEnv{nd: a, h: &hist{node: a, tm: w}}, w: w, a: a, b: b, host: host,
		route: gen.NetworkRoute{
			Route:  gen.Route{Host: host, Port: port, HandshakeVersion: info.HandshakeVersion, ProtoVersion: info.ProtoVersion},
			Cookie: ilvCookie,
		}}
	var cases []ilvNodeCase
	if replay != "" {
		var c ilvNodeCase
		loadReplay(replay, &c)
		cases = append(cases, c)
	} else {
		for _, mon := range []bool{true, false} {
			for _, s := range interleavings(4, 3) {
				cases = append(cases, ilvNodeCase{Mode: "ilvnode", Mon: mon, Sched: s})
			}
		}
		if n > 0 && n < len(cases) {
			cases = cases[:n]
		}
	}
	for _, c := range cases {
		x.run(o, c)
	}
	o.Stats["runs"] = len(cases)
	o.Write(out)
}
