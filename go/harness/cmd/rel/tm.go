package main

import (
	"encoding/json"
	"fmt"
	"math/rand"
	"os"
	"sort"
	"strings"

	"ergo.services/ergo/gen"
	"verifharness/util"
)

// ---- identifiers as small numbers (node 1 = the local node) ----

type mPid struct {
	Node int    `json:"node"`
	ID   uint64 `json:"id"`
}

// target kinds: 0 pid, 1 name, 2 alias, 3 event, 4 node
type mTarget struct {
	Kind int    `json:"kind"`
	Node int    `json:"node"`
	A    uint64 `json:"a"` // pid id / name / alias id / event name
}

func nodeName(i int) gen.Atom { return gen.Atom(fmt.Sprintf("n%d@localhost", i)) }
func atomName(i uint64) gen.Atom { return gen.Atom(fmt.Sprintf("name%d", i)) }

func (p mPid) gen() gen.PID { return gen.PID{Node: nodeName(p.Node), ID: p.ID, Creation: 7} }
func (p mPid) coq() string  { return fmt.Sprintf("(mkpid %d %d)", p.Node, p.ID) }

func (t mTarget) gen() any {
	switch t.Kind {
	case 0:
		return gen.PID{Node: nodeName(t.Node), ID: t.A, Creation: 7}
	case 1:
		return gen.ProcessID{Name: atomName(t.A), Node: nodeName(t.Node)}
	case 2:
		return gen.Alias{Node: nodeName(t.Node), ID: [3]uint64{t.A, 0, 0}, Creation: 7}
	case 3:
		return gen.Event{Name: atomName(t.A), Node: nodeName(t.Node)}
	default:
		return nodeName(t.Node)
	}
}
func (t mTarget) coq() string {
	switch t.Kind {
	case 0:
		return fmt.Sprintf("(TPid (mkpid %d %d))", t.Node, t.A)
	case 1:
		return fmt.Sprintf("(TName %d %d)", t.A, t.Node)
	case 2:
		return fmt.Sprintf("(TAlias %d %d)", t.Node, t.A)
	case 3:
		return fmt.Sprintf("(TEvent %d %d)", t.A, t.Node)
	default:
		return fmt.Sprintf("(TNode %d)", t.Node)
	}
}

func nodeIdx(a gen.Atom) int {
	var i int
	fmt.Sscanf(string(a), "n%d@localhost", &i)
	return i
}
func atomIdx(a gen.Atom) uint64 {
	var i uint64
	fmt.Sscanf(string(a), "name%d", &i)
	return i
}
func pidBack(p gen.PID) mPid { return mPid{nodeIdx(p.Node), p.ID} }
func targetBack(t any) mTarget {
	switch v := t.(type) {
	case gen.PID:
		return mTarget{0, nodeIdx(v.Node), v.ID}
	case gen.ProcessID:
		return mTarget{1, nodeIdx(v.Node), atomIdx(v.Name)}
	case gen.Alias:
		return mTarget{2, nodeIdx(v.Node), v.ID[0]}
	case gen.Event:
		return mTarget{3, nodeIdx(v.Node), atomIdx(v.Name)}
	case gen.Atom:
		return mTarget{4, nodeIdx(v), 0}
	}
	panic(fmt.Sprintf("unknown target %#v", t))
}

func coqPids(l []gen.PID) string {
	s := make([]string, len(l))
	for i, p := range l {
		s[i] = pidBack(p).coq()
	}
	sort.Strings(s)
	return util.List(s)
}
func coqTargets(l []any) string {
	s := make([]string, len(l))
	for i, t := range l {
		s[i] = targetBack(t).coq()
	}
	sort.Strings(s)
	return util.List(s)
}
func coqPairs(m map[any][]gen.PID) string {
	var s []string
	for t, l := range m {
		for _, p := range l {
			s = append(s, fmt.Sprintf("(%s, %s)", targetBack(t).coq(), pidBack(p).coq()))
		}
	}
	sort.Strings(s)
	return util.List(s)
}

// ---- one target-manager case: a sequence of method calls ----

type tmOp struct {
	Op  string  `json:"op"` // add remove has cleanc cleant cleann targets consumers
	C   mPid    `json:"c"`
	T   mTarget `json:"t"`
	Mon bool    `json:"mon"`
	N   int     `json:"n"`
}
type tmCase struct {
	Ops  []tmOp   `json:"ops"`
	Tags []string `json:"tags,omitempty"`
}

func genTMCase(r *rand.Rand) tmCase {
	nodes := 1 + r.Intn(3)
	npid := 2 + r.Intn(4)
	ntgt := 1 + r.Intn(4)
	rp := func() mPid { return mPid{1 + r.Intn(nodes), uint64(1 + r.Intn(npid))} }
	rt := func() mTarget {
		k := r.Intn(9)
		if k >= 5 {
			k = 0
		}
		t := mTarget{Kind: k, Node: 1 + r.Intn(nodes), A: uint64(1 + r.Intn(ntgt))}
		if k == 0 {
			t.A = uint64(1 + r.Intn(npid))
		}
		if k == 4 {
			t.A = 0
		}
		return t
	}
	n := 5 + r.Intn(60)
	var c tmCase
	var added []tmOp
	for i := 0; i < n; i++ {
		o := tmOp{C: rp(), T: rt(), Mon: r.Intn(2) == 0, N: 1 + r.Intn(nodes)}
		if len(added) > 0 && r.Intn(10) < 7 {
			// aim at a relation that was added before
			a := added[r.Intn(len(added))]
			o.C, o.T = a.C, a.T
			if r.Intn(4) > 0 {
				o.Mon = a.Mon
			}
			if r.Intn(2) == 0 {
				o.N = a.T.Node
			} else {
				o.N = a.C.Node
			}
		}
		switch x := r.Intn(100); {
		case x < 45:
			o.Op = "add"
			if r.Intn(3) > 0 {
				o.C, o.T, o.Mon = rp(), rt(), r.Intn(2) == 0
			}
			added = append(added, o)
		case x < 57:
			o.Op = "remove"
		case x < 63:
			o.Op = "has"
		case x < 70:
			o.Op = "cleanc"
		case x < 82:
			o.Op = "cleant"
		case x < 88:
			o.Op = "cleann"
		case x < 94:
			o.Op = "targets"
		default:
			o.Op = "consumers"
		}
		c.Ops = append(c.Ops, o)
	}
	return c
}

func execTMCase(c tmCase, stats map[string]int) string {
	tm := gen.CreateDefaultTargetManager()
	var steps []string
	for _, o := range c.Ops {
		key := fmt.Sprintf("(mkkey %s %s %s)", o.C.coq(), o.T.coq(), util.B(o.Mon))
		var s string
		switch o.Op {
		case "add":
			var err error
			if o.Mon {
				err = tm.AddMonitor(o.C.gen(), o.T.gen())
			} else {
				err = tm.AddLink(o.C.gen(), o.T.gen())
			}
			if err != nil && err != gen.ErrTargetExist {
				panic(err)
			}
			s = fmt.Sprintf("(TmAdd %s, XBool %s)", key, util.B(err == nil))
		case "remove":
			var err error
			if o.Mon {
				err = tm.RemoveMonitor(o.C.gen(), o.T.gen())
			} else {
				err = tm.RemoveLink(o.C.gen(), o.T.gen())
			}
			if err != nil && err != gen.ErrTargetUnknown {
				panic(err)
			}
			s = fmt.Sprintf("(TmRemove %s, XBool %s)", key, util.B(err == nil))
		case "has":
			var b bool
			if o.Mon {
				b = tm.HasMonitor(o.C.gen(), o.T.gen())
			} else {
				b = tm.HasLink(o.C.gen(), o.T.gen())
			}
			s = fmt.Sprintf("(TmHas %s, XBool %s)", key, util.B(b))
		case "cleanc":
			l, m := tm.CleanupConsumer(o.C.gen())
			s = fmt.Sprintf("(TmCleanConsumer %s, XTargets %s %s)", o.C.coq(), coqTargets(l), coqTargets(m))
			stats["cleanc-reported"] += len(l) + len(m)
		case "cleant":
			l, m := tm.CleanupTarget(o.T.gen())
			s = fmt.Sprintf("(TmCleanTarget %s, XPids %s %s)", o.T.coq(), coqPids(l), coqPids(m))
			stats["cleant-reported"] += len(l) + len(m)
		case "cleann":
			l, m := tm.CleanupNode(nodeName(o.N))
			s = fmt.Sprintf("(TmCleanNode %d, XPairs %s %s)", o.N, coqPairs(l), coqPairs(m))
			for _, x := range l {
				stats["cleann-reported"] += len(x)
			}
			for _, x := range m {
				stats["cleann-reported"] += len(x)
			}
		case "targets":
			l, m := tm.GetTargetsForConsumer(o.C.gen())
			s = fmt.Sprintf("(TmTargetsFor %s, XTargets %s %s)", o.C.coq(), coqTargets(l), coqTargets(m))
		case "consumers":
			l := tm.GetConsumersForTarget(o.T.gen())
			s = fmt.Sprintf("(TmConsumersFor %s, XPidList %s)", o.T.coq(), coqPids(l))
		}
		stats["op:"+o.Op]++
		steps = append(steps, s)
	}
	return "mk_tmcase [" + strings.Join(steps, "; ") + "]"
}

func loadReplay(replay string, into any) {
	b, err := os.ReadFile(replay)
	if err != nil {
		panic(err)
	}
	var rp struct {
		Case json.RawMessage `json:"case"`
	}
	if err := json.Unmarshal(b, &rp); err != nil {
		panic(err)
	}
	if err := json.Unmarshal(rp.Case, into); err != nil {
		panic(err)
	}
}

func runTM(n int, out string, replay string) {
	o := util.NewOut("rel.tm")
	var cases []tmCase
	if replay != "" {
		var c tmCase
		loadReplay(replay, &c)
		cases = append(cases, c)
	} else {
		r := util.Rng(41)
		for i := 0; i < n; i++ {
			cases = append(cases, genTMCase(r))
		}
	}
	for _, c := range cases {
		o.Add(execTMCase(c, o.Stats), c)
		o.Stats["ops"] += len(c.Ops)
	}
	o.Write(out)
}
