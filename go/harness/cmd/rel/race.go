package main

import (
	"fmt"
	"math/rand"
	"os"
	"sync"
	"sync/atomic"
	"time"

	"ergo.services/ergo/gen"
	"ergo.services/ergo/lib"
	"ergo.services/ergo/node"
	"verifharness/util"
)

// Races, judged by timing-independent end conditions (Go monitor only, no Coq cases):
//
//  hooked   : the exact schedule [existence load; target's delete+drain; relation insert] is
//             forced through the lib.VerifPoint("route.add") yield point: when the requester
//             reaches it, the target's owner is killed (or the name unregistered) to completion.
//  stress   : un-hooked; observers request a link/monitor while another goroutine kills the owner.
//  regname  : many goroutines call node.RegisterName for the same name / racing with termination.
//
// Condition for a request on target t by observer o, once everything is quiescent and t is gone:
//   returned nil   => o handled exactly one exit (link) / down (monitor) naming t
//   returned error => o handled none.

type raceCase struct {
	Mode   string   `json:"mode"`   // hooked | stress | regname | regterm
	TK     int      `json:"tk"`     // 0 pid 1 name 2 alias 3 event
	Mon    bool     `json:"mon"`
	Unreg  bool     `json:"unreg"`  // name target: UnregisterName instead of killing the owner
	Spin   []int    `json:"spin"`   // stress: busy-loop lengths (observers..., killer)
	Tags   []string `json:"tags,omitempty"`
}

var spinSink uint64

func spin(n int) {
	var x uint64
	for i := 0; i < n; i++ {
		x += uint64(i)
	}
	atomic.AddUint64(&spinSink, x)
}

type raceEnv struct {
	nd gen.Node
	h  *hist
}

// spawn a fresh actor (root)
func (e *raceEnv) actor() *actorRec {
	rec := e.h.newRec()
	if _, err := e.nd.Spawn(hfactory, gen.ProcessOptions{}, e.h, rec); err != nil {
		e.h.fail("spawn: " + err.Error())
	}
	e.h.recs = append(e.h.recs, rec)
	return rec
}

// build the target of the given kind owned by owner; returns the gen target
func (e *raceEnv) makeTarget(owner *actorRec, tk int, serial int) any {
	idx := owner.idx
	switch tk {
	case 0:
		return owner.pid
	case 1:
		name := gen.Atom(fmt.Sprintf("name%d", 1000+serial))
		e.h.on(idx, func(a *hactor) (string, error) { return coqErr(a.RegisterName(name)), nil })
		return gen.ProcessID{Name: name, Node: e.nd.Name()}
	case 2:
		var al gen.Alias
		e.h.on(idx, func(a *hactor) (string, error) {
			x, err := a.CreateAlias()
			al = x
			return coqErr(err), nil
		})
		e.h.aliases = append(e.h.aliases, al)
		return al
	default:
		name := gen.Atom(fmt.Sprintf("name%d", 1000+serial))
		e.h.on(idx, func(a *hactor) (string, error) {
			_, err := a.RegisterEvent(name, gen.EventOptions{})
			return coqErr(err), nil
		})
		return gen.Event{Name: name, Node: e.nd.Name()}
	}
}

func request(a *hactor, t any, mon bool) error {
	if ev, ok := t.(gen.Event); ok {
		if mon {
			_, err := a.MonitorEvent(ev)
			return err
		}
		_, err := a.LinkEvent(ev)
		return err
	}
	if mon {
		return a.Monitor(t)
	}
	return a.Link(t)
}

// number of notifications of the given kind naming target ts in the observer's record
func countNotes(rec *actorRec, down bool, ts string) int {
	rec.mu.Lock()
	defer rec.mu.Unlock()
	n := 0
	for _, x := range rec.notes {
		if x.down == down && x.target == ts {
			n++
		}
	}
	return n
}

func (e *raceEnv) kill(rec *actorRec) {
	rec.mu.Lock()
	rec.commanded = true
	rec.mu.Unlock()
	e.nd.Kill(rec.pid)
}

func (e *raceEnv) judge(o *util.Out, c raceCase, obs *actorRec, ts string, err error) {
	cnt := countNotes(obs, c.Mon, ts)
	kind := map[bool]string{false: "link", true: "monitor"}[c.Mon]
	tkn := []string{"pid", "name", "alias", "event"}[c.TK]
	o.Stats[fmt.Sprintf("%s:%s:%s:%s", c.Mode, kind, tkn, map[bool]string{true: "nil", false: "error"}[err == nil])]++
	bad := ""
	if err == nil && cnt != 1 {
		bad = fmt.Sprintf("%s on %s target returned nil while the target was going away, but the requester handled %d notifications (want exactly 1)", kind, tkn, cnt)
	}
	if err != nil && cnt != 0 {
		bad = fmt.Sprintf("%s on %s target returned %v but the requester handled %d notifications (want 0)", kind, tkn, err, cnt)
	}
	if bad != "" {
		c.Tags = append(c.Tags, "link-vs-terminate", "race-"+c.Mode, "target-"+tkn)
		idx := o.Add("", c)
		o.Monitor = append(o.Monitor, util.MonitorFail{Case: idx, What: bad})
	}
}

func (e *raceEnv) cleanup() {
	for _, rec := range e.h.recs {
		if !rec.isTerminated() {
			e.kill(rec)
		}
	}
	for _, rec := range e.h.recs {
		select {
		case <-rec.terminated:
		case <-time.After(10 * time.Second):
			e.h.fail("cleanup")
		}
	}
	e.h.recs = nil
	e.h.aliases = nil
}

func (e *raceEnv) hooked(o *util.Out, c raceCase, serial int) {
	owner := e.actor()
	obs := e.actor()
	t := e.makeTarget(owner, c.TK, serial)
	ts := e.h.coqTarget(t)
	// the owner must be asleep so that Kill tears it down synchronously inside the hook
	for i := 0; i < 2000; i++ {
		if st, _ := e.nd.ProcessState(owner.pid); st == gen.ProcessStateSleep {
			break
		}
		time.Sleep(100 * time.Microsecond)
	}
	var armed atomic.Bool
	armed.Store(true)
	hook := func(label string, obj any) {
		if label != "route.add" {
			return
		}
		if p, ok := obj.(gen.PID); !ok || p != obs.pid {
			return
		}
		if armed.CompareAndSwap(true, false) == false {
			return
		}
		// the requester passed the existence check; now the target goes away completely
		if c.TK == 1 && c.Unreg {
			e.nd.UnregisterName(t.(gen.ProcessID).Name)
			return
		}
		e.kill(owner)
		// Kill of a sleeping process runs unregisterProcess in this goroutine
	}
	lib.VerifHook.Store(&hook)
	var err error
	e.h.on(obs.idx, func(a *hactor) (string, error) {
		err = request(a, t, c.Mon)
		return "", nil
	})
	lib.VerifHook.Store(nil)
	if !(c.TK == 1 && c.Unreg) {
		select {
		case <-owner.terminated:
		case <-time.After(10 * time.Second):
			e.h.fail("hooked: owner did not terminate")
		}
	}
	e.h.quiesce()
	e.judge(o, c, obs, ts, err)
	e.cleanup()
}

func (e *raceEnv) stress(o *util.Out, c raceCase, serial int) {
	const K = 3
	owner := e.actor()
	var obs []*actorRec
	for i := 0; i < K; i++ {
		obs = append(obs, e.actor())
	}
	t := e.makeTarget(owner, c.TK, serial)
	ts := e.h.coqTarget(t)
	var start atomic.Bool
	errs := make([]error, K)
	var wg sync.WaitGroup
	for i := 0; i < K; i++ {
		i := i
		wg.Add(1)
		go func() {
			defer wg.Done()
			e.h.on(obs[i].idx, func(a *hactor) (string, error) {
				for start.Load() == false {
				}
				spin(c.Spin[i])
				errs[i] = request(a, t, c.Mon)
				return "", nil
			})
		}()
	}
	wg.Add(1)
	go func() {
		defer wg.Done()
		time.Sleep(200 * time.Microsecond) // let the observers reach their spin loop
		start.Store(true)
		spin(c.Spin[K])
		if c.TK == 1 && c.Unreg {
			e.nd.UnregisterName(t.(gen.ProcessID).Name)
		} else {
			e.kill(owner)
		}
	}()
	wg.Wait()
	if !(c.TK == 1 && c.Unreg) {
		select {
		case <-owner.terminated:
		case <-time.After(10 * time.Second):
			e.h.fail("stress: owner did not terminate")
		}
	}
	e.h.quiesce()
	for i := 0; i < K; i++ {
		e.judge(o, c, obs[i], ts, errs[i])
	}
	e.cleanup()
}

// many goroutines register the same name for different processes: exactly one wins,
// the name resolves to the winner
func (e *raceEnv) regname(o *util.Out, c raceCase, serial int) {
	const K = 6
	var recs []*actorRec
	for i := 0; i < K; i++ {
		recs = append(recs, e.actor())
	}
	name := gen.Atom(fmt.Sprintf("name%d", 1000+serial))
	var start atomic.Bool
	errs := make([]error, K)
	var wg sync.WaitGroup
	for i := 0; i < K; i++ {
		i := i
		wg.Add(1)
		go func() {
			defer wg.Done()
			for start.Load() == false {
			}
			spin(c.Spin[i%len(c.Spin)])
			errs[i] = e.nd.RegisterName(name, recs[i].pid)
		}()
	}
	start.Store(true)
	wg.Wait()
	wins := 0
	winner := -1
	for i, err := range errs {
		if err == nil {
			wins++
			winner = i
		} else if err != gen.ErrTaken {
			wins = -100
		}
	}
	o.Stats["regname:trials"]++
	bad := ""
	if wins != 1 {
		bad = fmt.Sprintf("%d of %d racing RegisterName calls for one name succeeded (want exactly 1): %v", wins, K, errs)
	} else {
		pid, err := e.nd.UnregisterName(name)
		if err != nil || pid != recs[winner].pid {
			bad = fmt.Sprintf("name resolves to %v (%v), winner was %v", pid, err, recs[winner].pid)
		}
	}
	if bad != "" {
		c.Tags = append(c.Tags, "register-race")
		idx := o.Add("", c)
		o.Monitor = append(o.Monitor, util.MonitorFail{Case: idx, What: bad})
	}
	e.cleanup()
}

// node.RegisterName(name, pid) racing with the termination of pid: afterwards the name must not
// be left pointing at the dead process
func (e *raceEnv) regterm(o *util.Out, c raceCase, serial int) {
	p := e.actor()
	name := gen.Atom(fmt.Sprintf("name%d", 1000+serial))
	var start atomic.Bool
	var err error
	var wg sync.WaitGroup
	wg.Add(1)
	go func() {
		defer wg.Done()
		for start.Load() == false {
		}
		spin(c.Spin[1])
		e.kill(p)
	}()
	time.Sleep(50 * time.Microsecond)
	start.Store(true)
	spin(c.Spin[0])
	err = e.nd.RegisterName(name, p.pid)
	wg.Wait()
	<-p.terminated
	e.h.quiesce()
	o.Stats[fmt.Sprintf("regterm:%v", err)]++
	serr := e.nd.Send(gen.ProcessID{Name: name, Node: e.nd.Name()}, hprobe{})
	if serr != gen.ErrProcessUnknown {
		c.Tags = append(c.Tags, "register-vs-terminate")
		idx := o.Add("", c)
		o.Monitor = append(o.Monitor, util.MonitorFail{Case: idx,
			What: fmt.Sprintf("RegisterName racing with the termination of the process returned %v; afterwards the name still resolves to the terminated process (send by name: %v)", err, serr)})
		e.nd.UnregisterName(name)
	}
	e.cleanup()
}

func runRace(n int, out string, replay string) {
	o := util.NewOut("rel.race")
	base := &tmWrap{gen.CreateDefaultTargetManager()}
	opt := gen.NodeOptions{TargetManager: base}
	opt.Log.DefaultLogger.Disable = true
	opt.Network.Mode = gen.NetworkModeDisabled
	nd, err := node.Start("verifrace@localhost", opt, gen.Version{})
	if err != nil {
		fmt.Fprintln(os.Stderr, "node start:", err)
		os.Exit(3)
	}
	defer nd.StopForce()
	e := &raceEnv{nd: nd, h: &hist{node: nd, tm: base}}
	var cases []raceCase
	if replay != "" {
		var c raceCase
		loadReplay(replay, &c)
		reps := 1
		if c.Mode != "hooked" {
			reps = 2000 // a timing race: repeat the recorded configuration
		}
		for i := 0; i < reps; i++ {
			cases = append(cases, c)
		}
	} else {
		// every hooked schedule: target kind x link/monitor (+ UnregisterName variant)
		for tk := 0; tk < 4; tk++ {
			for _, mon := range []bool{false, true} {
				cases = append(cases, raceCase{Mode: "hooked", TK: tk, Mon: mon})
			}
		}
		cases = append(cases, raceCase{Mode: "hooked", TK: 1, Mon: false, Unreg: true}, raceCase{Mode: "hooked", TK: 1, Mon: true, Unreg: true})
		r := util.Rng(45)
		rs := func() int {
			if r.Intn(3) == 0 {
				return r.Intn(40)
			}
			return r.Intn(4000)
		}
		for i := 0; i < n; i++ {
			c := raceCase{Mode: "stress", TK: r.Intn(4), Mon: r.Intn(2) == 0, Spin: []int{rs(), rs(), rs(), rs()}}
			if c.TK == 1 {
				c.Unreg = r.Intn(2) == 0
			}
			switch i % 10 {
			case 8:
				c.Mode = "regname"
			case 9, 7:
				c.Mode = "regterm"
				c.Spin = []int{r.Intn(200), r.Intn(1500)}
			}
			cases = append(cases, c)
		}
	}
	for i, c := range cases {
		switch c.Mode {
		case "hooked":
			e.hooked(o, c, i)
		case "stress":
			e.stress(o, c, i)
		case "regname":
			e.regname(o, c, i)
		case "regterm":
			e.regterm(o, c, i)
		}
		if len(o.Monitor) > 20 {
			break
		}
	}
	o.Stats["runs"] = len(cases)
	var _ = rand.Int
	o.Write(out)
}
