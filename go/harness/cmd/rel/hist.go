package main

import (
	"errors"
	"fmt"
	"math/rand"
	"os"
	"sort"
	"strings"
	"sync"
	"time"

	"ergo.services/ergo/act"
	"ergo.services/ergo/gen"
	"ergo.services/ergo/node"
	"verifharness/util"
)

// Histories on ONE real node: trapping observer actors execute a random sequence of
// spawn/link/unlink/monitor/demonitor/register/unregister/alias/event/terminate operations.
// After every operation the harness waits for quiescence; at the end it records what every
// actor received, the return values, the process list, name/alias/event resolution and the
// relation set read through the node's target manager.

type hOp struct {
	Op     string `json:"op"`
	P      int    `json:"p"`                // acting actor (index by creation order)
	Q      int    `json:"q,omitempty"`      // target actor
	Name   uint64 `json:"name,omitempty"`   // name / event atom
	Alias  int    `json:"alias,omitempty"`  // alias index (by creation order, 1-based; 0 = bogus alias)
	TK     int    `json:"tk,omitempty"`     // target kind 0 pid 1 name 2 alias 3 event
	Mon    bool   `json:"mon,omitempty"`
	Reason int    `json:"reason,omitempty"` // 0 normal return, 1 kill, >=10 error return
	LC     bool   `json:"lc,omitempty"`
	LP     bool   `json:"lp,omitempty"`
}

type hCase struct {
	Ops  []hOp    `json:"ops"`
	Tags []string `json:"tags,omitempty"`
}

type hNote struct {
	down   bool
	target string // coq term
	reason int
}

type actorRec struct {
	idx        int
	pid        gen.PID
	parent     gen.PID
	mu         sync.Mutex
	notes      []hNote
	terminated chan struct{}
	commanded  bool // the harness asked for this termination
	termReason int
}

func (r *actorRec) isTerminated() bool {
	select {
	case <-r.terminated:
		return true
	default:
		return false
	}
}

type hist struct {
	node    gen.Node
	tm      gen.TargetManager
	recs    []*actorRec
	aliases []gen.Alias // by creation order
	names   map[uint64]bool // names / events believed registered (generator bias only)
	events  map[uint64]bool
}

type tmWrap struct{ gen.TargetManager }

type hcmd struct {
	f    func(a *hactor) (string, error)
	done chan string
}
type hping struct{ ch chan struct{} }
type hprobe struct{}

// hwho: the receiver answers with its own pid (resolves a name / alias through the node tables)
type hwho struct{ ch chan gen.PID }

type hactor struct {
	act.Actor
	h   *hist
	rec *actorRec
}

func hfactory() gen.ProcessBehavior { return &hactor{} }

func (a *hactor) Init(args ...any) error {
	a.h = args[0].(*hist)
	a.rec = args[1].(*actorRec)
	a.rec.pid = a.PID()
	a.rec.parent = a.Parent()
	a.SetTrapExit(true)
	return nil
}

func reasonClass(err error) int {
	for e := err; e != nil; e = errors.Unwrap(e) {
		switch e {
		case gen.TerminateReasonNormal:
			return 0
		case gen.TerminateReasonKill:
			return 1
		case gen.ErrUnregistered:
			return 2
		case gen.TerminateReasonShutdown:
			return 3
		case gen.TerminateReasonPanic:
			return 4
		}
		var k int
		if n, _ := fmt.Sscanf(e.Error(), "custom%d", &k); n == 1 && errors.Unwrap(e) == nil {
			return 10 + k
		}
	}
	return 9
}

func (a *hactor) note(down bool, target string, reason error) {
	a.rec.mu.Lock()
	a.rec.notes = append(a.rec.notes, hNote{down, target, reasonClass(reason)})
	a.rec.mu.Unlock()
}

func (a *hactor) HandleMessage(from gen.PID, message any) error {
	switch m := message.(type) {
	case hcmd:
		r, reason := m.f(a)
		m.done <- r
		return reason
	case hping:
		close(m.ch)
	case hprobe:
	case hwho:
		m.ch <- a.PID()
	case gen.MessageExitPID:
		a.note(false, a.h.coqTarget(m.PID), m.Reason)
	case gen.MessageExitProcessID:
		a.note(false, a.h.coqTarget(m.ProcessID), m.Reason)
	case gen.MessageExitAlias:
		a.note(false, a.h.coqTarget(m.Alias), m.Reason)
	case gen.MessageExitEvent:
		a.note(false, a.h.coqTarget(m.Event), m.Reason)
	case gen.MessageDownPID:
		a.note(true, a.h.coqTarget(m.PID), m.Reason)
	case gen.MessageDownProcessID:
		a.note(true, a.h.coqTarget(m.ProcessID), m.Reason)
	case gen.MessageDownAlias:
		a.note(true, a.h.coqTarget(m.Alias), m.Reason)
	case gen.MessageDownEvent:
		a.note(true, a.h.coqTarget(m.Event), m.Reason)
	case gen.MessageDownNode:
		a.note(true, "(TNode "+string(m.Name)+")", gen.ErrNoConnection)
	case gen.MessageExitNode:
		a.note(false, "(TNode "+string(m.Name)+")", gen.ErrNoConnection)
	}
	return nil
}

func (a *hactor) Terminate(reason error) {
	a.rec.mu.Lock()
	a.rec.termReason = reasonClass(reason)
	if a.rec.commanded == false {
		// not asked by the harness: an exit signal of the parent took effect
		a.rec.notes = append(a.rec.notes, hNote{false, a.h.coqTarget(a.rec.parent), a.rec.termReason})
	}
	a.rec.mu.Unlock()
	close(a.rec.terminated)
}

const bogusAlias = 999999

func (h *hist) coqTarget(t any) string {
	switch v := t.(type) {
	case gen.PID:
		return fmt.Sprintf("(TPid (lpid %d))", v.ID)
	case gen.ProcessID:
		return fmt.Sprintf("(TName %d me)", atomIdx(v.Name))
	case gen.Alias:
		for i, a := range h.aliases {
			if a == v {
				return fmt.Sprintf("(TAlias me %d)", i+1)
			}
		}
		return fmt.Sprintf("(TAlias me %d)", bogusAlias)
	case gen.Event:
		return fmt.Sprintf("(TEvent %d me)", atomIdx(v.Name))
	}
	return "(TNode 0)"
}

func (h *hist) fail(msg string) {
	fmt.Fprintln(os.Stderr, "harness stalled:", msg)
	os.Exit(4)
}

// wait until every live actor has handled everything pushed so far and nobody is dying
func (h *hist) quiesce() {
	for pass := 0; pass < 1000; pass++ {
		changed := false
		for _, rec := range h.recs {
			if rec.isTerminated() {
				continue
			}
			ch := make(chan struct{})
			if err := h.node.Send(rec.pid, hping{ch}); err != nil {
				select {
				case <-rec.terminated:
				case <-time.After(10 * time.Second):
					h.fail("process unknown but Terminate never ran")
				}
				changed = true
				continue
			}
			select {
			case <-ch:
			case <-rec.terminated:
				changed = true
			case <-time.After(10 * time.Second):
				h.fail("ping not answered")
			}
		}
		if !changed {
			return
		}
	}
	h.fail("no quiescence")
}

// run f inside actor idx; "dead" if the actor is not alive
func (h *hist) on(idx int, f func(a *hactor) (string, error)) string {
	rec := h.recs[idx]
	if rec.isTerminated() {
		return "RErr e_dead"
	}
	c := hcmd{f: f, done: make(chan string, 1)}
	if err := h.node.Send(rec.pid, c); err != nil {
		return "RErr e_dead"
	}
	select {
	case r := <-c.done:
		return r
	case <-rec.terminated:
		// the command itself may have terminated the actor: its answer takes precedence
		select {
		case r := <-c.done:
			return r
		default:
		}
		return "RErr e_dead"
	case <-time.After(10 * time.Second):
		h.fail("command not executed")
	}
	return ""
}

func coqErr(err error) string {
	switch err {
	case nil:
		return "ROk"
	case gen.ErrProcessUnknown:
		return "RErr e_process_unknown"
	case gen.ErrTaken:
		return "RErr e_taken"
	case gen.ErrTargetExist:
		return "RErr e_target_exist"
	case gen.ErrTargetUnknown:
		return "RErr e_target_unknown"
	case gen.ErrNameUnknown:
		return "RErr e_name_unknown"
	case gen.ErrAliasUnknown:
		return "RErr e_alias_unknown"
	case gen.ErrAliasOwner: // same text as ErrEventOwner but a distinct value
		return "RErr e_alias_owner"
	case gen.ErrEventUnknown:
		return "RErr e_event_unknown"
	case gen.ErrEventOwner:
		return "RErr e_event_owner"
	case gen.ErrNotAllowed:
		return "RErr e_not_allowed"
	case gen.ErrProcessTerminated:
		return "RErr e_process_terminated"
	}
	return "RErr 77"
}

func (h *hist) target(o hOp) (any, string) {
	switch o.TK {
	case 0:
		p := h.recs[o.Q].pid
		return p, h.coqTarget(p)
	case 1:
		t := gen.ProcessID{Name: atomName(o.Name), Node: h.node.Name()}
		return t, h.coqTarget(t)
	case 2:
		if o.Alias >= 1 && o.Alias <= len(h.aliases) {
			a := h.aliases[o.Alias-1]
			return a, h.coqTarget(a)
		}
		a := gen.Alias{Node: h.node.Name(), ID: [3]uint64{1, 1, 1}, Creation: h.node.Creation()}
		return a, h.coqTarget(a)
	default:
		t := gen.Event{Name: atomName(o.Name), Node: h.node.Name()}
		return t, h.coqTarget(t)
	}
}

func (h *hist) newRec() *actorRec {
	rec := &actorRec{idx: len(h.recs), terminated: make(chan struct{})}
	return rec
}

// execute one operation; returns the Coq term "(op, res)"
func (h *hist) exec(o hOp) string {
	var opS, resS string
	P := func() string { return fmt.Sprintf("(lpid %d)", h.recs[o.P].pid.ID) }
	switch o.Op {
	case "spawnnode":
		rec := h.newRec()
		var pid gen.PID
		var err error
		if o.Name > 0 {
			pid, err = h.node.SpawnRegister(atomName(o.Name), hfactory, gen.ProcessOptions{}, h, rec)
			opS = fmt.Sprintf("OSpawnNode (Some %d)", o.Name)
		} else {
			pid, err = h.node.Spawn(hfactory, gen.ProcessOptions{}, h, rec)
			opS = "OSpawnNode None"
		}
		if err == nil {
			h.recs = append(h.recs, rec)
			resS = fmt.Sprintf("RPid (lpid %d)", pid.ID)
		} else {
			resS = coqErr(err)
		}
	case "spawn":
		rec := h.newRec()
		name := "None"
		if o.Name > 0 {
			name = fmt.Sprintf("(Some %d)", o.Name)
		}
		opS = fmt.Sprintf("OSpawn %s %s %s %s", P(), name, util.B(o.LC), util.B(o.LP))
		spawned := false
		resS = h.on(o.P, func(a *hactor) (string, error) {
			opts := gen.ProcessOptions{LinkChild: o.LC, LinkParent: o.LP}
			var pid gen.PID
			var err error
			if o.Name > 0 {
				pid, err = a.SpawnRegister(atomName(o.Name), hfactory, opts, h, rec)
			} else {
				pid, err = a.Spawn(hfactory, opts, h, rec)
			}
			if err != nil {
				return coqErr(err), nil
			}
			spawned = true
			return fmt.Sprintf("RPid (lpid %d)", pid.ID), nil
		})
		if spawned {
			h.recs = append(h.recs, rec)
		}
	case "regname":
		opS = fmt.Sprintf("ORegisterName %s %d", P(), o.Name)
		resS = h.on(o.P, func(a *hactor) (string, error) { return coqErr(a.RegisterName(atomName(o.Name))), nil })
	case "unregname":
		opS = fmt.Sprintf("OUnregisterName %s %d", P(), o.Name)
		resS = h.on(o.P, func(a *hactor) (string, error) {
			_, err := a.Node().UnregisterName(atomName(o.Name))
			return coqErr(err), nil
		})
	case "createalias":
		opS = fmt.Sprintf("OCreateAlias %s", P())
		resS = h.on(o.P, func(a *hactor) (string, error) {
			al, err := a.CreateAlias()
			if err != nil {
				return coqErr(err), nil
			}
			h.aliases = append(h.aliases, al)
			return fmt.Sprintf("RAlias %d", len(h.aliases)), nil
		})
	case "deletealias":
		t, _ := h.target(hOp{TK: 2, Alias: o.Alias})
		al := t.(gen.Alias)
		id := o.Alias
		if id < 1 || id > len(h.aliases) {
			id = bogusAlias
		}
		opS = fmt.Sprintf("ODeleteAlias %s %d", P(), id)
		resS = h.on(o.P, func(a *hactor) (string, error) { return coqErr(a.DeleteAlias(al)), nil })
	case "regevent":
		opS = fmt.Sprintf("ORegisterEvent %s %d", P(), o.Name)
		resS = h.on(o.P, func(a *hactor) (string, error) {
			_, err := a.RegisterEvent(atomName(o.Name), gen.EventOptions{})
			return coqErr(err), nil
		})
	case "unregevent":
		opS = fmt.Sprintf("OUnregisterEvent %s %d", P(), o.Name)
		resS = h.on(o.P, func(a *hactor) (string, error) { return coqErr(a.UnregisterEvent(atomName(o.Name))), nil })
	case "link", "unlink", "monitor", "demonitor":
		t, ts := h.target(o)
		cons := map[string]string{"link": "OLink", "unlink": "OUnlink", "monitor": "OMonitor", "demonitor": "ODemonitor"}
		opS = fmt.Sprintf("%s %s %s", cons[o.Op], P(), ts)
		resS = h.on(o.P, func(a *hactor) (string, error) {
			var err error
			switch o.Op {
			case "link":
				if ev, ok := t.(gen.Event); ok {
					_, err = a.LinkEvent(ev)
				} else {
					err = a.Link(t)
				}
			case "unlink":
				if ev, ok := t.(gen.Event); ok {
					err = a.UnlinkEvent(ev)
				} else {
					err = a.Unlink(t)
				}
			case "monitor":
				if ev, ok := t.(gen.Event); ok {
					_, err = a.MonitorEvent(ev)
				} else {
					err = a.Monitor(t)
				}
			default:
				if ev, ok := t.(gen.Event); ok {
					err = a.DemonitorEvent(ev)
				} else {
					err = a.Demonitor(t)
				}
			}
			return coqErr(err), nil
		})
	case "terminate":
		rec := h.recs[o.P]
		opS = fmt.Sprintf("OTerminate %s %d", P(), o.Reason)
		if rec.isTerminated() {
			resS = "RErr e_dead"
			break
		}
		rec.mu.Lock()
		rec.commanded = true
		rec.mu.Unlock()
		if o.Reason == 1 {
			if err := h.node.Kill(rec.pid); err != nil {
				resS = "RErr e_dead"
				break
			}
			resS = "ROk"
		} else {
			resS = h.on(o.P, func(a *hactor) (string, error) {
				if o.Reason == 0 {
					return "ROk", gen.TerminateReasonNormal
				}
				return "ROk", fmt.Errorf("custom%d", o.Reason-10)
			})
		}
		if resS == "ROk" {
			select {
			case <-rec.terminated:
			case <-time.After(10 * time.Second):
				h.fail("terminate: Terminate callback never ran")
			}
		}
	case "cascade":
		opS, resS = "OCascade", "ROk"
	}
	h.quiesce()
	if h.names == nil {
		h.names, h.events = map[uint64]bool{}, map[uint64]bool{}
	}
	if o.Name > 0 && (resS == "ROk" || strings.HasPrefix(resS, "RPid")) {
		switch o.Op {
		case "regname", "spawn", "spawnnode":
			h.names[o.Name] = true
		case "unregname":
			delete(h.names, o.Name)
		case "regevent":
			h.events[o.Name] = true
		case "unregevent":
			delete(h.events, o.Name)
		}
	}
	return fmt.Sprintf("(%s, %s)", opS, resS)
}

func genHistOp(r *rand.Rand, h *hist, first bool) hOp {
	live := 0
	for _, rec := range h.recs {
		if !rec.isTerminated() {
			live++
		}
	}
	if first || live == 0 || (len(h.recs) < 3 && r.Intn(2) == 0) {
		o := hOp{Op: "spawnnode"}
		if r.Intn(3) == 0 {
			o.Name = uint64(1 + r.Intn(3))
		}
		return o
	}
	o := hOp{P: r.Intn(len(h.recs)), Q: r.Intn(len(h.recs)), Name: uint64(1 + r.Intn(3))}
	// prefer live actors
	for try := 0; try < 12 && h.recs[o.P].isTerminated(); try++ {
		o.P = r.Intn(len(h.recs))
	}
	if r.Intn(4) > 0 {
		for try := 0; try < 3 && h.recs[o.Q].isTerminated(); try++ {
			o.Q = r.Intn(len(h.recs))
		}
	}
	if len(h.aliases) > 0 && r.Intn(8) > 0 {
		o.Alias = 1 + r.Intn(len(h.aliases))
	}
	o.TK = r.Intn(4)
	x := r.Intn(100)
	pick := func(m map[uint64]bool) {
		if len(m) > 0 && r.Intn(5) > 0 {
			var ks []uint64
			for k := range m {
				ks = append(ks, k)
			}
			sort.Slice(ks, func(i, j int) bool { return ks[i] < ks[j] })
			o.Name = ks[r.Intn(len(ks))]
		}
	}
	if x >= 53 && x < 93 { // link/unlink/monitor/demonitor: aim at things that exist
		if o.TK == 1 {
			pick(h.names)
		}
		if o.TK == 3 {
			pick(h.events)
		}
	}
	switch {
	case x < 5 && len(h.recs) < 7:
		o.Op = "spawnnode"
		if r.Intn(3) > 0 {
			o.Name = 0
		}
	case x < 14 && len(h.recs) < 9:
		o.Op = "spawn"
		if r.Intn(3) > 0 {
			o.Name = 0
		}
		o.LC, o.LP = r.Intn(2) == 0, r.Intn(3) == 0
	case x < 22:
		o.Op = "regname"
	case x < 27:
		o.Op = "unregname"
	case x < 37:
		o.Op = "createalias"
	case x < 43:
		o.Op = "deletealias"
	case x < 49:
		o.Op = "regevent"
	case x < 53:
		o.Op = "unregevent"
	case x < 66:
		o.Op = "link"
	case x < 71:
		o.Op = "unlink"
	case x < 84:
		o.Op = "monitor"
	case x < 93:
		o.Op = "demonitor"
	default:
		o.Op = "terminate"
		o.Reason = []int{0, 1, 1, 10, 11, 12}[r.Intn(6)]
	}
	if o.Op == "" {
		o.Op = "monitor"
	}
	return o
}

// agreement evaluates, on the REAL node after the history, the invariant proved for the model
// (C06_agreement_hist): for every live actor the name / alias list / event set of its own process
// record (gen.ProcessInfo: p.name, p.aliases, p.events) are exactly the names / aliases / events the
// node tables resolve to it, without duplicates, and nothing resolves to a process that is not listed.
func (h *hist) agreement() []string {
	var bad []string
	resolve := func(to any) (gen.PID, bool) {
		ch := make(chan gen.PID, 1)
		if err := h.node.Send(to, hwho{ch}); err != nil {
			return gen.PID{}, false
		}
		select {
		case p := <-ch:
			return p, true
		case <-time.After(5 * time.Second):
			bad = append(bad, fmt.Sprintf("%v accepts a message but nobody handles it", to))
			return gen.PID{}, false
		}
	}
	live := map[gen.PID]gen.ProcessInfo{}
	if l, err := h.node.ProcessList(); err == nil {
		for _, p := range l {
			for _, rec := range h.recs {
				if rec.pid == p {
					if info, err := h.node.ProcessInfo(p); err == nil {
						live[p] = info
					}
				}
			}
		}
	}
	aliasOwner := map[gen.Alias]gen.PID{}
	eventOwner := map[gen.Atom]gen.PID{}
	for p, info := range live {
		for _, a := range info.Aliases {
			if q, dup := aliasOwner[a]; dup {
				bad = append(bad, fmt.Sprintf("alias %v listed twice (records of %v and %v)", a, q, p))
			}
			aliasOwner[a] = p
		}
		for _, e := range info.Events {
			if q, dup := eventOwner[e]; dup {
				bad = append(bad, fmt.Sprintf("event %s listed twice (records of %v and %v)", e, q, p))
			}
			eventOwner[e] = p
		}
	}
	known := map[gen.Alias]bool{}
	for i, a := range h.aliases {
		known[a] = true
		q, ok := resolve(a)
		owner, listed := aliasOwner[a]
		switch {
		case ok && !listed:
			bad = append(bad, fmt.Sprintf("alias #%d resolves to %v but is in no live record", i+1, q))
		case ok && owner != q:
			bad = append(bad, fmt.Sprintf("alias #%d resolves to %v but is in the record of %v", i+1, q, owner))
		case !ok && listed:
			bad = append(bad, fmt.Sprintf("alias #%d is in the record of %v but does not resolve", i+1, owner))
		}
	}
	for a, p := range aliasOwner {
		if !known[a] {
			bad = append(bad, fmt.Sprintf("record of %v lists an alias %v nobody created", p, a))
		}
	}
	for n := uint64(1); n <= 3; n++ {
		name := atomName(n)
		q, ok := resolve(gen.ProcessID{Name: name, Node: h.node.Name()})
		if ok {
			if info, isLive := live[q]; !isLive || info.Name != name {
				bad = append(bad, fmt.Sprintf("name %s resolves to %v whose record has name %q", name, q, info.Name))
			}
		}
		for p, info := range live {
			if info.Name == name && (!ok || q != p) {
				bad = append(bad, fmt.Sprintf("record of %v has name %s but the name table does not resolve it to that process", p, name))
			}
		}
		_, err := h.node.RegisterEvent(name, gen.EventOptions{})
		if err == nil {
			h.node.UnregisterEvent(name)
		}
		owner, listed := eventOwner[name]
		switch {
		case err == nil && listed:
			bad = append(bad, fmt.Sprintf("event %s is in the record of %v but is free in the event table", name, owner))
		case err == gen.ErrTaken && !listed:
			bad = append(bad, fmt.Sprintf("event %s is taken in the event table but is in no live record", name))
		}
	}
	sort.Strings(bad)
	return bad
}

func (h *hist) snapshot(nextpid uint64, steps []string) string {
	// observed notes per actor
	var actors []string
	for _, rec := range h.recs {
		rec.mu.Lock()
		var ns []string
		for _, n := range rec.notes {
			ns = append(ns, fmt.Sprintf("mknote %s %s %d", util.B(n.down), n.target, n.reason))
		}
		rec.mu.Unlock()
		actors = append(actors, fmt.Sprintf("(lpid %d, lpid %d, %s)", rec.pid.ID, rec.parent.ID, util.List(ns)))
	}
	// process list restricted to this case's actors
	mine := map[gen.PID]bool{}
	for _, rec := range h.recs {
		mine[rec.pid] = true
	}
	var plist []string
	if l, err := h.node.ProcessList(); err == nil {
		for _, p := range l {
			if mine[p] {
				plist = append(plist, fmt.Sprintf("lpid %d", p.ID))
			}
		}
	}
	sort.Strings(plist)
	// relation set, read through the target manager for every consumer of this case
	var rels []string
	for _, rec := range h.recs {
		l, m := h.tm.GetTargetsForConsumer(rec.pid)
		for _, t := range l {
			rels = append(rels, fmt.Sprintf("mkkey (lpid %d) %s false", rec.pid.ID, h.coqTarget(t)))
		}
		for _, t := range m {
			rels = append(rels, fmt.Sprintf("mkkey (lpid %d) %s true", rec.pid.ID, h.coqTarget(t)))
		}
	}
	sort.Strings(rels)
	code := func(err error) int {
		switch err {
		case nil:
			return 0
		case gen.ErrProcessUnknown, gen.ErrAliasUnknown, gen.ErrNameUnknown:
			return 1
		}
		return 2
	}
	var names, aliases, events []string
	for n := uint64(1); n <= 3; n++ {
		names = append(names, fmt.Sprintf("(%d, %d)", n, code(h.node.Send(gen.ProcessID{Name: atomName(n), Node: h.node.Name()}, hprobe{}))))
	}
	for i, a := range h.aliases {
		aliases = append(aliases, fmt.Sprintf("(%d, %d)", i+1, code(h.node.Send(a, hprobe{}))))
	}
	for n := uint64(1); n <= 3; n++ {
		_, err := h.node.RegisterEvent(atomName(n), gen.EventOptions{})
		if err == nil {
			h.node.UnregisterEvent(atomName(n))
		}
		events = append(events, fmt.Sprintf("(%d, %s)", n, util.B(err == nil)))
	}
	return fmt.Sprintf("mk_hcase %d [%s] %s %s %s %s %s %s", nextpid, strings.Join(steps, "; "),
		util.List(actors), util.List(plist), util.List(rels), util.List(names), util.List(aliases), util.List(events))
}

func runHist(n int, out string, replay string) {
	o := util.NewOut("rel.hist")
	base := &tmWrap{gen.CreateDefaultTargetManager()}
	opt := gen.NodeOptions{TargetManager: base}
	opt.Log.DefaultLogger.Disable = true
	opt.Network.Mode = gen.NetworkModeDisabled
	nd, err := node.Start("verifhist@localhost", opt, gen.Version{})
	if err != nil {
		fmt.Fprintln(os.Stderr, "node start:", err)
		os.Exit(3)
	}
	defer nd.StopForce()
	r := util.Rng(42)
	var replayCase *hCase
	if replay != "" {
		replayCase = &hCase{}
		loadReplay(replay, replayCase)
		n = 1
	}
	var lastPid uint64
	for i := 0; i < n; i++ {
		h := &hist{node: nd, tm: base}
		nextpid := node.VerifNextPID(nd)
		var c hCase
		var steps []string
		run := func(op hOp) {
			c.Ops = append(c.Ops, op)
			steps = append(steps, h.exec(op))
			o.Stats["op:"+op.Op]++
		}
		if replayCase != nil {
			for _, op := range replayCase.Ops {
				if (op.Op != "spawnnode" && op.Op != "cascade") && (op.P >= len(h.recs) || op.Q >= len(h.recs)) {
					continue
				}
				run(op)
			}
		} else {
			nops := 10 + r.Intn(60)
			for k := 0; k < nops; k++ {
				op := genHistOp(r, h, k == 0)
				run(op)
				if op.Op == "terminate" {
					for j := 0; j < len(h.recs); j++ {
						run(hOp{Op: "cascade"})
					}
				}
			}
		}
		h.quiesce()
		// direct monitors: process ids strictly increasing, aliases pairwise distinct
		for _, rec := range h.recs {
			if rec.pid.ID <= lastPid {
				c.Tags = append(c.Tags, "pid-repeat")
				o.Monitor = append(o.Monitor, util.MonitorFail{Case: len(o.Cases), What: fmt.Sprintf("process id %d not greater than an earlier one %d", rec.pid.ID, lastPid)})
			}
			lastPid = rec.pid.ID
		}
		seen := map[gen.Alias]bool{}
		for _, a := range h.aliases {
			if seen[a] {
				c.Tags = append(c.Tags, "alias-repeat")
				o.Monitor = append(o.Monitor, util.MonitorFail{Case: len(o.Cases), What: fmt.Sprintf("alias %v created twice", a)})
			}
			seen[a] = true
		}
		if bad := h.agreement(); len(bad) > 0 {
			c.Tags = append(c.Tags, "agreement")
			o.Monitor = append(o.Monitor, util.MonitorFail{Case: len(o.Cases), What: "record/table agreement: " + strings.Join(bad, "; "), Tags: []string{"agreement"}})
		}
		o.Stats["agreement-checked"]++
		term := 0
		for _, rec := range h.recs {
			if rec.isTerminated() {
				term++
			}
		}
		o.Stats["actors"] += len(h.recs)
		o.Stats["terminated"] += term
		o.Stats["aliases"] += len(h.aliases)
		o.Add(h.snapshot(nextpid, steps), c)
		// clean up: kill what is left
		for _, rec := range h.recs {
			if !rec.isTerminated() {
				rec.mu.Lock()
				rec.commanded = true
				rec.mu.Unlock()
				nd.Kill(rec.pid)
			}
		}
		for _, rec := range h.recs {
			select {
			case <-rec.terminated:
			case <-time.After(10 * time.Second):
				h.fail("cleanup: actor does not terminate")
			}
		}
		for n := uint64(1); n <= 3; n++ {
			nd.UnregisterEvent(atomName(n))
		}
	}
	o.Stats["runs"] = n
	o.Write(out)
}
