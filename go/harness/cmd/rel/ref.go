package main

import (
	"fmt"
	"math/rand"
	"os"

	"ergo.services/ergo/gen"
	"ergo.services/ergo/node"
	"verifharness/util"
)

// One ref case: two counters a, b; the three ID words MakeRef produces for each.
type refCase struct {
	A    uint64   `json:"a"`
	B    uint64   `json:"b"`
	Tags []string `json:"tags,omitempty"`
}

func startQuietNode(name string) gen.Node {
	opt := gen.NodeOptions{}
	opt.Log.DefaultLogger.Disable = true
	opt.Network.Mode = gen.NetworkModeDisabled
	n, err := node.Start(gen.Atom(name), opt, gen.Version{})
	if err != nil {
		fmt.Fprintln(os.Stderr, "node start:", err)
		os.Exit(3)
	}
	return n
}

func genRefCase(r *rand.Rand) refCase {
	rnd64 := func() uint64 {
		switch r.Intn(6) {
		case 0:
			return uint64(1 + r.Intn(1<<20))
		case 1:
			return 1<<uint(r.Intn(64)) + uint64(r.Intn(3))
		case 2:
			return ^uint64(0) - uint64(r.Intn(1<<20))
		case 3:
			return 1700000000000000000 + uint64(r.Int63n(1<<40)) // time.Now().UnixNano() region
		default:
			return r.Uint64()
		}
	}
	a := rnd64()
	if a == 0 {
		a = 1
	}
	var b uint64
	switch r.Intn(8) {
	case 0:
		b = a + 1<<18
	case 1:
		b = a + 1<<46
	case 2:
		b = a ^ (1 << uint(r.Intn(64)))
	case 3:
		b = a + uint64(1+r.Intn(8))<<uint(18+r.Intn(28))
	case 4:
		b = a
	default:
		b = rnd64()
	}
	if b == 0 {
		b = 2
	}
	return refCase{A: a, B: b}
}

func runRef(n int, out string, replay string) {
	o := util.NewOut("rel.ref")
	nd := startQuietNode("verifref@localhost")
	defer nd.StopForce()
	var cases []refCase
	if replay != "" {
		var c refCase
		loadReplay(replay, &c)
		cases = append(cases, c)
	} else {
		r := util.Rng(43)
		for i := 0; i < n; i++ {
			cases = append(cases, genRefCase(r))
		}
	}
	for _, c := range cases {
		ra := node.VerifMakeRefFrom(nd, c.A)
		rb := node.VerifMakeRefFrom(nd, c.B)
		if c.A != c.B && ra.ID == rb.ID {
			c.Tags = append(c.Tags, "ref-collision")
			o.Stats["collisions"]++
		}
		if c.A != c.B {
			o.Stats["distinct-pairs"]++
		}
		o.Add(fmt.Sprintf("mk_refcase %d %d (%d, %d, %d) (%d, %d, %d)", c.A, c.B,
			ra.ID[0], ra.ID[1], ra.ID[2], rb.ID[0], rb.ID[1], rb.ID[2]), c)
	}
	// soak: consecutive real MakeRef calls never repeat (2^20 in the thorough tier)
	soak := 1 << 14
	if os.Getenv("VERIF_TIER") == "thorough" {
		soak = 1 << 20
	}
	if replay == "" {
		start := uint64(1700000000000000000) + uint64(util.Rng(44).Int63n(1<<50))
		node.VerifMakeRefFrom(nd, start)
		seen := make(map[[3]uint64]uint64, soak)
		for i := 0; i < soak; i++ {
			cnt := node.VerifUniqID(nd) + 1
			ref := nd.MakeRef()
			if prev, dup := seen[ref.ID]; dup {
				c := refCase{A: prev, B: cnt, Tags: []string{"ref-collision", "soak"}}
				ra := node.VerifMakeRefFrom(nd, c.A)
				rb := node.VerifMakeRefFrom(nd, c.B)
				idx := o.Add(fmt.Sprintf("mk_refcase %d %d (%d, %d, %d) (%d, %d, %d)", c.A, c.B,
					ra.ID[0], ra.ID[1], ra.ID[2], rb.ID[0], rb.ID[1], rb.ID[2]), c)
				o.Monitor = append(o.Monitor, util.MonitorFail{Case: idx,
					What: fmt.Sprintf("MakeRef repeated a reference: call %d and call %d (counters %d, %d) both gave %v", prev-start, cnt-start, prev, cnt, ref.ID)})
				break
			}
			seen[ref.ID] = cnt
		}
		o.Stats["soak-calls"] = soak
	}
	o.Stats["runs"] = len(cases)
	o.Write(out)
}
