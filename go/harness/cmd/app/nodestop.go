package main

import "verifharness/util"

func mainNode(out *util.Out, n int, replay string, known []string) {}
func nodeChild(arg string)                                           {}
