// C10, application / node part: Node.Stop on a node with applications and stray processes
// returns only after every non-system process has terminated; nothing survives a stopped
// application (a fresh node per case). Go monitor only.
package main

import (
	"fmt"
	"sync/atomic"
	"time"

	"ergo.services/ergo/act"
	"ergo.services/ergo/gen"
	"verifharness/util"
)

type NodeCase struct {
	Kind   string    `json:"kind"` // stop | force | busy (a stray process is inside a callback while Stop runs) | appkid
	Apps   []AppSpec `json:"apps"`
	Strays int       `json:"strays"`
	SKids  int       `json:"skids"` // LinkParent children per stray process
	Busy   string    `json:"busy"`  // busy: "stray" | "kid"
	Tags   []string  `json:"tags"`
}

type NodeObs struct {
	Spawned    int  `json:"spawned"`
	Terminated int  `json:"terminated"` // Terminate callbacks that ran (eventually)
	AtReturn   int  `json:"atreturn"`   // ... that had run when Stop returned
	Early      bool `json:"early"`      // Stop returned while a process was still inside a callback
	Returned   bool `json:"returned"`
	StopRet    int  `json:"stopret"`
	KidsAlive  int  `json:"kidsalive"` // appkid: children alive when ApplicationStop returned success
}

var spawnedCnt, termCnt atomic.Int64

// stray: a process outside any application, optionally with LinkParent children
type stray struct {
	act.Actor
	kids int
	out  chan gen.PID
}

func (s *stray) Init(args ...any) error {
	spawnedCnt.Add(1)
	for k := 0; k < s.kids; k++ {
		pid, err := s.Spawn(func() gen.ProcessBehavior { return &skid{} }, gen.ProcessOptions{LinkParent: true})
		if err != nil {
			return err
		}
		if s.out != nil {
			s.out <- pid
		}
	}
	return nil
}
func (s *stray) HandleMessage(from gen.PID, message any) error {
	if x, ok := message.(busyMsg); ok {
		<-x.gate
	}
	return nil
}
func (s *stray) Terminate(reason error) { termCnt.Add(1) }

type skid struct{ act.Actor }

func (s *skid) Init(args ...any) error { spawnedCnt.Add(1); return nil }
func (s *skid) HandleMessage(from gen.PID, message any) error {
	if x, ok := message.(busyMsg); ok {
		<-x.gate
	}
	return nil
}
func (s *skid) Terminate(reason error) { termCnt.Add(1) }

func (k *kid) Init(args ...any) error { spawnedCnt.Add(1); return nil }
func (k *kid) Terminate(reason error) { termCnt.Add(1) }

func runNodeCase(c NodeCase) NodeObs {
	node := startNode()
	var ob NodeObs
	spawnedCnt.Store(0)
	termCnt.Store(0)
	memberTerms.Store(0)
	w := newWorld(node, c.Apps)
	nmembers := 0
	for i, a := range w.apps {
		if _, err := node.ApplicationLoad(a); err != nil {
			panic(err)
		}
		if err := node.ApplicationStart(a.name, gen.ApplicationOptions{}); err != nil && err != gen.ErrApplicationRunning {
			panic(err)
		}
		nmembers += c.Apps[i].N
	}
	kidpids := make(chan gen.PID, 64)
	var straypids []gen.PID
	for i := 0; i < c.Strays; i++ {
		pid, err := node.Spawn(func() gen.ProcessBehavior { return &stray{kids: c.SKids, out: kidpids} }, gen.ProcessOptions{})
		if err != nil {
			panic(err)
		}
		straypids = append(straypids, pid)
	}
	time.Sleep(500 * time.Microsecond)
	total := func() int { return int(termCnt.Load() + memberTerms.Load()) }
	ob.Spawned = int(spawnedCnt.Load()) + nmembers
	gate := make(chan struct{})
	switch c.Kind {
	case "appkid":
		// a child of a (non-supervisor) member is inside a callback while the application is stopped
		a := w.apps[0]
		a.mu.Lock()
		kp := append([]gen.PID{}, a.kpids...)
		a.mu.Unlock()
		if len(kp) > 0 {
			node.Send(kp[0], busyMsg{gate: gate})
			time.Sleep(time.Millisecond)
		}
		ob.StopRet = retCode(node.ApplicationStop(a.name))
		ob.KidsAlive = a.liveKids()
		close(gate)
		node.Stop()
		ob.Returned = true
	case "busy":
		var target gen.PID
		if c.Busy == "kid" && len(kidpids) > 0 {
			target = <-kidpids
		} else {
			target = straypids[0]
		}
		node.Send(target, busyMsg{gate: gate})
		time.Sleep(time.Millisecond)
		done := make(chan struct{})
		go func() { node.Stop(); close(done) }()
		select {
		case <-done:
			ob.Early = true
		case <-time.After(120 * time.Millisecond):
		}
		ob.AtReturn = total()
		close(gate)
		select {
		case <-done:
			ob.Returned = true
		case <-time.After(20 * time.Second):
		}
	default:
		done := make(chan struct{})
		go func() {
			if c.Kind == "force" {
				node.StopForce()
			} else {
				node.Stop()
			}
			close(done)
		}()
		select {
		case <-done:
			ob.Returned = true
		case <-time.After(20 * time.Second):
		}
		ob.AtReturn = total()
	}
	// no orphans: every process the case spawned runs its Terminate callback
	for k := 0; k < 10000 && total() < ob.Spawned; k++ {
		sleepShort()
	}
	ob.Terminated = total()
	return ob
}

func mainNode(out *util.Out, n int, replay string, known []string) {
	var cases []NodeCase
	ap := func(mode, n int, kids ...int) AppSpec {
		k := make([]int, n)
		copy(k, kids)
		return AppSpec{Mode: mode, N: n, Deps: []int{}, Kids: k}
	}
	if replay != "" {
		var c NodeCase
		loadReplay(replay, &c)
		cases = []NodeCase{c}
	} else {
		cases = []NodeCase{
			{Kind: "stop", Apps: []AppSpec{ap(1, 2), ap(3, 3, 1)}, Strays: 2, SKids: 1},
			{Kind: "stop", Apps: []AppSpec{}, Strays: 3, SKids: 2},
			{Kind: "force", Apps: []AppSpec{ap(2, 2, 0, 2)}, Strays: 2, SKids: 1},
			{Kind: "busy", Apps: []AppSpec{ap(1, 1)}, Strays: 2, SKids: 1, Busy: "stray"},
			{Kind: "busy", Apps: []AppSpec{ap(3, 2)}, Strays: 1, SKids: 2, Busy: "kid"},
		}
		if hasTag(known, "app-member-children") {
			cases = append(cases, NodeCase{Kind: "appkid", Apps: []AppSpec{ap(1, 2, 1)}, Tags: []string{"app-member-children"}})
		}
		r := util.Rng(31)
		for i := 0; i < n; i++ {
			c := NodeCase{Kind: []string{"stop", "stop", "force", "busy", "busy"}[r.Intn(5)], Strays: 1 + r.Intn(3), SKids: r.Intn(3), Busy: []string{"stray", "kid"}[r.Intn(2)]}
			for a := r.Intn(3); a > 0; a-- {
				s := ap(1+r.Intn(3), 1+r.Intn(3))
				if r.Intn(2) == 0 {
					s.Kids[r.Intn(s.N)] = 1 + r.Intn(2)
				}
				c.Apps = append(c.Apps, s)
			}
			cases = append(cases, c)
		}
	}
	for _, c := range cases {
		if c.Tags == nil {
			c.Tags = []string{}
		}
		if c.Apps == nil {
			c.Apps = []AppSpec{}
		}
		o := runNodeCase(c)
		idx := out.Add("", struct {
			NodeCase
			Obs NodeObs `json:"obs"`
		}{c, o})
		out.Stats["runs"]++
		out.Stats["kind:"+c.Kind]++
		out.Stats["processes"] += o.Spawned
		fail := func(what string) {
			out.Monitor = append(out.Monitor, util.MonitorFail{Case: idx, What: fmt.Sprintf("node %s (%d apps, %d strays x %d children): %s", c.Kind, len(c.Apps), c.Strays, c.SKids, what), Tags: c.Tags})
		}
		if !o.Returned {
			fail("Node.Stop did not return")
		}
		if o.Terminated != o.Spawned {
			fail(fmt.Sprintf("%d of %d processes terminated after the node was stopped (orphans)", o.Terminated, o.Spawned))
		}
		if c.Kind == "busy" && o.Early {
			fail("Node.Stop returned while a process was still inside a callback")
		}
		if c.Kind == "appkid" && o.StopRet == retOK && o.KidsAlive > 0 {
			fail(fmt.Sprintf("ApplicationStop returned success while %d child(ren) of a member were still alive", o.KidsAlive))
		}
	}
}

func nodeChild(arg string) {}
