// Member deaths and stop calls DURING the spawn loop of application.start, on the real code.
// The goroutine inside ApplicationStart is parked at a lib.VerifPoint of the loop ("app.start.spawn"
// before the spawn of member k, "app.start.store" before the pid of member k is stored in the group),
// meanwhile a member that has sent itself a message in Init terminates and / or ApplicationStop is
// called; then the start goes on. The verdict uses timing-independent facts of the quiescent end state.
package main

import (
	"fmt"
	"sync"
	"sync/atomic"
	"time"

	"ergo.services/ergo/gen"
	"ergo.services/ergo/lib"
)

type StartObs struct {
	StartRet int   `json:"startret"`
	StopRet  int   `json:"stopret"` // -1: no stop call
	StopLive int   `json:"stoplive"`
	State    int   `json:"state"`
	Live     int   `json:"live"`
	Group    int   `json:"group"`     // pids in ApplicationInfo.Group at the end
	DeadIn   int   `json:"deadin"`    // ... of which are not registered in the node any more
	Starts   int   `json:"starts"`    // Start callbacks
	Terms    []int `json:"terms"`     // reasons given to the Terminate callback
	TermLive []int `json:"termlive"`  // members registered when it ran
	TermPos  int   `json:"termpos"`   // index of the first Terminate callback among the events (-1 none)
	StartPos int   `json:"startpos"`  // index of the Start callback among the events (-1 none)
	Inits    int   `json:"inits"`     // members initialised
	Parked   bool  `json:"parked"`
	Busy     int   `json:"busy"`      // members alive (killed, inside a callback) when the failed start returned
	Ret2     int   `json:"ret2"`      // second start (restart scenarios), -1 none
	State2   int   `json:"state2"`
	Live2    int   `json:"live2"`
	Terms2   []int `json:"terms2"`
}

// parks the (skip+1)-th arrival at label
type skipParker struct {
	label   string
	skip    atomic.Int64
	taken   atomic.Bool
	release chan struct{}
	once    sync.Once
}

func (p *skipParker) open() { p.once.Do(func() { close(p.release) }) }

func installSkipParker(label string, skip int, bound time.Duration) *skipParker {
	p := &skipParker{label: label, release: make(chan struct{})}
	p.skip.Store(int64(skip))
	if label == "" {
		return p
	}
	h := func(l string, obj any) {
		if l != p.label || p.taken.Load() {
			return
		}
		if p.skip.Add(-1) >= 0 {
			return
		}
		if p.taken.CompareAndSwap(false, true) {
			select {
			case <-p.release:
			case <-time.After(bound):
			}
		}
	}
	lib.VerifHook.Store(&h)
	return p
}

func runStartRace(node gen.Node, c ConcCase) StartObs {
	spec := AppSpec{Mode: c.Mode, N: c.N, Deps: []int{}, Kids: make([]int, c.N)}
	w := newWorld(node, []AppSpec{spec})
	a := w.apps[0]
	a.selfdie = make([]int, c.N)
	for i := range a.selfdie {
		a.selfdie[i] = -1
		if i < len(c.Self) {
			a.selfdie[i] = c.Self[i]
		}
	}
	a.selfbusy = c.Busy
	a.gate = make(chan struct{})
	if c.Fail >= 0 && c.Kind == "startfail" {
		a.fail.Store(int64(c.Fail))
	}
	ob := StartObs{StopRet: -1, Ret2: -1, TermPos: -1, StartPos: -1}
	if _, err := node.ApplicationLoad(a); err != nil {
		panic(err)
	}
	w.takeEvents()
	memberTerms.Store(0)

	p := installSkipParker(c.Park, c.Skip, 400*time.Millisecond)
	var wg sync.WaitGroup
	var startDone atomic.Bool
	start := func() int {
		switch c.Mode {
		case 2:
			return retCode(node.ApplicationStartTransient(a.name, gen.ApplicationOptions{}))
		case 3:
			return retCode(node.ApplicationStartPermanent(a.name, gen.ApplicationOptions{}))
		}
		return retCode(node.ApplicationStartTemporary(a.name, gen.ApplicationOptions{}))
	}
	wg.Add(1)
	go func() {
		defer wg.Done()
		ob.StartRet = start()
		ob.Busy = len(a.liveMembers())
		startDone.Store(true)
	}()
	if c.Park != "" {
		for k := 0; k < 2000 && !p.taken.Load() && !startDone.Load(); k++ {
			sleepShort()
		}
	}
	ob.Parked = p.taken.Load()
	if c.Stop && !startDone.Load() {
		wg.Add(1)
		go func() {
			defer wg.Done()
			if c.Force {
				ob.StopRet = retCode(node.ApplicationStopForce(a.name))
			} else {
				ob.StopRet = retCode(node.ApplicationStopWithTimeout(a.name, 300*time.Millisecond))
			}
			ob.StopLive = len(a.liveMembers())
		}()
	}
	// let everything that can happen while the start is held happen: the self-terminating members that have
	// been spawned die, the stop call tells the members and they die
	stable := 0
	last := int64(-1)
	for k := 0; k < 400 && stable < 25; k++ {
		sleepShort()
		cur := memberTerms.Load()*1000 + int64(len(a.liveMembers()))
		if info, err := node.ApplicationInfo(a.name); err == nil {
			cur = cur*10 + int64(info.State)
		}
		if cur == last {
			stable++
		} else {
			stable, last = 0, cur
		}
	}
	p.open()
	if c.Kind == "startfail" && c.Restart {
		// restart right after the failed start, while the killed member is still inside its callback
		for k := 0; k < 4000 && !startDone.Load(); k++ {
			sleepShort()
		}
		a.fail.Store(-1)
		a.selfbusy = -1
		w.takeEvents()
		ob.Ret2 = start()
		for k := 0; k < 20; k++ {
			sleepShort()
		}
		close(a.gate) // the killed member of the failed attempt leaves its callback and terminates
		for k := 0; k < 200; k++ {
			sleepShort()
		}
		if info, err := node.ApplicationInfo(a.name); err == nil {
			ob.State2 = int(info.State)
		}
		ob.Live2 = len(a.liveMembers())
		ob.Terms2 = []int{}
		for _, e := range w.takeEvents() {
			if e.K == 2 {
				ob.Terms2 = append(ob.Terms2, e.M)
			}
		}
	} else if c.Kind == "startfail" {
		for k := 0; k < 4000 && !startDone.Load(); k++ {
			sleepShort()
		}
		if info, err := node.ApplicationInfo(a.name); err == nil {
			ob.State2 = int(info.State) // state right after the failed start
		}
		close(a.gate)
	}
	wg.Wait()
	// quiescence: until nothing changes any more
	stable, last = 0, -1
	for k := 0; k < 3000 && stable < 40; k++ {
		sleepShort()
		cur := memberTerms.Load()*1000 + int64(len(a.liveMembers()))
		if info, err := node.ApplicationInfo(a.name); err == nil {
			cur = cur*10 + int64(info.State)
		}
		if cur == last {
			stable++
		} else {
			stable, last = 0, cur
		}
	}
	uninstallHook()
	for i, e := range w.takeEvents() {
		switch e.K {
		case 0:
			ob.Inits++
		case 1:
			ob.Starts++
			ob.StartPos = i
		case 2:
			ob.Terms = append(ob.Terms, e.M)
			ob.TermLive = append(ob.TermLive, e.L)
			if ob.TermPos < 0 {
				ob.TermPos = i
			}
		}
	}
	if ob.Terms == nil {
		ob.Terms, ob.TermLive = []int{}, []int{}
	}
	if info, err := node.ApplicationInfo(a.name); err == nil {
		ob.State = int(info.State)
		ob.Group = len(info.Group)
		for _, pid := range info.Group {
			if _, err := node.ProcessInfo(pid); err != nil {
				ob.DeadIn++
			}
		}
	}
	ob.Live = len(a.liveMembers())
	// clean up whatever is left
	node.ApplicationStopForce(a.name)
	for k := 0; k < 300; k++ {
		if node.ApplicationUnload(a.name) != gen.ErrApplicationRunning {
			break
		}
		sleepShort()
	}
	return ob
}

// the property on the quiescent end state (C17: members, callbacks, state; stop truthful)
func judgeStartRace(c ConcCase, o StartObs) []string {
	var bad []string
	if o.DeadIn > 0 {
		bad = append(bad, fmt.Sprintf("%d terminated member(s) are still in the application's group (state %d): the application can never reach 'loaded'", o.DeadIn, o.State))
	}
	switch o.State {
	case 1:
		if o.Live != 0 {
			bad = append(bad, fmt.Sprintf("application is loaded (start returned %d) while %d member(s) are alive", o.StartRet, o.Live))
		}
	case 2:
		if o.Live == 0 {
			bad = append(bad, "application is running with no live member")
		}
		if len(o.Terms) != 0 {
			bad = append(bad, fmt.Sprintf("application is running but the Terminate callback ran (%v)", o.Terms))
		}
	case 3:
		bad = append(bad, fmt.Sprintf("application is stuck in 'stopping' at quiescence with %d live member(s) (start returned %d, stop returned %d)", o.Live, o.StartRet, o.StopRet))
	}
	if len(o.Terms) > 1 {
		bad = append(bad, fmt.Sprintf("Terminate callback ran %d times (%v)", len(o.Terms), o.Terms))
	}
	if o.StartRet == retOK {
		if o.Starts != 1 {
			bad = append(bad, fmt.Sprintf("start succeeded with %d Start callbacks", o.Starts))
		}
		if o.State == 1 && len(o.Terms) != 1 {
			bad = append(bad, fmt.Sprintf("the run is over (loaded) but the Terminate callback ran %d times", len(o.Terms)))
		}
		if o.TermPos >= 0 && o.StartPos > o.TermPos {
			bad = append(bad, "the Terminate callback ran before the Start callback of the same run")
		}
	} else if o.Starts != 0 {
		bad = append(bad, fmt.Sprintf("start failed (%d) but the Start callback ran", o.StartRet))
	}
	for _, l := range o.TermLive {
		if l != 0 {
			bad = append(bad, fmt.Sprintf("Terminate callback ran while %d member(s) were registered", l))
		}
	}
	if o.StopRet == retOK && o.StopLive != 0 {
		bad = append(bad, fmt.Sprintf("stop returned success while %d member(s) were alive", o.StopLive))
	}
	// the mode rule holds for a death DURING the start as for any other: Permanent - any member's death ends the
	// run, Transient - an abnormal one does; the run ends with the causing reason
	if !c.Stop && o.StartRet == retOK {
		died, abnormal, cause, mixed := false, false, -1, false
		for _, r := range c.Self {
			if r < 0 {
				continue
			}
			died = true
			if r != rNormal && r != rShutdown {
				abnormal = true
			}
			if cause >= 0 && cause != r {
				mixed = true
			}
			cause = r
		}
		if (c.Mode == 3 && died) || (c.Mode == 2 && abnormal) {
			if o.State != 1 {
				bad = append(bad, fmt.Sprintf("mode rule: a member of a %s application died (reason %d) while the start was in progress, yet the application is in state %d with %d live member(s) and %d Terminate callback(s)",
					map[int]string{2: "transient", 3: "permanent"}[c.Mode], cause, o.State, o.Live, len(o.Terms)))
			} else if !mixed && len(o.Terms) == 1 && o.Terms[0] != cause {
				bad = append(bad, fmt.Sprintf("mode rule: the run ended by the death of a member (reason %d) reports reason %d to Terminate", cause, o.Terms[0]))
			}
		}
	}
	return bad
}

// a failed start (member Fail refuses to start) while an earlier member is inside a callback
func judgeStartFail(c ConcCase, o StartObs) []string {
	var bad []string
	if o.StartRet != retInit {
		return []string{fmt.Sprintf("start returned %d, expected the error of the member's Init", o.StartRet)}
	}
	if o.Busy != 0 {
		bad = append(bad, fmt.Sprintf("failed start returned (state %d) while %d started member(s) were still alive", o.State2, o.Busy))
	}
	if c.Restart && o.Ret2 == retOK && (o.State2 != 2 || o.Live2 != c.N) {
		bad = append(bad, fmt.Sprintf("restart after the failed start: state %d, %d of %d members alive, Terminate %v - the death of a member of the failed attempt ended the new run", o.State2, o.Live2, c.N, o.Terms2))
	}
	return bad
}

func startRaceCorpus() []ConcCase {
	var l []ConcCase
	for mode := 1; mode <= 3; mode++ {
		for _, r := range []int{0, 4} {
			// (a) member 0 terminates between its spawn and group.Store
			l = append(l, ConcCase{Kind: "startrace", Mode: mode, N: 1, Self: []int{r}, Park: "app.start.store", Fail: -1, Busy: -1})
			l = append(l, ConcCase{Kind: "startrace", Mode: mode, N: 2, Self: []int{r, -1}, Park: "app.start.store", Fail: -1, Busy: -1})
			l = append(l, ConcCase{Kind: "startrace", Mode: mode, N: 3, Self: []int{-1, r, -1}, Park: "app.start.store", Skip: 1, Fail: -1, Busy: -1})
			// (c) member 0 terminates while the start is about to spawn member 1
			l = append(l, ConcCase{Kind: "startrace", Mode: mode, N: 2, Self: []int{r, -1}, Park: "app.start.spawn", Skip: 1, Fail: -1, Busy: -1})
			l = append(l, ConcCase{Kind: "startrace", Mode: mode, N: 3, Self: []int{r, -1, -1}, Park: "app.start.spawn", Skip: 2, Fail: -1, Busy: -1})
			// ... or while it is about to run the Start callback
			l = append(l, ConcCase{Kind: "startrace", Mode: mode, N: 2, Self: []int{r, -1}, Park: "app.start.cb", Fail: -1, Busy: -1})
			l = append(l, ConcCase{Kind: "startrace", Mode: mode, N: 2, Self: []int{r, r}, Park: "app.start.cb", Fail: -1, Busy: -1})
		}
		// (b) stop during the loop
		l = append(l, ConcCase{Kind: "startrace", Mode: mode, N: 2, Self: []int{-1, -1}, Park: "app.start.spawn", Skip: 1, Stop: true, Fail: -1, Busy: -1})
		l = append(l, ConcCase{Kind: "startrace", Mode: mode, N: 3, Self: []int{-1, -1, -1}, Park: "app.start.spawn", Skip: 1, Stop: true, Fail: -1, Busy: -1})
		l = append(l, ConcCase{Kind: "startrace", Mode: mode, N: 3, Self: []int{-1, -1, -1}, Park: "app.start.store", Skip: 1, Stop: true, Fail: -1, Busy: -1})
		l = append(l, ConcCase{Kind: "startrace", Mode: mode, N: 2, Self: []int{-1, -1}, Park: "app.start.cb", Stop: true, Fail: -1, Busy: -1})
		l = append(l, ConcCase{Kind: "startrace", Mode: mode, N: 2, Self: []int{-1, -1}, Park: "app.start.spawn", Skip: 1, Stop: true, Force: true, Fail: -1, Busy: -1})
	}
	return l
}

func startFailCorpus() []ConcCase {
	var l []ConcCase
	for mode := 1; mode <= 3; mode++ {
		l = append(l, ConcCase{Kind: "startfail", Mode: mode, N: 2, Fail: 1, Busy: 0, Tags: []string{"rollback-busy"}})
		l = append(l, ConcCase{Kind: "startfail", Mode: mode, N: 2, Fail: 1, Busy: 0, Restart: true, Tags: []string{"rollback-busy"}})
	}
	return l
}
