// Histories in which an application is in state 'stopping' while other operations are called
// (App/Hold.v, App/HoldCases.v): a member is held inside a message handler, so a stop request with a short
// timeout (ApplicationStopWithTimeout -> ErrApplicationStopping) or the mode rule leaves the application
// stopping with exactly the held members alive until they are released. The interesting operation is
// ApplicationStart of an application whose DEPENDENCY is stopping at that moment: it must be refused with
// ErrApplicationDepends; a success means every dependency is running at the return of the call.
// Deterministic: nothing is in flight except the held members, so the observation taken at the return
// of a call is the quiescent one.
package main

import (
	"fmt"
	"math/rand"
	"strings"
	"time"

	"ergo.services/ergo/gen"
	"verifharness/util"
)

// handled by member (app.go): signal on in, then wait on gate, then go on normally
type holdMsg struct {
	gate chan struct{}
	in   chan struct{}
}

// Op kinds: load unload start hold (M) release (M) stopt die (M, R)
type HCase struct {
	Hold bool      `json:"hold"`
	Apps []AppSpec `json:"apps"`
	Ops  []Op      `json:"ops"`
	Tags []string  `json:"tags"`
}

const stopTimeout = 25 * time.Millisecond

// ---- oracle: App/Hold.v again, used ONLY to know what to wait for ------------------------
type hoApp struct {
	st   int
	live []bool
	held []bool
}

type horacle struct {
	spec  []AppSpec
	a     []hoApp
	terms int // runs that came to an end: Terminate callbacks to wait for (see seq.go)
}

func newHOracle(spec []AppSpec) *horacle {
	o := &horacle{spec: spec}
	for _, s := range spec {
		o.a = append(o.a, hoApp{live: make([]bool, s.N), held: make([]bool, s.N)})
	}
	return o
}

func (o *horacle) nlive(a int) int {
	n := 0
	for _, b := range o.a[a].live {
		if b {
			n++
		}
	}
	return n
}

// everybody is told: the members that are not inside a handler terminate
func (o *horacle) tell(a int) {
	x := &o.a[a]
	for i := range x.live {
		if !x.held[i] {
			x.live[i] = false
		}
	}
	if o.nlive(a) == 0 {
		x.st = 1
		o.terms++
		for i := range x.held {
			x.held[i] = false
		}
	} else {
		x.st = 3
	}
}

func (o *horacle) start(a int, visiting []int) int {
	if o.a[a].st == 0 {
		return retUnknown
	}
	for _, v := range visiting {
		if v == a {
			return retDepends
		}
	}
	for _, d := range o.spec[a].Deps {
		r := o.start(d, append(append([]int{}, visiting...), a))
		if r != retOK && r != retRunning {
			return retDepends
		}
	}
	x := &o.a[a]
	switch x.st {
	case 2:
		return retRunning
	case 3:
		return retState
	}
	for i := range x.live {
		x.live[i], x.held[i] = true, false
	}
	x.st = 2
	return retOK
}

func (o *horacle) can(op Op) bool {
	x := &o.a[op.A]
	switch op.K {
	case "hold", "die":
		return x.st == 2 && op.M < len(x.live) && x.live[op.M] && !x.held[op.M]
	case "release":
		return (x.st == 2 || x.st == 3) && op.M < len(x.live) && x.live[op.M] && x.held[op.M]
	}
	return true
}

func (o *horacle) apply(op Op) {
	x := &o.a[op.A]
	if !o.can(op) {
		return
	}
	switch op.K {
	case "load":
		if x.st == 0 {
			x.st = 1
		}
	case "unload":
		if x.st == 1 {
			x.st = 0
		}
	case "start":
		o.start(op.A, nil)
	case "hold":
		x.held[op.M] = true
	case "release":
		x.held[op.M] = false
		if x.st == 3 {
			x.live[op.M] = false
			if o.nlive(op.A) == 0 {
				x.st = 1
				o.terms++
			}
		}
	case "stopt":
		if x.st == 2 {
			o.tell(op.A)
		}
	case "die":
		mode := o.spec[op.A].Mode
		if mode == 3 || (mode == 2 && abnormal(op.R)) {
			x.live[op.M] = false
			o.tell(op.A)
			return
		}
		x.live[op.M] = false
		if o.nlive(op.A) == 0 {
			x.st = 1
			o.terms++
		}
	}
}

// ---- running a case ---------------------------------------------------------------------
type holdRun struct {
	w     *world
	gates []map[int]chan struct{} // per application: member -> gate of the handler it is held in
}

func (h *holdRun) memberPid(a *appInst, m int) (gen.PID, bool) {
	a.mu.Lock()
	var pid gen.PID
	if m < len(a.pids) {
		pid = a.pids[m]
	}
	a.mu.Unlock()
	var empty gen.PID
	if pid == empty {
		return pid, false
	}
	if _, err := h.w.node.ProcessInfo(pid); err != nil {
		return pid, false
	}
	return pid, true
}

func (h *holdRun) running(a *appInst) bool {
	info, err := h.w.node.ApplicationInfo(a.name)
	return err == nil && info.State == gen.ApplicationStateRunning
}

func (h *holdRun) do(op Op) int {
	a := h.w.apps[op.A]
	n := h.w.node
	switch op.K {
	case "load":
		_, err := n.ApplicationLoad(a)
		return retCode(err)
	case "unload":
		return retCode(n.ApplicationUnload(a.name))
	case "start":
		return retCode(n.ApplicationStart(a.name, gen.ApplicationOptions{}))
	case "stopt":
		// the short timeout matters only when somebody is held; otherwise leave the members time to terminate
		// (a loaded machine must not turn a clean stop into ErrApplicationStopping)
		timeout := 3 * time.Second
		if len(h.gates[op.A]) > 0 {
			timeout = stopTimeout
		}
		return retCode(n.ApplicationStopWithTimeout(a.name, timeout))
	case "hold":
		pid, alive := h.memberPid(a, op.M)
		if !alive || h.gates[op.A][op.M] != nil || !h.running(a) {
			return retOther
		}
		g, in := make(chan struct{}), make(chan struct{})
		n.Send(pid, holdMsg{gate: g, in: in})
		select {
		case <-in:
		case <-time.After(5 * time.Second):
		}
		h.gates[op.A][op.M] = g
		return retOK
	case "release":
		g := h.gates[op.A][op.M]
		if _, alive := h.memberPid(a, op.M); !alive || g == nil {
			return retOther
		}
		close(g)
		delete(h.gates[op.A], op.M)
		return retOK
	case "die":
		pid, alive := h.memberPid(a, op.M)
		if !alive || h.gates[op.A][op.M] != nil || !h.running(a) {
			return retOther
		}
		if op.R == rKill {
			n.Kill(pid)
		} else {
			n.Send(pid, dieMsg{how: op.R})
		}
		return retOK
	}
	return retOther
}

func sameHState(o Obs, or *horacle) bool {
	for i, a := range o.Apps {
		if a.St != or.a[i].st || len(a.Live) != or.nlive(i) || a.Grp != or.nlive(i) {
			return false
		}
	}
	return true
}

func sameApps(x, y Obs) bool {
	for i := range x.Apps {
		if x.Apps[i].St != y.Apps[i].St || fmt.Sprint(x.Apps[i].Live) != fmt.Sprint(y.Apps[i].Live) {
			return false
		}
	}
	return true
}

// runHold executes the history; returns the observations and, per operation, a note when the state seen at
// the return of ApplicationStart is not the quiescent one
func runHold(node gen.Node, c HCase) ([]Obs, []string) {
	w := newWorld(node, c.Apps)
	h := &holdRun{w: w}
	for range c.Apps {
		h.gates = append(h.gates, map[int]chan struct{}{})
	}
	or := newHOracle(c.Apps)
	var res []Obs
	var notes []string
	for i, op := range c.Ops {
		ret := h.do(op)
		atReturn := w.observe(ret)
		or.apply(op)
		wait := 1500 * time.Millisecond
		if slowOps > 12 {
			wait = 60 * time.Millisecond
		}
		deadline := time.Now().Add(wait)
		var o Obs
		for {
			o = w.observe(ret)
			if sameHState(o, or) && w.terms() >= or.terms {
				break
			}
			if time.Now().After(deadline) {
				o.Slow = true
				slowOps++
				break
			}
			sleepShort()
		}
		for k := 0; k < 3; k++ {
			sleepShort()
		}
		o2 := w.observe(ret)
		o2.Slow = o.Slow
		o2.Ev = w.takeEvents()
		if op.K == "start" {
			// the property speaks about the moment the call returns
			if !sameApps(atReturn, o2) {
				notes = append(notes, fmt.Sprintf("op %d (start app %d): applications at the return of the call %v, at quiescence %v", i, op.A, briefApps(atReturn), briefApps(o2)))
			}
			o2.Apps = atReturn.Apps
		}
		res = append(res, o2)
	}
	// leave the node clean: release everybody first
	for _, gs := range h.gates {
		for _, g := range gs {
			close(g)
		}
	}
	for _, a := range w.apps {
		node.ApplicationStopForce(a.name)
	}
	for _, a := range w.apps {
		for k := 0; k < 2000; k++ {
			if node.ApplicationUnload(a.name) != gen.ErrApplicationRunning {
				break
			}
			sleepShort()
		}
	}
	return res, notes
}

func briefApps(o Obs) string {
	var p []string
	for _, a := range o.Apps {
		p = append(p, fmt.Sprintf("%d%v", a.St, a.Live))
	}
	return strings.Join(p, " ")
}

// ---- generator --------------------------------------------------------------------------
func genHold(r *rand.Rand) HCase {
	na := 2 + r.Intn(2)
	c := HCase{Hold: true, Tags: []string{}}
	for i := 0; i < na; i++ {
		s := AppSpec{Mode: 1 + r.Intn(3), N: 1 + r.Intn(3), Deps: []int{}}
		s.Kids = make([]int, s.N)
		for j := 0; j < i; j++ {
			if r.Intn(10) < 7 {
				s.Deps = append(s.Deps, j)
			}
		}
		if i == na-1 && len(s.Deps) == 0 {
			s.Deps = append(s.Deps, r.Intn(i))
		}
		// a dependency list need not be sorted
		r.Shuffle(len(s.Deps), func(x, y int) { s.Deps[x], s.Deps[y] = s.Deps[y], s.Deps[x] })
		c.Apps = append(c.Apps, s)
	}
	or := newHOracle(c.Apps)
	emit := func(op Op) {
		c.Ops = append(c.Ops, op)
		or.apply(op)
	}
	for i := 0; i < na; i++ {
		if r.Intn(10) != 0 {
			emit(Op{K: "load", A: i})
		}
	}
	pick := func(f func(a, m int) bool) (int, int, bool) {
		var as, ms []int
		for a := range or.a {
			for m := range or.a[a].live {
				if f(a, m) {
					as, ms = append(as, a), append(ms, m)
				}
			}
		}
		if len(as) == 0 {
			return 0, 0, false
		}
		k := r.Intn(len(as))
		return as[k], ms[k], true
	}
	free := func(a, m int) bool { x := or.a[a]; return x.st == 2 && x.live[m] && !x.held[m] }
	held := func(a, m int) bool { x := or.a[a]; return x.live[m] && x.held[m] }
	// an application one of whose dependencies is stopping right now
	dependent := func() (int, bool) {
		var l []int
		for a := range or.a {
			for _, d := range c.Apps[a].Deps {
				if or.a[d].st == 3 {
					l = append(l, a)
					break
				}
			}
		}
		if len(l) == 0 {
			return 0, false
		}
		return l[r.Intn(len(l))], true
	}
	// most histories begin with the scenario itself: a dependency is brought up, one or two of its members
	// are held, a stop request times out on them or the mode rule fires on a free member
	if r.Intn(10) < 7 {
		var ds []int
		for a := range c.Apps {
			ds = append(ds, c.Apps[a].Deps...)
		}
		d := ds[r.Intn(len(ds))]
		emit(Op{K: "start", A: d})
		inD := func(f func(a, m int) bool) func(a, m int) bool {
			return func(a, m int) bool { return a == d && f(a, m) }
		}
		for k := 0; k < 1+r.Intn(2); k++ {
			if a, m, ok := pick(inD(free)); ok {
				emit(Op{K: "hold", A: a, M: m})
			}
		}
		if a, m, ok := pick(inD(free)); ok && r.Intn(2) == 0 {
			emit(Op{K: "die", A: a, M: m, R: []int{0, 2, 3, 4}[r.Intn(4)]})
		} else {
			emit(Op{K: "stopt", A: d})
		}
		if a, ok := dependent(); ok {
			emit(Op{K: "start", A: a})
		}
	}
	nops := 6 + r.Intn(12)
	for k := 0; k < nops; k++ {
		// the operation this family is about: start on top of a stopping dependency
		if a, ok := dependent(); ok && r.Intn(10) < 4 {
			emit(Op{K: "start", A: a})
			continue
		}
		switch p := r.Intn(20); {
		case p < 5:
			emit(Op{K: "start", A: r.Intn(na)})
		case p < 9:
			if a, m, ok := pick(free); ok {
				emit(Op{K: "hold", A: a, M: m})
			} else {
				emit(Op{K: "start", A: r.Intn(na)})
			}
		case p < 12:
			// prefer an application with a held member: that is what makes it linger in stopping
			if a, _, ok := pick(held); ok && r.Intn(4) != 0 {
				emit(Op{K: "stopt", A: a})
			} else {
				emit(Op{K: "stopt", A: r.Intn(na)})
			}
		case p < 15:
			if a, m, ok := pick(free); ok {
				emit(Op{K: "die", A: a, M: m, R: []int{0, 1, 2, 3, 4, 4}[r.Intn(6)]})
			}
		case p < 19:
			if a, m, ok := pick(held); ok {
				emit(Op{K: "release", A: a, M: m})
			} else {
				emit(Op{K: "start", A: na - 1})
			}
		default:
			if r.Intn(2) == 0 {
				emit(Op{K: "unload", A: r.Intn(na)})
			} else {
				emit(Op{K: "load", A: r.Intn(na)})
			}
		}
	}
	// the end of every stop in progress is part of the history
	for {
		a, m, ok := pick(held)
		if !ok {
			break
		}
		emit(Op{K: "release", A: a, M: m})
	}
	emit(Op{K: "start", A: na - 1})
	return c
}

// fixed histories, always run first
func holdCorpus() []HCase {
	ap := func(mode, n int, deps ...int) AppSpec {
		if deps == nil {
			deps = []int{}
		}
		return AppSpec{Mode: mode, N: n, Deps: deps, Kids: make([]int, n)}
	}
	mk := func(apps []AppSpec, ops ...Op) HCase {
		return HCase{Hold: true, Apps: apps, Ops: ops, Tags: []string{}}
	}
	load2 := []Op{{K: "load", A: 0}, {K: "load", A: 1}}
	var l []HCase
	// a stop request timed out on a held member: the dependency is stopping when the dependent is started
	for mode := 1; mode <= 3; mode++ {
		l = append(l, mk([]AppSpec{ap(mode, 2), ap(1, 1, 0)}, append(append([]Op{}, load2...),
			Op{K: "start", A: 0}, Op{K: "hold", A: 0, M: 1}, Op{K: "stopt", A: 0}, Op{K: "start", A: 1},
			Op{K: "stopt", A: 0}, Op{K: "start", A: 1}, Op{K: "release", A: 0, M: 1}, Op{K: "start", A: 1}, Op{K: "start", A: 1})...))
	}
	// the mode rule fired (permanent: any reason; transient: abnormal ones) and a member is still held
	for _, mr := range [][2]int{{3, 0}, {3, 1}, {3, 2}, {3, 4}, {2, 2}, {2, 3}, {2, 4}} {
		l = append(l, mk([]AppSpec{ap(mr[0], 2), ap(2, 2, 0)}, append(append([]Op{}, load2...),
			Op{K: "start", A: 1}, Op{K: "hold", A: 0, M: 1}, Op{K: "die", A: 0, M: 0, R: mr[1]}, Op{K: "start", A: 1},
			Op{K: "stopt", A: 1}, Op{K: "start", A: 1}, Op{K: "release", A: 0, M: 1}, Op{K: "start", A: 1})...))
	}
	// two held members: still stopping after the first release
	l = append(l, mk([]AppSpec{ap(2, 3), ap(1, 1, 0)}, append(append([]Op{}, load2...),
		Op{K: "start", A: 0}, Op{K: "hold", A: 0, M: 1}, Op{K: "hold", A: 0, M: 2}, Op{K: "die", A: 0, M: 0, R: 2},
		Op{K: "start", A: 1}, Op{K: "release", A: 0, M: 1}, Op{K: "start", A: 1}, Op{K: "release", A: 0, M: 2}, Op{K: "start", A: 1})...))
	// chain 2 -> 1 -> 0, the far end is stopping; nothing of 1 and 2 may be started
	l = append(l, mk([]AppSpec{ap(1, 1), ap(1, 2, 0), ap(1, 1, 1)},
		Op{K: "load", A: 0}, Op{K: "load", A: 1}, Op{K: "load", A: 2}, Op{K: "start", A: 0}, Op{K: "hold", A: 0, M: 0},
		Op{K: "stopt", A: 0}, Op{K: "start", A: 2}, Op{K: "start", A: 1}, Op{K: "release", A: 0, M: 0}, Op{K: "start", A: 2}))
	// two dependencies: the loaded one in front of the stopping one is started, the dependent is not;
	// and in the other order nothing is started
	for _, deps := range [][]int{{0, 1}, {1, 0}} {
		l = append(l, mk([]AppSpec{ap(1, 1), ap(3, 2), ap(1, 2, deps...)},
			Op{K: "load", A: 0}, Op{K: "load", A: 1}, Op{K: "load", A: 2}, Op{K: "start", A: 1}, Op{K: "hold", A: 1, M: 0},
			Op{K: "die", A: 1, M: 1, R: 0}, Op{K: "start", A: 2}, Op{K: "release", A: 1, M: 0}, Op{K: "start", A: 2}))
	}
	// a held member of a RUNNING dependency is no obstacle; the dependent running on top, then the
	// dependency is stopped: the dependent answers ErrApplicationRunning, a third one is refused
	l = append(l, mk([]AppSpec{ap(1, 2), ap(1, 1, 0), ap(1, 1, 0)},
		Op{K: "load", A: 0}, Op{K: "load", A: 1}, Op{K: "load", A: 2}, Op{K: "start", A: 0}, Op{K: "hold", A: 0, M: 0},
		Op{K: "start", A: 1}, Op{K: "stopt", A: 0}, Op{K: "start", A: 1}, Op{K: "start", A: 2}, Op{K: "start", A: 0},
		Op{K: "release", A: 0, M: 0}, Op{K: "start", A: 2}))
	// hold and release inside a running application, natural end afterwards
	l = append(l, mk([]AppSpec{ap(1, 2), ap(1, 1, 0)}, append(append([]Op{}, load2...),
		Op{K: "start", A: 1}, Op{K: "hold", A: 0, M: 0}, Op{K: "release", A: 0, M: 0}, Op{K: "die", A: 0, M: 0, R: 0},
		Op{K: "hold", A: 0, M: 1}, Op{K: "stopt", A: 0}, Op{K: "unload", A: 0}, Op{K: "start", A: 1}, Op{K: "release", A: 0, M: 1}, Op{K: "unload", A: 0}, Op{K: "start", A: 1})...))
	return l
}

// ---- Coq printing -----------------------------------------------------------------------
func coqHOp(op Op) string {
	switch op.K {
	case "load":
		return fmt.Sprintf("HLoad %d", op.A)
	case "unload":
		return fmt.Sprintf("HUnload %d", op.A)
	case "start":
		return fmt.Sprintf("HStart %d", op.A)
	case "hold":
		return fmt.Sprintf("HHold %d %d", op.A, op.M)
	case "release":
		return fmt.Sprintf("HRelease %d %d", op.A, op.M)
	case "stopt":
		return fmt.Sprintf("HStopT %d", op.A)
	case "die":
		return fmt.Sprintf("HDie %d %d %d", op.A, op.M, op.R)
	}
	panic("unknown hold operation " + op.K)
}

func coqHCase(c HCase, obs []Obs) string {
	var specs, steps []string
	for _, s := range c.Apps {
		specs = append(specs, fmt.Sprintf("mk_aspec %d %d %s", s.Mode, s.N, natList(s.Deps)))
	}
	for i, op := range c.Ops {
		steps = append(steps, fmt.Sprintf("(%s, %s)", coqHOp(op), coqObs(obs[i])))
	}
	return fmt.Sprintf("mk_hcase [%s] [%s]", strings.Join(specs, "; "), strings.Join(steps, "; "))
}

func mainHold(out *util.Out, n int, replay string) {
	node := startNode()
	defer node.StopForce()
	var cases []HCase
	if replay != "" {
		var c HCase
		loadReplay(replay, &c)
		cases = []HCase{c}
	} else {
		cases = append(cases, holdCorpus()...)
		r := util.Rng(19)
		for i := 0; i < n; i++ {
			cases = append(cases, genHold(r))
		}
	}
	for _, c := range cases {
		if c.Tags == nil {
			c.Tags = []string{}
		}
		c.Hold = true
		obs, notes := runHold(node, c)
		idx := out.Add(coqHCase(c, obs), c)
		out.Stats["cases"]++
		out.Stats["ops"] += len(c.Ops)
		for _, nt := range notes {
			out.Monitor = append(out.Monitor, util.MonitorFail{Case: idx, Tags: c.Tags, What: nt})
		}
		or := newHOracle(c.Apps)
		for i, op := range c.Ops {
			out.Stats["op:"+op.K]++
			out.Stats[fmt.Sprintf("ret:%s:%d", op.K, obs[i].Ret)]++
			if op.K == "start" && or.a[op.A].st == 1 {
				for _, d := range c.Apps[op.A].Deps {
					if or.a[d].st == 3 {
						out.Stats["start-with-stopping-dependency"]++
						break
					}
				}
			}
			if op.K == "start" && or.a[op.A].st == 3 {
				out.Stats["start-of-stopping-application"]++
			}
			or.apply(op)
			if obs[i].Slow {
				out.Stats["slow"]++
			}
			for ai := range obs[i].Apps {
				if obs[i].Apps[ai].St == 3 {
					out.Stats["observations-with-stopping-application"]++
					break
				}
			}
		}
	}
}
