// Concurrent member deaths / stop-vs-crash on the real application code.
// A lib.VerifPoint hook parks the FIRST goroutine that reaches a chosen yield point of
// node/application.go until the rest of the scenario has run to its end (or a bound expires),
// which forces the interleavings the sequential histories cannot reach. The verdict uses only
// timing-independent end-state facts (Go monitor).
package main

import (
	"fmt"
	"sync"
	"sync/atomic"
	"time"

	"ergo.services/ergo/gen"
	"ergo.services/ergo/lib"
	"verifharness/util"
)

type ConcCase struct {
	Kind  string   `json:"kind"` // deaths | stopcrash | stress | startrace
	Mode  int      `json:"mode"`
	N     int      `json:"n"`
	R     []int    `json:"r"`     // reason of the i-th dying member (member i)
	Park  string   `json:"park"`  // yield point at which the first arriving goroutine is held ("" = none)
	Force bool     `json:"force"` // stopcrash: ApplicationStopForce instead of ApplicationStop
	Tags  []string `json:"tags"`
	// startrace / startfail (startrace.go): the goroutine inside ApplicationStart is parked at the
	// (Skip+1)-th arrival at Park; member i sends itself a message in Init and terminates with reason
	// Self[i] (-1: stays); Stop: ApplicationStop is called while the start is parked;
	// startfail: member Fail refuses to start while member Busy is inside a callback; Restart: start again at once
	Self    []int `json:"self,omitempty"`
	Skip    int   `json:"skip,omitempty"`
	Stop    bool  `json:"stop,omitempty"`
	Fail    int   `json:"fail,omitempty"`
	Busy    int   `json:"busy,omitempty"`
	Restart bool  `json:"restart,omitempty"`
}

type ConcObs struct {
	Terms   []int `json:"terms"`   // reasons given to ApplicationBehavior.Terminate
	LiveAt  []int `json:"liveat"`  // members still registered when it ran
	State   int   `json:"state"`   // at the end
	Live    int   `json:"live"`    // members alive at the end
	MTerms  int   `json:"mterms"`  // member Terminate callbacks that ran
	StopRet int   `json:"stopret"` // -1: no stop call
	StopLive int  `json:"stoplive"` // members alive when the stop call returned
	Parked  bool  `json:"parked"`
}

var memberTerms atomic.Int64

func (m *member) Terminate(reason error) { memberTerms.Add(1) }

type parker struct {
	label   string
	taken   atomic.Bool
	release chan struct{}
	once    sync.Once
}

func (p *parker) open() { p.once.Do(func() { close(p.release) }) }

func installParker(label string, bound time.Duration) *parker {
	p := &parker{label: label, release: make(chan struct{})}
	if label == "" {
		return p
	}
	h := func(l string, obj any) {
		if l != p.label {
			return
		}
		if p.taken.CompareAndSwap(false, true) {
			select {
			case <-p.release:
			case <-time.After(bound):
			}
		}
	}
	lib.VerifHook.Store(&h)
	return p
}

func uninstallHook() { lib.VerifHook.Store(nil) }

func runConc(node gen.Node, c ConcCase) ConcObs {
	spec := AppSpec{Mode: c.Mode, N: c.N, Deps: []int{}, Kids: make([]int, c.N)}
	w := newWorld(node, []AppSpec{spec})
	a := w.apps[0]
	ob := ConcObs{StopRet: -1}
	if _, err := node.ApplicationLoad(a); err != nil {
		panic(err)
	}
	if err := node.ApplicationStart(a.name, gen.ApplicationOptions{}); err != nil {
		panic(err)
	}
	time.Sleep(300 * time.Microsecond)
	w.takeEvents()
	memberTerms.Store(0)
	a.mu.Lock()
	pids := append([]gen.PID{}, a.pids...)
	a.mu.Unlock()

	p := installParker(c.Park, 40*time.Millisecond)
	die := func(i int) {
		if c.R[i] == rKill {
			node.Kill(pids[i])
		} else {
			node.Send(pids[i], dieMsg{how: c.R[i]})
		}
	}
	var wg sync.WaitGroup
	switch c.Kind {
	case "deaths", "stress":
		// member 0 first (its goroutine is the one that gets parked), the others while it is held
		wg.Add(1)
		go func() { defer wg.Done(); die(0) }()
		if c.Park != "" {
			for k := 0; k < 200 && !p.taken.Load(); k++ {
				sleepShort()
			}
		}
		for i := 1; i < len(c.R); i++ {
			wg.Add(1)
			go func(i int) { defer wg.Done(); die(i) }(i)
		}
		if c.Kind == "stress" {
			wg.Add(1)
			go func() {
				defer wg.Done()
				ob.StopRet = retCode(node.ApplicationStop(a.name))
				ob.StopLive = len(a.liveMembers())
			}()
		}
	case "stopcrash":
		// the stop call is the one that gets parked; a member crashes meanwhile
		wg.Add(1)
		go func() {
			defer wg.Done()
			if c.Force {
				ob.StopRet = retCode(node.ApplicationStopForce(a.name))
			} else {
				ob.StopRet = retCode(node.ApplicationStop(a.name))
			}
			ob.StopLive = len(a.liveMembers())
		}()
		if c.Park != "" {
			for k := 0; k < 200 && !p.taken.Load(); k++ {
				sleepShort()
			}
		}
		for i := 0; i < len(c.R); i++ {
			die(i)
		}
	}
	ob.Parked = p.taken.Load()
	// let everything that can finish without the parked goroutine finish, then release it
	for k := 0; k < 40; k++ {
		sleepShort()
	}
	p.open()
	wg.Wait()
	// quiescence: bounded wait for the expected end state (all dead, loaded), then a stability window
	must := mustStop(c)
	for k := 0; k < 3000; k++ {
		info, err := node.ApplicationInfo(a.name)
		if must && err == nil && info.State == gen.ApplicationStateLoaded && len(a.liveMembers()) == 0 && int(memberTerms.Load()) >= c.N {
			break
		}
		if !must && len(a.liveMembers()) == c.N-len(c.R) && int(memberTerms.Load()) >= len(c.R) {
			break
		}
		sleepShort()
	}
	for k := 0; k < 5; k++ {
		sleepShort()
	}
	uninstallHook()
	for _, e := range w.takeEvents() {
		if e.K == 2 {
			ob.Terms = append(ob.Terms, e.M)
			ob.LiveAt = append(ob.LiveAt, e.L)
		}
	}
	if info, err := node.ApplicationInfo(a.name); err == nil {
		ob.State = int(info.State)
	}
	ob.Live = len(a.liveMembers())
	ob.MTerms = int(memberTerms.Load())
	// clean up whatever is left
	node.ApplicationStopForce(a.name)
	for k := 0; k < 2000; k++ {
		if node.ApplicationUnload(a.name) != gen.ErrApplicationRunning {
			break
		}
		sleepShort()
	}
	return ob
}

// does the application have to stop at all?
func mustStop(c ConcCase) bool {
	must := c.Kind == "stopcrash" || c.Kind == "stress" || len(c.R) >= c.N
	for _, r := range c.R {
		if c.Mode == 3 || (c.Mode == 2 && abnormal(r)) {
			must = true
		}
	}
	return must
}

// the property on the end state
func judgeConc(c ConcCase, o ConcObs) []string {
	var bad []string
	must := mustStop(c)
	if must {
		if len(o.Terms) != 1 {
			bad = append(bad, fmt.Sprintf("Terminate callback ran %d times (reasons %v), expected exactly once", len(o.Terms), o.Terms))
		}
		if o.State != 1 || o.Live != 0 {
			bad = append(bad, fmt.Sprintf("end state %d with %d live members, expected loaded (1) and none", o.State, o.Live))
		}
		if o.MTerms != c.N {
			bad = append(bad, fmt.Sprintf("%d of %d members ran their own Terminate callback (a goroutine died in application.terminate)", o.MTerms, c.N))
		}
	} else {
		if len(o.Terms) != 0 || o.State != 2 || o.Live != c.N-len(c.R) {
			bad = append(bad, fmt.Sprintf("application must keep running: state %d live %d terminate callbacks %v", o.State, o.Live, o.Terms))
		}
	}
	for _, l := range o.LiveAt {
		if l != 0 {
			bad = append(bad, fmt.Sprintf("Terminate callback ran while %d members were still registered", l))
		}
	}
	if o.StopRet == retOK && o.StopLive != 0 {
		bad = append(bad, fmt.Sprintf("stop returned success while %d members were alive", o.StopLive))
	}
	return bad
}

// the reason handed to the Terminate callback must be one of the causes
func judgeCause(c ConcCase, o ConcObs) string {
	if len(o.Terms) != 1 {
		return ""
	}
	got := o.Terms[0]
	allowed := map[int]bool{}
	if c.Kind == "stopcrash" || c.Kind == "stress" {
		if c.Force {
			allowed[rKill] = true
		} else {
			allowed[rShutdown] = true
		}
	}
	rule := false
	for _, r := range c.R {
		if c.Mode == 3 || (c.Mode == 2 && abnormal(r)) {
			allowed[r] = true
			rule = true
		}
	}
	if !rule && len(allowed) == 0 {
		allowed[rNormal] = true
	}
	if c.Kind != "deaths" && !rule {
		// every member may have gone by itself before the stop call got anywhere
		allowed[rNormal] = true
	}
	if allowed[got] {
		return ""
	}
	return fmt.Sprintf("Terminate callback got reason %d, the causes are %v", got, keys(allowed))
}

func keys(m map[int]bool) []int {
	r := []int{}
	for k := range m {
		r = append(r, k)
	}
	return sortedInts(r)
}

var termLabels = []string{"app.term.mode", "app.term.stopping", "app.term.reason", "app.term.tell", "app.term.len", "app.term.default", "app.term.loaded", "app.term.close", "app.term.cb"}
var stopLabels = []string{"app.stop.mode", "app.stop.reason", "app.stop.tell", "app.stop.wait"}

func concCorpus() []ConcCase {
	var l []ConcCase
	// every yield point of terminate x every mode, two concurrent deaths out of two / three members
	for _, lab := range termLabels {
		for mode := 1; mode <= 3; mode++ {
			l = append(l, ConcCase{Kind: "deaths", Mode: mode, N: 2, R: []int{4, 3}, Park: lab})
			l = append(l, ConcCase{Kind: "deaths", Mode: mode, N: 3, R: []int{0, 4}, Park: lab})
			l = append(l, ConcCase{Kind: "deaths", Mode: mode, N: 2, R: []int{1, 0}, Park: lab})
		}
	}
	for _, lab := range stopLabels {
		for mode := 1; mode <= 3; mode++ {
			l = append(l, ConcCase{Kind: "stopcrash", Mode: mode, N: 2, R: []int{4}, Park: lab})
			l = append(l, ConcCase{Kind: "stopcrash", Mode: mode, N: 2, R: []int{4, 0}, Park: lab})
			l = append(l, ConcCase{Kind: "stopcrash", Mode: mode, N: 3, R: []int{2}, Park: lab, Force: true})
		}
	}
	return l
}

func mainConc(out *util.Out, n int, replay string, known []string) {
	node := startNode()
	defer node.StopForce()
	var cases []ConcCase
	if replay != "" {
		var c ConcCase
		loadReplay(replay, &c)
		cases = []ConcCase{c}
	} else {
		cases = concCorpus()
		cases = append(cases, startRaceCorpus()...)
		cases = append(cases, lateCauseCorpus()...)
		if hasTag(known, "rollback-busy") {
			cases = append(cases, startFailCorpus()...)
		}
		r := util.Rng(23)
		for i := 0; i < n; i++ {
			c := ConcCase{Mode: 1 + r.Intn(3), N: 1 + r.Intn(4)}
			nd := 1 + r.Intn(c.N)
			for k := 0; k < nd; k++ {
				c.R = append(c.R, []int{0, 1, 2, 3, 4}[r.Intn(5)])
			}
			switch r.Intn(4) {
			case 3:
				// sequential deaths with different reasons, the later ones from inside a handler
				c.Kind = "latecause"
				if c.N < 2 {
					c.N = 2
				}
				for len(c.R) < 2 {
					c.R = append(c.R, []int{0, 1, 3, 4}[r.Intn(4)])
				}
				for k := 1; k < len(c.R); k++ {
					if c.R[k] == rKill {
						c.R[k] = 3 + r.Intn(2)
					}
				}
			case 0:
				c.Kind = "stress"
			case 1:
				c.Kind, c.Park = "deaths", termLabels[r.Intn(len(termLabels))]
				if r.Intn(4) == 0 {
					c.Park = ""
				}
			default:
				c.Kind, c.Park, c.Force = "stopcrash", stopLabels[r.Intn(len(stopLabels))], r.Intn(3) == 0
			}
			cases = append(cases, c)
		}
	}
	causeKnown := hasTag(known, "cause-race")
	for _, c := range cases {
		if c.Tags == nil {
			c.Tags = []string{}
		}
		if c.Kind == "startrace" || c.Kind == "startfail" {
			o := runStartRace(node, c)
			idx := out.Add("", struct {
				ConcCase
				Obs StartObs `json:"obs"`
			}{c, o})
			out.Stats["runs"]++
			out.Stats["kind:"+c.Kind]++
			out.Stats[fmt.Sprintf("mode:%d", c.Mode)]++
			if o.Parked {
				out.Stats["parked"]++
			}
			judge := judgeStartRace
			if c.Kind == "startfail" {
				judge = judgeStartFail
			}
			for _, b := range judge(c, o) {
				out.Monitor = append(out.Monitor, util.MonitorFail{Case: idx, What: fmt.Sprintf("%s mode %d n %d self %v park %q skip %d stop %v: %s", c.Kind, c.Mode, c.N, c.Self, c.Park, c.Skip, c.Stop, b), Tags: c.Tags})
			}
			continue
		}
		var o ConcObs
		if c.Kind == "latecause" {
			o = runLateCause(node, c)
		} else {
			o = runConc(node, c)
		}
		idx := out.Add("", struct {
			ConcCase
			Obs ConcObs `json:"obs"`
		}{c, o})
		out.Stats["runs"]++
		out.Stats["kind:"+c.Kind]++
		out.Stats[fmt.Sprintf("mode:%d", c.Mode)]++
		if o.Parked {
			out.Stats["parked"]++
		}
		if len(o.Terms) == 1 {
			out.Stats[fmt.Sprintf("terminate-reason:%d", o.Terms[0])]++
		}
		judge := judgeConc
		if c.Kind == "latecause" {
			judge = judgeLateCause
		}
		for _, b := range judge(c, o) {
			out.Monitor = append(out.Monitor, util.MonitorFail{Case: idx, What: fmt.Sprintf("%s mode %d n %d reasons %v park %q: %s", c.Kind, c.Mode, c.N, c.R, c.Park, b), Tags: c.Tags})
		}
		if b := judgeCause(c, o); b != "" && c.Kind != "latecause" {
			out.Stats["cause-race-seen"]++
			if causeKnown {
				out.Monitor = append(out.Monitor, util.MonitorFail{Case: idx, What: fmt.Sprintf("%s mode %d n %d reasons %v park %q: %s", c.Kind, c.Mode, c.N, c.R, c.Park, b), Tags: append(append([]string{}, c.Tags...), "cause-race")})
			}
		}
	}
}
