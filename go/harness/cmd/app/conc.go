package main

import "verifharness/util"

func mainConc(out *util.Out, n int, replay string, known []string) {}
