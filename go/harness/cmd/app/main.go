// Harness of the App engine (C17 application lifecycle, C10 application/node part).
//   app seq   -n N [-known tags]   sequential histories vs App/Seq.v (Coq cases) + Go monitors
//   app conc  -n N                 hooked schedules of concurrent member deaths / stop (Coq cases)
//   app hold  -n N                 histories with an application in state stopping (held members) vs App/Hold.v (Coq cases)
//   app node  -n N [-known tags]   Node.Stop / StopForce with applications and stray processes (Go monitor)
package main

import (
	"encoding/json"
	"flag"
	"fmt"
	"os"
	"strings"

	"verifharness/util"
)

func hasTag(l []string, t string) bool {
	for _, x := range l {
		if x == t {
			return true
		}
	}
	return false
}

func main() {
	if len(os.Args) < 2 {
		fmt.Fprintln(os.Stderr, "usage: app <seq|conc|hold|node|nodechild> [flags]")
		os.Exit(2)
	}
	sub := os.Args[1]
	fs := flag.NewFlagSet(sub, flag.ExitOnError)
	n := fs.Int("n", 100, "number of generated cases")
	outp := fs.String("out", "", "output file")
	replay := fs.String("replay", "", "replay file written by bin/check")
	known := fs.String("known", "", "comma separated known-finding input classes to generate")
	arg := fs.String("arg", "", "internal (child process)")
	fs.Parse(os.Args[2:])
	kn := []string{}
	if *known != "" {
		kn = strings.Split(*known, ",")
	}
	out := util.NewOut("app-" + sub)
	switch sub {
	case "seq":
		mainSeq(out, *n, *replay, kn)
	case "conc":
		mainConc(out, *n, *replay, kn)
	case "hold":
		mainHold(out, *n, *replay)
	case "node":
		mainNode(out, *n, *replay, kn)
	case "nodechild":
		nodeChild(*arg)
		return
	default:
		fmt.Fprintln(os.Stderr, "unknown sub-command", sub)
		os.Exit(2)
	}
	if *outp != "" {
		out.Write(*outp)
	} else {
		json.NewEncoder(os.Stdout).Encode(out)
	}
}

func loadReplay(path string, v any) {
	b, err := os.ReadFile(path)
	if err != nil {
		panic(err)
	}
	var wrap struct {
		Case json.RawMessage `json:"case"`
	}
	if err := json.Unmarshal(b, &wrap); err != nil || wrap.Case == nil {
		panic(fmt.Sprintf("replay file %s has no case", path))
	}
	if err := json.Unmarshal(wrap.Case, v); err != nil {
		panic(err)
	}
}

func mainSeq(out *util.Out, n int, replay string, known []string) {
	node := startNode()
	defer node.StopForce()
	var cases []Case
	if replay != "" {
		var c Case
		loadReplay(replay, &c)
		cases = []Case{c}
	} else {
		cases = append(cases, corpusCases()...)
		cases = append(cases, cyclicCorpus()...)
		r := util.Rng(17)
		for i := 0; i < n; i++ {
			cases = append(cases, genCase(r, i%10 == 9))
		}
	}
	for _, c := range cases {
		if c.Tags == nil {
			c.Tags = []string{}
		}
		obs := runCase(node, c)
		idx := out.Add(coqCase(c, obs), c)
		out.Stats["cases"]++
		out.Stats["ops"] += len(c.Ops)
		out.Stats[fmt.Sprintf("apps:%d", len(c.Apps))]++
		if hasTag(c.Tags, "cyclic-deps") {
			out.Stats["cyclic"]++
		}
		or := newOracle(c.Apps)
		for i, op := range c.Ops {
			out.Stats["op:"+op.K]++
			out.Stats[fmt.Sprintf("ret:%d", obs[i].Ret)]++
			or.apply(op)
			if obs[i].Slow {
				out.Stats["slow"]++
			}
			for _, e := range obs[i].Ev {
				if e.K == 2 {
					out.Stats[fmt.Sprintf("terminate-reason:%d", e.M)]++
				}
			}
			// C10 (application part), stated directly: at quiescence nothing a dead member spawned is alive
			for ai, a := range obs[i].Apps {
				if a.Kids > or.nkids(ai) {
					out.Monitor = append(out.Monitor, util.MonitorFail{Case: idx, Tags: c.Tags,
						What: fmt.Sprintf("op %d (%s app %d): %d children of members still alive at quiescence, expected %d", i, op.K, ai, a.Kids, or.nkids(ai))})
				}
			}
		}
	}
}
