// The cause handed to the Terminate callback when several members terminate with DIFFERENT reasons
// during one stop: member 0 terminates with reason R[0] and the mode rule switches the application to
// 'stopping' (a.reason = R[0], everybody is told); member 1 is inside a message handler at that time,
// survives the stop request for a while and then terminates BY ITSELF with another reason R[1]
// (returns its own error / panics) before the run is finalised. The cause is R[0]: a.reason is set only
// by the transition that wins the CAS running->stopping. Deterministic (no race): member 1 is released
// only after member 0's terminate call is over.
package main

import (
	"fmt"
	"time"

	"ergo.services/ergo/gen"
)

// handled by member: wait on gate, then terminate with reason how
type busyDieMsg struct {
	gate chan struct{}
	how  int
	in   chan struct{}
}

func runLateCause(node gen.Node, c ConcCase) ConcObs {
	spec := AppSpec{Mode: c.Mode, N: c.N, Deps: []int{}, Kids: make([]int, c.N)}
	w := newWorld(node, []AppSpec{spec})
	a := w.apps[0]
	ob := ConcObs{StopRet: -1}
	if _, err := node.ApplicationLoad(a); err != nil {
		panic(err)
	}
	if err := node.ApplicationStart(a.name, gen.ApplicationOptions{}); err != nil {
		panic(err)
	}
	time.Sleep(300 * time.Microsecond)
	w.takeEvents()
	memberTerms.Store(0)
	a.mu.Lock()
	pids := append([]gen.PID{}, a.pids...)
	a.mu.Unlock()

	// members 1 .. len(R)-1 enter a handler and stay there
	gates := []chan struct{}{}
	for i := 1; i < len(c.R); i++ {
		g, in := make(chan struct{}), make(chan struct{})
		gates = append(gates, g)
		node.Send(pids[i], busyDieMsg{gate: g, how: c.R[i], in: in})
		select {
		case <-in:
		case <-time.After(200 * time.Millisecond):
		}
	}
	// member 0 terminates: the cause
	if c.R[0] == rKill {
		node.Kill(pids[0])
	} else {
		node.Send(pids[0], dieMsg{how: c.R[0]})
	}
	// until its terminate call is over (its own Terminate callback runs after unregisterProcess)
	for k := 0; k < 2000 && memberTerms.Load() < 1; k++ {
		sleepShort()
	}
	for k := 0; k < 10; k++ {
		sleepShort()
	}
	if info, err := node.ApplicationInfo(a.name); err == nil {
		ob.StopLive = int(info.State) // state while the busy members are held (3 if the mode rule fired)
	}
	// the held members now terminate by themselves, one after the other, each with its own reason
	for _, g := range gates {
		close(g)
		for k := 0; k < 20; k++ {
			sleepShort()
		}
	}
	must := mustStop(c)
	for k := 0; k < 3000; k++ {
		info, err := node.ApplicationInfo(a.name)
		if must && err == nil && info.State == gen.ApplicationStateLoaded && len(a.liveMembers()) == 0 && int(memberTerms.Load()) >= c.N {
			break
		}
		if !must && len(a.liveMembers()) == c.N-len(c.R) && int(memberTerms.Load()) >= len(c.R) {
			break
		}
		sleepShort()
	}
	for k := 0; k < 5; k++ {
		sleepShort()
	}
	for _, e := range w.takeEvents() {
		if e.K == 2 {
			ob.Terms = append(ob.Terms, e.M)
			ob.LiveAt = append(ob.LiveAt, e.L)
		}
	}
	if info, err := node.ApplicationInfo(a.name); err == nil {
		ob.State = int(info.State)
	}
	ob.Live = len(a.liveMembers())
	ob.MTerms = int(memberTerms.Load())
	node.ApplicationStopForce(a.name)
	for k := 0; k < 2000; k++ {
		if node.ApplicationUnload(a.name) != gen.ErrApplicationRunning {
			break
		}
		sleepShort()
	}
	return ob
}

// the expected cause: the reason of the FIRST death on which the mode rule fires (the deaths are
// sequential here); Temporary (or no firing death): `normal` from the last member, if everybody has gone
func lateCauseExpected(c ConcCase) (stops bool, reason int) {
	for _, r := range c.R {
		if c.Mode == 3 || (c.Mode == 2 && abnormal(r)) {
			return true, r
		}
	}
	if len(c.R) >= c.N {
		return true, rNormal
	}
	return false, 0
}

func judgeLateCause(c ConcCase, o ConcObs) []string {
	bad := judgeConc(c, o)
	stops, want := lateCauseExpected(c)
	if stops && len(o.Terms) == 1 && o.Terms[0] != want {
		bad = append(bad, fmt.Sprintf("Terminate callback got reason %d; the cause is %d (reason of the first death that stopped the application; later deaths had reasons %v)", o.Terms[0], want, c.R[1:]))
	}
	return bad
}

func lateCauseCorpus() []ConcCase {
	var l []ConcCase
	for _, mode := range []int{2, 3} {
		for _, n := range []int{2, 3} {
			l = append(l, ConcCase{Kind: "latecause", Mode: mode, N: n, R: []int{4, 3}})
			l = append(l, ConcCase{Kind: "latecause", Mode: mode, N: n, R: []int{3, 4}})
			l = append(l, ConcCase{Kind: "latecause", Mode: mode, N: n, R: []int{2, 4}})
			l = append(l, ConcCase{Kind: "latecause", Mode: mode, N: n, R: []int{2, 3}})
		}
		l = append(l, ConcCase{Kind: "latecause", Mode: mode, N: 3, R: []int{4, 3, 4}})
		l = append(l, ConcCase{Kind: "latecause", Mode: mode, N: 3, R: []int{3, 4, 3}})
	}
	// permanent: any first death is the cause, whatever comes later
	l = append(l, ConcCase{Kind: "latecause", Mode: 3, N: 2, R: []int{0, 4}})
	l = append(l, ConcCase{Kind: "latecause", Mode: 3, N: 3, R: []int{1, 3}})
	l = append(l, ConcCase{Kind: "latecause", Mode: 3, N: 3, R: []int{0, 3, 4}})
	// transient: a normal / shutdown death does not stop it; the first ABNORMAL one is the cause
	l = append(l, ConcCase{Kind: "latecause", Mode: 2, N: 3, R: []int{0, 4, 3}})
	l = append(l, ConcCase{Kind: "latecause", Mode: 2, N: 3, R: []int{1, 3, 4}})
	// temporary: deaths with different reasons never stop it; the last member gives `normal`
	l = append(l, ConcCase{Kind: "latecause", Mode: 1, N: 2, R: []int{4, 3}})
	l = append(l, ConcCase{Kind: "latecause", Mode: 1, N: 3, R: []int{3, 4}})
	return l
}
