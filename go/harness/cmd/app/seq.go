// Sequential histories of application operations on the real node, observed after every
// operation at quiescence and printed as Coq terms for App/Cases.v.
package main

import (
	"fmt"
	"math/rand"
	"strings"
	"time"

	"ergo.services/ergo/gen"
)

type AppSpec struct {
	Mode int   `json:"mode"` // 1 temporary 2 transient 3 permanent (gen.ApplicationMode*)
	N    int   `json:"n"`
	Deps []int `json:"deps"`
	Kids []int `json:"kids"` // LinkParent children per member
}

// Op kinds: load unload start (spec mode, dependencies first) startm (M = mode, no dependencies)
// stop force die (M = member, R = reason code) fail (M = member whose Init fails from now on, -1 = none)
type Op struct {
	K string `json:"k"`
	A int    `json:"a"`
	M int    `json:"m"`
	R int    `json:"r"`
}

type Case struct {
	Apps []AppSpec `json:"apps"`
	Ops  []Op      `json:"ops"`
	Tags []string  `json:"tags"`
}

type AppObs struct {
	St   int   `json:"st"` // 0 unknown to the node, 1 loaded, 2 running, 3 stopping
	Live []int `json:"live"`
	Grp  int   `json:"grp"`  // len(ApplicationInfo.Group)
	Kids int   `json:"kids"` // live children of members
}

type Obs struct {
	Ret  int      `json:"ret"`
	Apps []AppObs `json:"apps"`
	Ev   []Event  `json:"ev"`
	Slow bool     `json:"slow,omitempty"`
}

// ---- oracle: the sequential model again, used ONLY to know what to wait for -------------
type oApp struct {
	st     int
	mode   int
	live   []bool
	reason int
	fail   int
}

type oracle struct {
	spec []AppSpec
	a    []oApp
	// runs that came to an end (each one runs the Terminate callback): the state word is 'loaded' a moment
	// before the callback runs, so the wait for quiescence counts the callbacks as well
	terms int
}

func newOracle(spec []AppSpec) *oracle {
	o := &oracle{spec: spec}
	for _, s := range spec {
		o.a = append(o.a, oApp{st: 0, mode: s.Mode, live: make([]bool, s.N), reason: -1, fail: -1})
	}
	return o
}

func (o *oracle) nlive(a int) int {
	n := 0
	for _, b := range o.a[a].live {
		if b {
			n++
		}
	}
	return n
}

// children expected alive: those of the live members
func (o *oracle) nkids(a int) int {
	n := 0
	for i, b := range o.a[a].live {
		if b && i < len(o.spec[a].Kids) {
			n += o.spec[a].Kids[i]
		}
	}
	return n
}

func abnormal(r int) bool { return r != rNormal && r != rShutdown }

func (o *oracle) finish(a int) {
	x := &o.a[a]
	for i := range x.live {
		x.live[i] = false
	}
	x.st = 1
	o.terms++
}

func (o *oracle) appStart(a, mode int) int {
	x := &o.a[a]
	switch x.st {
	case 0:
		return retUnknown
	case 2:
		return retRunning
	case 3:
		return retState
	}
	x.reason = -1
	x.mode = mode
	if x.fail >= 0 && x.fail < o.spec[a].N {
		o.finish(a)
		o.terms-- // a rolled-back start: Start never ran, no Terminate callback to wait for
		return retInit
	}
	for i := range x.live {
		x.live[i] = true
	}
	x.st = 2
	return retOK
}

func (o *oracle) start(a int, visiting []int) int {
	if o.a[a].st == 0 {
		return retUnknown
	}
	for _, v := range visiting {
		if v == a {
			return retDepends
		}
	}
	for _, d := range o.spec[a].Deps {
		r := o.start(d, append(append([]int{}, visiting...), a))
		if r != retOK && r != retRunning {
			return retDepends
		}
	}
	return o.appStart(a, o.spec[a].Mode)
}

func (o *oracle) apply(op Op) {
	x := &o.a[op.A]
	switch op.K {
	case "load":
		if x.st == 0 {
			x.st, x.mode, x.reason = 1, o.spec[op.A].Mode, -1
		}
	case "unload":
		if x.st == 1 {
			x.st = 0
		}
	case "start":
		o.start(op.A, nil)
	case "startm":
		o.appStart(op.A, op.M)
	case "stop", "force":
		if x.st == 2 || (x.st == 3 && op.K == "force") {
			o.finish(op.A)
		}
	case "die":
		if x.st != 2 || op.M >= len(x.live) || !x.live[op.M] {
			return
		}
		x.live[op.M] = false
		if x.mode == 3 || (x.mode == 2 && abnormal(op.R)) || o.nlive(op.A) == 0 {
			o.finish(op.A)
		}
	case "fail":
		x.fail = op.M
	}
}

// ---- running a case ---------------------------------------------------------------------
func (w *world) observe(ret int) Obs {
	o := Obs{Ret: ret}
	for _, a := range w.apps {
		ao := AppObs{Live: a.liveMembers(), Kids: a.liveKids()}
		if info, err := w.node.ApplicationInfo(a.name); err == nil {
			ao.St = int(info.State)
			ao.Grp = len(info.Group)
		}
		o.Apps = append(o.Apps, ao)
	}
	return o
}

func sameState(o Obs, or *oracle) bool {
	for i, a := range o.Apps {
		if a.St != or.a[i].st {
			return false
		}
		if len(a.Live) != or.nlive(i) || a.Grp != or.nlive(i) {
			return false
		}
		if a.Kids != or.nkids(i) {
			return false
		}
	}
	return true
}

var caseSeq int
var slowOps int

func newWorld(node gen.Node, specs []AppSpec) *world {
	caseSeq++
	w := &world{node: node}
	for i, s := range specs {
		a := &appInst{w: w, id: i, name: gen.Atom(fmt.Sprintf("c%d_app%d", caseSeq, i)), mode: gen.ApplicationMode(s.Mode), n: s.N,
			kids: make([]int, s.N), pids: make([]gen.PID, s.N)}
		copy(a.kids, s.Kids)
		a.fail.Store(-1)
		a.selfbusy = -1
		w.apps = append(w.apps, a)
	}
	for i, s := range specs {
		for _, d := range s.Deps {
			w.apps[i].deps = append(w.apps[i].deps, w.apps[d].name)
		}
	}
	return w
}

func (w *world) do(op Op) int {
	a := w.apps[op.A]
	n := w.node
	switch op.K {
	case "load":
		_, err := n.ApplicationLoad(a)
		return retCode(err)
	case "unload":
		return retCode(n.ApplicationUnload(a.name))
	case "start":
		return retCode(n.ApplicationStart(a.name, gen.ApplicationOptions{}))
	case "startm":
		switch op.M {
		case 3:
			return retCode(n.ApplicationStartPermanent(a.name, gen.ApplicationOptions{}))
		case 2:
			return retCode(n.ApplicationStartTransient(a.name, gen.ApplicationOptions{}))
		}
		return retCode(n.ApplicationStartTemporary(a.name, gen.ApplicationOptions{}))
	case "stop":
		return retCode(n.ApplicationStop(a.name))
	case "force":
		return retCode(n.ApplicationStopForce(a.name))
	case "fail":
		a.fail.Store(int64(op.M))
		return retOK
	case "die":
		a.mu.Lock()
		var pid gen.PID
		if op.M < len(a.pids) {
			pid = a.pids[op.M]
		}
		a.mu.Unlock()
		if _, err := n.ProcessInfo(pid); err != nil {
			return retOther
		}
		if op.R == rKill {
			n.Kill(pid)
		} else {
			n.Send(pid, dieMsg{how: op.R})
		}
		return retOK
	}
	return retOther
}

// runCase executes the history on a node and observes after every operation. The oracle is used
// only to wait for the expected quiescent state (bounded); what is reported is what was seen.
func runCase(node gen.Node, c Case) []Obs {
	w := newWorld(node, c.Apps)
	or := newOracle(c.Apps)
	var res []Obs
	for _, op := range c.Ops {
		ret := w.do(op)
		or.apply(op)
		// once many operations did not reach the predicted state (a broken tree) stop waiting long
		wait := 1500 * time.Millisecond
		if slowOps > 12 {
			wait = 60 * time.Millisecond
		}
		deadline := time.Now().Add(wait)
		var o Obs
		for {
			o = w.observe(ret)
			if sameState(o, or) && w.terms() >= or.terms {
				break
			}
			if time.Now().After(deadline) {
				o.Slow = true
				slowOps++
				break
			}
			sleepShort()
		}
		// short stability window: anything still moving shows up here or in the next observation
		for k := 0; k < 3; k++ {
			sleepShort()
		}
		o2 := w.observe(ret)
		o2.Slow = o.Slow
		o2.Ev = w.takeEvents()
		res = append(res, o2)
	}
	// leave the node clean
	for _, a := range w.apps {
		node.ApplicationStopForce(a.name)
	}
	for _, a := range w.apps {
		for k := 0; k < 2000; k++ {
			if node.ApplicationUnload(a.name) != gen.ErrApplicationRunning {
				break
			}
			sleepShort()
		}
	}
	return res
}

// ---- generator --------------------------------------------------------------------------
func genCase(r *rand.Rand, cyclic bool) Case {
	na := 1 + r.Intn(3)
	c := Case{Tags: []string{}}
	for i := 0; i < na; i++ {
		s := AppSpec{Mode: 1 + r.Intn(3), N: 1 + r.Intn(4), Deps: []int{}}
		s.Kids = make([]int, s.N)
		if r.Intn(4) == 0 {
			s.Kids[r.Intn(s.N)] = 1 + r.Intn(2)
		}
		// acyclic: dependencies point to lower indices only
		for j := 0; j < i; j++ {
			if r.Intn(2) == 0 {
				s.Deps = append(s.Deps, j)
			}
		}
		c.Apps = append(c.Apps, s)
	}
	if cyclic {
		// close a cycle (self loop or back edge)
		i := r.Intn(na)
		j := i + r.Intn(na-i)
		c.Apps[i].Deps = append(c.Apps[i].Deps, j)
		if i != j {
			c.Apps[j].Deps = append(c.Apps[j].Deps, i)
		}
		c.Tags = append(c.Tags, "cyclic-deps")
	}
	or := newOracle(c.Apps)
	emit := func(op Op) {
		c.Ops = append(c.Ops, op)
		or.apply(op)
	}
	// mostly: load everything first
	for i := 0; i < na; i++ {
		if r.Intn(8) != 0 {
			emit(Op{K: "load", A: i})
		}
	}
	nops := 4 + r.Intn(14)
	for k := 0; k < nops; k++ {
		a := r.Intn(na)
		x := or.a[a]
		switch p := r.Intn(20); {
		case p < 4:
			emit(Op{K: "start", A: a})
		case p < 7:
			emit(Op{K: "startm", A: a, M: 1 + r.Intn(3)})
		case p < 13:
			// a live member dies (if any)
			var live []int
			for i, b := range x.live {
				if b {
					live = append(live, i)
				}
			}
			if len(live) == 0 {
				emit(Op{K: "startm", A: a, M: 1 + r.Intn(3)})
				continue
			}
			emit(Op{K: "die", A: a, M: live[r.Intn(len(live))], R: []int{0, 0, 1, 1, 2, 3, 4, 4}[r.Intn(8)]})
		case p < 15:
			emit(Op{K: "stop", A: a})
		case p < 16:
			emit(Op{K: "force", A: a})
		case p < 17:
			emit(Op{K: "unload", A: a})
		case p < 18:
			emit(Op{K: "load", A: a})
		default:
			if x.fail >= 0 || r.Intn(3) == 0 {
				emit(Op{K: "fail", A: a, M: -1})
			} else {
				emit(Op{K: "fail", A: a, M: r.Intn(c.Apps[a].N)})
			}
		}
	}
	return c
}

// fixed histories that are always run first (regressions of the defects found, boundary shapes)
func corpusCases() []Case {
	ap := func(mode, n int, deps ...int) AppSpec {
		if deps == nil {
			deps = []int{}
		}
		return AppSpec{Mode: mode, N: n, Deps: deps, Kids: make([]int, n)}
	}
	return []Case{
		// force stop: Terminate must see kill; then a natural end must see normal, not a stale reason
		{Apps: []AppSpec{ap(1, 2)}, Tags: []string{}, Ops: []Op{{K: "load"}, {K: "start"}, {K: "force"}, {K: "start"}, {K: "die", M: 0}, {K: "die", M: 1}}},
		// graceful stop then natural end
		{Apps: []AppSpec{ap(1, 1)}, Tags: []string{}, Ops: []Op{{K: "load"}, {K: "start"}, {K: "stop"}, {K: "start"}, {K: "die", M: 0, R: 0}}},
		// failed start after a complete run (was: close of closed channel)
		{Apps: []AppSpec{ap(3, 3)}, Tags: []string{}, Ops: []Op{{K: "load"}, {K: "start"}, {K: "stop"}, {K: "fail", M: 2}, {K: "start"}, {K: "fail", M: -1}, {K: "start"}, {K: "die", M: 1, R: 4}}},
		// failed start of a fresh application, first member refuses
		{Apps: []AppSpec{ap(2, 2)}, Tags: []string{}, Ops: []Op{{K: "load"}, {K: "fail", M: 0}, {K: "start"}, {K: "fail", M: -1}, {K: "start"}, {K: "die", M: 1, R: 1}, {K: "die", M: 0, R: 3}}},
		// dependency chain 2 -> 1 -> 0, middle one not loaded
		{Apps: []AppSpec{ap(1, 1), ap(1, 1, 0), ap(1, 1, 1)}, Tags: []string{}, Ops: []Op{{K: "load", A: 0}, {K: "load", A: 2}, {K: "start", A: 2}, {K: "load", A: 1}, {K: "start", A: 2}, {K: "start", A: 2}, {K: "stop", A: 0}, {K: "unload", A: 1}, {K: "unload", A: 0}}},
		// every mode x every reason on a 2-member application
		{Apps: []AppSpec{ap(1, 2), ap(2, 2), ap(3, 2)}, Tags: []string{}, Ops: []Op{{K: "load", A: 0}, {K: "load", A: 1}, {K: "load", A: 2},
			{K: "start", A: 0}, {K: "start", A: 1}, {K: "start", A: 2},
			{K: "die", A: 0, M: 1, R: 4}, {K: "die", A: 1, M: 1, R: 1}, {K: "die", A: 2, M: 1, R: 0},
			{K: "die", A: 0, M: 0, R: 2}, {K: "die", A: 1, M: 0, R: 3}, {K: "start", A: 2}, {K: "die", A: 2, M: 0, R: 1}}},
	}
}

func cyclicCorpus() []Case {
	ap := func(mode, n int, deps ...int) AppSpec {
		return AppSpec{Mode: mode, N: n, Deps: deps, Kids: make([]int, n)}
	}
	t := []string{"cyclic-deps"}
	return []Case{
		{Apps: []AppSpec{ap(1, 1, 0)}, Tags: t, Ops: []Op{{K: "load"}, {K: "start"}, {K: "startm", M: 1}, {K: "stop"}}},
		{Apps: []AppSpec{ap(1, 1, 1), ap(1, 2, 0)}, Tags: t, Ops: []Op{{K: "load", A: 0}, {K: "load", A: 1}, {K: "start", A: 0}, {K: "start", A: 1}}},
		{Apps: []AppSpec{ap(1, 1), ap(1, 1, 0, 2), ap(1, 1, 1)}, Tags: t, Ops: []Op{{K: "load", A: 0}, {K: "load", A: 1}, {K: "load", A: 2}, {K: "start", A: 2}, {K: "start", A: 0}}},
	}
}

// ---- Coq printing -----------------------------------------------------------------------
func natList(l []int) string {
	p := make([]string, len(l))
	for i, v := range l {
		p[i] = fmt.Sprint(v)
	}
	return "[" + strings.Join(p, "; ") + "]"
}

func coqOp(op Op) string {
	switch op.K {
	case "load":
		return fmt.Sprintf("OLoad %d", op.A)
	case "unload":
		return fmt.Sprintf("OUnload %d", op.A)
	case "start":
		return fmt.Sprintf("OStart %d", op.A)
	case "startm":
		return fmt.Sprintf("OStartM %d %d", op.A, op.M)
	case "stop":
		return fmt.Sprintf("OStop %d", op.A)
	case "force":
		return fmt.Sprintf("OForce %d", op.A)
	case "die":
		return fmt.Sprintf("ODie %d %d %d", op.A, op.M, op.R)
	case "fail":
		if op.M < 0 {
			return fmt.Sprintf("OFail %d None", op.A)
		}
		return fmt.Sprintf("OFail %d (Some %d)", op.A, op.M)
	}
	return "ONop"
}

func coqObs(o Obs) string {
	var apps, evs []string
	for _, a := range o.Apps {
		apps = append(apps, fmt.Sprintf("(%d, %s)", a.St, natList(a.Live)))
	}
	for _, e := range o.Ev {
		switch e.K {
		case 0:
			evs = append(evs, fmt.Sprintf("EInit %d %d", e.A, e.M))
		case 1:
			evs = append(evs, fmt.Sprintf("EStart %d %d", e.A, e.M))
		case 2:
			evs = append(evs, fmt.Sprintf("ETerm %d %d %d", e.A, e.M, e.L))
		case 3:
			evs = append(evs, fmt.Sprintf("ELoad %d", e.A))
		}
	}
	return fmt.Sprintf("mk_obs %d [%s] [%s]", o.Ret, strings.Join(apps, "; "), strings.Join(evs, "; "))
}

func coqCase(c Case, obs []Obs) string {
	var specs, steps []string
	for _, s := range c.Apps {
		specs = append(specs, fmt.Sprintf("mk_aspec %d %d %s", s.Mode, s.N, natList(s.Deps)))
	}
	for i, op := range c.Ops {
		steps = append(steps, fmt.Sprintf("(%s, %s)", coqOp(op), coqObs(obs[i])))
	}
	return fmt.Sprintf("mk_acase [%s] [%s]", strings.Join(specs, "; "), strings.Join(steps, "; "))
}
