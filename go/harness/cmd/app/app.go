// Instrumented applications and members for the App engine (C17, C10 application/node part).
package main

import (
	"errors"
	"fmt"
	"os"
	"sort"
	"sync"
	"sync/atomic"
	"time"

	"ergo.services/ergo"
	"ergo.services/ergo/act"
	"ergo.services/ergo/gen"
)

// reason codes shared with App/Seq.v
const (
	rNormal   = 0
	rShutdown = 1
	rKill     = 2
	rPanic    = 3
	rOther    = 4
)

// return classes shared with App/Seq.v
const (
	retOK       = 0
	retRunning  = 1
	retState    = 2
	retStopping = 3
	retUnknown  = 4
	retDepends  = 5
	retTaken    = 6
	retInit     = 7
	retOther    = 8
)

var errInit = errors.New("member init refused")
var errBoom = errors.New("boom")

func reasonCode(e error) int {
	switch e {
	case gen.TerminateReasonNormal:
		return rNormal
	case gen.TerminateReasonShutdown:
		return rShutdown
	case gen.TerminateReasonKill:
		return rKill
	case gen.TerminateReasonPanic:
		return rPanic
	}
	return rOther
}

func retCode(e error) int {
	switch e {
	case nil:
		return retOK
	case gen.ErrApplicationRunning:
		return retRunning
	case gen.ErrApplicationState:
		return retState
	case gen.ErrApplicationStopping:
		return retStopping
	case gen.ErrApplicationUnknown:
		return retUnknown
	case gen.ErrApplicationDepends:
		return retDepends
	case gen.ErrTaken:
		return retTaken
	case errInit:
		return retInit
	}
	return retOther
}

// Event is one callback observed on the implementation.
//   K: 0 = member Init (A app, M member), 1 = application Start (A, M = mode),
//      2 = application Terminate (A, M = reason, L = member processes still registered at that instant),
//      3 = application Load (A)
type Event struct {
	K int `json:"k"`
	A int `json:"a"`
	M int `json:"m"`
	L int `json:"l"`
}

type world struct {
	node  gen.Node
	mu    sync.Mutex
	ev    []Event
	nterm int // application Terminate callbacks logged so far (never reset)
	apps  []*appInst
	extra sync.Map // pid -> true: every process the harness members spawned (children)
}

func (w *world) log(e Event) {
	w.mu.Lock()
	w.ev = append(w.ev, e)
	if e.K == 2 {
		w.nterm++
	}
	w.mu.Unlock()
}

func (w *world) terms() int {
	w.mu.Lock()
	defer w.mu.Unlock()
	return w.nterm
}

func (w *world) takeEvents() []Event {
	w.mu.Lock()
	r := w.ev
	w.ev = nil
	w.mu.Unlock()
	if r == nil {
		r = []Event{}
	}
	return r
}

// appInst implements gen.ApplicationBehavior.
type appInst struct {
	w     *world
	id    int
	name  gen.Atom
	mode  gen.ApplicationMode
	n     int
	deps  []gen.Atom
	kids  []int // LinkParent children spawned by member i in Init
	sup   []bool
	fail  atomic.Int64 // index of the member whose Init fails (-1: none)
	mu    sync.Mutex
	pids  []gen.PID // pid of member i in the current run
	kpids []gen.PID // children of the current run
	gate  chan struct{}
	// startrace.go: member i sends itself a message in Init that makes it terminate with reason selfdie[i]
	// (-1: none); member selfbusy sends itself a message whose handler waits on gate
	selfdie  []int
	selfbusy int
}

func (a *appInst) Load(node gen.Node, args ...any) (gen.ApplicationSpec, error) {
	a.w.log(Event{K: 3, A: a.id})
	spec := gen.ApplicationSpec{Name: a.name, Mode: a.mode}
	spec.Depends.Applications = a.deps
	for i := 0; i < a.n; i++ {
		i := i
		spec.Group = append(spec.Group, gen.ApplicationMemberSpec{
			Factory: func() gen.ProcessBehavior { return &member{app: a, idx: i} },
		})
	}
	return spec, nil
}

func (a *appInst) Start(mode gen.ApplicationMode) {
	a.w.log(Event{K: 1, A: a.id, M: int(mode)})
}

func (a *appInst) Terminate(reason error) {
	a.w.log(Event{K: 2, A: a.id, M: reasonCode(reason), L: len(a.liveMembers())})
}

func (a *appInst) liveMembers() []int {
	a.mu.Lock()
	pids := append([]gen.PID{}, a.pids...)
	a.mu.Unlock()
	r := []int{}
	var empty gen.PID
	for i, p := range pids {
		if p == empty {
			continue
		}
		if _, err := a.w.node.ProcessInfo(p); err == nil {
			r = append(r, i)
		}
	}
	return r
}

func (a *appInst) liveKids() int {
	a.mu.Lock()
	pids := append([]gen.PID{}, a.kpids...)
	a.mu.Unlock()
	n := 0
	for _, p := range pids {
		if _, err := a.w.node.ProcessInfo(p); err == nil {
			n++
		}
	}
	return n
}

type dieMsg struct{ how int }
type busyMsg struct{ gate chan struct{} }

// member of an application
type member struct {
	act.Actor
	app *appInst
	idx int
}

func (m *member) Init(args ...any) error {
	a := m.app
	if int(a.fail.Load()) == m.idx {
		// let the members started before go back to sleep: the roll-back then kills them synchronously
		time.Sleep(2 * time.Millisecond)
		return errInit
	}
	a.w.log(Event{K: 0, A: a.id, M: m.idx})
	a.mu.Lock()
	if m.idx == 0 {
		// first member of a new run: forget the previous run
		for i := range a.pids {
			a.pids[i] = gen.PID{}
		}
		a.kpids = nil
	}
	a.pids[m.idx] = m.PID()
	a.mu.Unlock()
	if a.selfdie != nil && a.selfdie[m.idx] >= 0 {
		m.Send(m.PID(), dieMsg{how: a.selfdie[m.idx]})
	}
	if a.selfbusy == m.idx {
		m.Send(m.PID(), busyMsg{gate: a.gate})
	}
	for k := 0; k < a.kids[m.idx]; k++ {
		pid, err := m.Spawn(func() gen.ProcessBehavior { return &kid{app: a} }, gen.ProcessOptions{LinkParent: true})
		if err != nil {
			return err
		}
		a.mu.Lock()
		a.kpids = append(a.kpids, pid)
		a.mu.Unlock()
	}
	return nil
}

func (m *member) HandleMessage(from gen.PID, message any) error {
	switch x := message.(type) {
	case dieMsg:
		switch x.how {
		case rNormal:
			return gen.TerminateReasonNormal
		case rShutdown:
			return gen.TerminateReasonShutdown
		case rPanic:
			panic("member asked to panic")
		default:
			return errBoom
		}
	case busyMsg:
		<-x.gate
	case holdMsg:
		// hold.go: stay inside the handler until released, then go on normally
		close(x.in)
		<-x.gate
	case busyDieMsg:
		close(x.in)
		<-x.gate
		switch x.how {
		case rNormal:
			return gen.TerminateReasonNormal
		case rShutdown:
			return gen.TerminateReasonShutdown
		case rPanic:
			panic("member asked to panic")
		default:
			return errBoom
		}
	}
	return nil
}

// child of a member (LinkParent)
type kid struct {
	act.Actor
	app *appInst
}

func (k *kid) HandleMessage(from gen.PID, message any) error {
	if x, ok := message.(busyMsg); ok {
		<-x.gate
	}
	return nil
}

var nodeSeq int

func startNode() gen.Node {
	opts := gen.NodeOptions{}
	opts.Network.Mode = gen.NetworkModeDisabled
	opts.Log.DefaultLogger.Disable = true
	opts.Log.Level = gen.LogLevelDisabled
	nodeSeq++
	name := gen.Atom(fmt.Sprintf("app%d_%d@localhost", os.Getpid(), nodeSeq))
	node, err := ergo.StartNode(name, opts)
	if err != nil {
		panic(err)
	}
	return node
}

func sortedInts(l []int) []int {
	sort.Ints(l)
	return l
}

func sleepShort() { time.Sleep(150 * time.Microsecond) }
