// Two REAL nodes in one process over loopback TCP (C18, "locally or from another node"): the event
// lives on node A (producers and local subscribers), remote subscribers live on node B.
//
//   remote   quiescent histories: every call and everything it causes on the other node completes
//            before the next call starts (quiescence is observed, not assumed: frame counters of
//            both ends of the connection + lib.VerifPoint marks of the receive queues);
//            printed as Coq cases for Event/RemoteCases.v
//   rstress  un-quiesced races of a fresh remote subscriber against a continuous publisher and of
//            publish-then-unregister; judged by timing independent end states (Go monitor)
package main

import (
	"fmt"
	"math/rand"
	"os"
	"strings"
	"sync"
	"time"

	"ergo.services/ergo"
	"ergo.services/ergo/gen"
	"ergo.services/ergo/lib"
	"ergo.services/ergo/net/edf"
	"verifharness/util"
)

// ---- null registrar (as go/harness/cmd/netfail): no shared registrar on localhost:4499 ----------

type nullRegistrar struct{}

func (nullRegistrar) Register(node gen.NodeRegistrar, routes gen.RegisterRoutes) (gen.StaticRoutes, error) {
	return gen.StaticRoutes{}, nil
}
func (nullRegistrar) Resolver() gen.Resolver                                { return nullResolver{} }
func (nullRegistrar) RegisterProxy(to gen.Atom) error                       { return gen.ErrUnsupported }
func (nullRegistrar) UnregisterProxy(to gen.Atom) error                     { return gen.ErrUnsupported }
func (nullRegistrar) RegisterApplicationRoute(r gen.ApplicationRoute) error { return nil }
func (nullRegistrar) UnregisterApplicationRoute(name gen.Atom) error        { return nil }
func (nullRegistrar) Nodes() ([]gen.Atom, error)                            { return nil, gen.ErrUnsupported }
func (nullRegistrar) Config(items ...string) (map[string]any, error)        { return nil, gen.ErrUnsupported }
func (nullRegistrar) ConfigItem(item string) (any, error)                   { return nil, gen.ErrUnsupported }
func (nullRegistrar) Event() (gen.Event, error)                             { return gen.Event{}, gen.ErrUnsupported }
func (nullRegistrar) Info() gen.RegistrarInfo                               { return gen.RegistrarInfo{} }
func (nullRegistrar) Terminate()                                            {}
func (nullRegistrar) Version() gen.Version                                  { return gen.Version{Name: "null"} }

type nullResolver struct{}

func (nullResolver) Resolve(node gen.Atom) ([]gen.Route, error)           { return nil, gen.ErrNoRoute }
func (nullResolver) ResolveProxy(node gen.Atom) ([]gen.ProxyRoute, error) { return nil, gen.ErrNoRoute }
func (nullResolver) ResolveApplication(name gen.Atom) ([]gen.ApplicationRoute, error) {
	return nil, gen.ErrNoRoute
}

// ---- quiescence tracker ------------------------------------------------------------------------

type qtrack struct {
	mu       sync.Mutex
	busy     map[any]bool // receive queues with a frame being handled
	frames   uint64       // frames taken from receive queues (both nodes)
	gone     int          // unlink/demonitor requests of terminated consumers still running
	unregEnd map[gen.PID]bool
}

var qt = &qtrack{busy: map[any]bool{}, unregEnd: map[gen.PID]bool{}}

func (t *qtrack) hook(label string, obj any) {
	switch label {
	case "proto.recv.frame":
		t.mu.Lock()
		t.busy[obj] = true
		t.frames++
		t.mu.Unlock()
	case "proto.recv.idle":
		t.mu.Lock()
		delete(t.busy, obj)
		t.mu.Unlock()
	case "remote.gone.spawn":
		t.mu.Lock()
		t.gone++
		t.mu.Unlock()
	case "remote.gone.exit":
		t.mu.Lock()
		t.gone--
		t.mu.Unlock()
	case "unreg.done":
		if pid, ok := obj.(*gen.PID); ok {
			t.mu.Lock()
			t.unregEnd[*pid] = true
			t.mu.Unlock()
		}
	}
}

// ---- the pair of nodes -------------------------------------------------------------------------

type pair struct {
	a, b  gen.Node
	names int
}

var pr *pair

func pairOptions(host string) gen.NodeOptions {
	o := gen.NodeOptions{}
	o.Network.Acceptors = []gen.AcceptorOptions{{Host: host}}
	o.Log.DefaultLogger.Disable = true
	o.Log.Level = gen.LogLevelDisabled
	o.Network.Cookie = "c18-remote-cookie"
	o.Network.Registrar = nullRegistrar{}
	return o
}

func acceptorPort(n gen.Node) (uint16, gen.AcceptorInfo) {
	accs, err := n.Network().Acceptors()
	if err != nil || len(accs) == 0 {
		panic("no acceptor")
	}
	info := accs[0].Info()
	var port uint16
	i := strings.LastIndex(info.Interface, ":")
	fmt.Sscanf(info.Interface[i+1:], "%d", &port)
	return port, info
}

func startPair() {
	if pr != nil {
		return
	}
	if err := edf.RegisterTypeOf(pub{}); err != nil && err != gen.ErrTaken {
		panic(err)
	}
	f := qt.hook
	lib.VerifHook.Store(&f)
	// own loopback address: no clash with other harnesses / tests running in this sandbox
	host := fmt.Sprintf("127.%d.%d.%d", 1+os.Getpid()%200, 1+(os.Getpid()/200)%250, 18)
	an := gen.Atom(fmt.Sprintf("c18a%d@localhost", os.Getpid()))
	bn := gen.Atom(fmt.Sprintf("c18b%d@localhost", os.Getpid()))
	a, err := ergo.StartNode(an, pairOptions(host))
	if err != nil {
		panic(err)
	}
	b, err := ergo.StartNode(bn, pairOptions(host))
	if err != nil {
		panic(err)
	}
	port, info := acceptorPort(b)
	route := gen.NetworkRoute{
		Route:  gen.Route{Host: host, Port: port, HandshakeVersion: info.HandshakeVersion, ProtoVersion: info.ProtoVersion},
		Cookie: "c18-remote-cookie",
	}
	if err := a.Network().AddRoute(string(bn), route, 100); err != nil {
		panic(err)
	}
	if _, err := a.Network().GetNode(bn); err != nil {
		panic(fmt.Sprintf("cannot connect the two nodes: %s", err))
	}
	deadline := time.Now().Add(3 * time.Second)
	for time.Now().Before(deadline) {
		if _, e := b.Network().Node(an); e == nil {
			break
		}
		time.Sleep(2 * time.Millisecond)
	}
	time.Sleep(60 * time.Millisecond) // pooled links join
	pr = &pair{a: a, b: b}
}

func stopPair() {
	if pr == nil {
		return
	}
	lib.VerifHook.Store(nil)
	pr.b.StopForce()
	pr.a.StopForce()
	pr = nil
}

func (p *pair) counters() (aIn, aOut, bIn, bOut uint64, ok bool) {
	ra, err := p.a.Network().Node(p.b.Name())
	if err != nil {
		return
	}
	rb, err := p.b.Network().Node(p.a.Name())
	if err != nil {
		return
	}
	ia, ib := ra.Info(), rb.Info()
	return ia.MessagesIn, ia.MessagesOut, ib.MessagesIn, ib.MessagesOut, true
}

// netQuiet: every frame written by one end has been taken from a receive queue of the other end
// and its handling is over; no request of a terminated consumer is on its way
func (p *pair) netQuiet() bool {
	aIn, aOut, bIn, bOut, ok := p.counters()
	if !ok {
		panic("the two nodes lost their connection")
	}
	qt.mu.Lock()
	frames, busy, gone := qt.frames, len(qt.busy), qt.gone
	qt.mu.Unlock()
	return aOut == bIn && bOut == aIn && frames == aIn+bIn && busy == 0 && gone == 0
}

func (p *pair) waitNetQuiet() {
	deadline := time.Now().Add(10 * time.Second)
	stable := 0
	for stable < 3 {
		if time.Now().After(deadline) {
			panic("the network between the two nodes did not become quiet within 10s")
		}
		if p.netQuiet() {
			stable++
		} else {
			stable = 0
		}
		time.Sleep(150 * time.Microsecond)
	}
}

// ---- one case ----------------------------------------------------------------------------------

type rworld struct {
	mu       sync.Mutex
	name     gen.Atom
	ev       gen.Event
	attempts int
	tokens   map[int]gen.Ref
	workers  []*worker
	pids     []gen.PID
	onB      []bool
	notrap   []bool
	dead     []bool
}

func (rw *rworld) nodeOf(i int) gen.Node {
	if rw.onB[i] {
		return pr.b
	}
	return pr.a
}

func newRWorld(n int, bs []int, notrap []int) *rworld {
	runSeq++
	rw := &rworld{name: gen.Atom(fmt.Sprintf("rev%d", runSeq)), tokens: map[int]gen.Ref{}}
	rw.ev = gen.Event{Name: rw.name, Node: pr.a.Name()}
	rw.onB = make([]bool, n)
	rw.notrap = make([]bool, n)
	rw.dead = make([]bool, n)
	for _, x := range bs {
		rw.onB[x] = true
	}
	for _, x := range notrap {
		rw.notrap[x] = true
	}
	for i := 0; i < n; i++ {
		w := newWorker(i)
		w.notrap = rw.notrap[i]
		w.rname = rw.name
		pid, err := rw.nodeOf(i).Spawn(func() gen.ProcessBehavior { return w }, gen.ProcessOptions{})
		if err != nil {
			panic(err)
		}
		rw.workers = append(rw.workers, w)
		rw.pids = append(rw.pids, pid)
	}
	return rw
}

func (rw *rworld) goDo(i int, f func(w *worker) error) chan struct{} {
	j := job{f: f, done: make(chan struct{})}
	if err := rw.nodeOf(i).Send(rw.pids[i], j); err != nil {
		panic(fmt.Sprintf("cannot send a job to %s: %s", rw.pids[i], err))
	}
	return j.done
}

func (rw *rworld) do(i int, f func(w *worker) error) {
	select {
	case <-rw.goDo(i, f):
	case <-time.After(20 * time.Second):
		panic("a job did not finish within 20s")
	}
}

func errCodeS(e error) string {
	if e == nil {
		return "ROk"
	}
	// errors of a remote answer are decoded values: compare the texts
	switch e.Error() {
	case gen.ErrTaken.Error():
		return "RErr 1"
	case gen.ErrEventUnknown.Error():
		return "RErr 2"
	case gen.ErrEventOwner.Error():
		return "RErr 3"
	case gen.ErrTargetExist.Error():
		return "RErr 4"
	case gen.ErrTargetUnknown.Error():
		return "RErr 5"
	}
	return "RErr 9"
}

func (rw *rworld) tokenFor(op Op) gen.Ref {
	rw.mu.Lock()
	defer rw.mu.Unlock()
	if op.Tok == 0 {
		return gen.Ref{}
	}
	if t, ok := rw.tokens[op.Tok]; ok {
		return t
	}
	return gen.Ref{Node: pr.a.Name(), Creation: 1, ID: [3]uint64{uint64(900000 + op.Tok), 77, 1}}
}

func (rw *rworld) exec(w *worker, op Op) {
	name := rw.name
	switch op.K {
	case "reg":
		tok, err := w.RegisterEvent(name, gen.EventOptions{Notify: op.Notify, Buffer: op.Cap})
		rw.mu.Lock()
		rw.attempts++
		j := rw.attempts
		if err == nil {
			rw.tokens[j] = tok
		}
		rw.mu.Unlock()
		if err == nil {
			w.addRes(name, fmt.Sprintf("RTok %d", j))
		} else {
			w.addRes(name, errCodeS(err))
		}
	case "pub":
		w.addRes(name, errCodeS(w.SendEvent(name, rw.tokenFor(op), pub{From: w.idx, Seq: op.Seq})))
	case "link", "mon":
		var l []gen.MessageEvent
		var err error
		if op.K == "link" {
			l, err = w.LinkEvent(rw.ev)
		} else {
			l, err = w.MonitorEvent(rw.ev)
		}
		if err != nil {
			w.addRes(name, errCodeS(err))
			return
		}
		var items []string
		for _, m := range l {
			p, _ := m.Message.(pub)
			items = append(items, fmt.Sprintf("(%d, %d)", p.From, p.Seq))
		}
		w.addRes(name, "RList ["+strings.Join(items, "; ")+"]")
	case "unlink":
		w.addRes(name, errCodeS(w.UnlinkEvent(rw.ev)))
	case "demon":
		w.addRes(name, errCodeS(w.DemonitorEvent(rw.ev)))
	case "unreg":
		w.addRes(name, errCodeS(w.UnregisterEvent(name)))
	}
}

func (rw *rworld) waitGone(i int) {
	waitTerm(rw.workers[i])
	deadline := time.Now().Add(10 * time.Second)
	for {
		qt.mu.Lock()
		done := qt.unregEnd[rw.pids[i]]
		qt.mu.Unlock()
		if done {
			return
		}
		if time.Now().After(deadline) {
			panic("a terminated actor was not unregistered within 10s")
		}
		time.Sleep(100 * time.Microsecond)
	}
}

// quiesce: the network is quiet, every live actor has handled what was pushed to it, and that did
// not cause new traffic.  Returns the actors found terminated by an exit signal (not trapping).
func (rw *rworld) quiesce() []int {
	var killed []int
	for round := 0; round < 50; round++ {
		pr.waitNetQuiet()
		again := false
		for i := range rw.pids {
			if rw.dead[i] {
				continue
			}
			if rw.notrap[i] {
				select {
				case <-rw.workers[i].termCh:
					rw.dead[i] = true
					rw.waitGone(i)
					killed = append(killed, i)
					again = true
					continue
				default:
				}
			}
			j := job{f: func(w *worker) error { return nil }, done: make(chan struct{})}
			if err := rw.nodeOf(i).Send(rw.pids[i], j); err != nil {
				if rw.notrap[i] {
					again = true // it is terminating right now
					time.Sleep(200 * time.Microsecond)
					continue
				}
				panic(fmt.Sprintf("cannot ping %s: %s", rw.pids[i], err))
			}
			select {
			case <-j.done:
			case <-rw.workers[i].termCh:
				again = true
			case <-time.After(20 * time.Second):
				panic("an actor did not answer a ping within 20s")
			}
		}
		if !again && pr.netQuiet() {
			return killed
		}
	}
	panic("no quiescence after 50 rounds")
}

func (rw *rworld) coqObs() string {
	var obs []string
	for _, w := range rw.workers {
		w.mu.Lock()
		var evs, ex []string
		for _, p := range w.evs[rw.name] {
			evs = append(evs, fmt.Sprintf("(%d, %d)", p.From, p.Seq))
		}
		for _, r := range w.exits[rw.name] {
			ex = append(ex, fmt.Sprint(r))
		}
		obs = append(obs, fmt.Sprintf("mk_obs %s %s %s %s", util.List(evs), util.List(w.sys[rw.name]), util.List(ex), util.List(w.res[rw.name])))
		w.mu.Unlock()
	}
	return util.List(obs)
}

func (rw *rworld) shutdown() {
	for i := range rw.pids {
		if !rw.dead[i] {
			rw.dead[i] = true
			j := job{f: func(w *worker) error { return gen.TerminateReasonNormal }, done: make(chan struct{})}
			if err := rw.nodeOf(i).Send(rw.pids[i], j); err != nil && !rw.notrap[i] {
				panic(fmt.Sprintf("cannot stop %s: %s", rw.pids[i], err))
			}
			// an actor that does not trap exits may have been terminated by the exit of the event
			// when its owner was stopped a moment ago
			rw.waitGone(i)
		}
	}
	pr.waitNetQuiet()
}

func natList(l []int) string {
	s := make([]string, len(l))
	for i, v := range l {
		s[i] = fmt.Sprint(v)
	}
	return util.List(s)
}

// runRemoteCase runs the history; an actor that does not trap exits and is terminated by the exit of
// the event appears in the printed history as an explicit termination right after the causing call
func runRemoteCase(c Case) string {
	rw := newRWorld(c.N, c.BS, c.NoTrap)
	var hist []string
	for _, op := range c.Ops {
		if rw.dead[op.A] {
			continue
		}
		op := op
		hist = append(hist, fmt.Sprintf("(%d, %s)", op.A, coqOp(op)))
		if op.K == "term" {
			rw.dead[op.A] = true
			rw.do(op.A, func(w *worker) error { return gen.TerminateReasonNormal })
			rw.waitGone(op.A)
		} else {
			rw.do(op.A, func(w *worker) error { rw.exec(w, op); return nil })
		}
		for _, x := range rw.quiesce() {
			hist = append(hist, fmt.Sprintf("(%d, OTerminate)", x))
		}
	}
	rw.quiesce()
	t := fmt.Sprintf("mk_rcase %d %s %s %s", c.N, natList(c.BS), util.List(hist), rw.coqObs())
	rw.shutdown()
	return t
}

func genRemote(r *rand.Rand, seqBase *int) Case {
	na, nb := 1+r.Intn(3), 1+r.Intn(3)
	c := Case{Kind: "remote", N: na + nb, Names: 1, Tags: []string{}}
	for x := na; x < na+nb; x++ {
		c.BS = append(c.BS, x)
		if r.Intn(4) == 0 {
			c.NoTrap = append(c.NoTrap, x)
		}
	}
	nops := 6 + r.Intn(20)
	attempts, cur, owner := 0, 0, 0
	lseq := 0
	_ = seqBase
	var stale []int
	dead := make([]bool, c.N)
	subs := map[[2]int]bool{} // (actor, kind)
	for len(c.Ops) < nops {
		var al []int
		for i, d := range dead {
			if !d {
				al = append(al, i)
			}
		}
		if len(al) == 0 {
			break
		}
		a := al[r.Intn(len(al))]
		op := Op{A: a}
		x := r.Intn(100)
		if a >= na {
			// an actor of node B: consumer operations only
			switch {
			case x < 55:
				x = 60
			case x < 93:
				x = 80
			default:
				x = 99
			}
		}
		switch {
		case x < 8 || (cur == 0 && x < 60):
			if a >= na {
				continue
			}
			op.K, op.Cap, op.Notify = "reg", []int{0, 0, 1, 2, 3, 5}[r.Intn(6)], r.Intn(3) != 0
			attempts++
			if cur == 0 {
				cur, owner = attempts, a
			}
		case x < 52:
			op.K = "pub"
			// payload numbers restart with every case (small nat literals in the Coq terms)
			lseq++
			op.Seq = lseq
			switch y := r.Intn(12); {
			case y < 8 || y >= 10:
				op.Tok = cur
				if cur == 0 {
					op.Tok = 1 + r.Intn(3)
				}
			case y == 8 && len(stale) > 0:
				op.Tok = stale[r.Intn(len(stale))]
			case y == 8:
				op.Tok = 0
			default:
				op.Tok = 50 + r.Intn(5)
			}
		case x < 72:
			op.K = []string{"link", "mon"}[r.Intn(2)]
			for _, nt := range c.NoTrap {
				if nt == a {
					// an actor that does not trap exits subscribes by link only: a down pushed
					// together with the exit that terminates it is never handled
					op.K = "link"
				}
			}
			if cur != 0 {
				subs[[2]int{a, map[string]int{"link": 0, "mon": 1}[op.K]}] = true
			}
		case x < 88:
			op.K = []string{"unlink", "demon"}[r.Intn(2)]
			for k := range subs {
				if k[0] == a && r.Intn(3) != 0 {
					op.K = []string{"unlink", "demon"}[k[1]]
					break
				}
			}
			delete(subs, [2]int{a, map[string]int{"unlink": 0, "demon": 1}[op.K]})
		case x < 93:
			if a >= na {
				continue
			}
			op.K = "unreg"
			if cur != 0 && r.Intn(4) != 0 && !dead[owner] {
				op.A = owner
			}
			if cur != 0 && op.A == owner {
				stale = append(stale, cur)
				cur = 0
				subs = map[[2]int]bool{}
			}
		default:
			op.K = "term"
			dead[a] = true
			for k := range subs {
				if k[0] == a {
					delete(subs, k)
				}
			}
			if cur != 0 && owner == a {
				stale = append(stale, cur)
				cur = 0
				subs = map[[2]int]bool{}
			}
		}
		c.Ops = append(c.Ops, op)
	}
	return c
}

// fixed histories run first on every invocation
func corpusRemote() []Case {
	return []Case{
		// remote link + monitor of one process: each publication once; last-N handed over the network;
		// unlink keeps the monitor; unregister: one down, no exit
		{Kind: "remote", N: 2, BS: []int{1}, Names: 1, Tags: []string{}, Ops: []Op{{A: 0, K: "reg", Cap: 2, Notify: true},
			{A: 0, K: "pub", Tok: 1, Seq: 1}, {A: 0, K: "pub", Tok: 1, Seq: 2}, {A: 0, K: "pub", Tok: 1, Seq: 3},
			{A: 1, K: "link"}, {A: 1, K: "mon"}, {A: 0, K: "pub", Tok: 1, Seq: 4}, {A: 1, K: "unlink"},
			{A: 0, K: "pub", Tok: 1, Seq: 5}, {A: 0, K: "unreg"}}},
		// two subscribers on B: the unsubscribe of one does not stop the other; the last one leaving
		// (by termination) stops the producer; the next first one starts it again
		{Kind: "remote", N: 4, BS: []int{1, 2, 3}, Names: 1, Tags: []string{}, Ops: []Op{{A: 0, K: "reg", Notify: true},
			{A: 1, K: "link"}, {A: 2, K: "mon"}, {A: 0, K: "pub", Tok: 1, Seq: 1}, {A: 1, K: "unlink"},
			{A: 0, K: "pub", Tok: 1, Seq: 2}, {A: 2, K: "term"}, {A: 0, K: "pub", Tok: 1, Seq: 3}, {A: 3, K: "link"},
			{A: 0, K: "pub", Tok: 1, Seq: 4}, {A: 0, K: "term"}}},
		// local and remote subscribers together, a linked remote subscriber that does not trap exits
		{Kind: "remote", N: 4, BS: []int{2, 3}, NoTrap: []int{3}, Names: 1, Tags: []string{}, Ops: []Op{{A: 0, K: "reg", Cap: 1, Notify: true},
			{A: 1, K: "mon"}, {A: 2, K: "mon"}, {A: 3, K: "link"}, {A: 0, K: "pub", Tok: 1, Seq: 1}, {A: 1, K: "pub", Tok: 1, Seq: 2},
			{A: 0, K: "unreg"}, {A: 0, K: "reg", Notify: true}, {A: 2, K: "link"}, {A: 0, K: "pub", Tok: 2, Seq: 3}}},
	}
}

// ---- un-quiesced races -------------------------------------------------------------------------

// rstress: (1) a fresh remote subscriber against a continuous publisher: returned list ++ live stream
// must be consecutive numbers (nothing lost, nothing twice, in order); (2) publish immediately followed
// by unregister: the remote subscriber must have handled the publication when it handles the down.
// mode: "sub-alone" (no other subscriber on B), "sub-shared" (a permanent second subscriber on B),
// "unreg"
func rstress(rounds int, r *rand.Rand, o *util.Out, modes []string) {
	for _, mode := range modes {
		bad, orderBad := "", ""
		lost, dup := 0, 0
		switch mode {
		case "sub-alone", "sub-shared":
			rw := newRWorld(3, []int{1, 2}, nil)
			var tok gen.Ref
			capn := 3
			rw.do(0, func(w *worker) error {
				var err error
				tok, err = w.RegisterEvent(rw.name, gen.EventOptions{Buffer: capn})
				if err != nil {
					panic(err)
				}
				return nil
			})
			if mode == "sub-shared" {
				rw.do(1, func(w *worker) error { _, err := w.MonitorEvent(rw.ev); return err })
			}
			stop := make(chan struct{})
			pd := rw.goDo(0, func(w *worker) error {
				for i := 1; ; i++ {
					select {
					case <-stop:
						return nil
					default:
					}
					w.SendEvent(rw.name, tok, pub{From: 0, Seq: i})
					if i%64 == 0 {
						time.Sleep(50 * time.Microsecond)
					}
				}
			})
			for round := 0; round < rounds; round++ {
				cw := newWorker(100)
				cpid, err := pr.b.Spawn(func() gen.ProcessBehavior { return cw }, gen.ProcessOptions{})
				if err != nil {
					panic(err)
				}
				cdo := func(f func(w *worker) error) {
					j := job{f: f, done: make(chan struct{})}
					if err := pr.b.Send(cpid, j); err != nil {
						panic(err)
					}
					<-j.done
				}
				var ret []pub
				var lerr error
				cdo(func(w *worker) error {
					var l []gen.MessageEvent
					l, lerr = w.LinkEvent(rw.ev)
					for _, m := range l {
						p, _ := m.Message.(pub)
						ret = append(ret, p)
					}
					return nil
				})
				if lerr != nil {
					bad = "remote subscribe failed: " + lerr.Error()
					break
				}
				time.Sleep(time.Duration(200+r.Intn(400)) * time.Microsecond)
				var uerr error
				cdo(func(w *worker) error { uerr = w.UnlinkEvent(rw.ev); return nil })
				if uerr != nil {
					bad = "remote unsubscribe failed: " + uerr.Error()
					break
				}
				cdo(func(w *worker) error { return nil })
				cw.mu.Lock()
				live := append([]pub{}, cw.evs[rw.name]...)
				cw.mu.Unlock()
				// holds under every interleaving (frames of one publisher keep their order, one push per
				// frame and subscriber): the live stream and the returned list are strictly increasing,
				// the returned list is not longer than the buffer
				for k := 1; k < len(live) && orderBad == ""; k++ {
					if live[k].Seq <= live[k-1].Seq {
						orderBad = fmt.Sprintf("%s: live stream of a remote subscriber: number %d follows %d", mode, live[k].Seq, live[k-1].Seq)
					}
				}
				for k := 1; k < len(ret) && orderBad == ""; k++ {
					if ret[k].Seq != ret[k-1].Seq+1 {
						orderBad = fmt.Sprintf("%s: list returned to a remote subscriber: %v", mode, ret)
					}
				}
				if len(ret) > capn && orderBad == "" {
					orderBad = fmt.Sprintf("%s: list returned to a remote subscriber has %d elements, buffer is %d", mode, len(ret), capn)
				}
				all := append(append([]pub{}, ret...), live...)
				for k := 1; k < len(all); k++ {
					if all[k].Seq == all[k-1].Seq+1 {
						continue
					}
					if all[k].Seq > all[k-1].Seq+1 {
						lost++
					} else {
						dup++
					}
					if bad == "" {
						bad = fmt.Sprintf("%s: returned=%v live(first 6)=%v: number %d follows %d", mode, ret, head(live, 6), all[k].Seq, all[k-1].Seq)
					}
					break
				}
				cdo(func(w *worker) error { return gen.TerminateReasonNormal })
				waitTerm(cw)
				o.Stats["rstress-subscriptions"]++
				o.Stats["rstress-live-messages"] += len(live)
			}
			close(stop)
			<-pd
			pr.waitNetQuiet()
			rw.shutdown()
			o.Stats["rstress-lost:"+mode] += lost
			o.Stats["rstress-dup:"+mode] += dup
			if orderBad != "" {
				idx := o.Add("rstress", Case{Kind: "rstress", Mode: mode, Tags: []string{}})
				o.Monitor = append(o.Monitor, util.MonitorFail{Case: idx, Tags: []string{}, What: "in-order / at-most-once of the live stream fails for a remote subscriber: " + orderBad})
			}
			if bad != "" && knownTags["remote-subscribe-race"] {
				tag := "remote-subscribe-race"
				idx := o.Add("rstress", Case{Kind: "rstress", Mode: mode, Tags: []string{tag}})
				o.Monitor = append(o.Monitor, util.MonitorFail{Case: idx, Tags: []string{tag},
					What: fmt.Sprintf("remote subscriber against a continuous publisher (%d gaps, %d repeats in %d subscriptions): %s", lost, dup, rounds, bad)})
			}
		case "unreg":
			if !knownTags["remote-unregister-overtakes"] {
				continue
			}
			missed := 0
			for round := 0; round < rounds; round++ {
				rw := newRWorld(2, []int{1}, nil)
				var tok gen.Ref
				rw.do(0, func(w *worker) error {
					var err error
					tok, err = w.RegisterEvent(rw.name, gen.EventOptions{})
					return err
				})
				rw.do(1, func(w *worker) error { _, err := w.MonitorEvent(rw.ev); return err })
				rw.do(0, func(w *worker) error {
					w.SendEvent(rw.name, tok, pub{From: 0, Seq: 1})
					w.SendEvent(rw.name, tok, pub{From: 0, Seq: 2})
					return w.UnregisterEvent(rw.name)
				})
				rw.quiesce()
				rw.workers[1].mu.Lock()
				got := len(rw.workers[1].evs[rw.name])
				downs := len(rw.workers[1].sys[rw.name])
				rw.workers[1].mu.Unlock()
				if got != 2 || downs != 1 {
					missed++
					if bad == "" {
						bad = fmt.Sprintf("publish, publish, unregister by the owner: the remote monitor handled %d of 2 publications and %d down", got, downs)
					}
				}
				rw.shutdown()
				o.Stats["rstress-unregister-rounds"]++
			}
			o.Stats["rstress-unregister-overtakes"] += missed
			if bad != "" {
				tag := "remote-unregister-overtakes"
				idx := o.Add("rstress", Case{Kind: "rstress", Mode: mode, Tags: []string{tag}})
				o.Monitor = append(o.Monitor, util.MonitorFail{Case: idx, Tags: []string{tag},
					What: fmt.Sprintf("%s (%d of %d rounds)", bad, missed, rounds)})
			}
		}
		o.Stats["runs"]++
	}
}
