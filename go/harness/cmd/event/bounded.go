// Event engine (C18), family "bounded": sequential histories on a real node in which 1-2 subscribers have a
// bounded mailbox (ProcessOptions.MailboxSize 1..2) and a HandleEvent callback that blocks from the first
// event message to the end of the history.  Once their mailbox is full sendEventMessage answers
// ErrProcessMailboxFull for them; the fan-out of RouteSendEvent must not care: the other (healthy) link /
// monitor subscribers still handle every publication once and in order, the publisher gets nil, the buffer
// is filled.  Model: coq/theories/Event/Bounded.v; checkers: Event/BoundedCases.v.
package main

import (
	"fmt"
	"math/rand"
	"sync"
	"time"

	"ergo.services/ergo/gen"
	"verifharness/util"
)

// stuckWorker: a worker whose HandleEvent blocks (from the first event message on) until it is released
type stuckWorker struct {
	*worker
	block   chan struct{}
	entered chan struct{}
	once    sync.Once
}

func (sw *stuckWorker) HandleEvent(ev gen.MessageEvent) error {
	sw.once.Do(func() { close(sw.entered) })
	<-sw.block
	return sw.worker.HandleEvent(ev)
}

func (sw *stuckWorker) isEntered() bool {
	select {
	case <-sw.entered:
		return true
	default:
		return false
	}
}

func spawnStuck(idx, mailbox int) (*stuckWorker, gen.PID) {
	sw := &stuckWorker{worker: newWorker(idx), block: make(chan struct{}), entered: make(chan struct{})}
	pid, err := node.Spawn(func() gen.ProcessBehavior { return sw }, gen.ProcessOptions{MailboxSize: int64(mailbox)})
	if err != nil {
		panic(err)
	}
	return sw, pid
}

// true when the process sleeps with an empty Main queue
func idle(pid gen.PID) bool {
	info, err := node.ProcessInfo(pid)
	if err != nil {
		panic(fmt.Sprintf("ProcessInfo of a stuck subscriber: %s", err))
	}
	return info.MailboxQueues.Main == 0 && info.State == gen.ProcessStateSleep
}

// quiescence of a stuck subscriber: either its handler holds a message (nothing moves any more) or it has
// handled everything it was sent and sleeps
func settleStuck(sw *stuckWorker, pid gen.PID) {
	deadline := time.Now().Add(20 * time.Second)
	for !sw.isEntered() && !idle(pid) {
		if time.Now().After(deadline) {
			panic("a stuck subscriber neither entered its handler nor drained its queue within 20s")
		}
		time.Sleep(50 * time.Microsecond)
	}
}

func runBoundedCase(c Case) string {
	runSeq++
	wd := &world{}
	wd.names = []gen.Atom{gen.Atom(fmt.Sprintf("evb%d", runSeq))}
	wd.attempts = []int{0}
	wd.tokens = []map[int]gen.Ref{{}}
	stuck := map[int]*stuckWorker{}
	capOf := map[int]int{}
	for _, s := range c.Stuck {
		capOf[s[0]] = s[1]
	}
	for i := 0; i < c.N; i++ {
		if mb, ok := capOf[i]; ok {
			sw, pid := spawnStuck(i, mb)
			stuck[i] = sw
			wd.workers = append(wd.workers, sw.worker)
			wd.pids = append(wd.pids, pid)
		} else {
			w, pid := spawn(i)
			wd.workers = append(wd.workers, w)
			wd.pids = append(wd.pids, pid)
		}
		wd.dead = append(wd.dead, false)
	}
	settle := func() {
		for i, sw := range stuck {
			settleStuck(sw, wd.pids[i])
		}
	}
	var hist []string
	for _, op := range c.Ops {
		if wd.dead[op.A] {
			continue
		}
		op := op
		if sw, ok := stuck[op.A]; ok {
			if op.K != "link" && op.K != "mon" {
				continue // stuck actors only subscribe
			}
			if sw.isEntered() {
				continue // its process is blocked in HandleEvent: it performs no call any more
			}
		}
		hist = append(hist, fmt.Sprintf("(%d, %s)", op.A, coqOp(op)))
		if op.K == "term" {
			wd.dead[op.A] = true
			do(wd.pids[op.A], func(w *worker) error { return gen.TerminateReasonNormal })
			waitTerm(wd.workers[op.A])
			continue
		}
		do(wd.pids[op.A], func(w *worker) error { wd.exec(w, op); return nil })
		settle()
	}
	// healthy actors handle what they were sent; then the stuck ones are released and do the same
	for i, pid := range wd.pids {
		if _, ok := stuck[i]; !ok && !wd.dead[i] {
			do(pid, func(w *worker) error { return nil })
		}
	}
	for i, sw := range stuck {
		close(sw.block)
		deadline := time.Now().Add(20 * time.Second)
		for !idle(wd.pids[i]) {
			if time.Now().After(deadline) {
				panic("a released subscriber did not drain its queue within 20s")
			}
			time.Sleep(50 * time.Microsecond)
		}
		do(wd.pids[i], func(w *worker) error { return nil })
	}
	var stk []string
	for _, s := range c.Stuck {
		stk = append(stk, fmt.Sprintf("(%d, %d)", s[0], s[1]))
	}
	term := fmt.Sprintf("mk_bcase %d %s %s %s", c.N, util.List(stk), util.List(hist), wd.coqObs(0))
	wd.shutdown()
	return term
}

// actor 0 owns the event; 2-5 healthy subscribers, 1-2 stuck ones (the last actors); several publishers
// (every actor may present the token); a healthy subscriber may be terminated or unsubscribe mid-history
func genBounded(r *rand.Rand, seqBase *int) Case {
	healthy := 2 + r.Intn(4)
	nstuck := 1 + r.Intn(2)
	n := 1 + healthy + nstuck
	c := Case{Kind: "bounded", N: n, Names: 1, Tags: []string{}}
	for k := 0; k < nstuck; k++ {
		c.Stuck = append(c.Stuck, [2]int{1 + healthy + k, 1 + r.Intn(2)})
	}
	c.Ops = append(c.Ops, Op{A: 0, K: "reg", Cap: []int{0, 1, 2, 3, 5}[r.Intn(5)], Notify: r.Intn(2) == 0})
	cur := 1 // attempt number of the live registration
	attempts := 1
	dead := make([]bool, n)
	// everybody subscribes early (in a random order, some later), so that the stuck ones fill up
	order := r.Perm(n - 1)
	late := map[int]bool{}
	for _, k := range order {
		a := k + 1
		if r.Intn(5) == 0 {
			late[a] = true
			continue
		}
		c.Ops = append(c.Ops, Op{A: a, K: []string{"link", "mon"}[r.Intn(2)]})
		if r.Intn(6) == 0 {
			c.Ops = append(c.Ops, Op{A: a, K: []string{"link", "mon"}[r.Intn(2)]})
		}
	}
	npub := 5 + r.Intn(9)
	terms := 0
	for pubs := 0; pubs < npub; {
		switch x := r.Intn(100); {
		case x < 62:
			*seqBase++
			a := 0
			if r.Intn(4) == 0 {
				a = r.Intn(1 + healthy)
			}
			if dead[a] {
				a = 0
			}
			op := Op{A: a, K: "pub", Seq: *seqBase, Tok: cur}
			if y := r.Intn(12); y == 0 {
				op.Tok = 0
			} else if y == 1 {
				op.Tok = 50 + r.Intn(3)
			}
			if cur == 0 {
				op.Tok = 1
			}
			c.Ops = append(c.Ops, op)
			pubs++
		case x < 74:
			a := 1 + r.Intn(n-1)
			c.Ops = append(c.Ops, Op{A: a, K: []string{"link", "mon"}[r.Intn(2)]})
			delete(late, a)
		case x < 82:
			a := 1 + r.Intn(healthy)
			c.Ops = append(c.Ops, Op{A: a, K: []string{"unlink", "demon"}[r.Intn(2)]})
		case x < 90 && terms < 2:
			a := 1 + r.Intn(healthy)
			if !dead[a] {
				dead[a] = true
				terms++
				c.Ops = append(c.Ops, Op{A: a, K: "term"})
			}
		case x < 93 && !dead[0]:
			// unregister and register again: everybody has to subscribe again (the blocked ones cannot)
			c.Ops = append(c.Ops, Op{A: 0, K: "unreg"})
			attempts++
			cur = attempts
			c.Ops = append(c.Ops, Op{A: 0, K: "reg", Cap: r.Intn(3), Notify: r.Intn(2) == 0})
			for a := 1; a <= healthy; a++ {
				if !dead[a] && r.Intn(3) != 0 {
					c.Ops = append(c.Ops, Op{A: a, K: []string{"link", "mon"}[r.Intn(2)]})
				}
			}
		}
	}
	if r.Intn(3) == 0 && !dead[0] {
		c.Ops = append(c.Ops, Op{A: 0, K: []string{"unreg", "term"}[r.Intn(2)]})
	}
	return c
}

// fixed histories run first on every invocation
func corpusBounded() []Case {
	pubs := func(from, to int) []Op {
		var l []Op
		for s := from; s <= to; s++ {
			l = append(l, Op{A: 0, K: "pub", Tok: 1, Seq: s})
		}
		return l
	}
	cat := func(ls ...[]Op) []Op {
		var l []Op
		for _, x := range ls {
			l = append(l, x...)
		}
		return l
	}
	return []Case{
		// one producer, 5 healthy monitor subscribers, one link subscriber with MailboxSize 1 and a blocked
		// handler, 20 publications: every healthy subscriber handles 1..20, the stuck one 1 and 2
		{Kind: "bounded", N: 7, Names: 1, Tags: []string{}, Stuck: [][2]int{{6, 1}}, Ops: cat(
			[]Op{{A: 0, K: "reg", Cap: 3}, {A: 6, K: "link"}, {A: 1, K: "mon"}, {A: 2, K: "mon"}, {A: 3, K: "mon"}, {A: 4, K: "mon"}, {A: 5, K: "mon"}},
			pubs(1, 20), []Op{{A: 0, K: "unreg"}})},
		// two stuck subscribers (MailboxSize 1 and 2, one holding link and monitor), a healthy subscriber killed
		// mid-history, a late subscriber that is handed the last 2 publications (refused by the full mailboxes),
		// a second publisher, owner termination at the end (exit / down also to the stuck ones)
		{Kind: "bounded", N: 7, Names: 1, Tags: []string{}, Stuck: [][2]int{{5, 1}, {6, 2}}, Ops: cat(
			[]Op{{A: 0, K: "reg", Cap: 2, Notify: true}, {A: 5, K: "mon"}, {A: 1, K: "link"}, {A: 6, K: "link"}, {A: 6, K: "mon"}, {A: 2, K: "mon"}, {A: 3, K: "link"}, {A: 3, K: "mon"}},
			pubs(1, 4), []Op{{A: 2, K: "term"}}, pubs(5, 6), []Op{{A: 4, K: "link"}, {A: 1, K: "pub", Tok: 1, Seq: 7}, {A: 1, K: "unlink"}},
			pubs(8, 9), []Op{{A: 0, K: "term"}})},
	}
}
