// Harness for the Event engine (C18): real node (networking disabled), producer / consumer actors,
// sequential histories, controlled publish-vs-subscribe schedules over lib.VerifPoint hooks, and
// an un-hooked stress judged by timing-independent end states.
package main

import (
	"encoding/json"
	"flag"
	"fmt"
	"math/rand"
	"os"
	"strings"
	"sync"
	"time"

	"ergo.services/ergo"
	"ergo.services/ergo/act"
	"ergo.services/ergo/gen"
	"ergo.services/ergo/lib"
	"verifharness/util"
)

// ---- cases -----------------------------------------------------------------------------

type Op struct {
	A      int    `json:"a"`           // actor
	K      string `json:"k"`           // reg pub link mon unlink demon unreg term
	E      int    `json:"e"`           // event name index
	Cap    int    `json:"cap,omitempty"`
	Notify bool   `json:"notify,omitempty"`
	// token presented by a publish: 0 = empty gen.Ref, j>=1 = token returned by the j-th RegisterEvent
	// call on this name (a made-up ref if that call failed or has not happened), 1000+j = token of
	// the j-th registration of the other name
	Tok int `json:"tok,omitempty"`
	Seq int `json:"seq,omitempty"`
}

type Case struct {
	Kind  string   `json:"kind"` // seq | hooked
	N     int      `json:"n"`
	Names int      `json:"names"`
	Ops   []Op     `json:"ops,omitempty"`   // seq: the history
	Proj  int      `json:"proj"`            // seq: the event name this case is about
	Progs [][]Op   `json:"progs,omitempty"` // hooked: one program per actor
	Sched []int    `json:"sched,omitempty"`
	Tags  []string `json:"tags"`
	// two-node families (remote.go)
	BS     []int  `json:"bs,omitempty"`     // remote: the actors living on node B
	NoTrap []int  `json:"notrap,omitempty"` // remote: actors that do not trap exit signals
	Mode   string `json:"mode,omitempty"`   // rstress
	// bounded family (bounded.go): (actor, MailboxSize) of the subscribers whose HandleEvent blocks
	Stuck [][2]int `json:"stuck,omitempty"`
}

type pub struct {
	From int
	Seq  int
}

// ---- actors ------------------------------------------------------------------------------

type job struct {
	f    func(w *worker) error
	done chan struct{}
}

type worker struct {
	act.Actor
	idx    int
	mu     sync.Mutex
	evs    map[gen.Atom][]pub
	sys    map[gen.Atom][]string
	exits  map[gen.Atom][]int
	res    map[gen.Atom][]string
	termCh chan struct{}
	onTerm func()
	notrap bool     // remote family: does not trap exit signals
	rname  gen.Atom // remote family: the event name of the case
}

func newWorker(idx int) *worker {
	return &worker{idx: idx, evs: map[gen.Atom][]pub{}, sys: map[gen.Atom][]string{}, exits: map[gen.Atom][]int{},
		res: map[gen.Atom][]string{}, termCh: make(chan struct{})}
}

func reasonCode(e error) int {
	switch e {
	case gen.ErrUnregistered:
		return 0
	case gen.TerminateReasonNormal:
		return 1
	}
	if e != nil {
		// a reason that travelled over the network is a decoded value, possibly wrapped
		switch {
		case strings.HasSuffix(e.Error(), gen.ErrUnregistered.Error()):
			return 0
		case strings.HasSuffix(e.Error(), gen.TerminateReasonNormal.Error()):
			return 1
		}
	}
	return 9
}

func errCode(e error) string {
	switch e {
	case nil:
		return "ROk"
	case gen.ErrTaken:
		return "RErr 1"
	case gen.ErrEventUnknown:
		return "RErr 2"
	case gen.ErrEventOwner:
		return "RErr 3"
	case gen.ErrTargetExist:
		return "RErr 4"
	case gen.ErrTargetUnknown:
		return "RErr 5"
	}
	return "RErr 9"
}

func (w *worker) Init(args ...any) error { w.SetTrapExit(!w.notrap); return nil }

func (w *worker) HandleMessage(from gen.PID, message any) error {
	switch m := message.(type) {
	case job:
		err := m.f(w)
		close(m.done)
		return err
	case gen.MessageEventStart:
		w.mu.Lock()
		w.sys[m.Name] = append(w.sys[m.Name], "IStart")
		w.mu.Unlock()
	case gen.MessageEventStop:
		w.mu.Lock()
		w.sys[m.Name] = append(w.sys[m.Name], "IStop")
		w.mu.Unlock()
	case gen.MessageDownEvent:
		w.mu.Lock()
		w.sys[m.Event.Name] = append(w.sys[m.Event.Name], fmt.Sprintf("IDown %d", reasonCode(m.Reason)))
		w.mu.Unlock()
	case gen.MessageExitEvent:
		w.mu.Lock()
		w.exits[m.Event.Name] = append(w.exits[m.Event.Name], reasonCode(m.Reason))
		w.mu.Unlock()
	}
	return nil
}

func (w *worker) HandleEvent(ev gen.MessageEvent) error {
	p, _ := ev.Message.(pub)
	w.mu.Lock()
	w.evs[ev.Event.Name] = append(w.evs[ev.Event.Name], p)
	w.mu.Unlock()
	return nil
}

func (w *worker) Terminate(reason error) {
	if w.notrap && reason != gen.TerminateReasonNormal {
		// terminated by the exit signal of the event it was linked with
		w.mu.Lock()
		w.exits[w.rname] = append(w.exits[w.rname], reasonCode(reason))
		w.mu.Unlock()
	}
	if w.onTerm != nil {
		w.onTerm()
	}
	close(w.termCh)
}

func (w *worker) addRes(name gen.Atom, r string) {
	w.mu.Lock()
	w.res[name] = append(w.res[name], r)
	w.mu.Unlock()
}

var node gen.Node
var runSeq int

func startNode() {
	opts := gen.NodeOptions{}
	opts.Network.Mode = gen.NetworkModeDisabled
	opts.Log.DefaultLogger.Disable = true
	opts.Log.Level = gen.LogLevelDisabled
	var err error
	node, err = ergo.StartNode(gen.Atom(fmt.Sprintf("event%d@localhost", os.Getpid())), opts)
	if err != nil {
		panic(err)
	}
}

func spawn(idx int) (*worker, gen.PID) {
	w := newWorker(idx)
	pid, err := node.Spawn(func() gen.ProcessBehavior { return w }, gen.ProcessOptions{})
	if err != nil {
		panic(err)
	}
	return w, pid
}

func goDo(pid gen.PID, f func(w *worker) error) chan struct{} {
	j := job{f: f, done: make(chan struct{})}
	if err := node.Send(pid, j); err != nil {
		panic(fmt.Sprintf("cannot send a job to %s: %s", pid, err))
	}
	return j.done
}

func do(pid gen.PID, f func(w *worker) error) {
	d := goDo(pid, f)
	select {
	case <-d:
	case <-time.After(20 * time.Second):
		panic("a job did not finish within 20s")
	}
}

// ---- one run: shared bookkeeping of names and tokens ----------------------------------------

type world struct {
	mu       sync.Mutex
	names    []gen.Atom
	attempts []int             // RegisterEvent calls per name
	tokens   []map[int]gen.Ref // per name: attempt number -> token
	workers  []*worker
	pids     []gen.PID
	dead     []bool
}

func newWorld(n, names int) *world {
	runSeq++
	wd := &world{}
	for e := 0; e < names; e++ {
		wd.names = append(wd.names, gen.Atom(fmt.Sprintf("ev%d_%d", runSeq, e)))
		wd.attempts = append(wd.attempts, 0)
		wd.tokens = append(wd.tokens, map[int]gen.Ref{})
	}
	for i := 0; i < n; i++ {
		w, pid := spawn(i)
		wd.workers = append(wd.workers, w)
		wd.pids = append(wd.pids, pid)
		wd.dead = append(wd.dead, false)
	}
	return wd
}

func (wd *world) tokenFor(op Op) gen.Ref {
	wd.mu.Lock()
	defer wd.mu.Unlock()
	switch {
	case op.Tok == 0:
		return gen.Ref{}
	case op.Tok >= 1000 && op.Tok < 2000 && len(wd.names) > 1:
		if t, ok := wd.tokens[1-op.E][op.Tok-1000]; ok {
			return t
		}
	case op.Tok < 1000:
		if t, ok := wd.tokens[op.E][op.Tok]; ok {
			return t
		}
	}
	return gen.Ref{Node: node.Name(), Creation: 1, ID: [3]uint64{uint64(900000 + op.Tok), 77, 1}}
}

// exec performs one operation inside the actor's callback
func (wd *world) exec(w *worker, op Op) {
	name := wd.names[op.E]
	ev := gen.Event{Name: name, Node: node.Name()}
	switch op.K {
	case "reg":
		tok, err := w.RegisterEvent(name, gen.EventOptions{Notify: op.Notify, Buffer: op.Cap})
		wd.mu.Lock()
		wd.attempts[op.E]++
		j := wd.attempts[op.E]
		if err == nil {
			wd.tokens[op.E][j] = tok
		}
		wd.mu.Unlock()
		if err == nil {
			w.addRes(name, fmt.Sprintf("RTok %d", j))
		} else {
			w.addRes(name, errCode(err))
		}
	case "pub":
		err := w.SendEvent(name, wd.tokenFor(op), pub{From: w.idx, Seq: op.Seq})
		w.addRes(name, errCode(err))
	case "link", "mon":
		var l []gen.MessageEvent
		var err error
		if op.K == "link" {
			l, err = w.LinkEvent(ev)
		} else {
			l, err = w.MonitorEvent(ev)
		}
		if err != nil {
			w.addRes(name, errCode(err))
			return
		}
		var items []string
		for _, m := range l {
			p, _ := m.Message.(pub)
			items = append(items, fmt.Sprintf("(%d, %d)", p.From, p.Seq))
		}
		w.addRes(name, "RList ["+strings.Join(items, "; ")+"]")
	case "unlink":
		w.addRes(name, errCode(w.UnlinkEvent(ev)))
	case "demon":
		w.addRes(name, errCode(w.DemonitorEvent(ev)))
	case "unreg":
		w.addRes(name, errCode(w.UnregisterEvent(name)))
	}
}

func waitTerm(w *worker) {
	select {
	case <-w.termCh:
	case <-time.After(20 * time.Second):
		panic("an actor did not terminate within 20s")
	}
}

// quiesce: every live actor handles everything that was pushed to it; then all are terminated
func (wd *world) collect() {
	for i, pid := range wd.pids {
		if !wd.dead[i] {
			do(pid, func(w *worker) error { return nil })
		}
	}
}

func (wd *world) shutdown() {
	for i, pid := range wd.pids {
		if !wd.dead[i] {
			wd.dead[i] = true
			do(pid, func(w *worker) error { return gen.TerminateReasonNormal })
			waitTerm(wd.workers[i])
		}
	}
}

// ---- Coq printing ------------------------------------------------------------------------

func coqOp(op Op) string {
	switch op.K {
	case "reg":
		return fmt.Sprintf("ORegister %d %s", op.Cap, util.B(op.Notify))
	case "pub":
		return fmt.Sprintf("OPublish %d %d", op.Tok, op.Seq)
	case "link":
		return "OSub KLink"
	case "mon":
		return "OSub KMon"
	case "unlink":
		return "OUnsub KLink"
	case "demon":
		return "OUnsub KMon"
	case "unreg":
		return "OUnregister"
	case "term":
		return "OTerminate"
	}
	panic("unknown op " + op.K)
}

func (wd *world) coqObs(e int) string {
	name := wd.names[e]
	var obs []string
	for _, w := range wd.workers {
		w.mu.Lock()
		var evs, ex, rs []string
		for _, p := range w.evs[name] {
			evs = append(evs, fmt.Sprintf("(%d, %d)", p.From, p.Seq))
		}
		for _, r := range w.exits[name] {
			ex = append(ex, fmt.Sprint(r))
		}
		for _, r := range w.res[name] {
			rs = append(rs, r)
		}
		obs = append(obs, fmt.Sprintf("mk_obs %s %s %s %s", util.List(evs), util.List(w.sys[name]), util.List(ex), util.List(rs)))
		w.mu.Unlock()
	}
	return util.List(obs)
}

// ---- sequential histories -----------------------------------------------------------------

func runSeqCase(c Case) []string {
	wd := newWorld(c.N, c.Names)
	for _, op := range c.Ops {
		if wd.dead[op.A] {
			continue
		}
		op := op
		if op.K == "term" {
			wd.dead[op.A] = true
			do(wd.pids[op.A], func(w *worker) error { return gen.TerminateReasonNormal })
			waitTerm(wd.workers[op.A])
			continue
		}
		do(wd.pids[op.A], func(w *worker) error { wd.exec(w, op); return nil })
	}
	wd.collect()
	var out []string
	for e := 0; e < c.Names; e++ {
		var ops []string
		for _, op := range c.Ops {
			if op.K == "term" || op.E == e {
				ops = append(ops, fmt.Sprintf("(%d, %s)", op.A, coqOp(op)))
			}
		}
		out = append(out, fmt.Sprintf("mk_ecase %d %s %s", c.N, util.List(ops), wd.coqObs(e)))
	}
	wd.shutdown()
	return out
}

// the generator keeps a rough picture of the state to make most operations meaningful
func genSeq(r *rand.Rand, seqBase *int) Case {
	c := Case{Kind: "seq", N: 2 + r.Intn(3), Names: 1 + r.Intn(2), Tags: []string{}}
	nops := 6 + r.Intn(22)
	type st struct {
		attempts int
		cur      int // attempt number of the live registration, 0 = none
		owner    int
		stale    []int
	}
	sts := make([]st, c.Names)
	dead := make([]bool, c.N)
	subs := map[[3]int]bool{} // (actor, name, kind)
	alive := func() []int {
		var l []int
		for i, d := range dead {
			if !d {
				l = append(l, i)
			}
		}
		return l
	}
	for len(c.Ops) < nops {
		al := alive()
		if len(al) == 0 {
			break
		}
		a := al[r.Intn(len(al))]
		e := r.Intn(c.Names)
		s := &sts[e]
		op := Op{A: a, E: e}
		switch x := r.Intn(100); {
		case x < 12 || (s.cur == 0 && x < 40):
			op.K, op.Cap, op.Notify = "reg", []int{0, 0, 1, 2, 3, 5}[r.Intn(6)], r.Intn(2) == 0
			s.attempts++
			if s.cur == 0 {
				s.cur, s.owner = s.attempts, a
			}
		case x < 52:
			op.K = "pub"
			*seqBase++
			op.Seq = *seqBase
			switch y := r.Intn(10); {
			case y < 7:
				op.Tok = s.cur
				if s.cur == 0 {
					op.Tok = 1 + r.Intn(3)
				}
			case y == 7:
				op.Tok = 0
			case y == 8 && len(s.stale) > 0:
				op.Tok = s.stale[r.Intn(len(s.stale))]
			case y == 8 && c.Names > 1 && sts[1-e].cur > 0:
				op.Tok = 1000 + sts[1-e].cur
			default:
				op.Tok = 50 + r.Intn(5)
			}
		case x < 72:
			op.K = []string{"link", "mon"}[r.Intn(2)]
			if s.cur != 0 {
				subs[[3]int{a, e, map[string]int{"link": 0, "mon": 1}[op.K]}] = true
			}
		case x < 86:
			op.K = []string{"unlink", "demon"}[r.Intn(2)]
			// prefer an existing subscription
			for k := range subs {
				if k[1] == e && r.Intn(2) == 0 && !dead[k[0]] {
					op.A, op.K = k[0], []string{"unlink", "demon"}[k[2]]
					break
				}
			}
			delete(subs, [3]int{op.A, e, map[string]int{"unlink": 0, "demon": 1}[op.K]})
		case x < 94:
			op.K = "unreg"
			if s.cur != 0 && r.Intn(4) != 0 && !dead[s.owner] {
				op.A = s.owner
			}
			if s.cur != 0 && op.A == s.owner {
				s.stale = append(s.stale, s.cur)
				s.cur = 0
				for k := range subs {
					if k[1] == e {
						delete(subs, k)
					}
				}
			}
		default:
			op.K = "term"
			dead[a] = true
			for k := range subs {
				if k[0] == a {
					delete(subs, k)
				}
			}
			for i := range sts {
				if sts[i].cur != 0 && sts[i].owner == a {
					sts[i].stale = append(sts[i].stale, sts[i].cur)
					sts[i].cur = 0
					for k := range subs {
						if k[1] == i {
							delete(subs, k)
						}
					}
				}
			}
		}
		c.Ops = append(c.Ops, op)
	}
	return c
}

// fixed histories run first on every invocation (regressions of the defects fixed in /repo)
func corpusSeq() []Case {
	return []Case{
		// a process holding a link and a monitor gets every publication once (db3d47f)
		{Kind: "seq", N: 2, Names: 1, Tags: []string{}, Ops: []Op{{A: 0, K: "reg", Cap: 2}, {A: 1, K: "link"}, {A: 1, K: "mon"},
			{A: 0, K: "pub", Tok: 1, Seq: 1}, {A: 0, K: "pub", Tok: 1, Seq: 2}, {A: 1, K: "unlink"}, {A: 0, K: "pub", Tok: 1, Seq: 3}, {A: 0, K: "unreg"}}},
		// a terminated consumer counts as gone: stop, then start for the next one (92c6eb2)
		{Kind: "seq", N: 3, Names: 1, Tags: []string{}, Ops: []Op{{A: 0, K: "reg", Notify: true}, {A: 1, K: "link"}, {A: 1, K: "term"},
			{A: 2, K: "mon"}, {A: 0, K: "pub", Tok: 1, Seq: 1}, {A: 2, K: "demon"}, {A: 0, K: "term"}}},
		// tokens: empty, stale, right; last-N with overflow
		{Kind: "seq", N: 3, Names: 1, Tags: []string{}, Ops: []Op{{A: 0, K: "pub", Tok: 0, Seq: 1}, {A: 0, K: "reg", Cap: 2}, {A: 1, K: "reg", Cap: 1},
			{A: 1, K: "pub", Tok: 0, Seq: 2}, {A: 1, K: "pub", Tok: 2, Seq: 3}, {A: 1, K: "pub", Tok: 1, Seq: 4}, {A: 0, K: "pub", Tok: 1, Seq: 5}, {A: 0, K: "pub", Tok: 1, Seq: 6},
			{A: 2, K: "link"}, {A: 1, K: "unreg"}, {A: 0, K: "unreg"}, {A: 1, K: "reg", Cap: 1}, {A: 0, K: "pub", Tok: 1, Seq: 7}, {A: 0, K: "pub", Tok: 3, Seq: 8}, {A: 2, K: "mon"}}},
	}
}

// ---- controlled schedules ------------------------------------------------------------------

type hthread struct {
	parked bool
	done   bool
	label  string
	gate   chan struct{}
}

type hsched struct {
	mu      sync.Mutex
	cond    *sync.Cond
	byPid   map[gen.PID]int
	threads []*hthread
	stalled string
	active  bool
}

func (s *hsched) hook(label string, obj any) {
	if !strings.HasPrefix(label, "event.") {
		return
	}
	pid, ok := obj.(gen.PID)
	if !ok {
		return
	}
	s.mu.Lock()
	i, ok := s.byPid[pid]
	if !ok || !s.active {
		s.mu.Unlock()
		return
	}
	t := s.threads[i]
	t.parked, t.label = true, label
	s.cond.Broadcast()
	s.mu.Unlock()
	<-t.gate
}

func (s *hsched) markDone(i int) {
	s.mu.Lock()
	s.threads[i].done, s.threads[i].parked, s.threads[i].label = true, false, "done"
	s.cond.Broadcast()
	s.mu.Unlock()
}

func (s *hsched) settle(i int) bool {
	deadline := time.Now().Add(5 * time.Second)
	timer := time.AfterFunc(5*time.Second+50*time.Millisecond, func() { s.mu.Lock(); s.cond.Broadcast(); s.mu.Unlock() })
	defer timer.Stop()
	s.mu.Lock()
	defer s.mu.Unlock()
	for {
		t := s.threads[i]
		if t.parked || t.done {
			return true
		}
		if time.Now().After(deadline) {
			s.stalled = fmt.Sprintf("actor %d granted at %q neither parked nor finished within 5s", i, t.label)
			return false
		}
		s.cond.Wait()
	}
}

func (s *hsched) enabled() []int {
	s.mu.Lock()
	defer s.mu.Unlock()
	var en []int
	for i, t := range s.threads {
		if t.parked && !t.done {
			en = append(en, i)
		}
	}
	return en
}

func (s *hsched) grant(i int) (bool, bool) {
	s.mu.Lock()
	if i < 0 || i >= len(s.threads) || !s.threads[i].parked || s.threads[i].done {
		s.mu.Unlock()
		return false, true
	}
	t := s.threads[i]
	t.parked = false
	s.mu.Unlock()
	t.gate <- struct{}{}
	return true, s.settle(i)
}

func (s *hsched) uninstall() {
	lib.VerifHook.Store(nil)
	s.mu.Lock()
	s.active = false
	for _, t := range s.threads {
		if t.parked {
			t.parked = false
			select {
			case t.gate <- struct{}{}:
			default:
			}
		}
	}
	s.mu.Unlock()
}

var labelCode = map[string]int{"done": 0, "event.op": 1, "event.push": 2, "event.insert": 3, "event.counter": 4}

func runHookedCase(c Case) (string, []int) {
	n := len(c.Progs)
	wd := newWorld(n, 1)
	s := &hsched{byPid: map[gen.PID]int{}}
	s.cond = sync.NewCond(&s.mu)
	for i := 0; i < n; i++ {
		s.threads = append(s.threads, &hthread{gate: make(chan struct{}, 1)})
		s.byPid[wd.pids[i]] = i
	}
	s.active = true
	f := func(label string, obj any) { s.hook(label, obj) }
	lib.VerifHook.Store(&f)
	fail := func() {
		s.uninstall()
		panic("controlled schedule stalled: " + s.stalled)
	}
	for i := 0; i < n; i++ {
		i := i
		prog := c.Progs[i]
		wd.workers[i].onTerm = func() { s.markDone(i) }
		goDo(wd.pids[i], func(w *worker) error {
			for _, op := range prog {
				lib.VerifPoint("event.op", w.PID())
				if op.K == "term" {
					return gen.TerminateReasonNormal
				}
				wd.exec(w, op)
			}
			w.onTerm = nil
			s.markDone(i)
			return nil
		})
		if !s.settle(i) {
			fail()
		}
	}
	var full []int
	var trace []string
	step := func(i int) {
		en, ok := s.grant(i)
		if !ok {
			fail()
		}
		full = append(full, i)
		code := 0
		if en {
			s.mu.Lock()
			code = labelCode[s.threads[i].label]
			s.mu.Unlock()
		}
		trace = append(trace, fmt.Sprintf("(%s, %d)", util.B(en), code))
	}
	for _, i := range c.Sched {
		step(i)
	}
	for guard := 0; guard < 2000; guard++ {
		en := s.enabled()
		if len(en) == 0 {
			break
		}
		step(en[0])
	}
	s.uninstall()
	for i := 0; i < n; i++ {
		s.mu.Lock()
		d := s.threads[i].done
		s.mu.Unlock()
		if !d {
			panic(fmt.Sprintf("actor %d not finished at the end of a controlled schedule", i))
		}
		for _, op := range c.Progs[i] {
			if op.K == "term" {
				wd.dead[i] = true
				waitTerm(wd.workers[i])
			}
		}
	}
	wd.collect()
	var progs []string
	for _, p := range c.Progs {
		var ops []string
		for _, op := range p {
			ops = append(ops, coqOp(op))
		}
		progs = append(progs, util.List(ops))
	}
	var sch []string
	for _, i := range full {
		sch = append(sch, fmt.Sprint(i))
	}
	term := fmt.Sprintf("mk_hcase %s %s %s %s", util.List(progs), util.List(sch), util.List(trace), wd.coqObs(0))
	wd.shutdown()
	return term, full
}

func genHooked(r *rand.Rand, seqBase *int) Case {
	n := 2 + r.Intn(3)
	c := Case{Kind: "hooked", N: n, Names: 1, Tags: []string{}}
	for i := 0; i < n; i++ {
		var p []Op
		if i == 0 {
			p = append(p, Op{A: 0, K: "reg", Cap: r.Intn(3), Notify: r.Intn(2) == 0})
		}
		// roles: publisher, subscriber, mixed
		role := r.Intn(3)
		for j := 1 + r.Intn(4); j > 0; j-- {
			op := Op{A: i}
			x := r.Intn(100)
			switch {
			case (role == 0 && x < 80) || (role == 2 && x < 40) || (role == 1 && x < 10):
				op.K = "pub"
				*seqBase++
				op.Seq = *seqBase
				op.Tok = []int{1, 1, 1, 1, 1, 1, 0, 2, 7}[r.Intn(9)]
			case x < 88:
				op.K = []string{"link", "mon", "link", "mon", "unlink", "demon"}[r.Intn(6)]
			case x < 93 && i == 0:
				// a second registration opens the stale-record class (known finding): only on request
				op.K = "unreg"
				if knownTags["stale-record-notify"] && r.Intn(2) == 0 {
					op.K, op.Cap, op.Notify = "reg", r.Intn(3), r.Intn(2) == 0
				}
			case x < 96:
				op.K = "term"
			default:
				op.K = "link"
			}
			p = append(p, op)
			if op.K == "term" {
				break
			}
		}
		c.Progs = append(c.Progs, p)
	}
	c.Sched = []int{0}
	for k := r.Intn(40); k > 0; k-- {
		c.Sched = append(c.Sched, r.Intn(n))
	}
	c.Tags = hookedTags(c)
	return c
}

var knownTags = map[string]bool{}

// input class of the known finding "stale-record-notify": more than one registration of the event
func hookedTags(c Case) []string {
	regs := 0
	for _, p := range c.Progs {
		for _, op := range p {
			if op.K == "reg" {
				regs++
			}
		}
	}
	if regs > 1 {
		return []string{"stale-record-notify"}
	}
	return []string{}
}

func corpusHooked() []Case {
	l := corpusHooked0()
	for i := range l {
		l[i].Tags = hookedTags(l[i])
	}
	if knownTags["stale-record-notify"] {
		// subscriber loads the record; unregister; another producer registers; the subscription is counted
		// on the old record, the unsubscribe on the new one: producer 2 is told "stop" without "start"
		l = append(l, Case{Kind: "hooked", Tags: []string{"stale-record-notify"}, Progs: [][]Op{
			{{A: 0, K: "reg", Notify: true}, {A: 0, K: "unreg"}},
			{{A: 1, K: "link"}, {A: 1, K: "unlink"}},
			{{A: 2, K: "reg", Notify: true}}},
			Sched: []int{0, 1, 0, 2, 1, 1, 1, 1}})
	}
	return l
}

func corpusHooked0() []Case {
	return []Case{
		// the window of 49b95f1: subscriber arrives while a publisher is between table load and push
		{Kind: "hooked", Tags: []string{}, Progs: [][]Op{
			{{A: 0, K: "reg", Cap: 2}, {A: 0, K: "pub", Tok: 1, Seq: 1}, {A: 0, K: "pub", Tok: 1, Seq: 2}},
			{{A: 1, K: "link"}, {A: 1, K: "mon"}}},
			Sched: []int{0, 0, 1, 1, 0, 1, 0, 0, 1}},
		// unregister + register while a subscriber holds the old record
		{Kind: "hooked", Tags: []string{}, Progs: [][]Op{
			{{A: 0, K: "reg", Notify: true}, {A: 0, K: "unreg"}, {A: 0, K: "reg", Notify: true}, {A: 0, K: "pub", Tok: 2, Seq: 1}},
			{{A: 1, K: "link"}, {A: 1, K: "unlink"}}},
			Sched: []int{0, 1, 1, 0, 0, 1, 1, 0}},
	}
}

// ---- un-hooked stress ------------------------------------------------------------------------

// publishers number their publications 1,2,3..; fresh consumers subscribe and unsubscribe while they
// publish. Judged by end states only: returned list ++ live stream of one subscription must be the
// consecutive numbers of every publisher (nothing twice, nothing lost, in order), the returned list is
// not longer than the buffer, and the subscriber survives.
func stress(rounds int, r *rand.Rand, o *util.Out) {
	for cfgNo := 0; cfgNo < 4; cfgNo++ {
		capn := []int{1, 3, 0, 2}[cfgNo]
		npub := []int{1, 1, 1, 2}[cfgNo]
		wd := newWorld(npub, 1)
		name := wd.names[0]
		ev := gen.Event{Name: name, Node: node.Name()}
		var tok gen.Ref
		do(wd.pids[0], func(w *worker) error {
			var err error
			tok, err = w.RegisterEvent(name, gen.EventOptions{Buffer: capn})
			if err != nil {
				panic(err)
			}
			return nil
		})
		stop := make(chan struct{})
		var dones []chan struct{}
		for p := 0; p < npub; p++ {
			dones = append(dones, goDo(wd.pids[p], func(w *worker) error {
				for i := 1; ; i++ {
					select {
					case <-stop:
						return nil
					default:
					}
					w.SendEvent(name, tok, pub{From: w.idx, Seq: i})
				}
			}))
		}
		bad := ""
		for round := 0; round < rounds && bad == ""; round++ {
			cw, cpid := spawn(100)
			kind := r.Intn(2)
			var ret []pub
			var lerr error
			d := goDo(cpid, func(w *worker) error {
				var l []gen.MessageEvent
				if kind == 0 {
					l, lerr = w.LinkEvent(ev)
				} else {
					l, lerr = w.MonitorEvent(ev)
				}
				for _, m := range l {
					p, _ := m.Message.(pub)
					ret = append(ret, p)
				}
				return nil
			})
			select {
			case <-d:
			case <-time.After(10 * time.Second):
				bad = "the subscriber did not return from LinkEvent/MonitorEvent (crashed?)"
				continue
			}
			if lerr != nil {
				bad = "subscribe failed: " + lerr.Error()
				continue
			}
			for k := r.Intn(3); k > 0; k-- {
				time.Sleep(time.Duration(r.Intn(30)) * time.Microsecond)
			}
			do(cpid, func(w *worker) error {
				if kind == 0 {
					return w.UnlinkEvent(ev)
				}
				return w.DemonitorEvent(ev)
			})
			do(cpid, func(w *worker) error { return nil })
			cw.mu.Lock()
			live := append([]pub{}, cw.evs[name]...)
			cw.mu.Unlock()
			if capn > 0 && len(ret) > capn {
				bad = fmt.Sprintf("returned list has %d elements, buffer is %d", len(ret), capn)
			}
			all := append(append([]pub{}, ret...), live...)
			lastSeq := map[int]int{}
			for _, p := range all {
				if l, ok := lastSeq[p.From]; ok && p.Seq != l+1 {
					bad = fmt.Sprintf("buffer %d, %d publishers: subscription got returned=%v live(first 6)=%v: publisher %d number %d follows %d",
						capn, npub, ret, head(live, 6), p.From, p.Seq, l)
					break
				}
				lastSeq[p.From] = p.Seq
			}
			do(cpid, func(w *worker) error { return gen.TerminateReasonNormal })
			waitTerm(cw)
			o.Stats["subscriptions"]++
			o.Stats["live-messages"] += len(live)
			if len(ret) > 0 && len(live) > 0 {
				o.Stats["subscriptions-with-returned-and-live"]++
			}
		}
		close(stop)
		for _, d := range dones {
			<-d
		}
		wd.shutdown()
		if bad != "" {
			idx := o.Add("stress", Case{Kind: "stress", Tags: []string{}})
			o.Monitor = append(o.Monitor, util.MonitorFail{Case: idx, What: "exactly-once-in-order fails under un-hooked concurrency: " + bad, Tags: []string{}})
		}
		o.Stats["runs"]++
	}
}

// the empty token must never be accepted, also not while the event is being registered
func stressZeroToken(iter int, o *util.Out) {
	wd := newWorld(2, 1)
	name := wd.names[0]
	stop := make(chan struct{})
	accepted := 0
	d1 := goDo(wd.pids[0], func(w *worker) error {
		for i := 0; i < iter; i++ {
			w.RegisterEvent(name, gen.EventOptions{})
			w.UnregisterEvent(name)
		}
		close(stop)
		return nil
	})
	d2 := goDo(wd.pids[1], func(w *worker) error {
		for {
			select {
			case <-stop:
				return nil
			default:
			}
			if err := w.SendEvent(name, gen.Ref{}, pub{From: 1, Seq: 1}); err == nil {
				accepted++
			}
		}
	})
	<-d1
	<-d2
	wd.shutdown()
	o.Stats["zero-token-registrations"] += iter
	o.Stats["runs"]++
	if accepted > 0 {
		idx := o.Add("stress", Case{Kind: "stress", Tags: []string{}})
		o.Monitor = append(o.Monitor, util.MonitorFail{Case: idx, Tags: []string{},
			What: fmt.Sprintf("SendEvent with the empty token was accepted %d times while the event was being registered (%d registrations)", accepted, iter)})
	}
}

func head(l []pub, n int) []pub {
	if len(l) > n {
		return l[:n]
	}
	return l
}

// ---- main ----------------------------------------------------------------------------------------

func main() {
	if len(os.Args) < 2 {
		fmt.Println("usage: event seq|hooked|stress|bounded|remote|rstress -n N -out file [-replay file] [-modes a,b]")
		os.Exit(2)
	}
	sub := os.Args[1]
	fs := flag.NewFlagSet(sub, flag.ExitOnError)
	n := fs.Int("n", 100, "number of cases")
	outp := fs.String("out", "", "output file")
	replay := fs.String("replay", "", "replay file written by bin/check")
	known := fs.String("known", "", "comma separated tags of known findings whose input classes are generated")
	modes := fs.String("modes", "", "rstress: comma separated race families (sub-alone, sub-shared, unreg)")
	fs.Parse(os.Args[2:])
	for _, t := range strings.Split(*known, ",") {
		if t != "" {
			knownTags[t] = true
		}
	}
	o := util.NewOut("event")
	startNode()
	defer node.StopForce()

	emitSeq := func(c Case) {
		terms := runSeqCase(c)
		for e, t := range terms {
			if *replay != "" && e != c.Proj {
				continue
			}
			cc := c
			cc.Proj = e
			o.Add(t, cc)
		}
		o.Stats["histories"]++
		o.Stats["ops"] += len(c.Ops)
		for _, op := range c.Ops {
			o.Stats["op:"+op.K]++
		}
	}
	emitRemote := func(c Case) {
		startPair()
		if os.Getenv("C18_DEBUG") != "" {
			b, _ := json.Marshal(c)
			fmt.Fprintln(os.Stderr, string(b))
		}
		o.Add(runRemoteCase(c), c)
		o.Stats["histories"]++
		o.Stats["ops"] += len(c.Ops)
		o.Stats["actors-on-B"] += len(c.BS)
		for _, op := range c.Ops {
			o.Stats["op:"+op.K]++
			for _, x := range c.BS {
				if x == op.A {
					o.Stats["op-by-remote:"+op.K]++
				}
			}
		}
	}
	rmodes := func() []string {
		var l []string
		for _, m := range strings.Split(*modes, ",") {
			if m != "" {
				l = append(l, m)
			}
		}
		return l
	}
	defer stopPair()
	emitHooked := func(c Case) {
		t, full := runHookedCase(c)
		cc := c
		cc.Sched = full
		o.Add(t, cc)
		o.Stats["schedules"]++
		o.Stats["granted-steps"] += len(full)
	}

	if *replay != "" {
		raw, err := os.ReadFile(*replay)
		if err != nil {
			panic(err)
		}
		var rp struct {
			Case Case `json:"case"`
		}
		if err := json.Unmarshal(raw, &rp); err != nil {
			panic(err)
		}
		switch rp.Case.Kind {
		case "seq":
			emitSeq(rp.Case)
		case "hooked":
			emitHooked(rp.Case)
		case "remote":
			emitRemote(rp.Case)
		case "bounded":
			o.Add(runBoundedCase(rp.Case), rp.Case)
		case "rstress":
			startPair()
			rstress(*n, util.Rng(5), o, []string{rp.Case.Mode})
		default:
			stress(*n, util.Rng(3), o)
			stressZeroToken(*n*100, o)
		}
		o.Write(*outp)
		return
	}

	seqBase := 0
	switch sub {
	case "seq":
		r := util.Rng(1)
		for _, c := range corpusSeq() {
			emitSeq(c)
		}
		for len(o.Cases) < *n {
			emitSeq(genSeq(r, &seqBase))
		}
	case "hooked":
		r := util.Rng(2)
		for _, c := range corpusHooked() {
			emitHooked(c)
		}
		for len(o.Cases) < *n {
			emitHooked(genHooked(r, &seqBase))
		}
	case "stress":
		stress(*n, util.Rng(3), o)
		stressZeroToken(*n*100, o)
	case "remote":
		r := util.Rng(4)
		for _, c := range corpusRemote() {
			emitRemote(c)
		}
		for len(o.Cases) < *n {
			emitRemote(genRemote(r, &seqBase))
		}
	case "bounded":
		r := util.Rng(6)
		emitBounded := func(c Case) {
			o.Add(runBoundedCase(c), c)
			o.Stats["histories"]++
			o.Stats["ops"] += len(c.Ops)
			o.Stats["stuck-subscribers"] += len(c.Stuck)
			for _, op := range c.Ops {
				o.Stats["op:"+op.K]++
			}
		}
		for _, c := range corpusBounded() {
			emitBounded(c)
		}
		for len(o.Cases) < *n {
			emitBounded(genBounded(r, &seqBase))
		}
	case "rstress":
		startPair()
		m := rmodes()
		if len(m) == 0 {
			m = []string{"sub-alone", "sub-shared", "unreg"}
		}
		rstress(*n, util.Rng(5), o, m)
	default:
		fmt.Println("unknown sub-command", sub)
		os.Exit(2)
	}
	o.Write(*outp)
}
