package main

import (
	"errors"
	"fmt"
	"io"
	"net"
	"os"
	"strings"
	"sync"
	"sync/atomic"
	"time"

	"ergo.services/ergo"
	"ergo.services/ergo/act"
	"ergo.services/ergo/gen"
	"ergo.services/ergo/net/handshake"
)

// A world: node A (survivor; trapping observer actors) and node B (targets; may be stopped,
// disconnected, cut off, restarted under the same name).  Both are REAL nodes talking over
// loopback TCP.  A reaches B through a static route with an explicit port (optionally through a
// cutting TCP proxy), so neither the registrar nor fixed ports matter.

// ---- classes of reasons and errors (small enums shared with NetFail/Model.v) ----------------------

const (
	rNormal   = 0
	rKill     = 1
	rUnreg    = 2
	rShutdown = 3
	rPanic    = 4
	rNoConn   = 5
	rOther    = 9
)

func reasonClass(err error) int {
	if err == nil {
		return rOther
	}
	for e := err; e != nil; e = errors.Unwrap(e) {
		switch e.Error() {
		case gen.TerminateReasonNormal.Error():
			return rNormal
		case gen.TerminateReasonKill.Error():
			return rKill
		case gen.ErrUnregistered.Error():
			return rUnreg
		case gen.TerminateReasonShutdown.Error():
			return rShutdown
		case gen.TerminateReasonPanic.Error():
			return rPanic
		case gen.ErrNoConnection.Error():
			return rNoConn
		}
		var k int
		if n, _ := fmt.Sscanf(e.Error(), "custom%d", &k); n == 1 {
			return 10 + k
		}
	}
	return rOther
}

func reasonErr(class int) error {
	switch class {
	case rNormal:
		return gen.TerminateReasonNormal
	case rKill:
		return gen.TerminateReasonKill
	case rShutdown:
		return gen.TerminateReasonShutdown
	case rPanic:
		return gen.TerminateReasonPanic
	}
	return fmt.Errorf("custom%d", class-10)
}

// result of an operation (Coq: nres)
const (
	eOK          = 0
	eNoConn      = 1 // gen.ErrNoConnection / gen.ErrNoRoute: there is no connection and none can be made
	eIncarnation = 2 // gen.ErrProcessIncarnation
	eTimeout     = 3 // gen.ErrTimeout
	eUnknown     = 4 // remote answer: ErrProcessUnknown / ErrAliasUnknown / ErrEventUnknown / ErrNameUnknown
	eExist       = 5 // gen.ErrTargetExist
	eNoRel       = 6 // gen.ErrTargetUnknown
	eTerminated  = 7 // gen.ErrProcessTerminated
	eOther       = 9
)

func errClass(err error) int {
	if err == nil {
		return eOK
	}
	switch err.Error() {
	case gen.ErrNoConnection.Error(), gen.ErrNoRoute.Error():
		return eNoConn
	case gen.ErrProcessIncarnation.Error():
		return eIncarnation
	case gen.ErrTimeout.Error():
		return eTimeout
	case gen.ErrProcessUnknown.Error(), gen.ErrAliasUnknown.Error(), gen.ErrEventUnknown.Error(), gen.ErrNameUnknown.Error():
		return eUnknown
	case gen.ErrTargetExist.Error():
		return eExist
	case gen.ErrTargetUnknown.Error():
		return eNoRel
	case gen.ErrProcessTerminated.Error():
		return eTerminated
	}
	return eOther
}

// ---- notes ---------------------------------------------------------------------------------------

const (
	tkPid   = 0
	tkName  = 1
	tkAlias = 2
	tkEvent = 3
	tkNode  = 4
)

type note struct {
	Down   bool `json:"down"`
	TK     int  `json:"tk"`
	T      int  `json:"t"` // target index (global over incarnations); -1 unknown identifier
	Reason int  `json:"reason"`
}

// ---- observer actor (node A) ----------------------------------------------------------------------

type ocmd struct {
	f    func(a *observer)
	done chan struct{}
}
type oping struct{ ch chan struct{} }

type ask struct {
	from gen.PID
	ref  gen.Ref
}

type observer struct {
	act.Actor
	w     *world
	idx   int
	mu    sync.Mutex
	notes []note
	asks  []ask // requests received (never answered by HandleCall): (caller, ref) pairs minted by the peer
}

// a request from a process of B: remember who asked with which reference and do not answer
// (nil result = "handled asynchronously"): the pair is used later with SendResponse / SendResponseError
func (o *observer) HandleCall(from gen.PID, ref gen.Ref, request any) (any, error) {
	o.mu.Lock()
	o.asks = append(o.asks, ask{from, ref})
	o.mu.Unlock()
	return nil, nil
}

func (o *observer) Init(args ...any) error {
	o.w = args[0].(*world)
	o.idx = args[1].(int)
	o.SetTrapExit(true)
	return nil
}

func (o *observer) add(down bool, tk int, t any, reason error) {
	n := note{Down: down, TK: tk, T: o.w.targetIndex(tk, t), Reason: reasonClass(reason)}
	o.mu.Lock()
	o.notes = append(o.notes, n)
	o.mu.Unlock()
}

func (o *observer) HandleMessage(from gen.PID, message any) error {
	switch m := message.(type) {
	case ocmd:
		m.f(o)
		close(m.done)
	case oping:
		close(m.ch)
	case gen.MessageExitPID:
		o.add(false, tkPid, m.PID, m.Reason)
	case gen.MessageExitProcessID:
		o.add(false, tkName, m.ProcessID, m.Reason)
	case gen.MessageExitAlias:
		o.add(false, tkAlias, m.Alias, m.Reason)
	case gen.MessageExitEvent:
		o.add(false, tkEvent, m.Event, m.Reason)
	case gen.MessageExitNode:
		// carries no reason: the message type itself says "connection lost"
		o.add(false, tkNode, m.Name, gen.ErrNoConnection)
	case gen.MessageDownPID:
		o.add(true, tkPid, m.PID, m.Reason)
	case gen.MessageDownProcessID:
		o.add(true, tkName, m.ProcessID, m.Reason)
	case gen.MessageDownAlias:
		o.add(true, tkAlias, m.Alias, m.Reason)
	case gen.MessageDownEvent:
		o.add(true, tkEvent, m.Event, m.Reason)
	case gen.MessageDownNode:
		o.add(true, tkNode, m.Name, gen.ErrNoConnection)
	}
	return nil
}

func (o *observer) HandleEvent(ev gen.MessageEvent) error { return nil }

// ---- target actor (node B) ------------------------------------------------------------------------

type tcmd struct {
	f    func(t *targetActor) error
	done chan struct{}
}

type targetRec struct {
	idx   int // global index
	inc   int // incarnation of B it belongs to
	pid   gen.PID
	name  gen.Atom
	alias gen.Alias
	event gen.Atom
	token gen.Ref
	mu    sync.Mutex
	got   []int // payloads of regular messages / requests that reached this process
	ready chan struct{}
	gone  chan struct{}
	trap  bool     // the process traps exit signals (they arrive as gen.MessageExitPID)
	exits []string // trapped exit signals: reasons
	other int      // any other message
	why   error    // reason the process terminated with
}

type targetActor struct {
	act.Actor
	rec *targetRec
}

func (t *targetActor) Init(args ...any) error {
	t.rec = args[0].(*targetRec)
	t.rec.pid = t.PID()
	if t.rec.trap {
		t.SetTrapExit(true)
	}
	return nil
}

// registrations are not allowed inside Init: done by the first command
func (t *targetActor) setup() error {
	if err := t.RegisterName(t.rec.name); err != nil {
		panic(err)
	}
	a, err := t.CreateAlias()
	if err != nil {
		panic(err)
	}
	t.rec.alias = a
	tok, err := t.RegisterEvent(t.rec.event, gen.EventOptions{})
	if err != nil {
		panic(err)
	}
	t.rec.token = tok
	close(t.rec.ready)
	return nil
}

func (t *targetActor) HandleMessage(from gen.PID, message any) error {
	switch m := message.(type) {
	case tcmd:
		err := m.f(t)
		close(m.done)
		return err
	case int:
		t.rec.mu.Lock()
		t.rec.got = append(t.rec.got, m)
		t.rec.mu.Unlock()
	case gen.MessageExitPID:
		t.rec.mu.Lock()
		t.rec.exits = append(t.rec.exits, fmt.Sprint(m.Reason))
		t.rec.mu.Unlock()
	default:
		t.rec.mu.Lock()
		t.rec.other++
		t.rec.mu.Unlock()
	}
	return nil
}

// request n: n%10 == 0 reply at once; 1 never reply; 2 reply after 300 ms
func (t *targetActor) HandleCall(from gen.PID, ref gen.Ref, request any) (any, error) {
	n, _ := request.(int)
	t.rec.mu.Lock()
	t.rec.got = append(t.rec.got, n)
	t.rec.mu.Unlock()
	switch n % 10 {
	case 1:
		return nil, nil
	case 2:
		time.Sleep(300 * time.Millisecond)
	}
	return n, nil
}

func (t *targetActor) Terminate(reason error) {
	t.rec.mu.Lock()
	t.rec.why = reason
	t.rec.mu.Unlock()
	close(t.rec.gone)
}

// ---- cutting TCP proxy ----------------------------------------------------------------------------

type proxy struct {
	l       net.Listener
	backend string
	mu      sync.Mutex
	conns   []net.Conn
	holdAB  atomic.Bool // A -> B bytes are held back
	holdBA  atomic.Bool // B -> A bytes are held back
	closed  atomic.Bool
}

func newProxy(host, backend string) *proxy {
	l, err := net.Listen("tcp4", host+":0")
	if err != nil {
		panic(err)
	}
	p := &proxy{l: l, backend: backend}
	go func() {
		for {
			c, err := l.Accept()
			if err != nil {
				return
			}
			d, err := net.Dial("tcp4", backend)
			if err != nil {
				c.Close()
				continue
			}
			p.mu.Lock()
			p.conns = append(p.conns, c, d)
			p.mu.Unlock()
			go p.pipe(c, d, &p.holdAB)
			go p.pipe(d, c, &p.holdBA)
		}
	}()
	return p
}

func (p *proxy) pipe(src, dst net.Conn, hold *atomic.Bool) {
	buf := make([]byte, 65536)
	for {
		n, err := src.Read(buf)
		if n > 0 {
			for hold.Load() && !p.closed.Load() {
				time.Sleep(2 * time.Millisecond)
			}
			if p.closed.Load() {
				break
			}
			if _, werr := dst.Write(buf[:n]); werr != nil {
				break
			}
		}
		if err != nil {
			break
		}
	}
	src.Close()
	dst.Close()
}

func (p *proxy) port() uint16 {
	return uint16(p.l.Addr().(*net.TCPAddr).Port)
}

// cut: every proxied TCP link is closed (held bytes are dropped); new links are still accepted
func (p *proxy) cut() {
	p.closed.Store(true)
	p.mu.Lock()
	for _, c := range p.conns {
		c.Close()
	}
	p.conns = nil
	p.mu.Unlock()
	time.Sleep(5 * time.Millisecond)
	p.closed.Store(false)
	p.holdAB.Store(false)
	p.holdBA.Store(false)
}

func (p *proxy) stop() {
	p.l.Close()
	p.cut()
}

var _ = io.EOF

// ---- the world ------------------------------------------------------------------------------------

var worldSeq int64

type world struct {
	id        int64
	a         gen.Node
	b         gen.Node
	bname     gen.Atom
	inc       int     // current incarnation of B (0-based)
	creations []int64 // creation of every incarnation of B
	pool      int
	useProxy  bool
	px        *proxy
	obs       []*observer
	obsPid    []gen.PID
	mu        sync.Mutex
	targets   []*targetRec // all incarnations
	trapEven  bool         // targets in even slots trap exit signals
}

// every world listens on its own loopback address (127.x.y.z): thousands of short-lived TCP links to
// one address:port pair would exhaust the ephemeral ports (TIME_WAIT) in a long run
func (w *world) host() string {
	return fmt.Sprintf("127.%d.%d.%d", 1+int(os.Getpid()%200), 1+int(w.id/250)%250, 1+int(w.id%250))
}

func quietOptions(pool int, host string) gen.NodeOptions {
	o := gen.NodeOptions{}
	o.Network.Acceptors = []gen.AcceptorOptions{{Host: host}}
	o.Log.DefaultLogger.Disable = true
	o.Network.Cookie = "netfail-cookie"
	o.Network.Registrar = nullRegistrar{}
	if pool > 0 {
		o.Network.Handshake = handshake.Create(handshake.Options{PoolSize: pool})
	}
	return o
}

func acceptorPort(n gen.Node) uint16 {
	accs, err := n.Network().Acceptors()
	if err != nil || len(accs) == 0 {
		panic("no acceptor")
	}
	info := accs[0].Info()
	var port uint16
	i := strings.LastIndex(info.Interface, ":")
	fmt.Sscanf(info.Interface[i+1:], "%d", &port)
	return port
}

func (w *world) routeToB() gen.NetworkRoute {
	accs, _ := w.b.Network().Acceptors()
	info := accs[0].Info()
	port := acceptorPort(w.b)
	if w.useProxy {
		if w.px != nil {
			w.px.stop()
		}
		w.px = newProxy(w.host(), fmt.Sprintf("%s:%d", w.host(), port))
		port = w.px.port()
	}
	return gen.NetworkRoute{
		Route:  gen.Route{Host: w.host(), Port: port, HandshakeVersion: info.HandshakeVersion, ProtoVersion: info.ProtoVersion},
		Cookie: "netfail-cookie",
	}
}

func newWorld(nobs int, pool int, useProxy bool) *world {
	w := &world{id: atomic.AddInt64(&worldSeq, 1), pool: pool, useProxy: useProxy}
	an := gen.Atom(fmt.Sprintf("nfa%dp%d@localhost", w.id, os.Getpid()))
	w.bname = gen.Atom(fmt.Sprintf("nfb%dp%d@localhost", w.id, os.Getpid()))
	a, err := ergo.StartNode(an, quietOptions(pool, w.host()))
	if err != nil {
		panic(err)
	}
	w.a = a
	for i := 0; i < nobs; i++ {
		o := &observer{}
		pid, err := a.Spawn(func() gen.ProcessBehavior { return o }, gen.ProcessOptions{}, w, i+1)
		if err != nil {
			panic(err)
		}
		w.obs = append(w.obs, o)
		w.obsPid = append(w.obsPid, pid)
	}
	return w
}

// startB starts (the next incarnation of) node B with ntargets target actors and (re)installs A's route
func (w *world) startB(ntargets int) {
	b, err := ergo.StartNode(w.bname, quietOptions(w.pool, w.host()))
	if err != nil {
		panic(err)
	}
	w.b = b
	w.inc = len(w.creations)
	w.creations = append(w.creations, b.Creation())
	for j := 0; j < ntargets; j++ {
		w.mu.Lock()
		idx := w.inc*10 + j + 1
		rec := &targetRec{idx: idx, inc: w.inc, ready: make(chan struct{}), gone: make(chan struct{}),
			name: gen.Atom(fmt.Sprintf("tname%d", j+1)), event: gen.Atom(fmt.Sprintf("tevent%d", j+1)),
			trap: w.trapEven && (j+1)%2 == 0}
		w.targets = append(w.targets, rec)
		w.mu.Unlock()
		pid, err := b.Spawn(func() gen.ProcessBehavior { return &targetActor{} }, gen.ProcessOptions{}, rec)
		if err != nil {
			panic(err)
		}
		if err := b.Send(pid, tcmd{func(t *targetActor) error { return t.setup() }, make(chan struct{})}); err != nil {
			panic(err)
		}
		<-rec.ready
	}
	w.a.Network().RemoveRoute(string(w.bname))
	if err := w.a.Network().AddRoute(string(w.bname), w.routeToB(), 100); err != nil {
		panic(err)
	}
}

// connect: A dials B; returns when BOTH ends have registered the connection (the acceptor registers
// it a moment after the dialer's handshake is complete) and the pooled links had time to join
func (w *world) connect() error {
	_, err := w.a.Network().GetNode(w.bname)
	if err != nil {
		// GetNode hides the cause behind ErrNoRoute: ask again with the route itself
		if routes, e := w.a.Network().Route(w.bname); e == nil && len(routes) > 0 {
			if _, e2 := w.a.Network().GetNodeWithRoute(w.bname, routes[0]); e2 != nil {
				return fmt.Errorf("%w (%v)", err, e2)
			}
		} else {
			return err
		}
	}
	deadline := time.Now().Add(2 * time.Second)
	for time.Now().Before(deadline) {
		if _, e := w.b.Network().Node(w.a.Name()); e == nil {
			break
		}
		time.Sleep(2 * time.Millisecond)
	}
	time.Sleep(40 * time.Millisecond)
	return nil
}

func (w *world) close() {
	if w.px != nil {
		w.px.stop()
	}
	if w.b != nil {
		w.b.StopForce()
	}
	w.a.StopForce()
}

// targetIndex maps an identifier found in a notification to the global target index
func (w *world) targetIndex(tk int, t any) int {
	w.mu.Lock()
	defer w.mu.Unlock()
	for _, r := range w.targets {
		switch tk {
		case tkPid:
			if r.pid == t.(gen.PID) {
				return r.idx
			}
		case tkAlias:
			if r.alias == t.(gen.Alias) {
				return r.idx
			}
		}
	}
	switch tk {
	case tkName:
		var k int
		fmt.Sscanf(string(t.(gen.ProcessID).Name), "tname%d", &k)
		return k
	case tkEvent:
		var k int
		fmt.Sscanf(string(t.(gen.Event).Name), "tevent%d", &k)
		return k
	case tkNode:
		if t.(gen.Atom) == w.bname {
			return 0
		}
	}
	return -1
}

// onObserver runs f inside observer i's actor goroutine; returns a channel closed when f is done
func (w *world) onObserver(i int, f func(o *observer)) chan struct{} {
	done := make(chan struct{})
	if err := w.a.Send(w.obsPid[i], ocmd{f, done}); err != nil {
		panic(err)
	}
	return done
}

func (w *world) onTarget(r *targetRec, f func(t *targetActor) error) chan struct{} {
	done := make(chan struct{})
	if err := w.b.Send(r.pid, tcmd{f, done}); err != nil {
		close(done)
	}
	return done
}

func waitOr(ch chan struct{}, d time.Duration) bool {
	select {
	case <-ch:
		return true
	case <-time.After(d):
		return false
	}
}

// settle: every observer has handled what was pushed to it so far (ping round), twice
func (w *world) settle() {
	for round := 0; round < 2; round++ {
		for i := range w.obs {
			ch := make(chan struct{})
			if err := w.a.Send(w.obsPid[i], oping{ch}); err != nil {
				continue
			}
			waitOr(ch, 3*time.Second)
		}
		time.Sleep(15 * time.Millisecond)
	}
}

func (w *world) connected() bool {
	_, err := w.a.Network().Node(w.bname)
	return err == nil
}

func (w *world) waitDisconnected(d time.Duration) bool {
	deadline := time.Now().Add(d)
	for time.Now().Before(deadline) {
		if !w.connected() {
			return true
		}
		time.Sleep(2 * time.Millisecond)
	}
	return !w.connected()
}
