package main

import (
	"encoding/json"
	"fmt"
	"math/rand"
	"os"
	"runtime/debug"
	"sort"
	"strings"
	"sync"
	"time"

	"ergo.services/ergo/gen"
	"verifharness/util"
)

// ---- case description (replayable) ------------------------------------------------------------------

type step struct {
	Op      string `json:"op"` // connect add del send call await term fault restart hold
	O       int    `json:"o,omitempty"`
	Mon     bool   `json:"mon,omitempty"`
	TK      int    `json:"tk,omitempty"`
	Slot    int    `json:"slot,omitempty"`
	Inc     int    `json:"inc,omitempty"` // incarnation of B whose identifier is used
	Reason  int    `json:"reason,omitempty"`
	Fault   string `json:"fault,omitempty"` // stop stopforce disc_a disc_b cut
	Mode    int    `json:"mode,omitempty"`  // call: 0 reply, 1 never, 2 slow reply
	Timeout int    `json:"timeout,omitempty"`
	Async   bool   `json:"async,omitempty"`
	Dir     string `json:"dir,omitempty"` // hold: ab | ba
	Same    bool   `json:"same,omitempty"`
}

type ncase struct {
	Kind     string   `json:"kind"`
	Nobs     int      `json:"nobs"`
	Ntargets int      `json:"ntargets"`
	Proxy    bool     `json:"proxy,omitempty"`
	Skew     bool     `json:"skew,omitempty"`  // B starts in a later second than A
	Align    bool     `json:"align,omitempty"` // B starts early in a second (same-second restart)
	Steps    []step   `json:"steps"`
	Tags     []string `json:"tags"`
}

// ---- result of one executed case ------------------------------------------------------------------------

type callRec struct {
	ref     int
	outcome int
	latMs   int64
	tmoMs   int64
}

type result struct {
	coqSteps  []string
	relax     bool
	inbox     [][]note
	calls     []callRec
	stale     []int
	delivered int
	creations []int64
	fails     []string
	stats     map[string]int
}

type pendingCall struct {
	ref     int
	done    chan struct{}
	err     *error
	start   time.Time
	lat     *time.Duration
	timeout int
}

func obsCoq(i int) string { return fmt.Sprintf("(lpid %d)", 1001+i) }

func targetCoq(tk, idx, slot int) string {
	switch tk {
	case tkPid:
		return fmt.Sprintf("(TPid (mkpid 2 %d))", idx)
	case tkName:
		return fmt.Sprintf("(TName %d 2)", 100+slot)
	case tkAlias:
		return fmt.Sprintf("(TAlias 2 %d)", idx)
	case tkEvent:
		return fmt.Sprintf("(TEvent %d 2)", 200+slot)
	}
	return "(TNode 2)"
}

func noteCoq(n note) string {
	var t string
	switch n.TK {
	case tkName, tkEvent:
		t = targetCoq(n.TK, 0, n.T)
	case tkNode:
		if n.T == 0 {
			t = "(TNode 2)"
		} else {
			t = "(TNode 99)"
		}
	default:
		t = targetCoq(n.TK, n.T, 0)
		if n.T < 0 {
			t = targetCoq(n.TK, 9999, 0)
		}
	}
	return fmt.Sprintf("mknote %s %s %d", util.B(n.Down), t, n.Reason)
}

func resCoq(e int) string {
	if e == eOK {
		return "NOk"
	}
	return fmt.Sprintf("(NErr %d)", e)
}

func ansCoq(e int) string {
	switch e {
	case eTimeout:
		return "ANone"
	case eUnknown, eExist, eNoRel, eTerminated, eOther:
		return fmt.Sprintf("(AErr %d)", e)
	}
	return "AOk"
}

// ---- execution ------------------------------------------------------------------------------------------

type runner struct {
	w       *world
	c       ncase
	res     *result
	canon   map[int64]int
	pending []*pendingCall
	payload map[int]int // payload -> step index of a stale send/call
}

func (r *runner) creationCanon(cr int64) int {
	if v, ok := r.canon[cr]; ok {
		return v
	}
	v := 1000 + len(r.canon)
	r.canon[cr] = v
	return v
}

func (r *runner) fail(format string, a ...any) {
	r.res.fails = append(r.res.fails, fmt.Sprintf(format, a...))
}

func (r *runner) rec(coq string, e int) int {
	r.res.coqSteps = append(r.res.coqSteps, fmt.Sprintf("(%s, %s)", coq, resCoq(e)))
	return len(r.res.coqSteps) - 1
}

func (r *runner) target(inc, slot int) *targetRec {
	r.w.mu.Lock()
	defer r.w.mu.Unlock()
	for _, t := range r.w.targets {
		if t.idx == inc*10+slot {
			return t
		}
	}
	return nil
}

// canonIdx: the index under which the model sees the pid / alias of t. Identifiers are compared as
// the VALUES the implementation sees: when an incarnation restarted within the same second mints the
// same pid / alias again (same node, id and creation: known finding restart-same-second), both
// incarnations' identifiers are one identifier, named by the index of the first target that had it
// (the same rule maps the identifiers found in notifications, world.targetIndex).
func (r *runner) canonIdx(tk int, t *targetRec) int {
	switch tk {
	case tkPid:
		if i := r.w.targetIndex(tkPid, t.pid); i > 0 {
			return i
		}
	case tkAlias:
		if i := r.w.targetIndex(tkAlias, t.alias); i > 0 {
			return i
		}
	}
	return t.idx
}

// identifier of kind tk for target (inc, slot) as a Go value + its Coq target + its creation
func (r *runner) ident(tk, inc, slot int) (any, string, int) {
	t := r.target(inc, slot)
	cr := r.creationCanon(r.w.creations[inc])
	switch tk {
	case tkPid:
		return t.pid, targetCoq(tk, r.canonIdx(tk, t), slot), cr
	case tkName:
		return gen.ProcessID{Name: t.name, Node: r.w.bname}, targetCoq(tk, t.idx, slot), 0
	case tkAlias:
		return t.alias, targetCoq(tk, r.canonIdx(tk, t), slot), cr
	case tkEvent:
		return gen.Event{Name: t.event, Node: r.w.bname}, targetCoq(tk, t.idx, slot), 0
	}
	return r.w.bname, "(TNode 2)", 0
}

func (r *runner) isStale(tk, inc int) bool {
	return (tk == tkPid || tk == tkAlias) && inc < r.w.inc && r.w.connected()
}

func (r *runner) noteCount() int {
	n := 0
	for _, o := range r.w.obs {
		o.mu.Lock()
		n += len(o.notes)
		o.mu.Unlock()
	}
	return n
}

// wait until no new notification arrived for `quiet`
func (r *runner) stable(quiet, max time.Duration) {
	deadline := time.Now().Add(max)
	last := r.noteCount()
	since := time.Now()
	for time.Now().Before(deadline) {
		time.Sleep(10 * time.Millisecond)
		n := r.noteCount()
		if n != last {
			last, since = n, time.Now()
			continue
		}
		if time.Since(since) >= quiet {
			return
		}
	}
}

func doAdd(o *observer, mon bool, tk int, id any) error {
	var err error
	switch tk {
	case tkPid:
		if mon {
			err = o.MonitorPID(id.(gen.PID))
		} else {
			err = o.LinkPID(id.(gen.PID))
		}
	case tkName:
		if mon {
			err = o.MonitorProcessID(id.(gen.ProcessID))
		} else {
			err = o.LinkProcessID(id.(gen.ProcessID))
		}
	case tkAlias:
		if mon {
			err = o.MonitorAlias(id.(gen.Alias))
		} else {
			err = o.LinkAlias(id.(gen.Alias))
		}
	case tkEvent:
		if mon {
			_, err = o.MonitorEvent(id.(gen.Event))
		} else {
			_, err = o.LinkEvent(id.(gen.Event))
		}
	case tkNode:
		if mon {
			err = o.MonitorNode(id.(gen.Atom))
		} else {
			err = o.LinkNode(id.(gen.Atom))
		}
	}
	return err
}

func doDel(o *observer, mon bool, tk int, id any) error {
	var err error
	switch tk {
	case tkPid:
		if mon {
			err = o.DemonitorPID(id.(gen.PID))
		} else {
			err = o.UnlinkPID(id.(gen.PID))
		}
	case tkName:
		if mon {
			err = o.DemonitorProcessID(id.(gen.ProcessID))
		} else {
			err = o.UnlinkProcessID(id.(gen.ProcessID))
		}
	case tkAlias:
		if mon {
			err = o.DemonitorAlias(id.(gen.Alias))
		} else {
			err = o.UnlinkAlias(id.(gen.Alias))
		}
	case tkEvent:
		if mon {
			err = o.DemonitorEvent(id.(gen.Event))
		} else {
			err = o.UnlinkEvent(id.(gen.Event))
		}
	case tkNode:
		if mon {
			err = o.DemonitorNode(id.(gen.Atom))
		} else {
			err = o.UnlinkNode(id.(gen.Atom))
		}
	}
	return err
}

const opWait = 12 * time.Second

func (r *runner) finishCall(p *pendingCall) {
	limit := time.Duration(p.timeout)*time.Second + 5*time.Second
	if !waitOr(p.done, limit-time.Since(p.start)) {
		r.res.calls = append(r.res.calls, callRec{p.ref, 99, time.Since(p.start).Milliseconds(), int64(p.timeout) * 1000})
		r.fail("call %d still waiting after %v (timeout %d s): hang", p.ref, time.Since(p.start), p.timeout)
		return
	}
	e := errClass(*p.err)
	switch e {
	case eOK:
		r.rec(fmt.Sprintf("NResponse %d", p.ref), eOK)
		r.res.calls = append(r.res.calls, callRec{p.ref, 0, p.lat.Milliseconds(), int64(p.timeout) * 1000})
	case eTimeout:
		r.rec(fmt.Sprintf("NTimer %d", p.ref), eOK)
		r.res.calls = append(r.res.calls, callRec{p.ref, eTimeout, p.lat.Milliseconds(), int64(p.timeout) * 1000})
	default:
		// the call was refused after it had been recorded as started
		r.fail("asynchronous call %d ended with unexpected error %v", p.ref, *p.err)
	}
}

func (r *runner) exec(i int, s step) bool {
	w := r.w
	switch s.Op {
	case "connect":
		err := w.connect()
		if err != nil {
			r.fail("step %d: connect failed: %v", i, err)
			return false
		}
		r.rec(fmt.Sprintf("NConnect 2 %d", r.creationCanon(w.creations[w.inc])), eOK)
	case "dialadd":
		// LinkNode / MonitorNode as the FIRST contact: process.LinkNode dials (Network().GetNode) and inserts the
		// relation; it returns as soon as the dialing side's handshake is complete, a moment before the accepting
		// node has registered the connection.  The next step (a fault) follows at once.
		var err error
		was := w.connected()
		done := w.onObserver(s.O, func(o *observer) { err = doAdd(o, s.Mon, tkNode, w.bname) })
		if !waitOr(done, opWait) {
			r.fail("step %d: dialadd did not return within %v: hang", i, opWait)
			return false
		}
		if !was && w.connected() {
			r.rec(fmt.Sprintf("NConnect 2 %d", r.creationCanon(w.creations[w.inc])), eOK)
		}
		e := errClass(err)
		r.rec(fmt.Sprintf("NAdd %s %s (TNode 2) 0 %s", util.B(s.Mon), obsCoq(s.O), ansCoq(e)), e)
		r.res.stats[fmt.Sprintf("dialadd-result-%d", e)]++
	case "add", "del":
		id, tcoq, cr := r.ident(s.TK, s.Inc, s.Slot)
		stale := r.isStale(s.TK, s.Inc)
		var err error
		done := w.onObserver(s.O, func(o *observer) {
			if s.Op == "add" {
				err = doAdd(o, s.Mon, s.TK, id)
			} else {
				err = doDel(o, s.Mon, s.TK, id)
			}
		})
		if !waitOr(done, opWait) {
			r.fail("step %d: %s did not return within %v: hang", i, s.Op, opWait)
			return false
		}
		e := errClass(err)
		if e == eOther {
			r.res.stats["other-error:"+err.Error()]++
		}
		name := "NAdd"
		if s.Op == "del" {
			name = "NDel"
		}
		k := r.rec(fmt.Sprintf("%s %s %s %s %d %s", name, util.B(s.Mon), obsCoq(s.O), tcoq, cr, ansCoq(e)), e)
		if stale {
			r.res.stale = append(r.res.stale, k)
		}
		r.res.stats[fmt.Sprintf("%s-result-%d", s.Op, e)]++
	case "send":
		id, tcoq, cr := r.ident(s.TK, s.Inc, s.Slot)
		stale := r.isStale(s.TK, s.Inc)
		payload := 100000 + i
		var err error
		done := w.onObserver(s.O, func(o *observer) { err = o.Send(id, payload) })
		if !waitOr(done, opWait) {
			r.fail("step %d: send did not return: hang", i)
			return false
		}
		e := errClass(err)
		k := r.rec(fmt.Sprintf("NSend %s %s %d", obsCoq(s.O), tcoq, cr), e)
		if stale {
			r.res.stale = append(r.res.stale, k)
			r.payload[payload] = k
		}
		r.res.stats[fmt.Sprintf("send-result-%d", e)]++
	case "call":
		id, tcoq, cr := r.ident(s.TK, s.Inc, s.Slot)
		stale := r.isStale(s.TK, s.Inc)
		payload := (100000+i)*10 + s.Mode
		p := &pendingCall{ref: i, err: new(error), lat: new(time.Duration), timeout: s.Timeout, start: time.Now()}
		p.done = w.onObserver(s.O, func(o *observer) {
			t0 := time.Now()
			_, *p.err = o.CallWithTimeout(id, payload, s.Timeout)
			*p.lat = time.Since(t0)
		})
		if s.Async {
			// the request has reached its target on B before the history goes on
			if t := r.target(s.Inc, s.Slot); t != nil {
				deadline := time.Now().Add(2 * time.Second)
				for time.Now().Before(deadline) {
					t.mu.Lock()
					seen := false
					for _, g := range t.got {
						if g == payload {
							seen = true
						}
					}
					t.mu.Unlock()
					if seen {
						break
					}
					time.Sleep(2 * time.Millisecond)
				}
			}
			r.rec(fmt.Sprintf("NCall %s %s %d %d", obsCoq(s.O), tcoq, cr, i), eOK)
			r.pending = append(r.pending, p)
			r.res.stats["call-async"]++
			break
		}
		limit := time.Duration(s.Timeout)*time.Second + 5*time.Second
		if !waitOr(p.done, limit) {
			r.rec(fmt.Sprintf("NCall %s %s %d %d", obsCoq(s.O), tcoq, cr, i), eOK)
			r.res.calls = append(r.res.calls, callRec{i, 99, limit.Milliseconds(), int64(s.Timeout) * 1000})
			r.fail("step %d: call still waiting after %v (timeout %d s): hang", i, limit, s.Timeout)
			return false
		}
		e := errClass(*p.err)
		if e == eOK || e == eTimeout {
			k := r.rec(fmt.Sprintf("NCall %s %s %d %d", obsCoq(s.O), tcoq, cr, i), eOK)
			if stale {
				r.res.stale = append(r.res.stale, k)
				r.payload[payload] = k
			}
			r.finishCall(p)
		} else {
			k := r.rec(fmt.Sprintf("NCall %s %s %d %d", obsCoq(s.O), tcoq, cr, i), e)
			if stale {
				r.res.stale = append(r.res.stale, k)
				r.payload[payload] = k
			}
		}
		r.res.stats[fmt.Sprintf("call-result-%d", e)]++
	case "await":
		for _, p := range r.pending {
			r.finishCall(p)
		}
		r.pending = nil
	case "term":
		t := r.target(w.inc, s.Slot)
		select {
		case <-t.gone:
			return true // already terminated
		default:
		}
		if s.Reason == rKill {
			w.b.Kill(t.pid)
		} else {
			w.onTarget(t, func(ta *targetActor) error { return reasonErr(s.Reason) })
		}
		if !waitOr(t.gone, 5*time.Second) {
			r.fail("step %d: target did not terminate", i)
			return false
		}
		// unregisterProcess: pid, name, aliases, events
		for _, tk := range []int{tkPid, tkName, tkAlias, tkEvent} {
			r.rec(fmt.Sprintf("NTermFrame %s %d", targetCoq(tk, r.canonIdx(tk, t), s.Slot), s.Reason), eOK)
		}
		r.stable(120*time.Millisecond, 1500*time.Millisecond)
		r.res.stats[fmt.Sprintf("term-reason-%d", s.Reason)]++
	case "hold":
		if w.px == nil {
			return true
		}
		if s.Dir == "ab" {
			w.px.holdAB.Store(true)
		} else {
			w.px.holdBA.Store(true)
		}
	case "fault":
		if !w.connected() {
			return true
		}
		r.res.stats["fault-"+s.Fault]++
		switch s.Fault {
		case "stop":
			r.res.relax = true
			w.b.Stop()
		case "stopforce":
			r.res.relax = true
			w.b.StopForce()
		case "disc_a":
			if rn, err := w.a.Network().Node(w.bname); err == nil {
				rn.Disconnect()
			}
		case "disc_b":
			if rn, err := w.b.Network().Node(w.a.Name()); err == nil {
				rn.Disconnect()
			} else {
				r.fail("step %d: B does not see A", i)
			}
		case "cut":
			w.px.cut()
		}
		if !w.waitDisconnected(4 * time.Second) {
			errb := gen.ErrNodeTerminated
			if nw := w.b.Network(); nw != nil {
				_, errb = nw.Node(w.a.Name())
			}
			if s.Fault == "cut" && errb == nil {
				// both ends kept the connection: the dialer re-joined before the acceptor noticed
				r.res.stats["cut-healed"]++
				if rn, err := w.a.Network().Node(w.bname); err == nil {
					rn.Disconnect()
				}
				if !w.waitDisconnected(4 * time.Second) {
					r.fail("step %d: A still holds the connection after Disconnect", i)
					return false
				}
			} else {
				r.fail("step %d: fault %s: B dropped the connection (B sees A: %v) but A still holds it after 4 s: the loss is never detected, nobody is notified", i, s.Fault, errb == nil)
				return false
			}
		}
		r.rec("NDown 2", eOK)
		r.stable(150*time.Millisecond, 2*time.Second)
	case "restart":
		if s.Same == false {
			for time.Now().Unix() == w.creations[w.inc] {
				time.Sleep(10 * time.Millisecond)
			}
		}
		w.startB(r.c.Ntargets)
		if s.Same && w.creations[w.inc] != w.creations[w.inc-1] {
			r.res.stats["same-second-missed"]++
		}
		if s.Same && w.creations[w.inc] == w.creations[w.inc-1] {
			r.res.stats["same-second-hit"]++
		}
	}
	return true
}

func execCase(c ncase) (res *result) {
	res = &result{stats: map[string]int{}}
	pool := 0 // default pool (3 TCP links)
	if c.Proxy {
		pool = 1 // one link, through the cutting proxy
	}
	w := newWorld(c.Nobs, pool, c.Proxy)
	r := &runner{w: w, c: c, res: res, canon: map[int64]int{}, payload: map[int]int{}}
	defer func() {
		if p := recover(); p != nil {
			res.fails = append(res.fails, fmt.Sprintf("harness panic: %v %s", p, debug.Stack()))
		}
		go w.close()
	}()
	if c.Skew {
		for time.Now().Unix() == w.a.Creation() {
			time.Sleep(10 * time.Millisecond)
		}
	}
	if c.Align {
		for time.Now().Nanosecond() > 200_000_000 {
			time.Sleep(5 * time.Millisecond)
		}
	}
	w.startB(c.Ntargets)
	for i, s := range c.Steps {
		if !r.exec(i, s) {
			break
		}
	}
	for _, p := range r.pending {
		r.finishCall(p)
	}
	r.stable(150*time.Millisecond, 2*time.Second)
	w.settle()
	for _, o := range w.obs {
		o.mu.Lock()
		res.inbox = append(res.inbox, append([]note(nil), o.notes...))
		o.mu.Unlock()
	}
	// payloads of stale steps that reached a process of a LATER incarnation than their identifier
	w.mu.Lock()
	for _, t := range w.targets {
		t.mu.Lock()
		for _, g := range t.got {
			if _, ok := r.payload[g]; ok && t.inc > 0 {
				res.delivered++
			}
		}
		t.mu.Unlock()
	}
	w.mu.Unlock()
	res.creations = append([]int64(nil), w.creations...)
	for i, cr := range res.creations {
		res.creations[i] = int64(r.creationCanon(cr))
	}
	return res
}

func (res *result) coq(c ncase) string {
	obs := make([]string, c.Nobs)
	inbox := make([]string, 0, c.Nobs)
	for i := 0; i < c.Nobs; i++ {
		obs[i] = obsCoq(i)
		if i < len(res.inbox) {
			ns := make([]string, len(res.inbox[i]))
			for j, n := range res.inbox[i] {
				ns[j] = noteCoq(n)
			}
			sort.Strings(ns)
			inbox = append(inbox, fmt.Sprintf("(%s, %s)", obsCoq(i), util.List(ns)))
		}
	}
	calls := make([]string, len(res.calls))
	for i, k := range res.calls {
		calls[i] = fmt.Sprintf("(%d, (%d, (%d, %d)))", k.ref, k.outcome, k.latMs, k.tmoMs)
	}
	stale := make([]string, len(res.stale))
	for i, k := range res.stale {
		stale[i] = fmt.Sprintf("%d%%nat", k)
	}
	crs := make([]string, len(res.creations))
	for i, k := range res.creations {
		crs[i] = fmt.Sprintf("%d", k)
	}
	return fmt.Sprintf("mk_ncase %s %s %s %s %s %s %d %s", util.List(obs), util.List(res.coqSteps), util.B(res.relax),
		util.List(inbox), util.List(calls), util.List(stale), res.delivered, util.List(crs))
}

// ---- generation -----------------------------------------------------------------------------------------

var faultsPlain = []string{"stop", "stopforce", "disc_a", "disc_b"}

func randAdds(r *rand.Rand, c *ncase, n int, inc int) {
	for k := 0; k < n; k++ {
		s := step{Op: "add", O: r.Intn(c.Nobs), Mon: r.Intn(2) == 0, TK: r.Intn(5), Slot: 1 + r.Intn(c.Ntargets), Inc: inc}
		if r.Intn(6) == 0 {
			s.Op = "del"
			// mostly a relation requested earlier in this history
			var adds []step
			for _, p := range c.Steps {
				if p.Op == "add" && p.Inc == inc {
					adds = append(adds, p)
				}
			}
			if len(adds) > 0 && r.Intn(5) > 0 {
				s = adds[r.Intn(len(adds))]
				s.Op = "del"
			}
		}
		c.Steps = append(c.Steps, s)
	}
}

func pickFault(r *rand.Rand, c *ncase) string {
	if c.Proxy && r.Intn(2) == 0 {
		return "cut"
	}
	return faultsPlain[r.Intn(len(faultsPlain))]
}

var reasons = []int{rNormal, rKill, rShutdown, rPanic, 11, 12, 13}

func genDown(r *rand.Rand) ncase {
	c := ncase{Kind: "down", Nobs: 2 + r.Intn(3), Ntargets: 2 + r.Intn(2), Proxy: r.Intn(3) == 0, Skew: r.Intn(4) == 0, Tags: []string{"down"}}
	c.Steps = append(c.Steps, step{Op: "connect"})
	randAdds(r, &c, 4+r.Intn(9), 0)
	if r.Intn(2) == 0 {
		c.Steps = append(c.Steps, step{Op: "term", Slot: 1 + r.Intn(c.Ntargets), Reason: reasons[r.Intn(len(reasons))]})
		randAdds(r, &c, r.Intn(4), 0)
	}
	f := pickFault(r, &c)
	c.Steps = append(c.Steps, step{Op: "fault", Fault: f})
	// after the loss
	switch {
	case f == "stop" || f == "stopforce":
		randAdds(r, &c, 1+r.Intn(2), 0) // no connection can be made
		c.Steps = append(c.Steps, step{Op: "send", O: 0, TK: r.Intn(3), Slot: 1, Inc: 0})
	case r.Intn(2) == 0:
		c.Steps = append(c.Steps, step{Op: "connect"})
		randAdds(r, &c, 2+r.Intn(4), 0)
		c.Steps = append(c.Steps, step{Op: "fault", Fault: pickFault(r, &c)})
	}
	return c
}

func genReason(r *rand.Rand) ncase {
	c := ncase{Kind: "reason", Nobs: 2 + r.Intn(2), Ntargets: 3, Skew: r.Intn(2) == 0, Tags: []string{"reason"}}
	c.Steps = append(c.Steps, step{Op: "connect"})
	// every kind of the first target, link and monitor
	for tk := 0; tk < 4; tk++ {
		c.Steps = append(c.Steps, step{Op: "add", O: 0, Mon: false, TK: tk, Slot: 1}, step{Op: "add", O: 1, Mon: true, TK: tk, Slot: 1})
	}
	randAdds(r, &c, 3+r.Intn(6), 0)
	perm := r.Perm(3)
	for _, p := range perm[:1+r.Intn(3)] {
		c.Steps = append(c.Steps, step{Op: "term", Slot: 1 + p, Reason: reasons[r.Intn(len(reasons))]})
		randAdds(r, &c, r.Intn(3), 0)
	}
	c.Steps = append(c.Steps, step{Op: "fault", Fault: faultsPlain[2+r.Intn(2)]})
	return c
}

func genRestart(r *rand.Rand, same bool) ncase {
	c := ncase{Kind: "restart", Nobs: 2, Ntargets: 2, Tags: []string{"restart"}}
	if same {
		c.Align = true
		c.Tags = []string{"restart", "restart-same-second"}
	}
	c.Steps = append(c.Steps, step{Op: "connect"})
	if same == false {
		randAdds(r, &c, 2+r.Intn(4), 0)
		c.Steps = append(c.Steps, step{Op: "send", O: 0, TK: tkPid, Slot: 1, Inc: 0})
	}
	f := "stopforce"
	if same == false && r.Intn(2) == 0 {
		f = "stop"
	}
	c.Steps = append(c.Steps, step{Op: "fault", Fault: f}, step{Op: "restart", Same: same}, step{Op: "connect"})
	// identifiers of the old incarnation on the connection with the new one
	stale := []step{
		{Op: "send", O: 0, TK: tkPid, Slot: 1, Inc: 0},
		{Op: "send", O: 1, TK: tkAlias, Slot: 2, Inc: 0},
		{Op: "call", O: 0, TK: tkPid, Slot: 2, Inc: 0, Timeout: 1},
		{Op: "call", O: 1, TK: tkAlias, Slot: 1, Inc: 0, Timeout: 1},
		{Op: "add", O: 0, Mon: false, TK: tkPid, Slot: 1, Inc: 0},
		{Op: "add", O: 1, Mon: true, TK: tkPid, Slot: 2, Inc: 0},
		{Op: "add", O: 0, Mon: true, TK: tkAlias, Slot: 1, Inc: 0},
		{Op: "add", O: 1, Mon: false, TK: tkAlias, Slot: 2, Inc: 0},
		{Op: "del", O: 0, Mon: false, TK: tkPid, Slot: 2, Inc: 0},
	}
	r.Shuffle(len(stale), func(i, j int) { stale[i], stale[j] = stale[j], stale[i] })
	c.Steps = append(c.Steps, stale[:4+r.Intn(len(stale)-3)]...)
	// names carry no creation: they address the new incarnation by design
	c.Steps = append(c.Steps, step{Op: "send", O: 0, TK: tkName, Slot: 1, Inc: 0})
	// fresh identifiers work
	randAdds(r, &c, 2+r.Intn(3), 1)
	c.Steps = append(c.Steps, step{Op: "call", O: 0, TK: tkPid, Slot: 1, Inc: 1, Timeout: 1})
	c.Steps = append(c.Steps, step{Op: "fault", Fault: "disc_a"})
	return c
}

func genCalls(r *rand.Rand) ncase {
	c := ncase{Kind: "calls", Nobs: 3, Ntargets: 2, Proxy: r.Intn(2) == 0, Tags: []string{"calls"}}
	c.Steps = append(c.Steps, step{Op: "connect"})
	randAdds(r, &c, 2+r.Intn(3), 0)
	for k := range c.Steps {
		if c.Steps[k].O == 2 {
			c.Steps[k].O = 1 // observer 2 only calls
		}
	}
	c.Steps = append(c.Steps, step{Op: "call", O: 0, TK: r.Intn(3), Slot: 1, Mode: 0, Timeout: 1})
	// in flight while the connection goes away
	c.Steps = append(c.Steps, step{Op: "call", O: 2, TK: r.Intn(3), Slot: 1 + r.Intn(2), Mode: 1 + r.Intn(2), Timeout: 1 + r.Intn(2), Async: true})
	f := pickFault(r, &c)
	c.Steps = append(c.Steps, step{Op: "fault", Fault: f}, step{Op: "await"})
	// a call when no connection exists and none can be made / after reconnecting
	if f == "stop" || f == "stopforce" {
		c.Steps = append(c.Steps, step{Op: "call", O: 0, TK: r.Intn(3), Slot: 1, Mode: 0, Timeout: 1})
	} else if r.Intn(2) == 0 {
		c.Steps = append(c.Steps, step{Op: "connect"}, step{Op: "call", O: 0, TK: tkName, Slot: 1, Mode: 1, Timeout: 1})
		c.Steps = append(c.Steps, step{Op: "fault", Fault: "disc_a"})
	}
	return c
}

// the peer stops right after the first contact: the dialing side's GetNode has returned, the accepting side
// may not have registered the connection yet (network.accept registers it after the handshake)
func genStopNow(r *rand.Rand) ncase {
	c := ncase{Kind: "stopnow", Nobs: 2, Ntargets: 1, Tags: []string{"down", "stopnow"}}
	c.Steps = append(c.Steps, step{Op: "dialadd", O: 0, Mon: r.Intn(2) == 0})
	if r.Intn(3) == 0 {
		c.Steps = append(c.Steps, step{Op: "dialadd", O: 1, Mon: r.Intn(2) == 0})
	}
	c.Steps = append(c.Steps, step{Op: "fault", Fault: []string{"stop", "stopforce"}[r.Intn(2)]})
	return c
}

// a link / unlink request or its answer is held back in the proxy, then every link is cut
func genInflight(r *rand.Rand) ncase {
	c := ncase{Kind: "inflight", Nobs: 2, Ntargets: 2, Proxy: true, Tags: []string{"inflight"}}
	c.Steps = append(c.Steps, step{Op: "connect"})
	randAdds(r, &c, 3+r.Intn(4), 0)
	c.Steps = append(c.Steps, step{Op: "add", O: 0, Mon: false, TK: tkPid, Slot: 1}, step{Op: "add", O: 1, Mon: true, TK: tkName, Slot: 2})
	dir := []string{"ab", "ba"}[r.Intn(2)]
	c.Steps = append(c.Steps, step{Op: "hold", Dir: dir})
	switch r.Intn(3) {
	case 0:
		c.Steps = append(c.Steps, step{Op: "add", O: 1, Mon: r.Intn(2) == 0, TK: r.Intn(4), Slot: 2})
	case 1:
		c.Steps = append(c.Steps, step{Op: "del", O: 0, Mon: false, TK: tkPid, Slot: 1})
	default:
		c.Steps = append(c.Steps, step{Op: "del", O: 1, Mon: true, TK: tkName, Slot: 2})
	}
	c.Steps = append(c.Steps, step{Op: "fault", Fault: "cut"})
	return c
}

func generate(n int, known map[string]bool, stream int64) []ncase {
	r := util.Rng(141 + 1000*stream)
	var cases []ncase
	// fixed corpus first: one of each kind of fault with every kind of target
	for _, f := range []string{"stop", "stopforce", "disc_a", "disc_b", "cut"} {
		c := ncase{Kind: "down", Nobs: 3, Ntargets: 2, Proxy: f == "cut", Skew: f == "disc_a", Tags: []string{"down", "corpus"}}
		c.Steps = append(c.Steps, step{Op: "connect"})
		for tk := 0; tk < 5; tk++ {
			c.Steps = append(c.Steps, step{Op: "add", O: 0, Mon: false, TK: tk, Slot: 1}, step{Op: "add", O: 1, Mon: true, TK: tk, Slot: 1})
		}
		c.Steps = append(c.Steps, step{Op: "add", O: 1, Mon: true, TK: tkPid, Slot: 2}, step{Op: "del", O: 1, Mon: true, TK: tkPid, Slot: 2})
		c.Steps = append(c.Steps, step{Op: "fault", Fault: f})
		cases = append(cases, c)
	}
	for _, f := range []string{"stop", "stopforce"} {
		cases = append(cases, ncase{Kind: "stopnow", Nobs: 2, Ntargets: 1, Tags: []string{"down", "stopnow", "corpus"},
			Steps: []step{{Op: "dialadd", O: 0, Mon: f == "stop"}, {Op: "fault", Fault: f}}})
	}
	if known["restart-same-second"] {
		cases = append(cases, genRestart(r, true))
	}
	if only := os.Getenv("NETFAIL_KIND"); only != "" { // development aid: one kind only
		cases = nil
		for len(cases) < n {
			switch only {
			case "stopnow":
				cases = append(cases, genStopNow(r))
			case "restart":
				cases = append(cases, genRestart(r, false))
			default:
				cases = append(cases, genDown(r))
			}
		}
	}
	for len(cases) < n {
		switch k := r.Intn(22); {
		case k >= 20:
			cases = append(cases, genStopNow(r))
		case k < 8:
			cases = append(cases, genDown(r))
		case k < 12:
			cases = append(cases, genReason(r))
		case k < 15:
			cases = append(cases, genRestart(r, false))
		case k < 18:
			cases = append(cases, genCalls(r))
		default:
			cases = append(cases, genInflight(r))
		}
	}
	return cases
}

// ---- driver -----------------------------------------------------------------------------------------------

func runHist(n int, out, replay, knownTags string, par int, stream int64) {
	gen.DefaultRequestTimeout = 1 // seconds: Link/Monitor requests whose answer never comes
	o := util.NewOut("netfail.hist")
	known := map[string]bool{}
	for _, t := range strings.Split(knownTags, ",") {
		if t != "" {
			known[t] = true
		}
	}
	var cases []ncase
	if replay != "" {
		raw, err := os.ReadFile(replay)
		if err != nil {
			panic(err)
		}
		var wrap struct {
			Case json.RawMessage `json:"case"`
		}
		var c ncase
		if json.Unmarshal(raw, &wrap) == nil && len(wrap.Case) > 0 {
			json.Unmarshal(wrap.Case, &c)
		} else {
			json.Unmarshal(raw, &c)
		}
		cases = []ncase{c}
	} else {
		cases = generate(n, known, stream)
	}
	results := make([]*result, len(cases))
	var wg sync.WaitGroup
	sem := make(chan struct{}, par)
	for i := range cases {
		wg.Add(1)
		sem <- struct{}{}
		go func(i int) {
			defer wg.Done()
			defer func() { <-sem }()
			done := make(chan *result, 1)
			go func() {
				res := execCase(cases[i])
				// a same-second restart that missed its second is an ordinary restart: try again so the
				// known-finding class is really exercised (the alignment depends on the wall clock)
				for try := 0; cases[i].Align && res.stats["same-second-hit"] == 0 && try < 3; try++ {
					res = execCase(cases[i])
				}
				done <- res
			}()
			select {
			case r := <-done:
				results[i] = r
			case <-time.After(60 * time.Second):
				results[i] = &result{stats: map[string]int{}, fails: []string{"case did not finish within 60 s: hang"}}
			}
		}(i)
	}
	wg.Wait()
	for i, c := range cases {
		res := results[i]
		if len(c.Tags) == 0 {
			c.Tags = []string{"untagged"}
		}
		idx := o.Add(res.coq(c), c)
		o.Stats["kind:"+c.Kind]++
		for k, v := range res.stats {
			o.Stats[k] += v
		}
		o.Stats["steps"] += len(res.coqSteps)
		o.Stats["calls"] += len(res.calls)
		o.Stats["stale-steps"] += len(res.stale)
		for _, in := range res.inbox {
			o.Stats["notifications"] += len(in)
		}
		for _, f := range res.fails {
			o.Monitor = append(o.Monitor, util.MonitorFail{Case: idx, What: f, Tags: c.Tags})
		}
	}
	o.Write(out)
}
