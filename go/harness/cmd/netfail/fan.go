package main

import (
	"encoding/json"
	"fmt"
	"math/rand"
	"os"
	"runtime/debug"
	"sort"
	"sync"
	"time"

	"ergo.services/ergo/act"
	"ergo.services/ergo/gen"
	"verifharness/util"
)

// `netfail fan`: the notification fan-out of RouteNodeDown / RouteTerminate* with consumers that CANNOT take
// the message.  Node A runs 10-40 watchers holding links / monitors on the pids, names, aliases, events of a
// few processes of node B and on B itself.  Before anything happens a few watchers are made unable:
//   zombie   blocked in a callback, then Node.Kill: still registered, RouteSendPID answers ErrProcessTerminated
//   bounded  ProcessOptions.MailboxSize 1, blocked in a callback, System (and/or Urgent) queue filled:
//            ErrProcessMailboxFull
//   racy     killed (idle) at the very moment the connection is lost: inside unregisterProcess or gone
//   busy     healthy but blocked in a callback while the fan-out runs; released afterwards
// Optionally one process of B terminates first (four Terminate* frames -> RouteTerminate* on A), then the
// connection is lost (Disconnect on either side, Stop / StopForce of B, cut in the TCP proxy).
// Every watcher that can take its messages must have handled exactly one exit per link / down per monitor
// with the right reason; the observations are printed as Coq cases (NetFail/FanoutCases.v).

const (
	clOK      = 0
	clZombie  = 1
	clBounded = 2
	clRacy    = 3
	clBusy    = 4
)

type frel struct {
	Mon  bool `json:"mon"`
	TK   int  `json:"tk"`
	Slot int  `json:"slot"` // target process 1..Ntargets; 0 for the node
}

type fwspec struct {
	Class   int    `json:"class"`
	FillSys bool   `json:"fillsys,omitempty"` // bounded: System queue filled (down messages fail)
	FillUrg bool   `json:"fillurg,omitempty"` // bounded: Urgent queue filled (exit messages fail)
	Rels    []frel `json:"rels"`
}

type fcase struct {
	Kind       string   `json:"kind"`
	Name       string   `json:"name,omitempty"`
	Ntargets   int      `json:"ntargets"`
	Watch      []fwspec `json:"watch"`
	Term       int      `json:"term,omitempty"` // slot of the process of B that terminates before the loss
	TermReason int      `json:"termreason,omitempty"`
	Fault      string   `json:"fault"`
	Tags       []string `json:"tags"`
}

type fcmd struct {
	f    func(o *fwatcher)
	done chan struct{}
}
type fblock struct{}
type ffill struct{}
type fmark struct{ ch chan struct{} }

type fwatcher struct {
	act.Actor
	w       *world
	mu      sync.Mutex
	notes   []note
	busy    chan struct{}
	release chan struct{}
}

func (o *fwatcher) Init(args ...any) error {
	o.SetTrapExit(true)
	return nil
}

func (o *fwatcher) add(down bool, tk int, t any, reason error) {
	n := note{Down: down, TK: tk, T: o.w.targetIndex(tk, t), Reason: reasonClass(reason)}
	o.mu.Lock()
	o.notes = append(o.notes, n)
	o.mu.Unlock()
}

func (o *fwatcher) count() int {
	o.mu.Lock()
	defer o.mu.Unlock()
	return len(o.notes)
}

func (o *fwatcher) HandleMessage(from gen.PID, message any) error {
	switch m := message.(type) {
	case fcmd:
		m.f(o)
		close(m.done)
	case fblock:
		close(o.busy)
		select {
		case <-o.release:
		case <-time.After(45 * time.Second):
		}
	case ffill:
	case fmark:
		close(m.ch)
	case gen.MessageExitPID:
		o.add(false, tkPid, m.PID, m.Reason)
	case gen.MessageExitProcessID:
		o.add(false, tkName, m.ProcessID, m.Reason)
	case gen.MessageExitAlias:
		o.add(false, tkAlias, m.Alias, m.Reason)
	case gen.MessageExitEvent:
		o.add(false, tkEvent, m.Event, m.Reason)
	case gen.MessageExitNode:
		o.add(false, tkNode, m.Name, gen.ErrNoConnection)
	case gen.MessageDownPID:
		o.add(true, tkPid, m.PID, m.Reason)
	case gen.MessageDownProcessID:
		o.add(true, tkName, m.ProcessID, m.Reason)
	case gen.MessageDownAlias:
		o.add(true, tkAlias, m.Alias, m.Reason)
	case gen.MessageDownEvent:
		o.add(true, tkEvent, m.Event, m.Reason)
	case gen.MessageDownNode:
		o.add(true, tkNode, m.Name, gen.ErrNoConnection)
	}
	return nil
}

func (o *fwatcher) HandleEvent(ev gen.MessageEvent) error { return nil }

type fresult struct {
	watch []string // Coq terms
	rels  []string
	terms []string
	relax bool
	fails []string
	stats map[string]int
}

func (res *fresult) fail(f string, a ...any) { res.fails = append(res.fails, fmt.Sprintf(f, a...)) }

func (res *fresult) coq() string {
	return fmt.Sprintf("mk_fcase %s %s %s %s", util.List(res.watch), util.List(res.rels), util.List(res.terms), util.B(res.relax))
}

func fwCoq(i int) string { return fmt.Sprintf("(lpid %d)", 1001+i) }

func optN(bounded, filled bool) string {
	if !bounded {
		return "None"
	}
	if filled {
		return "(Some 0)"
	}
	return "(Some 1)"
}

func waitCount(ws []*fwatcher, want []int, idx []int, d time.Duration) bool {
	deadline := time.Now().Add(d)
	for {
		ok := true
		for _, i := range idx {
			if ws[i].count() < want[i] {
				ok = false
				break
			}
		}
		if ok {
			return true
		}
		if time.Now().After(deadline) {
			return false
		}
		time.Sleep(2 * time.Millisecond)
	}
}

func execFan(c fcase) (res *fresult) {
	res = &fresult{stats: map[string]int{}}
	useProxy := c.Fault == "cut"
	pool := 0
	if useProxy {
		pool = 1
	}
	w := newWorld(0, pool, useProxy)
	release := make(chan struct{})
	released := false
	defer func() {
		if p := recover(); p != nil {
			res.fails = append(res.fails, fmt.Sprintf("harness panic: %v %s", p, debug.Stack()))
		}
		if !released {
			close(release)
		}
		go w.close()
	}()
	w.startB(c.Ntargets)
	if err := w.connect(); err != nil {
		panic(fmt.Sprintf("connect: %v", err))
	}
	target := func(slot int) *targetRec {
		w.mu.Lock()
		defer w.mu.Unlock()
		for _, t := range w.targets {
			if t.idx == slot {
				return t
			}
		}
		panic("no such target")
	}

	// ---- watchers -------------------------------------------------------------------------------
	nw := len(c.Watch)
	ws := make([]*fwatcher, nw)
	pids := make([]gen.PID, nw)
	for i, spec := range c.Watch {
		o := &fwatcher{w: w, busy: make(chan struct{}), release: release}
		opts := gen.ProcessOptions{}
		if spec.Class == clBounded {
			opts.MailboxSize = 1
		}
		pid, err := w.a.Spawn(func() gen.ProcessBehavior { return o }, opts)
		if err != nil {
			panic(err)
		}
		ws[i], pids[i] = o, pid
		res.stats[fmt.Sprintf("class-%d", spec.Class)]++
	}

	// ---- relations (every watcher works through its list; watchers in parallel) ---------------------
	confirmed := make([][]frel, nw)
	var wg sync.WaitGroup
	var fmu sync.Mutex
	for i := range c.Watch {
		wg.Add(1)
		go func(i int) {
			defer wg.Done()
			for _, rl := range c.Watch[i].Rels {
				var err error
				done := make(chan struct{})
				rl := rl
				cmd := fcmd{func(o *fwatcher) {
					var t *targetRec
					if rl.TK != tkNode {
						t = target(rl.Slot)
					}
					switch {
					case rl.TK == tkPid && !rl.Mon:
						err = o.LinkPID(t.pid)
					case rl.TK == tkPid && rl.Mon:
						err = o.MonitorPID(t.pid)
					case rl.TK == tkName && !rl.Mon:
						err = o.LinkProcessID(gen.ProcessID{Name: t.name, Node: w.bname})
					case rl.TK == tkName && rl.Mon:
						err = o.MonitorProcessID(gen.ProcessID{Name: t.name, Node: w.bname})
					case rl.TK == tkAlias && !rl.Mon:
						err = o.LinkAlias(t.alias)
					case rl.TK == tkAlias && rl.Mon:
						err = o.MonitorAlias(t.alias)
					case rl.TK == tkEvent && !rl.Mon:
						_, err = o.LinkEvent(gen.Event{Name: t.event, Node: w.bname})
					case rl.TK == tkEvent && rl.Mon:
						_, err = o.MonitorEvent(gen.Event{Name: t.event, Node: w.bname})
					case rl.TK == tkNode && !rl.Mon:
						err = o.LinkNode(w.bname)
					default:
						err = o.MonitorNode(w.bname)
					}
				}, done}
				if e := w.a.Send(pids[i], cmd); e != nil {
					fmu.Lock()
					res.fail("harness: command to watcher %d: %v", i, e)
					fmu.Unlock()
					return
				}
				if !waitOr(done, 20*time.Second) {
					fmu.Lock()
					res.fail("watcher %d: link/monitor request did not return within 20 s: hang", i)
					fmu.Unlock()
					return
				}
				fmu.Lock()
				res.stats[fmt.Sprintf("add-result-%d", errClass(err))]++
				fmu.Unlock()
				if err == nil {
					confirmed[i] = append(confirmed[i], rl)
				}
			}
		}(i)
	}
	wg.Wait()
	if len(res.fails) > 0 {
		return res
	}
	want := make([]int, nw)     // notes owed in total
	wantTerm := make([]int, nw) // notes owed by the termination of slot c.Term
	for i := range c.Watch {
		for _, rl := range confirmed[i] {
			want[i]++
			if c.Term > 0 && rl.TK != tkNode && rl.Slot == c.Term {
				wantTerm[i]++
			}
			tidx := rl.Slot
			res.rels = append(res.rels, fmt.Sprintf("mkkey %s %s %s", fwCoq(i), targetCoq(rl.TK, tidx, rl.Slot), util.B(rl.Mon)))
			res.stats[fmt.Sprintf("rel-tk%d-mon%v", rl.TK, rl.Mon)]++
		}
	}

	// ---- make some watchers unable ------------------------------------------------------------------
	var able, busy, racy, blocked []int
	for i, spec := range c.Watch {
		switch spec.Class {
		case clOK:
			able = append(able, i)
		case clBusy:
			busy = append(busy, i)
			blocked = append(blocked, i)
		case clRacy:
			racy = append(racy, i)
		default:
			blocked = append(blocked, i)
		}
	}
	for _, i := range blocked {
		if err := w.a.Send(pids[i], fblock{}); err != nil {
			panic(fmt.Sprintf("block watcher %d: %v", i, err))
		}
	}
	for _, i := range blocked {
		if !waitOr(ws[i].busy, 10*time.Second) {
			panic(fmt.Sprintf("watcher %d did not enter the blocking callback", i))
		}
	}
	for i, spec := range c.Watch {
		switch spec.Class {
		case clZombie:
			if err := w.a.Kill(pids[i]); err != nil {
				panic(fmt.Sprintf("kill watcher %d: %v", i, err))
			}
			if st, err := w.a.ProcessState(pids[i]); err != nil || st != gen.ProcessStateZombee {
				panic(fmt.Sprintf("watcher %d is not a zombie: %v %v", i, st, err))
			}
		case clBounded:
			if spec.FillSys {
				if err := w.a.SendWithPriority(pids[i], ffill{}, gen.MessagePriorityHigh); err != nil {
					panic(fmt.Sprintf("fill System of watcher %d: %v", i, err))
				}
				if err := w.a.SendWithPriority(pids[i], ffill{}, gen.MessagePriorityHigh); err != gen.ErrProcessMailboxFull {
					panic(fmt.Sprintf("System queue of watcher %d is not full: %v", i, err))
				}
			}
			if spec.FillUrg {
				if err := w.a.SendWithPriority(pids[i], ffill{}, gen.MessagePriorityMax); err != nil {
					panic(fmt.Sprintf("fill Urgent of watcher %d: %v", i, err))
				}
				if err := w.a.SendWithPriority(pids[i], ffill{}, gen.MessagePriorityMax); err != gen.ErrProcessMailboxFull {
					panic(fmt.Sprintf("Urgent queue of watcher %d is not full: %v", i, err))
				}
			}
		}
	}

	describe := func(i int) string {
		cl := []string{"healthy", "zombie", "bounded", "killed-at-loss", "busy"}[c.Watch[i].Class]
		return fmt.Sprintf("watcher %d (%s, %d confirmed relations)", i, cl, len(confirmed[i]))
	}

	// ---- a process of B terminates: four Terminate* frames -> RouteTerminate{PID,ProcessID,Alias,Event} on A ----
	if c.Term > 0 {
		t := target(c.Term)
		if c.TermReason == rKill {
			w.b.Kill(t.pid)
		} else {
			w.onTarget(t, func(ta *targetActor) error { return reasonErr(c.TermReason) })
		}
		if !waitOr(t.gone, 10*time.Second) {
			panic("target did not terminate")
		}
		for _, tk := range []int{tkPid, tkName, tkAlias, tkEvent} {
			res.terms = append(res.terms, fmt.Sprintf("(%s, %d)", targetCoq(tk, c.Term, c.Term), c.TermReason))
		}
		if !waitCount(ws, wantTerm, able, 10*time.Second) {
			for _, i := range able {
				if got := ws[i].count(); got < wantTerm[i] {
					res.fail("process %d of B terminated (reason class %d): %s got %d of the %d exit/down messages it is owed for that process within 10 s",
						c.Term, c.TermReason, describe(i), got, wantTerm[i])
					break
				}
			}
		}
		res.stats[fmt.Sprintf("term-reason-%d", c.TermReason)]++
	}

	// ---- the connection is lost (racy watchers are killed at the same moment) -----------------------
	var kw sync.WaitGroup
	for _, i := range racy {
		kw.Add(1)
		go func(i int) {
			defer kw.Done()
			w.a.Kill(pids[i])
		}(i)
	}
	res.stats["fault-"+c.Fault]++
	switch c.Fault {
	case "stop":
		res.relax = true
		w.b.Stop()
	case "stopforce":
		res.relax = true
		w.b.StopForce()
	case "disc_a":
		if rn, err := w.a.Network().Node(w.bname); err == nil {
			rn.Disconnect()
		}
	case "disc_b":
		if rn, err := w.b.Network().Node(w.a.Name()); err == nil {
			rn.Disconnect()
		} else {
			panic("B does not see A")
		}
	case "cut":
		w.px.cut()
	}
	kw.Wait()
	if !w.waitDisconnected(6 * time.Second) {
		if c.Fault == "cut" {
			res.stats["cut-healed"]++
			if rn, err := w.a.Network().Node(w.bname); err == nil {
				rn.Disconnect()
			}
			if !w.waitDisconnected(6 * time.Second) {
				res.fail("A still holds the connection after Disconnect")
				return res
			}
		} else {
			res.fail("fault %s: A still holds the connection after 6 s: the loss is never detected, nobody is notified", c.Fault)
			return res
		}
	}
	if !waitCount(ws, want, able, 10*time.Second) {
		n := 0
		first := -1
		for _, i := range able {
			if ws[i].count() < want[i] {
				n++
				if first < 0 {
					first = i
				}
			}
		}
		res.fail("connection with B lost (%s): %d of %d healthy watchers did not get all their exit/down messages within 10 s; first: %s handled %d of %d",
			c.Fault, n, len(able), describe(first), ws[first].count(), want[first])
	}

	// ---- release the blocked ones ---------------------------------------------------------------------
	close(release)
	released = true
	if !waitCount(ws, want, busy, 10*time.Second) {
		for _, i := range busy {
			if got := ws[i].count(); got < want[i] {
				res.fail("%s handled %d of %d messages within 10 s after it was released", describe(i), got, want[i])
				break
			}
		}
	}
	// a bounded watcher works through Urgent, System, Main: when the marker (Main) is handled, everything pushed
	// to it during the fan-outs has been handled
	for i, spec := range c.Watch {
		if spec.Class != clBounded {
			continue
		}
		ch := make(chan struct{})
		sent := false
		for k := 0; k < 2000 && !sent; k++ {
			if err := w.a.Send(pids[i], fmark{ch}); err == nil {
				sent = true
			} else {
				time.Sleep(2 * time.Millisecond)
			}
		}
		if !sent || !waitOr(ch, 10*time.Second) {
			res.fail("harness: %s did not handle the marker after release", describe(i))
		}
	}
	// anything sent twice shows up now
	time.Sleep(250 * time.Millisecond)

	for i, spec := range c.Watch {
		ws[i].mu.Lock()
		notes := append([]note(nil), ws[i].notes...)
		ws[i].mu.Unlock()
		ns := make([]string, len(notes))
		for k, n := range notes {
			ns[k] = noteCoq(n)
		}
		bounded := spec.Class == clBounded
		res.watch = append(res.watch, fmt.Sprintf("mk_fw %s %d %s %s %s %s", fwCoq(i), spec.Class, util.B(spec.Class != clZombie),
			optN(bounded, spec.FillUrg), optN(bounded, spec.FillSys), util.List(ns)))
		res.stats["notes"] += len(notes)
		if spec.Class == clOK || spec.Class == clBusy {
			if len(notes) > want[i] {
				res.fail("%s handled %d exit/down messages, owed %d: a notification was delivered more than once", describe(i), len(notes), want[i])
			}
		}
		if spec.Class == clRacy {
			res.stats[fmt.Sprintf("racy-got-%d-of-%d", len(notes), want[i])]++
		}
	}
	return res
}

// ---- generators -----------------------------------------------------------------------------------

var fanFaults = []string{"disc_a", "disc_b", "stop", "stopforce", "cut"}

func many(n int, class int, rels ...frel) []fwspec {
	out := make([]fwspec, n)
	for i := range out {
		out[i] = fwspec{Class: class, Rels: append([]frel(nil), rels...)}
	}
	return out
}

// spread puts the unable watchers between the others (positions 5, 15, 25, ... as in the seed's demonstration)
func spread(okw, bad []fwspec) []fwspec {
	var out []fwspec
	for len(okw) > 0 || len(bad) > 0 {
		if len(bad) > 0 && (len(out)%10 == 5 || len(okw) == 0) {
			out = append(out, bad[0])
			bad = bad[1:]
			continue
		}
		out = append(out, okw[0])
		okw = okw[1:]
	}
	return out
}

func fanCorpus() []fcase {
	tag := []string{"fan"}
	fullU := func(rels ...frel) fwspec { return fwspec{Class: clBounded, FillUrg: true, Rels: rels} }
	fullS := func(rels ...frel) fwspec { return fwspec{Class: clBounded, FillSys: true, Rels: rels} }
	var cs []fcase
	// the demonstration of the seeded change: 30 monitors + 3 zombies on one remote pid, then Disconnect
	cs = append(cs, fcase{Kind: "fan", Name: "30-monitors-3-zombies-one-pid", Ntargets: 1, Fault: "disc_a", Tags: tag,
		Watch: spread(many(30, clOK, frel{true, tkPid, 1}), many(3, clZombie, frel{true, tkPid, 1}))})
	// the same for links: the exit of a zombie is pushed (no isAlive test), a full Urgent queue refuses it
	cs = append(cs, fcase{Kind: "fan", Name: "30-links-3-full-urgent-one-pid", Ntargets: 1, Fault: "disc_a", Tags: tag,
		Watch: spread(many(30, clOK, frel{false, tkPid, 1}), []fwspec{fullU(frel{false, tkPid, 1}), fullU(frel{false, tkPid, 1}), fullU(frel{false, tkPid, 1})})})
	// every target kind, links and monitors, a failing consumer in every group
	var mix, bad []fwspec
	for tk := tkPid; tk <= tkNode; tk++ {
		for _, mon := range []bool{false, true} {
			slot := 1 + tk%2
			if tk == tkNode {
				slot = 0
			}
			mix = append(mix, many(3, clOK, frel{mon, tk, slot})...)
			if mon {
				bad = append(bad, fwspec{Class: clZombie, Rels: []frel{{mon, tk, slot}}}, fullS(frel{mon, tk, slot}))
			} else {
				bad = append(bad, fullU(frel{mon, tk, slot}))
			}
		}
	}
	cs = append(cs, fcase{Kind: "fan", Name: "all-kinds-failing-consumer-per-group", Ntargets: 2, Fault: "disc_b", Tags: tag, Watch: spread(mix, bad)})
	// remote termination first (RouteTerminatePID/ProcessID/Alias/Event on A), then the loss
	var tw, tb []fwspec
	for tk := tkPid; tk <= tkEvent; tk++ {
		tw = append(tw, many(4, clOK, frel{true, tk, 1}, frel{false, tkPid, 2})...)
		tw = append(tw, many(3, clOK, frel{false, tk, 1}, frel{true, tkNode, 0})...)
		tb = append(tb, fwspec{Class: clZombie, Rels: []frel{{true, tk, 1}, {true, tkPid, 2}}}, fullS(frel{true, tk, 1}), fullU(frel{false, tk, 1}))
	}
	cs = append(cs, fcase{Kind: "fan", Name: "terminate-then-loss", Ntargets: 2, Term: 1, TermReason: 13, Fault: "stopforce", Tags: tag, Watch: spread(tw, tb)})
	cs = append(cs, fcase{Kind: "fan", Name: "30-monitors-3-zombies-terminate", Ntargets: 1, Term: 1, TermReason: 14, Fault: "disc_a", Tags: tag,
		Watch: spread(many(30, clOK, frel{true, tkPid, 1}), many(3, clZombie, frel{true, tkPid, 1}))})
	// bounded watchers with room for ONE exit holding two links; busy watchers; killed at the moment of the loss
	var bw, bb []fwspec
	bw = append(bw, many(12, clOK, frel{false, tkName, 1}, frel{false, tkAlias, 1}, frel{true, tkEvent, 1})...)
	bw = append(bw, many(3, clBusy, frel{false, tkName, 1}, frel{true, tkNode, 0})...)
	bb = append(bb, fwspec{Class: clBounded, Rels: []frel{{false, tkName, 1}, {false, tkAlias, 1}}},
		fwspec{Class: clBounded, FillSys: true, FillUrg: true, Rels: []frel{{false, tkName, 1}, {true, tkEvent, 1}}},
		fwspec{Class: clRacy, Rels: []frel{{false, tkName, 1}, {true, tkEvent, 1}}},
		fwspec{Class: clRacy, Rels: []frel{{true, tkEvent, 1}}},
		fwspec{Class: clZombie, Rels: []frel{{true, tkEvent, 1}, {false, tkAlias, 1}}})
	cs = append(cs, fcase{Kind: "fan", Name: "bounded-busy-racy", Ntargets: 1, Fault: "cut", Tags: tag, Watch: spread(bw, bb)})
	return cs
}

func genFan(r *rand.Rand) fcase {
	c := fcase{Kind: "fan", Ntargets: 1 + r.Intn(3), Fault: fanFaults[r.Intn(len(fanFaults))], Tags: []string{"fan"}}
	nw := 10 + r.Intn(31)
	// a few hot targets collect most of the relations (many consumers per group)
	type tg struct{ tk, slot int }
	pick := func() tg {
		tk := r.Intn(5)
		if tk == tkNode {
			return tg{tkNode, 0}
		}
		return tg{tk, 1 + r.Intn(c.Ntargets)}
	}
	hot := []tg{pick(), pick(), pick()}
	rels := func() []frel {
		n := 1 + r.Intn(3)
		var out []frel
		for len(out) < n {
			t := hot[r.Intn(len(hot))]
			if r.Intn(4) == 0 {
				t = pick()
			}
			rl := frel{r.Intn(2) == 0, t.tk, t.slot}
			dup := false
			for _, x := range out {
				if x == rl {
					dup = true
				}
			}
			if !dup {
				out = append(out, rl)
			}
		}
		return out
	}
	for i := 0; i < nw; i++ {
		spec := fwspec{Class: clOK, Rels: rels()}
		switch k := r.Intn(100); {
		case k < 10:
			spec.Class = clZombie
		case k < 20:
			spec.Class = clBounded
			spec.FillSys = r.Intn(4) > 0
			spec.FillUrg = r.Intn(2) == 0
		case k < 25:
			spec.Class = clRacy
		case k < 31:
			spec.Class = clBusy
		}
		c.Watch = append(c.Watch, spec)
	}
	// at least one zombie holding a monitor and one full Urgent queue holding a link on a hot target
	c.Watch[r.Intn(nw)] = fwspec{Class: clZombie, Rels: []frel{{true, hot[0].tk, hot[0].slot}}}
	c.Watch[r.Intn(nw)] = fwspec{Class: clBounded, FillUrg: true, FillSys: r.Intn(2) == 0, Rels: []frel{{false, hot[0].tk, hot[0].slot}, {true, hot[1].tk, hot[1].slot}}}
	if r.Intn(5) < 2 {
		c.Term = 1 + r.Intn(c.Ntargets)
		c.TermReason = []int{rKill, 11, 12, 13, 17}[r.Intn(5)]
	}
	return c
}

func runFan(n int, out, replay string, par int, stream int64) {
	gen.DefaultRequestTimeout = 5
	o := util.NewOut("netfail.fan")
	var cases []fcase
	if replay != "" {
		raw, err := os.ReadFile(replay)
		if err != nil {
			panic(err)
		}
		var wrap struct {
			Case json.RawMessage `json:"case"`
		}
		var c fcase
		if json.Unmarshal(raw, &wrap) == nil && len(wrap.Case) > 0 {
			json.Unmarshal(wrap.Case, &c)
		} else {
			json.Unmarshal(raw, &c)
		}
		cases = []fcase{c}
	} else {
		if stream == 0 {
			cases = append(cases, fanCorpus()...)
		}
		r := util.Rng(151 + 1000*stream)
		for len(cases) < n {
			cases = append(cases, genFan(r))
		}
	}
	results := make([]*fresult, len(cases))
	var wg sync.WaitGroup
	sem := make(chan struct{}, par)
	for i := range cases {
		wg.Add(1)
		sem <- struct{}{}
		go func(i int) {
			defer wg.Done()
			defer func() { <-sem }()
			done := make(chan *fresult, 1)
			go func() { done <- execFan(cases[i]) }()
			select {
			case r := <-done:
				results[i] = r
			case <-time.After(120 * time.Second):
				results[i] = &fresult{stats: map[string]int{}, fails: []string{"case did not finish within 120 s: hang"}}
			}
		}(i)
	}
	wg.Wait()
	for i, c := range cases {
		res := results[i]
		idx := o.Add(res.coq(), c)
		o.Stats["kind:"+c.Kind]++
		o.Stats["watchers"] += len(c.Watch)
		if c.Name != "" {
			o.Stats["corpus"]++
		}
		keys := make([]string, 0, len(res.stats))
		for k := range res.stats {
			keys = append(keys, k)
		}
		sort.Strings(keys)
		for _, k := range keys {
			o.Stats[k] += res.stats[k]
		}
		for _, f := range res.fails {
			o.Monitor = append(o.Monitor, util.MonitorFail{Case: idx, What: f, Tags: c.Tags})
		}
	}
	o.Write(out)
}
