package main

import (
	"encoding/json"
	"fmt"
	"math/rand"
	"os"
	"runtime/debug"
	"strings"
	"sync"
	"time"

	"ergo.services/ergo/gen"
	"verifharness/util"
)

// `netfail guard`: the incarnation guard of EVERY outgoing operation of gen.Connection (net/proto/connection.go)
// on two real nodes.  B is started with a fixed spawn order, A connects and collects identifiers (pids, aliases,
// a (caller, ref) pair of a request B made to A); B is stopped and started again under the same name at least one
// second later with the same spawn order, so its processes get the same numeric ids ("twins"); A connects again
// and attempts every operation of the table with the identifiers of the previous incarnation — on the connection
// object itself and through the process API — and, as a control, with identifiers of the current incarnation.
// Observed per attempt: the returned error and the number of frames the connection wrote (MessagesOut);
// at the end: what the twins received and whether they are alive.  One restart per case.

type gstep struct {
	Op   string `json:"op"`             // method of gen.Connection (Coq: C<Op>)
	Proc bool   `json:"proc,omitempty"` // through the process API of an observer actor
	Slot int    `json:"slot"`
	Inc  int    `json:"inc"` // incarnation of B whose identifier is used: 0 previous, 1 current
	O    int    `json:"o,omitempty"`
}

type gcase struct {
	Kind     string   `json:"kind"`
	Ntargets int      `json:"ntargets"`
	Fault    string   `json:"fault"` // how the first incarnation goes away: stop | stopforce
	Steps    []gstep  `json:"steps"`
	Tags     []string `json:"tags"`
}

var stampedOps = []string{"SendPID", "SendAlias", "SendExit", "SendResponse", "SendResponseError", "CallPID", "CallAlias",
	"LinkPID", "UnlinkPID", "LinkAlias", "UnlinkAlias", "MonitorPID", "DemonitorPID", "MonitorAlias", "DemonitorAlias"}

// control operations on identifiers that carry no creation (they address the new incarnation by design)
var unstampedProcOps = []string{"SendProcessID", "CallProcessID", "LinkProcessID", "UnlinkProcessID", "MonitorEvent", "DemonitorEvent"}

func opKind(op string) int {
	switch op {
	case "SendAlias", "CallAlias", "LinkAlias", "UnlinkAlias", "MonitorAlias", "DemonitorAlias":
		return tkAlias
	case "SendProcessID", "CallProcessID", "LinkProcessID", "UnlinkProcessID", "MonitorProcessID", "DemonitorProcessID":
		return tkName
	case "LinkEvent", "UnlinkEvent", "MonitorEvent", "DemonitorEvent":
		return tkEvent
	}
	return tkPid
}

func isDel(op string) bool {
	switch op {
	case "UnlinkPID", "UnlinkAlias", "DemonitorPID", "DemonitorAlias", "UnlinkProcessID", "DemonitorProcessID", "UnlinkEvent", "DemonitorEvent":
		return true
	}
	return false
}

type gobs struct {
	step   gstep
	held   bool
	ident  string
	pc     int
	res    int
	frames int64
}

type gresult struct {
	obs       []gobs
	delivered int
	killed    int
	twins     bool
	creations []int
	fails     []string
	stats     map[string]int
}

const victimSlot = 9 // extra target of every incarnation: receives the control exit signal

func genGuard(r *rand.Rand) gcase {
	c := gcase{Kind: "guard", Ntargets: 2 + r.Intn(2), Fault: []string{"stop", "stopforce"}[r.Intn(2)], Tags: []string{"guard", "restart"}}
	slot := func() int { return 1 + r.Intn(c.Ntargets) }
	var stale []gstep
	for _, op := range stampedOps {
		stale = append(stale, gstep{Op: op, Slot: slot(), Inc: 0})
		stale = append(stale, gstep{Op: op, Proc: true, Slot: slot(), Inc: 0, O: r.Intn(2)})
	}
	// a second exit signal for every twin (trapping and not trapping), both ways
	for s := 1; s <= c.Ntargets; s++ {
		stale = append(stale, gstep{Op: "SendExit", Proc: s%2 == 0, Slot: s, Inc: 0})
	}
	r.Shuffle(len(stale), func(i, j int) { stale[i], stale[j] = stale[j], stale[i] })
	// controls with identifiers of the connected incarnation, in an order in which they succeed
	var fresh []gstep
	for _, op := range []string{"SendPID", "SendAlias", "CallPID", "CallAlias", "LinkPID", "UnlinkPID", "LinkAlias", "UnlinkAlias",
		"MonitorPID", "DemonitorPID", "MonitorAlias", "DemonitorAlias", "SendResponse", "SendResponseError"} {
		fresh = append(fresh, gstep{Op: op, Slot: slot(), Inc: 1})
	}
	for k := 0; k+1 < len(fresh); k += 2 { // a pair add/del uses one target
		if isDel(fresh[k+1].Op) {
			fresh[k+1].Slot = fresh[k].Slot
		}
	}
	fresh = append(fresh, gstep{Op: "SendExit", Slot: victimSlot, Inc: 1})
	for _, op := range unstampedProcOps {
		fresh = append(fresh, gstep{Op: op, Proc: true, Slot: 1, Inc: 0, O: 1})
	}
	// merge keeping the order of the controls
	for len(stale) > 0 || len(fresh) > 0 {
		if len(fresh) == 0 || (len(stale) > 0 && r.Intn(3) > 0) {
			c.Steps = append(c.Steps, stale[0])
			stale = stale[1:]
		} else {
			c.Steps = append(c.Steps, fresh[0])
			fresh = fresh[1:]
		}
	}
	return c
}

func identCoq(tk int, t *targetRec, slot int, cr int) string {
	switch tk {
	case tkPid:
		return fmt.Sprintf("(IPid 2 %d %d)", t.pid.ID, cr)
	case tkAlias:
		return fmt.Sprintf("(IAlias 2 %d %d)", t.alias.ID[0]+(t.alias.ID[1]<<18), cr)
	case tkName:
		return fmt.Sprintf("(IName %d 2)", 100+slot)
	}
	return fmt.Sprintf("(IEvent %d 2)", 200+slot)
}

func execGuard(c gcase) (res *gresult) {
	res = &gresult{stats: map[string]int{}}
	fail := func(format string, a ...any) { res.fails = append(res.fails, fmt.Sprintf(format, a...)) }
	w := newWorld(2, 0, false)
	w.trapEven = true
	defer func() {
		if p := recover(); p != nil {
			res.fails = append(res.fails, fmt.Sprintf("harness panic: %v %s", p, debug.Stack()))
		}
		go w.close()
	}()
	canon := map[int64]int{}
	cc := func(cr int64) int {
		if v, ok := canon[cr]; ok {
			return v
		}
		canon[cr] = 1000 + len(canon)
		return canon[cr]
	}
	target := func(inc, slot int) *targetRec {
		w.mu.Lock()
		defer w.mu.Unlock()
		for _, t := range w.targets {
			if t.inc == inc && t.idx == inc*10+slot {
				return t
			}
		}
		return nil
	}
	// every incarnation: Ntargets targets (slots 1..n) + the victim, spawned in the same order
	startInc := func() {
		w.startB(c.Ntargets)
		w.mu.Lock()
		rec := &targetRec{idx: w.inc*10 + victimSlot, inc: w.inc, ready: make(chan struct{}), gone: make(chan struct{}),
			name: "tvictim", event: "tevictim"}
		w.targets = append(w.targets, rec)
		w.mu.Unlock()
		pid, err := w.b.Spawn(func() gen.ProcessBehavior { return &targetActor{} }, gen.ProcessOptions{}, rec)
		if err != nil {
			panic(err)
		}
		w.b.Send(pid, tcmd{func(t *targetActor) error { return t.setup() }, make(chan struct{})})
		<-rec.ready
	}
	// a process of B asks observer 0 something (never answered): the (caller, ref) pair minted by this incarnation
	askFrom := func(slot int) (ask, bool) {
		t := target(w.inc, slot)
		o := w.obs[0]
		o.mu.Lock()
		before := len(o.asks)
		o.mu.Unlock()
		opid := w.obsPid[0]
		w.onTarget(t, func(ta *targetActor) error {
			ta.CallWithTimeout(opid, "ask", 1)
			return nil
		})
		deadline := time.Now().Add(2 * time.Second)
		for time.Now().Before(deadline) {
			o.mu.Lock()
			n := len(o.asks)
			var a ask
			if n > before {
				a = o.asks[n-1]
			}
			o.mu.Unlock()
			if n > before {
				return a, true
			}
			time.Sleep(2 * time.Millisecond)
		}
		return ask{}, false
	}

	startInc()
	if err := w.connect(); err != nil {
		fail("connect failed: %v", err)
		return
	}
	asks := map[int]ask{} // incarnation -> pair
	a0, ok := askFrom(1)
	if !ok {
		fail("the request of B's process did not reach the observer")
		return
	}
	asks[0] = a0
	// relations held when the node goes away (cleaned by the node-down handling, so not held afterwards)
	t01 := target(0, 1)
	<-w.onObserver(0, func(o *observer) { o.LinkPID(t01.pid); o.MonitorAlias(t01.alias) })
	if c.Fault == "stop" {
		w.b.Stop()
	} else {
		w.b.StopForce()
	}
	if !w.waitDisconnected(4 * time.Second) {
		fail("A still holds the connection 4 s after B stopped")
		return
	}
	for time.Now().Unix() == w.creations[0] {
		time.Sleep(10 * time.Millisecond)
	}
	startInc()
	if err := w.connect(); err != nil {
		fail("connect after restart failed: %v", err)
		return
	}
	// twins: same numeric ids
	res.twins = true
	for s := 1; s <= c.Ntargets; s++ {
		if target(0, s).pid.ID != target(1, s).pid.ID {
			res.twins = false
		}
		if target(0, s).alias.ID == target(1, s).alias.ID {
			res.stats["alias-id-coincides"]++
		}
	}
	if target(0, victimSlot).pid.ID != target(1, victimSlot).pid.ID {
		res.twins = false
	}
	rn, err := w.a.Network().Node(w.bname)
	if err != nil {
		fail("no connection after restart: %v", err)
		return
	}
	conn, isConn := rn.(gen.Connection)
	if !isConn {
		fail("the remote node object does not implement gen.Connection")
		return
	}
	pc := cc(w.creations[0]) // fix the renaming order: 1000 = previous, 1001 = current
	pc = cc(w.creations[1])
	stalePayload := map[int]bool{}
	staleExit := map[string]bool{}
	held := map[string]bool{}
	framesOut := func() int64 { return int64(rn.Info().MessagesOut) }

	for i, s := range c.Steps {
		tk := opKind(s.Op)
		t := target(s.Inc, s.Slot)
		if t == nil {
			fail("step %d: no target", i)
			return
		}
		cr := cc(w.creations[s.Inc])
		stale := (tk == tkPid || tk == tkAlias) && s.Inc == 0
		payload := 500000 + i
		reason := fmt.Errorf("custom%d", 500+i)
		if stale {
			stalePayload[payload] = true
			stalePayload[payload*10] = true
			staleExit[reason.Error()] = true
		}
		who := asks[0]
		ref := who.ref
		from := w.obsPid[s.O]
		name := gen.ProcessID{Name: t.name, Node: w.bname}
		event := gen.Event{Name: t.event, Node: w.bname}
		hk := fmt.Sprintf("%d/%v/%d/%d/%d", s.O, strings.Contains(s.Op, "onitor"), tk, s.Slot, s.Inc)
		var e error
		run := func(o *observer) {
			opts := gen.MessageOptions{Ref: ref}
			switch {
			case !s.Proc: // the method of the connection object
				switch s.Op {
				case "SendPID":
					e = conn.SendPID(from, t.pid, opts, payload)
				case "SendAlias":
					e = conn.SendAlias(from, t.alias, opts, payload)
				case "SendExit":
					e = conn.SendExit(from, t.pid, reason)
				case "SendResponse":
					e = conn.SendResponse(from, t.pid, opts, payload)
				case "SendResponseError":
					e = conn.SendResponseError(from, t.pid, opts, reason)
				case "CallPID":
					opts.Ref = w.a.MakeRef()
					e = conn.CallPID(from, t.pid, opts, payload*10)
				case "CallAlias":
					opts.Ref = w.a.MakeRef()
					e = conn.CallAlias(from, t.alias, opts, payload*10)
				case "LinkPID":
					e = conn.LinkPID(from, t.pid)
				case "UnlinkPID":
					e = conn.UnlinkPID(from, t.pid)
				case "LinkAlias":
					e = conn.LinkAlias(from, t.alias)
				case "UnlinkAlias":
					e = conn.UnlinkAlias(from, t.alias)
				case "MonitorPID":
					e = conn.MonitorPID(from, t.pid)
				case "DemonitorPID":
					e = conn.DemonitorPID(from, t.pid)
				case "MonitorAlias":
					e = conn.MonitorAlias(from, t.alias)
				case "DemonitorAlias":
					e = conn.DemonitorAlias(from, t.alias)
				default:
					e = fmt.Errorf("unknown op %s", s.Op)
				}
			default: // the process API, inside the observer's actor goroutine
				switch s.Op {
				case "SendPID":
					e = o.Send(t.pid, payload)
				case "SendAlias":
					e = o.Send(t.alias, payload)
				case "SendProcessID":
					e = o.Send(name, payload)
				case "SendExit":
					e = o.SendExit(t.pid, reason)
				case "SendResponse":
					e = o.SendResponse(t.pid, ref, payload)
				case "SendResponseError":
					e = o.SendResponseError(t.pid, ref, reason)
				case "CallPID":
					_, e = o.CallWithTimeout(t.pid, payload*10, 1)
				case "CallAlias":
					_, e = o.CallWithTimeout(t.alias, payload*10, 1)
				case "CallProcessID":
					_, e = o.CallWithTimeout(name, payload*10, 1)
				case "LinkPID":
					e = o.LinkPID(t.pid)
				case "UnlinkPID":
					e = o.UnlinkPID(t.pid)
				case "LinkAlias":
					e = o.LinkAlias(t.alias)
				case "UnlinkAlias":
					e = o.UnlinkAlias(t.alias)
				case "MonitorPID":
					e = o.MonitorPID(t.pid)
				case "DemonitorPID":
					e = o.DemonitorPID(t.pid)
				case "MonitorAlias":
					e = o.MonitorAlias(t.alias)
				case "DemonitorAlias":
					e = o.DemonitorAlias(t.alias)
				case "LinkProcessID":
					e = o.LinkProcessID(name)
				case "UnlinkProcessID":
					e = o.UnlinkProcessID(name)
				case "MonitorEvent":
					_, e = o.MonitorEvent(event)
				case "DemonitorEvent":
					e = o.DemonitorEvent(event)
				default:
					e = fmt.Errorf("unknown op %s", s.Op)
				}
			}
		}
		f0 := framesOut()
		if s.Proc {
			if !waitOr(w.onObserver(s.O, run), opWait) {
				fail("step %d: %s did not return: hang", i, s.Op)
				return
			}
		} else {
			done := make(chan struct{})
			go func() { run(nil); close(done) }()
			if !waitOr(done, opWait) {
				fail("step %d: %s did not return: hang", i, s.Op)
				return
			}
		}
		f1 := framesOut()
		ec := errClass(e)
		if ec == eOther {
			res.stats["other-error:"+s.Op+":"+e.Error()]++
		}
		o := gobs{step: s, ident: identCoq(tk, t, s.Slot, cr), pc: pc, res: ec, frames: f1 - f0}
		if s.Proc {
			o.held = held[hk]
			if ec == eOK && !isDel(s.Op) && (s.Op[0] == 'L' || s.Op[0] == 'M') {
				held[hk] = true
			}
			if ec == eOK && isDel(s.Op) {
				delete(held, hk)
			}
		}
		res.obs = append(res.obs, o)
		lvl := "conn"
		if s.Proc {
			lvl = "proc"
		}
		st := "current"
		if stale {
			st = "stale"
		}
		if tk == tkName || tk == tkEvent {
			st = "unstamped"
		}
		res.stats[fmt.Sprintf("guard-%s-%s-result-%d", lvl, st, ec)]++
	}
	// let anything that was written arrive
	time.Sleep(150 * time.Millisecond)
	for s := 1; s <= c.Ntargets; s++ {
		t := target(1, s)
		ch := w.onTarget(t, func(ta *targetActor) error { return nil })
		waitOr(ch, 500*time.Millisecond)
	}
	w.mu.Lock()
	for _, t := range w.targets {
		if t.inc != 1 {
			continue
		}
		t.mu.Lock()
		for _, g := range t.got {
			if stalePayload[g] {
				res.delivered++
				res.fails = append(res.fails, fmt.Sprintf("payload %d sent to an identifier of the previous incarnation was received by %s of the new incarnation", g, t.pid))
			}
		}
		for _, x := range t.exits {
			if staleExit[x] {
				res.delivered++
				res.fails = append(res.fails, fmt.Sprintf("exit signal %q addressed to a pid of the previous incarnation was received by %s of the new incarnation", x, t.pid))
			}
		}
		select {
		case <-t.gone:
			if t.idx%10 != victimSlot {
				res.killed++
				res.fails = append(res.fails, fmt.Sprintf("%s of the new incarnation was terminated: %v", t.pid, t.why))
			} else {
				res.stats["victim-terminated"]++
			}
		default:
		}
		t.mu.Unlock()
	}
	w.mu.Unlock()
	for _, cr := range w.creations {
		res.creations = append(res.creations, cc(cr))
	}
	return res
}

func (res *gresult) coq() string {
	obs := make([]string, len(res.obs))
	for i, o := range res.obs {
		obs[i] = fmt.Sprintf("mk_gobs %s %s C%s %s %d %d %d", util.B(o.step.Proc), util.B(o.held), o.step.Op, o.ident, o.pc, o.res, o.frames)
	}
	crs := make([]string, len(res.creations))
	for i, k := range res.creations {
		crs[i] = fmt.Sprintf("%d", k)
	}
	return fmt.Sprintf("mk_gcase %s %d %d %s %s", util.List(obs), res.delivered, res.killed, util.B(res.twins), util.List(crs))
}

func runGuard(n int, out, replay string, par int, stream int64) {
	gen.DefaultRequestTimeout = 1
	o := util.NewOut("netfail.guard")
	var cases []gcase
	if replay != "" {
		raw, err := os.ReadFile(replay)
		if err != nil {
			panic(err)
		}
		var wrap struct {
			Case json.RawMessage `json:"case"`
		}
		var c gcase
		if json.Unmarshal(raw, &wrap) == nil && len(wrap.Case) > 0 {
			json.Unmarshal(wrap.Case, &c)
		} else {
			json.Unmarshal(raw, &c)
		}
		cases = []gcase{c}
	} else {
		r := util.Rng(149 + 1000*stream)
		for len(cases) < n {
			cases = append(cases, genGuard(r))
		}
	}
	results := make([]*gresult, len(cases))
	var wg sync.WaitGroup
	sem := make(chan struct{}, par)
	for i := range cases {
		wg.Add(1)
		sem <- struct{}{}
		go func(i int) {
			defer wg.Done()
			defer func() { <-sem }()
			done := make(chan *gresult, 1)
			go func() { done <- execGuard(cases[i]) }()
			select {
			case r := <-done:
				results[i] = r
			case <-time.After(60 * time.Second):
				results[i] = &gresult{stats: map[string]int{}, fails: []string{"case did not finish within 60 s: hang"}}
			}
		}(i)
	}
	wg.Wait()
	for i, c := range cases {
		res := results[i]
		idx := o.Add(res.coq(), c)
		o.Stats["kind:"+c.Kind]++
		o.Stats["attempts"] += len(res.obs)
		if res.twins {
			o.Stats["twins"]++
		}
		for k, v := range res.stats {
			o.Stats[k] += v
		}
		for _, f := range res.fails {
			o.Monitor = append(o.Monitor, util.MonitorFail{Case: idx, What: f, Tags: c.Tags})
		}
	}
	o.Write(out)
}
