package main

// Family `delayed` (C13): network order of everything ONE process sends to ONE remote process, whatever API the
// sender uses - Send, SendWithPriority (same class), SendAfter (delayed sends leave from a timer goroutine),
// by pid / by name / by alias - on two REAL nodes over loopback with a pool of links. The first message of a
// case is slow to decode on the receiving node (its UnmarshalEDF sleeps): a later message that travelled over
// another link or landed in another receive queue would be handled first.

import (
	"encoding/json"
	"fmt"
	"io"
	"os"
	"sync"
	"time"

	"ergo.services/ergo/act"
	"ergo.services/ergo/gen"
	"ergo.services/ergo/net/edf"
	"verifharness/util"
)

type dSlow struct{ Ms int }

func (s dSlow) MarshalEDF(w io.Writer) error { _, err := w.Write([]byte{byte(s.Ms)}); return err }
func (s *dSlow) UnmarshalEDF(b []byte) error {
	if len(b) > 0 {
		s.Ms = int(b[0])
	}
	time.Sleep(time.Duration(s.Ms) * time.Millisecond)
	return nil
}

type dcase struct {
	Pool  int      `json:"pool"`
	Addr  int      `json:"addr"` // 0 pid, 1 name, 2 alias
	Steps []string `json:"steps"` // after the slow first message: send | after | prio
	Tags  []string `json:"tags,omitempty"`
}

type dRecv struct {
	act.Actor
	mu    sync.Mutex
	got   []int
	alias gen.Alias
	ready chan struct{}
}

type dSetup struct{}

func (r *dRecv) HandleMessage(from gen.PID, message any) error {
	r.mu.Lock()
	defer r.mu.Unlock()
	switch m := message.(type) {
	case dSetup:
		a, err := r.CreateAlias()
		if err != nil {
			panic(err)
		}
		r.alias = a
		close(r.ready)
	case dSlow:
		r.got = append(r.got, 0)
	case int:
		r.got = append(r.got, m)
	}
	return nil
}

type dSend struct{ act.Actor }
type dRun struct {
	f    func(s *dSend)
	done chan struct{}
}

func (s *dSend) HandleMessage(from gen.PID, message any) error {
	if m, ok := message.(dRun); ok {
		m.f(s)
		close(m.done)
	}
	return nil
}

var dOnce sync.Once

func execDelayed(c dcase) (got []int, want int, fails []string) {
	dOnce.Do(func() { edf.RegisterTypeOf(dSlow{}) })
	w := newWorld(0, c.Pool, false)
	defer w.close()
	w.startB(0)
	if err := w.connect(); err != nil {
		return nil, 0, []string{"connect: " + err.Error()}
	}
	recv := &dRecv{ready: make(chan struct{})}
	rpid, err := w.b.SpawnRegister("drecv", func() gen.ProcessBehavior { return recv }, gen.ProcessOptions{})
	if err != nil {
		return nil, 0, []string{"spawn receiver: " + err.Error()}
	}
	w.b.Send(rpid, dSetup{})
	<-recv.ready
	spid, err := w.a.Spawn(func() gen.ProcessBehavior { return &dSend{} }, gen.ProcessOptions{})
	if err != nil {
		return nil, 0, []string{"spawn sender: " + err.Error()}
	}
	var to any = rpid
	switch c.Addr {
	case 1:
		to = gen.ProcessID{Name: "drecv", Node: w.bname}
	case 2:
		to = recv.alias
	}
	var serr []string
	done := make(chan struct{})
	maxDelay := 0
	w.a.Send(spid, dRun{f: func(s *dSend) {
		if !s.KeepNetworkOrder() {
			serr = append(serr, "the sender does not keep the network order by default")
		}
		if err := s.Send(to, dSlow{Ms: 120}); err != nil {
			serr = append(serr, "Send: "+err.Error())
		}
		for i, st := range c.Steps {
			var err error
			switch st {
			case "send":
				err = s.Send(to, i+1)
			case "prio":
				err = s.SendWithPriority(to, i+1, gen.MessagePriorityNormal)
			case "after":
				d := 2 + 3*i
				if d > maxDelay {
					maxDelay = d
				}
				_, err = s.SendAfter(to, i+1, time.Duration(d)*time.Millisecond)
			}
			if err != nil {
				serr = append(serr, st+": "+err.Error())
			}
		}
	}, done: done})
	select {
	case <-done:
	case <-time.After(5 * time.Second):
		return nil, 0, []string{"sender script hangs"}
	}
	if len(serr) > 0 {
		return nil, 0, serr
	}
	want = len(c.Steps) + 1
	dl := time.Now().Add(5 * time.Second)
	for time.Now().Before(dl) {
		recv.mu.Lock()
		n := len(recv.got)
		recv.mu.Unlock()
		if n >= want {
			break
		}
		time.Sleep(time.Millisecond)
	}
	time.Sleep(10 * time.Millisecond)
	recv.mu.Lock()
	got = append([]int{}, recv.got...)
	recv.mu.Unlock()
	return got, want, nil
}

func delayedCorpus() []dcase {
	var l []dcase
	for addr := 0; addr < 3; addr++ {
		l = append(l, dcase{Pool: 3, Addr: addr, Steps: []string{"after", "after", "after", "after"}})
		l = append(l, dcase{Pool: 3, Addr: addr, Steps: []string{"send", "after", "prio", "after", "send"}})
	}
	l = append(l, dcase{Pool: 1, Addr: 0, Steps: []string{"after", "send", "after"}})
	return l
}

func runDelayed(n int, out, replay string) {
	o := util.NewOut("netfail.delayed")
	var cases []dcase
	if replay != "" {
		raw, err := os.ReadFile(replay)
		if err != nil {
			panic(err)
		}
		var wrap struct {
			Case dcase `json:"case"`
		}
		json.Unmarshal(raw, &wrap)
		cases = []dcase{wrap.Case}
	} else {
		cases = delayedCorpus()
		r := util.Rng(177)
		for len(cases) < n {
			c := dcase{Pool: 1 + r.Intn(4), Addr: r.Intn(3)}
			for k := 2 + r.Intn(4); k > 0; k-- {
				c.Steps = append(c.Steps, []string{"send", "after", "after", "prio"}[r.Intn(4)])
			}
			cases = append(cases, c)
		}
	}
	for i := range cases {
		c := &cases[i]
		c.Tags = []string{}
		got, want, fails := execDelayed(*c)
		idx := o.Add(fmt.Sprintf("(%d, %d)", len(got), want), c)
		o.Stats[fmt.Sprintf("addr:%d", c.Addr)]++
		o.Stats[fmt.Sprintf("pool:%d", c.Pool)]++
		for _, s := range c.Steps {
			o.Stats["step:"+s]++
		}
		for _, f := range fails {
			o.Monitor = append(o.Monitor, util.MonitorFail{Case: idx, What: f})
		}
		if len(fails) > 0 {
			continue
		}
		if len(got) != want {
			o.Monitor = append(o.Monitor, util.MonitorFail{Case: idx, What: fmt.Sprintf("lost: %d of %d messages of one sender reached the remote process (%v)", len(got), want, got)})
			continue
		}
		// plain sends are ordered among themselves and everything follows the slow first message; a delayed send is
		// ordered with respect to what was handed to the network before its timer fired: the first message at least
		if got[0] != 0 {
			o.Monitor = append(o.Monitor, util.MonitorFail{Case: idx, What: fmt.Sprintf("order: a later message of the same sender overtook the first one on the way to the same remote process: handled %v", got)})
			continue
		}
		last := 0
		for _, g := range got[1:] {
			if c.Steps[g-1] == "after" {
				continue
			}
			if g < last {
				o.Monitor = append(o.Monitor, util.MonitorFail{Case: idx, What: fmt.Sprintf("order: plain sends of one sender handled out of order: %v", got)})
				break
			}
			last = g
		}
	}
	if out != "" {
		o.Write(out)
	}
}
