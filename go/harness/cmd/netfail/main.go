// Harness for the NetFail engine (property C14): two REAL nodes over loopback TCP; trapping
// observers on node A hold links / monitors on pids, names, aliases, events of node B and on B
// itself; B is stopped, disconnected, cut off, restarted; remote targets terminate with reasons;
// stale identifiers of an earlier incarnation are used.  Everything observed is written as Coq
// terms (checked against coq/theories/NetFail) plus Go monitors for latencies / hangs.
package main

import (
	"flag"
	"fmt"
	"os"
)

func main() {
	if len(os.Args) < 2 {
		fmt.Fprintln(os.Stderr, "usage: netfail hist|guard|fan|delayed [flags]")
		os.Exit(2)
	}
	fs := flag.NewFlagSet(os.Args[1], flag.ExitOnError)
	n := fs.Int("n", 60, "number of cases")
	out := fs.String("out", "", "output json")
	replay := fs.String("replay", "", "replay file (json case)")
	known := fs.String("known", "", "comma separated tags of known findings whose input classes are generated")
	par := fs.Int("par", 12, "cases run in parallel")
	stream := fs.Int("stream", 0, "generator stream (batches of one check run use different streams)")
	fs.Parse(os.Args[2:])
	switch os.Args[1] {
	case "hist":
		runHist(*n, *out, *replay, *known, *par, int64(*stream))
	case "guard":
		runGuard(*n, *out, *replay, *par, int64(*stream))
	case "delayed":
		runDelayed(*n, *out, *replay)
	case "fan":
		runFan(*n, *out, *replay, *par, int64(*stream))
	default:
		fmt.Fprintln(os.Stderr, "unknown subcommand")
		os.Exit(2)
	}
}
