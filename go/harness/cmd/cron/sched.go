package main

import (
	"fmt"
	"math/rand"
	"sort"
	"strings"
	"time"

	"ergo.services/ergo"
	"ergo.services/ergo/gen"
	"ergo.services/ergo/node"
	"verifharness/util"
)

type nopAction struct{}

func (nopAction) Do(job gen.Atom, n gen.Node, t time.Time) error { return nil }
func (nopAction) Info() string                                   { return "verif" }

type schedJob struct {
	Name int    `json:"name"`
	Spec string `json:"spec"`
	AST  *AST   `json:"ast"`
	Zone string `json:"zone"`
}

// One case: jobs added to the cron of a real node, then JobSchedule of each and Schedule
// over [since, since+period).
type schedCase struct {
	Kind    string     `json:"kind"`
	Jobs    []schedJob `json:"jobs"`
	SinceNs int64      `json:"since_ns"` // unix nanoseconds
	Period  int64      `json:"period_ns"`
	Tags    []string   `json:"tags"`
}

func genSchedCase(r *rand.Rand) schedCase {
	c := schedCase{Kind: "sched"}
	nj := 1 + r.Intn(3)
	zname := zoneNames[r.Intn(len(zoneNames))]
	for j := 0; j < nj; j++ {
		a := genAST(r, 0, true)
		if r.Intn(3) == 0 {
			zname = zoneNames[r.Intn(len(zoneNames))]
		}
		c.Jobs = append(c.Jobs, schedJob{Name: j, Spec: a.render(r), AST: a, Zone: zname})
	}
	if r.Intn(3) == 0 {
		// a window that CONTAINS a transition of the zone (the offset changes between two reported minutes), with a spec
		// that fires on both sides of it: a few minutes of every hour, or one wall-clock time of the day after the change
		for try := 0; try < 8; try++ {
			tr := transitions(c.Jobs[0].Zone)
			if len(tr) == 0 {
				c.Jobs[0].Zone = zoneNames[r.Intn(len(zoneNames))]
				continue
			}
			t := tr[len(tr)-1-r.Intn(min(len(tr), 60))]
			if t < -7000000000 || t > 9000000000 {
				continue
			}
			a := &AST{}
			for f := 0; f < 5; f++ {
				a.F[f] = []Item{{K: "star"}}
			}
			switch r.Intn(3) {
			case 0:
				a.F[0] = []Item{{K: "step", S: 7 + r.Intn(20)}}
			case 1:
				a.F[0] = []Item{{K: "num", A: r.Intn(60)}, {K: "num", A: r.Intn(60)}}
			default:
				after := time.Unix(t+int64(600+r.Intn(7200)), 0).In(loadZone(c.Jobs[0].Zone))
				a.F[0] = []Item{{K: "num", A: after.Minute()}}
				a.F[1] = []Item{{K: "num", A: after.Hour()}}
			}
			c.Jobs[0].AST, c.Jobs[0].Spec = a, a.render(r)
			c.Kind = "sched-dst"
			c.SinceNs = (t-int64(r.Intn(5400)))*1000000000 + int64(r.Intn(1000000000))
			c.Period = int64(7200+r.Intn(4*3600)) * 1000000000
			return c
		}
	}
	loc := loadZone(c.Jobs[0].Zone)
	day := genDay(r, c.Jobs[0].Zone, loc)
	if day < -7000000000 || day > 9000000000 {
		day = 1711323000 // time.Unix(0, ns) covers 1678..2262 only
	}
	c.SinceNs = (day-43200+int64(r.Intn(86400)))*1000000000 + int64(r.Intn(1000000000))
	switch r.Intn(8) {
	case 0:
		c.Period = int64(r.Intn(5)-2) * 1000000000 * 30 // around zero, negative
	case 1:
		c.Period = int64(1+r.Intn(180)) * 60000000000 // whole minutes
	case 2:
		c.Period = int64(r.Intn(300))*60000000000 + int64(r.Intn(3))*59999999999 + int64(r.Intn(3)) - 1
	default:
		c.Period = int64(r.Intn(3*3600)) * 1000000000
		if r.Intn(12) == 0 {
			c.Period = int64(r.Intn(86400)) * 1000000000
		}
	}
	return c
}

type cronAPI interface {
	gen.Cron
}

func startCron(o *util.Out) (gen.Cron, func()) {
	opt := gen.NodeOptions{}
	opt.Log.DefaultLogger.Disable = true
	opt.Network.Mode = gen.NetworkModeDisabled
	n, err := ergo.StartNode(gen.Atom(fmt.Sprintf("verifcron%d@localhost", time.Now().UnixNano()%1000000)), opt)
	if err != nil {
		o.Notes = append(o.Notes, "ergo.StartNode failed ("+err.Error()+"): using the node-less cron object of the verif export")
		return node.VerifCronNew().Cron(), func() {}
	}
	o.Notes = append(o.Notes, "cron of a real node started with ergo.StartNode (public API)")
	return n.Cron(), func() { n.StopForce() }
}

func jobName(i int) gen.Atom { return gen.Atom(fmt.Sprintf("j%d", i)) }

func execSchedCase(cr gen.Cron, c schedCase, o *util.Out, idx int) string {
	since := time.Unix(0, c.SinceNs)
	from := since.Unix()
	to := from + c.Period/1000000000 + 120
	var jobs []string
	added := []gen.Atom{}
	for _, j := range c.Jobs {
		loc := loadZone(j.Zone)
		err := cr.AddJob(gen.CronJob{Name: jobName(j.Name), Spec: j.Spec, Location: loc, Action: nopAction{}})
		if err != nil {
			o.Monitor = append(o.Monitor, util.MonitorFail{Case: idx, What: fmt.Sprintf("AddJob rejects the spec %q of the grammar: %v", j.Spec, err)})
			continue
		}
		added = append(added, jobName(j.Name))
		ts, err := cr.JobSchedule(jobName(j.Name), since.In(loc), time.Duration(c.Period))
		if err != nil {
			o.Monitor = append(o.Monitor, util.MonitorFail{Case: idx, What: "JobSchedule of an added job: " + err.Error()})
		}
		var us []int64
		for _, t := range ts {
			us = append(us, t.Unix())
			if t.Nanosecond() != 0 {
				us = append(us, -1)
			}
		}
		o.Stats["jobschedule-times"] += len(us)
		dflt, tbl := zoneTable(loc, from, to)
		if len(tbl) > 0 {
			o.Stats["window-with-offset-change"]++
		}
		jobs = append(jobs, fmt.Sprintf("mk_sjob %d %s %s %s %s %s", j.Name, coqStr(j.Spec), j.AST.coq(), coqTable(tbl), util.Z(dflt), util.ZList(us)))
	}
	var rows []string
	for _, row := range cr.Schedule(since, time.Duration(c.Period)) {
		var ids []int64
		for _, a := range row.Jobs {
			var id int64
			fmt.Sscanf(string(a), "j%d", &id)
			ids = append(ids, id)
		}
		sort.Slice(ids, func(a, b int) bool { return ids[a] < ids[b] })
		rows = append(rows, fmt.Sprintf("(%s, %s)", util.Z(row.Time.Unix()), util.ZList(ids)))
	}
	o.Stats["schedule-rows"] += len(rows)
	for _, a := range added {
		cr.RemoveJob(a)
	}
	if _, err := cr.JobSchedule(jobName(0), since, time.Duration(c.Period)); err != gen.ErrUnknown {
		o.Monitor = append(o.Monitor, util.MonitorFail{Case: idx, What: "JobSchedule of a removed job does not report ErrUnknown"})
	}
	if c.Period <= 0 {
		o.Stats["period<=0"]++
	}
	return fmt.Sprintf("mk_scase [%s] %s %s [%s]", strings.Join(jobs, "; "), util.Z(from), util.Z(c.Period), strings.Join(rows, "; "))
}

func runSched(n int, out string, replay string) {
	o := util.NewOut("cron.sched")
	var cases []schedCase
	if replay != "" {
		var c schedCase
		if loadReplay(replay, "sched", &c) {
			cases = append(cases, c)
		}
	} else {
		r := util.Rng(21)
		for i := 0; i < n; i++ {
			cases = append(cases, genSchedCase(r))
		}
	}
	cr, stop := startCron(o)
	defer stop()
	for i, c := range cases {
		o.Add(execSchedCase(cr, c, o, i), c)
		o.Stats["jobs"] += len(c.Jobs)
	}
	o.Write(out)
}
