package main

import (
	"fmt"
	"math/rand"
	"strings"
	"time"

	"ergo.services/ergo/gen"
	"ergo.services/ergo/node"
	"verifharness/util"
)

type tickOp struct {
	Op   string `json:"op"` // add remove enable disable tick
	Name int    `json:"name"`
	Spec string `json:"spec,omitempty"`
	AST  *AST   `json:"ast,omitempty"`
	Zone string `json:"zone,omitempty"`
}

// One case: a cron object (createCron, timer stopped) whose next minute is set to Next, then a
// sequence of API calls and ticks.  A tick = pop the whole spool (what the timer function does
// first) and call cron.schedule(next + 1 minute) (what it does last).
type tickCase struct {
	Kind string   `json:"kind"`
	Next int64    `json:"next"`
	Ops  []tickOp `json:"ops"`
	Tags []string `json:"tags"`
}

func genTickCase(r *rand.Rand) tickCase {
	c := tickCase{Kind: "tick"}
	zname := zoneNames[r.Intn(len(zoneNames))]
	loc := loadZone(zname)
	day := genDay(r, zname, loc)
	if day < 0 || day > 4102444800 {
		day = 1711323000
	}
	c.Next = day - day%60 + int64(r.Intn(1440))*60
	if r.Intn(3) == 0 {
		tr := transitions(zname)
		if len(tr) > 0 {
			t := tr[len(tr)-1-r.Intn(min(len(tr), 40))]
			c.Next = t - t%60 - int64(r.Intn(6))*60
		}
	}
	nops := 8 + r.Intn(25)
	cur := c.Next
	for i := 0; i < nops; i++ {
		name := r.Intn(4)
		switch k := r.Intn(20); {
		case k < 6:
			op := tickOp{Op: "add", Name: name, Zone: zname}
			if r.Intn(4) == 0 {
				op.Zone = zoneNames[r.Intn(len(zoneNames))]
			}
			switch r.Intn(8) {
			case 0:
				op.Spec = genMalformed(r, genAST(r, 0, true).render(r))
			case 1:
				op.AST = genAST(r, 0, true)
				op.Spec = op.AST.render(r)
			case 2:
				op.AST = astOfSimple("* * * * *")
				op.Spec = "* * * * *"
			default:
				// minutes around the current one in the job's zone
				t := time.Unix(cur, 0).In(loadZone(op.Zone))
				a := astOfSimple("* * * * *")
				a.F[0] = nil
				for _, d := range []int{0, 1, 2, 3, 5} {
					if r.Intn(2) == 0 {
						a.F[0] = append(a.F[0], Item{K: "num", A: (t.Minute() + d) % 60})
					}
				}
				if len(a.F[0]) == 0 {
					a.F[0] = []Item{{K: "step", S: 2}}
				}
				if r.Intn(4) == 0 {
					a.F[1] = []Item{{K: "num", A: t.Hour()}}
				}
				op.AST = a
				op.Spec = a.render(r)
			}
			c.Ops = append(c.Ops, op)
		case k < 8:
			c.Ops = append(c.Ops, tickOp{Op: "remove", Name: name})
		case k < 11:
			c.Ops = append(c.Ops, tickOp{Op: "enable", Name: name})
		case k < 14:
			c.Ops = append(c.Ops, tickOp{Op: "disable", Name: name})
		default:
			c.Ops = append(c.Ops, tickOp{Op: "tick"})
			cur += 60
		}
	}
	c.Ops = append(c.Ops, tickOp{Op: "tick"})
	return c
}

func rcOf(err error) int {
	switch err {
	case nil:
		return 0
	case gen.ErrTaken:
		return 1
	case gen.ErrUnknown:
		return 2
	}
	return 3
}

func execTickCase(c tickCase, o *util.Out) string {
	vc := node.VerifCronNew()
	cr := vc.Cron()
	vc.Schedule(time.Unix(c.Next, 0))
	nticks := 0
	for _, op := range c.Ops {
		if op.Op == "tick" {
			nticks++
		}
	}
	cur := c.Next
	var steps []string
	for _, op := range c.Ops {
		ast := "None"
		if op.AST != nil {
			ast = "(Some " + op.AST.coq() + ")"
		}
		var coqOp string
		rc := 0
		var names []int64
		var dis []string
		switch op.Op {
		case "add":
			loc := loadZone(op.Zone)
			dflt, tbl := zoneTable(loc, c.Next-60, c.Next+int64(nticks+2)*60)
			rc = rcOf(cr.AddJob(gen.CronJob{Name: jobName(op.Name), Spec: op.Spec, Location: loc, Action: nopAction{}}))
			coqOp = fmt.Sprintf("(OAdd %d %s %s %s)", op.Name, coqStr(op.Spec), coqTable(tbl), util.Z(dflt))
		case "remove":
			rc = rcOf(cr.RemoveJob(jobName(op.Name)))
			coqOp = fmt.Sprintf("(ORemove %d)", op.Name)
		case "enable":
			rc = rcOf(cr.EnableJob(jobName(op.Name)))
			coqOp = fmt.Sprintf("(OEnable %d)", op.Name)
		case "disable":
			rc = rcOf(cr.DisableJob(jobName(op.Name)))
			coqOp = fmt.Sprintf("(ODisable %d)", op.Name)
		case "tick":
			if !vc.Next().Equal(time.Unix(cur, 0)) {
				o.Monitor = append(o.Monitor, util.MonitorFail{Case: len(o.Cases), What: "cron.next is not the minute of the coming tick"})
			}
			ns, ds := vc.Drain()
			for i, a := range ns {
				var id int64
				fmt.Sscanf(string(a), "j%d", &id)
				names = append(names, id)
				dis = append(dis, util.B(ds[i]))
				if ds[i] {
					o.Stats["popped:disabled"]++
				} else {
					o.Stats["popped:run"]++
				}
			}
			cur += 60
			vc.Schedule(time.Unix(cur, 0))
			coqOp = "OTick"
		}
		o.Stats[fmt.Sprintf("op:%s:rc%d", op.Op, rc)]++
		steps = append(steps, fmt.Sprintf("mk_tstep %s %s %d %s [%s]", coqOp, ast, rc, util.ZList(names), strings.Join(dis, "; ")))
	}
	return fmt.Sprintf("mk_tcase %s [%s]", util.Z(c.Next), strings.Join(steps, "; "))
}

func runTick(n int, out string, replay string) {
	o := util.NewOut("cron.tick")
	var cases []tickCase
	if replay != "" {
		var c tickCase
		if loadReplay(replay, "tick", &c) {
			cases = append(cases, c)
		}
	} else {
		r := util.Rng(22)
		for i := 0; i < n; i++ {
			cases = append(cases, genTickCase(r))
		}
	}
	// a cron right after creation: next must already be the minute of the first tick
	{
		vc := node.VerifCronNew()
		now := time.Now()
		nx := vc.Next()
		if nx.Before(now.Add(-time.Second)) || nx.After(now.Add(61*time.Second)) || nx.Unix()%60 != 0 {
			o.Monitor = append(o.Monitor, util.MonitorFail{Case: -1, What: fmt.Sprintf("cron.next after createCron is %v, not the coming minute (now %v): jobs added before the first tick are spooled for the wrong minute", nx, now)})
		}
	}
	for _, c := range cases {
		o.Add(execTickCase(c, o), c)
	}
	o.Write(out)
}
