package main

import (
	"fmt"
	"math/rand"
	"strings"
	"time"

	"verifharness/util"
)

// ---- syntax trees of specs -------------------------------------------------------------------

// Item kinds: star, step (*/s), range (a-b), rstep (a-b/s), num, last (L), lastw (dL), nth (d#n)
type Item struct {
	K string `json:"k"`
	A int    `json:"a,omitempty"`
	B int    `json:"b,omitempty"`
	S int    `json:"s,omitempty"`
}

// AST fields in crontab order: minute hour day month weekday
type AST struct {
	F [5][]Item `json:"f"`
}

var fmin = [5]int{0, 0, 1, 1, 1}
var fmax = [5]int{59, 23, 31, 12, 7}

func (it Item) coq() string {
	switch it.K {
	case "star":
		return "IStar"
	case "step":
		return fmt.Sprintf("IStep %d", it.S)
	case "range":
		return fmt.Sprintf("IRange %d %d", it.A, it.B)
	case "rstep":
		return fmt.Sprintf("IRangeStep %d %d %d", it.A, it.B, it.S)
	case "num":
		return fmt.Sprintf("INum %d", it.A)
	case "last":
		return "ILast"
	case "lastw":
		return fmt.Sprintf("ILastW %d", it.A)
	case "nth":
		return fmt.Sprintf("INth %d %d", it.A, it.B)
	}
	panic("item kind " + it.K)
}

func (a *AST) coq() string {
	var fs []string
	for _, f := range a.F {
		var is []string
		for _, it := range f {
			is = append(is, it.coq())
		}
		fs = append(fs, "["+strings.Join(is, "; ")+"]")
	}
	return "(mk_cronspec " + strings.Join(fs, " ") + ")"
}

func num(r *rand.Rand, v int, zeros bool) string {
	s := fmt.Sprintf("%d", v)
	if zeros && r.Intn(6) == 0 {
		s = strings.Repeat("0", 1+r.Intn(2)) + s
	}
	return s
}

func (it Item) render(r *rand.Rand) string {
	switch it.K {
	case "star":
		return "*"
	case "step":
		return "*/" + num(r, it.S, true)
	case "range":
		return num(r, it.A, true) + "-" + num(r, it.B, true)
	case "rstep":
		return num(r, it.A, true) + "-" + num(r, it.B, true) + "/" + num(r, it.S, true)
	case "num":
		return num(r, it.A, true)
	case "last":
		return "L"
	case "lastw":
		return fmt.Sprintf("%dL", it.A)
	case "nth":
		return fmt.Sprintf("%d#%d", it.A, it.B)
	}
	panic("item kind " + it.K)
}

func (a *AST) render(r *rand.Rand) string {
	var sb strings.Builder
	ws := func(must bool) {
		n := r.Intn(8)
		switch {
		case n == 0:
			sb.WriteString("  ")
		case n == 1:
			sb.WriteString("\t")
		case must:
			sb.WriteString(" ")
		}
	}
	if r.Intn(10) == 0 {
		ws(false)
	}
	for i, f := range a.F {
		if i > 0 {
			ws(true)
		}
		for j, it := range f {
			if j > 0 {
				sb.WriteString(",")
			}
			sb.WriteString(it.render(r))
		}
	}
	if r.Intn(10) == 0 {
		ws(false)
	}
	return sb.String()
}

// edge: how often a number is taken at or just outside the limits of the field
func genNum(r *rand.Rand, lo, hi int, edge int) int {
	if edge > 0 && r.Intn(edge) == 0 {
		return []int{lo - 1, lo, hi, hi + 1, hi + 9}[r.Intn(5)]
	}
	return lo + r.Intn(hi-lo+1)
}

func genItem(r *rand.Rand, f int, edge int, anyForm bool) Item {
	lo, hi := fmin[f], fmax[f]
	forms := []string{"num", "num", "range", "step", "rstep"}
	switch f {
	case 2:
		forms = []string{"num", "num", "range", "step", "rstep", "last", "last"}
	case 3:
		forms = []string{"num", "num", "range", "step"}
	case 4:
		forms = []string{"num", "num", "range", "lastw", "lastw", "nth", "nth"}
	}
	if anyForm && r.Intn(12) == 0 {
		forms = []string{"num", "range", "step", "rstep", "last", "lastw", "nth"}
	}
	k := forms[r.Intn(len(forms))]
	neg := func(v int) int {
		if v < 0 {
			return 0
		}
		return v
	}
	switch k {
	case "num":
		return Item{K: k, A: neg(genNum(r, lo, hi, edge))}
	case "range":
		a, b := genNum(r, lo, hi, edge), genNum(r, lo, hi, edge)
		if a > b && (edge == 0 || r.Intn(4) > 0) {
			a, b = b, a
		}
		return Item{K: k, A: neg(a), B: neg(b)}
	case "step":
		s := 1 + r.Intn(hi)
		if r.Intn(3) == 0 {
			s = 1 + r.Intn(6)
		}
		if edge > 0 && r.Intn(edge) == 0 {
			s = []int{0, 1, hi, hi + 1}[r.Intn(4)]
		}
		return Item{K: k, S: s}
	case "rstep":
		a, b := genNum(r, lo, hi, edge), genNum(r, lo, hi, edge)
		if a > b && (edge == 0 || r.Intn(4) > 0) {
			a, b = b, a
		}
		s := 1 + r.Intn(6)
		if edge > 0 && r.Intn(edge) == 0 {
			s = []int{0, 1, hi, hi + 1}[r.Intn(4)]
		}
		return Item{K: k, A: neg(a), B: neg(b), S: s}
	case "last":
		return Item{K: k}
	case "lastw":
		d := 1 + r.Intn(7)
		if edge > 0 && r.Intn(edge) == 0 {
			d = []int{0, 8, 9}[r.Intn(3)]
		}
		return Item{K: k, A: d}
	case "nth":
		d, n := 1+r.Intn(7), 1+r.Intn(5)
		if edge > 0 && r.Intn(edge) == 0 {
			d = []int{0, 8}[r.Intn(2)]
		}
		if edge > 0 && r.Intn(edge) == 0 {
			n = []int{0, 6, 7}[r.Intn(3)]
		}
		return Item{K: k, A: d, B: n}
	}
	panic("form")
}

// genAST: edge = 0 gives a spec of the grammar; edge > 0 mixes in limit values and forms the
// field does not have.  dense makes minute and hour wide so that the spec matches often.
func genAST(r *rand.Rand, edge int, dense bool) *AST {
	a := &AST{}
	for f := 0; f < 5; f++ {
		star := []int{3, 2, 2, 2, 2}[f]
		if dense && f < 2 {
			star = 1
		}
		if r.Intn(star+1) > 0 {
			a.F[f] = []Item{{K: "star"}}
			continue
		}
		n := 1
		for n < 5 && r.Intn(5) < 2 {
			n++
		}
		for i := 0; i < n; i++ {
			a.F[f] = append(a.F[f], genItem(r, f, edge, edge > 0))
		}
		if edge > 0 && r.Intn(30) == 0 {
			a.F[f] = append(a.F[f], Item{K: "star"})
		}
	}
	return a
}

// ---- the harness' own reading of a numeric option (used only to aim the samples) ------------

func (it Item) has(f int, v int) bool {
	switch it.K {
	case "star":
		return true
	case "num":
		return v == it.A
	case "range":
		return it.A <= v && v <= it.B
	case "rstep":
		return it.S > 0 && it.A <= v && v <= it.B && (v-it.A)%it.S == 0
	case "step":
		return it.S > 0 && fmin[f] <= v && v <= fmax[f] && (v-fmin[f])%it.S == 0
	}
	return false
}

// pick a value of field f that the field denotes (if any)
func (a *AST) pick(r *rand.Rand, f int) int {
	var vs []int
	for v := fmin[f]; v <= fmax[f]; v++ {
		for _, it := range a.F[f] {
			if it.has(f, v) {
				vs = append(vs, v)
				break
			}
		}
	}
	if len(vs) == 0 {
		return fmin[f] + r.Intn(fmax[f]-fmin[f]+1)
	}
	return vs[r.Intn(len(vs))]
}

// ---- malformed specs -----------------------------------------------------------------------

var malformedFixed = []string{
	"", " ", "*", "* * * *", "* * * * * *", "@daily", "@hourly", "@monthly", "@weekly", "@yearly", "@daily ", " @daily", "@Daily",
	"@reboot", "60 * * * *", "* 24 * * *", "* * 0 * *", "* * 32 * *", "* * * 0 *", "* * * 13 *", "* * * * 0", "* * * * 8",
	"*/0 * * * *", "*/60 * * * *", "*/59 * * * *", "* */24 * * *", "* * */32 * *", "* * * */13 *", "* * * * */2",
	"5-1 * * * *", "1-5/0 * * * *", "* * * 1-5/2 *", "* * * * 1-5/2", "1- * * * *", "-1 * * * *", "+1 * * * *", "1,,2 * * * *",
	", * * * *", "1, * * * *", "*,* * * * *", "1,* * * * *", "*,1 * * * *", "*/5,7 * * * *", "** * * * *", "*/ * * * *",
	"* * L * *", "* * 5L * *", "* * L-1 * *", "* * LL * *", "* * * * L", "* * * * 0L", "* * * * 8L", "* * * * 07L", "* * * * 7L",
	"* * * * 1#0", "* * * * 1#6", "* * * * 0#1", "* * * * 8#1", "* * * * 7#5", "* * * * 01#1", "* * * * 1#01", "* * * * 1#",
	"* * * * #1", "* * * * 1#1#1", "* * * * 1L,2#3,4", "* * L,15 * 5L", "99999999999999999999 * * * *", "*/99999999999999999999 * * * *",
	"0-99999999999999999999 * * * *", "000000000000000000005 * * * *", "1.5 * * * *", "1e1 * * * *", "0x1 * * * *", "1_0 * * * *",
	"a * * * *", "* * * jan *", "* * * * mon", "* * ? * *", "*\t*\n*\r*\v*", "* * * * *\x00", "5 5 5 5 5 ", "\f1 2 3 4 5",
	"1-2-3 * * * *", "1/2 * * * *", "*/2/3 * * * *", "1-3/2/2 * * * *", "* * 1-31/31 * *", "* * 1-31/32 * *", "59-59 23-23 31-31 12-12 7-7",
}

func genMalformed(r *rand.Rand, base string) string {
	if r.Intn(3) == 0 {
		return malformedFixed[r.Intn(len(malformedFixed))]
	}
	b := []byte(base)
	alphabet := "*/-,L# \t0123456789a@+"
	for k := 1 + r.Intn(2); k > 0; k-- {
		switch r.Intn(5) {
		case 0:
			if len(b) > 0 {
				i := r.Intn(len(b))
				b = append(b[:i], b[i+1:]...)
			}
		case 1:
			i := r.Intn(len(b) + 1)
			c := alphabet[r.Intn(len(alphabet))]
			b = append(b[:i], append([]byte{c}, b[i:]...)...)
		case 2:
			if len(b) > 0 {
				b[r.Intn(len(b))] = alphabet[r.Intn(len(alphabet))]
			}
		case 3:
			fs := strings.Fields(string(b))
			if len(fs) > 1 {
				i := r.Intn(len(fs))
				fs = append(fs[:i], fs[i+1:]...)
			}
			b = []byte(strings.Join(fs, " "))
		case 4:
			fs := strings.Fields(string(b))
			if len(fs) > 0 {
				fs = append(fs, fs[r.Intn(len(fs))])
			}
			b = []byte(strings.Join(fs, " "))
		}
	}
	for i := range b {
		if b[i] > 127 {
			b[i] = '?'
		}
	}
	return string(b)
}

// ---- zones and instants ----------------------------------------------------------------------

var zoneNames = []string{
	"UTC", "Europe/Berlin", "America/New_York", "Australia/Lord_Howe", "Asia/Kolkata", "Asia/Kathmandu",
	"America/Asuncion", "America/Guatemala", "Asia/Beirut", "America/Havana", "Pacific/Apia", "America/St_Johns",
	"Africa/Casablanca", "America/Santiago", "Europe/London", "Pacific/Chatham", "fixed:-34200", "fixed:50400", "fixed:1234",
}

var zoneCache = map[string]*time.Location{}

func loadZone(name string) *time.Location {
	if l, ok := zoneCache[name]; ok {
		return l
	}
	var l *time.Location
	if strings.HasPrefix(name, "fixed:") {
		var off int
		fmt.Sscanf(name[6:], "%d", &off)
		l = time.FixedZone(name, off)
	} else {
		var err error
		l, err = time.LoadLocation(name)
		if err != nil {
			l = time.UTC
		}
	}
	zoneCache[name] = l
	return l
}

// instants at which the offset of the zone changes, 1970..2040 (found once per zone)
var transCache = map[string][]int64{}

func transitions(name string) []int64 {
	if t, ok := transCache[name]; ok {
		return t
	}
	loc := loadZone(name)
	var res []int64
	off := func(u int64) int { _, o := time.Unix(u, 0).In(loc).Zone(); return o }
	start := time.Date(1970, 1, 1, 0, 0, 0, 0, time.UTC).Unix()
	end := time.Date(2040, 1, 1, 0, 0, 0, 0, time.UTC).Unix()
	const stepS = 86400 * 5
	prev := off(start)
	for u := start; u < end; u += stepS {
		o := off(u + stepS)
		if o != prev {
			lo, hi := u, u+stepS
			for hi-lo > 1 {
				mid := (lo + hi) / 2
				if off(mid) == prev {
					lo = mid
				} else {
					hi = mid
				}
			}
			res = append(res, hi)
			prev = o
		}
	}
	transCache[name] = res
	return res
}

func offsetAt(loc *time.Location, u int64) int64 {
	_, o := time.Unix(u, 0).In(loc).Zone()
	return int64(o)
}

// the zone as a table over [from, to]: offset at from and the changes inside
func zoneTable(loc *time.Location, from, to int64) (dflt int64, tbl [][2]int64) {
	from -= from % 60
	dflt = offsetAt(loc, from)
	prev := dflt
	for u := from; u <= to+60; u += 60 {
		o := offsetAt(loc, u)
		if o != prev {
			// exact second of the change
			lo, hi := u-60, u
			for hi-lo > 1 {
				mid := (lo + hi) / 2
				if offsetAt(loc, mid) == prev {
					lo = mid
				} else {
					hi = mid
				}
			}
			tbl = append(tbl, [2]int64{hi, o})
			prev = o
		}
	}
	return dflt, tbl
}

func coqTable(tbl [][2]int64) string {
	var s []string
	for _, e := range tbl {
		s = append(s, fmt.Sprintf("(%s, %s)", util.Z(e[0]), util.Z(e[1])))
	}
	return "[" + strings.Join(s, "; ") + "]"
}

func coqStr(s string) string {
	l := make([]int64, len(s))
	for i := 0; i < len(s); i++ {
		l[i] = int64(s[i])
	}
	return util.ZList(l)
}

var specialDays = [][3]int{
	{2024, 2, 29}, {2024, 2, 28}, {2024, 3, 1}, {2100, 2, 28}, {2100, 3, 1}, {2000, 2, 29}, {2023, 2, 28}, {1900, 2, 28},
	{2024, 12, 31}, {2025, 1, 1}, {2024, 3, 24}, {2024, 3, 31}, {2024, 10, 27}, {2006, 4, 29}, {2006, 4, 30}, {2017, 9, 24},
	{2017, 10, 1}, {2011, 12, 29}, {2011, 12, 31}, {2024, 4, 30}, {2024, 5, 31}, {2025, 6, 30}, {2026, 2, 28}, {2028, 2, 29},
}

// an interesting day (unix seconds of some instant of it) in the zone
func genDay(r *rand.Rand, zname string, loc *time.Location) int64 {
	switch r.Intn(10) {
	case 0, 1:
		d := specialDays[r.Intn(len(specialDays))]
		return time.Date(d[0], time.Month(d[1]), d[2], 12, 0, 0, 0, loc).Unix()
	case 2, 3:
		tr := transitions(zname)
		if len(tr) > 0 {
			// around a transition of the zone (prefer the recent ones)
			i := len(tr) - 1 - r.Intn(min(len(tr), 60))
			return tr[i] + int64(r.Intn(5)-2)*86400 + int64(r.Intn(7200)-3600)
		}
	case 4, 5:
		// the end of a month
		y, m := 2019+r.Intn(13), 1+r.Intn(12)
		return time.Date(y, time.Month(m+1), 1-r.Intn(9), 12, 0, 0, 0, loc).Unix()
	}
	y := 2019 + r.Intn(13)
	if r.Intn(20) == 0 {
		y = []int{1970, 1999, 2000, 2038, 2100, 2400, 1900, 1}[r.Intn(8)]
	}
	return time.Date(y, time.Month(1+r.Intn(12)), 1+r.Intn(31), 12, 0, 0, 0, loc).Unix()
}

func min(a, b int) int {
	if a < b {
		return a
	}
	return b
}
