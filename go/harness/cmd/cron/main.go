// Harness for the cron engine (property C20): drives the real spec parser, IsRunAt,
// JobSchedule/Schedule and the spooling decisions of node/cron.go (through
// /repo/node/verif_cron.go and the public gen.Cron interface) and records what they do.
package main

import (
	"encoding/json"
	"flag"
	"fmt"
	"os"
)

func main() {
	if len(os.Args) < 2 {
		fmt.Fprintln(os.Stderr, "usage: cron <parse|sched|tick> [flags]")
		os.Exit(2)
	}
	fs := flag.NewFlagSet(os.Args[1], flag.ExitOnError)
	n := fs.Int("n", 300, "number of cases")
	out := fs.String("out", "", "output json")
	replay := fs.String("replay", "", "replay file (json with the case under key \"case\")")
	fs.Parse(os.Args[2:])
	switch os.Args[1] {
	case "parse":
		runParse(*n, *out, *replay)
	case "sched":
		runSched(*n, *out, *replay)
	case "tick":
		runTick(*n, *out, *replay)
	default:
		fmt.Fprintln(os.Stderr, "unknown subcommand")
		os.Exit(2)
	}
}

// loadReplay reads the case stored under "case" of a replay file; ok=false when the file
// holds a case of another sub-command.
func loadReplay(path string, kind string, into any) bool {
	b, err := os.ReadFile(path)
	if err != nil {
		panic(err)
	}
	var rp struct {
		Case json.RawMessage `json:"case"`
	}
	if err := json.Unmarshal(b, &rp); err != nil {
		panic(err)
	}
	var k struct {
		Kind string `json:"kind"`
	}
	if len(rp.Case) == 0 || json.Unmarshal(rp.Case, &k) != nil || k.Kind != kind {
		return false
	}
	if err := json.Unmarshal(rp.Case, into); err != nil {
		panic(err)
	}
	return true
}
