package main

import (
	"fmt"
	"math/rand"
	"strings"
	"time"

	"ergo.services/ergo/node"
	"verifharness/util"
)

// One case: a spec, the zone the instants are read in, and the instants (unix seconds).
type parseCase struct {
	Kind   string   `json:"kind"`
	Stream string   `json:"stream"`
	Spec   string   `json:"spec"`
	AST    *AST     `json:"ast,omitempty"`
	Zone   string   `json:"zone"`
	Times  []int64  `json:"times"`
	Tags   []string `json:"tags"`
}

// instants aimed at the spec: for a day, the wall clock (hour, minute) is one the spec's
// minute and hour fields denote, then the day is varied (neighbours, +-7 days, month ends)
func genTimes(r *rand.Rand, a *AST, zname string, n int) []int64 {
	loc := loadZone(zname)
	var ts []int64
	for len(ts) < n {
		day := time.Unix(genDay(r, zname, loc), 0).In(loc)
		h, m := r.Intn(24), r.Intn(60)
		if a != nil && r.Intn(8) > 0 {
			h, m = a.pick(r, 1), a.pick(r, 0)
		}
		mo := int(day.Month())
		if a != nil && r.Intn(3) == 0 {
			mo = a.pick(r, 3)
		}
		base := time.Date(day.Year(), time.Month(mo), day.Day(), h, m, r.Intn(60), 0, loc)
		ts = append(ts, base.Unix())
		for _, dd := range []int{1, -1, 7, -7, 2 + r.Intn(27)} {
			if len(ts) < n && r.Intn(2) == 0 {
				ts = append(ts, base.AddDate(0, 0, dd).Unix())
			}
		}
		if len(ts) < n && r.Intn(3) == 0 {
			ts = append(ts, base.Unix()+int64(r.Intn(7)-3)*60)
		}
		if len(ts) < n && r.Intn(3) == 0 {
			// the last days of that month
			ts = append(ts, time.Date(day.Year(), time.Month(mo+1), -r.Intn(8), h, m, 0, 0, loc).Unix())
		}
	}
	return ts
}

// the witnesses of the defects repaired by the fix commits (see findings/C20.md): always run
func fixedWitnesses() []parseCase {
	at := func(z string, y, mo, d, h, mi int) int64 {
		return time.Date(y, time.Month(mo), d, h, mi, 0, 0, loadZone(z)).Unix()
	}
	w7 := &AST{F: [5][]Item{{{K: "num", A: 30}}, {{K: "num", A: 23}}, {{K: "star"}}, {{K: "star"}}, {{K: "lastw", A: 7}}}}
	w7b := &AST{F: [5][]Item{{{K: "num", A: 30}}, {{K: "num", A: 0}}, {{K: "star"}}, {{K: "star"}}, {{K: "lastw", A: 7}}}}
	wl := &AST{F: [5][]Item{{{K: "num", A: 30}}, {{K: "num", A: 0}}, {{K: "last"}}, {{K: "star"}}, {{K: "star"}}}}
	return []parseCase{
		{Kind: "parse", Stream: "witness", Spec: "30 23 * * 7L", AST: w7, Zone: "Europe/Berlin", Tags: []string{"dst", "lastw"},
			Times: []int64{at("Europe/Berlin", 2024, 3, 24, 23, 30), at("Europe/Berlin", 2024, 3, 31, 23, 30), at("Europe/Berlin", 2024, 10, 20, 23, 30), at("Europe/Berlin", 2024, 10, 27, 23, 30)}},
		{Kind: "parse", Stream: "witness", Spec: "30 0 * * 7L", AST: w7b, Zone: "America/Asuncion", Tags: []string{"dst", "lastw"},
			Times: []int64{at("America/Asuncion", 2017, 9, 24, 0, 30), at("America/Asuncion", 2017, 9, 17, 0, 30), at("America/Asuncion", 2023, 9, 24, 0, 30)}},
		{Kind: "parse", Stream: "witness", Spec: "30 0 L * *", AST: wl, Zone: "America/Guatemala", Tags: []string{"dst", "last"},
			Times: []int64{at("America/Guatemala", 2006, 4, 28, 0, 30), at("America/Guatemala", 2006, 4, 29, 0, 30), at("America/Guatemala", 2006, 4, 30, 1, 30), at("America/Guatemala", 2006, 4, 30, 0, 30)}},
	}
}

func genParseCase(r *rand.Rand, i int) parseCase {
	c := parseCase{Kind: "parse", Zone: zoneNames[r.Intn(len(zoneNames))]}
	if r.Intn(3) == 0 {
		c.Zone = zoneNames[r.Intn(3)]
	}
	nt := 14
	switch {
	case i%10 < 6:
		c.Stream = "valid"
		c.AST = genAST(r, 0, r.Intn(2) == 0)
		c.Spec = c.AST.render(r)
		c.Times = genTimes(r, c.AST, c.Zone, nt)
	case i%10 < 8:
		c.Stream = "edge"
		c.AST = genAST(r, 5, true)
		c.Spec = c.AST.render(r)
		c.Times = genTimes(r, c.AST, c.Zone, 6)
	case i%50 == 8:
		c.Stream = "alias"
		c.Spec = []string{"@hourly", "@daily", "@monthly", "@weekly"}[r.Intn(4)]
		al := map[string]string{"@hourly": "1 * * * *", "@daily": "10 3 * * *", "@monthly": "20 4 1 * *", "@weekly": "30 5 * * 1"}[c.Spec]
		c.AST = astOfSimple(al)
		c.Times = genTimes(r, c.AST, c.Zone, nt)
	default:
		c.Stream = "malformed"
		c.Spec = genMalformed(r, genAST(r, 0, false).render(r))
		c.Times = genTimes(r, nil, c.Zone, 4)
	}
	return c
}

// syntax tree of a spec made of numbers and stars only (the alias expansions)
func astOfSimple(s string) *AST {
	a := &AST{}
	for i, f := range strings.Fields(s) {
		if f == "*" {
			a.F[i] = []Item{{K: "star"}}
		} else {
			var v int
			fmt.Sscanf(f, "%d", &v)
			a.F[i] = []Item{{K: "num", A: v}}
		}
	}
	return a
}

func u64list(l []uint64) string {
	p := make([]string, len(l))
	for i, v := range l {
		p[i] = util.ZU(v)
	}
	return "[" + strings.Join(p, "; ") + "]"
}

func execParseCase(c parseCase, o *util.Out) string {
	mhm, day, wd, err := node.VerifCronParse(c.Spec)
	ok := err == nil
	var samples []string
	if ok {
		match, _ := node.VerifCronMatcher(c.Spec)
		loc := loadZone(c.Zone)
		for _, u := range c.Times {
			t := time.Unix(u, 0).In(loc)
			_, off := t.Zone()
			run := match(t)
			samples = append(samples, fmt.Sprintf("mk_sample %s %s (mk_civil %s %d %d %d %d %d) %s", util.Z(u), util.Z(int64(off)),
				util.Z(int64(t.Year())), int(t.Month()), t.Day(), t.Hour(), t.Minute(), int(t.Weekday()), util.B(run)))
			if run {
				o.Stats["sample:run"]++
			} else {
				o.Stats["sample:norun"]++
			}
			if off%3600 != 0 {
				o.Stats["sample:odd-offset"]++
			}
		}
		o.Stats["accepted"]++
	} else {
		o.Stats["rejected"]++
	}
	ast := "None"
	if c.AST != nil {
		ast = "(Some " + c.AST.coq() + ")"
	}
	return fmt.Sprintf("mk_pcase %s %s %s %s %s %s [%s]", coqStr(c.Spec), ast, util.B(ok), u64list(mhm), u64list(day), u64list(wd),
		strings.Join(samples, "; "))
}

func runParse(n int, out string, replay string) {
	o := util.NewOut("cron.parse")
	var cases []parseCase
	if replay != "" {
		var c parseCase
		if loadReplay(replay, "parse", &c) {
			cases = append(cases, c)
		}
	} else {
		cases = append(cases, fixedWitnesses()...)
		for _, s := range malformedFixed {
			cases = append(cases, parseCase{Kind: "parse", Stream: "malformed-fixed", Spec: s, Zone: "UTC", Times: []int64{1711323000}})
		}
		r := util.Rng(20)
		for i := 0; i < n; i++ {
			cases = append(cases, genParseCase(r, i))
		}
	}
	for _, c := range cases {
		o.Add(execParseCase(c, o), c)
		o.Stats["stream:"+c.Stream]++
		o.Stats["zone:"+c.Zone]++
		if c.AST != nil {
			for f, items := range c.AST.F {
				for _, it := range items {
					o.Stats[fmt.Sprintf("field%d:%s", f, it.K)]++
				}
			}
		}
	}
	o.Write(out)
}
