// Harness for the Pool engine (C19): a REAL node and a real act.Pool per case; the workers' handlers are held and
// released by the harness (so mailboxes fill up), workers are killed or exit at chosen points, Spawn of a worker
// fails on demand (Init error), AddWorkers/RemoveWorkers are called inside the pool process. Recorded: the pool's own
// counters after every dispatch, which worker started which message with which sender, the replies at the callers,
// p.pool.Len(). Many cases run in parallel on one node.
package main

import (
	"encoding/json"
	"flag"
	"fmt"
	"os"
	"sync"
	"time"

	"ergo.services/ergo"
	"ergo.services/ergo/gen"
	"verifharness/util"
)

func startNode() gen.Node {
	opts := gen.NodeOptions{}
	opts.Network.Mode = gen.NetworkModeDisabled
	opts.Log.DefaultLogger.Disable = true
	opts.Log.Level = gen.LogLevelDisabled
	name := gen.Atom(fmt.Sprintf("pool%d@localhost", os.Getpid()))
	node, err := ergo.StartNode(name, opts)
	if err != nil {
		panic(err)
	}
	return node
}

func main() {
	if len(os.Args) < 2 || (os.Args[1] != "run" && os.Args[1] != "orphans") {
		fmt.Fprintln(os.Stderr, "usage: pool run|orphans [flags]")
		os.Exit(2)
	}
	fs := flag.NewFlagSet(os.Args[1], flag.ExitOnError)
	n := fs.Int("n", 200, "number of cases")
	out := fs.String("out", "", "output json")
	replay := fs.String("replay", "", "replay file (json with key case)")
	par := fs.Int("par", 32, "cases run in parallel")
	fs.Parse(os.Args[2:])
	time.AfterFunc(time.Duration(150+*n/2)*time.Second, func() {
		fmt.Fprintln(os.Stderr, "watchdog: the run did not finish")
		os.Exit(3)
	})
	if os.Args[1] == "orphans" {
		runOrphans(*n, *out, *replay)
		return
	}
	node := startNode()
	o := util.NewOut("pool.run")

	var cases []PCase
	if *replay != "" {
		b, err := os.ReadFile(*replay)
		if err != nil {
			panic(err)
		}
		var rp struct {
			Case PCase `json:"case"`
		}
		if err := json.Unmarshal(b, &rp); err != nil {
			panic(err)
		}
		cases = []PCase{rp.Case}
	} else {
		cases = append(cases, corpus()...)
		r := util.Rng(191)
		for len(cases) < *n {
			cases = append(cases, genCase(r))
		}
	}
	results := make([]*PResult, len(cases))
	var wg sync.WaitGroup
	sem := make(chan struct{}, *par)
	for i := range cases {
		wg.Add(1)
		sem <- struct{}{}
		go func(i int) {
			defer wg.Done()
			defer func() { <-sem }()
			results[i] = runCase(node, cases[i])
		}(i)
	}
	wg.Wait()
	for i, c := range cases {
		res := results[i]
		idx := o.Add(coqCase(c, res), c)
		o.Stats["family:"+c.Family]++
		o.Stats[fmt.Sprintf("size:%d", c.Size)]++
		o.Stats[fmt.Sprintf("cap:%d", c.Cap)]++
		for _, s := range c.Steps {
			o.Stats["step:"+s.Op]++
		}
		for _, v := range res.Verdicts {
			o.Stats[fmt.Sprintf("verdict:%d", v[1])]++
		}
		for _, r := range res.Replies {
			o.Stats[fmt.Sprintf("reply-kind:%d", r[1])]++
		}
		o.Stats["handled"] += len(res.Handled)
		for _, m := range res.Monitor {
			o.Monitor = append(o.Monitor, util.MonitorFail{Case: idx, What: m, Tags: c.Tags})
		}
		if res.Stalled != "" {
			o.Notes = append(o.Notes, fmt.Sprintf("case %d: %s", idx, res.Stalled))
		}
	}
	o.Stats["runs"] = len(cases)
	if *out != "" {
		o.Write(*out)
	} else {
		b, _ := json.Marshal(o.Stats)
		fmt.Println(string(b))
		for _, m := range o.Monitor {
			fmt.Println("MONITOR", m.Case, m.What)
		}
		for _, m := range o.Notes {
			fmt.Println("NOTE", m)
		}
		if len(o.Cases) > 0 {
			fmt.Println(o.Cases[len(o.Cases)-1])
		}
	}
	os.Exit(0)
}
