package main

// C10 for pools: every worker a pool ever started (initial ones, added ones and the replacements
// spawned on the spot by forward()) must terminate when the pool terminates, whatever ended the pool.

import (
	"encoding/json"
	"fmt"
	"math/rand"
	"os"
	"sync"
	"time"

	"ergo.services/ergo/act"
	"ergo.services/ergo/gen"
	"verifharness/util"
)

type oCase struct {
	Size  int      `json:"size"`
	Kills int      `json:"kills"` // workers killed before more traffic arrives
	Msgs  int      `json:"msgs"`  // messages sent after the kills (dead slots get replaced)
	Add   int      `json:"add"`   // AddWorkers(n) before the end
	End   string   `json:"end"`   // kill | exit | error
	Tags  []string `json:"tags"`
}

type oWorkers struct {
	mu   sync.Mutex
	pids []gen.PID
	got  int
}

type oWorker struct {
	act.Actor
	reg *oWorkers
}

func (w *oWorker) Init(args ...any) error {
	w.reg.mu.Lock()
	w.reg.pids = append(w.reg.pids, w.PID())
	w.reg.mu.Unlock()
	return nil
}
func (w *oWorker) HandleMessage(from gen.PID, message any) error {
	w.reg.mu.Lock()
	w.reg.got++
	w.reg.mu.Unlock()
	return nil
}

type oAdd struct{ N int }
type oDie struct{}

type oPool struct {
	act.Pool
	reg  *oWorkers
	size int
}

func (p *oPool) Init(args ...any) (act.PoolOptions, error) {
	return act.PoolOptions{PoolSize: int64(p.size), WorkerFactory: func() gen.ProcessBehavior { return &oWorker{reg: p.reg} }}, nil
}

// High-priority messages are handled by the pool process itself
func (p *oPool) HandleMessage(from gen.PID, message any) error {
	switch m := message.(type) {
	case oAdd:
		p.AddWorkers(m.N)
	case oDie:
		return fmt.Errorf("pool gives up")
	}
	return nil
}

func runOrphanCase(node gen.Node, c oCase, r *rand.Rand) (string, error) {
	reg := &oWorkers{}
	ppid, err := node.Spawn(func() gen.ProcessBehavior { return &oPool{reg: reg, size: c.Size} }, gen.ProcessOptions{})
	if err != nil {
		return "", err
	}
	reg.mu.Lock()
	first := append([]gen.PID{}, reg.pids...)
	reg.mu.Unlock()
	for i := 0; i < c.Kills && i < len(first); i++ {
		node.Kill(first[i])
	}
	time.Sleep(2 * time.Millisecond)
	for i := 0; i < c.Msgs; i++ {
		node.Send(ppid, i)
	}
	if c.Add > 0 {
		node.SendWithPriority(ppid, oAdd{c.Add}, gen.MessagePriorityHigh)
	}
	// let the pool dispatch everything
	deadline := time.Now().Add(3 * time.Second)
	for time.Now().Before(deadline) {
		info, err := node.ProcessInfo(ppid)
		if err != nil {
			break
		}
		if info.State == gen.ProcessStateSleep && info.MailboxQueues.Main+info.MailboxQueues.System == 0 {
			break
		}
		time.Sleep(time.Millisecond)
	}
	switch c.End {
	case "kill":
		node.Kill(ppid)
	case "exit":
		node.SendExit(ppid, fmt.Errorf("stop it"))
	default:
		node.SendWithPriority(ppid, oDie{}, gen.MessagePriorityHigh)
	}
	// every worker ever started must be gone
	deadline = time.Now().Add(3 * time.Second)
	var alive []gen.PID
	for {
		alive = alive[:0]
		reg.mu.Lock()
		all := append([]gen.PID{}, reg.pids...)
		reg.mu.Unlock()
		if _, err := node.ProcessInfo(ppid); err == nil {
			alive = append(alive, ppid)
		}
		for _, w := range all {
			if _, err := node.ProcessInfo(w); err == nil {
				alive = append(alive, w)
			}
		}
		if len(alive) == 0 || time.Now().After(deadline) {
			break
		}
		time.Sleep(2 * time.Millisecond)
	}
	if len(alive) > 0 {
		for _, w := range alive {
			node.Kill(w)
		}
		reg.mu.Lock()
		n := len(reg.pids)
		reg.mu.Unlock()
		return fmt.Sprintf("pool of %d (workers ever started: %d, %d killed, %d messages after, end=%s): %d process(es) still alive 3 s after the pool terminated: %v",
			c.Size, n, c.Kills, c.Msgs, c.End, len(alive), alive), nil
	}
	return "", nil
}

func runOrphans(n int, out string, replay string) {
	node := startNode()
	o := util.NewOut("pool.orphans")
	var cases []oCase
	if replay != "" {
		b, err := os.ReadFile(replay)
		if err != nil {
			panic(err)
		}
		var rp struct {
			Case oCase `json:"case"`
		}
		if err := json.Unmarshal(b, &rp); err != nil {
			panic(err)
		}
		cases = append(cases, rp.Case)
	} else {
		r := util.Rng(41)
		for i := 0; i < n; i++ {
			c := oCase{Size: 1 + r.Intn(4), Msgs: r.Intn(12), Add: []int{0, 0, 1, 2}[r.Intn(4)], End: []string{"kill", "exit", "error"}[r.Intn(3)], Tags: []string{}}
			c.Kills = r.Intn(c.Size + 1)
			cases = append(cases, c)
		}
	}
	r := util.Rng(42)
	for _, c := range cases {
		what, err := runOrphanCase(node, c, r)
		idx := o.Add("tt", c)
		o.Stats["runs"]++
		o.Stats["end:"+c.End]++
		if c.Kills > 0 && c.Msgs >= c.Size {
			o.Stats["with-replacement"]++
		}
		if err != nil {
			o.Notes = append(o.Notes, err.Error())
			continue
		}
		if what != "" {
			o.Monitor = append(o.Monitor, util.MonitorFail{Case: idx, What: what})
		}
	}
	o.Write(out)
}
