package main

import "math/rand"

// mirror of the pool used ONLY to write sensible scripts (which workers hold a message, who is dead);
// the executor does not depend on it and the Coq model recomputes everything from the events.
type mw struct {
	alive, inhand, removed bool
	q                      int
}

type pbuilder struct {
	c      PCase
	ring   []int
	ws     []*mw
	nextID int
	zombie bool // the next crash of a busy worker leaves it registered (zcrash)
}

func newPB(size, cap int, fam string) *pbuilder {
	b := &pbuilder{c: PCase{Size: size, Cap: cap, Family: fam, Tags: []string{fam}}}
	for i := 0; i < size; i++ {
		b.ws = append(b.ws, &mw{alive: true})
		b.ring = append(b.ring, i)
	}
	return b
}

func (b *pbuilder) deadInRing() int {
	n := 0
	for _, p := range b.ring {
		if !b.ws[p].alive {
			n++
		}
	}
	return n
}

func (b *pbuilder) dispatch(plan []bool) {
	l := len(b.ring)
	for i := 0; i < l; i++ {
		pid := b.ring[0]
		b.ring = b.ring[1:]
		w := b.ws[pid]
		if !w.alive {
			ok := false
			if len(plan) > 0 {
				ok, plan = plan[0], plan[1:]
			}
			if !ok {
				continue
			}
			b.ws = append(b.ws, &mw{alive: true, inhand: true})
			b.ring = append(b.ring, len(b.ws)-1)
			return
		}
		if b.c.Cap > 0 && w.q >= b.c.Cap {
			b.ring = append(b.ring, pid)
			continue
		}
		if !w.inhand && w.q == 0 {
			w.inhand = true
		} else {
			w.q++
		}
		b.ring = append(b.ring, pid)
		return
	}
}

func (b *pbuilder) send(r *rand.Rand, call bool, pSpawn float64) {
	var plan []bool
	for i := b.deadInRing(); i > 0; i-- {
		plan = append(plan, r.Float64() < pSpawn)
	}
	op := "msg"
	if call {
		op = "call"
	}
	b.c.Steps = append(b.c.Steps, PStep{Op: op, ID: b.nextID, Sender: r.Intn(3), Plan: plan})
	b.nextID++
	b.dispatch(plan)
}

func (b *pbuilder) work(w int) {
	if w < len(b.ws) && b.ws[w].inhand {
		b.c.Steps = append(b.c.Steps, PStep{Op: "work", W: w})
		m := b.ws[w]
		if m.removed || !m.alive {
			m.inhand, m.alive, m.q = false, false, 0
			return
		}
		if m.q > 0 {
			m.q--
		} else {
			m.inhand = false
		}
	}
}

func (b *pbuilder) crash(w int, exit bool) {
	if w >= len(b.ws) || !b.ws[w].alive {
		return
	}
	if exit && !b.ws[w].inhand {
		return
	}
	op := "crash"
	if exit {
		op = "exitcrash"
	} else if b.zombie && b.ws[w].inhand {
		op = "zcrash"
	}
	b.zombie = false
	b.c.Steps = append(b.c.Steps, PStep{Op: op, W: w})
	b.ws[w].alive, b.ws[w].inhand, b.ws[w].q = false, false, 0
}

func (b *pbuilder) add(r *rand.Rand, n int) {
	var plan []bool
	for i := 0; i < n; i++ {
		ok := r.Intn(6) != 0
		plan = append(plan, ok)
		if !ok {
			break
		}
		b.ws = append(b.ws, &mw{alive: true})
		b.ring = append(b.ring, len(b.ws)-1)
	}
	b.c.Steps = append(b.c.Steps, PStep{Op: "add", N: n, Plan: plan})
}

func (b *pbuilder) remove(n int) {
	b.c.Steps = append(b.c.Steps, PStep{Op: "remove", N: n})
	for i := 0; i < n && len(b.ring) > 0; i++ {
		w := b.ws[b.ring[0]]
		b.ring = b.ring[1:]
		w.removed = true
		if !w.inhand {
			w.alive, w.q = false, 0
		}
	}
}

func (b *pbuilder) busy() []int {
	var out []int
	for i, w := range b.ws {
		if w.inhand {
			out = append(out, i)
		}
	}
	return out
}

func genCase(r *rand.Rand) PCase {
	size, cap := 1+r.Intn(4), 1+r.Intn(4)
	if r.Intn(12) == 0 {
		cap = 0 // unlimited worker mailboxes
	}
	fam := []string{"random", "random", "fill", "respawn"}[r.Intn(4)]
	b := newPB(size, cap, fam)
	n := 8 + r.Intn(30)
	for i := 0; i < n; i++ {
		x := r.Intn(100)
		switch fam {
		case "fill":
			if x < 75 {
				x = 0
			}
		case "respawn":
			if x >= 50 && x < 75 {
				x = 82
			}
		}
		switch {
		case x < 50:
			b.send(r, r.Intn(3) == 0, 0.7)
		case x < 72:
			if bs := b.busy(); len(bs) > 0 {
				b.work(bs[r.Intn(len(bs))])
			}
		case x < 80:
			b.c.Steps = append(b.c.Steps, PStep{Op: "len"})
		case x < 88:
			b.zombie = r.Intn(2) == 0
			if bs := b.busy(); b.zombie && len(bs) > 0 {
				b.crash(bs[r.Intn(len(bs))], false)
			} else {
				b.crash(r.Intn(len(b.ws)), false)
			}
		case x < 91:
			b.crash(r.Intn(len(b.ws)), true)
		case x < 95:
			b.add(r, 1+r.Intn(2))
		case x < 98:
			b.remove(1 + r.Intn(2))
		default:
			b.c.Steps = append(b.c.Steps, PStep{Op: "high", ID: 100000 + b.nextID, Sender: r.Intn(3)})
		}
	}
	b.c.Steps = append(b.c.Steps, PStep{Op: "len"})
	return b.c
}

func corpus() []PCase {
	var out []PCase
	// every worker full: the next message is dropped; after one worker takes a message the next one fits
	{
		b := newPB(2, 1, "corpus-full")
		r := rand.New(rand.NewSource(1))
		for i := 0; i < 5; i++ {
			b.send(r, i%2 == 1, 1)
		}
		b.work(0)
		b.send(r, true, 1)
		b.send(r, false, 1)
		b.c.Steps = append(b.c.Steps, PStep{Op: "len"})
		out = append(out, b.c)
	}
	// a dead worker met at dispatch is replaced; a failed respawn shrinks the ring
	{
		b := newPB(3, 2, "corpus-respawn")
		r := rand.New(rand.NewSource(2))
		b.send(r, true, 1)
		b.crash(1, false)
		b.send(r, true, 1)
		b.c.Steps = append(b.c.Steps, PStep{Op: "len"})
		b.crash(2, false)
		b.c.Steps = append(b.c.Steps, PStep{Op: "call", ID: b.nextID, Sender: 0, Plan: []bool{false}})
		b.nextID++
		b.dispatch([]bool{false})
		b.c.Steps = append(b.c.Steps, PStep{Op: "len"})
		b.crash(0, true)
		b.send(r, true, 1)
		b.c.Steps = append(b.c.Steps, PStep{Op: "len"})
		out = append(out, b.c)
	}
	// a worker killed inside a callback stays registered as a zombie: the next dispatch must still replace it
	for _, size := range []int{1, 2} {
		b := newPB(size, 1, "corpus-zombie")
		r := rand.New(rand.NewSource(4))
		for i := 0; i < size; i++ {
			b.send(r, false, 1)
		}
		b.zombie = true
		b.crash(0, false)
		b.send(r, true, 1)
		b.send(r, true, 1)
		b.c.Steps = append(b.c.Steps, PStep{Op: "len"})
		out = append(out, b.c)
	}
	// add / remove interleaved with traffic, high priority handled by the pool itself
	{
		b := newPB(1, 1, "corpus-addremove")
		r := rand.New(rand.NewSource(3))
		b.send(r, true, 1)
		b.send(r, false, 1)
		b.send(r, true, 1) // dropped
		b.add(r, 2)
		b.send(r, true, 1)
		b.remove(1)
		b.send(r, true, 1)
		b.c.Steps = append(b.c.Steps, PStep{Op: "high", ID: 100777, Sender: 1})
		b.remove(3)
		b.send(r, true, 1) // empty ring: dropped
		b.c.Steps = append(b.c.Steps, PStep{Op: "len"})
		out = append(out, b.c)
	}
	return out
}
