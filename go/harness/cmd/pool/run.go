package main

import (
	"errors"
	"fmt"
	"strconv"
	"strings"
	"sync"
	"sync/atomic"
	"time"

	"ergo.services/ergo/act"
	"ergo.services/ergo/gen"
	"verifharness/util"
)

// Step of a script.
//
//	msg / call: message ID sent to the pool by sender Sender (call: by a fresh caller process); Plan = results of the
//	            Spawn calls this dispatch may make
//	high:       message ID sent with priority High (must be handled by the pool process itself)
//	work:       the handler worker W is blocked in returns (the worker then takes its next message, if any)
//	zcrash:     Node.Kill(worker W) while its handler is held: the worker stays registered as a zombie
//	crash:      Node.Kill(worker W);  exitcrash: the handler of worker W returns an error (the worker terminates)
//	add/remove: AddWorkers(N) with Spawn results Plan / RemoveWorkers(N), called inside the pool process
//	len:        p.pool.Len() is read
type PStep struct {
	Op     string `json:"op"`
	ID     int    `json:"id,omitempty"`
	Sender int    `json:"sender,omitempty"`
	W      int    `json:"w,omitempty"`
	N      int    `json:"n,omitempty"`
	Plan   []bool `json:"plan,omitempty"`
}

type PCase struct {
	Size   int      `json:"size"`
	Cap    int      `json:"cap"`
	Steps  []PStep  `json:"steps"`
	Family string   `json:"family"`
	Tags   []string `json:"tags"`
}

type PResult struct {
	Events   []string
	Verdicts [][2]int
	Handled  [][3]int
	Replies  [][4]int
	Lens     []int
	Answered []int
	Monitor  []string
	Stalled  string
}

const stallLimit = 5 * time.Second
const callTimeout = 3

// ---- shared state of one case ---------------------------------------------------------------------------------

type winfo struct {
	pid       gen.PID
	rel       chan bool // true: the handler returns an error
	inHandler atomic.Bool
	curID     int
	curCall   bool
	killed    bool
}

type startRep struct {
	w, id int
	from  gen.PID
	call  bool
}

type callRes struct {
	id  int
	v   any
	err error
}

type env struct {
	mu       sync.Mutex
	plan     []bool
	consumed []bool
	workers  []*winfo
	started  chan startRep
	poolOwn  chan int
	results  chan callRes
	senderNo map[gen.PID]int
}

func (e *env) takeConsumed() []bool {
	e.mu.Lock()
	defer e.mu.Unlock()
	c := e.consumed
	e.consumed = nil
	e.plan = nil
	return c
}

type wmsg struct{ ID int }
type wreq struct{ ID int }
type wreply struct{ ID, W int }

// ---- worker ---------------------------------------------------------------------------------------------------

type pworker struct {
	act.Actor
	e *env
	w *winfo
	i int
}

func (p *pworker) Init(args ...any) error {
	e := args[0].(*env)
	e.mu.Lock()
	defer e.mu.Unlock()
	ok := true
	if len(e.plan) > 0 {
		ok = e.plan[0]
		e.plan = e.plan[1:]
	}
	e.consumed = append(e.consumed, ok)
	if !ok {
		return errors.New("spawn refused by the harness")
	}
	p.e = e
	p.i = len(e.workers)
	p.w = &winfo{pid: p.PID(), rel: make(chan bool, 1)}
	e.workers = append(e.workers, p.w)
	return nil
}

func (p *pworker) hold(from gen.PID, id int, call bool) bool {
	p.w.curID, p.w.curCall = id, call
	p.e.started <- startRep{p.i, id, from, call} // report first: "in handler" implies the report is already queued
	p.w.inHandler.Store(true)
	return <-p.w.rel
}

func (p *pworker) HandleMessage(from gen.PID, message any) error {
	if m, ok := message.(wmsg); ok {
		if p.hold(from, m.ID, false) {
			return errors.New("worker crash")
		}
	}
	return nil
}

func (p *pworker) HandleCall(from gen.PID, ref gen.Ref, request any) (any, error) {
	if m, ok := request.(wreq); ok {
		if p.hold(from, m.ID, true) {
			return nil, errors.New("worker crash")
		}
		return wreply{m.ID, p.i}, nil
	}
	return nil, nil
}

// ---- pool -----------------------------------------------------------------------------------------------------

type ctl struct {
	op   string
	n    int
	done chan int64
}

type hpool struct {
	act.Pool
	e *env
}

func (h *hpool) Init(args ...any) (act.PoolOptions, error) {
	h.e = args[0].(*env)
	return act.PoolOptions{
		WorkerMailboxSize: int64(args[2].(int)),
		PoolSize:          int64(args[1].(int)),
		WorkerFactory:     func() gen.ProcessBehavior { return &pworker{} },
		WorkerArgs:        []any{h.e},
	}, nil
}

func (h *hpool) HandleMessage(from gen.PID, message any) error {
	switch m := message.(type) {
	case ctl:
		var n int64
		switch m.op {
		case "add":
			n, _ = h.AddWorkers(m.n)
		case "remove":
			n, _ = h.RemoveWorkers(m.n)
		case "len":
			n, _ = h.AddWorkers(0)
		}
		m.done <- n
	case wmsg:
		h.e.poolOwn <- m.ID
	}
	return nil
}

func (h *hpool) HandleCall(from gen.PID, ref gen.Ref, request any) (any, error) {
	if m, ok := request.(wreq); ok {
		return wreply{m.ID, -1}, nil
	}
	return nil, nil
}

// ---- helpers: senders, callers, control ---------------------------------------------------------------------------

type cmdSend struct {
	to   gen.PID
	msg  any
	high bool
	done chan error
}
type cmdDoCall struct {
	to      gen.PID
	id      int
	results chan callRes
}
type cmdCtl struct {
	to gen.PID
	c  ctl
}
type cmdInspect struct {
	to   gen.PID
	done chan map[string]string
}

type phelper struct{ act.Actor }

func (s *phelper) HandleMessage(from gen.PID, message any) error {
	switch m := message.(type) {
	case cmdSend:
		if m.high {
			m.done <- s.SendWithPriority(m.to, m.msg, gen.MessagePriorityHigh)
		} else {
			m.done <- s.Send(m.to, m.msg)
		}
	case cmdDoCall:
		v, err := s.CallWithTimeout(m.to, wreq{m.id}, callTimeout)
		m.results <- callRes{m.id, v, err}
	case cmdCtl:
		if err := s.SendWithPriority(m.to, m.c, gen.MessagePriorityHigh); err != nil {
			m.c.done <- -1
		}
	case cmdInspect:
		r, _ := s.Inspect(m.to)
		m.done <- r
	}
	return nil
}

// ---- executor --------------------------------------------------------------------------------------------------

func runCase(node gen.Node, c PCase) *PResult {
	res := &PResult{}
	stall := func(f string, a ...any) *PResult {
		if res.Stalled == "" {
			res.Stalled = fmt.Sprintf(f, a...)
		}
		return res
	}
	e := &env{started: make(chan startRep, 1024), poolOwn: make(chan int, 64), results: make(chan callRes, 256), senderNo: map[gen.PID]int{}}
	spawnHelper := func() gen.PID {
		pid, err := node.Spawn(func() gen.ProcessBehavior { return &phelper{} }, gen.ProcessOptions{})
		if err != nil {
			panic(err)
		}
		return pid
	}
	var helpers []gen.PID
	senders := make([]gen.PID, 3)
	for i := range senders {
		senders[i] = spawnHelper()
		e.senderNo[senders[i]] = i
		helpers = append(helpers, senders[i])
	}
	ctlPID := spawnHelper()
	helpers = append(helpers, ctlPID)
	poolPID, err := node.Spawn(func() gen.ProcessBehavior { return &hpool{} }, gen.ProcessOptions{}, e, c.Size, c.Cap)
	if err != nil {
		return stall("pool spawn: %v", err)
	}
	e.takeConsumed()
	defer func() {
		e.mu.Lock()
		ws := append([]*winfo{}, e.workers...)
		e.mu.Unlock()
		node.Kill(poolPID)
		for _, w := range ws {
			node.Kill(w.pid)
			select {
			case w.rel <- false:
			default:
			}
		}
		for _, h := range helpers {
			node.Kill(h)
		}
	}()

	ev := func(f string, a ...any) { res.Events = append(res.Events, fmt.Sprintf(f, a...)) }
	worker := func(i int) *winfo {
		e.mu.Lock()
		defer e.mu.Unlock()
		if i < 0 || i >= len(e.workers) {
			return nil
		}
		return e.workers[i]
	}
	inspect := func() (fwd, unh, rst int, ok bool) {
		dn := make(chan map[string]string, 1)
		if node.Send(ctlPID, cmdInspect{poolPID, dn}) != nil {
			return
		}
		select {
		case m := <-dn:
			if m == nil {
				return
			}
			fwd, _ = strconv.Atoi(m["messages_forwarded"])
			unh, _ = strconv.Atoi(m["messages_unhandled"])
			rst, _ = strconv.Atoi(m["worker_restarts"])
			return fwd, unh, rst, true
		case <-time.After(stallLimit + 2*time.Second):
			return
		}
	}
	// every worker is blocked in a handler, asleep on an empty mailbox, or gone
	settle := func() bool {
		deadline := time.Now().Add(stallLimit)
		for time.Now().Before(deadline) {
			e.mu.Lock()
			ws := append([]*winfo{}, e.workers...)
			e.mu.Unlock()
			all := true
			for _, w := range ws {
				if w.inHandler.Load() {
					continue
				}
				// queues FIRST, state AFTERWARDS (two reads): "empty" then "asleep" cannot be a worker that has just
				// popped a message (it stays Running until its held handler is released)
				info, err := node.ProcessInfo(w.pid)
				if err != nil || info.State == gen.ProcessStateZombee || info.State == gen.ProcessStateTerminated {
					continue
				}
				info2, err := node.ProcessInfo(w.pid)
				if err != nil || info2.State == gen.ProcessStateZombee || info2.State == gen.ProcessStateTerminated {
					continue
				}
				if info.MailboxQueues.Main == 0 && info.MailboxQueues.Urgent == 0 && info.MailboxQueues.System == 0 &&
					info2.State == gen.ProcessStateSleep && !w.inHandler.Load() {
					continue
				}
				all = false
				break
			}
			if all {
				return true
			}
			time.Sleep(100 * time.Microsecond)
		}
		return false
	}
	collect := func() {
		for {
			select {
			case s := <-e.started:
				no, ok := e.senderNo[s.from]
				if !ok {
					no = -1
				}
				ev("EWork %d", s.w)
				res.Handled = append(res.Handled, [3]int{s.w, s.id, no})
			default:
				return
			}
		}
	}
	release := func(w *winfo, crash bool) {
		if w.inHandler.Load() {
			if w.curCall && !crash && !w.killed {
				res.Answered = append(res.Answered, w.curID)
			}
			w.inHandler.Store(false)
			w.rel <- crash
		}
	}
	waitGone := func(pid gen.PID) bool {
		deadline := time.Now().Add(stallLimit)
		for time.Now().Before(deadline) {
			if _, err := node.ProcessInfo(pid); err != nil {
				return true
			}
			time.Sleep(100 * time.Microsecond)
		}
		return false
	}
	ctlCall := func(op string, n int) (int64, bool) {
		dn := make(chan int64, 1)
		if node.Send(ctlPID, cmdCtl{poolPID, ctl{op, n, dn}}) != nil {
			return 0, false
		}
		select {
		case v := <-dn:
			return v, true
		case <-time.After(stallLimit):
			return 0, false
		}
	}

	sent, calls, highs := 0, 0, 0
	removedAny := false
	deadIn := 0 // workers of the pool killed by the harness and not yet met by a dispatch
	lastF, lastU, lastR := 0, 0, 0
	for si, s := range c.Steps {
		switch s.Op {
		case "msg", "call":
			e.mu.Lock()
			e.plan, e.consumed = append([]bool{}, s.Plan...), nil
			e.mu.Unlock()
			from, ref, ty := s.Sender%3, 0, 0
			// monitor input: a worker the pool spawned, that nobody killed, that is asleep on an empty mailbox right now
			// (only while no RemoveWorkers happened: then every such worker must still be in the ring)
			idle := -1
			if !removedAny {
				e.mu.Lock()
				ws := append([]*winfo{}, e.workers...)
				e.mu.Unlock()
				for i, w := range ws {
					if w.killed || w.inHandler.Load() {
						continue
					}
					if info, err := node.ProcessInfo(w.pid); err == nil && info.State == gen.ProcessStateSleep &&
						info.MailboxQueues.Main == 0 && info.MailboxQueues.Urgent == 0 && info.MailboxQueues.System == 0 {
						idle = i
						break
					}
				}
			}
			if s.Op == "msg" {
				dn := make(chan error, 1)
				node.Send(senders[s.Sender%3], cmdSend{poolPID, wmsg{s.ID}, false, dn})
				select {
				case <-dn:
				case <-time.After(stallLimit):
					return stall("step %d: send did not return", si)
				}
			} else {
				cp := spawnHelper()
				helpers = append(helpers, cp)
				e.senderNo[cp] = 100 + s.ID
				from, ref, ty = 100+s.ID, s.ID, 1
				calls++
				node.Send(cp, cmdDoCall{poolPID, s.ID, e.results})
			}
			sent++
			// barrier: the pool has finished this dispatch when its counters account for the message
			deadline := time.Now().Add(stallLimit)
			f, u, r, ok := 0, 0, 0, false
			for time.Now().Before(deadline) {
				f, u, r, ok = inspect()
				if ok && f+u >= sent {
					break
				}
				time.Sleep(100 * time.Microsecond)
			}
			if !ok || f+u != sent {
				ev("EMsg (mk_msg %d %d %d %d) []", s.ID, from, ref, ty)
				res.Verdicts = append(res.Verdicts, [2]int{s.ID, 9})
				return stall("step %d: the pool did not account for the message (forwarded %d unhandled %d sent %d)", si, f, u, sent)
			}
			kind := 9
			switch {
			case f == lastF+1 && u == lastU && r == lastR:
				kind = 1
			case f == lastF+1 && u == lastU && r == lastR+1:
				kind = 2
			case f == lastF && u == lastU+1 && r == lastR:
				kind = 0
			}
			lastF, lastU, lastR = f, u, r
			var orc []string
			for _, b := range e.takeConsumed() {
				orc = append(orc, util.B(b))
			}
			ev("EMsg (mk_msg %d %d %d %d) [%s]", s.ID, from, ref, ty, strings.Join(orc, "; "))
			res.Verdicts = append(res.Verdicts, [2]int{s.ID, kind})
			// every Spawn attempt of a dispatch stands for one dead worker met (and taken out of the ring); a message may
			// be dropped only after ALL dead workers of the ring were met and their respawn failed
			if kind == 0 && !removedAny && len(orc) < deadIn {
				res.Monitor = append(res.Monitor, fmt.Sprintf("message %d was dropped although %d dead worker(s) were in the ring and only %d respawn(s) were attempted", s.ID, deadIn, len(orc)))
			}
			deadIn -= len(orc)
			if deadIn < 0 {
				deadIn = 0
			}
			if kind == 0 && idle >= 0 {
				res.Monitor = append(res.Monitor, fmt.Sprintf("message %d was dropped (messages_unhandled) although worker %d of the pool was alive and idle", s.ID, idle))
			}
			if !settle() {
				return stall("step %d: workers did not settle", si)
			}
			collect()
		case "high":
			dn := make(chan error, 1)
			node.Send(senders[s.Sender%3], cmdSend{poolPID, wmsg{s.ID}, true, dn})
			<-dn
			highs++
			select {
			case id := <-e.poolOwn:
				if id != s.ID {
					res.Monitor = append(res.Monitor, fmt.Sprintf("high-priority message %d: the pool process saw %d", s.ID, id))
				}
			case <-time.After(stallLimit):
				res.Monitor = append(res.Monitor, fmt.Sprintf("high-priority message %d was not handled by the pool process itself", s.ID))
			}
			settle()
			collect()
		case "work":
			if w := worker(s.W); w != nil {
				release(w, false)
				if !settle() {
					return stall("step %d: workers did not settle", si)
				}
				collect()
			}
		case "zcrash":
			// Node.Kill while the worker is held inside a callback: it stays registered (state Zombee) and
			// Forward answers ErrProcessTerminated until the callback returns (at the end of the case)
			if w := worker(s.W); w != nil && !w.killed {
				deadIn++
				w.killed = true
				node.Kill(w.pid)
				ev("ECrash %d", s.W)
				if !w.inHandler.Load() {
					if !waitGone(w.pid) {
						return stall("step %d: worker did not go away", si)
					}
				}
				collect()
			}
		case "crash", "exitcrash":
			if w := worker(s.W); w != nil && !w.killed {
				if s.Op == "crash" || w.inHandler.Load() {
					deadIn++
				}
				if s.Op == "crash" {
					w.killed = true
					node.Kill(w.pid)
					ev("ECrash %d", s.W)
					release(w, false)
				} else {
					if !w.inHandler.Load() {
						continue
					}
					w.killed = true
					ev("ECrash %d", s.W)
					release(w, true)
				}
				if !waitGone(w.pid) {
					return stall("step %d: worker did not go away", si)
				}
				collect()
			}
		case "add":
			e.mu.Lock()
			e.plan, e.consumed = append([]bool{}, s.Plan...), nil
			e.mu.Unlock()
			if _, ok := ctlCall("add", s.N); !ok {
				return stall("step %d: AddWorkers did not return", si)
			}
			var orc []string
			for _, b := range e.takeConsumed() {
				orc = append(orc, util.B(b))
			}
			ev("EAdd [%s]", strings.Join(orc, "; "))
		case "remove":
			if _, ok := ctlCall("remove", s.N); !ok {
				return stall("step %d: RemoveWorkers did not return", si)
			}
			ev("ERemove %d", s.N)
			removedAny = true
			settle()
			collect()
		case "len":
			v, ok := ctlCall("len", 0)
			if !ok {
				return stall("step %d: Len did not return", si)
			}
			ev("ELen")
			res.Lens = append(res.Lens, int(v))
		}
	}
	// let everything finish: release every held handler until all mailboxes are empty
	for round := 0; round < 200; round++ {
		e.mu.Lock()
		ws := append([]*winfo{}, e.workers...)
		e.mu.Unlock()
		any := false
		for _, w := range ws {
			if w.inHandler.Load() {
				any = true
				release(w, false)
				settle()
				collect()
			}
		}
		if !any {
			break
		}
	}
	for i := 0; i < calls; i++ {
		select {
		case cr := <-e.results:
			switch {
			case cr.err == nil:
				if r, ok := cr.v.(wreply); ok {
					res.Replies = append(res.Replies, [4]int{cr.id, 0, r.W, r.ID})
				} else {
					res.Replies = append(res.Replies, [4]int{cr.id, 9, -1, -1})
				}
			case errors.Is(cr.err, gen.ErrTimeout):
				res.Replies = append(res.Replies, [4]int{cr.id, 1, -1, -1})
			default:
				res.Replies = append(res.Replies, [4]int{cr.id, 9, -1, -1})
			}
		case <-time.After((callTimeout + 3) * time.Second):
			return stall("a caller never returned")
		}
	}
	// replies in request order (callers finish in any order)
	for i := 0; i < len(res.Replies); i++ {
		for j := i + 1; j < len(res.Replies); j++ {
			if res.Replies[j][0] < res.Replies[i][0] {
				res.Replies[i], res.Replies[j] = res.Replies[j], res.Replies[i]
			}
		}
	}
	return res
}

func coqCase(c PCase, r *PResult) string {
	var vs, hs, rs, ls, as []string
	for _, v := range r.Verdicts {
		vs = append(vs, fmt.Sprintf("(%d, %d)", v[0], v[1]))
	}
	for _, h := range r.Handled {
		hs = append(hs, fmt.Sprintf("(%d, %d, %s)", h[0], h[1], util.Z(int64(h[2]))))
	}
	for _, x := range r.Replies {
		rs = append(rs, fmt.Sprintf("(%d, %d, %s, %s)", x[0], x[1], util.Z(int64(x[2])), util.Z(int64(x[3]))))
	}
	for _, l := range r.Lens {
		ls = append(ls, fmt.Sprint(l))
	}
	for _, a := range r.Answered {
		as = append(as, fmt.Sprint(a))
	}
	size := c.Size
	if size < 1 {
		size = 3
	}
	return fmt.Sprintf("mk_pcase %d %d [%s] [%s] [%s] [%s] [%s] [%s]", size, c.Cap, strings.Join(r.Events, "; "),
		strings.Join(vs, "; "), strings.Join(hs, "; "), strings.Join(rs, "; "), strings.Join(ls, "; "), strings.Join(as, "; "))
}
