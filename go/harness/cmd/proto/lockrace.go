package main

// C13, family "lockrace": the receive queues of a connection under concurrent pushers. Several sender
// processes (different ids, so different pooled links and different serve goroutines on the peer) stream
// numbered messages to ONE receiver id (so one receive queue on the peer), as fast as they can.
// The model (Proto/RecvLock.v) says: at most one goroutine is inside the frame loop of handleRecvQueue
// of a queue, frames are handed over in push order, nothing is stranded.  Observed through the hooks
// "proto.recv.frame" / "proto.recv.idle" (goroutine identity per queue) and at the receiving core
// (per-sender order, exactly once).  The hook at "mpsc.lock" holds the first of two goroutines that are
// about to call Lock() on the same queue for a few microseconds and lets both go at the same instant,
// so that the window of a Lock() that is not ONE atomic swap is actually exercised.

import (
	"encoding/json"
	"fmt"
	"os"
	"runtime"
	"strconv"
	"strings"
	"sync"
	"sync/atomic"
	"time"

	"ergo.services/ergo/lib"
	"verifharness/util"
)

type lrCase struct {
	Pool    int      `json:"pool"`
	Senders int      `json:"senders"`
	Each    int      `json:"each"`
	Barrier bool     `json:"barrier"`
	Rounds  bool     `json:"rounds"` // the senders send one message each at the same moment, then wait for the hand-over: the queue is idle when the pushers arrive
	Tags    []string `json:"tags"`
}

type lrObs struct {
	Overlaps   int
	FirstOver  string
	Delivered  int
	OutOfOrder []string
	Dups       int
	SendErr    []string
	Pairings   int64 // times the barrier released two Lock() callers together
	Poisoned   bool
}

func goid() int64 {
	var buf [64]byte
	n := runtime.Stack(buf[:], false)
	f := strings.Fields(string(buf[:n]))
	if len(f) < 2 {
		return -1
	}
	id, _ := strconv.ParseInt(f[1], 10, 64)
	return id
}

func runLockRace(c lrCase) (o lrObs) {
	p, err := newPair(pairCfg{Pool: c.Pool, Important: false, Policy: "asis", Seed: int64(c.Senders*131 + c.Each)})
	if err != nil {
		panic(err)
	}
	for i := 0; i < c.Pool; i++ {
		if _, err := p.addLink(false); err != nil {
			panic(err)
		}
	}
	hold := 25 * time.Microsecond
	if c.Rounds {
		hold = 400 * time.Microsecond
	}
	var mu sync.Mutex
	owner := map[any]int64{}           // queue -> goroutine inside its frame loop
	waiting := map[any]*atomic.Int64{} // queue -> a Lock() caller spinning at the barrier (value: the instant to go on)
	base := time.Now()
	var pairings atomic.Int64
	hook := func(label string, obj any) {
		switch label {
		case "proto.recv.frame":
			g := goid()
			mu.Lock()
			if prev, ok := owner[obj]; ok && prev != g {
				o.Overlaps++
				if o.FirstOver == "" {
					o.FirstOver = fmt.Sprintf("goroutine %d popped a frame of a receive queue while goroutine %d was still inside the frame loop of the same queue", g, prev)
				}
			}
			owner[obj] = g
			mu.Unlock()
		case "proto.recv.idle":
			g := goid()
			mu.Lock()
			if owner[obj] == g {
				delete(owner, obj)
			}
			mu.Unlock()
		case "mpsc.lock":
			if !c.Barrier {
				return
			}
			mu.Lock()
			if fl, ok := waiting[obj]; ok {
				delete(waiting, obj)
				mu.Unlock()
				pairings.Add(1)
				// rendezvous: both leave the hook at the same instant of the monotonic clock
				t := int64(time.Since(base)) + 1500
				fl.Store(t)
				for int64(time.Since(base)) < t {
				}
				return
			}
			fl := &atomic.Int64{}
			waiting[obj] = fl
			mu.Unlock()
			start := time.Now()
			for i := 0; ; i++ {
				if t := fl.Load(); t != 0 {
					for int64(time.Since(base)) < t {
					}
					break
				}
				if i&63 == 63 && time.Since(start) > hold {
					mu.Lock()
					if waiting[obj] == fl {
						delete(waiting, obj)
					}
					mu.Unlock()
					if t := fl.Load(); t != 0 { // paired at the last moment
						for int64(time.Since(base)) < t {
						}
					}
					break
				}
			}
		}
	}
	lib.VerifHook.Store(&hook)
	defer func() {
		lib.VerifHook.Store(nil)
		p.close()
	}()

	const to = 2001
	var wg sync.WaitGroup
	var emu sync.Mutex
	sendOneMsg := func(s, k int) bool {
		m := msgSpec{Kind: "send_pid", From: uint64(1001 + s), To: to, Keep: true, Ref: [3]uint64{uint64(k) + 1, 2, 3}}
		if err := safeSend(p.connA, &m, fmt.Sprintf("s%d-%d", s, k)); err != nil {
			emu.Lock()
			o.SendErr = append(o.SendErr, fmt.Sprintf("sender %d message %d: %v", s, k, err))
			if strings.HasPrefix(err.Error(), "panic") {
				p.poisoned = true
			}
			emu.Unlock()
			return false
		}
		return true
	}
	if c.Rounds {
		for k := 0; k < c.Each && !p.poisoned; k++ {
			start := make(chan struct{})
			for s := 0; s < c.Senders; s++ {
				wg.Add(1)
				go func(s int) {
					defer wg.Done()
					<-start
					sendOneMsg(s, k)
				}(s)
			}
			close(start)
			wg.Wait()
			if !p.coreB.waitCalls((k+1)*c.Senders, 300*time.Millisecond) {
				break // something was lost: the monitor reports it
			}
		}
	} else {
		for s := 0; s < c.Senders; s++ {
			wg.Add(1)
			go func(s int) {
				defer wg.Done()
				for k := 0; k < c.Each; k++ {
					if !sendOneMsg(s, k) {
						return
					}
				}
			}(s)
		}
		wg.Wait()
	}
	want := c.Senders * c.Each
	p.coreB.waitCalls(want, 3*time.Second)
	p.quiesce(want, 0, 2*time.Second)
	o.Poisoned = p.poisoned
	o.Pairings = pairings.Load()

	next := make([]int, c.Senders)
	seen := map[string]bool{}
	for _, cl := range p.coreB.snapshot() {
		v, _ := cl.value.(string)
		if seen[v] {
			o.Dups++
			continue
		}
		seen[v] = true
		o.Delivered++
		var s, k int
		if _, err := fmt.Sscanf(v, "s%d-%d", &s, &k); err != nil || s < 0 || s >= c.Senders {
			continue
		}
		if k != next[s] && len(o.OutOfOrder) < 5 {
			o.OutOfOrder = append(o.OutOfOrder, fmt.Sprintf("sender %d: message #%d handed over where #%d was expected", 1001+s, k, next[s]))
		}
		if k >= next[s] {
			next[s] = k + 1
		}
	}
	return o
}

func monitorLockRace(c lrCase, o lrObs) []string {
	var fails []string
	if o.Overlaps > 0 {
		fails = append(fails, fmt.Sprintf("two handler goroutines inside the frame loop of one receive queue (%d times): %s", o.Overlaps, o.FirstOver))
	}
	fails = append(fails, o.OutOfOrder...)
	if o.Dups > 0 {
		fails = append(fails, fmt.Sprintf("%d messages were handed over twice", o.Dups))
	}
	if len(o.SendErr) == 0 && o.Delivered != c.Senders*c.Each {
		fails = append(fails, fmt.Sprintf("every send returned nil, %d of %d messages were handed over", o.Delivered, c.Senders*c.Each))
	}
	fails = append(fails, o.SendErr...)
	return fails
}

func runLockRaceCmd(n int, outPath, replay string) {
	out := util.NewOut("proto-lockrace")
	var cases []lrCase
	if replay != "" {
		raw, err := os.ReadFile(replay)
		if err != nil {
			panic(err)
		}
		var w struct {
			Case lrCase `json:"case"`
		}
		if err := json.Unmarshal(raw, &w); err != nil || w.Case.Senders == 0 {
			panic(fmt.Sprint("bad replay file: ", err))
		}
		// the failing interleaving is a matter of nanoseconds: a replay repeats the load a few times
		for i := 0; i < 8; i++ {
			cases = append(cases, w.Case)
		}
	} else {
		r := util.Rng(1313)
		for i := 0; len(cases) < n; i++ {
			c := lrCase{Pool: 2 + r.Intn(2), Senders: 2 + r.Intn(3), Each: 300 + r.Intn(500), Barrier: i%4 != 3, Tags: []string{"lockrace"}}
			if i%2 == 0 {
				c.Rounds, c.Each, c.Barrier = true, 60+r.Intn(60), true
			}
			cases = append(cases, c)
		}
	}
	for _, c := range cases {
		o := runLockRace(c)
		idx := out.Add("", c)
		for _, f := range monitorLockRace(c, o) {
			out.Monitor = append(out.Monitor, util.MonitorFail{Case: idx, What: f, Tags: c.Tags})
		}
		out.Stats["messages"] += o.Delivered
		out.Stats["lock-pairings"] += int(o.Pairings)
		out.Stats[fmt.Sprintf("senders/%d", c.Senders)]++
		if c.Barrier {
			out.Stats["with-barrier"]++
		}
		if c.Rounds {
			out.Stats["rounds-mode"]++
		}
	}
	out.Stats["runs"] = len(cases)
	if outPath != "" {
		out.Write(outPath)
	} else {
		enc := json.NewEncoder(os.Stdout)
		enc.Encode(out.Monitor)
		enc.Encode(out.Stats)
	}
}
