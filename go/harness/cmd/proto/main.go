// Harness for the Proto engine (C12 remote delivery integrity, C13 network FIFO): two real
// net/proto connections with fake gen.Core ends, joined through relays that re-chunk, coalesce,
// gate and record the byte streams of every pooled link.
package main

import (
	"flag"
	"fmt"
	"os"
)

func main() {
	if len(os.Args) < 2 {
		fmt.Fprintln(os.Stderr, "usage: proto <c12|c13|linkloss|lockrace|redial> [flags]")
		os.Exit(2)
	}
	fs := flag.NewFlagSet(os.Args[1], flag.ExitOnError)
	n := fs.Int("n", 100, "number of cases")
	out := fs.String("out", "", "output json")
	replay := fs.String("replay", "", "replay file (json case)")
	fs.Parse(os.Args[2:])
	switch os.Args[1] {
	case "c12":
		runC12(*n, *out, *replay)
	case "c13":
		runC13(*n, *out, *replay)
	case "flusher":
		runFlusher(*n, *out, *replay)
	case "lockrace":
		runLockRaceCmd(*n, *out, *replay)
	case "linkloss":
		runLinkLoss(*n, *out, *replay)
	case "redial":
		runRedial(*n, *out, *replay)
	default:
		fmt.Fprintln(os.Stderr, "unknown subcommand")
		os.Exit(2)
	}
}
