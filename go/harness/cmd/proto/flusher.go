package main

// C13 / C12, family "flusher": the write side of a pooled link (lib/flusher.go) on its own. Random sequences of
// Write calls - sizes from one byte to well above any buffer, back to back or with pauses around the flush
// latency - against a recording writer. Model Proto/Flusher.v: what reaches the socket is, at every moment, a
// prefix of the concatenation of the writes in the order of the Write calls, and all of it once the timer has
// fired. (A frame that overtakes an earlier one of the same link breaks the network FIFO of every pair on it.)

import (
	"bytes"
	"encoding/json"
	"fmt"
	"math/rand"
	"os"
	"sync"
	"time"

	"ergo.services/ergo/lib"
	"verifharness/util"
)

type flCase struct {
	Sizes  []int    `json:"sizes"`
	Pauses []int    `json:"pauses"` // microseconds after write k (0 = none)
	Tags   []string `json:"tags"`
}

type recWriter struct {
	mu     sync.Mutex
	out    []byte
	chunks []int
}

func (w *recWriter) Write(b []byte) (int, error) {
	w.mu.Lock()
	w.out = append(w.out, b...)
	w.chunks = append(w.chunks, len(b))
	w.mu.Unlock()
	return len(b), nil
}

func genFlCase(r *rand.Rand) flCase {
	c := flCase{Tags: []string{"flusher"}}
	n := 4 + r.Intn(40)
	for i := 0; i < n; i++ {
		var sz int
		switch r.Intn(8) {
		case 0:
			sz = 4000 + r.Intn(200) // around bufio's default buffer
		case 1:
			sz = 65000 + r.Intn(9000) // above 64 KiB
		case 2:
			sz = 8000 + r.Intn(30000)
		default:
			sz = 1 + r.Intn(300)
		}
		c.Sizes = append(c.Sizes, sz)
		p := 0
		switch r.Intn(6) {
		case 0:
			p = 1
		case 1:
			p = 20 + r.Intn(100)
		case 2:
			p = 1500
		}
		c.Pauses = append(c.Pauses, p)
	}
	return c
}

func runFlCase(c flCase) []string {
	w := &recWriter{}
	f := lib.NewFlusher(w)
	var want []byte
	for i, sz := range c.Sizes {
		b := make([]byte, sz)
		for k := range b {
			b[k] = byte((i*31 + k) % 251)
		}
		want = append(want, b...)
		if n, err := f.Write(b); err != nil || n != sz {
			return []string{fmt.Sprintf("Write %d of %d bytes returned (%d, %v)", i, sz, n, err)}
		}
		if c.Pauses[i] > 0 {
			time.Sleep(time.Duration(c.Pauses[i]) * time.Microsecond)
		}
	}
	deadline := time.Now().Add(500 * time.Millisecond)
	for time.Now().Before(deadline) {
		w.mu.Lock()
		n := len(w.out)
		w.mu.Unlock()
		if n >= len(want) {
			break
		}
		time.Sleep(200 * time.Microsecond)
	}
	w.mu.Lock()
	got := append([]byte(nil), w.out...)
	w.mu.Unlock()
	if bytes.Equal(got, want) {
		return nil
	}
	k := 0
	for k < len(got) && k < len(want) && got[k] == want[k] {
		k++
	}
	// which write does the first differing byte belong to
	pos, wi := 0, 0
	for wi < len(c.Sizes) && pos+c.Sizes[wi] <= k {
		pos += c.Sizes[wi]
		wi++
	}
	if len(got) < len(want) && k == len(got) {
		return []string{fmt.Sprintf("%d of %d bytes reached the socket 500 ms after the last Write (stranded in the buffer from write %d on)", len(got), len(want), wi)}
	}
	return []string{fmt.Sprintf("the socket did not receive the bytes in the order of the Write calls: first difference at byte %d (inside write %d of %d bytes); %d bytes written, %d received", k, wi, c.Sizes[imin(wi, len(c.Sizes)-1)], len(want), len(got))}
}

func runFlusher(n int, outPath, replay string) {
	out := util.NewOut("proto-flusher")
	var cases []flCase
	if replay != "" {
		raw, err := os.ReadFile(replay)
		if err != nil {
			panic(err)
		}
		var w struct {
			Case flCase `json:"case"`
		}
		if err := json.Unmarshal(raw, &w); err != nil || len(w.Case.Sizes) == 0 {
			panic(fmt.Sprint("bad replay file: ", err))
		}
		for i := 0; i < 20; i++ { // the flush timer decides: repeat
			cases = append(cases, w.Case)
		}
	} else {
		// small frames followed at once by a frame above 64 KiB (the seeded direct write)
		cases = append(cases, flCase{Sizes: []int{40, 70000, 40, 70000, 40, 70000, 12, 66000}, Pauses: []int{0, 0, 0, 0, 0, 0, 0, 0}, Tags: []string{"flusher", "corpus"}})
		r := util.Rng(1317)
		for len(cases) < n {
			cases = append(cases, genFlCase(r))
		}
	}
	for _, c := range cases {
		fails := runFlCase(c)
		idx := out.Add("", c)
		for _, f := range fails {
			out.Monitor = append(out.Monitor, util.MonitorFail{Case: idx, What: f, Tags: c.Tags})
		}
		out.Stats["writes"] += len(c.Sizes)
		for _, s := range c.Sizes {
			if s > 65000 {
				out.Stats["writes-above-64KiB"]++
			}
		}
	}
	out.Stats["runs"] = len(cases)
	if outPath != "" {
		out.Write(outPath)
	} else {
		enc := json.NewEncoder(os.Stdout)
		enc.Encode(out.Monitor)
		enc.Encode(out.Stats)
	}
}
